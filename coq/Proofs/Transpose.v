(* C16: proofs about the model of transpose() (Model/Transpose.v) against Spec/TransposeSpec.v. *)
From Coq Require Import NArith.
From Stam Require Import Base.Tac Base.ListAux Model.Rel Model.Offset Model.Transpose Spec.TransposeSpec
  Proofs.Rel.

(** * slices of a text *)

Lemma sub_length t b e : e <= length t -> length (sub t b e) = e - b.
Proof. intros H. unfold sub. rewrite firstn_length, skipn_length. lia. Qed.

Lemma sub_sub t b e x y : y <= e - b -> sub (sub t b e) x y = sub t (b + x) (b + y).
Proof.
  intros H. unfold sub.
  replace (b + y - (b + x)) with (y - x) by lia.
  replace (b + x) with (x + b) by lia. rewrite <- (skipn_skipn t x b).
  rewrite skipn_firstn_comm, firstn_firstn. f_equal. lia.
Qed.

(* rel_offset_text: an offset relative to a fragment selects the same text in every fragment with
   the same text *)
Lemma rel_offset_text t1 t2 b1 e1 b2 e2 x y :
  sub t1 b1 e1 = sub t2 b2 e2 -> y <= e1 - b1 -> y <= e2 - b2 ->
  sub t1 (b1 + x) (b1 + y) = sub t2 (b2 + x) (b2 + y).
Proof.
  intros H H1 H2. rewrite <- (sub_sub t1 b1 e1 x y H1), <- (sub_sub t2 b2 e2 x y H2), H. reflexivity.
Qed.

(** * boolean reflection helpers *)

Lemma text_eqb_eq a : forall b, text_eqb a b = true <-> a = b.
Proof.
  induction a as [|x a IH]; intros [|y b]; cbn [text_eqb]; split; try discriminate; try reflexivity.
  - rewrite andb_true_iff, N.eqb_eq, IH. intros [-> ->]. reflexivity.
  - intros H. inversion H; subst. rewrite andb_true_iff, N.eqb_eq, IH. split; reflexivity.
Qed.

Lemma forallb2_Forall2 {X Y} (p : X -> Y -> bool) l : forall m,
  forallb2 p l m = true <-> Forall2 (fun x y => p x y = true) l m.
Proof.
  induction l as [|x l IH]; intros [|y m]; cbn [forallb2]; split; intros H;
    try discriminate; try (constructor; fail); try (inversion H; fail).
  - apply andb_true_iff in H. destruct H as [H1 H2]. constructor; [exact H1|]. apply IH. exact H2.
  - inversion H; subst. apply andb_true_iff. split; [assumption|]. apply IH. assumption.
Qed.

Lemma Forall2_nth {X Y} (P : X -> Y -> Prop) l m dx dy :
  Forall2 P l m -> forall k, k < length l -> P (nth k l dx) (nth k m dy).
Proof.
  induction 1 as [|x y l m Hxy H IH]; intros k Hk; cbn [length] in Hk; [lia|].
  destruct k; cbn [nth]; [exact Hxy|]. apply IH. lia.
Qed.

Lemma Forall2_length' {X Y} (P : X -> Y -> Prop) l m : Forall2 P l m -> length l = length m.
Proof. induction 1; cbn [length]; congruence. Qed.

Lemma Forall2_app' {X Y} (P : X -> Y -> Prop) l1 m1 l2 m2 :
  Forall2 P l1 m1 -> Forall2 P l2 m2 -> Forall2 P (l1 ++ l2) (m1 ++ m2).
Proof. induction 1; cbn [app]; [trivial|]. intros H2. constructor; auto. Qed.

Lemma Forall2_impl' {X Y} (P Q : X -> Y -> Prop) l m :
  (forall x y, P x y -> Q x y) -> Forall2 P l m -> Forall2 Q l m.
Proof. intros H. induction 1; constructor; auto. Qed.

(** * well-formed selections *)

Definition wfts (t : ts) : Prop := tb t <= te t.
Definition wff (T : list text) (f : frag) : Prop :=
  fres f < length T /\ fb f <= fe f /\ fe f <= length (text_of T (fres f)).

Lemma in_range_wff T f : in_range T f = true <-> wff T f.
Proof.
  unfold in_range, wff. rewrite !andb_true_iff, Nat.ltb_lt, !Nat.leb_le. tauto.
Qed.

(** * TextSelection::intersection: the intersection and the remainder of the first argument *)

Lemma intersection_facts s o i rem orem : wfts s -> wfts o ->
  intersection s o = Some (i, rem, orem) ->
  tb i = Nat.max (tb s) (tb o) /\ te i = Nat.min (te s) (te o) /\ tb i <= te i
  /\ rem = (if tb s <? tb i then Some (mkts None (tb s) (tb i))
            else if te i <? te s then Some (mkts None (te i) (te s)) else None).
Proof.
  unfold wfts, intersection. intros Hs Ho.
  repeat match goal with
         | |- context [if ?c then _ else _] => let E := fresh "E" in destruct c eqn:E
         end; intros H; inversion H; subst; cbn [tb te]; repeat split; try lia;
    repeat match goal with
           | |- context [if ?c then _ else _] => let E := fresh "E" in destruct c eqn:E
           end; cbn [tb te] in *; try reflexivity; try (exfalso; lia).
Qed.

(** * scanning the fragments of one side *)

(* what a usable intersection with fragment f gives: the piece [i] starts where the text selection
   starts, lies inside f, [off] is its position inside f, and the remainder (if any) is the rest of
   the text selection to the right of a non-empty piece *)
Definition hit_ok (r : nat) (tsel : ts) (f : frag) (i : ts) (rem : option ts) (off : offset) : Prop :=
  fres f = r /\ tb i = tb tsel /\ fb f <= tb i /\ tb i <= te i /\ te i <= fe f /\ te i <= te tsel
  /\ off = mkoff (CB (tb i - fb f)) (CB (te i - fb f))
  /\ match rem with
     | None => te i = te tsel
     | Some rm => rm = mkts None (te i) (te tsel) /\ te i < te tsel /\ tb i < te i
     end.

Lemma step_offset tsel f i rem orem : wfts tsel -> fb f <= fe f ->
  intersection tsel (ts_of f) = Some (i, rem, orem) ->
  relative_offset (tb i, te i) (rng f) BeginBegin = Some (mkoff (CB (tb i - fb f)) (CB (te i - fb f))).
Proof.
  intros Ht Hf H. apply intersection_facts in H; [|exact Ht|exact Hf].
  destruct H as (Hb & He & Hbe & _). cbn [ts_of tb te] in Hb, He.
  unfold relative_offset, relative_begin, relative_end, rng. cbn [fst snd].
  replace (fb f <=? tb i) with true by (symmetry; apply Nat.leb_le; lia).
  replace (te i <=? fe f) with true by (symmetry; apply Nat.leb_le; lia).
  replace (fb f <=? te i) with true by (symmetry; apply Nat.leb_le; lia).
  reflexivity.
Qed.

Lemma step_hit r tsel f i rem orem : wfts tsel -> fb f <= fe f -> fres f = r ->
  intersection tsel (ts_of f) = Some (i, rem, orem) ->
  match rem with Some rm => (tb rm <? tb i) || Nat.eqb (tb i) (te i) = false | None => True end ->
  hit_ok r tsel f i rem (mkoff (CB (tb i - fb f)) (CB (te i - fb f))).
Proof.
  intros Ht Hf Hr H Hv. apply intersection_facts in H; [|exact Ht|exact Hf].
  destruct H as (Hb & He & Hbe & Hrem). cbn [ts_of tb te] in Hb, He. unfold wfts in Ht.
  unfold hit_ok. subst rem.
  destruct (tb tsel <? tb i) eqn:E1.
  - exfalso. cbn [tb] in Hv. rewrite E1 in Hv. discriminate.
  - apply Nat.ltb_ge in E1. destruct (te i <? te tsel) eqn:E2.
    + apply Nat.ltb_lt in E2. cbn [tb] in Hv. apply orb_false_iff in Hv. destruct Hv as [_ Hv].
      apply Nat.eqb_neq in Hv. repeat split; try lia.
    + apply Nat.ltb_ge in E2. repeat split; lia.
Qed.

Lemma scan_hit r tsel : wfts tsel -> forall fs k0 k i rem off,
  Forall (fun f => fb f <= fe f) fs ->
  scan r tsel k0 fs = SHit k i rem off ->
  exists f, k0 <= k /\ nth_error fs (k - k0) = Some f /\ hit_ok r tsel f i rem off.
Proof.
  intros Ht. induction fs as [|f fs IH]; intros k0 k i rem off Hfs H; cbn [scan] in H; [discriminate|].
  inversion Hfs as [|? ? Hf Hfs']; subst.
  assert (Hrec : scan r tsel (S k0) fs = SHit k i rem off ->
                 exists f0, k0 <= k /\ nth_error (f :: fs) (k - k0) = Some f0 /\ hit_ok r tsel f0 i rem off).
  { intros H'. destruct (IH _ _ _ _ _ Hfs' H') as (f0 & Hk & Hn & Hh). exists f0. split; [lia|]. split; [|exact Hh].
    replace (k - k0) with (S (k - S k0)) by lia. exact Hn. }
  destruct (Nat.eqb (fres f) r) eqn:Er; [|exact (Hrec H)]. apply Nat.eqb_eq in Er.
  destruct (intersection tsel (ts_of f)) as [[[i' rem'] orem']|] eqn:Ei; [|exact (Hrec H)].
  rewrite (step_offset _ _ _ _ _ Ht Hf Ei) in H.
  destruct rem' as [rm|].
  - destruct ((tb rm <? tb i') || Nat.eqb (tb i') (te i')) eqn:Ev; [exact (Hrec H)|].
    inversion H; subst. exists f. split; [lia|]. split; [rewrite Nat.sub_diag; reflexivity|].
    apply (step_hit _ _ _ _ _ _ Ht Hf eq_refl Ei). exact Ev.
  - inversion H; subst. exists f. split; [lia|]. split; [rewrite Nat.sub_diag; reflexivity|].
    apply (step_hit _ _ _ _ _ _ Ht Hf eq_refl Ei). exact I.
Qed.

Lemma scan_nopanic r tsel : wfts tsel -> forall fs k0,
  Forall (fun f => fb f <= fe f) fs -> scan r tsel k0 fs <> SPanic.
Proof.
  intros Ht. induction fs as [|f fs IH]; intros k0 Hfs; cbn [scan]; [discriminate|].
  inversion Hfs as [|? ? Hf Hfs']; subst.
  destruct (Nat.eqb (fres f) r); [|apply IH; exact Hfs'].
  destruct (intersection tsel (ts_of f)) as [[[i' rem'] orem']|] eqn:Ei; [|apply IH; exact Hfs'].
  rewrite (step_offset _ _ _ _ _ Ht Hf Ei).
  destruct rem' as [rm|]; [|discriminate].
  destruct ((tb rm <? tb i') || Nat.eqb (tb i') (te i')); [apply IH; exact Hfs'|discriminate].
Qed.

(** * selectors_per_side *)

Lemma push_at_length {X} (x : X) l : forall i, length (push_at i x l) = length l.
Proof.
  induction l as [|c l IH]; intros i; destruct i; cbn [push_at length]; try reflexivity.
  rewrite IH. reflexivity.
Qed.

Lemma nth_push_at_same {X} (x : X) l : forall i, i < length l -> nth i (push_at i x l) [] = nth i l [] ++ [x].
Proof.
  induction l as [|c l IH]; intros i Hi; cbn [length] in Hi; [lia|].
  destruct i; cbn [push_at nth]; [reflexivity|]. apply IH. lia.
Qed.

Lemma nth_push_at_other {X} (x : X) l : forall i j, i <> j -> nth j (push_at i x l) [] = nth j l [].
Proof.
  induction l as [|c l IH]; intros i j Hij; destruct i; cbn [push_at]; try reflexivity;
    destruct j; cbn [nth]; try reflexivity; try lia. apply IH. lia.
Qed.

(** * one text selection against all sides *)

Definition hit_state (s : st) (j k : nat) (it : ts) (rem : option ts) (off : offset) : st :=
  mkst (Some j) true (s_rels s ++ [(k, off)]) (push_at j (tb it, te it) (s_sels s))
       (match rem with Some _ => true | None => s_reseg s end) true
       (match rem with Some rm => rm :: s_buf s | None => s_buf s end).

Definition wfside (sd : side) : Prop := Forall (fun f => fb f <= fe f) sd.

Lemma try_sides_closed r tsel : forall sides i0 s j,
  s_side s = Some j -> j < i0 -> try_sides r tsel i0 sides s = TOk s.
Proof.
  induction sides as [|sd sides IH]; intros i0 s j Hs Hj; cbn [try_sides]; [reflexivity|].
  unfold side_open. rewrite Hs. replace (Nat.eqb j i0) with false by (symmetry; apply Nat.eqb_neq; lia).
  apply (IH _ _ j Hs). lia.
Qed.

Lemma try_sides_spec r tsel : wfts tsel -> forall sides i0 s, Forall wfside sides ->
  try_sides r tsel i0 sides s = TOk s
  \/ exists j k it rem off, i0 <= j /\ j - i0 < length sides /\ side_open s j = true
       /\ scan r tsel 0 (nth (j - i0) sides []) = SHit k it rem off
       /\ try_sides r tsel i0 sides s = TOk (hit_state s j k it rem off).
Proof.
  intros Ht. induction sides as [|sd sides IH]; intros i0 s Hw; cbn [try_sides]; [left; reflexivity|].
  inversion Hw as [|? ? Hsd Hw']; subst.
  assert (Hrec : try_sides r tsel (S i0) sides s = TOk s
     \/ exists j k it rem off, i0 <= j /\ j - i0 < length (sd :: sides) /\ side_open s j = true
       /\ scan r tsel 0 (nth (j - i0) (sd :: sides) []) = SHit k it rem off
       /\ try_sides r tsel (S i0) sides s = TOk (hit_state s j k it rem off)).
  { destruct (IH (S i0) s Hw') as [H|(j & k & it & rem & off & H1 & H2 & H3 & H4 & H5)]; [left; exact H|].
    right. exists j, k, it, rem, off. cbn [length]. repeat split; try lia; try assumption.
    replace (j - i0) with (S (j - S i0)) by lia. exact H4. }
  destruct (side_open s i0) eqn:Eo; [|exact Hrec].
  destruct (scan r tsel 0 sd) as [| |k it rem off] eqn:Es.
  - exact Hrec.
  - exfalso. exact (scan_nopanic r tsel Ht sd 0 Hsd Es).
  - right. exists i0, k, it, rem, off. cbn [length]. rewrite Nat.sub_diag. cbn [nth].
    repeat split; try lia; try assumption.
    apply (try_sides_closed r tsel sides (S i0) _ i0); [reflexivity|lia].
Qed.

(** * the invariant of the matching loops *)

(* piece p of the source with its entry (refseqnr, offset): the piece lies inside fragment
   refseqnr of side ss (a fragment in the resource of the source) and the offset is its position
   in that fragment *)
Definition good (V : list side) (r ss : nat) (p : nat * nat) (ko : nat * offset) : Prop :=
  exists f, nth_error (nth ss V []) (fst ko) = Some f /\ fres f = r /\ fb f <= fst p
            /\ fst p <= snd p /\ snd p <= fe f
            /\ snd ko = mkoff (CB (fst p - fb f)) (CB (snd p - fb f)).

(* the selectors of the source side so far *)
Definition cur (s : st) : list (nat * nat) :=
  match s_side s with Some ss => nth ss (s_sels s) [] | None => [] end.

Definition Inv (V : list side) (r : nat) (s : st) : Prop :=
  length (s_sels s) = length V /\
  match s_side s with
  | None => s_rels s = [] /\ (forall j, nth j (s_sels s) [] = [])
  | Some ss => Forall2 (good V r ss) (nth ss (s_sels s) []) (s_rels s)
               /\ (forall j, j <> ss -> nth j (s_sels s) [] = [])
  end.

Lemma hit_state_inv V r s tsel j k it rem off : wfts tsel -> Forall wfside V ->
  Inv V r s -> side_open s j = true -> j < length V ->
  scan r tsel 0 (nth j V []) = SHit k it rem off ->
  Inv V r (hit_state s j k it rem off)
  /\ cur (hit_state s j k it rem off) = cur s ++ [(tb it, te it)]
  /\ exists f, hit_ok r tsel f it rem off.
Proof.
  intros Ht Hw (Hlen & Hinv) Ho Hj Hs.
  assert (Hsd : wfside (nth j V [])).
  { rewrite Forall_forall in Hw. apply Hw. apply nth_In. exact Hj. }
  destruct (scan_hit r tsel Ht _ _ _ _ _ _ Hsd Hs) as (f & _ & Hn & Hh).
  rewrite Nat.sub_0_r in Hn.
  assert (Hg : good V r j (tb it, te it) (k, off)).
  { destruct Hh as (H1 & H2 & H3 & H4 & H5 & H6 & H7 & _). exists f. cbn [fst snd]. repeat split; assumption. }
  unfold Inv, cur, hit_state. cbn [s_side s_sels s_rels]. rewrite push_at_length.
  unfold side_open in Ho. destruct (s_side s) as [ss|] eqn:Ess.
  - apply Nat.eqb_eq in Ho. subst ss. destruct Hinv as (Hf2 & Hoth).
    rewrite nth_push_at_same by lia. repeat split.
    + exact Hlen.
    + apply Forall2_app'; [exact Hf2|]. constructor; [exact Hg|constructor].
    + intros j' Hj'. rewrite nth_push_at_other by lia. apply Hoth. exact Hj'.
    + exists f. exact Hh.
  - destruct Hinv as (Hr & Hall). rewrite nth_push_at_same by lia. rewrite Hr, Hall. cbn [app]. repeat split.
    + exact Hlen.
    + constructor; [exact Hg|constructor].
    + intros j' Hj'. rewrite nth_push_at_other by lia. apply Hall.
    + exists f. exact Hh.
Qed.

(** * the buffer walk of the complex branch *)

Definition rng_ts (t : ts) : nat * nat := (tb t, te t).

Lemma walk_inv V r : Forall wfside V -> forall fuel s s',
  Inv V r s -> Forall wfts (s_buf s) -> walk fuel r V s = TOk s' ->
  Inv V r s' /\ (forall c, s_side s = Some c -> s_side s' = Some c)
  /\ (s_buf s <> [] -> s_side s' <> None)
  /\ exists ps, cur s' = cur s ++ ps /\ is_reseg (map rng_ts (s_buf s)) ps = true.
Proof.
  intros Hw. induction fuel as [|fuel IH]; intros s s' Hinv Hbuf H; cbn [walk] in H; [discriminate|].
  destruct (s_buf s) as [|tsel rest] eqn:Eb.
  - inversion H; subst s'. split; [exact Hinv|]. split; [intros c Hc; exact Hc|]. split; [congruence|].
    exists []. rewrite app_nil_r. split; reflexivity.
  - inversion Hbuf as [|? ? Ht Hrest]; subst.
    set (s0 := mkst (s_side s) (s_found s) (s_rels s) (s_sels s) (s_reseg s) false rest) in H.
    destruct (try_sides_spec r tsel Ht V 0 s0 Hw) as [E|(j & k & it & rem & off & _ & Hj & Ho & Hs & E)];
      rewrite E in H.
    + cbn [s0 s_hit] in H. discriminate.
    + rewrite Nat.sub_0_r in Hj, Hs. cbn [hit_state s_hit] in H.
      assert (Hinv0 : Inv V r s0) by exact Hinv.
      destruct (hit_state_inv V r s0 tsel j k it rem off Ht Hw Hinv0 Ho Hj Hs) as (Hinv1 & Hcur1 & f & Hh).
      fold (hit_state s0 j k it rem off) in H.
      assert (Hbuf1 : Forall wfts (s_buf (hit_state s0 j k it rem off))).
      { cbn [hit_state s_buf s0]. destruct Hh as (_ & _ & _ & _ & _ & Hle & _ & Hrem).
        destruct rem as [rm|]; [|exact Hrest]. destruct Hrem as (-> & _ & _). constructor; [|exact Hrest].
        unfold wfts. cbn [tb te]. exact Hle. }
      destruct (IH _ _ Hinv1 Hbuf1 H) as (Hinv' & Hside' & _ & ps & Hcur' & Hre).
      split; [exact Hinv'|]. split; [|split].
      * intros c Hc. apply Hside'. cbn [hit_state s_side]. unfold side_open in Ho. cbn [s0 s_side] in Ho.
        rewrite Hc in Ho. apply Nat.eqb_eq in Ho. congruence.
      * intros _ Hn. rewrite (Hside' j eq_refl) in Hn. discriminate.
      * exists ((tb it, te it) :: ps). split.
        -- rewrite Hcur', Hcur1. change (cur s0) with (cur s). rewrite <- app_assoc. reflexivity.
        -- cbn [map is_reseg rng_ts fst snd take_chain].
           destruct Hh as (_ & Hb & _ & Hbe & _ & Hle & _ & Hrem).
           replace (Nat.eqb (tb it) (tb tsel)) with true by (symmetry; apply Nat.eqb_eq; exact Hb).
           replace (tb it <=? te it) with true by (symmetry; apply Nat.leb_le; exact Hbe).
           replace (te it <=? te tsel) with true by (symmetry; apply Nat.leb_le; exact Hle).
           cbn [andb]. cbn [hit_state s_buf s0] in Hre. destruct rem as [rm|].
           ++ destruct Hrem as (-> & Hlt & _).
              replace (Nat.eqb (te it) (te tsel)) with false by (symmetry; apply Nat.eqb_neq; lia).
              cbn [map is_reseg rng_ts tb te fst snd] in Hre. exact Hre.
           ++ replace (Nat.eqb (te it) (te tsel)) with true by (symmetry; apply Nat.eqb_eq; exact Hrem).
              exact Hre.
Qed.

(* the fuel of fuel_for always suffices *)
Definition measure (buf : list ts) : nat := fold_right (fun t acc => S (te t - tb t) + acc) 0 buf.

Lemma walk_fuel V r : Forall wfside V -> forall fuel s,
  Forall wfts (s_buf s) -> measure (s_buf s) < fuel -> walk fuel r V s <> TFuel.
Proof.
  intros Hw. induction fuel as [|fuel IH]; intros s Hbuf Hm; [lia|]. cbn [walk].
  destruct (s_buf s) as [|tsel rest] eqn:Eb; [discriminate|].
  inversion Hbuf as [|? ? Ht Hrest]; subst.
  set (s0 := mkst (s_side s) (s_found s) (s_rels s) (s_sels s) (s_reseg s) false rest).
  destruct (try_sides_spec r tsel Ht V 0 s0 Hw) as [E|(j & k & it & rem & off & _ & Hj & Ho & Hs & E)];
    rewrite E.
  - cbn [s0 s_hit]. discriminate.
  - cbn [hit_state s_hit]. fold (hit_state s0 j k it rem off). rewrite Nat.sub_0_r in Hj, Hs.
    assert (Hsd : wfside (nth j V [])).
    { rewrite Forall_forall in Hw. apply Hw. apply nth_In. exact Hj. }
    destruct (scan_hit r tsel Ht _ _ _ _ _ _ Hsd Hs) as (f & _ & _ & Hh).
    destruct Hh as (_ & Hb & _ & Hbe & _ & Hle & _ & Hrem).
    cbn [measure fold_right] in Hm. fold (measure rest) in Hm.
    apply IH; cbn [hit_state s_buf s0].
    + destruct rem as [rm|]; [|exact Hrest]. destruct Hrem as (-> & _ & _). constructor; [|exact Hrest].
      unfold wfts. cbn [tb te]. exact Hle.
    + destruct rem as [rm|].
      * destruct Hrem as (-> & Hlt & Hne). cbn [measure fold_right tb te]. fold (measure rest). lia.
      * lia.
Qed.

(** * the simple branch *)

Lemma inv_push V r s s' j k p off :
  Inv V r s -> side_open s j = true -> j < length V -> good V r j p (k, off) ->
  s_side s' = Some j -> s_rels s' = s_rels s ++ [(k, off)] -> s_sels s' = push_at j p (s_sels s) ->
  Inv V r s' /\ cur s' = cur s ++ [p].
Proof.
  intros (Hlen & Hinv) Ho Hj Hg E1 E2 E3. unfold Inv, cur. rewrite E1, E2, E3, push_at_length.
  unfold side_open in Ho. destruct (s_side s) as [ss|] eqn:Ess.
  - apply Nat.eqb_eq in Ho. subst ss. destruct Hinv as (Hf2 & Hoth).
    rewrite nth_push_at_same by lia. split; [split; [exact Hlen|split]|reflexivity].
    + apply Forall2_app'; [exact Hf2|]. constructor; [exact Hg|constructor].
    + intros j' Hj'. rewrite nth_push_at_other by lia. apply Hoth. exact Hj'.
  - destruct Hinv as (Hr & Hall). rewrite nth_push_at_same by lia. rewrite Hr, Hall. cbn [app].
    split; [split; [exact Hlen|split]|reflexivity].
    + constructor; [exact Hg|constructor].
    + intros j' Hj'. rewrite nth_push_at_other by lia. apply Hall.
Qed.

Definition simple_state (s : st) (j : nat) (it : ts) (off : offset) : st :=
  mkst (Some j) true (s_rels s ++ [(0, off)]) (push_at j (tb it, te it) (s_sels s))
       (s_reseg s) (s_hit s) (s_buf s).

Lemma simple_sides_spec r tsel : wfts tsel -> forall frs i0 s, wfside frs ->
  simple_sides r tsel i0 frs s = TOk s
  \/ exists j f it off, i0 <= j /\ nth_error frs (j - i0) = Some f /\ side_open s j = true
       /\ hit_ok r tsel f it None off
       /\ simple_sides r tsel i0 frs s = TOk (simple_state s j it off).
Proof.
  intros Ht. induction frs as [|f frs IH]; intros i0 s Hw; cbn [simple_sides]; [left; reflexivity|].
  inversion Hw as [|? ? Hf Hw']; subst.
  assert (Hrec : simple_sides r tsel (S i0) frs s = TOk s
     \/ exists j f0 it off, i0 <= j /\ nth_error (f :: frs) (j - i0) = Some f0 /\ side_open s j = true
       /\ hit_ok r tsel f0 it None off
       /\ simple_sides r tsel (S i0) frs s = TOk (simple_state s j it off)).
  { destruct (IH (S i0) s Hw') as [H|(j & f0 & it & off & H1 & H2 & H3 & H4 & H5)]; [left; exact H|].
    right. exists j, f0, it, off. split; [lia|]. split; [|split; [exact H3|split; [exact H4|exact H5]]].
    replace (j - i0) with (S (j - S i0)) by lia. exact H2. }
  destruct (Nat.eqb (fres f) r && side_open s i0) eqn:Ec; [|exact Hrec].
  apply andb_true_iff in Ec. destruct Ec as [Er Eo]. apply Nat.eqb_eq in Er.
  destruct (intersection tsel (ts_of f)) as [[[it rem] orem]|] eqn:Ei; [|exact Hrec].
  destruct rem as [rm|]; [exact Hrec|].
  rewrite (step_offset _ _ _ _ _ Ht Hf Ei).
  right. exists i0, f, it, (mkoff (CB (tb it - fb f)) (CB (te it - fb f))).
  rewrite Nat.sub_diag. split; [lia|]. split; [reflexivity|]. split; [exact Eo|]. split; [|reflexivity].
  apply (step_hit _ _ _ _ _ _ Ht Hf Er Ei). exact I.
Qed.

(* every side of a simple transposition is one text selection *)
Definition singletons (V : list side) : Prop := Forall (fun sd => length sd = 1) V.

Lemma concat_singletons V : singletons V -> forall j f,
  nth_error (concat V) j = Some f -> j < length V /\ nth j V [] = [f].
Proof.
  induction 1 as [|sd V Hsd HV IH]; intros j f H; cbn [concat] in H.
  - destruct j; discriminate.
  - destruct sd as [|g [|? ?]]; cbn [length] in Hsd; try discriminate. cbn [app] in H.
    destruct j; cbn [nth_error] in H.
    + inversion H; subst. cbn [length nth]. split; [lia|reflexivity].
    + destruct (IH _ _ H) as [H1 H2]. cbn [length nth]. split; [lia|exact H2].
Qed.

Lemma simple_all_inv V r : singletons V -> wfside (concat V) -> forall src s s',
  Inv V r s -> Forall wfts src -> simple_all r src (concat V) s = TOk s' ->
  Inv V r s' /\ (forall c, s_side s = Some c -> s_side s' = Some c)
  /\ length (cur s') <= length (cur s) + length src
  /\ (length (cur s') = length (cur s) + length src -> cur s' = cur s ++ map rng_ts src).
Proof.
  intros Hsing Hw. induction src as [|tsel src IH]; intros s s' Hinv Hsrc H; cbn [simple_all] in H.
  - inversion H; subst s'. split; [exact Hinv|]. split; [intros c Hc; exact Hc|]. cbn [length map].
    split; [lia|]. intros _. rewrite app_nil_r. reflexivity.
  - inversion Hsrc as [|? ? Ht Hsrc']; subst.
    destruct (simple_sides_spec r tsel Ht (concat V) 0 s Hw) as [E|(j & f & it & off & _ & Hn & Ho & Hh & E)];
      rewrite E in H.
    + destruct (IH _ _ Hinv Hsrc' H) as (Hinv' & Hside' & Hle & _).
      split; [exact Hinv'|]. split; [exact Hside'|]. cbn [length]. split; [lia|]. intros Heq. exfalso. lia.
    + rewrite Nat.sub_0_r in Hn. destruct (concat_singletons V Hsing _ _ Hn) as [Hj Hnth].
      assert (Hg : good V r j (tb it, te it) (0, off)).
      { destruct Hh as (H1 & H2 & H3 & H4 & H5 & H6 & H7 & _). exists f. cbn [fst snd]. rewrite Hnth.
        repeat split; try assumption. }
      destruct (inv_push V r s (simple_state s j it off) j 0 (tb it, te it) off Hinv Ho Hj Hg
                  eq_refl eq_refl eq_refl) as (Hinv1 & Hcur1).
      destruct (IH _ _ Hinv1 Hsrc' H) as (Hinv' & Hside' & Hle & Heq).
      rewrite Hcur1, app_length in Hle, Heq. cbn [length] in Hle, Heq.
      split; [exact Hinv'|]. split; [|split].
      * intros c Hc. apply Hside'. cbn [simple_state s_side]. unfold side_open in Ho. rewrite Hc in Ho.
        apply Nat.eqb_eq in Ho. congruence.
      * cbn [length]. lia.
      * cbn [length map]. intros Hl. rewrite Heq by lia. rewrite <- app_assoc. cbn [app].
        destruct Hh as (_ & Hb & _ & _ & _ & _ & _ & He). unfold rng_ts at 2. rewrite Hb, He. reflexivity.
Qed.

(** * well-formed transpositions *)

Definition WfT (T : list text) (V : list side) : Prop :=
  exists v0 rest, V = v0 :: rest
    /\ Forall (fun sd => Forall (wff T) sd /\ Forall2 (fun f g => subf T f = subf T g) sd v0) V.

Lemma wf_transp_WfT T V : wf_transp T V = true -> WfT T V.
Proof.
  unfold wf_transp. destruct V as [|v0 rest]; [discriminate|]. intros H. exists v0, rest. split; [reflexivity|].
  rewrite forallb_forall in H. apply Forall_forall. intros sd Hsd. specialize (H sd Hsd).
  apply andb_true_iff in H. destruct H as [H1 H2]. split.
  - apply Forall_forall. intros f Hf. rewrite forallb_forall in H1. apply in_range_wff. apply H1. exact Hf.
  - apply forallb2_Forall2 in H2. eapply Forall2_impl'; [|exact H2]. intros f g Hfg. unfold same_text in Hfg.
    apply text_eqb_eq. exact Hfg.
Qed.

Lemma WfT_wfside T V : WfT T V -> Forall wfside V.
Proof.
  intros (v0 & rest & -> & H). eapply Forall_impl; [|exact H]. intros sd [Hsd _].
  eapply Forall_impl; [|exact Hsd]. intros f (_ & Hf & _). exact Hf.
Qed.

Lemma WfT_nonempty T V : WfT T V -> 0 < length V.
Proof. intros (v0 & rest & -> & _). cbn [length]. lia. Qed.

(* fragment k of side j and fragment k of side j': both exist or neither, both are selections of
   their texts and have the same text *)
Lemma WfT_pair T V j j' k f : WfT T V -> j < length V -> j' < length V ->
  nth_error (nth j V []) k = Some f ->
  wff T f /\ exists g, nth_error (nth j' V []) k = Some g /\ wff T g /\ subf T f = subf T g.
Proof.
  intros (v0 & rest & EV & H) Hj Hj' Hk. rewrite Forall_forall in H.
  destruct (H (nth j V []) (nth_In _ _ Hj)) as [Hw1 H1].
  destruct (H (nth j' V []) (nth_In _ _ Hj')) as [Hw2 H2].
  assert (Hkl : k < length (nth j V [])) by (apply nth_error_Some; congruence).
  pose proof (Forall2_length' _ _ _ H1) as L1. pose proof (Forall2_length' _ _ _ H2) as L2.
  pose proof (nth_error_nth' (nth j V []) f Hkl) as E1. rewrite Hk in E1. inversion E1 as [Ef].
  assert (Hkl' : k < length (nth j' V [])) by lia.
  pose proof (nth_error_nth' (nth j' V []) f Hkl') as E2.
  rewrite Forall_forall in Hw1, Hw2. split.
  - rewrite Ef. apply Hw1. apply nth_In. exact Hkl.
  - exists (nth k (nth j' V []) f). split; [exact E2|]. split; [apply Hw2; apply nth_In; exact Hkl'|].
    pose proof (Forall2_nth _ _ _ f f H1 k Hkl) as T1. pose proof (Forall2_nth _ _ _ f f H2 k Hkl') as T2.
    cbv beta in T1, T2. rewrite T2, <- T1. congruence.
Qed.

Lemma same_text_length T f g : wff T f -> wff T g -> subf T f = subf T g -> fe f - fb f = fe g - fb g.
Proof.
  intros (_ & _ & Hf) (_ & _ & Hg) H. apply (f_equal (@length N)) in H. unfold subf in H.
  rewrite !sub_length in H by assumption. exact H.
Qed.

(** * mapping into another side *)

Definition lens_of (T : list text) : list nat := map (@length N) T.

Lemma lens_nth T i : nth i (lens_of T) 0 = length (text_of T i).
Proof. unfold lens_of, text_of. change 0 with (length (@nil N)). apply map_nth. Qed.

(* piece p of the source (in resource r) and its image g in another side *)
Definition image_ok (T : list text) (vj : side) (r : nat) (g : frag) (p : nat * nat) : Prop :=
  wff T g /\ (exists f, In f vj /\ fres f = fres g) /\ subf T g = sub (text_of T r) (fst p) (snd p).

Lemma map_rels_ok T V r ss j : WfT T V -> ss < length V -> j < length V -> forall ps rels,
  Forall2 (good V r ss) ps rels ->
  exists l, map_rels (lens_of T) (nth j V []) rels = TOk l /\ Forall2 (image_ok T (nth j V []) r) l ps.
Proof.
  intros HW Hss Hj. induction 1 as [|p [k off] ps rels Hg Hrest IH]; cbn [map_rels].
  - exists []. split; [reflexivity|constructor].
  - destruct Hg as (f & Hn & Hr & Hb & Hbe & He & Hoff). cbn [fst snd] in Hn, Hoff. subst off.
    destruct (WfT_pair T V ss j k f HW Hss Hj Hn) as (Hwf & g & Hng & Hwg & Htxt).
    rewrite Hng. pose proof (same_text_length T f g Hwf Hwg Htxt) as Hlen.
    destruct Hwg as (Hg1 & Hg2 & Hg3). rewrite lens_nth.
    unfold findtext_sel_ts, beginaligned, rng. cbn [fst snd o_begin o_end].
    replace ((fe g - fb g <? fst p - fb f) || (fe g - fb g <? snd p - fb f)) with false
      by (symmetry; apply orb_false_iff; split; apply Nat.ltb_ge; lia).
    unfold resource_ts, beginaligned. cbn [o_begin o_end].
    replace (length (text_of T (fres g)) <? fb g + (fst p - fb f)) with false by (symmetry; apply Nat.ltb_ge; lia).
    replace (length (text_of T (fres g)) <? fb g + (snd p - fb f)) with false by (symmetry; apply Nat.ltb_ge; lia).
    replace (fb g + (fst p - fb f) <=? fb g + (snd p - fb f)) with true by (symmetry; apply Nat.leb_le; lia).
    destruct IH as (l & El & Hl). rewrite El. cbn [fst snd].
    exists (mkfrag (fres g) (fb g + (fst p - fb f)) (fb g + (snd p - fb f)) :: l). split; [reflexivity|].
    constructor; [|exact Hl]. unfold image_ok, wff, subf. cbn [fres fb fe]. split; [|split].
    + repeat split; lia.
    + exists g. split; [|reflexivity]. eapply nth_error_In. exact Hng.
    + unfold subf in Htxt. rewrite Hr in Htxt.
      rewrite (rel_offset_text _ _ _ _ _ _ (fst p - fb f) (snd p - fb f) (eq_sym Htxt)) by lia.
      f_equal; lia.
Qed.

Definition frags_of (r : nat) (ps : list (nat * nat)) : list frag :=
  map (fun p => mkfrag r (fst p) (snd p)) ps.

Lemma map_sides_ok T V r ss sels rels ps : WfT T V -> ss < length V ->
  (forall j, j <> ss -> nth j sels [] = []) -> nth ss sels [] = ps -> Forall2 (good V r ss) ps rels ->
  forall suffix i0, i0 + length suffix = length V ->
  (forall m, m < length suffix -> nth m suffix [] = nth (i0 + m) V []) ->
  exists out, map_sides (lens_of T) r ss i0 suffix sels rels = TOk out /\ length out = length suffix
    /\ forall m, m < length suffix ->
         if Nat.eqb (i0 + m) ss then nth m out [] = frags_of r ps
         else Forall2 (image_ok T (nth (i0 + m) V []) r) (nth m out []) ps.
Proof.
  intros HW Hss Hoth Hps Hgood. induction suffix as [|sd suffix IH]; intros i0 Hlen Hnth; cbn [map_sides].
  - exists []. split; [reflexivity|]. split; [reflexivity|]. intros m Hm. cbn [length] in Hm. lia.
  - cbn [length] in Hlen.
    assert (Hsd : sd = nth i0 V []).
    { specialize (Hnth 0). cbn [length nth] in Hnth. rewrite Nat.add_0_r in Hnth. apply Hnth. lia. }
    destruct (IH (S i0)) as (out & Eo & Lo & Ho).
    { lia. }
    { intros m Hm. specialize (Hnth (S m)). cbn [length nth] in Hnth. rewrite Hnth by lia. f_equal. lia. }
    rewrite Eo. destruct (Nat.eqb i0 ss) eqn:Ei.
    + apply Nat.eqb_eq in Ei. subst i0. rewrite Hps.
      exists (frags_of r ps :: out). split; [reflexivity|]. split; [cbn [length]; lia|].
      intros m Hm. destruct m.
      * rewrite Nat.add_0_r, Nat.eqb_refl. reflexivity.
      * cbn [length] in Hm. specialize (Ho m). replace (ss + S m) with (S ss + m) by lia. cbn [nth]. apply Ho. lia.
    + apply Nat.eqb_neq in Ei. rewrite (Hoth i0 Ei). cbn [map app].
      destruct (map_rels_ok T V r ss i0 HW Hss ltac:(lia) ps rels Hgood) as (l & El & Hl).
      rewrite Hsd, El.
      exists (l :: out). split; [reflexivity|]. split; [cbn [length]; lia|].
      intros m Hm. destruct m.
      * rewrite Nat.add_0_r. replace (Nat.eqb i0 ss) with false by (symmetry; apply Nat.eqb_neq; exact Ei).
        cbn [nth]. exact Hl.
      * cbn [length] in Hm. specialize (Ho m). replace (i0 + S m) with (S i0 + m) by lia. cbn [nth]. apply Ho. lia.
Qed.

(** * coverage *)

Lemma take_chain_cover (sd : side) (r : nat) : forall ps x b rest,
  take_chain x b ps = Some rest ->
  Forall (fun p => exists f, In f sd /\ fres f = r /\ fb f <= fst p /\ snd p <= fe f) ps ->
  Forall (fun p => exists f, In f sd /\ fres f = r /\ fb f <= fst p /\ snd p <= fe f) rest
  /\ forall q, x <= q < b -> exists f, In f sd /\ fres f = r /\ fb f <= q /\ q < fe f.
Proof.
  induction ps as [|p ps IH]; intros x b rest H Hall; cbn [take_chain] in H; [discriminate|].
  inversion Hall as [|? ? Hp Hall']; subst.
  destruct (Nat.eqb (fst p) x && (fst p <=? snd p) && (snd p <=? b)) eqn:Ec; [|discriminate].
  apply andb_true_iff in Ec. destruct Ec as [Ec E3]. apply andb_true_iff in Ec. destruct Ec as [E1 E2].
  apply Nat.eqb_eq in E1. apply Nat.leb_le in E2, E3.
  destruct Hp as (f & Hin & Hr & Hb & He).
  destruct (Nat.eqb (snd p) b) eqn:E4.
  - apply Nat.eqb_eq in E4. inversion H; subst rest. split; [exact Hall'|].
    intros q Hq. exists f. repeat split; try assumption; lia.
  - destruct (IH _ _ _ H Hall') as (Hrest & Hcov). split; [exact Hrest|].
    intros q Hq. destruct (Nat.lt_ge_cases q (snd p)) as [Hlt|Hge].
    + exists f. repeat split; try assumption; lia.
    + apply Hcov. lia.
Qed.

Lemma covered_of_reseg (sd : side) (r : nat) : forall src ps, is_reseg src ps = true ->
  Forall (fun p => exists f, In f sd /\ fres f = r /\ fb f <= fst p /\ snd p <= fe f) ps ->
  covered sd r src = true.
Proof.
  unfold covered. induction src as [|p src IH]; intros ps H Hall; cbn [is_reseg forallb] in *; [reflexivity|].
  destruct (take_chain (fst p) (snd p) ps) as [rest|] eqn:Et; [|discriminate].
  destruct (take_chain_cover sd r _ _ _ _ Et Hall) as (Hrest & Hcov).
  apply andb_true_iff. split; [|exact (IH _ H Hrest)].
  apply forallb_forall. intros q Hq. apply in_seq in Hq.
  destruct (Hcov q ltac:(lia)) as (f & Hin & Hr & Hb & He).
  apply existsb_exists. exists f. split; [exact Hin|].
  rewrite !andb_true_iff, Nat.eqb_eq, Nat.leb_le, Nat.ltb_lt. repeat split; assumption.
Qed.

Lemma is_reseg_self : forall src, Forall (fun p => fst p <= snd p) src -> is_reseg src src = true.
Proof.
  induction 1 as [|p src Hp _ IH]; cbn [is_reseg take_chain]; [reflexivity|].
  rewrite Nat.eqb_refl. replace (fst p <=? snd p) with true by (symmetry; apply Nat.leb_le; exact Hp).
  rewrite Nat.leb_refl, Nat.eqb_refl. cbn [andb]. exact IH.
Qed.

Lemma is_reseg_nonempty src ps : src <> [] -> is_reseg src ps = true -> ps <> [].
Proof. destruct src as [|p src]; [congruence|]. intros _ H ->. cbn [is_reseg take_chain] in H. discriminate. Qed.

(** * the observation of a result *)

Lemma nth_flagged res j : j < length (r_sides res) ->
  nth j (flagged res) (0, []) =
  ((if Nat.eqb j (r_side res) then (if r_newsrc res then 2 else 1) else 0), nth j (r_sides res) []).
Proof.
  intros Hj. unfold flagged.
  set (F := fun i : nat => ((if Nat.eqb i (r_side res) then if r_newsrc res then 2 else 1 else 0, nth i (r_sides res) []) : oside)).
  rewrite (nth_indep _ (0, []) (F 0)) by (rewrite map_length, seq_length; exact Hj).
  rewrite map_nth, seq_nth by exact Hj. reflexivity.
Qed.

Lemma find_flag_none (F : nat -> oside) ss : forall m i0, ss < i0 ->
  (forall i, i <> ss -> fst (F i) = 0) -> count_flags (map F (seq i0 m)) = 0.
Proof.
  unfold count_flags. induction m as [|m IH]; intros i0 Hi HF; cbn [seq map filter]; [reflexivity|].
  rewrite (HF i0) by lia. cbn [Nat.eqb negb]. apply IH; [lia|exact HF].
Qed.

Lemma flags_unique (F : nat -> oside) ss : fst (F ss) <> 0 -> (forall i, i <> ss -> fst (F i) = 0) ->
  forall m i0, i0 <= ss < i0 + m ->
  find_flag i0 (map F (seq i0 m)) = Some ss /\ count_flags (map F (seq i0 m)) = 1.
Proof.
  intros Hss HF. induction m as [|m IH]; intros i0 Hi; [lia|]. cbn [seq map find_flag].
  unfold count_flags. cbn [filter]. destruct (F i0) as [fl x] eqn:EF. cbn [fst].
  destruct (Nat.eq_dec i0 ss) as [->|Hne].
  - rewrite EF in Hss. cbn [fst] in Hss. replace (Nat.eqb fl 0) with false by (symmetry; apply Nat.eqb_neq; exact Hss).
    split; [reflexivity|]. cbn [negb length]. f_equal. apply (find_flag_none F ss); [lia|exact HF].
  - pose proof (HF i0 Hne) as H0. rewrite EF in H0. cbn [fst] in H0. subst fl. cbn [Nat.eqb negb].
    apply IH. lia.
Qed.

(** * the result satisfies the specification *)

Lemma Forall2_map_r {X Y Z} (P : X -> Y -> Prop) (Q : X -> Z -> Prop) (h : Y -> Z) l m :
  (forall x y, P x y -> Q x (h y)) -> Forall2 P l m -> Forall2 Q l (map h m).
Proof. intros H. induction 1; cbn [map]; constructor; auto. Qed.

Lemma good_inside T V r ss ps rels : WfT T V -> ss < length V -> Forall2 (good V r ss) ps rels ->
  Forall (fun p => exists f, In f (nth ss V []) /\ wff T f /\ fres f = r /\ fb f <= fst p
                             /\ fst p <= snd p /\ snd p <= fe f) ps.
Proof.
  intros HW Hss. induction 1 as [|p ko ps rels Hg _ IH]; constructor; [|exact IH].
  destruct Hg as (f & Hn & Hr & Hb & Hbe & He & _). exists f.
  destruct (WfT_pair T V ss ss _ f HW Hss Hss Hn) as (Hwf & _).
  split; [eapply nth_error_In; exact Hn|]. split; [exact Hwf|]. repeat split; assumption.
Qed.

Lemma rng_frags_of r ps : map rng (frags_of r ps) = ps.
Proof.
  unfold frags_of. rewrite map_map. induction ps as [|[x y] ps IH]; cbn [map]; [reflexivity|].
  unfold rng at 1. cbn [fb fe fst snd]. rewrite IH. reflexivity.
Qed.

Lemma wf_src_facts T r src : wf_src T r src = true ->
  src <> [] /\ Forall (fun p => fst p <= snd p) src.
Proof.
  unfold wf_src. intros H. apply andb_true_iff in H. destruct H as [H1 H2]. split.
  - destruct src; [discriminate|congruence].
  - apply Forall_forall. intros p Hp. rewrite forallb_forall in H2. specialize (H2 p Hp).
    apply in_range_wff in H2. destruct H2 as (_ & H2 & _). exact H2.
Qed.

Lemma tail_sound T V r src cfg existing s ss res :
  WfT T V -> wf_src T r src = true ->
  Inv V r s -> s_side s = Some ss -> is_reseg src (nth ss (s_sels s) []) = true ->
  (forall c, cfg = Some c -> ss = c) ->
  match map_sides (lens_of T) r ss 0 V (s_sels s) (s_rels s) with
  | TOk sides =>
      match length (nth ss (s_sels s) []) with
      | 0 => TErr
      | _ => TOk (mkres ss (s_reseg s || negb existing) sides)
      end
  | TErr => TErr | TPanic => TPanic | TFuel => TFuel
  end = TOk res ->
  check_forward T V r src cfg (flagged res) = true.
Proof.
  intros HW Hsrc (Hlen & Hinv) Hside Hre Hcfg H. rewrite Hside in Hinv. destruct Hinv as (Hgood & Hoth).
  set (ps := nth ss (s_sels s) []) in *.
  destruct (wf_src_facts T r src Hsrc) as (Hne & Hsw).
  pose proof (is_reseg_nonempty src ps Hne Hre) as Hps.
  assert (Hss : ss < length V).
  { rewrite <- Hlen. destruct (Nat.lt_ge_cases ss (length (s_sels s))) as [Hl|Hl]; [exact Hl|].
    exfalso. apply Hps. unfold ps. apply nth_overflow. exact Hl. }
  destruct (map_sides_ok T V r ss (s_sels s) (s_rels s) ps HW Hss Hoth eq_refl Hgood V 0 eq_refl
              ltac:(intros; reflexivity)) as (out & Eo & Lo & Ho).
  rewrite Eo in H. destruct (length ps) eqn:El; [destruct ps; [congruence|discriminate]|].
  unfold side in *.
  inversion H; subst res. clear H.
  pose proof (good_inside T V r ss ps (s_rels s) HW Hss Hgood) as Hin.
  unfold check_forward.
  set (rs := mkres ss (s_reseg s || negb existing) out).
  set (F := fun i : nat => ((if Nat.eqb i (r_side rs) then if r_newsrc rs then 2 else 1 else 0, nth i (r_sides rs) []) : oside)).
  assert (Hflags : find_flag 0 (flagged rs) = Some ss /\ count_flags (flagged rs) = 1).
  { apply (flags_unique F ss).
    - unfold F. unfold rs; cbn [r_side fst]. rewrite Nat.eqb_refl. destruct (r_newsrc _); discriminate.
    - intros i Hi. unfold F. unfold rs; cbn [r_side fst]. replace (Nat.eqb i ss) with false by (symmetry; apply Nat.eqb_neq; exact Hi). reflexivity.
    - unfold rs; cbn [r_sides]. lia. }
  destruct Hflags as (Hff & Hcf). rewrite Hff, Hcf.
  assert (Hos : snd (nth ss (flagged rs) (0, [])) = frags_of r ps).
  { rewrite nth_flagged by (unfold rs; cbn [r_sides]; lia). unfold rs; cbn [snd r_sides].
    specialize (Ho ss ltac:(lia)). cbn [Nat.add] in Ho. rewrite Nat.eqb_refl in Ho. exact Ho. }
  assert (Hfl : length (flagged rs) = length out) by (unfold flagged; rewrite map_length, seq_length; reflexivity).
  rewrite Hos, Hfl.
  repeat (apply andb_true_iff; split).
  - reflexivity.
  - apply Nat.eqb_eq. exact Lo.
  - destruct cfg as [c|]; [|reflexivity]. apply Nat.eqb_eq. symmetry. apply Hcfg. reflexivity.
  - apply forallb_forall. intros g Hg. unfold frags_of in Hg. apply in_map_iff in Hg.
    destruct Hg as (p & <- & Hp). rewrite Forall_forall in Hin.
    destruct (Hin p Hp) as (f & _ & (Hf1 & Hf2 & Hf3) & Hr & Hb & Hbe & He).
    cbn [fres]. rewrite Nat.eqb_refl. cbn [andb]. apply in_range_wff. unfold wff. cbn [fres fb fe].
    subst r. repeat split; try assumption. lia.
  - rewrite rng_frags_of. exact Hre.
  - apply (covered_of_reseg _ r src ps Hre). eapply Forall_impl; [|exact Hin].
    intros p (f & H1 & _ & H3 & H4 & _ & H6). exists f. repeat split; assumption.
  - apply forallb_forall. intros j Hj. apply in_seq in Hj. destruct (Nat.eqb j ss) eqn:Ej; [reflexivity|].
    cbn [orb]. rewrite nth_flagged by (unfold rs; cbn [r_sides]; lia). unfold rs; cbn [snd r_sides].
    specialize (Ho j ltac:(lia)). cbn [Nat.add] in Ho. rewrite Ej in Ho.
    unfold target_ok. apply forallb2_Forall2. unfold frags_of.
    eapply Forall2_map_r; [|exact Ho]. intros g p (Hg1 & (f & Hf1 & Hf2) & Hg3). cbv beta.
    apply andb_true_iff. split; [apply andb_true_iff; split|].
    + apply in_range_wff. exact Hg1.
    + apply existsb_exists. exists f. split; [exact Hf1|]. apply Nat.eqb_eq. exact Hf2.
    + unfold same_text. apply text_eqb_eq. rewrite Hg3. reflexivity.
Qed.

Lemma nth_repeat_nil {X} n : forall j, nth j (repeat (@nil X) n) [] = [].
Proof. induction n as [|n IH]; intros [|j]; cbn [repeat nth]; try reflexivity. apply IH. Qed.

Lemma init_inv V r cfg buf : Inv V r (init_st (length V) cfg buf).
Proof.
  unfold Inv, init_st. cbn [s_sels s_side s_rels]. split; [apply repeat_length|].
  destruct cfg as [c|].
  - rewrite nth_repeat_nil. split; [constructor|]. intros j _. apply nth_repeat_nil.
  - split; [reflexivity|]. intros j. apply nth_repeat_nil.
Qed.

Lemma cur_init n cfg buf : cur (init_st n cfg buf) = [].
Proof. unfold cur, init_st. cbn [s_side s_sels]. destruct cfg; [apply nth_repeat_nil|reflexivity]. Qed.

Lemma rng_ts_of_rng src : map rng_ts (map ts_of_rng src) = src.
Proof.
  rewrite map_map. induction src as [|[x y] src IH]; cbn [map]; [reflexivity|]. rewrite IH. reflexivity.
Qed.

Lemma buf_wf src : Forall (fun p => fst p <= snd p) src -> Forall wfts (map ts_of_rng src).
Proof. induction 1; cbn [map]; constructor; auto. Qed.

(* transpose_text / out_wf / uncovered_fails in one: whatever transpose() returns for a well-formed
   transposition and a source inside its text passes the specification *)
Theorem transpose_sound T V r src cfg existing complex fuel res :
  wf_transp T V = true -> wf_src T r src = true -> (complex = false -> singletons V) ->
  transpose fuel (lens_of T) complex V r src cfg existing = TOk res ->
  check_forward T V r src cfg (flagged res) = true.
Proof.
  intros HwT Hsrc Hsing H. pose proof (wf_transp_WfT T V HwT) as HW.
  pose proof (WfT_wfside T V HW) as Hws.
  destruct (wf_src_facts T r src Hsrc) as (Hne & Hsw).
  pose proof (buf_wf src Hsw) as Hbuf.
  unfold transpose in H. destruct complex.
  - destruct (walk fuel r V (init_st (length V) cfg (map ts_of_rng src))) as [s| | |] eqn:Ew; try discriminate.
    destruct (s_side s) as [ss|] eqn:Es; [|discriminate].
    destruct (walk_inv V r Hws fuel _ s (init_inv V r cfg _) Hbuf Ew) as (Hinv & Hside & _ & ps & Hcur & Hre).
    rewrite cur_init in Hcur. cbn [app] in Hcur. unfold cur in Hcur. rewrite Es in Hcur.
    cbn [init_st s_buf] in Hre. rewrite rng_ts_of_rng in Hre.
    apply (tail_sound T V r src cfg existing s ss res HW Hsrc Hinv Es).
    + rewrite Hcur. exact Hre.
    + intros c Hc. subst cfg. specialize (Hside c eq_refl). congruence.
    + exact H.
  - specialize (Hsing eq_refl).
    assert (Hwc : wfside (concat V)).
    { unfold wfside. apply Forall_concat. exact Hws. }
    destruct (simple_all r (map ts_of_rng src) (concat V) (init_st (length V) cfg (map ts_of_rng src)))
      as [s| | |] eqn:Ea; try discriminate.
    destruct (s_side s) as [ss|] eqn:Es; [|discriminate].
    destruct (s_found s && Nat.eqb (length (nth ss (s_sels s) [])) (length src) && (ss <? length (s_sels s))) eqn:Ec;
      [|discriminate].
    rewrite Es in H.
    apply andb_true_iff in Ec. destruct Ec as [Ec _]. apply andb_true_iff in Ec. destruct Ec as [_ Ec].
    apply Nat.eqb_eq in Ec.
    destruct (simple_all_inv V r Hsing Hwc _ _ s (init_inv V r cfg _) Hbuf Ea) as (Hinv & Hside & _ & Heq).
    rewrite cur_init in Heq. cbn [app length] in Heq. unfold cur in Heq. rewrite Es in Heq.
    rewrite map_length in Heq. specialize (Heq Ec). rewrite rng_ts_of_rng in Heq.
    apply (tail_sound T V r src cfg existing s ss res HW Hsrc Hinv Es).
    + rewrite Heq. apply is_reseg_self. exact Hsw.
    + intros c Hc. subst cfg. specialize (Hside c eq_refl). congruence.
    + exact H.
Qed.

(** * no panic, enough fuel *)

Lemma walk_nopanic V r : Forall wfside V -> forall fuel s, Forall wfts (s_buf s) -> walk fuel r V s <> TPanic.
Proof.
  intros Hw. induction fuel as [|fuel IH]; intros s Hbuf; cbn [walk]; [discriminate|].
  destruct (s_buf s) as [|tsel rest] eqn:Eb; [discriminate|].
  inversion Hbuf as [|? ? Ht Hrest]; subst.
  set (s0 := mkst (s_side s) (s_found s) (s_rels s) (s_sels s) (s_reseg s) false rest).
  destruct (try_sides_spec r tsel Ht V 0 s0 Hw) as [E|(j & k & it & rem & off & _ & Hj & Ho & Hs & E)]; rewrite E.
  - cbn [s0 s_hit]. discriminate.
  - cbn [hit_state s_hit]. fold (hit_state s0 j k it rem off). rewrite Nat.sub_0_r in Hj, Hs.
    assert (Hsd : wfside (nth j V [])) by (rewrite Forall_forall in Hw; apply Hw; apply nth_In; exact Hj).
    destruct (scan_hit r tsel Ht _ _ _ _ _ _ Hsd Hs) as (f & _ & _ & Hh).
    destruct Hh as (_ & _ & _ & _ & _ & Hle & _ & Hrem).
    apply IH. cbn [hit_state s_buf s0]. destruct rem as [rm|]; [|exact Hrest].
    destruct Hrem as (-> & _ & _). constructor; [|exact Hrest]. unfold wfts. cbn [tb te]. exact Hle.
Qed.

Lemma simple_all_total r frs : wfside frs -> forall src s, Forall wfts src ->
  exists s', simple_all r src frs s = TOk s'.
Proof.
  intros Hw. induction src as [|tsel src IH]; intros s Hsrc; cbn [simple_all]; [exists s; reflexivity|].
  inversion Hsrc as [|? ? Ht Hsrc']; subst.
  destruct (simple_sides_spec r tsel Ht frs 0 s Hw) as [E|(j & f & it & off & _ & _ & _ & _ & E)]; rewrite E;
    apply IH; exact Hsrc'.
Qed.

Lemma measure_fuel src : measure (map ts_of_rng src) < fuel_for src.
Proof.
  unfold fuel_for. apply Nat.lt_succ_r. induction src as [|p src IH]; cbn [map measure fold_right]; [lia|].
  fold (measure (map ts_of_rng src)). unfold ts_of_rng at 1 2. cbn [tb te]. lia.
Qed.

(* with the fuel of fuel_for the model never runs out of fuel and never reaches a panic site *)
Theorem transpose_total T V r src cfg existing complex fuel :
  wf_transp T V = true -> wf_src T r src = true -> (complex = false -> singletons V) ->
  fuel_for src <= fuel ->
  transpose fuel (lens_of T) complex V r src cfg existing = TErr
  \/ exists res, transpose fuel (lens_of T) complex V r src cfg existing = TOk res.
Proof.
  intros HwT Hsrc Hsing Hfuel. pose proof (wf_transp_WfT T V HwT) as HW.
  pose proof (WfT_wfside T V HW) as Hws.
  destruct (wf_src_facts T r src Hsrc) as (Hne & Hsw).
  pose proof (buf_wf src Hsw) as Hbuf.
  assert (Htail : forall s ss, Inv V r s -> s_side s = Some ss -> is_reseg src (nth ss (s_sels s) []) = true ->
    exists out n, map_sides (lens_of T) r ss 0 V (s_sels s) (s_rels s) = TOk out /\ length (nth ss (s_sels s) []) = S n).
  { intros s ss (Hlen & Hinv) Es Hre. rewrite Es in Hinv. destruct Hinv as (Hgood & Hoth).
    pose proof (is_reseg_nonempty src _ Hne Hre) as Hps.
    assert (Hss : ss < length V).
    { rewrite <- Hlen. destruct (Nat.lt_ge_cases ss (length (s_sels s))) as [Hl|Hl]; [exact Hl|].
      exfalso. apply Hps. apply nth_overflow. exact Hl. }
    destruct (map_sides_ok T V r ss (s_sels s) (s_rels s) _ HW Hss Hoth eq_refl Hgood V 0 eq_refl
                ltac:(intros; reflexivity)) as (out & Eo & _ & _).
    exists out. destruct (nth ss (s_sels s) []) as [|p ps] eqn:E; [congruence|]. exists (length ps). split; [exact Eo|reflexivity]. }
  unfold transpose. destruct complex.
  - pose proof (walk_nopanic V r Hws fuel (init_st (length V) cfg (map ts_of_rng src)) Hbuf) as Hnp.
    pose proof (walk_fuel V r Hws fuel (init_st (length V) cfg (map ts_of_rng src)) Hbuf
                  ltac:(cbn [init_st s_buf]; pose proof (measure_fuel src); lia)) as Hnf.
    destruct (walk fuel r V (init_st (length V) cfg (map ts_of_rng src))) as [s| | |] eqn:Ew; try congruence;
      [|left; reflexivity].
    destruct (s_side s) as [ss|] eqn:Es; [|left; reflexivity].
    destruct (walk_inv V r Hws fuel _ s (init_inv V r cfg _) Hbuf Ew) as (Hinv & _ & _ & ps & Hcur & Hre).
    rewrite cur_init in Hcur. cbn [app] in Hcur. unfold cur in Hcur. rewrite Es in Hcur.
    cbn [init_st s_buf] in Hre. rewrite rng_ts_of_rng in Hre. rewrite <- Hcur in Hre.
    destruct (Htail s ss Hinv Es Hre) as (out & n & Eo & En). rewrite Eo, En. right. eexists. reflexivity.
  - specialize (Hsing eq_refl).
    assert (Hwc : wfside (concat V)) by (unfold wfside; apply Forall_concat; exact Hws).
    destruct (simple_all_total r (concat V) Hwc (map ts_of_rng src) (init_st (length V) cfg (map ts_of_rng src)) Hbuf)
      as (s & Ea). rewrite Ea.
    destruct (s_side s) as [ss|] eqn:Es; [|left; reflexivity].
    destruct (s_found s && Nat.eqb (length (nth ss (s_sels s) [])) (length src) && (ss <? length (s_sels s))) eqn:Ec;
      [|left; reflexivity].
    rewrite Es.
    apply andb_true_iff in Ec. destruct Ec as [Ec _]. apply andb_true_iff in Ec. destruct Ec as [_ Ec].
    apply Nat.eqb_eq in Ec.
    destruct (simple_all_inv V r Hsing Hwc _ _ s (init_inv V r cfg _) Hbuf Ea) as (Hinv & _ & _ & Heq).
    rewrite cur_init in Heq. cbn [app length] in Heq. unfold cur in Heq. rewrite Es in Heq.
    rewrite map_length in Heq. specialize (Heq Ec). rewrite rng_ts_of_rng in Heq.
    assert (Hre : is_reseg src (nth ss (s_sels s) []) = true) by (rewrite Heq; apply is_reseg_self; exact Hsw).
    destruct (Htail s ss Hinv Es Hre) as (out & n & Eo & En). rewrite Eo, En. right. eexists. reflexivity.
Qed.

(* uncovered_fails: a source with a codepoint outside every fragment (in its resource) of every
   side cannot be transposed *)
Theorem uncovered_fails T V r src cfg existing complex fuel :
  wf_transp T V = true -> wf_src T r src = true -> (complex = false -> singletons V) ->
  (forall s, covered (nth s V []) r src = false) ->
  forall res, transpose fuel (lens_of T) complex V r src cfg existing <> TOk res.
Proof.
  intros HwT Hsrc Hsing Hunc res H. pose proof (transpose_sound _ _ _ _ _ _ _ _ _ HwT Hsrc Hsing H) as Hc.
  unfold check_forward in Hc. destruct (find_flag 0 (flagged res)) as [s|]; [|discriminate].
  repeat (apply andb_true_iff in Hc; destruct Hc as [Hc ?]).
  rewrite Hunc in *. discriminate.
Qed.

(** * the entry point for annotations, and the run-time form of the hypotheses *)

Lemma transpose_annotation_eq fuel lens complex V r src cfg : src <> [] ->
  transpose_annotation fuel lens complex V (frags_of r src) cfg = transpose fuel lens complex V r src cfg true.
Proof.
  intros Hne. unfold transpose_annotation. destruct src as [|p src]; [congruence|].
  cbn [frags_of map fres]. change (map (fun p0 => mkfrag r (fst p0) (snd p0)) src) with (frags_of r src).
  replace (forallb (fun g => Nat.eqb (fres g) r) (mkfrag r (fst p) (snd p) :: frags_of r src)) with true.
  - change (mkfrag r (fst p) (snd p) :: frags_of r src) with (frags_of r (p :: src)). rewrite rng_frags_of. reflexivity.
  - symmetry. apply forallb_forall. intros g Hg. change (mkfrag r (fst p) (snd p) :: frags_of r src) with (frags_of r (p :: src)) in Hg.
    unfold frags_of in Hg. apply in_map_iff in Hg. destruct Hg as (q & <- & _). cbn [fres]. apply Nat.eqb_refl.
Qed.

Lemma wf_input_facts T complex V r src : wf_input T complex V r src = true ->
  wf_transp T V = true /\ wf_src T r src = true /\ (complex = false -> singletons V).
Proof.
  unfold wf_input. intros H. apply andb_true_iff in H. destruct H as [H H3]. apply andb_true_iff in H.
  destruct H as [H1 H2]. split; [exact H1|]. split; [exact H2|]. intros ->. cbn [orb] in H3.
  unfold singletons. apply Forall_forall. intros sd Hsd. rewrite forallb_forall in H3. apply Nat.eqb_eq. apply H3. exact Hsd.
Qed.

(** * transposing back over the new transposition *)

Lemma intersection_self t : tb t <= te t -> intersection t t = Some (mkts None (tb t) (te t), None, None).
Proof.
  intros H. unfold intersection.
  repeat match goal with
         | |- context [if ?c then _ else _] => let E := fresh "E" in destruct c eqn:E
         end; try reflexivity; exfalso; lia.
Qed.

Lemma apart_none f g : fb f <= fe f -> fb g <= fe g -> fres f = fres g -> apart f g = true ->
  intersection (ts_of f) (ts_of g) = None.
Proof.
  intros Hf Hg Hr H. unfold apart in H. rewrite Hr, Nat.eqb_refl in H. cbn [negb orb] in H.
  unfold intersection, ts_of. cbn [tb te].
  repeat match goal with
         | _ : context [if ?c then _ else _] |- _ => let E := fresh "E" in destruct c eqn:E
         | |- context [if ?c then _ else _] => let E := fresh "E" in destruct c eqn:E
         end; try reflexivity; exfalso; lia.
Qed.

Lemma apart_sym f g : apart f g = apart g f.
Proof.
  unfold apart. rewrite (Nat.eqb_sym (fres f) (fres g)).
  rewrite (orb_comm (Nat.eqb (fb f) (fe f)) (Nat.eqb (fb g) (fe g))).
  destruct (Nat.eqb (fb g) (fe g) || Nat.eqb (fb f) (fe f)); f_equal; apply orb_comm.
Qed.

Definition full (f : frag) : offset := mkoff (CB (fb f - fb f)) (CB (fe f - fb f)).

Lemma scan_exact r f post : fres f = r -> fb f <= fe f -> forall pre k0,
  Forall (fun g => fb g <= fe g) pre ->
  (forall g, In g pre -> fres g = r -> apart g f = true) ->
  scan r (ts_of f) k0 (pre ++ f :: post) = SHit (k0 + length pre) (ts_of f) None (full f).
Proof.
  intros Hr Hf. induction pre as [|g pre IH]; intros k0 Hw Hap; cbn [app scan length].
  - rewrite Hr, Nat.eqb_refl. rewrite intersection_self by exact Hf. cbn [ts_of tb te].
    unfold relative_offset, relative_begin, relative_end, rng. cbn [fst snd].
    rewrite !Nat.leb_refl. replace (fb f <=? fe f) with true by (symmetry; apply Nat.leb_le; exact Hf).
    cbn [andb]. rewrite Nat.add_0_r. reflexivity.
  - inversion Hw as [|? ? Hg Hw']; subst.
    replace (k0 + S (length pre)) with (S k0 + length pre) by lia.
    destruct (Nat.eqb (fres g) (fres f)) eqn:Er.
    + apply Nat.eqb_eq in Er.
      rewrite (apart_none f g Hf Hg (eq_sym Er)) by (rewrite apart_sym; apply Hap; [left; reflexivity|exact Er]).
      apply IH; [exact Hw'|]. intros g' Hg'. apply Hap. right. exact Hg'.
    + apply IH; [exact Hw'|]. intros g' Hg'. apply Hap. right. exact Hg'.
Qed.

Lemma scan_other_res r tsel : forall fs k0, (forall g, In g fs -> fres g <> r) -> scan r tsel k0 fs = SNo.
Proof.
  induction fs as [|g fs IH]; intros k0 H; cbn [scan]; [reflexivity|].
  replace (Nat.eqb (fres g) r) with false by (symmetry; apply Nat.eqb_neq; apply H; left; reflexivity).
  apply IH. intros g' Hg'. apply H. right. exact Hg'.
Qed.

(* the side is known to be j, or it is still open and no earlier side lies in resource r *)
Definition side_is (O : list side) (r j : nat) (s : st) : Prop :=
  s_side s = Some j
  \/ (s_side s = None /\ forall i g, i < j -> In g (nth i O []) -> fres g <> r).

Lemma try_sides_at O r j tsel k it rem off : forall suffix i0 s,
  side_is O r j s -> i0 <= j -> j - i0 < length suffix ->
  (forall m, m < length suffix -> nth m suffix [] = nth (i0 + m) O []) ->
  scan r tsel 0 (nth j O []) = SHit k it rem off ->
  try_sides r tsel i0 suffix s = TOk (hit_state s j k it rem off).
Proof.
  induction suffix as [|sd suffix IH]; intros i0 s Hs Hi Hj Hnth Hscan; cbn [length] in Hj; [lia|].
  cbn [try_sides].
  assert (Hsd : sd = nth i0 O []).
  { specialize (Hnth 0). cbn [length nth] in Hnth. rewrite Nat.add_0_r in Hnth. apply Hnth. lia. }
  assert (Hnth' : forall m, m < length suffix -> nth m suffix [] = nth (S i0 + m) O []).
  { intros m Hm. specialize (Hnth (S m)). cbn [length nth] in Hnth. rewrite Hnth by lia. f_equal. lia. }
  destruct (Nat.eq_dec i0 j) as [->|Hne].
  - replace (side_open s j) with true.
    + rewrite Hsd, Hscan. apply (try_sides_closed r tsel suffix (S j) _ j); [reflexivity|lia].
    + unfold side_open. destruct Hs as [-> | [-> _]]; [rewrite Nat.eqb_refl|]; reflexivity.
  - destruct Hs as [Hs | [Hs Hres]].
    + unfold side_open. rewrite Hs. replace (Nat.eqb j i0) with false by (symmetry; apply Nat.eqb_neq; lia).
      apply IH; [left; exact Hs|lia|lia|exact Hnth'|exact Hscan].
    + unfold side_open. rewrite Hs. rewrite Hsd.
      rewrite scan_other_res by (intros g Hg; apply (Hres i0 g); [lia|exact Hg]).
      apply IH; [right; split; assumption|lia|lia|exact Hnth'|exact Hscan].
Qed.

Fixpoint mk_rels (k0 : nat) (fs : list frag) : list (nat * offset) :=
  match fs with [] => [] | f :: fs' => (k0, full f) :: mk_rels (S k0) fs' end.

Lemma pairwise_apart_app pre f post : pairwise_apart (pre ++ f :: post) = true ->
  forall g, In g pre -> apart g f = true.
Proof.
  induction pre as [|h pre IH]; intros H g Hg; [destruct Hg|]. cbn [app pairwise_apart] in H.
  apply andb_true_iff in H. destruct H as [H1 H2]. destruct Hg as [->|Hg].
  - rewrite forallb_forall in H1. apply H1. apply in_or_app. right. left. reflexivity.
  - apply IH; assumption.
Qed.

(* the walk over the fragments of side j themselves: every one is found whole in itself *)
Lemma walk_back O r j fs : nth j O [] = fs -> j < length O -> Forall (fun g => fb g <= fe g) fs ->
  Forall (fun g => fres g = r) fs -> pairwise_apart fs = true ->
  forall post pre s fuel, fs = pre ++ post -> s_buf s = map ts_of post -> side_is O r j s ->
  length post < fuel ->
  exists s', walk fuel r O s = TOk s' /\ (post <> [] -> s_side s' = Some j)
    /\ (s_side s = Some j -> s_side s' = Some j)
    /\ s_rels s' = s_rels s ++ mk_rels (length pre) post
    /\ s_sels s' = fold_left (fun l f => push_at j (rng f) l) post (s_sels s)
    /\ s_reseg s' = s_reseg s.
Proof.
  intros Hfs Hj Hw Hres Hap. induction post as [|f post IH]; intros pre s fuel Hsplit Hbuf Hside Hfuel.
  - destruct fuel; [cbn [length] in Hfuel; lia|]. cbn [walk]. rewrite Hbuf. cbn [map].
    exists s. cbn [mk_rels fold_left]. rewrite app_nil_r. repeat split; try reflexivity; try congruence; try (intros H; exact H).
  - destruct fuel; [cbn [length] in Hfuel; lia|]. cbn [walk]. rewrite Hbuf. cbn [map].
    set (s0 := mkst (s_side s) (s_found s) (s_rels s) (s_sels s) (s_reseg s) false (map ts_of post)).
    assert (Hf : fb f <= fe f /\ fres f = r).
    { rewrite Forall_forall in Hw, Hres. split; [apply Hw|apply Hres]; rewrite Hsplit; apply in_or_app; right; left; reflexivity. }
    assert (Hscan : scan r (ts_of f) 0 (nth j O []) = SHit (0 + length pre) (ts_of f) None (full f)).
    { rewrite Hfs, Hsplit. apply scan_exact; [apply Hf|apply Hf| |].
      - rewrite Hsplit in Hw. apply Forall_app in Hw. apply Hw.
      - intros g Hg _. apply (pairwise_apart_app pre f post); [rewrite <- Hsplit; exact Hap|exact Hg]. }
    rewrite (try_sides_at O r j (ts_of f) _ _ _ _ O 0 s0 Hside ltac:(lia) ltac:(lia) ltac:(intros; reflexivity) Hscan).
    cbn [hit_state s_hit]. fold (hit_state s0 j (0 + length pre) (ts_of f) None (full f)).
    destruct (IH (pre ++ [f]) (hit_state s0 j (0 + length pre) (ts_of f) None (full f)) fuel) as (s' & Ew & _ & Hs2 & Hr & Hsel & Hrs).
    + rewrite <- app_assoc. exact Hsplit.
    + reflexivity.
    + left. reflexivity.
    + cbn [length] in Hfuel. lia.
    + exists s'. split; [exact Ew|]. split; [intros _; apply Hs2; reflexivity|]. split; [intros _; apply Hs2; reflexivity|].
      cbn [hit_state s_rels s_sels s_reseg s0] in Hr, Hsel, Hrs. split; [|split].
      * rewrite Hr, <- app_assoc. cbn [app mk_rels]. rewrite app_length. cbn [length]. do 3 f_equal. lia.
      * rewrite Hsel. cbn [fold_left ts_of tb te rng]. reflexivity.
      * exact Hrs.
Qed.

Lemma Forall2_common {X Y} (P : X -> Y -> Prop) l : forall m n,
  Forall2 P l n -> Forall2 P m n -> Forall2 (fun x y => exists z, P x z /\ P y z) l m.
Proof.
  induction l as [|x l IH]; intros m n H1 H2; inversion H1; subst; inversion H2; subst; constructor.
  - eexists; split; eassumption.
  - eapply IH; eassumption.
Qed.

Lemma WfT_sides T V j i : WfT T V -> j < length V -> i < length V ->
  Forall2 (fun f g => wff T g /\ fe f - fb f = fe g - fb g) (nth j V []) (nth i V []).
Proof.
  intros (v0 & rest & EV & H) Hj Hi. rewrite Forall_forall in H.
  destruct (H (nth j V []) (nth_In _ _ Hj)) as [Hw1 H1].
  destruct (H (nth i V []) (nth_In _ _ Hi)) as [Hw2 H2].
  pose proof (Forall2_common _ _ _ _ H1 H2) as H3.
  assert (H4 : Forall2 (fun f g => (wff T f /\ wff T g) /\ exists z, subf T f = subf T z /\ subf T g = subf T z)
                       (nth j V []) (nth i V [])).
  { clear H1 H2. induction H3 as [|f g l m Hfg _ IH]; constructor.
    - inversion Hw1; inversion Hw2; subst. split; [split; assumption|exact Hfg].
    - inversion Hw1; inversion Hw2; subst. apply IH; assumption. }
  eapply Forall2_impl'; [|exact H4]. intros f g ((Hf & Hg) & z & E1 & E2). split; [exact Hg|].
  apply (same_text_length T f g Hf Hg). congruence.
Qed.

Lemma map_rels_full T sd : forall fpost gpost,
  Forall2 (fun f g => wff T g /\ fe f - fb f = fe g - fb g) fpost gpost -> forall k0,
  (forall m, m < length gpost -> nth_error sd (k0 + m) = nth_error gpost m) ->
  map_rels (lens_of T) sd (mk_rels k0 fpost) = TOk gpost.
Proof.
  induction 1 as [|f g fpost gpost (Hg & Hlen) _ IH]; intros k0 Hn; cbn [mk_rels map_rels]; [reflexivity|].
  pose proof (Hn 0 ltac:(cbn [length]; lia)) as H0. rewrite Nat.add_0_r in H0. cbn [nth_error] in H0. rewrite H0.
  destruct Hg as (Hg1 & Hg2 & Hg3). rewrite lens_nth.
  unfold findtext_sel_ts, beginaligned, rng, full. cbn [fst snd o_begin o_end].
  replace ((fe g - fb g <? fb f - fb f) || (fe g - fb g <? fe f - fb f)) with false
    by (symmetry; apply orb_false_iff; split; apply Nat.ltb_ge; lia).
  unfold resource_ts, beginaligned. cbn [o_begin o_end].
  replace (length (text_of T (fres g)) <? fb g + (fb f - fb f)) with false by (symmetry; apply Nat.ltb_ge; lia).
  replace (length (text_of T (fres g)) <? fb g + (fe f - fb f)) with false by (symmetry; apply Nat.ltb_ge; lia).
  replace (fb g + (fb f - fb f) <=? fb g + (fe f - fb f)) with true by (symmetry; apply Nat.leb_le; lia).
  rewrite IH.
  - cbn [fst snd]. f_equal. f_equal. destruct g as [gr gb ge]. cbn [fres fb fe] in *. f_equal; lia.
  - intros m Hm. specialize (Hn (S m) ltac:(cbn [length]; lia)). cbn [nth_error] in Hn.
    rewrite <- Hn. f_equal. lia.
Qed.

Lemma frags_of_rng r fs : Forall (fun g => fres g = r) fs -> frags_of r (map rng fs) = fs.
Proof.
  induction 1 as [|g fs Hg _ IH]; cbn [map frags_of]; [reflexivity|]. fold (frags_of r (map rng fs)). rewrite IH.
  destruct g as [gr gb ge]. cbn [fres] in Hg. subst gr. reflexivity.
Qed.

Lemma map_sides_back T O r j fs sels : WfT T O -> j < length O -> nth j O [] = fs ->
  Forall (fun g => fres g = r) fs ->
  nth j sels [] = map rng fs -> (forall i, i <> j -> nth i sels [] = []) ->
  forall suffix i0, i0 + length suffix = length O ->
  (forall m, m < length suffix -> nth m suffix [] = nth (i0 + m) O []) ->
  map_sides (lens_of T) r j i0 suffix sels (mk_rels 0 fs) = TOk suffix.
Proof.
  intros HW Hj Hfs Hres Hsel Hoth. induction suffix as [|sd suffix IH]; intros i0 Hlen Hnth; cbn [map_sides]; [reflexivity|].
  cbn [length] in Hlen.
  assert (Hsd : sd = nth i0 O []).
  { specialize (Hnth 0). cbn [length nth] in Hnth. rewrite Nat.add_0_r in Hnth. apply Hnth. lia. }
  rewrite (IH (S i0)).
  - destruct (Nat.eqb i0 j) eqn:Ei.
    + apply Nat.eqb_eq in Ei. subst i0. rewrite Hsel. fold (frags_of r (map rng fs)). rewrite frags_of_rng by exact Hres.
      rewrite Hsd, Hfs. reflexivity.
    + apply Nat.eqb_neq in Ei. rewrite (Hoth i0 Ei). cbn [map app].
      rewrite (map_rels_full T sd fs sd) with (k0 := 0).
      * reflexivity.
      * rewrite Hsd, <- Hfs. apply WfT_sides; [exact HW|exact Hj|lia].
      * intros m _. reflexivity.
  - lia.
  - intros m Hm. specialize (Hnth (S m)). cbn [length nth] in Hnth. rewrite Hnth by lia. f_equal. lia.
Qed.

Lemma fold_push_nth {X} (h : X -> nat * nat) j post : forall l, j < length l ->
  nth j (fold_left (fun l f => push_at j (h f) l) post l) [] = nth j l [] ++ map h post
  /\ forall i, i <> j -> nth i (fold_left (fun l f => push_at j (h f) l) post l) [] = nth i l [].
Proof.
  induction post as [|f post IH]; intros l Hl; cbn [fold_left map].
  - rewrite app_nil_r. split; [reflexivity|intros; reflexivity].
  - destruct (IH (push_at j (h f) l)) as (H1 & H2); [rewrite push_at_length; exact Hl|]. split.
    + rewrite H1, nth_push_at_same by exact Hl. rewrite <- app_assoc. reflexivity.
    + intros i Hi. rewrite H2 by exact Hi. apply nth_push_at_other. lia.
Qed.

Lemma length_lt_fuel src : length src < fuel_for src.
Proof.
  unfold fuel_for. apply Nat.lt_succ_r. induction src as [|p src IH]; cbn [length fold_right]; lia.
Qed.

Lemma transpose_back_aux T O j cfg fuel fs r :
  WfT T O -> j < length O -> nth j O [] = fs -> fs <> [] ->
  Forall (fun g => fres g = r) fs -> pairwise_apart fs = true ->
  (cfg = Some j \/ (cfg = None /\ forall i g, i < j -> In g (nth i O []) -> fres g <> r)) ->
  fuel_for (map rng fs) <= fuel ->
  transpose fuel (lens_of T) true O r (map rng fs) cfg true = TOk (mkres j false O).
Proof.
  intros HW Hj Efs Hne Hres Hap Hcfg Hfuel.
  assert (Hw : Forall (fun g => fb g <= fe g) fs).
  { pose proof (WfT_wfside T O HW) as Hws. rewrite Forall_forall in Hws. rewrite <- Efs. apply Hws. apply nth_In. exact Hj. }
  unfold transpose.
  assert (Hbuf : map ts_of_rng (map rng fs) = map ts_of fs) by (rewrite map_map; reflexivity).
  rewrite Hbuf.
  assert (Hside : side_is O r j (init_st (length O) cfg (map ts_of fs))).
  { destruct Hcfg as [->|[-> Honly]]; [left; reflexivity|]. right. split; [reflexivity|exact Honly]. }
  destruct (walk_back O r j fs Efs Hj Hw Hres Hap fs [] (init_st (length O) cfg (map ts_of fs)) fuel eq_refl eq_refl Hside)
    as (s' & Ew & Hs1 & _ & Hr & Hsel & Hrs).
  { pose proof (length_lt_fuel (map rng fs)) as Hl. rewrite map_length in Hl. lia. }
  rewrite Ew. rewrite Hs1 by exact Hne.
  cbn [init_st s_rels s_sels s_reseg app length] in Hr, Hsel, Hrs.
  destruct (fold_push_nth rng j fs (repeat [] (length O)) ltac:(rewrite repeat_length; exact Hj)) as (Hn1 & Hn2).
  rewrite <- Hsel in Hn1, Hn2. rewrite nth_repeat_nil in Hn1. cbn [app] in Hn1.
  rewrite Hr. rewrite (map_sides_back T O r j fs (s_sels s') HW Hj Efs Hres Hn1).
  - rewrite Hn1, map_length. destruct fs as [|f fs']; [congruence|]. cbn [length]. rewrite Hrs. reflexivity.
  - intros i Hi. rewrite Hn2 by exact Hi. apply nth_repeat_nil.
  - reflexivity.
  - intros; reflexivity.
Qed.

(* transpose_back: the fragments of side j of a (new) transposition, transposed over it from side
   j, come back with exactly the offsets the transposition holds on every side *)
Theorem transpose_back T O j cfg fuel :
  wf_transp T O = true -> j < length O ->
  single_res (nth j O []) = true -> pairwise_apart (nth j O []) = true ->
  (cfg = Some j \/ (cfg = None /\ only_side_in_res O j = true)) ->
  fuel_for (map rng (nth j O [])) <= fuel ->
  transpose_annotation fuel (lens_of T) true O (nth j O []) cfg = TOk (mkres j false O).
Proof.
  intros HwT Hj Hsr Hap Hcfg Hfuel. pose proof (wf_transp_WfT T O HwT) as HW.
  destruct (nth j O []) as [|f0 fs0] eqn:Efs; [discriminate|].
  unfold transpose_annotation. unfold single_res in Hsr. rewrite Hsr.
  apply (transpose_back_aux T O j cfg fuel (f0 :: fs0) (fres f0) HW Hj Efs); try assumption.
  - discriminate.
  - apply Forall_forall. intros g Hg. rewrite forallb_forall in Hsr. apply Nat.eqb_eq. apply Hsr. exact Hg.
  - destruct Hcfg as [->|[-> Honly]]; [left; reflexivity|]. right. split; [reflexivity|].
    intros i g Hi Hg. unfold only_side_in_res in Honly. unfold side in *. rewrite Efs in Honly. rewrite forallb_forall in Honly.
    specialize (Honly i ltac:(apply in_seq; lia)). replace (Nat.eqb i j) with false in Honly by (symmetry; apply Nat.eqb_neq; lia).
    cbn [orb] in Honly. rewrite forallb_forall in Honly. specialize (Honly g Hg). apply negb_true_iff in Honly.
    apply Nat.eqb_neq in Honly. exact Honly.
Qed.

Lemma flagged_back O j : j < length O -> flagged (mkres j false O) = expected_back O j.
Proof. intros _. reflexivity. Qed.

(** * the new transposition is a transposition again *)

Lemma Forall2_sym_trans {X} (P : X -> X -> Prop) :
  (forall x y, P x y -> P y x) -> (forall x y z, P x y -> P y z -> P x z) ->
  forall l m n, Forall2 P l n -> Forall2 P m n -> Forall2 P l m.
Proof.
  intros Hs Ht. induction l as [|x l IH]; intros m n H1 H2; inversion H1; subst; inversion H2; subst; constructor.
  - eapply Ht; [eassumption|]. apply Hs. assumption.
  - eapply IH; eassumption.
Qed.

Lemma Forall2_refl' {X} (P : X -> X -> Prop) l : (forall x, P x x) -> Forall2 P l l.
Proof. intros H. induction l; constructor; auto. Qed.

(* new_transposition_wf: the sides read back from a successful transposition satisfy WfTransp *)
Theorem new_transposition_ok T V r src cfg O :
  wf_transp T V = true -> check_forward T V r src cfg O = true -> new_transposition_wf T O = true.
Proof.
  intros HV H. unfold check_forward in H. destruct (find_flag 0 O) as [s|] eqn:Ef; [|discriminate].
  repeat (apply andb_true_iff in H; destruct H as [H ?]).
  rename H0 into Htargets, H1 into Hcov, H2 into Hre, H3 into Hos, H4 into Hcfg, H5 into Hlen.
  apply Nat.eqb_eq in Hlen.
  set (os := snd (nth s O (0, []))) in *.
  (* every side is in range and has piecewise the text of the source side *)
  assert (Hall : forall j, j < length O ->
            Forall (fun g => in_range T g = true) (snd (nth j O (0, [])))
            /\ Forall2 (fun g p => same_text T g p = true) (snd (nth j O (0, []))) os).
  { intros j Hj. rewrite forallb_forall in Htargets. specialize (Htargets j ltac:(apply in_seq; lia)).
    destruct (Nat.eqb j s) eqn:Ejs.
    - apply Nat.eqb_eq in Ejs. subst j. fold os. split.
      + apply Forall_forall. intros g Hg. rewrite forallb_forall in Hos. specialize (Hos g Hg).
        apply andb_true_iff in Hos. apply Hos.
      + apply Forall2_refl'. intros g. unfold same_text. apply text_eqb_eq. reflexivity.
    - cbn [orb] in Htargets. unfold target_ok in Htargets. apply forallb2_Forall2 in Htargets. split.
      + clear - Htargets. induction Htargets as [|g p l m Hgp _ IH]; constructor; [|exact IH].
        apply andb_true_iff in Hgp. destruct Hgp as [Hgp _]. apply andb_true_iff in Hgp. apply Hgp.
      + eapply Forall2_impl'; [|exact Htargets]. intros g p Hgp. cbv beta in Hgp.
        apply andb_true_iff in Hgp. apply Hgp. }
  unfold new_transposition_wf, wf_transp.
  destruct O as [|o0 O'] eqn:EO; [unfold wf_transp in HV; destruct V; [discriminate|cbn [length] in Hlen; discriminate]|].
  cbn [map]. rewrite <- EO in *. apply forallb_forall. intros sd Hsd.
  assert (Hsd' : In sd (map snd O)) by (rewrite EO; exact Hsd).
  apply (In_nth _ _ []) in Hsd'. destruct Hsd' as (j & Hj & Hnth). rewrite map_length in Hj.
  assert (Enth : snd (nth j O (0, [])) = sd).
  { rewrite <- Hnth. change (@nil frag) with (snd ((0, []) : oside)). rewrite map_nth. reflexivity. }
  destruct (Hall j Hj) as (Hr & Ht). rewrite Enth in Hr, Ht.
  destruct (Hall 0 ltac:(rewrite EO; cbn [length]; lia)) as (_ & Ht0). rewrite EO in Ht0 at 1. cbn [nth] in Ht0.
  apply andb_true_iff. split.
  - apply forallb_forall. rewrite Forall_forall in Hr. exact Hr.
  - apply forallb2_Forall2.
    apply (Forall2_sym_trans (fun g p => same_text T g p = true)) with (n := os); [| |exact Ht|exact Ht0].
    + intros x y Hxy. unfold same_text in *. apply text_eqb_eq. apply text_eqb_eq in Hxy. congruence.
    + intros x y z Hxy Hyz. unfold same_text in *. apply text_eqb_eq. apply text_eqb_eq in Hxy, Hyz. congruence.
Qed.

(** * what the specification says about the texts *)

Lemma firstn_add {X} (l : list X) : forall n m, firstn (n + m) l = firstn n l ++ firstn m (skipn n l).
Proof.
  induction l as [|a l IH]; intros n m.
  - rewrite skipn_nil, !firstn_nil. reflexivity.
  - destruct n; cbn [Nat.add firstn skipn app]; [reflexivity|]. rewrite IH. reflexivity.
Qed.

Lemma sub_app (t : text) x y b : x <= y -> y <= b -> sub t x y ++ sub t y b = sub t x b.
Proof.
  intros H1 H2. unfold sub. replace (b - x) with ((y - x) + (b - y)) by lia. rewrite firstn_add.
  rewrite skipn_skipn. replace (y - x + x) with y by lia. reflexivity.
Qed.

Definition sub2 (t : text) (p : nat * nat) : text := sub t (fst p) (snd p).

Lemma take_chain_text t : forall ps x b rest, take_chain x b ps = Some rest ->
  exists used, ps = used ++ rest /\ concat (map (sub2 t) used) = sub t x b.
Proof.
  induction ps as [|p ps IH]; intros x b rest H; cbn [take_chain] in H; [discriminate|].
  destruct (Nat.eqb (fst p) x && (fst p <=? snd p) && (snd p <=? b)) eqn:Ec; [|discriminate].
  apply andb_true_iff in Ec. destruct Ec as [Ec E3]. apply andb_true_iff in Ec. destruct Ec as [E1 E2].
  apply Nat.eqb_eq in E1. apply Nat.leb_le in E2, E3.
  destruct (Nat.eqb (snd p) b) eqn:E4.
  - apply Nat.eqb_eq in E4. inversion H; subst rest. exists [p]. split; [reflexivity|].
    cbn [map concat]. rewrite app_nil_r. unfold sub2. congruence.
  - destruct (IH _ _ _ H) as (used & Eu & Et). exists (p :: used). split; [cbn [app]; congruence|].
    cbn [map concat]. rewrite Et. unfold sub2. rewrite E1. apply sub_app; lia.
Qed.

(* a re-segmentation selects, in order, exactly the text of the source *)
Lemma reseg_text t : forall src ps, is_reseg src ps = true ->
  concat (map (sub2 t) ps) = concat (map (sub2 t) src).
Proof.
  induction src as [|p src IH]; intros ps H; cbn [is_reseg] in H.
  - destruct ps; [reflexivity|discriminate].
  - destruct (take_chain (fst p) (snd p) ps) as [rest|] eqn:Et; [|discriminate].
    destruct (take_chain_text t _ _ _ _ Et) as (used & -> & Eu).
    rewrite map_app, concat_app, Eu, (IH _ H). reflexivity.
Qed.

Lemma target_ok_facts T vj oj os : target_ok T vj oj os = true ->
  Forall (fun g => in_range T g = true) oj /\ map (subf T) oj = map (subf T) os.
Proof.
  unfold target_ok. intros H. apply forallb2_Forall2 in H.
  induction H as [|g p l m Hgp _ IH]; [split; [constructor|reflexivity]|].
  apply andb_true_iff in Hgp. destruct Hgp as [Hgp Ht]. apply andb_true_iff in Hgp. destruct Hgp as [Hg _].
  destruct IH as (IH1 & IH2). split; [constructor; assumption|]. cbn [map]. f_equal; [|exact IH2].
  unfold same_text in Ht. apply text_eqb_eq. exact Ht.
Qed.

(* transpose_text in words: the source side of the new transposition selects the text of the source,
   cut into consecutive pieces in order, and every other side selects the same pieces of text *)
Theorem check_forward_text T V r src cfg O : check_forward T V r src cfg O = true ->
  exists s, find_flag 0 O = Some s /\ length O = length V
    /\ concat (map (subf T) (snd (nth s O (0, [])))) = concat (map (sub2 (text_of T r)) src)
    /\ covered (nth s V []) r src = true
    /\ forall j, j < length O ->
         Forall (fun g => in_range T g = true) (snd (nth j O (0, [])))
         /\ map (subf T) (snd (nth j O (0, []))) = map (subf T) (snd (nth s O (0, []))).
Proof.
  intros H. unfold check_forward in H. destruct (find_flag 0 O) as [s|] eqn:Ef; [|discriminate].
  repeat (apply andb_true_iff in H; destruct H as [H ?]).
  rename H0 into Htargets, H1 into Hcov, H2 into Hre, H3 into Hos, H4 into Hcfg, H5 into Hlen.
  exists s. split; [reflexivity|]. split; [apply Nat.eqb_eq; exact Hlen|].
  set (os := snd (nth s O (0, []))) in *. split; [|split; [exact Hcov|]].
  - rewrite <- (reseg_text (text_of T r) src (map rng os) Hre). f_equal. rewrite map_map.
    apply map_ext_in. intros g Hg. rewrite forallb_forall in Hos. specialize (Hos g Hg).
    apply andb_true_iff in Hos. destruct Hos as [Hr _]. apply Nat.eqb_eq in Hr. unfold subf, sub2, rng. cbn [fst snd]. rewrite Hr. reflexivity.
  - intros j Hj. rewrite forallb_forall in Htargets. specialize (Htargets j ltac:(apply in_seq; lia)).
    destruct (Nat.eqb j s) eqn:Ejs.
    + apply Nat.eqb_eq in Ejs. subst j. fold os. split; [|reflexivity].
      apply Forall_forall. intros g Hg. rewrite forallb_forall in Hos. specialize (Hos g Hg).
      apply andb_true_iff in Hos. apply Hos.
    + cbn [orb] in Htargets. exact (target_ok_facts _ _ _ _ Htargets).
Qed.
