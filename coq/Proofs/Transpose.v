(* C16: proofs about the model of transpose() (Model/Transpose.v) against Spec/TransposeSpec.v. *)
From Coq Require Import NArith.
From Stam Require Import Base.Tac Base.ListAux Model.Rel Model.Offset Model.Transpose Spec.TransposeSpec
  Proofs.Rel.

(** * slices of a text *)

Lemma sub_length t b e : e <= length t -> length (sub t b e) = e - b.
Proof. intros H. unfold sub. rewrite firstn_length, skipn_length. lia. Qed.

Lemma sub_sub t b e x y : y <= e - b -> sub (sub t b e) x y = sub t (b + x) (b + y).
Proof.
  intros H. unfold sub.
  replace (b + y - (b + x)) with (y - x) by lia.
  replace (b + x) with (x + b) by lia. rewrite <- (skipn_skipn t x b).
  rewrite skipn_firstn_comm, firstn_firstn. f_equal. lia.
Qed.

(* rel_offset_text: an offset relative to a fragment selects the same text in every fragment with
   the same text *)
Lemma rel_offset_text t1 t2 b1 e1 b2 e2 x y :
  sub t1 b1 e1 = sub t2 b2 e2 -> y <= e1 - b1 -> y <= e2 - b2 ->
  sub t1 (b1 + x) (b1 + y) = sub t2 (b2 + x) (b2 + y).
Proof.
  intros H H1 H2. rewrite <- (sub_sub t1 b1 e1 x y H1), <- (sub_sub t2 b2 e2 x y H2), H. reflexivity.
Qed.
