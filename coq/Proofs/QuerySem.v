(* C08 layer 2: the laws of the query semantics [sem] of Model/QuerySem.v.
   All statements quantify over every store, environment and query; none of them is about a
   bounded scope. *)
From Coq Require Import List Arith Bool ZArith NArith Permutation Lia.
Import ListNotations.
From Stam Require Import Base.Tac Base.ListAux Model.Offset Model.Store Model.DataValue Model.Limit
     Model.QuerySem Spec.StoreSpec Spec.QuerySpec Proofs.Limit Proofs.Search.

(** * Induction over queries (the sub-query is nested in an option) *)
Lemma query_ind' (P : query -> Prop) :
  (forall n rt cs lim o, P (Q n rt cs lim o None)) ->
  (forall n rt cs lim o sq, P sq -> P (Q n rt cs lim o (Some sq))) ->
  forall q, P q.
Proof.
  intros H0 H1. fix IH 1. intros [n rt cs lim o [sq|]].
  - apply H1, IH.
  - apply H0.
Qed.

(** * Conjunctions and disjunctions do not depend on the order in which they are written *)
Lemma forallb_perm {X} (f : X -> bool) l l' : Permutation l l' -> forallb f l = forallb f l'.
Proof.
  intros H. induction H as [|x l l' H IH|x y l|l l' l'' H1 IH1 H2 IH2]; cbn.
  - reflexivity.
  - rewrite IH; reflexivity.
  - destruct (f x), (f y); reflexivity.
  - congruence.
Qed.

Lemma existsb_perm {X} (f : X -> bool) l l' : Permutation l l' -> existsb f l = existsb f l'.
Proof.
  intros H. induction H as [|x l l' H IH|x y l|l l' l'' H1 IH1 H2 IH2]; cbn.
  - reflexivity.
  - rewrite IH; reflexivity.
  - destruct (f x), (f y); reflexivity.
  - congruence.
Qed.

Lemma all_sat_perm s e cs cs' it : Permutation cs cs' -> all_sat s e cs it = all_sat s e cs' it.
Proof. intros H. unfold all_sat. apply forallb_perm, H. Qed.

Lemma csat_union s e l it : csat s e (CUnion l) it = existsb (fun c => csat s e c it) l.
Proof. reflexivity. Qed.

Lemma csat_union_perm s e l l' it : Permutation l l' -> csat s e (CUnion l) it = csat s e (CUnion l') it.
Proof. intros H. rewrite !csat_union. apply existsb_perm, H. Qed.

Lemma level_perm s e rt cs cs' lim : Permutation cs cs' -> level s e rt cs lim = level s e rt cs' lim.
Proof.
  intros H. unfold level. f_equal. apply filter_ext. intros it. apply all_sat_perm, H.
Qed.

(* the same query with the constraints of every level written in another order *)
Fixpoint qperm (q q' : query) {struct q} : Prop :=
  match q, q' with
  | Q n rt cs lim o sub, Q n' rt' cs' lim' o' sub' =>
      n = n' /\ rt = rt' /\ Permutation cs cs' /\ lim = lim' /\ o = o'
      /\ match sub, sub' with
         | None, None => True
         | Some a, Some b => qperm a b
         | _, _ => False
         end
  end.

Lemma qperm_opt q q' : qperm q q' -> q_opt q = q_opt q'.
Proof. destruct q, q'; cbn. intros (_ & _ & _ & _ & H & _). exact H. Qed.

Theorem sem_perm s : forall q q' e, qperm q q' -> sem s e q = sem s e q'.
Proof.
  induction q as [n rt cs lim o|n rt cs lim o sq IH] using query_ind';
    intros [n' rt' cs' lim' o' sub'] e (-> & -> & Hp & -> & -> & Hs).
  - destruct sub'; [contradiction|]. cbn. rewrite (level_perm _ _ _ _ _ _ Hp). reflexivity.
  - destruct sub' as [sq'|]; [|contradiction]. cbn.
    rewrite (level_perm _ _ _ _ _ _ Hp).
    apply flat_map_ext. intros it. rewrite (IH sq' _ Hs), (qperm_opt _ _ Hs). reflexivity.
Qed.

(* the special case of one level: any permutation of the constraints *)
Corollary sem_perm_level s e n rt cs cs' lim o sub :
  Permutation cs cs' -> sem s e (Q n rt cs lim o sub) = sem s e (Q n rt cs' lim o sub).
Proof.
  intros H. cbn. rewrite (level_perm _ _ _ _ _ _ H). reflexivity.
Qed.

(** * A level selects exactly the live items that satisfy every constraint *)
Lemma all_sat_spec s e cs it : all_sat s e cs it = true <-> forall c, In c cs -> csat s e c it = true.
Proof. unfold all_sat. apply forallb_forall. Qed.

Theorem level_selected s e rt cs it : In it (level s e rt cs None) <-> selected s e rt cs it.
Proof.
  unfold level, selected, apply_limit. rewrite filter_In, all_sat_spec. reflexivity.
Qed.

(** * The candidates are duplicate-free, so are the results *)
Lemma NoDup_live_handles {X} (l : list (option X)) : NoDup (live_handles l).
Proof. unfold live_handles. apply NoDup_filter, seq_NoDup. Qed.

Lemma NoDup_map_inj {X Y} (f : X -> Y) l : (forall a b, f a = f b -> a = b) -> NoDup l -> NoDup (map f l).
Proof.
  intros Hi. induction 1 as [|x l Hx Hl IH]; cbn; constructor; [|exact IH].
  intros Hin. apply in_map_iff in Hin. destruct Hin as (y & Hy & Hyl). apply Hi in Hy. subst. contradiction.
Qed.

Lemma rbe_eqb_eq x y : rbe_eqb x y = true <-> x = y.
Proof.
  destruct x as [[r b] e], y as [[r' b'] e']. cbn.
  rewrite !andb_true_iff, !Nat.eqb_eq. split.
  - intros [[-> ->] ->]. reflexivity.
  - intros H. inversion H. auto.
Qed.

Lemma NoDup_dedup_rbe l :
  NoDup (fold_right (fun t acc => if existsb (rbe_eqb t) acc then acc else t :: acc) [] l).
Proof.
  induction l as [|t l IH]; cbn; [constructor|].
  destruct (existsb _ _) eqn:E; [exact IH|]. constructor; [|exact IH].
  intros Hin. assert (existsb (rbe_eqb t) (fold_right (fun t acc => if existsb (rbe_eqb t) acc then acc else t :: acc) [] l) = true).
  { apply existsb_exists. exists t. split; [exact Hin|]. apply rbe_eqb_eq. reflexivity. }
  congruence.
Qed.

Theorem universe_NoDup s rt : NoDup (universe s rt).
Proof.
  destruct rt; cbn [universe].
  - apply NoDup_map_inj; [intros a b H; inversion H; reflexivity|apply NoDup_live_handles].
  - apply NoDup_flat_map; [apply NoDup_live_handles| |].
    + intros d _. destruct (get_set s d); [|constructor].
      apply NoDup_map_inj; [intros a b H; inversion H; reflexivity|apply NoDup_live_handles].
    + intros d d' z _ _ Hne Hz Hz'.
      destruct (get_set s d); [|contradiction]. destruct (get_set s d'); [|contradiction].
      apply in_map_iff in Hz, Hz'. destruct Hz as (x & <- & _), Hz' as (x' & H & _). inversion H. congruence.
  - apply NoDup_flat_map; [apply NoDup_live_handles| |].
    + intros d _. destruct (get_set s d); [|constructor].
      apply NoDup_map_inj; [intros a b H; inversion H; reflexivity|apply NoDup_live_handles].
    + intros d d' z _ _ Hne Hz Hz'.
      destruct (get_set s d); [|contradiction]. destruct (get_set s d'); [|contradiction].
      apply in_map_iff in Hz, Hz'. destruct Hz as (x & <- & _), Hz' as (x' & H & _). inversion H. congruence.
  - apply NoDup_map_inj; [intros a b H; inversion H; reflexivity|apply NoDup_live_handles].
  - apply NoDup_map_inj; [intros a b H; inversion H; reflexivity|apply NoDup_live_handles].
  - apply NoDup_map_inj; [|apply NoDup_dedup_rbe].
    intros [[r b] e] [[r' b'] e'] H. cbn in H. inversion H. reflexivity.
Qed.

Theorem level_NoDup s e rt cs : NoDup (level s e rt cs None).
Proof. unfold level, apply_limit. apply NoDup_filter, universe_NoDup. Qed.

(** * UNION: the duplicate-free union of the branch results *)
Lemma item_eqb_eq x y : item_eqb x y = true <-> x = y.
Proof.
  destruct x, y; cbn; try (split; [discriminate|intros H; inversion H]);
    rewrite ?andb_true_iff, ?Nat.eqb_eq; split; intros H;
    try (inversion H; subst; auto; fail);
    try (destruct H as [H1 H2]; try destruct H1; subst; reflexivity);
    try (subst; reflexivity).
Qed.

Lemma mem_items it l : existsb (item_eqb it) l = true <-> In it l.
Proof.
  rewrite existsb_exists. split.
  - intros (x & Hx & He). apply item_eqb_eq in He. subst. exact Hx.
  - intros H. exists it. split; [exact H|apply item_eqb_eq; reflexivity].
Qed.

Theorem sem_union s e rt l :
  level s e rt [CUnion l] None = union_of (universe s rt) (map (branch_result s e rt) l).
Proof.
  unfold level, union_of, apply_limit, all_sat. apply filter_ext_in. intros it Hu.
  cbn [forallb]. rewrite andb_true_r, csat_union.
  apply eq_true_iff_eq. rewrite !existsb_exists. split.
  - intros (c & Hc & Hs). exists (branch_result s e rt c). split; [apply in_map, Hc|].
    apply mem_items. unfold branch_result. apply filter_In. split; assumption.
  - intros (r & Hr & Hm). apply in_map_iff in Hr. destruct Hr as (c & <- & Hc).
    exists c. split; [exact Hc|]. apply mem_items in Hm. unfold branch_result in Hm.
    apply filter_In in Hm. apply Hm.
Qed.

Theorem sem_union_members s e rt l it :
  In it (level s e rt [CUnion l] None) <-> exists c, In c l /\ In it (branch_result s e rt c).
Proof.
  rewrite level_selected. unfold selected, branch_result. split.
  - intros [Hu Hs]. specialize (Hs (CUnion l) (or_introl eq_refl)). rewrite csat_union in Hs.
    apply existsb_exists in Hs. destruct Hs as (c & Hc & Hs). exists c. split; [exact Hc|].
    apply filter_In. split; assumption.
  - intros (c & Hc & Hin). apply filter_In in Hin. destruct Hin as [Hu Hs]. split; [exact Hu|].
    intros c' [<-|[]]. rewrite csat_union. apply existsb_exists. exists c. split; assumption.
Qed.

Corollary sem_union_NoDup s e rt l : NoDup (level s e rt [CUnion l] None).
Proof. apply level_NoDup. Qed.

(** * LIMIT: the slice of the unlimited results *)
Theorem sem_limit s e rt cs bg en :
  level s e rt cs (Some (bg, en)) = slice_spec bg en (level s e rt cs None).
Proof. unfold level, apply_limit. apply limit_is_slice. Qed.

(** * Sub-queries: nested iteration *)
Theorem sem_subquery s e n rt cs lim o sq :
  sem s e (Q n rt cs lim o (Some sq)) = nested s e n (level s e rt cs lim) sq.
Proof.
  cbn [sem]. unfold nested. apply flat_map_ext. intros it.
  destruct (sem s (e ++ [(n, it)]) sq) eqn:E; cbn [is_nil map].
  - rewrite andb_true_r. destruct (q_opt sq); reflexivity.
  - rewrite andb_false_r. reflexivity.
Qed.

Theorem sem_single s e n rt cs lim o :
  sem s e (Q n rt cs lim o None) = map (fun it => [it]) (level s e rt cs lim).
Proof. reflexivity. Qed.

Lemma sem_rows_nonempty s : forall q e row, In row (sem s e q) -> row <> [].
Proof.
  induction q as [n rt cs lim o|n rt cs lim o sq IH] using query_ind'; intros e row Hin.
  - cbn in Hin. apply in_map_iff in Hin. destruct Hin as (it & <- & _). discriminate.
  - cbn in Hin. apply in_flat_map in Hin. destruct Hin as (it & _ & Hin).
    destruct (q_opt sq && is_nil _).
    + destruct Hin as [<-|[]]. discriminate.
    + apply in_map_iff in Hin. destruct Hin as (r & <- & _). discriminate.
Qed.

(* a row of a query with a sub-query: an outer item followed by a row of the sub-query for that
   item, or the outer item alone when the sub-query is OPTIONAL and has no row for it *)
Theorem sem_subquery_rows s e n rt cs lim o sq it r :
  In (it :: r) (sem s e (Q n rt cs lim o (Some sq))) <->
  In it (level s e rt cs lim)
  /\ (In r (sem s (e ++ [(n, it)]) sq)
      \/ (r = [] /\ q_opt sq = true /\ sem s (e ++ [(n, it)]) sq = [])).
Proof.
  cbn [sem]. rewrite in_flat_map. split.
  - intros (x & Hx & Hin). destruct (sem s (e ++ [(n, x)]) sq) as [|r0 rs] eqn:E; cbn [is_nil] in Hin.
    + rewrite andb_true_r in Hin. destruct (q_opt sq) eqn:Eo; cbn in Hin; [|contradiction].
      destruct Hin as [H|[]]. inversion H; subst. split; [exact Hx|]. right. rewrite E. auto.
    + rewrite andb_false_r in Hin. apply in_map_iff in Hin. destruct Hin as (r' & H & Hr').
      inversion H; subst. split; [exact Hx|]. left. rewrite E. exact Hr'.
  - intros [Hit [Hr|(-> & Ho & He)]].
    + exists it. split; [exact Hit|].
      destruct (sem s (e ++ [(n, it)]) sq) as [|r0 rs] eqn:E; [contradiction|].
      cbn [is_nil]. rewrite andb_false_r. apply in_map, Hr.
    + exists it. split; [exact Hit|]. rewrite He, Ho. cbn. left. reflexivity.
Qed.

(** * ADD and DELETE are the direct calls on the rows of the sub-query *)
Lemma annotate_all_steps : forall bs s, annotate_all s bs = steps_until_failure s (map Annotate bs).
Proof.
  induction bs as [|b bs IH]; intros s; cbn [annotate_all steps_until_failure map step]; [reflexivity|].
  destruct (annotate s b) as [s' [h| |]]; [apply IH|reflexivity|reflexivity].
Qed.

Theorem sem_add s a : exec_add s a (sem s [] (add_sub a)) = spec_add s a.
Proof.
  unfold exec_add, spec_add. destruct (add_builders s a _); [apply annotate_all_steps|reflexivity].
Qed.

Lemma rm_item_spec s it : rm_item s it = spec_rm s it.
Proof.
  unfold rm_item, spec_rm. destruct it as [a|d x|d k|r|d|r b e]; cbn [rm_op item_live]; try reflexivity.
  - destruct (get_ann s a) eqn:E; [reflexivity|].
    cbn [step]. unfold rm_annotation, ref_ann, resolve_ref. unfold get_ann in E. rewrite E. reflexivity.
  - destruct (get_res s r) eqn:E; [reflexivity|].
    cbn [step]. unfold rm_resource, ref_res, resolve_ref. unfold get_res in E. rewrite E. reflexivity.
  - destruct (get_set s d) eqn:E; [reflexivity|].
    cbn [step]. unfold rm_dataset, ref_set, resolve_ref. unfold get_set in E. rewrite E. reflexivity.
Qed.

Theorem sem_delete s x sub : exec_delete s x sub (sem s [] sub) = spec_delete s x sub.
Proof.
  unfold exec_delete, spec_delete. destruct (delete_items x sub (sem s [] sub)) as [its|]; [|reflexivity].
  destruct (existsb is_text_item its); [reflexivity|].
  f_equal. revert s. induction its as [|it its IH]; intros s; cbn [fold_left]; [reflexivity|].
  rewrite rm_item_spec. apply IH.
Qed.

Theorem collection_survivors s rows victim x :
  In x (coll_after s rows victim) <->
  In x (outer_items rows) /\ item_live (match victim with Some v => rm_item s v | None => s end) x = true.
Proof. unfold coll_after, survivors. apply filter_In. Qed.

(** * However evaluated: the reverse indices give what the filter gives (reachable stores).
   The evaluator obtains the candidates of an ANNOTATION query from a reverse index when the
   first constraint has one; by C01 (every reverse index of every reachable store is exact)
   that list is the level of [sem]. *)
From Stam Require Import Model.StoreObs Proofs.StoreScan Proofs.StoreInv Proofs.StoreDataDef Proofs.StoreData.

Lemma filter_map_comm {X Y} (f : X -> Y) (p : Y -> bool) l : filter p (map f l) = map f (filter (fun x => p (f x)) l).
Proof. induction l as [|x l IH]; cbn; [reflexivity|]. destruct (p (f x)); cbn; rewrite IH; reflexivity. Qed.

Lemma filter_filter {X} (p q : X -> bool) l : filter p (filter q l) = filter (fun x => q x && p x) l.
Proof. induction l as [|x l IH]; cbn; [reflexivity|]. destruct (q x); cbn; [destruct (p x); cbn; rewrite IH; reflexivity|exact IH]. Qed.

(* a single constraint on annotations that is a property of the annotation alone *)
Lemma level_ann_scan s e c (P : ann -> bool) :
  (forall h an, get_ann s h = Some an -> csat s e c (IAnn h) = P an) ->
  level s e TAnn [c] None = map IAnn (scan s P).
Proof.
  intros H. unfold level, apply_limit, universe, live_handles, scan.
  rewrite filter_map_comm, filter_filter. f_equal. apply filter_ext. intros h.
  unfold all_sat. cbn [forallb]. rewrite andb_true_r. unfold get_ann.
  destruct (slot (anns s) h) as [an|] eqn:E; cbn [andb]; [|reflexivity].
  apply H. exact E.
Qed.

Section Routes.
  Variable ops : list op.
  Let s := run ops.
  Let HI : Inv s := proj1 (reachable_Good ops).

  (* RESOURCE r: resource.annotations() *)
  Theorem route_resource e tok r : res_by_id s tok = Some r ->
    level s e TAnn [CRes (RId tok) false] None = map IAnn (m_res_text s r).
  Proof.
    intros Hr. rewrite (res_text_eq s HI). apply level_ann_scan. intros h an Ha.
    cbn. unfold sat_base. rewrite Ha. cbn. rewrite Hr. reflexivity.
  Qed.

  (* RESOURCE AS METADATA r: resource.annotations_as_metadata() *)
  Theorem route_resource_metadata e tok r : res_by_id s tok = Some r ->
    level s e TAnn [CRes (RId tok) true] None = map IAnn (m_res_meta s r).
  Proof.
    intros Hr. rewrite (res_meta_eq s HI). apply level_ann_scan. intros h an Ha.
    cbn. unfold sat_base. rewrite Ha. cbn. rewrite Hr. reflexivity.
  Qed.

  (* DATASET AS METADATA d: dataset.annotations() *)
  Theorem route_dataset_metadata e tok d : set_by_id s tok = Some d ->
    level s e TAnn [CSet (RId tok) true] None = map IAnn (m_set_meta s d).
  Proof.
    intros Hd. rewrite (set_meta_eq s HI). apply level_ann_scan. intros h an Ha.
    cbn. unfold sat_base. rewrite Ha. cbn. rewrite Hd. reflexivity.
  Qed.

  (* ANNOTATION AS TARGET y: y.annotations() *)
  Theorem route_annotation_target e tok y : ann_by_id s tok = Some y ->
    level s e TAnn [CAnn (RId tok) true] None = map IAnn (m_ann_anns s y).
  Proof.
    intros Hy. rewrite (ann_anns_eq s HI). apply level_ann_scan. intros h an Ha.
    cbn. unfold sat_base. rewrite Ha. cbn. rewrite Hy. reflexivity.
  Qed.

  (* DATA ?x: x.annotations() *)
  Theorem route_data_variable e v d x : lookup e v = Some (IData d x) ->
    level s e TAnn [CDataVar v false] None = map IAnn (m_data_anns s d x).
  Proof.
    intros Hv. rewrite (data_anns_eq s HI). apply level_ann_scan. intros h an Ha.
    cbn. unfold sat_base. rewrite Ha. cbn. rewrite Hv. reflexivity.
  Qed.
End Routes.
