(* C05, part 4: the whole store.  Writing a well-formed store and loading the documents gives a
   store with the same canonical observation; writing that store again gives the same documents. *)
From Coq Require Import String Ascii.
From Coq Require Import List NArith ZArith Bool Arith Lia.
From Stam Require Import Base.Tac Model.Offset Spec.OffsetSpec Proofs.Offset Model.Json Model.TempId Proofs.TempId
     Model.StamJson Spec.StamJsonSpec Proofs.StamJson Proofs.StamJsonLoad Proofs.StamJsonAnn.
Import ListNotations.

Section Anns.
  Variable s : dstore.
  Variable rs' : list (option dres).
  Variable ss' : list (option dset).
  Hypothesis ResRel : forall r rs, slot (st_ress s) r = Some rs ->
    exists r', lookup KRes res_pid rs' (jr_id rs) = Some r' /\ slot rs' r' = Some rs.
  Hypothesis SetsRel : forall d ds, slot (st_sets s) d = Some ds ->
    exists d' ds', lookup KSet set_pid ss' (js_id ds) = Some d' /\ slot ss' d' = Some ds' /\ SetRel ds ds'.
  Hypothesis Ids : IdsOk ja_id (st_anns s).
  Hypothesis Width : (N.of_nat (length (st_anns s)) <= width KAnn)%N.
  Hypothesis Wf : forall h an, slot (st_anns s) h = Some an -> wf_ann s h an = true.

  Notation mk := (mk s rs' ss').
  Notation AnnInv := (AnnInv s rs' ss').

  Lemma prefix_slots old todo : st_anns s = old ++ todo ->
    forall a an0, slot old a = Some an0 <-> a < length old /\ slot (st_anns s) a = Some an0.
  Proof.
    intros E a an0. rewrite E. split.
    - intros H. split; [eapply slot_lt; exact H|apply slot_app_some; exact H].
    - intros [L H]. rewrite slot_app_l in H by exact L. exact H.
  Qed.

  Lemma load_anns_ok : forall todo old anns cas,
    st_anns s = old ++ todo ->
    AnnInv old anns ->
    omap (canon_ann s) (live_from (length old) todo) = Some cas ->
    exists anns', load_anns 0 (mk anns) (map bann_of cas) = Some (mk anns') /\ AnnInv (st_anns s) anns'.
  Proof.
    destruct Ids as [HR HU].
    induction todo as [|[an|] todo IH]; intros old anns cas Eall Inv Hc.
    - cbn in Hc. injection Hc as <-. exists anns. split; [reflexivity|]. rewrite Eall, app_nil_r. exact Inv.
    - cbn [live_from omap] in Hc.
      destruct (canon_ann s (length old, an)) as [ca|] eqn:Eca; [|discriminate].
      destruct (omap (canon_ann s) (live_from (S (length old)) todo)) as [cas'|] eqn:Et; [|discriminate].
      injection Hc as <-.
      assert (Hold := prefix_slots old (Some an :: todo) Eall).
      assert (Han : slot (st_anns s) (length old) = Some an).
      { rewrite Eall. replace (length old) with (length old + 0) at 1 by lia. rewrite slot_app_r. reflexivity. }
      assert (Hlen : length old < length (st_anns s)) by (eapply slot_lt; exact Han).
      assert (W' : (N.of_nat (length old) < width KAnn)%N) by lia.
      pose proof (Wf _ _ Han) as Hwf. unfold wf_ann in Hwf.
      apply andb_prop in Hwf. destruct Hwf as [Hwf Hkind]. apply andb_prop in Hwf. destruct Hwf as [Hwd Hwl].
      unfold canon_ann in Eca.
      destruct (omap (canon_dataref s) (ja_data an)) as [cds|] eqn:Ecd; [|discriminate].
      destruct (omap (canon_leaf s) (ja_leaves an)) as [cls|] eqn:Ecl; [|discriminate].
      injection Eca as <-. fold (aname (length old) an).
      assert (Hfresh : forall p, ja_id an = Some p -> reserved p = false /\
                       forall a an2, slot old a = Some an2 -> ja_id an2 <> Some p).
      { intros p Ep. split; [eapply HR; eauto|]. intros a an2 Ha Hp.
        assert (a = length old).
        { eapply HU; [| exact Han | exact Hp | exact Ep]. apply Hold in Ha. apply Ha. }
        apply slot_lt in Ha. lia. }
      cbn [map load_anns]. unfold load_ann. cbn [bann_of ba_id ba_data ba_kind ba_leaves ca_name ca_data ca_kind ca_leaves].
      (* the two cases only differ in where the gap filling puts the annotation *)
      assert (Hgap : exists anns1,
                 gap_fill 0 (st_anns (mk anns)) (Some (aname (length old) an)) = Some (anns1, ja_id an)
                 /\ AnnInv old anns1 /\ (ja_id an = None -> length anns1 = length old)
                 /\ id_free ja_id anns1 (ja_id an) = true).
      { cbn [st_anns StamJsonAnn.mk]. destruct (ja_id an) as [p|] eqn:Ep.
        - assert (En : aname (length old) an = p) by (unfold aname; rewrite Ep; reflexivity).
          rewrite En. destruct (Hfresh p eq_refl) as [R F]. rewrite gap_fill_public by exact R.
          exists anns. split; [reflexivity|]. split; [exact Inv|]. split; [discriminate|].
          cbn [id_free]. rewrite find_id_none; [reflexivity|].
          intros h y Hy Hp. destruct (ai_ids _ _ _ _ _ Inv _ _ _ Hy Hp) as (x0 & an2 & Hx0 & Hi2). eapply F; eauto.
        - assert (En : aname (length old) an = temp_id KAnn (N.of_nat (length old))) by (unfold aname; rewrite Ep; reflexivity).
          rewrite En. pose proof (ai_len _ _ _ _ _ Inv) as Ln.
          rewrite gap_fill_temp; [|eapply width_usize; exact W'|exact Ln].
          exists (anns ++ repeat None (length old - length anns)).
          split; [reflexivity|]. split; [apply AnnInv_pad; [exact Inv|lia]|].
          split; [intros _; apply pad_length; exact Ln|reflexivity]. }
      destruct Hgap as (anns1 & Hg & Inv1 & Ht & Hfree). rewrite Hg.
      change (set_anns (mk anns) anns1) with (mk anns1).
      destruct (resolve_canon_leaves s rs' ss' ResRel SetsRel old anns1 (length old) Hold Inv1 _ _ Hwl Ecl)
        as (ls' & Rl & Cl & Gl).
      destruct (resolve_canon_datarefs s rs' ss' SetsRel anns1 _ _ Ecd) as (ds' & Rd & Cd).
      rewrite Rl, Rd. cbn [st_anns StamJsonAnn.mk] in Hfree |- *. rewrite Hfree.
      change (set_anns (mk anns1) (anns1 ++ [Some (mkdann (ja_id an) ds' (ja_kind an) ls')]))
        with (mk (anns1 ++ [Some (mkdann (ja_id an) ds' (ja_kind an) ls')])).
      destruct (IH (old ++ [Some an]) (anns1 ++ [Some (mkdann (ja_id an) ds' (ja_kind an) ls')]) cas')
        as (anns' & Hl & Hi).
      + rewrite Eall, <- app_assoc. reflexivity.
      + eapply AnnInv_step; eauto.
      + rewrite app_length. cbn [length]. rewrite Nat.add_1_r. exact Et.
      + exists anns'. split; [exact Hl|exact Hi].
    - cbn [live_from] in Hc.
      destruct (IH (old ++ [None]) anns cas) as (anns' & Hl & Hi).
      + rewrite Eall, <- app_assoc. reflexivity.
      + apply AnnInv_none. exact Inv.
      + rewrite app_length. cbn [length]. rewrite Nat.add_1_r. exact Hc.
      + exists anns'. split; [exact Hl|exact Hi].
  Qed.

  Lemma AnnInv_nil : AnnInv [] [].
  Proof.
    split; try reflexivity.
    - intros a an H. unfold slot in H. destruct a; discriminate.
    - intros a an i H. unfold slot in H. destruct a; discriminate.
    - intros cas H. cbn in H. injection H as <-. reflexivity.
  Qed.
End Anns.

(** * small list facts *)
Lemma omap_length {X Y} (f : X -> option Y) : forall l r, omap f l = Some r -> length r = length l.
Proof.
  induction l as [|x l IH]; intros r H; cbn in H.
  - injection H as <-. reflexivity.
  - destruct (f x); [|discriminate]. destruct (omap f l) as [r'|] eqn:E; [|discriminate]. injection H as <-.
    cbn. f_equal. apply IH. reflexivity.
Qed.

Lemma omap_Forall2 {X Y} (f : X -> option Y) : forall l r, omap f l = Some r -> Forall2 (fun x y => f x = Some y) l r.
Proof.
  induction l as [|x l IH]; intros r H; cbn in H.
  - injection H as <-. constructor.
  - destruct (f x) eqn:E; [|discriminate]. destruct (omap f l) as [r'|] eqn:E2; [|discriminate]. injection H as <-.
    constructor; [exact E|apply IH; reflexivity].
Qed.

Lemma Forall2_omap {X Y} (f : X -> option Y) : forall l r, Forall2 (fun x y => f x = Some y) l r -> omap f l = Some r.
Proof. induction 1 as [|x y l r H HF IH]; cbn; [reflexivity|]. rewrite H, IH. reflexivity. Qed.

Lemma Forall2_map_l {A B C} (g : A -> B) (R : B -> C -> Prop) l r : Forall2 R (map g l) r <-> Forall2 (fun a c => R (g a) c) l r.
Proof.
  split.
  - revert r. induction l as [|a l IH]; intros r H; inversion H; subst; constructor; auto.
  - induction 1; cbn; constructor; auto.
Qed.

Lemma Forall2_combine_l {A B C} (R : A -> B -> C -> Prop) : forall l1 l2 r, length l1 = length l2 ->
  Forall2 (fun p c => R (fst p) (snd p) c) (combine l1 l2) r ->
  Forall2 (fun a c => exists b, R a b c) l1 r.
Proof.
  induction l1 as [|a l1 IH]; intros [|b l2] r L H; cbn in *; try discriminate.
  - inversion H. constructor.
  - inversion H; subst. constructor; [eauto|]. eapply IH; [|eassumption]. lia.
Qed.

Lemma Forall2_impl {A B} (P Q : A -> B -> Prop) l r : (forall a b, P a b -> Q a b) -> Forall2 P l r -> Forall2 Q l r.
Proof. intros H. induction 1; constructor; auto. Qed.

Lemma live_map_some {X} (l : list X) : map snd (live (map Some l)) = l.
Proof. apply live_from_map_some. Qed.

Lemma res_pids_live l : pids res_pid l = map (fun p => jr_id (snd p)) (live l).
Proof.
  unfold live. generalize 0. induction l as [|[r|] l IH]; intros h; cbn; [reflexivity| |].
  - f_equal. apply IH.
  - apply IH.
Qed.
Lemma set_pids_live l : pids set_pid l = map (fun p => js_id (snd p)) (live l).
Proof.
  unfold live. generalize 0. induction l as [|[r|] l IH]; intros h; cbn; [reflexivity| |].
  - f_equal. apply IH.
  - apply IH.
Qed.

Lemma dres_of_canon r : dres_of (canon_res r) = r.
Proof. destruct r. reflexivity. Qed.
Lemma canon_res_dres_of c : canon_res (dres_of c) = c.
Proof. destruct c. reflexivity. Qed.

Lemma forallb_live {X} (f : nat * X -> bool) (l : list (option X)) :
  forallb f (live l) = true -> forall h x, slot l h = Some x -> f (h, x) = true.
Proof. intros H h x Hx. rewrite forallb_forall in H. apply H. apply live_In. exact Hx. Qed.

(** * the stand-off files *)
Lemma map_fst_flat_map_res_file crs : map fst (flat_map res_file crs) = flat_map (fun c => opt_list (cr_file c)) crs.
Proof.
  induction crs as [|c crs IH]; cbn; [reflexivity|]. rewrite map_app, IH. f_equal.
  unfold res_file. destruct (cr_file c); reflexivity.
Qed.
Lemma map_fst_flat_map_set_file css : map fst (flat_map set_file css) = flat_map (fun c => opt_list (cs_file c)) css.
Proof.
  induction css as [|c css IH]; cbn; [reflexivity|]. rewrite map_app, IH. f_equal.
  unfold set_file. destruct (cs_file c); reflexivity.
Qed.

Lemma canon_set_file ds cs : canon_set ds = Some cs -> cs_file cs = js_file ds /\ cs_id cs = js_id ds.
Proof.
  unfold canon_set. destruct (omap (canon_data ds) (live (js_data ds))); [|discriminate].
  intros H. injection H as <-. split; reflexivity.
Qed.

Lemma side_file_names s c : canon s = Some c -> map fst (side_files c) = file_names s.
Proof.
  unfold canon. destruct (omap (fun p => canon_set (snd p)) (live (st_sets s))) as [css|] eqn:Es; [|discriminate].
  destruct (omap (canon_ann s) (live (st_anns s))) as [cas|]; [|discriminate]. intros H. injection H as <-.
  unfold side_files, file_names. cbn [c_ress c_sets]. rewrite map_app, map_fst_flat_map_res_file, map_fst_flat_map_set_file.
  f_equal.
  - change (flat_map (fun o => match o with Some r => opt_list (jr_file r) | None => [] end) (st_ress s))
      with (pids jr_file (st_ress s)).
    rewrite (pids_live jr_file (st_ress s) 0). fold (live (st_ress s)).
    induction (live (st_ress s)) as [|[h r] l IH]; cbn; [reflexivity|]. rewrite IH. reflexivity.
  - change (flat_map (fun o => match o with Some d => opt_list (js_file d) | None => [] end) (st_sets s))
      with (pids js_file (st_sets s)).
    rewrite (pids_live js_file (st_sets s) 0). fold (live (st_sets s)).
    apply omap_Forall2 in Es. induction Es as [|[h d] cs l r Hc HF IH]; cbn; [reflexivity|].
    rewrite IH. cbn [snd] in Hc. destruct (canon_set_file _ _ Hc) as [-> _]. reflexivity.
Qed.

Lemma wf_dstore_parts s : wf_dstore s = true ->
  ids_ok (map (fun p => jr_id (snd p)) (live (st_ress s))) = true
  /\ ids_ok (map (fun p => js_id (snd p)) (live (st_sets s))) = true
  /\ ids_ok (flat_map (fun p => opt_list (ja_id (snd p))) (live (st_anns s))) = true
  /\ forallb (fun p => wf_set (snd p)) (live (st_sets s)) = true
  /\ forallb (fun p => wf_ann s (fst p) (snd p)) (live (st_anns s)) = true
  /\ str_nodup (file_names s) = true
  /\ fits (length (st_anns s)) LIMIT32 = true /\ fits (length (st_ress s)) LIMIT32 = true
  /\ fits (length (st_sets s)) LIMIT16 = true.
Proof.
  unfold wf_dstore. intros H.
  apply andb_prop in H. destruct H as [H H9]. apply andb_prop in H. destruct H as [H H8].
  apply andb_prop in H. destruct H as [H H7]. apply andb_prop in H. destruct H as [H H6].
  apply andb_prop in H. destruct H as [H H5]. apply andb_prop in H. destruct H as [H H4].
  apply andb_prop in H. destruct H as [H H3]. apply andb_prop in H. destruct H as [H1 H2].
  repeat split; assumption.
Qed.

(** * the documents of a well-formed store are well-formed documents *)
Lemma target_ok_of_wf s h an cls :
  wf_ann s h an = true -> omap (canon_leaf s) (ja_leaves an) = Some cls ->
  target_ok (ja_kind an) (map cl_sel cls).
Proof.
  unfold wf_ann. intros H Hc. apply andb_prop in H. destruct H as [_ Hk].
  apply omap_length in Hc. unfold target_ok.
  destruct (ja_kind an) as [|[|[|[|k]]]]; try exact I; try discriminate.
  destruct (ja_leaves an) as [|lf [|lf2 l]]; try discriminate.
  destruct cls as [|cl [|cl2 cls]]; try discriminate. exists (cl_sel cl). reflexivity.
Qed.

Lemma main_doc_ok s c : wf_dstore s = true -> canon s = Some c -> bstore_ok (main_doc c).
Proof.
  intros Hwf Hc. unfold canon in Hc.
  destruct (omap (fun p => canon_set (snd p)) (live (st_sets s))) as [css|] eqn:Es; [|discriminate].
  destruct (omap (canon_ann s) (live (st_anns s))) as [cas|] eqn:Ea; [|discriminate]. injection Hc as <-.
  unfold bstore_ok, main_doc. cbn [b_ress b_sets b_anns c_ress c_sets c_anns]. repeat split.
  - apply Forall_forall. intros b Hb. apply in_map_iff in Hb. destruct Hb as (cr & <- & _).
    unfold bres_ok, bres_of. destruct (cr_file cr); reflexivity.
  - apply Forall_forall. intros b Hb. apply in_map_iff in Hb. destruct Hb as (cs & <- & _).
    unfold bset_ok, bset_of. destruct (cs_file cs); cbn; [split; reflexivity|exact I].
  - apply Forall_forall. intros b Hb. apply in_map_iff in Hb. destruct Hb as (ca & <- & Hin).
    apply omap_Forall2 in Ea.
    assert (Hex : exists p, In p (live (st_anns s)) /\ canon_ann s p = Some ca).
    { clear -Ea Hin. induction Ea as [|p y l r Hp HF IH]; [destruct Hin|].
      destruct Hin as [->|Hin]; [exists p; split; [left; reflexivity|exact Hp]|].
      destruct (IH Hin) as (q & Hq & Hc). exists q. split; [right; exact Hq|exact Hc]. }
    destruct Hex as ([h an] & Hin2 & Hcan).
    destruct (wf_dstore_parts _ Hwf) as (_ & _ & _ & _ & H2 & _).
    rewrite forallb_forall in H2. specialize (H2 _ Hin2). cbn [fst snd] in H2.
    unfold canon_ann in Hcan. destruct (omap (canon_dataref s) (ja_data an)); [|discriminate].
    destruct (omap (canon_leaf s) (ja_leaves an)) as [cls|] eqn:El; [|discriminate]. injection Hcan as <-.
    unfold bann_ok, bann_of. cbn [ba_kind ba_leaves ca_kind ca_leaves]. eapply target_ok_of_wf; eauto.
Qed.

Lemma Forall2_combine_r {A B C} (R : B -> C -> Prop) : forall (l1 : list A) l2 r, length l1 = length l2 ->
  Forall2 (fun p c => R (snd p) c) (combine l1 l2) r -> Forall2 R l2 r.
Proof.
  induction l1 as [|a l1 IH]; intros [|b l2] r L H; cbn in *; try discriminate.
  - inversion H. constructor.
  - inversion H; subst. constructor; [assumption|]. eapply IH; [|eassumption]. lia.
Qed.

Lemma Forall2_flip {A B} (R : A -> B -> Prop) l r : Forall2 R l r -> Forall2 (fun b a => R a b) r l.
Proof. induction 1; constructor; auto. Qed.

Lemma omap_live_map_some {X Y} (f : X -> option Y) (l : list X) : forall n,
  omap (fun p => f (snd p)) (live_from n (map Some l)) = omap f l.
Proof. induction l as [|x l IH]; intros n; cbn; [reflexivity|]. rewrite IH. reflexivity. Qed.

(** * the round trip *)
From Stam Require Import Proofs.StamJsonSave.

Lemma NoDup_of_ids_ok l : ids_ok l = true -> NoDup l.
Proof. unfold ids_ok. intros H. apply andb_prop in H. apply str_nodup_NoDup. apply H. Qed.

(* the loader applied to the main document, with any set of files that holds the stand-off files *)
Theorem build_main_doc s c fs :
  wf_dstore s = true -> canon s = Some c ->
  (forall f x, In (f, x) (side_files c) -> file_get fs f = Some x) ->
  exists s', build fs (main_doc c) = Some s' /\ canon s' = Some c.
Proof.
  intros Hwf Hc NDf.
  destruct (wf_dstore_parts _ Hwf) as (Ir & Is & Ia & Wsets & Wanns & Hfiles & Fa & Fr & Fs).
  unfold canon in Hc.
  destruct (omap (fun p => canon_set (snd p)) (live (st_sets s))) as [css|] eqn:Es; [|discriminate].
  destruct (omap (canon_ann s) (live (st_anns s))) as [cas|] eqn:Ea; [|discriminate]. injection Hc as <-.
  set (crs := map (fun p => canon_res (snd p)) (live (st_ress s))) in *.
  set (c := mkcstore (st_id s) crs css cas) in *.
  unfold build, main_doc. cbn [b_ress b_sets b_anns b_id c_ress c_sets c_anns c_id c].
  (* resources *)
  assert (Hress : load_ress fs [] (map bres_of crs) = Some (map (fun cr => Some (dres_of cr)) crs)).
  { rewrite load_ress_ok; [reflexivity| |].
    - intros cr f Hin Hf. apply NDf. unfold side_files. apply in_or_app. left.
      apply in_flat_map. exists cr. split; [exact Hin|]. unfold res_file, res_content. rewrite Hf. left. reflexivity.
    - cbn [pids flat_map app]. unfold crs. rewrite map_map. cbn [cr_id canon_res]. apply NoDup_of_ids_ok. exact Ir. }
  rewrite Hress.
  (* datasets *)
  set (pairs := combine (map snd (live (st_sets s))) css).
  assert (Hlen : length (map snd (live (st_sets s))) = length css).
  { rewrite map_length. symmetry. eapply omap_length. exact Es. }
  assert (HF0 : Forall2 (fun p cs => canon_set (snd p) = Some cs) (live (st_sets s)) css) by (apply omap_Forall2; exact Es).
  assert (Hpairs_in : forall ds cs, In (ds, cs) pairs -> exists h, In (h, ds) (live (st_sets s)) /\ canon_set ds = Some cs).
  { unfold pairs. clear -HF0. induction HF0 as [|[h d] cs l r Hcs HF IH]; intros ds cs0 Hin; [destruct Hin|].
    cbn in Hin. destruct Hin as [E|Hin].
    - injection E as <- <-. exists h. split; [left; reflexivity|exact Hcs].
    - destruct (IH _ _ Hin) as (h' & Hin' & Hc'). exists h'. split; [right; exact Hin'|exact Hc']. }
  assert (Hmapbset : map bset_of css = map (fun p => bset_of (snd p)) pairs).
  { unfold pairs. clear -Hlen. revert css Hlen. induction (map snd (live (st_sets s))) as [|d l IH]; intros [|cs css] Hl; cbn in *; try discriminate; [reflexivity|].
    f_equal. apply IH. lia. }
  assert (Hmapid : map (fun p => js_id (fst p)) pairs = map (fun p => js_id (snd p)) (live (st_sets s))).
  { unfold pairs. clear -Hlen. rewrite <- (map_map snd js_id). revert css Hlen.
    induction (map snd (live (st_sets s))) as [|d l IH]; intros [|cs css] Hl; cbn in *; try discriminate; [reflexivity|].
    f_equal. apply IH. lia. }
  destruct (load_sets_ok fs pairs []) as (dss & Hsets & HFs).
  { intros ds cs Hin. destruct (Hpairs_in _ _ Hin) as (h & Hin' & Hcs). split; [|split; [exact Hcs|]].
    - rewrite forallb_forall in Wsets. apply (Wsets (h, ds)). exact Hin'.
    - intros f Hf. apply NDf. unfold side_files. apply in_or_app. right.
      apply in_flat_map. exists cs. split; [|unfold set_file; rewrite Hf; left; reflexivity].
      unfold pairs in Hin. exact (in_combine_r _ _ _ _ Hin). }
  { cbn [pids flat_map app]. rewrite Hmapid. apply NoDup_of_ids_ok. exact Is. }
  rewrite Hmapbset, Hsets. cbn [app].
  set (rs' := map (fun cr => Some (dres_of cr)) crs).
  set (ss' := map Some dss).
  (* the rebuilt resources and datasets answer for the old ones *)
  assert (IdsR : IdsOk res_pid (st_ress s)) by (apply ids_ok_IdsOk; rewrite res_pids_live; exact Ir).
  assert (IdsS : IdsOk set_pid (st_sets s)) by (apply ids_ok_IdsOk; rewrite set_pids_live; exact Is).
  assert (ResRel : forall r rs, slot (st_ress s) r = Some rs ->
            exists r', lookup KRes res_pid rs' (jr_id rs) = Some r' /\ slot rs' r' = Some rs).
  { intros r rs Hr.
    destruct (compact_lookup res_pid res_pid KRes (st_ress s) (map dres_of crs) (fun x y => y = x) IdsR) with (h := r) (x := rs) (i := jr_id rs)
      as (r' & y & L1 & L2 & ->); [|exact Hr|reflexivity|].
    - unfold crs. rewrite map_map. clear. induction (live (st_ress s)) as [|[h x] l IH]; cbn; constructor; [|exact IH].
      cbn [snd]. rewrite dres_of_canon. split; reflexivity.
    - exists r'. unfold rs'. rewrite <- (map_map dres_of Some). split; assumption. }
  assert (HFs' : Forall2 (fun p ds' => SetRel (snd p) ds' /\ set_pid ds' = set_pid (snd p)) (live (st_sets s)) dss).
  { assert (H1 : Forall2 (fun a c0 => exists b, SetRel a c0 /\ canon_set c0 = Some b) (map snd (live (st_sets s))) dss).
    { apply (Forall2_combine_l (fun a b c0 => SetRel a c0 /\ canon_set c0 = Some b)) with (l2 := css); [exact Hlen|exact HFs]. }
    apply Forall2_map_l in H1. eapply Forall2_impl; [|exact H1]. cbn beta. intros [h d] ds' (b & R & _). cbn [snd].
    split; [exact R|]. unfold set_pid. rewrite (sr_id _ _ R). reflexivity. }
  assert (SetsRel : forall d ds, slot (st_sets s) d = Some ds ->
            exists d' ds', lookup KSet set_pid ss' (js_id ds) = Some d' /\ slot ss' d' = Some ds' /\ SetRel ds ds').
  { intros d ds Hd.
    destruct (compact_lookup set_pid set_pid KSet (st_sets s) dss SetRel IdsS HFs' d ds (js_id ds) Hd eq_refl)
      as (d' & y & L1 & L2 & R). exists d', y. split; [exact L1|]. split; [exact L2|exact R]. }
  (* annotations *)
  assert (IdsA : IdsOk ja_id (st_anns s)).
  { apply ids_ok_IdsOk. rewrite (pids_live ja_id (st_anns s) 0). exact Ia. }
  assert (WA : (N.of_nat (length (st_anns s)) <= width KAnn)%N).
  { rewrite width_KAnn. unfold fits in Fa. apply N.leb_le in Fa. exact Fa. }
  assert (WfA : forall h an, slot (st_anns s) h = Some an -> wf_ann s h an = true).
  { intros h an Hh. exact (forallb_live _ _ Wanns h an Hh). }
  destruct (load_anns_ok s rs' ss' ResRel SetsRel IdsA WA WfA (st_anns s) [] [] cas eq_refl (AnnInv_nil s rs' ss') Ea)
    as (anns' & Hload & Inv).
  change (mkdstore (st_id s) rs' ss' []) with (StamJsonAnn.mk s rs' ss' []).
  rewrite Hload. exists (StamJsonAnn.mk s rs' ss' anns'). split; [reflexivity|].
  (* the observation of the rebuilt store *)
  unfold canon. cbn [st_sets st_anns st_ress st_id StamJsonAnn.mk].
  assert (E1 : omap (fun p => canon_set (snd p)) (live ss') = Some css).
  { unfold ss', live. rewrite omap_live_map_some. apply Forall2_omap. apply Forall2_flip.
    apply (Forall2_combine_r (fun cs ds' => canon_set ds' = Some cs)) with (l1 := map snd (live (st_sets s))); [exact Hlen|].
    eapply Forall2_impl; [|exact HFs]. cbn beta. intros p ds' [_ B]. exact B. }
  rewrite E1. rewrite (ai_canon _ _ _ _ _ Inv _ Ea).
  f_equal. unfold c. f_equal. unfold rs'. rewrite <- (map_map dres_of Some).
  rewrite <- (map_map snd canon_res). rewrite live_map_some. rewrite map_map.
  rewrite <- (map_id crs) at 2. apply map_ext. intros cr. apply canon_res_dres_of.
Qed.

Theorem decode_encode_canon s c :
  wf_dstore s = true -> canon s = Some c ->
  exists s', decode (encode_c c) = Some s' /\ canon s' = Some c.
Proof.
  intros Hwf Hc.
  pose proof (main_doc_ok _ _ Hwf Hc) as Hok.
  pose proof (side_file_names _ _ Hc) as Hnames.
  destruct (wf_dstore_parts _ Hwf) as (_ & _ & _ & _ & _ & Hfiles & _).
  assert (NDf : NoDup (map fst (side_files c))) by (rewrite Hnames; apply str_nodup_NoDup; exact Hfiles).
  unfold decode, encode_c. cbn [fst snd]. rewrite (parse_json_of_bstore _ Hok).
  apply (build_main_doc s c (side_files c) Hwf Hc). intros f x Hin. apply file_get_first; assumption.
Qed.

(** * a well-formed store can be written *)
Lemma is_live_slot {X} (l : list (option X)) h : is_live l h = true -> exists x, slot l h = Some x.
Proof. unfold is_live. destruct (slot l h); [eauto|discriminate]. Qed.

Lemma omap_total {X Y} (f : X -> option Y) (l : list X) :
  (forall x, In x l -> exists y, f x = Some y) -> exists r, omap f l = Some r.
Proof.
  induction l as [|x l IH]; intros H; [exists []; reflexivity|].
  destruct (H x (or_introl eq_refl)) as [y Hy]. destruct IH as [r Hr]; [intros z Hz; apply H; right; exact Hz|].
  exists (y :: r). cbn. rewrite Hy, Hr. reflexivity.
Qed.

Lemma wf_canon_leaf s h lf : wf_leaf s h lf = true -> exists cl, canon_leaf s lf = Some cl.
Proof.
  destruct lf as [r b e m|a|a r b e m|r|d|d k|d x]; cbn [wf_leaf canon_leaf]; intros H.
  - destruct (slot (st_ress s) r); [eauto|discriminate].
  - apply andb_prop in H. destruct H as [_ H]. apply is_live_slot in H. destruct H as [an Ha].
    unfold ann_name. rewrite Ha. eauto.
  - apply andb_prop in H. destruct H as [H H3]. apply andb_prop in H. destruct H as [_ H2].
    apply is_live_slot in H2. destruct H2 as [rs Hr]. unfold res_name. rewrite Hr. cbn [option_map].
    destruct (ann_range s a) as [[[r0 pb] pe]|] eqn:Erg; [|discriminate].
    assert (Ha : exists an, slot (st_anns s) a = Some an).
    { unfold ann_range in Erg. destruct (slot (st_anns s) a); [eauto|discriminate]. }
    destruct Ha as [an Ha]. unfold ann_name. rewrite Ha. eauto.
  - apply is_live_slot in H. destruct H as [rs Hr]. unfold res_name. rewrite Hr. cbn. eauto.
  - apply is_live_slot in H. destruct H as [ds Hd]. unfold set_name. rewrite Hd. cbn. eauto.
  - unfold key_live in H. unfold set_name, key_name. destruct (slot (st_sets s) d) as [ds|]; [|discriminate].
    apply is_live_slot in H. destruct H as [kn Hk]. rewrite Hk. cbn. eauto.
  - unfold data_live in H. unfold set_name, data_name. destruct (slot (st_sets s) d) as [ds|]; [|discriminate].
    apply is_live_slot in H. destruct H as [it Hx]. rewrite Hx. cbn. eauto.
Qed.

Theorem wf_canon s : wf_dstore s = true -> exists c, canon s = Some c.
Proof.
  intros Hwf. destruct (wf_dstore_parts _ Hwf) as (_ & _ & _ & Wsets & Wanns & _).
  assert (Hs : exists css, omap (fun p => canon_set (snd p)) (live (st_sets s)) = Some css).
  { apply omap_total. intros [h ds] Hin. rewrite forallb_forall in Wsets. specialize (Wsets _ Hin). cbn [snd] in *.
    unfold wf_set in Wsets. apply andb_prop in Wsets. destruct Wsets as [W _]. apply andb_prop in W. destruct W as [W _].
    apply andb_prop in W. destruct W as [_ Wk].
    unfold canon_set.
    destruct (omap_total (canon_data ds) (live (js_data ds))) as [xs Hx].
    - intros [x it] Hi. apply live_In in Hi. unfold canon_data.
      rewrite forallb_forall in Wk. assert (Hin2 : In (Some it) (js_data ds)).
      { unfold slot in Hi. rewrite <- Hi. apply nth_In. eapply slot_lt. exact Hi. }
      specialize (Wk _ Hin2). cbn in Wk. apply is_live_slot in Wk. destruct Wk as [kn Hk]. rewrite Hk. eauto.
    - rewrite Hx. eauto. }
  assert (Ha : exists cas, omap (canon_ann s) (live (st_anns s)) = Some cas).
  { apply omap_total. intros [h an] Hin. rewrite forallb_forall in Wanns. specialize (Wanns _ Hin). cbn [fst snd] in Wanns.
    unfold wf_ann in Wanns. apply andb_prop in Wanns. destruct Wanns as [W _]. apply andb_prop in W. destruct W as [Wd Wl].
    unfold canon_ann.
    destruct (omap_total (canon_dataref s) (ja_data an)) as [ds Hd].
    - intros [d x] Hi. rewrite forallb_forall in Wd. specialize (Wd _ Hi). cbn [fst snd] in Wd.
      unfold data_live in Wd. unfold canon_dataref, data_name, set_name. cbn [fst snd].
      destruct (slot (st_sets s) d) as [dd|]; [|discriminate]. apply is_live_slot in Wd. destruct Wd as [it Hx].
      rewrite Hx. cbn. eauto.
    - destruct (omap_total (canon_leaf s) (ja_leaves an)) as [ls Hl].
      + intros lf Hi. rewrite forallb_forall in Wl. eapply wf_canon_leaf. apply Wl. exact Hi.
      + rewrite Hd, Hl. eauto. }
  destruct Hs as [css Hs]. destruct Ha as [cas Ha]. unfold canon. rewrite Hs, Ha. eauto.
Qed.

(** * the property *)
Theorem roundtrip s : wf_dstore s = true -> roundtrip_ok s.
Proof.
  intros Hwf. destruct (wf_canon _ Hwf) as [c Hc]. destruct (decode_encode_canon _ _ Hwf Hc) as (s' & Hd & Hc').
  exists (encode_c c), s'. unfold encode. rewrite Hc, Hc'. repeat split; try reflexivity; try exact Hd.
  exists c. split; assumption.
Qed.

(* equal observations give equal documents: what is written is a function of the observation *)
Theorem encode_respects_model s s' : same_model s s' -> encode s = encode s'.
Proof. intros (c & H1 & H2). unfold encode. rewrite H1, H2. reflexivity. Qed.

(** * without sub-stores the general writer and loader are the ones of the theorem *)
Lemma pick_no_owner {X} (l : list (nat * X)) : pick [] None l = l.
Proof.
  unfold pick. induction l as [|p l IH]; cbn [filter]; [reflexivity|].
  assert (E : onat_eqb (owner_of [] (fst p)) None = true) by (unfold owner_of; destruct (fst p); reflexivity).
  rewrite E, IH. reflexivity.
Qed.

Theorem encode_o_no_substores s : encode_o s no_owners = encode s.
Proof.
  unfold encode_o, encode, sub_docs, canon_part, no_owners. cbn [ow_subs ow_res ow_set ow_ann length seq combine omap map].
  rewrite !pick_no_owner. unfold canon.
  destruct (omap (fun p => canon_set (snd p)) (live (st_sets s))) as [css|]; [|reflexivity].
  destruct (omap (canon_ann s) (live (st_anns s))) as [cas|]; [|reflexivity].
  cbn [option_map]. unfold encode_c, with_include, main_doc. cbn [app c_id c_ress c_sets c_anns b_id b_ress b_sets b_anns map snd].
  reflexivity.
Qed.

Theorem decode_o_no_substores d b :
  parse_bstore (fst d) = Some b -> b_include b = [] ->
  decode_o d = option_map (fun s => (s, own_new no_owners s None)) (decode d).
Proof.
  intros Hp Hi. unfold decode_o, decode. rewrite Hp, Hi. cbn [load_subs].
  unfold build_into, build. cbn [st_ress st_sets st_anns st_id length].
  destruct (load_ress (snd d) [] (b_ress b)) as [rs|]; [|reflexivity].
  destruct (load_sets (snd d) [] (b_sets b)) as [ss|]; [|reflexivity].
  destruct (load_anns 0 (mkdstore (b_id b) rs ss []) (b_anns b)); reflexivity.
Qed.
