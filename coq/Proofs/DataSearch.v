(* C10: data search through the key index equals a scan; the vocabulary invariants. *)
From Stam Require Import Base.Tac Base.ListAux Model.Offset Model.Store Model.StoreObs Model.TempId Model.DataValue
     Spec.StoreSpec Spec.DataSpec Proofs.RelMap Proofs.StoreScan Proofs.StoreItems Proofs.StoreSets Proofs.StoreIds.

Lemma ref_key_scan ds kr : DsInv ds -> ref_key ds kr = s_key ds kr.
Proof.
  intros HI. unfold ref_key, s_key, resolve_ref. destruct kr as [tok|h]; [|reflexivity].
  pose proof (exact_resolve (fun t : nat => Some t) (d_keys ds) (d_kidx ds) tok) as R.
  assert (E : exact (fun t : nat => Some t) (d_keys ds) (d_kidx ds)).
  { intros tk k. rewrite (D_kidx ds HI). split.
    - intros H. exists tk. tauto.
    - intros (it & Hs & Hi). inversion Hi; subst. exact Hs. }
  specialize (R E). unfold m_resolve, resolve_ref in R.
  destruct (id_get (d_kidx ds) tok) as [k|].
  - destruct (slot (d_keys ds) k); rewrite <- R; reflexivity.
  - rewrite <- R. reflexivity.
Qed.

Theorem find_data_scan ds key o : DsInv ds -> m_find_data ds key o = s_find_data ds key o.
Proof.
  intros HI. unfold m_find_data, s_find_data. destruct key as [kr|].
  - rewrite (ref_key_scan ds kr HI). destruct (s_key ds kr) as [k|]; [|reflexivity].
    rewrite (D_k2x ds HI). unfold s_key_data. rewrite !filter_filter.
    apply filter_ext_in. intros x _. unfold live_datum, datum_test.
    destruct (slot (d_data ds) x) as [it|]; [|reflexivity].
    destruct (x_key it =? k); cbn [andb]; reflexivity.
  - unfold live_handles. rewrite filter_filter. apply filter_ext_in. intros x _. unfold datum_test.
    destruct (slot (d_data ds) x); reflexivity.
Qed.

Theorem data_by_value_scan ds kr v : DsInv ds -> m_data_by_value ds kr v = s_data_by_value ds kr v.
Proof.
  intros HI. unfold m_data_by_value, s_data_by_value. rewrite (ref_key_scan ds kr HI).
  destruct (s_key ds kr) as [k|]; [|reflexivity]. apply data_by_value_spec. exact HI.
Qed.

Theorem key_data_scan ds k : DsInv ds -> m_key_data ds k = s_key_data ds k.
Proof.
  intros HI. unfold m_key_data. rewrite (D_k2x ds HI). apply filter_true_in.
  intros x Hx. rewrite s_key_data_l in Hx. apply s_key_datal_In in Hx. destruct Hx as (it & Hs & _). rewrite Hs. reflexivity.
Qed.

(* each key exists once *)
Theorem keys_unique_ok ds : DsInv ds -> keys_unique ds = true.
Proof.
  intros HI. unfold keys_unique.
  assert (G : forall l (base : nat), (forall i j t, nth_error l i = Some (Some t) -> nth_error l j = Some (Some t) -> i = j) ->
              nodup_nat (flat_map (fun k => match k with Some t => [t] | None => [] end) l) = true).
  { induction l as [|[t|] l IH]; intros base Hinj; cbn [flat_map nodup_nat app]; [reflexivity| |].
    - apply andb_true_iff. split.
      + apply negb_true_iff. destruct (existsb (Nat.eqb t) _) eqn:E; [|reflexivity]. exfalso.
        apply existsb_exists in E. destruct E as (t' & Hin & Heq). apply Nat.eqb_eq in Heq. subst t'.
        apply in_flat_map in Hin. destruct Hin as ([t2|] & Hl & Ht); [|destruct Ht].
        destruct Ht as [->|[]]. apply In_nth_error in Hl. destruct Hl as (j & Hj).
        specialize (Hinj 0 (S j) t eq_refl Hj). discriminate.
      + apply (IH base). intros i j t0 Hi Hj. specialize (Hinj (S i) (S j) t0 Hi Hj). lia.
    - apply (IH base). intros i j t0 Hi Hj. specialize (Hinj (S i) (S j) t0 Hi Hj). lia. }
  apply (G (d_keys ds) 0). intros i j t Hi Hj.
  assert (Si : slot (d_keys ds) i = Some t).
  { unfold slot. apply nth_error_nth with (d := None) in Hi. exact Hi. }
  assert (Sj : slot (d_keys ds) j = Some t).
  { unfold slot. apply nth_error_nth with (d := None) in Hj. exact Hj. }
  apply (D_kidx ds HI) in Si. apply (D_kidx ds HI) in Sj. congruence.
Qed.

(** the comparison semantics: logical operators *)
Theorem value_test_not v o : value_test v (OpNot o) = negb (value_test v o).
Proof. reflexivity. Qed.
Theorem value_test_and v l : value_test v (OpAnd l) = forallb (value_test v) l.
Proof. cbn [value_test]. induction l as [|x l IH]; cbn [forallb]; [reflexivity|]. rewrite <- IH. reflexivity. Qed.
Theorem value_test_or v l : value_test v (OpOr l) = existsb (value_test v) l.
Proof. cbn [value_test]. induction l as [|x l IH]; cbn [existsb]; [reflexivity|]. rewrite <- IH. reflexivity. Qed.
Theorem value_test_any v : value_test v OpAny = true.
Proof. reflexivity. Qed.
Theorem value_test_has l s : value_test (VList l) (OpHas s) = existsb (fun e => value_test e (OpEquals s)) l.
Proof.
  cbn [value_test atom_test]. induction l as [|e l IH]; cbn [existsb]; [reflexivity|]. rewrite IH. f_equal.
  destruct e; reflexivity.
Qed.
