(* Invariants of a dataset: key_data_map is exact, every data item's key exists, the two id
   maps are exact (hence keys and data ids are unique), id-less data is deduplicated. *)
From Coq Require Import Sorting.Sorted.
From Stam Require Import Base.Tac Base.ListAux Model.Offset Model.Store Model.StoreObs Spec.StoreSpec
     Model.TempId Model.DataValue Spec.DataSpec
     Proofs.RelMap Proofs.StoreScan Proofs.StoreInv Proofs.StoreDataDef Proofs.StoreItems.

Definition key_live (ds : dset) (k : nat) : Prop := slot (d_keys ds) k <> None.

Record DsInv (ds : dset) : Prop := mkDs {
  D_k2x : forall k, rget (d_k2x ds) k = s_key_data ds k;
  D_keys : forall x it, slot (d_data ds) x = Some it -> key_live ds (x_key it);
  D_kidx : forall tok k, id_get (d_kidx ds) tok = Some k <-> slot (d_keys ds) k = Some tok;
  D_xidx : forall tok x, id_get (d_xidx ds) tok = Some x <-> exists it, slot (d_data ds) x = Some it /\ x_id it = Some tok;
  D_vocab : vocab_ok ds = true
}.

Definition s_key_datal (l : list (option adata)) (k : nat) : list nat :=
  filter (fun x => match slot l x with Some it => Nat.eqb (x_key it) k | None => false end) (seq 0 (length l)).
Lemma s_key_data_l ds k : s_key_data ds k = s_key_datal (d_data ds) k.
Proof. reflexivity. Qed.

Lemma s_key_datal_app l it k :
  s_key_datal (l ++ [Some it]) k = s_key_datal l k ++ (if x_key it =? k then [length l] else []).
Proof.
  unfold s_key_datal. rewrite app_length. cbn [length]. rewrite Nat.add_1_r, seq_S, filter_app. cbn [plus]. f_equal.
  - apply filter_ext_in. intros x Hx. apply in_seq in Hx. rewrite slot_app_new. destruct (x =? length l) eqn:E; [lia|reflexivity].
  - cbn [filter]. rewrite slot_app_new, Nat.eqb_refl. destruct (x_key it =? k); reflexivity.
Qed.

Lemma s_key_datal_lt l k x : In x (s_key_datal l k) -> x < length l.
Proof. unfold s_key_datal. rewrite filter_In, in_seq. lia. Qed.

Lemma s_key_datal_In l k x : In x (s_key_datal l k) <-> exists it, slot l x = Some it /\ x_key it = k.
Proof.
  unfold s_key_datal. rewrite filter_In, in_seq. split.
  - intros [_ H]. destruct (slot l x) as [it|]; [|discriminate]. exists it. split; [reflexivity|lia].
  - intros (it & Hs & Hk). split; [split; [lia|cbn; apply (slot_lt _ _ _ Hs)]|]. rewrite Hs. lia.
Qed.

Lemma s_key_datal_set_none l x k :
  s_key_datal (set_slot l x None) k = filter (fun y => negb (y =? x)) (s_key_datal l k).
Proof.
  unfold s_key_datal. rewrite length_set_slot, filter_filter. apply filter_ext_in. intros y Hy. apply in_seq in Hy.
  rewrite slot_set_slot. destruct (y =? x) eqn:E; cbn [negb andb].
  - assert (y = x) by lia. subst y. destruct (x <? length l) eqn:E2; [|lia]. rewrite andb_false_r. reflexivity.
  - rewrite andb_true_r. reflexivity.
Qed.

Lemma DsInv_empty id : DsInv (mkset id [] [] [] [] []).
Proof.
  constructor; cbn [d_k2x d_keys d_data d_kidx d_xidx].
  - intros k. rewrite rget_nil. reflexivity.
  - intros x it H. unfold slot in H. destruct x; discriminate.
  - intros tok k. cbn [id_get]. split; [discriminate|]. intros H. unfold slot in H. destruct k; discriminate.
  - intros tok x. cbn [id_get]. split; [discriminate|]. intros (it & H & _). unfold slot in H. destruct x; discriminate.
  - reflexivity.
Qed.

(* data_by_value under the invariant: the first live item with that key and value *)
Lemma data_by_value_spec ds k v : DsInv ds ->
  data_by_value ds k v = find (fun x => match slot (d_data ds) x with
                                       | Some it => Nat.eqb (x_key it) k && value_eqb (x_val it) v
                                       | None => false end) (seq 0 (length (d_data ds))).
Proof.
  intros HI. unfold data_by_value. rewrite (D_k2x ds HI). unfold s_key_data.
  induction (seq 0 (length (d_data ds))) as [|x l IH]; cbn [filter find]; [reflexivity|].
  destruct (slot (d_data ds) x) as [it|] eqn:E; [|exact IH].
  destruct (x_key it =? k) eqn:Ek; cbn [andb find]; [|exact IH].
  rewrite E. destruct (value_eqb (x_val it) v); [reflexivity|exact IH].
Qed.

Lemma vocab_ok_app l it :
  (* [vocab_ok] only reads the data list *)
  forall ds ds', d_data ds = l -> d_data ds' = l ++ [Some it] ->
  vocab_ok ds = true ->
  (x_id it = None -> forall x1 it1, slot l x1 = Some it1 -> (x_key it1 =? x_key it) && value_eqb (x_val it1) (x_val it) = false) ->
  vocab_ok ds' = true.
Proof.
  intros ds ds' E E' Hv Hnew. unfold vocab_ok in *. rewrite E in Hv. rewrite E'.
  rewrite app_length. cbn [length]. rewrite Nat.add_1_r, seq_S, forallb_app. cbn [plus forallb]. rewrite andb_true_r.
  apply andb_true_iff. split.
  - rewrite forallb_forall in *. intros x2 Hx2. specialize (Hv x2 Hx2). apply in_seq in Hx2.
    rewrite slot_app_new. destruct (x2 =? length l) eqn:Ex; [lia|].
    destruct (slot l x2) as [it2|]; [|reflexivity]. destruct (x_id it2); [reflexivity|].
    rewrite forallb_forall in *. intros x1 Hx1. specialize (Hv x1 Hx1). apply in_seq in Hx1.
    rewrite slot_app_new. destruct (x1 =? length l) eqn:Ex1; [lia|exact Hv].
  - rewrite slot_app_new, Nat.eqb_refl. destruct (x_id it) eqn:Eid; [reflexivity|].
    rewrite forallb_forall. intros x1 Hx1. apply in_seq in Hx1.
    rewrite slot_app_new. destruct (x1 =? length l) eqn:Ex1; [lia|].
    destruct (slot l x1) as [it1|] eqn:E1; [|reflexivity]. rewrite (Hnew eq_refl x1 it1 E1). reflexivity.
Qed.

Lemma append_data_DsInv ds it :
  DsInv ds -> key_live ds (x_key it) ->
  (forall tok, x_id it = Some tok -> id_get (d_xidx ds) tok = None) ->
  (x_id it = None -> forall x1 it1, slot (d_data ds) x1 = Some it1 -> (x_key it1 =? x_key it) && value_eqb (x_val it1) (x_val it) = false) ->
  DsInv (mkset (d_id ds) (d_keys ds) (d_data ds ++ [Some it]) (d_kidx ds)
               (match x_id it with Some tok => id_put (d_xidx ds) tok (length (d_data ds)) | None => d_xidx ds end)
               (rins (d_k2x ds) (x_key it) (length (d_data ds)))).
Proof.
  intros [K L I1 I2 V] Hk Hid Hnew. constructor; cbn [d_k2x d_keys d_data d_kidx d_xidx].
  - intros k. rewrite rget_rins, s_key_data_l. cbn [d_data]. rewrite s_key_datal_app.
    destruct (k =? x_key it) eqn:E.
    + assert (k = x_key it) by lia. subst k. rewrite Nat.eqb_refl, K, s_key_data_l.
      apply push_new_fresh. rewrite Forall_forall. intros z Hz. apply (s_key_datal_lt _ _ _ Hz).
    + rewrite (Nat.eqb_sym (x_key it) k), E, app_nil_r. apply K.
  - intros x it0. rewrite slot_app_new. destruct (x =? length (d_data ds)).
    + intros H; inversion H; subst it0. exact Hk.
    + apply L.
  - exact I1.
  - intros tok x. destruct (x_id it) as [tk|] eqn:Eid.
    + rewrite id_get_put. destruct (tok =? tk) eqn:E.
      * assert (tok = tk) by lia. subst tok. split.
        -- intros H; inversion H; subst x. exists it. rewrite slot_app_new, Nat.eqb_refl. tauto.
        -- intros (it0 & Hs & Hi). rewrite slot_app_new in Hs. destruct (x =? length (d_data ds)) eqn:Ex; [f_equal; lia|].
           exfalso. pose proof (proj2 (I2 tk x) (ex_intro _ it0 (conj Hs Hi))) as Hc. rewrite (Hid tk eq_refl) in Hc. discriminate.
      * rewrite I2. split; intros (it0 & Hs & Hi); exists it0.
        -- rewrite slot_app_new. destruct (x =? length (d_data ds)) eqn:Ex; [apply slot_lt in Hs; lia|tauto].
        -- rewrite slot_app_new in Hs. destruct (x =? length (d_data ds)) eqn:Ex; [|tauto].
           inversion Hs; subst it0. rewrite Eid in Hi. inversion Hi. lia.
    + rewrite I2. split; intros (it0 & Hs & Hi); exists it0.
      * rewrite slot_app_new. destruct (x =? length (d_data ds)) eqn:Ex; [apply slot_lt in Hs; lia|tauto].
      * rewrite slot_app_new in Hs. destruct (x =? length (d_data ds)) eqn:Ex; [|tauto].
        inversion Hs; subst it0. congruence.
  - eapply (vocab_ok_app (d_data ds) it ds); [reflexivity|reflexivity|exact V|exact Hnew].
Qed.

Lemma append_key_DsInv ds tok :
  DsInv ds -> id_get (d_kidx ds) tok = None ->
  DsInv (mkset (d_id ds) (d_keys ds ++ [Some tok]) (d_data ds) (id_put (d_kidx ds) tok (length (d_keys ds))) (d_xidx ds) (d_k2x ds)).
Proof.
  intros [K L I1 I2 V] Hn. constructor; cbn [d_k2x d_keys d_data d_kidx d_xidx].
  - exact K.
  - intros x it H. unfold key_live. cbn [d_keys]. apply slot_app_keep. apply (L x it H).
  - intros tk k. rewrite id_get_put, slot_app_new. destruct (tk =? tok) eqn:E.
    + assert (tk = tok) by lia. subst tk. split.
      * intros H; inversion H; subst k. rewrite Nat.eqb_refl. reflexivity.
      * destruct (k =? length (d_keys ds)) eqn:Ek; [intros _; f_equal; lia|].
        intros H. apply I1 in H. congruence.
    + destruct (k =? length (d_keys ds)) eqn:Ek.
      * split; [intros H; apply I1 in H; apply slot_lt in H; lia|intros H; inversion H; lia].
      * apply I1.
  - exact I2.
  - exact V.
Qed.

(* an id map that is exact never resolves to an empty slot *)
Lemma ref_key_none ds tok : DsInv ds -> ref_key ds (ById tok) = None -> id_get (d_kidx ds) tok = None.
Proof.
  intros HI H. unfold ref_key, resolve_ref in H. destruct (id_get (d_kidx ds) tok) as [k|] eqn:E; [|reflexivity].
  apply (D_kidx ds HI) in E. rewrite E in H. discriminate.
Qed.
Lemma ref_data_none ds tok : DsInv ds -> ref_data ds (ById tok) = None -> id_get (d_xidx ds) tok = None.
Proof.
  intros HI H. unfold ref_data, resolve_ref in H. destruct (id_get (d_xidx ds) tok) as [x|] eqn:E; [|reflexivity].
  apply (D_xidx ds HI) in E. destruct E as (it & Hs & _). rewrite Hs in H. discriminate.
Qed.

(* the data builders of the property: no id, or an id by name (a dangling handle as id is
   neither "without an explicit identifier" nor a usable identifier) *)
Definition id_ok (id : option iref) : Prop := match id with Some (ByHandle _) => False | _ => True end.

Theorem dset_insert_data_DsInv ds id key v :
  DsInv ds -> id_ok id -> DsInv (fst (dset_insert_data ds id key v)).
Proof.
  intros HI Hid. unfold dset_insert_data.
  destruct (match id with Some r => ref_data ds r | None => None end) as [h|] eqn:Eid; [exact HI|].
  destruct key as [kr|]; [|exact HI].
  destruct (ref_key ds kr) as [k|] eqn:Ek.
  - cbn [negb].
    destruct (match id with None => data_by_value ds k v | Some _ => None end) as [h|] eqn:Ed; [exact HI|]. cbn [fst].
    set (pid := match id with Some (ById tok) => Some tok | _ => None end).
    apply (append_data_DsInv ds (mkdata pid k v) HI).
    + cbn [x_key]. apply (ref_key_live ds kr k Ek).
    + cbn [x_id]. intros tok Hp. unfold pid in Hp. destruct id as [[tk|h0]|]; try discriminate.
      inversion Hp; subst tk. apply (ref_data_none ds tok HI Eid).
    + cbn [x_id x_key x_val]. intros Hp x1 it1 H1. unfold pid in Hp. destruct id as [[tk|h0]|]; try discriminate; [destruct Hid|].
      rewrite (data_by_value_spec ds k v HI) in Ed.
      pose proof (find_none _ _ Ed x1) as Hn. cbv beta in Hn. rewrite H1 in Hn. apply Hn. apply in_seq.
      pose proof (slot_lt _ _ _ H1). lia.
  - destruct kr as [tok|h0]; [|exact HI]. cbn [negb fst].
    pose proof (append_key_DsInv ds tok HI (ref_key_none ds tok HI Ek)) as HI1.
    set (ds1 := mkset (d_id ds) (d_keys ds ++ [Some tok]) (d_data ds) (id_put (d_kidx ds) tok (length (d_keys ds))) (d_xidx ds) (d_k2x ds)) in *.
    set (pid := match id with Some (ById tk) => Some tk | _ => None end).
    change (DsInv (mkset (d_id ds1) (d_keys ds1) (d_data ds1 ++ [Some (mkdata pid (length (d_keys ds)) v)]) (d_kidx ds1)
                         (match x_id (mkdata pid (length (d_keys ds)) v) with Some tk => id_put (d_xidx ds1) tk (length (d_data ds1)) | None => d_xidx ds1 end)
                         (rins (d_k2x ds1) (x_key (mkdata pid (length (d_keys ds)) v)) (length (d_data ds1))))).
    apply (append_data_DsInv ds1 (mkdata pid (length (d_keys ds)) v) HI1).
    + unfold key_live, ds1. cbn [x_key d_keys]. rewrite slot_app_new, Nat.eqb_refl. discriminate.
    + cbn [x_id]. intros tk Hp. unfold pid in Hp. destruct id as [[tk0|h0]|]; try discriminate.
      inversion Hp; subst tk0. unfold ds1. cbn [d_xidx]. apply (ref_data_none ds tk HI Eid).
    + cbn [x_id x_key x_val]. intros _ x1 it1 H1. unfold ds1 in H1. cbn [d_data] in H1.
      (* no existing data item carries the brand-new key *)
      pose proof (D_keys ds HI x1 it1 H1) as Hl. unfold key_live in Hl.
      destruct (x_key it1 =? length (d_keys ds)) eqn:E; [|reflexivity].
      exfalso. apply Hl. unfold slot. apply nth_overflow. lia.
Qed.

(** * structural frames of the removal functions (no invariant needed) *)
Lemma unindex_ann_frame s h a :
  sets (unindex_ann s h a) = sets s /\ ress (unindex_ann s h a) = ress s
  /\ sidx (unindex_ann s h a) = sidx s /\ ridx (unindex_ann s h a) = ridx s.
Proof.
  unfold unindex_ann.
  assert (L : forall ls s0, sets (fold_left (unindex_leaf h) ls s0) = sets s0 /\ ress (fold_left (unindex_leaf h) ls s0) = ress s0
                        /\ sidx (fold_left (unindex_leaf h) ls s0) = sidx s0 /\ ridx (fold_left (unindex_leaf h) ls s0) = ridx s0).
  { induction ls as [|lf ls IH]; intros s0; cbn [fold_left]; [repeat split|].
    destruct (IH (unindex_leaf h s0 lf)) as (A&B&C&D). rewrite A, B, C, D. destruct lf; repeat split. }
  destruct (L (a_leaves a) (fold_left (fun s dx => set_ddam s (trem (ddam s) (fst dx) (snd dx) h)) (a_data a) s)) as (A&B&C&D).
  rewrite A, B, C, D. clear. generalize (a_data a). intros l. revert s.
  induction l as [|p l IH]; intros s; cbn [fold_left]; [repeat split|].
  destruct (IH (set_ddam s (trem (ddam s) (fst p) (snd p) h))) as (A&B&C&D). rewrite A, B, C, D. repeat split.
Qed.

Lemma remove_ann_frame : forall fuel s h,
  let s' := fst (remove_ann fuel s h) in
  sets s' = sets s /\ ress s' = ress s /\ sidx s' = sidx s /\ ridx s' = ridx s.
Proof.
  induction fuel as [|fuel IH]; intros s h; cbn [remove_ann]; [repeat split|].
  destruct (get_ann s h) as [a0|]; [|repeat split].
  assert (F : forall L s0, let s1 := fold_left (fun s c => fst (remove_ann fuel s c)) L s0 in
            sets s1 = sets s0 /\ ress s1 = ress s0 /\ sidx s1 = sidx s0 /\ ridx s1 = ridx s0).
  { induction L as [|c L IHL]; intros s0; cbn [fold_left]; [repeat split|].
    destruct (IH s0 c) as (A&B&C&D). destruct (IHL (fst (remove_ann fuel s0 c))) as (A'&B'&C'&D'). cbv zeta in *.
    repeat split; congruence. }
  destruct (F (rget (aam s) h) s) as (A&B&C&D). cbv zeta in *.
  set (s1 := fold_left (fun s c => fst (remove_ann fuel s c)) (rget (aam s) h) s) in *.
  set (s2 := set_aam s1 (rclear (aam s1) h)).
  destruct (get_ann s2 h) as [a|]; cbn [fst]; [|repeat split; assumption].
  destruct (unindex_ann_frame s2 h a) as (A'&B'&C'&D').
  destruct (a_id a); cbn [set_anns set_aidx sets ress sidx ridx]; rewrite A', B', C', D'; repeat split; assumption.
Qed.

Lemma remove_anns_frame l : forall s,
  sets (remove_anns s l) = sets s /\ ress (remove_anns s l) = ress s
  /\ sidx (remove_anns s l) = sidx s /\ ridx (remove_anns s l) = ridx s.
Proof.
  unfold remove_anns. induction l as [|c l IH]; intros s; cbn [fold_left]; [repeat split|].
  destruct (remove_ann_frame (fuel_of s) s c) as (A&B&C&D). destruct (IH (fst (remove_ann (fuel_of s) s c))) as (A'&B'&C'&D').
  cbv zeta in *. repeat split; congruence.
Qed.

(* what remove_data_h does to the datasets *)
Definition ds_without (ds : dset) (x : nat) (it : adata) : dset :=
  mkset (d_id ds) (d_keys ds) (set_slot (d_data ds) x None) (d_kidx ds)
        (match x_id it with Some tok => id_del (d_xidx ds) tok | None => d_xidx ds end)
        (rrem (d_k2x ds) (x_key it) x).

Lemma remove_data_h_sets s d x strict :
  let s' := fst (remove_data_h s d x strict) in
  ress s' = ress s /\ sidx s' = sidx s /\ ridx s' = ridx s
  /\ sets s' = match get_set s d with
               | Some ds => match slot (d_data ds) x with
                            | Some it => set_slot (sets s) d (Some (ds_without ds x it))
                            | None => sets s
                            end
               | None => sets s
               end.
Proof.
  unfold remove_data_h.
  set (users := tget (ddam s) d x).
  set (stepf := fun (s0 : store) (a : nat) => _).
  assert (F1 : forall us s0, let s1 := fold_left stepf us s0 in
            sets s1 = sets s0 /\ ress s1 = ress s0 /\ sidx s1 = sidx s0 /\ ridx s1 = ridx s0).
  { induction us as [|a us IH]; intros s0; cbn [fold_left]; [repeat split|].
    assert (S : sets (stepf s0 a) = sets s0 /\ ress (stepf s0 a) = ress s0 /\ sidx (stepf s0 a) = sidx s0 /\ ridx (stepf s0 a) = ridx s0).
    { unfold stepf. destruct strict; [apply remove_ann_frame|].
      destruct (get_ann s0 a) as [an|]; [|repeat split].
      destruct (a_data (ann_remove_data an d x)); [destruct (a_data an)|]; try (repeat split; reflexivity).
      match goal with |- context [remove_ann ?f ?s9 a] => destruct (remove_ann_frame f s9 a) as (A&B&C&D) end.
      cbv zeta in *. repeat split; assumption. }
    destruct S as (A&B&C&D). destruct (IH (stepf s0 a)) as (A'&B'&C'&D'). cbv zeta in *. repeat split; congruence. }
  destruct (F1 users s) as (A1&B1&C1&D1). cbv zeta in *.
  set (s1 := fold_left stepf users s) in *.
  destruct (remove_anns_frame (tget (damm s1) d x) s1) as (A2&B2&C2&D2).
  set (s2 := remove_anns s1 (tget (damm s1) d x)) in *.
  set (s3 := set_damm s2 (tclear2 (damm s2) d x)).
  assert (E3 : sets s3 = sets s /\ ress s3 = ress s /\ sidx s3 = sidx s /\ ridx s3 = ridx s)
    by (unfold s3; cbn [set_damm sets ress sidx ridx]; repeat split; congruence).
  destruct E3 as (A3&B3&C3&D3).
  assert (Eg : get_set s3 d = get_set s d) by (unfold get_set; rewrite A3; reflexivity).
  rewrite Eg. destruct (get_set s d) as [ds|]; cbn [fst]; [|repeat split; assumption].
  destruct (slot (d_data ds) x) as [it|]; cbn [fst]; [|repeat split; assumption].
  match goal with |- context [fold_left ?f users ?s4] =>
    assert (F4 : forall us s0, let s5 := fold_left f us s0 in
              sets s5 = sets s0 /\ ress s5 = ress s0 /\ sidx s5 = sidx s0 /\ ridx s5 = ridx s0);
    [induction us as [|a us IH]; intros s0; cbn [fold_left]; [repeat split|];
     destruct (IH (set_ddam s0 (trem (ddam s0) d x a))) as (A'&B'&C'&D'); cbv zeta in *; repeat split; assumption|];
    destruct (F4 users s4) as (A4&B4&C4&D4)
  end.
  cbv zeta in *. rewrite A4, B4, C4, D4. cbn [set_sets sets ress sidx ridx]. rewrite A3. repeat split; assumption.
Qed.

Lemma s_key_datal_NoDup l k : NoDup (s_key_datal l k).
Proof. apply NoDup_filter, seq_NoDup. Qed.

Lemma vocab_ok_remove ds ds' x :
  d_data ds' = set_slot (d_data ds) x None -> vocab_ok ds = true -> vocab_ok ds' = true.
Proof.
  intros E Hv. unfold vocab_ok in *. rewrite E, length_set_slot.
  rewrite forallb_forall in *. intros x2 Hx2. specialize (Hv x2 Hx2).
  rewrite slot_set_slot. destruct ((x2 =? x) && (x <? length (d_data ds))); [reflexivity|].
  destruct (slot (d_data ds) x2) as [it2|]; [|reflexivity]. destruct (x_id it2); [reflexivity|].
  rewrite forallb_forall in *. intros x1 Hx1. specialize (Hv x1 Hx1).
  rewrite slot_set_slot. destruct ((x1 =? x) && (x <? length (d_data ds))); [reflexivity|exact Hv].
Qed.

Lemma ds_without_DsInv ds x it : DsInv ds -> slot (d_data ds) x = Some it -> DsInv (ds_without ds x it).
Proof.
  intros [K L I1 I2 V] Hx. pose proof (slot_lt _ _ _ Hx) as Hlt.
  constructor; unfold ds_without; cbn [d_k2x d_keys d_data d_kidx d_xidx].
  - intros k. rewrite rget_rrem, s_key_data_l. cbn [d_data]. rewrite s_key_datal_set_none.
    destruct (k =? x_key it) eqn:E.
    + assert (k = x_key it) by lia. subst k. rewrite K, s_key_data_l. apply remove_first_filter, s_key_datal_NoDup.
    + rewrite K, s_key_data_l. symmetry. apply filter_neq_notin. intros Hin. apply s_key_datal_In in Hin.
      destruct Hin as (it0 & Hs & Hk). rewrite Hx in Hs. inversion Hs; subst it0. lia.
  - intros x0 it0. rewrite slot_set_slot. destruct ((x0 =? x) && (x <? length (d_data ds))); [discriminate|]. apply L.
  - exact I1.
  - intros tok x0. rewrite slot_set_slot.
    destruct (x_id it) as [tk|] eqn:Eid.
    + rewrite id_get_del. destruct (tok =? tk) eqn:E.
      * assert (tok = tk) by lia. subst tok. split; [discriminate|].
        intros (it0 & Hs & Hi). destruct ((x0 =? x) && (x <? length (d_data ds))) eqn:E0; [discriminate|].
        (* x0 carries the id of x: the id map is exact, so x0 = x *)
        pose proof (proj2 (I2 tk x0) (ex_intro _ it0 (conj Hs Hi))) as H0.
        pose proof (proj2 (I2 tk x) (ex_intro _ it (conj Hx Eid))) as H1. rewrite H0 in H1. inversion H1; subst x0.
        rewrite Nat.eqb_refl in E0. cbn [andb] in E0. lia.
      * rewrite I2. split; intros (it0 & Hs & Hi); exists it0.
        -- destruct ((x0 =? x) && (x <? length (d_data ds))) eqn:E0; [|tauto].
           assert (x0 = x) by lia. subst x0. rewrite Hx in Hs. inversion Hs; subst it0. rewrite Eid in Hi. inversion Hi. lia.
        -- destruct ((x0 =? x) && (x <? length (d_data ds))); [discriminate Hs|tauto].
    + rewrite I2. split; intros (it0 & Hs & Hi); exists it0.
      * destruct ((x0 =? x) && (x <? length (d_data ds))) eqn:E0; [|tauto].
        assert (x0 = x) by lia. subst x0. rewrite Hx in Hs. inversion Hs; subst it0. congruence.
      * destruct ((x0 =? x) && (x <? length (d_data ds))); [discriminate Hs|tauto].
  - apply (vocab_ok_remove ds _ x); [reflexivity|exact V].
Qed.

Definition ds_without_key (ds : dset) (k tok : nat) : dset :=
  mkset (d_id ds) (set_slot (d_keys ds) k None) (d_data ds) (id_del (d_kidx ds) tok) (d_xidx ds) (rclear (d_k2x ds) k).

Lemma ds_without_key_DsInv ds k tok :
  DsInv ds -> slot (d_keys ds) k = Some tok -> s_key_data ds k = [] -> DsInv (ds_without_key ds k tok).
Proof.
  intros [K L I1 I2 V] Hk He. pose proof (slot_lt _ _ _ Hk) as Hlt.
  constructor; unfold ds_without_key; cbn [d_k2x d_keys d_data d_kidx d_xidx].
  - intros k0. rewrite rget_rclear. change (s_key_data (mkset (d_id ds) (set_slot (d_keys ds) k None) (d_data ds) (id_del (d_kidx ds) tok) (d_xidx ds) (rclear (d_k2x ds) k)) k0) with (s_key_data ds k0).
    destruct (k0 =? k) eqn:E; [|apply K]. assert (k0 = k) by lia. subst k0. symmetry. exact He.
  - intros x it Hx. unfold key_live. cbn [d_keys]. rewrite slot_set_slot.
    destruct ((x_key it =? k) && (k <? length (d_keys ds))) eqn:E; [|apply (L x it Hx)].
    exfalso. assert (Hin : In x (s_key_data ds k)).
    { rewrite s_key_data_l. apply s_key_datal_In. exists it. split; [exact Hx|lia]. }
    rewrite He in Hin. destruct Hin.
  - intros tk k0. rewrite id_get_del, slot_set_slot. destruct (tk =? tok) eqn:E.
    + assert (tk = tok) by lia. subst tk. split; [discriminate|].
      destruct ((k0 =? k) && (k <? length (d_keys ds))) eqn:E0; [discriminate|]. intros H.
      pose proof (proj2 (I1 tok k0) H) as H0. pose proof (proj2 (I1 tok k) Hk) as H1. rewrite H0 in H1. inversion H1; subst k0.
      rewrite Nat.eqb_refl in E0. cbn [andb] in E0. lia.
    + rewrite I1. destruct ((k0 =? k) && (k <? length (d_keys ds))) eqn:E0; [|tauto].
      assert (k0 = k) by lia. subst k0. split; [intros H; rewrite Hk in H; inversion H; lia|discriminate].
  - exact I2.
  - exact V.
Qed.

(** * every dataset of every reachable store *)
Definition SetsInv (s : store) : Prop := forall d ds, get_set s d = Some ds -> DsInv ds.

Lemma SetsInv_same s s' : sets s' = sets s -> SetsInv s -> SetsInv s'.
Proof. intros E H d ds Hd. apply (H d ds). unfold get_set in *. rewrite <- E. exact Hd. Qed.

Lemma SetsInv_set_slot s d v : SetsInv s -> (forall ds, v = Some ds -> DsInv ds) ->
  SetsInv (set_sets s (set_slot (sets s) d v)).
Proof.
  intros H Hv d0 ds0 Hd. unfold get_set in Hd. cbn [set_sets sets] in Hd. rewrite slot_set_slot in Hd.
  destruct ((d0 =? d) && (d <? length (sets s))); [apply Hv; exact Hd|apply (H d0 ds0 Hd)].
Qed.

Lemma add_set_SetsInv s id : SetsInv s -> SetsInv (fst (add_set s id)).
Proof.
  intros H. unfold add_set. destruct (id_get (sidx s) id) as [h|].
  - destruct (get_set s h) as [d|]; [destruct (dset_is_empty d)|]; exact H.
  - cbn [fst]. intros d ds Hd. unfold get_set in Hd. cbn [set_sidx set_sets sets] in Hd. rewrite slot_app_new in Hd.
    destruct (d =? length (sets s)); [inversion Hd; apply DsInv_empty|apply (H d ds Hd)].
Qed.

Definition dbuild_ok (b : dbuild) : Prop := id_ok (db_id b).

Lemma store_insert_data_SetsInv s b : dbuild_ok b -> SetsInv s -> SetsInv (fst (store_insert_data s b)).
Proof.
  intros Hb H. unfold store_insert_data.
  set (tok := match db_set b with ById tok => tok | ByHandle _ => DEFAULT_SET_TOKEN end).
  assert (Core : forall s1 h, SetsInv s1 ->
     SetsInv (fst (match get_set s1 h with
                   | None => (s1, None)
                   | Some d =>
                       match dset_insert_data d (db_id b) (db_key b) (db_val b) with
                       | (d', OOk x) => (set_sets s1 (set_slot (sets s1) h (Some d')), Some (h, x))
                       | (d', _) => (set_sets s1 (set_slot (sets s1) h (Some d')), None)
                       end
                   end))).
  { intros s1 h H1. destruct (get_set s1 h) as [d|] eqn:Eg; [|exact H1].
    pose proof (dset_insert_data_DsInv d (db_id b) (db_key b) (db_val b) (H1 h d Eg) Hb) as HD.
    destruct (dset_insert_data d (db_id b) (db_key b) (db_val b)) as [d' r]. cbn [fst] in HD.
    destruct r; cbn [fst]; apply SetsInv_set_slot; try exact H1; intros ds0 E; inversion E; subst; exact HD. }
  destruct (ref_set s (db_set b)) as [h|]; [apply (Core s h H)|].
  pose proof (add_set_SetsInv s tok H) as H1. destruct (add_set s tok) as [s1 [h| |]]; cbn [fst] in H1; try exact H1.
  apply (Core s1 h H1).
Qed.

Lemma insert_datas_SetsInv l : Forall dbuild_ok l -> forall s, SetsInv s -> SetsInv (fst (insert_datas s l)).
Proof.
  induction 1 as [|b l Hb Hl IH]; intros s H; cbn [insert_datas]; [exact H|].
  pose proof (store_insert_data_SetsInv s b Hb H) as H1. destruct (store_insert_data s b) as [s1 [dx|]]; cbn [fst] in H1; [|exact H1].
  specialize (IH s1 H1). destruct (insert_datas s1 l) as [s2 [dxs|]]; exact IH.
Qed.

Lemma index_ann_sets s h a : sets (index_ann s h a) = sets s.
Proof.
  unfold index_ann.
  assert (L : forall ls s5, sets (fold_left (index_leaf h) ls s5) = sets s5).
  { induction ls as [|lf ls IH]; intros s5; cbn [fold_left]; [reflexivity|]. rewrite IH. destruct lf; reflexivity. }
  rewrite L. generalize (a_data a). intros l. revert s. induction l as [|p l IH]; intros s; cbn [fold_left]; [reflexivity|].
  rewrite IH. reflexivity.
Qed.

Lemma resolve_target_sets' s b : sets (fst (resolve_target s b)) = sets s.
Proof.
  assert (I : forall s r rs rg, sets (fst (intern_sel s r rs rg)) = sets s)
    by (intros; unfold intern_sel; destruct (find_sel _ _ _); reflexivity).
  assert (S1 : forall s b, sets (fst (resolve_simple s b)) = sets s).
  { clear s b. intros s b. destruct b as [rr o|ar [o|]|rr|dr|dr kr|dr xr|k l]; cbn [resolve_simple]; try reflexivity.
    - destruct (ref_res s rr) as [r|]; [|reflexivity]. destruct (get_res s r) as [rs|]; [|reflexivity].
      destruct (resource_ts (r_len rs) o) as [rg|]; [|reflexivity].
      specialize (I s r rs rg). destruct (intern_sel s r rs rg); exact I.
    - destruct (ref_ann s ar) as [a|]; [|reflexivity]. destruct (get_ann s a) as [an|]; [|reflexivity].
      destruct (ann_textsel s an) as [[[r t] prg]|]; [|reflexivity].
      destruct (selection_ts prg o) as [rg|]; [|reflexivity]. destruct (get_res s r) as [rs|]; [|reflexivity].
      specialize (I s r rs rg). destruct (intern_sel s r rs rg); exact I.
    - destruct (ref_ann s ar); reflexivity.
    - destruct (ref_res s rr); reflexivity.
    - destruct (ref_set s dr); reflexivity.
    - destruct (ref_set s dr) as [d|]; [|reflexivity]. destruct (get_set s d) as [ds|]; [|reflexivity]. destruct (ref_key ds kr); reflexivity.
    - destruct (ref_set s dr) as [d|]; [|reflexivity]. destruct (get_set s d) as [ds|]; [|reflexivity]. destruct (ref_data ds xr); reflexivity. }
  assert (S2 : forall l s, sets (fst (resolve_subs s l)) = sets s).
  { induction l as [|b0 l IH]; intros s0; cbn [resolve_subs]; [reflexivity|].
    specialize (S1 s0 b0). destruct (resolve_simple s0 b0) as [s1 [lf|]]; cbn [fst] in *; [|exact S1].
    specialize (IH s1). destruct (resolve_subs s1 l) as [s2 [lfs|]]; cbn [fst] in *; congruence. }
  destruct b; cbn [resolve_target];
    try (match goal with |- context [resolve_simple ?s0 ?b0] =>
           specialize (S1 s0 b0); destruct (resolve_simple s0 b0) as [s' [lf|]]; exact S1 end).
  specialize (S2 l s). destruct (resolve_subs s l) as [s' [lfs|]]; exact S2.
Qed.

Lemma annotate_SetsInv s b : Forall dbuild_ok (ab_data b) -> SetsInv s -> SetsInv (fst (annotate s b)).
Proof.
  intros Hb H. unfold annotate. destruct (ab_target b) as [tb|]; [|exact H].
  pose proof (resolve_target_sets' s tb) as T1.
  destruct (resolve_target s tb) as [s1 [[kind leaves]|]]; cbn [fst] in T1; [|apply (SetsInv_same s); assumption].
  pose proof (insert_datas_SetsInv (ab_data b) Hb s1 (SetsInv_same s s1 T1 H)) as H2.
  destruct (insert_datas s1 (ab_data b)) as [s2 [data|]]; cbn [fst] in H2; [|exact H2].
  destruct (match ab_id b with Some tok => id_get (aidx s2) tok | None => None end) as [h'|].
  - destruct (get_ann s2 h') as [exi|]; [|exact H2]. destruct (_ && _); exact H2.
  - cbn [fst]. apply (SetsInv_same s2); [|exact H2]. rewrite index_ann_sets. destruct (ab_id b); reflexivity.
Qed.

Lemma remove_data_h_SetsInv s d x strict : SetsInv s -> SetsInv (fst (remove_data_h s d x strict)).
Proof.
  intros H. destruct (remove_data_h_sets s d x strict) as (_&_&_&E). cbv zeta in E.
  intros d0 ds0 Hd. unfold get_set in Hd. rewrite E in Hd.
  destruct (get_set s d) as [ds|] eqn:Eg; [|apply (H d0 ds0 Hd)].
  destruct (slot (d_data ds) x) as [it|] eqn:Ex; [|apply (H d0 ds0 Hd)].
  rewrite slot_set_slot in Hd. destruct ((d0 =? d) && (d <? length (sets s))); [|apply (H d0 ds0 Hd)].
  inversion Hd; subst ds0. apply ds_without_DsInv; [apply (H d ds Eg)|exact Ex].
Qed.

(* the fold of remove_key over the data of a key: all of them are gone afterwards, nothing else in
   the dataset changes and no other dataset changes *)
Lemma fold_remove_data_sets d strict : forall xs s ds,
  get_set s d = Some ds ->
  let s1 := fold_left (fun s x => fst (remove_data_h s d x strict)) xs s in
  exists ds1, get_set s1 d = Some ds1 /\ d_keys ds1 = d_keys ds
    /\ (forall x it, slot (d_data ds1) x = Some it -> slot (d_data ds) x = Some it /\ ~ In x xs)
    /\ (forall d0, d0 <> d -> get_set s1 d0 = get_set s d0).
Proof.
  induction xs as [|x xs IH]; intros s ds Hd; cbn [fold_left].
  - exists ds. split; [exact Hd|]. split; [reflexivity|]. split; [intros x it H; split; [exact H|intros []]|reflexivity].
  - destruct (remove_data_h_sets s d x strict) as (_&_&_&E). cbv zeta in E. rewrite Hd in E.
    set (s' := fst (remove_data_h s d x strict)) in *.
    pose proof (slot_lt _ _ _ Hd) as Hlt.
    assert (Hd' : exists ds', get_set s' d = Some ds' /\ d_keys ds' = d_keys ds
                 /\ (forall y it, slot (d_data ds') y = Some it -> slot (d_data ds) y = Some it /\ y <> x)
                 /\ (forall d0, d0 <> d -> get_set s' d0 = get_set s d0)).
    { destruct (slot (d_data ds) x) as [it|] eqn:Ex.
      - exists (ds_without ds x it). unfold get_set. rewrite E. split; [rewrite slot_set_slot, Nat.eqb_refl; destruct (d <? length (sets s)) eqn:E2; [reflexivity|lia]|].
        split; [reflexivity|]. split.
        + intros y it0. unfold ds_without. cbn [d_data]. rewrite slot_set_slot.
          destruct (y =? x) eqn:Ey; cbn [andb].
          * destruct (x <? length (d_data ds)) eqn:E3; [discriminate|]. apply slot_lt in Ex. lia.
          * intros H0. split; [exact H0|lia].
        + intros d0 Hne. rewrite slot_set_slot. destruct (d0 =? d) eqn:E0; [lia|reflexivity].
      - exists ds. unfold get_set. rewrite E. split; [exact Hd|]. split; [reflexivity|]. split; [|reflexivity].
        intros y it0 H0. split; [exact H0|]. intros ->. congruence. }
    destruct Hd' as (ds' & G1 & G2 & G3 & G4).
    destruct (IH s' ds' G1) as (ds1 & A1 & A2 & A3 & A4). cbv zeta in *.
    exists ds1. split; [exact A1|]. split; [congruence|]. split.
    + intros y it Hy. destruct (A3 y it Hy) as (B1 & B2). destruct (G3 y it B1) as (C1 & C2).
      split; [exact C1|]. intros [->|Hin]; [congruence|contradiction].
    + intros d0 Hne. rewrite (A4 d0 Hne). apply (G4 d0 Hne).
Qed.

Lemma fold_remove_data_SetsInv d strict : forall xs s, SetsInv s ->
  SetsInv (fold_left (fun s x => fst (remove_data_h s d x strict)) xs s).
Proof. induction xs as [|x xs IH]; intros s H; cbn [fold_left]; [exact H|]. apply IH, remove_data_h_SetsInv, H. Qed.

Lemma rm_key_SetsInv s dr kr strict : SetsInv s -> SetsInv (fst (rm_key s dr kr strict)).
Proof.
  intros H. unfold rm_key. destruct (to_handle (sidx s) dr) as [d|]; [|exact H].
  destruct (get_set s d) as [ds|] eqn:Eg; [|exact H]. destruct (to_handle (d_kidx ds) kr) as [k|]; [|exact H].
  pose proof (fold_remove_data_SetsInv d strict (rget (d_k2x ds) k) s H) as H1.
  destruct (fold_remove_data_sets d strict (rget (d_k2x ds) k) s ds Eg) as (ds1 & A1 & A2 & A3 & A4). cbv zeta in *.
  set (s1 := fold_left (fun s x => fst (remove_data_h s d x strict)) (rget (d_k2x ds) k) s) in *.
  rewrite A1. destruct (slot (d_keys ds1) k) as [tok|] eqn:Ek; [|exact H1].
  assert (He : s_key_data ds1 k = []).
  { destruct (s_key_data ds1 k) as [|x l] eqn:E; [reflexivity|exfalso].
    assert (Hx : In x (s_key_data ds1 k)) by (rewrite E; left; reflexivity).
    rewrite s_key_data_l in Hx. apply s_key_datal_In in Hx. destruct Hx as (it & Hs & Hk).
    destruct (A3 x it Hs) as (B1 & B2). apply B2. rewrite (D_k2x ds (H d ds Eg)), s_key_data_l. apply s_key_datal_In. exists it. tauto. }
  cbn [fst].
  match goal with |- SetsInv (set_kamm (remove_anns ?s2 ?l) _) =>
    destruct (remove_anns_frame l s2) as (F&_); apply (SetsInv_same s2); [cbn [set_kamm sets]; exact F|] end.
  apply SetsInv_set_slot; [exact H1|]. intros ds0 E0. inversion E0; subst ds0.
  apply (ds_without_key_DsInv ds1 k tok (H1 d ds1 A1) Ek He).
Qed.

Lemma dset_add_key_DsInv ds tok : DsInv ds -> DsInv (fst (dset_add_key ds tok)).
Proof.
  intros H. unfold dset_add_key. destruct (ref_key ds (ById tok)) as [k|] eqn:E; [exact H|].
  cbn [fst]. apply append_key_DsInv; [exact H|apply ref_key_none; assumption].
Qed.

Lemma store_add_key_SetsInv s dr tok : SetsInv s -> SetsInv (fst (store_add_key s dr tok)).
Proof.
  intros H. unfold store_add_key. destruct (ref_set s dr) as [h|]; [|exact H].
  destruct (get_set s h) as [d|] eqn:Hd; [|exact H].
  pose proof (dset_add_key_DsInv d tok (H h d Hd)) as Hk. destruct (dset_add_key d tok) as [d' r]. cbn [fst] in *.
  apply SetsInv_set_slot; [exact H|]. intros ds E. inversion E; subst. exact Hk.
Qed.

Definition op_ok (o : op) : Prop :=
  match o with
  | InsData b => dbuild_ok b
  | Annotate b => Forall dbuild_ok (ab_data b)
  | _ => True
  end.

Theorem step_SetsInv s o : op_ok o -> SetsInv s -> SetsInv (fst (step s o)).
Proof.
  intros Ho H. destruct o; cbn [step op_ok] in *.
  - apply (SetsInv_same s); [|exact H]. unfold add_res. destruct (id_get (ridx s) id) as [h|]; [destruct (get_res s h) as [r|]; [destruct (r_len r =? len)|]|]; reflexivity.
  - apply add_set_SetsInv. exact H.
  - pose proof (store_insert_data_SetsInv s b Ho H) as H1. destruct (store_insert_data s b) as [s' [[d x]|]]; exact H1.
  - apply annotate_SetsInv; assumption.
  - apply (SetsInv_same s); [|exact H]. unfold rm_annotation. destruct (ref_ann s r) as [h|]; [|reflexivity].
    apply remove_ann_frame.
  - unfold rm_data. destruct (to_handle (sidx s) d) as [d0|]; [|exact H]. destruct (get_set s d0) as [ds|]; [|exact H].
    destruct (to_handle (d_xidx ds) x) as [x0|]; [|exact H]. apply remove_data_h_SetsInv. exact H.
  - apply rm_key_SetsInv. exact H.
  - apply (SetsInv_same s); [|exact H]. unfold rm_resource. destruct (ref_res s r) as [h|]; [|reflexivity].
    destruct (remove_anns_frame (rget (ramm s) h) s) as (A1&_).
    set (s1 := remove_anns s (rget (ramm s) h)) in *.
    destruct (remove_anns_frame (sort_dedup (concat (nth h (trm s1) []))) s1) as (A2&_).
    set (s2 := remove_anns s1 _) in *.
    destruct (get_res _ h); cbn [fst set_ress set_ridx set_trm set_ramm sets]; congruence.
  - unfold rm_dataset. destruct (ref_set s r) as [h|]; [|exact H].
    set (users := filter _ (live_handles (anns s))).
    destruct (remove_anns_frame users s) as (A1&_). set (s1 := remove_anns s users) in *.
    destruct (remove_anns_frame (rget (samm s1) h) s1) as (A2&_). set (s2 := remove_anns s1 (rget (samm s1) h)) in *.
    set (s3 := set_samm s2 (rclear (samm s2) h)).
    set (metas := sort_dedup _).
    destruct (remove_anns_frame metas s3) as (A4&_). set (s4 := remove_anns s3 metas) in *.
    set (s5 := set_ddam _ _).
    assert (E5 : sets s5 = sets s) by (unfold s5; cbn [set_ddam set_damm set_kamm sets]; rewrite A4; unfold s3; cbn [set_samm sets]; congruence).
    destruct (get_set s5 h) as [ds|]; cbn [fst]; [|apply (SetsInv_same s); assumption].
    intros d0 ds0 Hd. unfold get_set in Hd. cbn [set_sets set_sidx sets] in Hd. rewrite E5, slot_set_slot in Hd.
    destruct ((d0 =? h) && (h <? length (sets s))); [discriminate|apply (H d0 ds0 Hd)].
  - apply store_add_key_SetsInv. exact H.
Qed.

Theorem reachable_SetsInv : forall ops, Forall op_ok ops -> SetsInv (run ops).
Proof.
  unfold run.
  assert (G : forall ops s, Forall op_ok ops -> SetsInv s -> SetsInv (fold_left (fun s o => fst (step s o)) ops s)).
  { induction ops as [|o ops IH]; intros s Hf Hs; cbn [fold_left]; [exact Hs|].
    inversion Hf; subst. apply IH; [assumption|]. apply step_SetsInv; assumption. }
  intros ops Hf. apply (G ops empty_store Hf). intros d ds Hd. unfold get_set, slot in Hd. cbn in Hd. destruct d; discriminate.
Qed.
