(* The id maps of the store are exact in every reachable store: a public id resolves to
   exactly the live item that carries it (hence ids are unique per kind, and stop resolving
   the moment the item is removed). *)
From Stam Require Import Base.Tac Base.ListAux Model.Offset Model.Store Model.StoreObs Spec.StoreSpec
     Proofs.RelMap Proofs.StoreScan Proofs.StoreInv Proofs.StoreDataDef Proofs.StoreItems Proofs.StoreRemove Proofs.StoreSets.

Definition exact {X} (idof : X -> option nat) (l : list (option X)) (m : idmap) : Prop :=
  forall tok h, id_get m tok = Some h <-> exists it, slot l h = Some it /\ idof it = Some tok.

Lemma exact_app {X} (idof : X -> option nat) l m it :
  exact idof l m -> (forall tok, idof it = Some tok -> id_get m tok = None) ->
  exact idof (l ++ [Some it]) (match idof it with Some tok => id_put m tok (length l) | None => m end).
Proof.
  unfold exact. intros E Hn tok h. destruct (idof it) as [tk|] eqn:Eid.
  - rewrite id_get_put. destruct (tok =? tk) eqn:Et.
    + assert (tok = tk) by lia. subst tok. split.
      * intros H; inversion H; subst h. exists it. rewrite slot_app_new, Nat.eqb_refl. tauto.
      * intros (it0 & Hs & Hi). rewrite slot_app_new in Hs. destruct (h =? length l) eqn:Eh; [f_equal; lia|].
        exfalso. pose proof (proj2 (E tk h) (ex_intro _ it0 (conj Hs Hi))) as Hc. rewrite (Hn tk eq_refl) in Hc. discriminate.
    + rewrite E. split; intros (it0 & Hs & Hi); exists it0.
      * rewrite slot_app_new. destruct (h =? length l) eqn:Eh; [apply slot_lt in Hs; lia|tauto].
      * rewrite slot_app_new in Hs. destruct (h =? length l) eqn:Eh; [|tauto].
        inversion Hs; subst it0. rewrite Eid in Hi. inversion Hi. lia.
  - rewrite E. split; intros (it0 & Hs & Hi); exists it0.
    + rewrite slot_app_new. destruct (h =? length l) eqn:Eh; [apply slot_lt in Hs; lia|tauto].
    + rewrite slot_app_new in Hs. destruct (h =? length l) eqn:Eh; [|tauto]. inversion Hs; subst it0. congruence.
Qed.

Lemma exact_remove {X} (idof : X -> option nat) l m h it :
  exact idof l m -> slot l h = Some it ->
  exact idof (set_slot l h None) (match idof it with Some tok => id_del m tok | None => m end).
Proof.
  unfold exact. intros E Hh tok h0. pose proof (slot_lt _ _ _ Hh) as Hlt. rewrite slot_set_slot.
  destruct (idof it) as [tk|] eqn:Eid.
  - rewrite id_get_del. destruct (tok =? tk) eqn:Et.
    + assert (tok = tk) by lia. subst tok. split; [discriminate|].
      intros (it0 & Hs & Hi). destruct ((h0 =? h) && (h <? length l)) eqn:E0; [discriminate|].
      pose proof (proj2 (E tk h0) (ex_intro _ it0 (conj Hs Hi))) as H0.
      pose proof (proj2 (E tk h) (ex_intro _ it (conj Hh Eid))) as H1. rewrite H0 in H1. inversion H1; subst h0.
      rewrite Nat.eqb_refl in E0. cbn [andb] in E0. lia.
    + rewrite E. split; intros (it0 & Hs & Hi); exists it0.
      * destruct ((h0 =? h) && (h <? length l)) eqn:E0; [|tauto].
        assert (h0 = h) by lia. subst h0. rewrite Hh in Hs. inversion Hs; subst it0. rewrite Eid in Hi. inversion Hi. lia.
      * destruct ((h0 =? h) && (h <? length l)); [discriminate Hs|tauto].
  - rewrite E. split; intros (it0 & Hs & Hi); exists it0.
    + destruct ((h0 =? h) && (h <? length l)) eqn:E0; [|tauto].
      assert (h0 = h) by lia. subst h0. rewrite Hh in Hs. inversion Hs; subst it0. congruence.
    + destruct ((h0 =? h) && (h <? length l)); [discriminate Hs|tauto].
Qed.

Lemma exact_replace {X} (idof : X -> option nat) l m h it it' :
  exact idof l m -> slot l h = Some it -> idof it' = idof it -> exact idof (set_slot l h (Some it')) m.
Proof.
  unfold exact. intros E Hh Hid tok h0. pose proof (slot_lt _ _ _ Hh) as Hlt. rewrite E, slot_set_slot.
  destruct ((h0 =? h) && (h <? length l)) eqn:E0; [|tauto].
  assert (h0 = h) by lia. subst h0. split; intros (it0 & Hs & Hi).
  - rewrite Hh in Hs. inversion Hs; subst it0. exists it'. split; [reflexivity|congruence].
  - inversion Hs; subst it0. exists it. split; [exact Hh|congruence].
Qed.

Definition rid (r : res) : option nat := Some (r_id r).
Definition did (d : dset) : option nat := Some (d_id d).

Record IdInv (s : store) : Prop := mkIds {
  Id_a : exact a_id (anns s) (aidx s);
  Id_r : exact rid (ress s) (ridx s);
  Id_s : exact did (sets s) (sidx s)
}.

Lemma IdInv_init : IdInv empty_store.
Proof.
  constructor; intros tok h; cbn [id_get anns ress sets aidx ridx sidx empty_store]; split; try discriminate;
    intros (it & Hs & _); unfold slot in Hs; destruct h; discriminate.
Qed.

(** adds *)
Lemma add_res_IdInv s id len : IdInv s -> IdInv (fst (add_res s id len)).
Proof.
  intros [A R S]. unfold add_res. destruct (id_get (ridx s) id) as [h|] eqn:E.
  - destruct (get_res s h) as [r|]; [destruct (r_len r =? len)|]; constructor; assumption.
  - cbn [fst]. constructor; cbn [set_ridx set_ress anns ress sets aidx ridx sidx]; try assumption.
    apply (exact_app rid (ress s) (ridx s) (mkres id len []) R). cbn [rid r_id]. intros tok Ht. inversion Ht; subst. exact E.
Qed.

Lemma add_set_IdInv s id : IdInv s -> IdInv (fst (add_set s id)).
Proof.
  intros [A R S]. unfold add_set. destruct (id_get (sidx s) id) as [h|] eqn:E.
  - destruct (get_set s h) as [d|]; [destruct (dset_is_empty d)|]; constructor; assumption.
  - cbn [fst]. constructor; cbn [set_sidx set_sets anns ress sets aidx ridx sidx]; try assumption.
    apply (exact_app did (sets s) (sidx s) (mkset id [] [] [] [] []) S). cbn [did d_id]. intros tok Ht. inversion Ht; subst. exact E.
Qed.

Lemma dset_insert_data_id d id key v : d_id (fst (dset_insert_data d id key v)) = d_id d.
Proof.
  unfold dset_insert_data.
  destruct (match id with Some r => ref_data d r | None => None end); [reflexivity|].
  destruct key as [kr|]; [|reflexivity]. destruct (ref_key d kr) as [k|].
  - cbn [negb]. destruct (match id with None => data_by_value d k v | Some _ => None end); reflexivity.
  - destruct kr; reflexivity.
Qed.

Lemma store_insert_data_IdInv s b : IdInv s -> IdInv (fst (store_insert_data s b)).
Proof.
  intros H. unfold store_insert_data.
  set (tok := match db_set b with ById tok => tok | ByHandle _ => DEFAULT_SET_TOKEN end).
  assert (Core : forall s1 h, IdInv s1 ->
     IdInv (fst (match get_set s1 h with
                 | None => (s1, None)
                 | Some d =>
                     match dset_insert_data d (db_id b) (db_key b) (db_val b) with
                     | (d', OOk x) => (set_sets s1 (set_slot (sets s1) h (Some d')), Some (h, x))
                     | (d', _) => (set_sets s1 (set_slot (sets s1) h (Some d')), None)
                     end
                 end))).
  { intros s1 h [A R S]. destruct (get_set s1 h) as [d|] eqn:Eg; [|constructor; assumption].
    pose proof (dset_insert_data_id d (db_id b) (db_key b) (db_val b)) as Hid.
    destruct (dset_insert_data d (db_id b) (db_key b) (db_val b)) as [d' r]. cbn [fst] in Hid.
    assert (S' : exact did (set_slot (sets s1) h (Some d')) (sidx s1))
      by (apply (exact_replace did _ _ h d d' S Eg); unfold did; rewrite Hid; reflexivity).
    destruct r; cbn [fst]; constructor; cbn [set_sets anns ress sets aidx ridx sidx]; assumption. }
  destruct (ref_set s (db_set b)) as [h|]; [apply (Core s h H)|].
  pose proof (add_set_IdInv s tok H) as H1. destruct (add_set s tok) as [s1 [h| |]]; cbn [fst] in H1; try exact H1.
  apply (Core s1 h H1).
Qed.

Lemma insert_datas_IdInv l : forall s, IdInv s -> IdInv (fst (insert_datas s l)).
Proof.
  induction l as [|b l IH]; intros s H; cbn [insert_datas]; [exact H|].
  pose proof (store_insert_data_IdInv s b H) as H1. destruct (store_insert_data s b) as [s1 [dx|]]; cbn [fst] in H1; [|exact H1].
  specialize (IH s1 H1). destruct (insert_datas s1 l) as [s2 [dxs|]]; exact IH.
Qed.

Lemma intern_sel_IdInv s r rs rg : get_res s r = Some rs -> IdInv s -> IdInv (fst (intern_sel s r rs rg)).
Proof.
  intros Hr [A R S]. unfold intern_sel. destruct (find_sel (r_sels rs) rg 0); cbn [fst]; [constructor; assumption|].
  constructor; cbn [set_ress anns ress sets aidx ridx sidx]; try assumption.
  apply (exact_replace rid _ _ r rs _ R Hr). reflexivity.
Qed.

Lemma resolve_simple_IdInv s b : IdInv s -> IdInv (fst (resolve_simple s b)).
Proof.
  intros H. destruct b as [rr o|ar [o|]|rr|dr|dr kr|dr xr|k l]; cbn [resolve_simple]; try exact H.
  - destruct (ref_res s rr) as [r|]; [|exact H]. destruct (get_res s r) as [rs|] eqn:Eg; [|exact H].
    destruct (resource_ts (r_len rs) o) as [rg|]; [|exact H].
    pose proof (intern_sel_IdInv s r rs rg Eg H) as H1. destruct (intern_sel s r rs rg); exact H1.
  - destruct (ref_ann s ar) as [a|]; [|exact H]. destruct (get_ann s a) as [an|]; [|exact H].
    destruct (ann_textsel s an) as [[[r t] prg]|]; [|exact H].
    destruct (selection_ts prg o) as [rg|]; [|exact H]. destruct (get_res s r) as [rs|] eqn:Eg; [|exact H].
    pose proof (intern_sel_IdInv s r rs rg Eg H) as H1. destruct (intern_sel s r rs rg); exact H1.
  - destruct (ref_ann s ar); exact H.
  - destruct (ref_res s rr); exact H.
  - destruct (ref_set s dr); exact H.
  - destruct (ref_set s dr) as [d|]; [|exact H]. destruct (get_set s d) as [ds|]; [|exact H]. destruct (ref_key ds kr); exact H.
  - destruct (ref_set s dr) as [d|]; [|exact H]. destruct (get_set s d) as [ds|]; [|exact H]. destruct (ref_data ds xr); exact H.
Qed.

Lemma resolve_target_IdInv s b : IdInv s -> IdInv (fst (resolve_target s b)).
Proof.
  intros H.
  assert (S2 : forall l s0, IdInv s0 -> IdInv (fst (resolve_subs s0 l))).
  { induction l as [|b0 l IH]; intros s0 H0; cbn [resolve_subs]; [exact H0|].
    pose proof (resolve_simple_IdInv s0 b0 H0) as H1. destruct (resolve_simple s0 b0) as [s1 [lf|]]; cbn [fst] in *; [|exact H1].
    specialize (IH s1 H1). destruct (resolve_subs s1 l) as [s2 [lfs|]]; exact IH. }
  destruct b; cbn [resolve_target];
    try (match goal with |- context [resolve_simple ?s0 ?b0] =>
           pose proof (resolve_simple_IdInv s0 b0 H) as H1; destruct (resolve_simple s0 b0) as [s' [lf|]]; exact H1 end).
  specialize (S2 l s H). destruct (resolve_subs s l) as [s' [lfs|]]; exact S2.
Qed.

Lemma index_ann_ids s h a :
  anns (index_ann s h a) = anns s /\ ress (index_ann s h a) = ress s /\ sets (index_ann s h a) = sets s
  /\ aidx (index_ann s h a) = aidx s /\ ridx (index_ann s h a) = ridx s /\ sidx (index_ann s h a) = sidx s.
Proof.
  unfold index_ann.
  assert (L : forall ls s5, let s6 := fold_left (index_leaf h) ls s5 in
            anns s6 = anns s5 /\ ress s6 = ress s5 /\ sets s6 = sets s5 /\ aidx s6 = aidx s5 /\ ridx s6 = ridx s5 /\ sidx s6 = sidx s5).
  { induction ls as [|lf ls IH]; intros s5; cbn [fold_left]; [repeat split|].
    destruct (IH (index_leaf h s5 lf)) as (A&B&C&D&E&F). cbv zeta in *. rewrite A, B, C, D, E, F. destruct lf; repeat split. }
  destruct (L (a_leaves a) (fold_left (fun s dx => set_ddam s (tins (ddam s) (fst dx) (snd dx) h)) (a_data a) s)) as (A&B&C&D&E&F).
  cbv zeta in *. rewrite A, B, C, D, E, F. clear. generalize (a_data a). intros l. revert s.
  induction l as [|p l IH]; intros s; cbn [fold_left]; [repeat split|].
  destruct (IH (set_ddam s (tins (ddam s) (fst p) (snd p) h))) as (A&B&C&D&E&F). rewrite A, B, C, D, E, F. repeat split.
Qed.

Lemma annotate_IdInv s b : IdInv s -> IdInv (fst (annotate s b)).
Proof.
  intros H. unfold annotate. destruct (ab_target b) as [tb|]; [|exact H].
  pose proof (resolve_target_IdInv s tb H) as H1.
  destruct (resolve_target s tb) as [s1 [[kind leaves]|]]; cbn [fst] in H1; [|exact H1].
  pose proof (insert_datas_IdInv (ab_data b) s1 H1) as H2.
  destruct (insert_datas s1 (ab_data b)) as [s2 [data|]]; cbn [fst] in H2; [|exact H2].
  destruct (match ab_id b with Some tok => id_get (aidx s2) tok | None => None end) as [h'|] eqn:Edup.
  - destruct (get_ann s2 h') as [exi|]; [|exact H2]. destruct (_ && _); exact H2.
  - cbn [fst]. destruct H2 as [A R S].
    match goal with |- IdInv (index_ann ?s4 ?h0 ?a0) => destruct (index_ann_ids s4 h0 a0) as (E1&E2&E3&E4&E5&E6) end.
    constructor; rewrite ?E1, ?E2, ?E3, ?E4, ?E5, ?E6.
    + pose proof (exact_app a_id (anns s2) (aidx s2) (mkann (ab_id b) data kind leaves) A) as X. cbn [a_id] in X.
      destruct (ab_id b) as [tok|]; cbn [set_aidx set_anns anns aidx]; apply X; intros tk Ht; [inversion Ht; subst; exact Edup|discriminate].
    + destruct (ab_id b); exact R.
    + destruct (ab_id b); exact S.
Qed.

(** removals *)
Lemma unindex_ann_ids s h a :
  anns (unindex_ann s h a) = anns s /\ aidx (unindex_ann s h a) = aidx s.
Proof.
  rewrite unindex_ann_unfold.
  destruct (ufold_data_frame h (a_data a) s) as (F0&_&_&_&_&_&_&_&_&F9&_).
  destruct (ufold_leaves_frame h (a_leaves a) (fold_left (unindex_datum h) (a_data a) s)) as (_&G1&_&_&G4&_).
  split; congruence.
Qed.

Definition AInv (s : store) : Prop := exact a_id (anns s) (aidx s).

Lemma remove_ann_AInv : forall fuel s h, AInv s -> AInv (fst (remove_ann fuel s h)).
Proof.
  induction fuel as [|fuel IH]; intros s h HA; cbn [remove_ann]; [exact HA|].
  destruct (get_ann s h) as [a0|]; [|exact HA].
  assert (F : forall L s0, AInv s0 -> AInv (fold_left (fun s c => fst (remove_ann fuel s c)) L s0)).
  { induction L as [|c L IHL]; intros s0 H0; cbn [fold_left]; [exact H0|]. apply IHL, IH, H0. }
  pose proof (F (rget (aam s) h) s HA) as H1.
  set (s1 := fold_left (fun s c => fst (remove_ann fuel s c)) (rget (aam s) h) s) in *.
  set (s2 := set_aam s1 (rclear (aam s1) h)).
  destruct (get_ann s2 h) as [a|] eqn:E2; cbn [fst]; [|exact H1].
  destruct (unindex_ann_ids s2 h a) as (U1 & U2).
  unfold AInv. pose proof (exact_remove a_id (anns s1) (aidx s1) h a H1 E2) as X.
  destruct (a_id a) as [tok|]; cbn [set_anns set_aidx anns aidx]; rewrite U1, ?U2; exact X.
Qed.

Lemma remove_anns_AInv l : forall s, AInv s -> AInv (remove_anns s l).
Proof.
  unfold remove_anns. induction l as [|c l IH]; intros s H; cbn [fold_left]; [exact H|]. apply IH, remove_ann_AInv, H.
Qed.

From Stam Require Import Proofs.StoreRemove2 Proofs.StoreRemove3.

Lemma rm_annotation_IdInv s r : IdInv s -> IdInv (fst (rm_annotation s r)).
Proof.
  intros [A R S]. unfold rm_annotation. destruct (ref_ann s r) as [h|]; [|constructor; assumption].
  destruct (remove_ann_frame (fuel_of s) s h) as (F1&F2&F3&F4). cbv zeta in *.
  constructor; [apply remove_ann_AInv; exact A|rewrite F2, F4; exact R|rewrite F1, F3; exact S].
Qed.

Lemma rm_resource_IdInv s r : IdInv s -> IdInv (fst (rm_resource s r)).
Proof.
  intros [A R S]. unfold rm_resource. destruct (ref_res s r) as [h|]; [|constructor; assumption].
  destruct (remove_anns_frame (rget (ramm s) h) s) as (A1&B1&C1&D1).
  pose proof (remove_anns_AInv (rget (ramm s) h) s A) as HA1.
  set (s1 := remove_anns s (rget (ramm s) h)) in *.
  destruct (remove_anns_frame (sort_dedup (concat (nth h (trm s1) []))) s1) as (A2&B2&C2&D2).
  pose proof (remove_anns_AInv (sort_dedup (concat (nth h (trm s1) []))) s1 HA1) as HA2.
  set (s2 := remove_anns s1 _) in *.
  set (s3 := set_trm (set_ramm s2 (rclear (ramm s2) h)) (tclear (trm s2) h)).
  assert (R3 : exact rid (ress s3) (ridx s3)) by (unfold s3; cbn [set_trm set_ramm ress ridx]; rewrite B2, B1, D2, D1; exact R).
  destruct (get_res s3 h) as [rs|] eqn:Eg; cbn [fst].
  - constructor; cbn [set_ress set_ridx anns ress sets aidx ridx sidx].
    + exact HA2.
    + apply (exact_remove rid (ress s3) (ridx s3) h rs R3 Eg).
    + unfold s3. cbn [set_trm set_ramm sets sidx]. rewrite A2, A1, C2, C1. exact S.
  - constructor; [exact HA2|exact R3|unfold s3; cbn [set_trm set_ramm sets sidx]; rewrite A2, A1, C2, C1; exact S].
Qed.

Lemma rm_dataset_IdInv s r : IdInv s -> IdInv (fst (rm_dataset s r)).
Proof.
  intros [A R S]. unfold rm_dataset. destruct (ref_set s r) as [h|]; [|constructor; assumption].
  set (users := filter _ (live_handles (anns s))).
  destruct (remove_anns_frame users s) as (A1&B1&C1&D1). pose proof (remove_anns_AInv users s A) as HA1.
  set (s1 := remove_anns s users) in *.
  destruct (remove_anns_frame (rget (samm s1) h) s1) as (A2&B2&C2&D2). pose proof (remove_anns_AInv (rget (samm s1) h) s1 HA1) as HA2.
  set (s2 := remove_anns s1 (rget (samm s1) h)) in *.
  set (s3 := set_samm s2 (rclear (samm s2) h)).
  set (metas := sort_dedup _).
  destruct (remove_anns_frame metas s3) as (A4&B4&C4&D4). pose proof (remove_anns_AInv metas s3 HA2) as HA4.
  set (s4 := remove_anns s3 metas) in *.
  set (s5 := set_ddam _ _).
  assert (E5 : sets s5 = sets s /\ sidx s5 = sidx s /\ ress s5 = ress s /\ ridx s5 = ridx s).
  { unfold s5. cbn [set_ddam set_damm set_kamm sets sidx ress ridx]. rewrite A4, B4, C4, D4. unfold s3. cbn [set_samm sets sidx ress ridx].
    repeat split; congruence. }
  destruct E5 as (E51&E52&E53&E54).
  assert (HA5 : AInv s5) by exact HA4.
  destruct (get_set s5 h) as [ds|] eqn:Eg; cbn [fst].
  - constructor; cbn [set_sets set_sidx anns ress sets aidx ridx sidx].
    + exact HA5.
    + rewrite E53, E54. exact R.
    + assert (S5 : exact did (sets s5) (sidx s5)) by (rewrite E51, E52; exact S).
      apply (exact_remove did (sets s5) (sidx s5) h ds S5 Eg).
  - constructor; [exact HA5|rewrite E53, E54; exact R|rewrite E51, E52; exact S].
Qed.

Lemma strip_step_AInv d x strict s a : AInv s -> AInv (strip_step d x strict s a).
Proof.
  intros H. unfold strip_step. destruct strict; [apply remove_ann_AInv; exact H|].
  destruct (get_ann s a) as [an|] eqn:E; [|exact H].
  assert (H' : AInv (set_anns s (set_slot (anns s) a (Some (ann_remove_data an d x))))).
  { unfold AInv. cbn [set_anns anns aidx]. apply (exact_replace a_id _ _ a an _ H E). reflexivity. }
  destruct (a_data (ann_remove_data an d x)); [destruct (a_data an)|]; try exact H'.
  apply remove_ann_AInv. exact H'.
Qed.

Lemma remove_data_h_IdInv s d x strict : IdInv s -> IdInv (fst (remove_data_h s d x strict)).
Proof.
  intros [A R S]. destruct (remove_data_h_sets s d x strict) as (Er&Es&Eri&Esets). cbv zeta in *.
  constructor.
  - (* annotations *)
    rewrite remove_data_h_unfold. cbv zeta.
    set (users := tget (ddam s) d x).
    assert (F : forall us s0, AInv s0 -> AInv (fold_left (strip_step d x strict) us s0)).
    { induction us as [|a us IH]; intros s0 H0; cbn [fold_left]; [exact H0|]. apply IH, strip_step_AInv, H0. }
    pose proof (F users s A) as H1. set (s1 := fold_left (strip_step d x strict) users s) in *.
    pose proof (remove_anns_AInv (tget (damm s1) d x) s1 H1) as H2. set (s2 := remove_anns s1 (tget (damm s1) d x)) in *.
    set (s3 := set_damm s2 (tclear2 (damm s2) d x)).
    assert (H3 : AInv s3) by exact H2.
    destruct (get_set s3 d) as [ds|]; cbn [fst]; [|exact H3]. destruct (slot (d_data ds) x) as [it|]; cbn [fst]; [|exact H3].
    match goal with |- exact a_id (anns (fold_left ?f users ?s4)) _ =>
      assert (F4 : forall us s0, anns (fold_left f us s0) = anns s0 /\ aidx (fold_left f us s0) = aidx s0);
      [induction us as [|a us IH]; intros s0; cbn [fold_left]; [split; reflexivity|];
       destruct (IH (set_ddam s0 (trem (ddam s0) d x a))) as (P&Q); rewrite P, Q; split; reflexivity|];
      destruct (F4 users s4) as (P4&Q4) end.
    unfold AInv. rewrite P4, Q4. exact H3.
  - rewrite Er, Eri. exact R.
  - rewrite Es, Esets. destruct (get_set s d) as [ds|] eqn:Eg; [|exact S].
    destruct (slot (d_data ds) x) as [it|]; [|exact S].
    apply (exact_replace did _ _ d ds _ S Eg). reflexivity.
Qed.

Lemma rm_key_IdInv s dr kr strict : IdInv s -> IdInv (fst (rm_key s dr kr strict)).
Proof.
  intros H. unfold rm_key. destruct (to_handle (sidx s) dr) as [d|]; [|exact H].
  destruct (get_set s d) as [ds|]; [|exact H]. destruct (to_handle (d_kidx ds) kr) as [k|]; [|exact H].
  assert (F : forall xs s0, IdInv s0 -> IdInv (fold_left (fun s x => fst (remove_data_h s d x strict)) xs s0)).
  { induction xs as [|x xs IH]; intros s0 H0; cbn [fold_left]; [exact H0|]. apply IH, remove_data_h_IdInv, H0. }
  pose proof (F (rget (d_k2x ds) k) s H) as H1.
  set (s1 := fold_left (fun s x => fst (remove_data_h s d x strict)) (rget (d_k2x ds) k) s) in *.
  destruct (get_set s1 d) as [ds1|] eqn:Eg1; [|exact H1]. destruct (slot (d_keys ds1) k) as [tok|]; [|exact H1].
  cbn [fst]. destruct H1 as [A R S].
  match goal with |- IdInv (set_kamm (remove_anns ?s2 ?l) _) =>
    destruct (remove_anns_frame l s2) as (F1&F2&F3&F4); pose proof (remove_anns_AInv l s2) as HA end.
  constructor; cbn [set_kamm anns ress sets aidx ridx sidx].
  - apply HA. exact A.
  - rewrite F2, F4. exact R.
  - rewrite F1, F3. cbn [set_sets sets sidx]. apply (exact_replace did _ _ d ds1 _ S Eg1). reflexivity.
Qed.

Lemma store_add_key_IdInv s dr tok : IdInv s -> IdInv (fst (store_add_key s dr tok)).
Proof.
  intros H. unfold store_add_key. destruct (ref_set s dr) as [h|]; [|exact H].
  destruct (get_set s h) as [d|] eqn:Hd; [|exact H].
  assert (Eid : d_id (fst (dset_add_key d tok)) = d_id d) by (unfold dset_add_key; destruct (ref_key d (ById tok)); reflexivity).
  destruct (dset_add_key d tok) as [d' r]. cbn [fst] in *. destruct H as [A R S].
  constructor; cbn [set_sets anns ress sets aidx ridx sidx]; [exact A|exact R|].
  apply (exact_replace did _ _ h d d' S Hd). unfold did. rewrite Eid. reflexivity.
Qed.

Theorem step_IdInv s o : IdInv s -> IdInv (fst (step s o)).
Proof.
  intros H. destruct o; cbn [step].
  - apply add_res_IdInv, H.
  - apply add_set_IdInv, H.
  - pose proof (store_insert_data_IdInv s b H) as H1. destruct (store_insert_data s b) as [s' [[d x]|]]; exact H1.
  - apply annotate_IdInv, H.
  - apply rm_annotation_IdInv, H.
  - unfold rm_data. destruct (to_handle (sidx s) d) as [d0|]; [|exact H]. destruct (get_set s d0) as [ds|]; [|exact H].
    destruct (to_handle (d_xidx ds) x) as [x0|]; [|exact H]. apply remove_data_h_IdInv, H.
  - apply rm_key_IdInv, H.
  - apply rm_resource_IdInv, H.
  - apply rm_dataset_IdInv, H.
  - apply store_add_key_IdInv, H.
Qed.

Theorem reachable_IdInv : forall ops, IdInv (run ops).
Proof.
  unfold run. assert (G : forall ops s, IdInv s -> IdInv (fold_left (fun s o => fst (step s o)) ops s)).
  { induction ops as [|o ops IH]; intros s Hs; cbn [fold_left]; [exact Hs|]. apply IH, step_IdInv, Hs. }
  intros ops. apply G, IdInv_init.
Qed.

(** * lookups by id: the id map answers exactly like a scan of the live items *)
Lemma exact_resolve {X} (idof : X -> option nat) l m tok :
  exact idof l m -> m_resolve l m tok = s_resolve l idof tok.
Proof.
  intros E. unfold m_resolve, resolve_ref.
  assert (Hs : forall h, In h (s_resolve l idof tok) <-> exists it, slot l h = Some it /\ idof it = Some tok).
  { intros h. unfold s_resolve. rewrite filter_In, in_seq. split.
    - intros [_ H]. destruct (slot l h) as [it|]; [|discriminate]. destruct (idof it) as [i|] eqn:Ei; [|discriminate].
      exists it. split; [reflexivity|]. apply Nat.eqb_eq in H. rewrite Ei, H. reflexivity.
    - intros (it & Hs & Hi). split; [split; [lia|cbn; apply (slot_lt _ _ _ Hs)]|]. rewrite Hs, Hi. apply Nat.eqb_refl. }
  assert (Hsorted : Sorted.StronglySorted lt (s_resolve l idof tok)) by (apply filter_seq_sorted).
  destruct (id_get m tok) as [h|] eqn:Eg.
  - pose proof (proj1 (E tok h) Eg) as (it & Hsl & Hi). rewrite Hsl.
    apply sorted_ext; [repeat constructor|exact Hsorted|].
    intros x. rewrite Hs. split.
    + intros [<-|[]]. exists it. tauto.
    + intros (it0 & H0 & H1). left. pose proof (proj2 (E tok x) (ex_intro _ it0 (conj H0 H1))) as Hx. congruence.
  - apply sorted_ext; [constructor|exact Hsorted|]. intros x. rewrite Hs. split; [intros []|].
    intros (it0 & H0 & H1). pose proof (proj2 (E tok x) (ex_intro _ it0 (conj H0 H1))) as Hx. congruence.
Qed.
