(* Codepoint <-> UTF-8 byte conversion is exact under any consistent index. *)
From Coq Require Import NArith.
From Stam Require Import Base.Tac Base.ListAux Model.Offset Model.Utf8.

Lemma clen_pos c : 1 <= clen c.
Proof. unfold clen. repeat match goal with |- context [if ?b then _ else _] => destruct b end; lia. Qed.

Lemma blen_app a b : blen (a ++ b) = blen a + blen b.
Proof. induction a as [|c a IH]; cbn [blen fold_right app]; [reflexivity|]. fold (blen (a ++ b)). fold (blen a). rewrite IH. lia. Qed.

Lemma blen_cons c t : blen (c :: t) = clen c + blen t.
Proof. reflexivity. Qed.

Lemma bytepos_0 t : bytepos t 0 = 0.
Proof. reflexivity. Qed.

Lemma bytepos_S c t p : bytepos (c :: t) (S p) = clen c + bytepos t p.
Proof. reflexivity. Qed.

Lemma bytepos_all t p : length t <= p -> bytepos t p = blen t.
Proof. intros H. unfold bytepos. rewrite firstn_all2 by exact H. reflexivity. Qed.

Lemma bytepos_add t : forall a k, bytepos t (a + k) = bytepos t a + bytepos (skipn a t) k.
Proof.
  induction t as [|c t IH]; intros a k.
  - unfold bytepos. rewrite skipn_nil, !firstn_nil. reflexivity.
  - destruct a; [reflexivity|]. cbn [plus skipn]. rewrite !bytepos_S, IH. lia.
Qed.

Lemma blen_skipn t a : blen (skipn a t) = blen t - bytepos t a.
Proof.
  rewrite <- (firstn_skipn a t) at 2. rewrite blen_app. unfold bytepos. lia.
Qed.

Lemma bytepos_le_blen t p : bytepos t p <= blen t.
Proof. rewrite <- (firstn_skipn p t) at 2. rewrite blen_app. unfold bytepos. lia. Qed.

Lemma bytepos_lt t : forall a b, a < b -> b <= length t -> bytepos t a < bytepos t b.
Proof.
  induction t as [|c t IH]; intros a b H1 H2; [cbn in H2; lia|].
  destruct b; [lia|]. destruct a.
  - rewrite bytepos_0, bytepos_S. pose proof (clen_pos c). lia.
  - rewrite !bytepos_S. cbn [length] in H2. specialize (IH a b). lia.
Qed.

Lemma bytepos_inj t a b : a <= length t -> b <= length t -> bytepos t a = bytepos t b -> a = b.
Proof.
  intros Ha Hb E. destruct (Nat.lt_trichotomy a b) as [H|[H|H]]; [|exact H|].
  - pose proof (bytepos_lt t a b H Hb). lia.
  - pose proof (bytepos_lt t b a H Ha). lia.
Qed.

Lemma lookup_In k m v : lookup k m = Some v -> In (k, v) m.
Proof.
  induction m as [|[k' v'] m IH]; cbn [lookup]; [discriminate|].
  destruct (k =? k') eqn:E.
  - apply Nat.eqb_eq in E. intros H; inversion H; subst. left; reflexivity.
  - intros H. right. apply IH. exact H.
Qed.

Lemma lookup_None k m : lookup k m = None -> forall v, ~ In (k, v) m.
Proof.
  induction m as [|[k' v'] m IH]; cbn [lookup]; intros H v; [intros []|].
  destruct (k =? k') eqn:E; [discriminate|]. apply Nat.eqb_neq in E.
  intros [Hin|Hin]; [inversion Hin; congruence|]. exact (IH H v Hin).
Qed.

Lemma pred_entry_In k m k' v : pred_entry k m = Some (k', v) -> In (k', v) m /\ k' < k.
Proof.
  revert k' v. induction m as [|[k1 v1] m IH]; intros k' v; cbn [pred_entry]; [discriminate|].
  destruct (pred_entry k m) as [[k2 v2]|] eqn:E.
  - destruct ((k1 <? k) && (k2 <? k1)) eqn:E1; intros H; inversion H; subst.
    + split; [left; reflexivity|lia].
    + destruct (IH _ _ eq_refl) as [H1 H2]. split; [right; exact H1|exact H2].
  - destruct (k1 <? k) eqn:E1; [|discriminate]. intros H; inversion H; subst. split; [left; reflexivity|lia].
Qed.

Lemma drop_bytes_bytepos t : forall p, p <= length t -> drop_bytes (bytepos t p) t = Some (skipn p t).
Proof.
  induction t as [|c t IH]; intros p Hp.
  - destruct p; [reflexivity|cbn in Hp; lia].
  - destruct p; [reflexivity|]. rewrite bytepos_S. cbn [drop_bytes skipn].
    pose proof (clen_pos c). destruct (clen c + bytepos t p) eqn:E; [lia|]. rewrite <- E.
    replace (clen c <=? clen c + bytepos t p) with true by lia.
    replace (clen c + bytepos t p - clen c) with (bytepos t p) by lia.
    apply IH. cbn [length] in Hp. lia.
Qed.

Lemma scan_char_spec slice : forall k bp,
  scan_char k bp slice = if k <? length slice then Some (bp + bytepos slice k) else None.
Proof.
  induction slice as [|c s IH]; intros k bp; [reflexivity|]. cbn [scan_char length].
  destruct k.
  - cbn [Nat.eqb]. rewrite bytepos_0. replace (0 <? S (length s)) with true by lia. f_equal. lia.
  - cbn [Nat.eqb]. replace (S k - 1) with k by lia. rewrite IH, bytepos_S.
    destruct (k <? length s) eqn:E.
    + replace (S k <? S (length s)) with true by lia. f_equal. lia.
    + replace (S k <? S (length s)) with false by lia. reflexivity.
Qed.

Lemma scan_byte_found slice : forall b cp bp k,
  k < length slice -> bp + bytepos slice k = b -> scan_byte b cp bp slice = Some (cp + k).
Proof.
  induction slice as [|c s IH]; intros b cp bp k Hk Hb; [cbn in Hk; lia|]. cbn [scan_byte].
  destruct k.
  - rewrite bytepos_0 in Hb. replace (bp =? b) with true by lia. f_equal. lia.
  - rewrite bytepos_S in Hb. pose proof (clen_pos c).
    replace (bp =? b) with false by lia.
    rewrite (IH b (S cp) (bp + clen c) k); [f_equal; lia| cbn [length] in Hk; lia | lia].
Qed.

Lemma scan_byte_none slice : forall b cp bp,
  (forall k, k < length slice -> bp + bytepos slice k <> b) -> scan_byte b cp bp slice = None.
Proof.
  induction slice as [|c s IH]; intros b cp bp H; [reflexivity|]. cbn [scan_byte].
  pose proof (H 0 ltac:(cbn; lia)) as H0. rewrite bytepos_0 in H0.
  replace (bp =? b) with false by lia. apply IH. intros k Hk.
  specialize (H (S k) ltac:(cbn [length]; lia)). rewrite bytepos_S in H. lia.
Qed.

(* an index is consistent with a text when every entry lies inside the text
   and records the true byte position *)
Definition Consistent (idx : index) (t : text) : Prop :=
  forall p bp, In (p, bp) idx -> p <= length t /\ bp = bytepos t p.
Definition Consistent' (b2c : index) (t : text) : Prop :=
  forall bp p, In (bp, p) b2c -> p <= length t /\ bp = bytepos t p.

Theorem utf8byte_exact idx t p : Consistent idx t -> p <= length t ->
  utf8byte idx t p = OOk (bytepos t p).
Proof.
  intros HC Hp. unfold utf8byte. destruct (lookup p idx) as [bp|] eqn:El.
  - apply lookup_In in El. destruct (HC _ _ El) as [_ ->]. reflexivity.
  - destruct (pred_entry p idx) as [[bpos bbyte]|] eqn:Ep.
    + apply pred_entry_In in Ep. destruct Ep as [Hin Hlt]. destruct (HC _ _ Hin) as [Hb ->].
      rewrite drop_bytes_bytepos by exact Hb.
      destruct (length t =? p) eqn:E.
      * apply Nat.eqb_eq in E. subst p. rewrite blen_skipn, (bytepos_all t (length t)) by lia.
        pose proof (bytepos_le_blen t bpos). f_equal. lia.
      * apply Nat.eqb_neq in E. rewrite scan_char_spec, skipn_length.
        replace (p - bpos <? length t - bpos) with true by lia.
        replace p with (bpos + (p - bpos)) at 2 by lia. rewrite bytepos_add. reflexivity.
    + destruct (length t =? p) eqn:E.
      * apply Nat.eqb_eq in E. subst p. rewrite bytepos_all by lia. reflexivity.
      * apply Nat.eqb_neq in E. rewrite scan_char_spec. replace (p <? length t) with true by lia. reflexivity.
Qed.

Theorem utf8byte_oob idx t p : Consistent idx t -> length t < p -> utf8byte idx t p = OErr.
Proof.
  intros HC Hp. unfold utf8byte. destruct (lookup p idx) as [bp|] eqn:El.
  - apply lookup_In in El. destruct (HC _ _ El) as [H _]. lia.
  - destruct (pred_entry p idx) as [[bpos bbyte]|] eqn:Ep.
    + apply pred_entry_In in Ep. destruct Ep as [Hin Hlt]. destruct (HC _ _ Hin) as [Hb ->].
      rewrite drop_bytes_bytepos by exact Hb.
      replace (length t =? p) with false by lia. rewrite scan_char_spec, skipn_length.
      replace (p - bpos <? length t - bpos) with false by lia. reflexivity.
    + replace (length t =? p) with false by lia. rewrite scan_char_spec.
      replace (p <? length t) with false by lia. reflexivity.
Qed.

Theorem charpos_exact b2c t p : Consistent' b2c t -> p <= length t ->
  utf8byte_to_charpos b2c t (bytepos t p) = OOk p.
Proof.
  intros HC Hp. unfold utf8byte_to_charpos. destruct (lookup (bytepos t p) b2c) as [cp|] eqn:El.
  - apply lookup_In in El. destruct (HC _ _ El) as [H1 H2]. f_equal. symmetry. apply (bytepos_inj t); assumption.
  - destruct (pred_entry (bytepos t p) b2c) as [[bb bc]|] eqn:Ep.
    + apply pred_entry_In in Ep. destruct Ep as [Hin Hlt]. destruct (HC _ _ Hin) as [Hb ->].
      assert (Hcp : bc < p).
      { destruct (Nat.lt_ge_cases bc p) as [H|H]; [exact H|]. exfalso.
        destruct (Nat.eq_dec p bc) as [->|Hne]; [lia|]. pose proof (bytepos_lt t p bc ltac:(lia) Hb). lia. }
      rewrite drop_bytes_bytepos by exact Hb. rewrite blen_skipn.
      pose proof (bytepos_le_blen t bc).
      destruct (bytepos t bc + (blen t - bytepos t bc) =? bytepos t p) eqn:E.
      * f_equal. apply (bytepos_inj t); [lia|exact Hp|]. rewrite (bytepos_all t (length t)) by lia. lia.
      * assert (p < length t).
        { destruct (Nat.eq_dec p (length t)) as [->|]; [|lia]. rewrite (bytepos_all t (length t)) in E by lia. lia. }
        rewrite (scan_byte_found _ _ _ _ (p - bc)).
        -- f_equal. lia.
        -- rewrite skipn_length. lia.
        -- rewrite <- bytepos_add. f_equal. lia.
    + destruct (blen t =? bytepos t p) eqn:E.
      * f_equal. apply (bytepos_inj t); [lia|exact Hp|]. rewrite (bytepos_all t (length t)) by lia. lia.
      * assert (p < length t).
        { destruct (Nat.eq_dec p (length t)) as [->|]; [|lia]. rewrite (bytepos_all t (length t)) in E by lia. lia. }
        rewrite (scan_byte_found _ _ _ _ p); [reflexivity|exact H|reflexivity].
Qed.

Theorem charpos_reject b2c t b : Consistent' b2c t ->
  (forall p, p <= length t -> bytepos t p <> b) -> utf8byte_to_charpos b2c t b = OErr.
Proof.
  intros HC Hno. unfold utf8byte_to_charpos. destruct (lookup b b2c) as [cp|] eqn:El.
  - apply lookup_In in El. destruct (HC _ _ El) as [H1 H2]. exfalso. apply (Hno cp H1). congruence.
  - destruct (pred_entry b b2c) as [[bb bc]|] eqn:Ep.
    + apply pred_entry_In in Ep. destruct Ep as [Hin Hlt]. destruct (HC _ _ Hin) as [Hb ->].
      rewrite drop_bytes_bytepos by exact Hb. rewrite blen_skipn.
      pose proof (bytepos_le_blen t bc).
      destruct (bytepos t bc + (blen t - bytepos t bc) =? b) eqn:E.
      * exfalso. apply (Hno (length t) (le_n _)). rewrite bytepos_all by lia. lia.
      * rewrite scan_byte_none; [reflexivity|]. intros k Hk. rewrite skipn_length in Hk.
        rewrite <- bytepos_add. apply Hno. lia.
    + destruct (blen t =? b) eqn:E.
      * exfalso. apply (Hno (length t) (le_n _)). rewrite bytepos_all by lia. lia.
      * rewrite scan_byte_none; [reflexivity|]. intros k Hk. cbn [plus]. apply Hno. lia.
Qed.

(* never a panic, whatever the position *)
Corollary utf8byte_no_panic idx t p : Consistent idx t -> utf8byte idx t p <> OPanic.
Proof.
  intros HC. destruct (Nat.le_gt_cases p (length t)) as [H|H].
  - rewrite utf8byte_exact by assumption. discriminate.
  - rewrite utf8byte_oob by assumption. discriminate.
Qed.

(* knob independence: any two consistent indices answer identically *)
Corollary utf8byte_index_independent idx1 idx2 t p :
  Consistent idx1 t -> Consistent idx2 t -> utf8byte idx1 t p = utf8byte idx2 t p.
Proof.
  intros H1 H2. destruct (Nat.le_gt_cases p (length t)) as [H|H].
  - rewrite !utf8byte_exact by assumption. reflexivity.
  - rewrite !utf8byte_oob by assumption. reflexivity.
Qed.

Corollary charpos_index_independent m1 m2 t b :
  Consistent' m1 t -> Consistent' m2 t ->
  utf8byte_to_charpos m1 t b = utf8byte_to_charpos m2 t b.
Proof.
  intros H1 H2.
  destruct (existsb (fun p => bytepos t p =? b) (seq 0 (S (length t)))) eqn:E.
  - apply existsb_exists in E. destruct E as (p & Hp & E). apply in_seq in Hp. apply Nat.eqb_eq in E. subst b.
    rewrite !charpos_exact by (try assumption; lia). reflexivity.
  - assert (Hno : forall p, p <= length t -> bytepos t p <> b).
    { intros p Hp Hb. assert (In p (seq 0 (S (length t)))) by (apply in_seq; lia).
      rewrite <- not_true_iff_false in E. apply E. apply existsb_exists. exists p. split; [assumption|].
      apply Nat.eqb_eq. exact Hb. }
    rewrite !charpos_reject by assumption. reflexivity.
Qed.

(** * create_milestones *)

Lemma milestones_go_consistent interval t : forall pre cp bp,
  cp = length pre -> bp = blen pre ->
  Consistent (fst (milestones_go interval cp bp t)) (pre ++ t)
  /\ Consistent' (snd (milestones_go interval cp bp t)) (pre ++ t).
Proof.
  induction t as [|c t IH]; intros pre cp bp Hcp Hbp; cbn [milestones_go].
  - split; intros ? ? [].
  - specialize (IH (pre ++ [c]) (S cp) (bp + clen c)).
    rewrite <- app_assoc in IH. cbn [app] in IH.
    destruct IH as [I1 I2].
    + rewrite app_length. cbn. lia.
    + rewrite blen_app. cbn [blen fold_right]. lia.
    + destruct (milestones_go interval (S cp) (bp + clen c) t) as [i m]. cbn [fst snd] in *.
      assert (Hhere : cp <= length (pre ++ c :: t) /\ bp = bytepos (pre ++ c :: t) cp).
      { split; [rewrite app_length; lia|]. subst. unfold bytepos.
        rewrite firstn_app, firstn_all, Nat.sub_diag. cbn [firstn]. rewrite app_nil_r. reflexivity. }
      destruct ((0 <? cp) && (cp mod interval =? 0)); cbn [fst snd]; split; try assumption.
      * intros p b [H|H]; [inversion H; subst; exact Hhere|apply I1; exact H].
      * intros b p [H|H]; [inversion H; subst; exact Hhere|apply I2; exact H].
Qed.

Theorem milestones_consistent interval t :
  Consistent (fst (milestones interval t)) t /\ Consistent' (snd (milestones interval t)) t.
Proof.
  unfold milestones. destruct (interval =? 0).
  - split; intros ? ? [].
  - apply (milestones_go_consistent interval t [] 0 0); reflexivity.
Qed.

(** * the position-index update of inserted() *)

Lemma insert_absent_In k v m k' v' :
  In (k', v') (insert_absent k v m) -> In (k', v') m \/ (k', v') = (k, v).
Proof.
  unfold insert_absent. destruct (lookup k m); [left; assumption|]. intros [H|H]; [right; congruence|left; exact H].
Qed.

Theorem insert_selection_consistent idx b2c t b e : Consistent idx t -> Consistent' b2c t ->
  b <= length t -> e <= length t ->
  exists idx' b2c', insert_selection (idx, b2c) t b e = OOk (idx', b2c')
                    /\ Consistent idx' t /\ Consistent' b2c' t.
Proof.
  intros H1 H2 Hb He. unfold insert_selection. rewrite !utf8byte_exact by assumption.
  eexists. eexists. split; [reflexivity|]. split.
  - intros p bp Hin. apply insert_absent_In in Hin. destruct Hin as [Hin|Hin]; [|inversion Hin; subst; tauto].
    apply insert_absent_In in Hin. destruct Hin as [Hin|Hin]; [apply H1; exact Hin|inversion Hin; subst; tauto].
  - intros bp p Hin. apply insert_absent_In in Hin. destruct Hin as [Hin|Hin]; [|inversion Hin; subst; tauto].
    apply insert_absent_In in Hin. destruct Hin as [Hin|Hin]; [apply H2; exact Hin|inversion Hin; subst; tauto].
Qed.

Theorem insert_selection_oob idx b2c t b e : Consistent idx t ->
  length t < b \/ length t < e -> insert_selection (idx, b2c) t b e = OErr.
Proof.
  intros H1 H. unfold insert_selection.
  destruct (Nat.le_gt_cases b (length t)) as [Hb|Hb]; destruct (Nat.le_gt_cases e (length t)) as [He|He];
    rewrite ?(utf8byte_exact idx t b), ?(utf8byte_exact idx t e), ?(utf8byte_oob idx t b), ?(utf8byte_oob idx t e)
      by assumption; try reflexivity; lia.
Qed.

(** * sub-selections *)

Lemma bytepos_sub t sb se p : sb <= se -> se <= length t -> p <= se - sb ->
  bytepos (sub t sb se) p = bytepos t (sb + p) - bytepos t sb.
Proof.
  intros H1 H2 H3. rewrite bytepos_add. unfold sub, bytepos. rewrite firstn_firstn.
  replace (Nat.min p (se - sb)) with p by lia. lia.
Qed.

Theorem sel_utf8byte_exact idx t sb se p : Consistent idx t -> sb <= se -> se <= length t ->
  sel_utf8byte idx t sb se p = if p <=? se - sb then OOk (bytepos (sub t sb se) p) else OErr.
Proof.
  intros HC H1 H2. unfold sel_utf8byte. destruct (se - sb <? p) eqn:E.
  - replace (p <=? se - sb) with false by lia. reflexivity.
  - replace (p <=? se - sb) with true by lia. rewrite utf8byte_exact by (try assumption; lia).
    rewrite bytepos_sub by lia. reflexivity.
Qed.

Lemma sub_length t sb se : sb <= se -> se <= length t -> length (sub t sb se) = se - sb.
Proof. intros. unfold sub. rewrite firstn_length, skipn_length. lia. Qed.

Lemma blen_sub t sb se : sb <= se -> se <= length t -> blen (sub t sb se) = bytepos t se - bytepos t sb.
Proof.
  intros H1 H2. rewrite <- (bytepos_all (sub t sb se) (se - sb)) by (rewrite sub_length; lia).
  rewrite bytepos_sub by lia. do 2 f_equal. lia.
Qed.

Theorem sel_charpos_exact b2c t sb se p : Consistent' b2c t -> sb <= se -> se <= length t -> p <= se - sb ->
  sel_utf8byte_to_charpos b2c t sb se (bytepos (sub t sb se) p) = OOk p.
Proof.
  intros HC H1 H2 H3. unfold sel_utf8byte_to_charpos. rewrite bytepos_sub by lia.
  assert (bytepos t sb <= bytepos t (sb + p)).
  { destruct p; [rewrite Nat.add_0_r; lia|]. pose proof (bytepos_lt t sb (sb + S p)). lia. }
  assert (bytepos t (sb + p) <= bytepos t se).
  { destruct (Nat.eq_dec (sb + p) se) as [->|]; [lia|]. pose proof (bytepos_lt t (sb + p) se). lia. }
  replace (bytepos t se - bytepos t sb <? bytepos t (sb + p) - bytepos t sb) with false by lia.
  replace (bytepos t sb + (bytepos t (sb + p) - bytepos t sb)) with (bytepos t (sb + p)) by lia.
  rewrite charpos_exact by (try assumption; lia). f_equal. lia.
Qed.

Theorem sel_charpos_reject b2c t sb se b : Consistent' b2c t -> sb <= se -> se <= length t ->
  (forall p, p <= se - sb -> bytepos (sub t sb se) p <> b) ->
  sel_utf8byte_to_charpos b2c t sb se b = OErr.
Proof.
  intros HC H1 H2 Hno. unfold sel_utf8byte_to_charpos.
  destruct (bytepos t se - bytepos t sb <? b) eqn:E; [reflexivity|].
  rewrite charpos_reject; [reflexivity|exact HC|]. intros q Hq Hb.
  assert (bytepos t sb <= bytepos t se).
  { destruct (Nat.eq_dec sb se) as [->|]; [lia|]. pose proof (bytepos_lt t sb se). lia. }
  assert (sb <= q).
  { destruct (Nat.le_gt_cases sb q) as [H'|H']; [exact H'|]. pose proof (bytepos_lt t q sb). lia. }
  assert (q <= se).
  { destruct (Nat.le_gt_cases q se) as [H'|H']; [exact H'|]. pose proof (bytepos_lt t se q). lia. }
  apply (Hno (q - sb)); [lia|]. rewrite bytepos_sub by lia. replace (sb + (q - sb)) with q by lia. lia.
Qed.

(** * the text of a range is exactly its codepoints (byte slicing = codepoint slicing) *)

Lemma take_bytes_blen s : forall rest, take_bytes (blen s) (s ++ rest) = Some s.
Proof.
  induction s as [|c s IH]; intros rest; [destruct rest; reflexivity|].
  cbn [app]. rewrite blen_cons. pose proof (clen_pos c). cbn [take_bytes].
  destruct (clen c + blen s) eqn:E; [lia|]. rewrite <- E.
  replace (clen c <=? clen c + blen s) with true by lia.
  replace (clen c + blen s - clen c) with (blen s) by lia. rewrite IH. reflexivity.
Qed.

Theorem byte_slice_sub t b e : b <= e -> e <= length t ->
  byte_slice t (bytepos t b) (bytepos t e) = Some (sub t b e).
Proof.
  intros H1 H2. unfold byte_slice. rewrite drop_bytes_bytepos by lia.
  rewrite <- blen_sub by assumption. unfold sub.
  rewrite <- (firstn_skipn (e - b) (skipn b t)) at 2. apply take_bytes_blen.
Qed.
