(* Every data reference of a live annotation names an existing data item, in every
   reachable store; with it, remove_key and the reachability theorem. *)
From Coq Require Import Sorting.Sorted.
From Stam Require Import Base.Tac Base.ListAux Model.Offset Model.Store Model.StoreObs Spec.StoreSpec
     Proofs.RelMap Proofs.StoreScan Proofs.StoreInv Proofs.StoreDataDef Proofs.StoreItems Proofs.StoreRemove Proofs.StoreRemove2 Proofs.StoreRemove3.

Lemma add_set_grow s id : sets_grow s (fst (add_set s id)).
Proof.
  unfold add_set. destruct (id_get (sidx s) id) as [h|].
  - destruct (get_set s h) as [d|]; [destruct (dset_is_empty d)|]; apply sets_grow_refl.
  - cbn [fst]. intros dx (ds & it & H1 & H2). exists ds, it. split; [|exact H2].
    unfold get_set in *. cbn [set_sidx set_sets sets]. rewrite slot_app_new.
    destruct (fst dx =? length (sets s)) eqn:E; [|exact H1].
    assert (fst dx = length (sets s)) by lia. unfold slot in H1. rewrite nth_overflow in H1 by lia. discriminate.
Qed.

(* dset_insert_data only appends *)
Lemma dset_insert_data_grow d id key v :
  let '(d', r) := dset_insert_data d id key v in
  (forall x it, slot (d_data d) x = Some it -> exists it', slot (d_data d') x = Some it')
  /\ (forall x, r = OOk x -> exists it', slot (d_data d') x = Some it').
Proof.
  unfold dset_insert_data.
  destruct (match id with Some r => ref_data d r | None => None end) as [h|] eqn:Eid.
  - split; [intros x it H; exists it; exact H|]. intros x Hx. inversion Hx; subst x.
    destruct id as [r|]; [|discriminate]. unfold ref_data, resolve_ref in Eid.
    destruct r as [tok|h0].
    + destruct (id_get (d_xidx d) tok) as [h1|]; [|discriminate]. destruct (slot (d_data d) h1) as [it|] eqn:E; [|discriminate].
      inversion Eid; subst. exists it. exact E.
    + destruct (slot (d_data d) h0) as [it|] eqn:E; [|discriminate]. inversion Eid; subst. exists it. exact E.
  - destruct key as [kr|]; [|split; [intros x it H; exists it; exact H|intros x Hx; discriminate]].
    destruct (ref_key d kr) as [k|] eqn:Ek.
    + (* existing key *)
      cbn [negb].
      destruct (match id with None => data_by_value d k v | Some _ => None end) as [h|] eqn:Ed.
      * split; [intros x it H; exists it; exact H|]. intros x Hx. inversion Hx; subst x.
        destruct id; [discriminate|]. unfold data_by_value in Ed. apply find_some in Ed. destruct Ed as [_ Ed].
        destruct (slot (d_data d) h) as [it|]; [exists it; reflexivity|discriminate].
      * cbn [d_data]. split.
        -- intros x it H. exists it. rewrite slot_app_new. destruct (x =? length (d_data d)) eqn:E; [|exact H].
           assert (x = length (d_data d)) by lia. unfold slot in H. rewrite nth_overflow in H by lia. discriminate.
        -- intros x Hx. inversion Hx; subst x. eexists. rewrite slot_app_new, Nat.eqb_refl. reflexivity.
    + destruct kr as [tok|h0]; [|split; [intros x it H; exists it; exact H|intros x Hx; discriminate]].
      cbn [negb d_data]. split.
      * intros x it H. exists it. rewrite slot_app_new. destruct (x =? length (d_data d)) eqn:E; [|exact H].
        assert (x = length (d_data d)) by lia. unfold slot in H. rewrite nth_overflow in H by lia. discriminate.
      * intros x Hx. inversion Hx; subst x. eexists. rewrite slot_app_new, Nat.eqb_refl. reflexivity.
Qed.

Lemma get_set_set_slot s h v d :
  slot (set_slot (sets s) h v) d = if (d =? h) && (h <? length (sets s)) then v else slot (sets s) d.
Proof. apply slot_set_slot. Qed.

Lemma store_insert_data_grow s b :
  let '(s', r) := store_insert_data s b in
  sets_grow s s' /\ (forall dx, r = Some dx -> data_exists s' dx).
Proof.
  unfold store_insert_data.
  set (tok := match db_set b with ById tok => tok | ByHandle _ => DEFAULT_SET_TOKEN end).
  assert (Core : forall s1 h, sets_grow s s1 ->
     let '(s', r) := match get_set s1 h with
                     | None => (s1, None)
                     | Some d =>
                         match dset_insert_data d (db_id b) (db_key b) (db_val b) with
                         | (d', OOk x) => (set_sets s1 (set_slot (sets s1) h (Some d')), Some (h, x))
                         | (d', _) => (set_sets s1 (set_slot (sets s1) h (Some d')), None)
                         end
                     end in
     sets_grow s s' /\ (forall dx, r = Some dx -> data_exists s' dx)).
  { intros s1 h G. destruct (get_set s1 h) as [d|] eqn:Eg; [|split; [exact G|intros dx H; discriminate]].
    pose proof (dset_insert_data_grow d (db_id b) (db_key b) (db_val b)) as DG.
    destruct (dset_insert_data d (db_id b) (db_key b) (db_val b)) as [d' r]. destruct DG as (DG1 & DG2).
    assert (Hlt : h < length (sets s1)).
    { unfold get_set, slot in Eg. destruct (lt_dec h (length (sets s1))); [assumption|]. rewrite nth_overflow in Eg by lia. discriminate. }
    assert (G' : sets_grow s (set_sets s1 (set_slot (sets s1) h (Some d')))).
    { intros dx Hdx. destruct (G dx Hdx) as (ds & it & H1 & H2).
      unfold data_exists, get_set. cbn [set_sets sets]. rewrite get_set_set_slot.
      destruct (fst dx =? h) eqn:E; cbn [andb].
      - assert (fst dx = h) by lia. destruct (h <? length (sets s1)) eqn:E2; [|lia].
        unfold get_set in H1, Eg. rewrite H in H1. rewrite Eg in H1. inversion H1; subst ds.
        destruct (DG1 _ _ H2) as (it' & Hit'). exists d', it'. tauto.
      - exists ds, it. tauto. }
    destruct r as [x| |]; (split; [exact G'|]); intros dx H; try discriminate.
    inversion H; subst dx. destruct (DG2 x eq_refl) as (it' & Hit').
    unfold data_exists, get_set. cbn [set_sets sets fst snd]. rewrite get_set_set_slot, Nat.eqb_refl.
    destruct (h <? length (sets s1)) eqn:E2; [|lia]. cbn [andb]. exists d', it'. tauto. }
  destruct (ref_set s (db_set b)) as [h|].
  - apply (Core s h (sets_grow_refl s)).
  - pose proof (add_set_grow s tok) as G. destruct (add_set s tok) as [s1 [h| |]]; cbn [fst] in G;
      try (split; [exact G|intros dx H; discriminate]).
    apply (Core s1 h G).
Qed.

Lemma insert_datas_grow l : forall s,
  let '(s', r) := insert_datas s l in
  sets_grow s s' /\ (forall dxs, r = Some dxs -> forall dx, In dx dxs -> data_exists s' dx).
Proof.
  induction l as [|b l IH]; intros s; cbn [insert_datas].
  - split; [apply sets_grow_refl|]. intros dxs H; inversion H; subst. intros dx [].
  - pose proof (store_insert_data_grow s b) as G1. destruct (store_insert_data s b) as [s1 [dx1|]]; destruct G1 as (G1 & E1);
      [|split; [exact G1|intros dxs H; discriminate]].
    specialize (IH s1). destruct (insert_datas s1 l) as [s2 [dxs|]]; destruct IH as (G2 & E2);
      (split; [eapply sets_grow_trans; eassumption|]); intros dxs' H; try discriminate.
    inversion H; subst dxs'. intros dx [<-|Hin].
    + apply G2. apply (E1 dx1 eq_refl).
    + apply (E2 dxs eq_refl dx Hin).
Qed.

Lemma resolve_target_sets s b : sets (fst (resolve_target s b)) = sets s.
Proof.
  assert (I : forall s r rs rg, sets (fst (intern_sel s r rs rg)) = sets s)
    by (intros; unfold intern_sel; destruct (find_sel _ _ _); reflexivity).
  assert (S1 : forall s b, sets (fst (resolve_simple s b)) = sets s).
  { clear s b. intros s b. destruct b as [rr o|ar [o|]|rr|dr|dr kr|dr xr|k l]; cbn [resolve_simple]; try reflexivity.
    - destruct (ref_res s rr) as [r|]; [|reflexivity]. destruct (get_res s r) as [rs|]; [|reflexivity].
      destruct (resource_ts (r_len rs) o) as [rg|]; [|reflexivity].
      specialize (I s r rs rg). destruct (intern_sel s r rs rg); exact I.
    - destruct (ref_ann s ar) as [a|]; [|reflexivity]. destruct (get_ann s a) as [an|]; [|reflexivity].
      destruct (ann_textsel s an) as [[[r t] prg]|]; [|reflexivity].
      destruct (selection_ts prg o) as [rg|]; [|reflexivity]. destruct (get_res s r) as [rs|]; [|reflexivity].
      specialize (I s r rs rg). destruct (intern_sel s r rs rg); exact I.
    - destruct (ref_ann s ar); reflexivity.
    - destruct (ref_res s rr); reflexivity.
    - destruct (ref_set s dr); reflexivity.
    - destruct (ref_set s dr) as [d|]; [|reflexivity]. destruct (get_set s d) as [ds|]; [|reflexivity]. destruct (ref_key ds kr); reflexivity.
    - destruct (ref_set s dr) as [d|]; [|reflexivity]. destruct (get_set s d) as [ds|]; [|reflexivity]. destruct (ref_data ds xr); reflexivity. }
  assert (S2 : forall l s, sets (fst (resolve_subs s l)) = sets s).
  { induction l as [|b0 l IH]; intros s0; cbn [resolve_subs]; [reflexivity|].
    specialize (S1 s0 b0). destruct (resolve_simple s0 b0) as [s1 [lf|]]; cbn [fst] in *; [|exact S1].
    specialize (IH s1). destruct (resolve_subs s1 l) as [s2 [lfs|]]; cbn [fst] in *; congruence. }
  destruct b; cbn [resolve_target];
    try (match goal with |- context [resolve_simple ?s0 ?b0] =>
           specialize (S1 s0 b0); destruct (resolve_simple s0 b0) as [s' [lf|]]; exact S1 end).
  specialize (S2 l s). destruct (resolve_subs s l) as [s' [lfs|]]; exact S2.
Qed.

Lemma annotate_data_ok s b : data_ok s -> data_ok (fst (annotate s b)).
Proof.
  intros Hok. unfold annotate.
  destruct (ab_target b) as [tb|]; [|exact Hok].
  pose proof (resolve_target_core s tb) as C1. pose proof (resolve_target_sets s tb) as T1.
  destruct (resolve_target s tb) as [s1 [[kind leaves]|]]; cbn [fst] in C1, T1.
  2:{ apply (data_ok_grow s); [apply C1|apply sets_grow_same; exact T1|exact Hok]. }
  assert (Hok1 : data_ok s1) by (apply (data_ok_grow s); [apply C1|apply sets_grow_same; exact T1|exact Hok]).
  pose proof (insert_datas_core (ab_data b) s1) as C2. pose proof (insert_datas_grow (ab_data b) s1) as G2.
  destruct (insert_datas s1 (ab_data b)) as [s2 [data|]]; cbn [fst] in C2; destruct G2 as (G2 & E2).
  2:{ apply (data_ok_grow s1); [apply C2|exact G2|exact Hok1]. }
  assert (Hok2 : data_ok s2) by (apply (data_ok_grow s1); [apply C2|exact G2|exact Hok1]).
  destruct (match ab_id b with Some tok => id_get (aidx s2) tok | None => None end) as [h'|].
  - destruct (get_ann s2 h') as [exi|]; [|exact Hok2]. destruct (_ && _); exact Hok2.
  - cbn [fst]. intros x a Ha dx Hdx.
    assert (Hanns : forall s4 h0 a0, anns (index_ann s4 h0 a0) = anns s4).
    { intros s4 h0 a0. rewrite index_ann_unfold, fold_leaves_anns.
      destruct (fold_data_frame h0 (a_data a0) s4) as (F0 & _). exact F0. }
    assert (Hsets : forall s4 h0 a0, sets (index_ann s4 h0 a0) = sets s4).
    { intros s4 h0 a0. rewrite index_ann_unfold.
      assert (L : forall ls s5, sets (fold_left (index_leaf h0) ls s5) = sets s5).
      { induction ls as [|lf ls IH]; intros s5; cbn [fold_left]; [reflexivity|]. rewrite IH. destruct lf; reflexivity. }
      rewrite L. generalize (a_data a0). intros l. revert s4. induction l as [|p l IH]; intros s4; cbn [fold_left]; [reflexivity|].
      rewrite IH. reflexivity. }
    unfold data_exists, get_set. rewrite Hsets.
    assert (E : forall s3, sets (match ab_id b with Some tok => set_aidx s3 (id_put (aidx s3) tok (length (anns s2))) | None => s3 end) = sets s3)
      by (intros s3; destruct (ab_id b); reflexivity).
    rewrite E. cbn [set_anns sets].
    unfold get_ann in Ha. rewrite Hanns in Ha.
    assert (E' : forall s3, anns (match ab_id b with Some tok => set_aidx s3 (id_put (aidx s3) tok (length (anns s2))) | None => s3 end) = anns s3)
      by (intros s3; destruct (ab_id b); reflexivity).
    rewrite E' in Ha. cbn [set_anns anns] in Ha. rewrite slot_app_new in Ha.
    destruct (x =? length (anns s2)) eqn:Ex.
    + inversion Ha; subst a. cbn [a_data] in Hdx. apply (E2 data eq_refl dx Hdx).
    + apply (Hok2 x a Ha dx Hdx).
Qed.

(** * remove_data / remove_key on requests, and every reachable store *)
Definition Good (s : store) : Prop := Inv s /\ wf_targets s /\ data_ok s /\ ann_refs_ok s /\ item_refs_ok s.

Lemma pre_from_ok s d x : Inv s -> data_ok s ->
  (exists ds it, get_set s d = Some ds /\ slot (d_data ds) x = Some it) \/ tget (ddam s) d x = [].
Proof.
  intros HI Hok. destruct (get_set s d) as [ds|] eqn:Eg.
  - destruct (slot (d_data ds) x) as [it|] eqn:Es; [left; exists ds, it; tauto|right].
    rewrite (I_ddam noex s HI d x eq_refl). unfold s_data_anns. rewrite scan_scanl.
    destruct (scanl (anns s) (uses_data d x)) as [|y l] eqn:E; [reflexivity|exfalso].
    assert (Hy : In y (scanl (anns s) (uses_data d x))) by (rewrite E; left; reflexivity).
    apply scanl_In in Hy. destruct Hy as (a & Ha & HP). unfold uses_data in HP. apply existsb_exists in HP.
    destruct HP as (dx & Hdx & Hq). destruct (Hok y a Ha dx Hdx) as (ds0 & it0 & G1 & G2).
    assert (fst dx = d) by lia. assert (snd dx = x) by lia. subst. rewrite Eg in G1. inversion G1; subst. congruence.
  - right. rewrite (I_ddam noex s HI d x eq_refl). unfold s_data_anns. rewrite scan_scanl.
    destruct (scanl (anns s) (uses_data d x)) as [|y l] eqn:E; [reflexivity|exfalso].
    assert (Hy : In y (scanl (anns s) (uses_data d x))) by (rewrite E; left; reflexivity).
    apply scanl_In in Hy. destruct Hy as (a & Ha & HP). unfold uses_data in HP. apply existsb_exists in HP.
    destruct HP as (dx & Hdx & Hq). destruct (Hok y a Ha dx Hdx) as (ds0 & it0 & G1 & G2).
    assert (fst dx = d) by lia. subst. congruence.
Qed.

Lemma remove_data_h_Good s d x strict : Good s -> Good (fst (remove_data_h s d x strict)).
Proof.
  intros (HI & Hwf & Hok & Hrf & Hit).
  destruct (remove_data_h_Inv s d x strict HI Hwf (pre_from_ok s d x HI Hok)) as (A & B & _ & _ & C & D & E & _).
  split; [exact A|split; [exact B|split; [exact (C Hok)|split; [exact (D Hrf)|exact (E Hit)]]]].
Qed.

Theorem rm_data_Good s dr xr strict : Good s -> Good (fst (rm_data s dr xr strict)).
Proof.
  intros G. unfold rm_data. destruct (to_handle (sidx s) dr) as [d|]; [|exact G].
  destruct (get_set s d) as [ds|]; [|exact G]. destruct (to_handle (d_xidx ds) xr) as [x|]; [|exact G].
  apply remove_data_h_Good. exact G.
Qed.

Lemma fold_remove_data_Good d strict : forall xs s, Good s ->
  Good (fold_left (fun s x => fst (remove_data_h s d x strict)) xs s).
Proof.
  induction xs as [|x xs IH]; intros s G; cbn [fold_left]; [exact G|].
  apply IH. apply remove_data_h_Good. exact G.
Qed.

Theorem rm_key_Good s dr kr strict : Good s -> Good (fst (rm_key s dr kr strict)).
Proof.
  intros G. unfold rm_key. destruct (to_handle (sidx s) dr) as [d|]; [|exact G].
  destruct (get_set s d) as [ds|]; [|exact G]. destruct (to_handle (d_kidx ds) kr) as [k|]; [|exact G].
  pose proof (fold_remove_data_Good d strict (rget (d_k2x ds) k) s G) as G1.
  set (s1 := fold_left (fun s x => fst (remove_data_h s d x strict)) (rget (d_k2x ds) k) s) in *.
  destruct (get_set s1 d) as [ds1|] eqn:Eg1; [|exact G1].
  destruct (slot (d_keys ds1) k) as [tok|]; [|exact G1].
  set (ds' := mkset (d_id ds1) (set_slot (d_keys ds1) k None) (d_data ds1) (id_del (d_kidx ds1) tok) (d_xidx ds1) (rclear (d_k2x ds1) k)).
  set (s2 := set_sets s1 (set_slot (sets s1) d (Some ds'))).
  destruct G1 as (HI1 & Hwf1 & Hok1 & Hrf1 & Hit1).
  assert (HI2 : Inv s2) by (apply (Inv_same_core noex s1); [repeat split|exact HI1]).
  assert (Hwf2 : wf_targets s2) by (apply (wf_frame s1); [reflexivity|exact Hwf1]).
  assert (Hok2 : data_ok s2).
  { intros y a Ha dx Hdx. destruct (Hok1 y a Ha dx Hdx) as (ds0 & it0 & G1 & G2).
    unfold data_exists, get_set, s2. cbn [set_sets sets]. rewrite slot_set_slot.
    destruct (fst dx =? d) eqn:E; cbn [andb]; [|exists ds0, it0; tauto].
    assert (fst dx = d) by lia. rewrite H in G1. rewrite Eg1 in G1. inversion G1; subst ds0.
    rewrite H. destruct (d <? length (sets s1)) eqn:E2.
    - exists ds', it0. split; [reflexivity|exact G2].
    - exists ds1, it0. split; [exact Eg1|exact G2]. }
  destruct (remove_anns_Post noex (tget (kamm s2) d k) s2 HI2 Hwf2) as (P3 & D3).
  set (s3 := remove_anns s2 (tget (kamm s2) d k)) in *. cbn [fst].
  assert (Rk : scan s3 (has_leaf (on_key d k)) = []).
  { apply (kill_row noex 0 s2 s3 _ (tget (kamm s2) d k) P3); [|exact D3].
    intros y a Ha HP. rewrite (I_kamm noex s2 HI2). apply scan_member. exists a. tauto. }
  split; [|split; [|split; [|split]]]; [| | |apply (ann_refs_frame s3); [reflexivity|apply (P_closed _ _ _ _ P3); apply (ann_refs_frame s1); [reflexivity|exact Hrf1]]|].
  4:{ (* no survivor names key (d, k); the other keys and all data are untouched by the last steps *)
    intros y a Hy lf Hlf. assert (Hy3 : get_ann s3 y = Some a) by exact Hy.
    assert (Hy1 : get_ann s1 y = Some a) by (apply (P_sub _ _ _ _ P3 y a Hy3)).
    pose proof (Hit1 y a Hy1 lf Hlf) as H0.
    assert (Hnot : on_key d k lf = true -> False).
    { intros Hon. assert (Hin : In y (scan s3 (has_leaf (on_key d k)))).
      { apply scan_member. exists a. split; [exact Hy3|]. unfold has_leaf. apply existsb_exists. exists lf. tauto. }
      rewrite Rk in Hin. destruct Hin. }
    destruct (P_frame _ _ _ _ P3) as (Fs & Fr & _).
    assert (Hgs : forall d0, get_set (set_kamm s3 (tclear2 (kamm s3) d k)) d0 = get_set s2 d0)
      by (intros d0; unfold get_set; cbn [set_kamm sets]; rewrite Fs; reflexivity).
    assert (Hgs2 : forall d0, get_set s2 d0 = if (d0 =? d) && (d <? length (sets s1)) then Some ds' else get_set s1 d0)
      by (intros d0; unfold get_set, s2; cbn [set_sets sets]; apply slot_set_slot).
    assert (Hgr : forall r0, get_res (set_kamm s3 (tclear2 (kamm s3) d k)) r0 = get_res s1 r0)
      by (intros r0; unfold get_res; cbn [set_kamm ress]; rewrite Fr; reflexivity).
    destruct lf; cbn [item_ref_ok] in *; rewrite ?Hgr; try exact H0.
    + rewrite Hgs, Hgs2. destruct ((d0 =? d) && (d <? length (sets s1))); [discriminate|exact H0].
    + destruct H0 as (ds0 & G1 & G2). rewrite Hgs, Hgs2. destruct ((d0 =? d) && (d <? length (sets s1))) eqn:E.
      * assert (d0 = d) by lia. subst d0. rewrite Eg1 in G1. inversion G1; subst ds0. exists ds'. split; [reflexivity|].
        unfold ds'. cbn [d_keys]. rewrite slot_set_slot. destruct (k0 =? k) eqn:Ek; cbn [andb]; [|exact G2].
        exfalso. apply Hnot. cbn [on_key]. rewrite Nat.eqb_refl, Ek. reflexivity.
      * exists ds0. tauto.
    + destruct H0 as (ds0 & G1 & G2). rewrite Hgs, Hgs2. destruct ((d0 =? d) && (d <? length (sets s1))) eqn:E.
      * assert (d0 = d) by lia. subst d0. rewrite Eg1 in G1. inversion G1; subst ds0. exists ds'. split; [reflexivity|exact G2].
      * exists ds0. tauto. }
  - destruct (P_inv _ _ _ _ P3) as [H1 H2 H3 H4 H5 H6 H7].
    constructor; intros; cbn [set_kamm trm aam ramm samm kamm damm ddam];
      unfold s_ts_anns, s_ann_anns, s_res_meta, s_set_meta, s_key_meta, s_data_meta, s_data_anns in *;
      try first [apply H1|apply H2|apply H3|apply H4|apply H6|apply H7; assumption].
    rewrite tget_tclear2. destruct ((d0 =? d) && (k0 =? k)) eqn:E; [|apply H5].
    assert (d0 = d) by lia. assert (k0 = k) by lia. subst. symmetry. apply Rk.
  - apply (wf_frame s3); [reflexivity|exact (P_wf _ _ _ _ P3)].
  - apply (data_ok_frame s3); [reflexivity|reflexivity|]. apply (Post_data_ok _ _ _ _ P3 Hok2).
Qed.

Lemma ref_ann_live s r a : ref_ann s r = Some a -> get_ann s a <> None.
Proof.
  unfold ref_ann, resolve_ref, get_ann. destruct r as [tok|h].
  - destruct (id_get (aidx s) tok) as [h|]; [|discriminate]. destruct (slot (anns s) h) eqn:E; [|discriminate].
    intros H; inversion H; subst. congruence.
  - destruct (slot (anns s) h) eqn:E; [|discriminate]. intros H; inversion H; subst. congruence.
Qed.

Definition leaf_ref_live (s : store) (lf : leaf) : Prop :=
  match lf with LAnn t | LAnnText t _ _ _ => get_ann s t <> None | _ => True end.

Lemma resolve_simple_reflive s b s' lf : resolve_simple s b = (s', Some lf) -> leaf_ref_live s lf.
Proof.
  destruct b as [rr o|ar [o|]|rr|dr|dr kr|dr xr|k l]; cbn [resolve_simple].
  - destruct (ref_res s rr) as [r|]; [|discriminate]. destruct (get_res s r) as [rs|]; [|discriminate].
    destruct (resource_ts (r_len rs) o) as [rg|]; [|discriminate]. destruct (intern_sel s r rs rg).
    intros H; inversion H; subst. exact I.
  - destruct (ref_ann s ar) as [a|] eqn:Ea; [|discriminate].
    destruct (get_ann s a) as [an|] eqn:Ega; [|discriminate].
    destruct (ann_textsel s an) as [[[r t] prg]|];
      [|intros H; inversion H; subst; cbn [leaf_ref_live]; rewrite Ega; discriminate].
    destruct (selection_ts prg o) as [rg|]; [|discriminate].
    destruct (get_res s r) as [rs|]; [|discriminate]. destruct (intern_sel s r rs rg).
    intros H; inversion H; subst. cbn [leaf_ref_live]. rewrite Ega. discriminate.
  - destruct (ref_ann s ar) as [a|] eqn:Ea; [|discriminate]. pose proof (ref_ann_live s ar a Ea) as Hl.
    intros H; inversion H; subst. exact Hl.
  - destruct (ref_res s rr); [|discriminate]. intros H; inversion H; subst. exact I.
  - destruct (ref_set s dr); [|discriminate]. intros H; inversion H; subst. exact I.
  - destruct (ref_set s dr) as [d|]; [|discriminate]. destruct (get_set s d) as [ds|]; [|discriminate].
    destruct (ref_key ds kr); [|discriminate]. intros H; inversion H; subst. exact I.
  - destruct (ref_set s dr) as [d|]; [|discriminate]. destruct (get_set s d) as [ds|]; [|discriminate].
    destruct (ref_data ds xr); [|discriminate]. intros H; inversion H; subst. exact I.
  - discriminate.
Qed.

Lemma leaf_ref_live_anns s s' lf : anns s' = anns s -> leaf_ref_live s lf -> leaf_ref_live s' lf.
Proof. intros E H. destruct lf; cbn [leaf_ref_live] in *; unfold get_ann in *; rewrite ?E; exact H. Qed.

Lemma resolve_subs_reflive l : forall s s' lfs, resolve_subs s l = (s', Some lfs) -> Forall (leaf_ref_live s) lfs.
Proof.
  induction l as [|b l IH]; intros s s' lfs; cbn [resolve_subs].
  - intros H; inversion H; subst. constructor.
  - destruct (resolve_simple s b) as [s1 [lf|]] eqn:E1; [|discriminate].
    pose proof (resolve_simple_core s b) as C. rewrite E1 in C. cbn [fst] in C. destruct C as (Ca & _).
    destruct (resolve_subs s1 l) as [s2 [lfs'|]] eqn:E2; [|discriminate].
    intros H; inversion H; subst. constructor.
    + apply (resolve_simple_reflive s b s1 lf E1).
    + eapply Forall_impl; [|eapply IH; exact E2]. intros lf0 H0. apply (leaf_ref_live_anns s1 s lf0); [symmetry; exact Ca|exact H0].
Qed.

Lemma annotate_refs s b : ann_refs_ok s -> ann_refs_ok (fst (annotate s b)).
Proof.
  intros Hr. unfold annotate.
  destruct (ab_target b) as [tb|]; [|exact Hr].
  pose proof (resolve_target_core s tb) as C1.
  destruct (resolve_target s tb) as [s1 [[kind leaves]|]] eqn:Et; cbn [fst] in C1;
    [|apply (ann_refs_frame s); [apply C1|exact Hr]].
  pose proof (insert_datas_core (ab_data b) s1) as C2.
  destruct (insert_datas s1 (ab_data b)) as [s2 [data|]]; cbn [fst] in C2;
    pose proof (same_core_trans _ _ _ C1 C2) as C3; [|apply (ann_refs_frame s); [apply C3|exact Hr]].
  assert (Hr2 : ann_refs_ok s2) by (apply (ann_refs_frame s); [apply C3|exact Hr]).
  assert (Hlv : Forall (leaf_ref_live s) leaves).
  { unfold resolve_target in Et. destruct tb;
      try (match type of Et with context [resolve_simple ?s0 ?b0] =>
             destruct (resolve_simple s0 b0) as [s' [lf|]] eqn:E; inversion Et; subst;
             constructor; [apply (resolve_simple_reflive _ _ _ _ E)|constructor] end).
    destruct (resolve_subs s l) as [s' [lfs|]] eqn:E; inversion Et; subst.
    apply (resolve_subs_reflive _ _ _ _ E). }
  destruct (match ab_id b with Some tok => id_get (aidx s2) tok | None => None end) as [h'|].
  - destruct (get_ann s2 h') as [exi|]; [|exact Hr2]. destruct (_ && _); exact Hr2.
  - cbn [fst].
    assert (Hanns : forall s4 h0 a0, anns (index_ann s4 h0 a0) = anns s4).
    { intros s4 h0 a0. rewrite index_ann_unfold, fold_leaves_anns.
      destruct (fold_data_frame h0 (a_data a0) s4) as (F0 & _). exact F0. }
    assert (E' : forall s3, anns (match ab_id b with Some tok => set_aidx s3 (id_put (aidx s3) tok (length (anns s2))) | None => s3 end) = anns s3)
      by (intros s3; destruct (ab_id b); reflexivity).
    assert (Hget : forall y, get_ann (index_ann (match ab_id b with
                                        | Some tok => set_aidx (set_anns s2 (anns s2 ++ [Some (mkann (ab_id b) data kind leaves)])) (id_put (aidx (set_anns s2 (anns s2 ++ [Some (mkann (ab_id b) data kind leaves)]))) tok (length (anns s2)))
                                        | None => set_anns s2 (anns s2 ++ [Some (mkann (ab_id b) data kind leaves)])
                                        end) (length (anns s2)) (mkann (ab_id b) data kind leaves)) y
                 = if y =? length (anns s2) then Some (mkann (ab_id b) data kind leaves) else get_ann s2 y).
    { intros y. unfold get_ann. rewrite Hanns, E'. cbn [set_anns anns]. apply slot_app_new. }
    intros y a Hy lf Hlf. rewrite Hget in Hy.
    assert (Hlive : forall t, get_ann s2 t <> None ->
              get_ann (index_ann (match ab_id b with
                                        | Some tok => set_aidx (set_anns s2 (anns s2 ++ [Some (mkann (ab_id b) data kind leaves)])) (id_put (aidx (set_anns s2 (anns s2 ++ [Some (mkann (ab_id b) data kind leaves)]))) tok (length (anns s2)))
                                        | None => set_anns s2 (anns s2 ++ [Some (mkann (ab_id b) data kind leaves)])
                                        end) (length (anns s2)) (mkann (ab_id b) data kind leaves)) t <> None).
    { intros t Ht. rewrite Hget. destruct (t =? length (anns s2)); [discriminate|exact Ht]. }
    destruct (y =? length (anns s2)) eqn:Ey.
    + inversion Hy; subst a. cbn [a_leaves] in Hlf. rewrite Forall_forall in Hlv. specialize (Hlv lf Hlf).
      destruct C3 as (Ca & _).
      destruct lf; try exact I; apply Hlive; cbn [leaf_ref_live] in Hlv; unfold get_ann in *; rewrite Ca; exact Hlv.
    + pose proof (Hr2 y a Hy lf Hlf) as H0. destruct lf; try exact I; apply Hlive; exact H0.
Qed.

Lemma annotate_item_refs s b : item_refs_ok s -> item_refs_ok (fst (annotate s b)).
Proof.
  intros Hr. unfold annotate.
  destruct (ab_target b) as [tb|]; [|exact Hr].
  pose proof (resolve_target_core s tb) as C1. pose proof (resolve_target_items s tb) as I1.
  destruct (resolve_target s tb) as [s1 [[kind leaves]|]] eqn:Et; cbn [fst] in C1; destruct I1 as (G1 & L1);
    [|apply (item_refs_grow s); [apply C1|exact G1|exact Hr]].
  pose proof (insert_datas_core (ab_data b) s1) as C2. pose proof (insert_datas_items (ab_data b) s1) as G2.
  destruct (insert_datas s1 (ab_data b)) as [s2 [data|]]; cbn [fst] in C2, G2;
    pose proof (same_core_trans _ _ _ C1 C2) as C3; pose proof (items_grow_trans _ _ _ G1 G2) as G3;
    [|apply (item_refs_grow s); [apply C3|exact G3|exact Hr]].
  assert (Hr2 : item_refs_ok s2) by (apply (item_refs_grow s); [apply C3|exact G3|exact Hr]).
  destruct (match ab_id b with Some tok => id_get (aidx s2) tok | None => None end) as [h'|].
  - destruct (get_ann s2 h') as [exi|]; [|exact Hr2]. destruct (_ && _); exact Hr2.
  - cbn [fst].
    assert (Hanns : forall s4 h0 a0, anns (index_ann s4 h0 a0) = anns s4).
    { intros s4 h0 a0. rewrite index_ann_unfold, fold_leaves_anns.
      destruct (fold_data_frame h0 (a_data a0) s4) as (F0 & _). exact F0. }
    assert (Hitems : forall s4 h0 a0, sets (index_ann s4 h0 a0) = sets s4 /\ ress (index_ann s4 h0 a0) = ress s4).
    { intros s4 h0 a0. rewrite index_ann_unfold.
      assert (L : forall ls s5, sets (fold_left (index_leaf h0) ls s5) = sets s5 /\ ress (fold_left (index_leaf h0) ls s5) = ress s5).
      { induction ls as [|lf ls IH]; intros s5; cbn [fold_left]; [split; reflexivity|].
        destruct (IH (index_leaf h0 s5 lf)) as (A & B). rewrite A, B. destruct lf; split; reflexivity. }
      destruct (L (a_leaves a0) (fold_left (index_datum h0) (a_data a0) s4)) as (A & B). rewrite A, B. clear A B.
      generalize (a_data a0). intros l. revert s4. induction l as [|p l IH]; intros s4; cbn [fold_left]; [split; reflexivity|].
      destruct (IH (index_datum h0 s4 p)) as (A1 & B1). rewrite A1, B1. split; reflexivity. }
    intros y a Hy lf Hlf.
    match type of Hy with get_ann (index_ann ?s4 ?h0 ?a0) y = Some a =>
      destruct (Hitems s4 h0 a0) as (Es & Er);
      assert (Es4 : sets s4 = sets s2) by (destruct (ab_id b); reflexivity);
      assert (Er4 : ress s4 = ress s2) by (destruct (ab_id b); reflexivity);
      assert (Ea4 : anns s4 = anns s2 ++ [Some a0]) by (destruct (ab_id b); reflexivity);
      unfold get_ann in Hy; rewrite Hanns, Ea4, slot_app_new in Hy;
      assert (Hok : item_ref_ok s2 lf -> item_ref_ok (index_ann s4 h0 a0) lf)
        by (intros H0; destruct lf; cbn [item_ref_ok] in *; unfold get_res, get_set in *; rewrite ?Es, ?Er, ?Es4, ?Er4; exact H0)
    end.
    apply Hok. destruct (y =? length (anns s2)) eqn:Ey.
    + inversion Hy; subst a. cbn [a_leaves] in Hlf.
      apply (item_ref_ok_grow s1 s2 lf G2). apply (L1 kind leaves eq_refl lf Hlf).
    + apply (Hr2 y a Hy lf Hlf).
Qed.

(** * declaring a key *)
Lemma store_add_key_core s dr tok : same_core s (fst (store_add_key s dr tok)).
Proof.
  unfold store_add_key. destruct (ref_set s dr) as [h|]; [|apply same_core_refl].
  destruct (get_set s h) as [d|]; [|apply same_core_refl]. destruct (dset_add_key d tok) as [d' r]. core.
Qed.

Lemma dset_add_key_shape d tok :
  d_data (fst (dset_add_key d tok)) = d_data d /\ exists ks, d_keys (fst (dset_add_key d tok)) = d_keys d ++ ks.
Proof.
  unfold dset_add_key. destruct (ref_key d (ById tok)); cbn [fst d_data d_keys]; split; try reflexivity;
    [exists []; rewrite app_nil_r; reflexivity|eexists; reflexivity].
Qed.

Lemma store_add_key_grow s dr tok : sets_grow s (fst (store_add_key s dr tok)).
Proof.
  unfold store_add_key. destruct (ref_set s dr) as [h|]; [|apply sets_grow_refl].
  destruct (get_set s h) as [d|] eqn:Hd; [|apply sets_grow_refl].
  destruct (dset_add_key_shape d tok) as (Ed & _). destruct (dset_add_key d tok) as [d' r]. cbn [fst] in *.
  intros dx (ds & it & H1 & H2). unfold data_exists, get_set in *. cbn [set_sets sets]. rewrite slot_set_slot.
  destruct ((fst dx =? h) && (h <? length (sets s))) eqn:E.
  - apply andb_prop in E. destruct E as [E _]. apply Nat.eqb_eq in E. rewrite E in H1. rewrite Hd in H1. inversion H1; subst ds.
    exists d', it. split; [reflexivity|]. rewrite Ed. exact H2.
  - exists ds, it. tauto.
Qed.

Lemma store_add_key_items s dr tok : items_grow s (fst (store_add_key s dr tok)).
Proof.
  unfold store_add_key. destruct (ref_set s dr) as [h|]; [|apply items_grow_refl].
  destruct (get_set s h) as [d|] eqn:Hd; [|apply items_grow_refl].
  destruct (dset_add_key_shape d tok) as (Ed & ks & Ek). destruct (dset_add_key d tok) as [d' r]. cbn [fst] in *.
  split.
  - intros r0 rs H. exists rs. split; [exact H|lia].
  - intros d0 ds H. unfold get_set in *. cbn [set_sets sets]. rewrite slot_set_slot.
    destruct ((d0 =? h) && (h <? length (sets s))) eqn:E.
    + apply andb_prop in E. destruct E as [E _]. apply Nat.eqb_eq in E. subst d0. rewrite Hd in H. inversion H; subst ds.
      exists d'. split; [reflexivity|]. split; [|rewrite Ed; tauto].
      intros k Hk. rewrite Ek. destruct (slot (d_keys d) k) as [v|] eqn:S; [|congruence].
      unfold slot in *. rewrite app_nth1; [rewrite S; discriminate|].
      destruct (Nat.lt_ge_cases k (length (d_keys d))) as [L|L]; [exact L|]. rewrite nth_overflow in S by exact L. discriminate.
    + exists ds. split; [exact H|split; tauto].
Qed.

(** * every step keeps the store good *)
Theorem step_Good s o : Good s -> Good (fst (step s o)).
Proof.
  intros (HI & Hwf & Hok & Hrf & Hit). destruct o; cbn [step].
  - pose proof (add_res_core s id len) as C.
    split; [exact (Inv_same_core _ _ _ C HI)|]. split; [apply (wf_frame s); [apply C|exact Hwf]|].
    split; [|split; [apply (ann_refs_frame s); [apply C|exact Hrf]|apply (item_refs_grow s); [apply C|apply add_res_grow|exact Hit]]].
    apply (data_ok_grow s); [apply C| |exact Hok]. apply sets_grow_same.
    unfold add_res. destruct (id_get (ridx s) id) as [h|]; [destruct (get_res s h) as [r|]; [destruct (r_len r =? len)|]|]; reflexivity.
  - pose proof (add_set_core s id) as C.
    split; [exact (Inv_same_core _ _ _ C HI)|]. split; [apply (wf_frame s); [apply C|exact Hwf]|].
    split; [|split; [apply (ann_refs_frame s); [apply C|exact Hrf]|apply (item_refs_grow s); [apply C|apply add_set_items|exact Hit]]].
    apply (data_ok_grow s); [apply C|apply add_set_grow|exact Hok].
  - pose proof (store_insert_data_core s b) as C. pose proof (store_insert_data_grow s b) as Gr.
    pose proof (store_insert_data_items s b) as Gi.
    destruct (store_insert_data s b) as [s' [[d x]|]]; destruct Gr as (Gr & _); cbn [fst] in *;
      (split; [exact (Inv_same_core _ _ _ C HI)|]); (split; [apply (wf_frame s); [apply C|exact Hwf]|]);
      (split; [|split; [apply (ann_refs_frame s); [apply C|exact Hrf]|apply (item_refs_grow s); [apply C|exact Gi|exact Hit]]]);
      apply (data_ok_grow s); try apply C; assumption.
  - split; [apply annotate_Inv; exact HI|]. split; [apply annotate_wf; exact Hwf|].
    split; [apply annotate_data_ok; exact Hok|split; [apply annotate_refs; exact Hrf|apply annotate_item_refs; exact Hit]].
  - destruct (rm_annotation_Inv noex s r HI Hwf) as (A & B & C & D & E). split; [exact A|split; [exact B|split; [exact (C Hok)|split; [exact (D Hrf)|exact (E Hit)]]]].
  - apply rm_data_Good. split; [exact HI|split; [assumption|split; [assumption|split; assumption]]].
  - apply rm_key_Good. split; [exact HI|split; [assumption|split; [assumption|split; assumption]]].
  - destruct (rm_resource_Inv noex s r HI Hwf) as (A & B & C & D & E). split; [exact A|split; [exact B|split; [exact (C Hok)|split; [exact (D Hrf)|exact (E Hit)]]]].
  - destruct (rm_dataset_Inv noex s r HI Hwf) as (A & B & C & D & E). split; [exact A|split; [exact B|split; [exact (C Hok)|split; [exact (D Hrf)|exact (E Hit)]]]].
  - pose proof (store_add_key_core s d tok) as C.
    split; [exact (Inv_same_core _ _ _ C HI)|]. split; [apply (wf_frame s); [apply C|exact Hwf]|].
    split; [|split; [apply (ann_refs_frame s); [apply C|exact Hrf]|apply (item_refs_grow s); [apply C|apply store_add_key_items|exact Hit]]].
    apply (data_ok_grow s); [apply C|apply store_add_key_grow|exact Hok].
Qed.

Lemma Good_init : Good empty_store.
Proof.
  split; [apply Inv_init|]. split; [|split; [|split]].
  - intros x a Ha. unfold get_ann, slot in Ha. cbn in Ha. destruct x; discriminate.
  - intros x a Ha. unfold get_ann, slot in Ha. cbn in Ha. destruct x; discriminate.
  - intros x a Ha. unfold get_ann, slot in Ha. cbn in Ha. destruct x; discriminate.
  - intros x a Ha. unfold get_ann, slot in Ha. cbn in Ha. destruct x; discriminate.
Qed.

Theorem reachable_Good : forall ops, Good (run ops).
Proof.
  unfold run. intros ops.
  assert (G : forall ops s, Good s -> Good (fold_left (fun s o => fst (step s o)) ops s)).
  { induction ops0 as [|o ops0 IH]; intros s Gs; cbn [fold_left]; [exact Gs|]. apply IH. apply step_Good. exact Gs. }
  apply G. apply Good_init.
Qed.
