(* remove_data (strict and non-strict) and remove_key preserve the index invariant. *)
From Coq Require Import Sorting.Sorted.
From Stam Require Import Base.Tac Base.ListAux Model.Offset Model.Store Model.StoreObs Spec.StoreSpec
     Proofs.RelMap Proofs.StoreScan Proofs.StoreInv Proofs.StoreDataDef Proofs.StoreRemove Proofs.StoreRemove2.

(** * rows of dataset_data_annotation_map only lose entries during removals *)
Definition shrinks (s s' : store) : Prop :=
  forall d x, incl (tget (ddam s') d x) (tget (ddam s) d x)
              /\ (NoDup (tget (ddam s) d x) -> NoDup (tget (ddam s') d x)).

Lemma shrinks_refl s : shrinks s s.
Proof. intros d x. split; [apply incl_refl|tauto]. Qed.
Lemma shrinks_trans s1 s2 s3 : shrinks s1 s2 -> shrinks s2 s3 -> shrinks s1 s3.
Proof.
  intros A B d x. destruct (A d x) as (A1&A2). destruct (B d x) as (B1&B2).
  split; [eapply incl_tran; eassumption|tauto].
Qed.
Lemma shrinks_same s s' : ddam s' = ddam s -> shrinks s s'.
Proof. intros E d x. rewrite E. split; [apply incl_refl|tauto]. Qed.

Lemma remove_first_incl y l : incl (remove_first y l) l.
Proof.
  induction l as [|z l IH]; cbn [remove_first]; [apply incl_refl|].
  destruct (z =? y); [apply incl_tl, incl_refl|].
  intros w [<-|Hw]; [left; reflexivity|right; apply IH; exact Hw].
Qed.
Lemma remove_first_NoDup y l : NoDup l -> NoDup (remove_first y l).
Proof.
  induction l as [|z l IH]; intros H; cbn [remove_first]; [constructor|].
  inversion H as [|? ? Hz Hl]; subst. destruct (z =? y); [exact Hl|].
  constructor; [|apply IH; exact Hl]. intros Hi. apply Hz. apply (remove_first_incl y l). exact Hi.
Qed.

Lemma shrinks_unindex s h a : shrinks s (unindex_ann s h a).
Proof.
  rewrite unindex_ann_unfold.
  destruct (ufold_leaves_frame h (a_leaves a) (fold_left (unindex_datum h) (a_data a) s)) as (G0&_).
  intros d x. rewrite G0. clear G0.
  generalize (a_data a) as l. intros l. revert s.
  induction l as [|dx l IH]; intros s; cbn [fold_left]; [split; [apply incl_refl|tauto]|].
  destruct (IH (unindex_datum h s dx)) as (I1&I2).
  assert (S1 : incl (tget (ddam (unindex_datum h s dx)) d x) (tget (ddam s) d x)
               /\ (NoDup (tget (ddam s) d x) -> NoDup (tget (ddam (unindex_datum h s dx)) d x))).
  { rewrite ustep_ddam. destruct (_ && _); [|split; [apply incl_refl|tauto]].
    split; [apply remove_first_incl|apply remove_first_NoDup]. }
  destruct S1 as (S1&S2). split; [eapply incl_tran; eassumption|tauto].
Qed.

Lemma remove_ann_shrinks : forall fuel s h, shrinks s (fst (remove_ann fuel s h)).
Proof.
  induction fuel as [|fuel IH]; intros s h; cbn [remove_ann]; [apply shrinks_refl|].
  destruct (get_ann s h) as [a0|]; [|apply shrinks_refl].
  assert (S0 : forall L s0, shrinks s0 (fold_left (fun s c => fst (remove_ann fuel s c)) L s0)).
  { induction L as [|c L IHL]; intros s0; cbn [fold_left]; [apply shrinks_refl|].
    eapply shrinks_trans; [apply (IH s0 c)|apply IHL]. }
  pose proof (S0 (rget (aam s) h) s) as S1.
  set (s1 := fold_left (fun s c => fst (remove_ann fuel s c)) (rget (aam s) h) s) in *.
  set (s2 := set_aam s1 (rclear (aam s1) h)).
  destruct (get_ann s2 h) as [a|]; cbn [fst]; [|eapply shrinks_trans; [exact S1|apply shrinks_same; reflexivity]].
  eapply shrinks_trans; [exact S1|].
  eapply shrinks_trans; [apply (shrinks_same s1 s2); reflexivity|].
  eapply shrinks_trans; [apply (shrinks_unindex s2 h a)|].
  apply shrinks_same. destruct (a_id a); reflexivity.
Qed.

Lemma remove_anns_shrinks l : forall s, shrinks s (remove_anns s l).
Proof.
  unfold remove_anns. induction l as [|c l IH]; intros s; cbn [fold_left]; [apply shrinks_refl|].
  eapply shrinks_trans; [apply remove_ann_shrinks|apply IH].
Qed.

(* removing every member of a duplicate-free row that lies in [us] empties it *)
Lemma remove_all_nil us : forall l, NoDup l -> incl l us ->
  fold_left (fun r a => remove_first a r) us l = [].
Proof.
  induction us as [|u us IH]; intros l Hnd Hin; cbn [fold_left].
  - destruct l as [|x l]; [reflexivity|]. destruct (Hin x (or_introl eq_refl)).
  - apply IH; [apply remove_first_NoDup; exact Hnd|].
    intros y Hy. rewrite (remove_first_filter u l Hnd) in Hy. apply filter_In in Hy. destruct Hy as [Hy Hn].
    destruct (Hin y Hy) as [<-|H]; [rewrite Nat.eqb_refl in Hn; discriminate|exact H].
Qed.

Definition exd (ex : nat -> nat -> bool) (d x : nat) : nat -> nat -> bool :=
  fun d' x' => ex d' x' || ((d' =? d) && (x' =? x)).

Lemma InvE_weaken ex d x s : InvE ex s -> InvE (exd ex d x) s.
Proof.
  intros [H1 H2 H3 H4 H5 H6 H7]. constructor; auto. intros d' x' He. apply H7.
  unfold exd in He. apply orb_false_iff in He. tauto.
Qed.

(* an annotation loses the data (d, x): every row except the exempt one is unaffected *)
Lemma uses_other d x d' x' an : (d' =? d) && (x' =? x) = false ->
  uses_data d' x' (ann_remove_data an d x) = uses_data d' x' an.
Proof.
  intros Hne. unfold uses_data, ann_remove_data. cbn [a_data].
  induction (a_data an) as [|p l IH]; cbn [filter existsb]; [reflexivity|].
  destruct (negb ((fst p =? d) && (snd p =? x))) eqn:E; cbn [existsb]; [rewrite IH; reflexivity|].
  rewrite IH. apply negb_false_iff in E. apply andb_true_iff in E. destruct E as [E1 E2].
  assert (fst p = d) by lia. assert (snd p = x) by lia.
  replace ((fst p =? d') && (snd p =? x')) with false; [reflexivity|].
  symmetry. rewrite (Nat.eqb_sym (fst p)), (Nat.eqb_sym (snd p)). subst. exact Hne.
Qed.

Lemma strip_data_Inv ex d x s a an :
  InvE (exd ex d x) s -> get_ann s a = Some an ->
  InvE (exd ex d x) (set_anns s (set_slot (anns s) a (Some (ann_remove_data an d x)))).
Proof.
  intros [H1 H2 H3 H4 H5 H6 H7] Ha. unfold get_ann in Ha.
  constructor; intros; cbn [set_anns trm aam ramm samm kamm damm ddam];
    unfold s_ts_anns, s_ann_anns, s_res_meta, s_set_meta, s_key_meta, s_data_meta, s_data_anns in *;
    rewrite scan_scanl; cbn [set_anns anns];
    try (rewrite (scanl_set_same _ a an _ _ Ha) by reflexivity;
         first [apply H1|apply H2|apply H3|apply H4|apply H5|apply H6]).
  rewrite (scanl_set_same _ a an _ _ Ha).
  - apply H7. assumption.
  - apply uses_other. unfold exd in H. apply orb_false_iff in H. tauto.
Qed.

(** * remove_data on resolved handles *)
Definition strip_step (d x : nat) (strict : bool) (s : store) (a : nat) : store :=
  if strict then fst (remove_ann (fuel_of s) s a)
  else match get_ann s a with
       | None => s
       | Some an =>
           let an' := ann_remove_data an d x in
           let s' := set_anns s (set_slot (anns s) a (Some an')) in
           match a_data an', a_data an with
           | [], _ :: _ => fst (remove_ann (fuel_of s') s' a)
           | _, _ => s'
           end
       end.

Definition frame4 (s s' : store) : Prop :=
  sets s' = sets s /\ ress s' = ress s /\ sidx s' = sidx s /\ ridx s' = ridx s.
Lemma frame4_refl s : frame4 s s. Proof. repeat split. Qed.
Lemma frame4_trans s1 s2 s3 : frame4 s1 s2 -> frame4 s2 s3 -> frame4 s1 s3.
Proof. intros (A1&A2&A3&A4) (B1&B2&B3&B4). repeat split; congruence. Qed.

(* the annotation is gone or no longer uses (d, x) *)
Definition done_with (d x : nat) (s : store) (a : nat) : Prop :=
  match get_ann s a with None => True | Some an => uses_data d x an = false end.

Lemma uses_incl d x a a' : incl (a_data a') (a_data a) -> uses_data d x a' = true -> uses_data d x a = true.
Proof.
  unfold uses_data. intros Hi H. apply existsb_exists in H. destruct H as (p & Hp & Hq).
  apply existsb_exists. exists p. split; [apply Hi; exact Hp|exact Hq].
Qed.

Lemma done_later d x s s' a : later s s' -> done_with d x s a -> done_with d x s' a.
Proof.
  intros (_&L) Hd. unfold done_with in *. destruct (get_ann s' a) as [a'|] eqn:E; [|exact I].
  destruct (L a a' E) as (a0 & H0 & _ & Hi). rewrite H0 in Hd.
  destruct (uses_data d x a') eqn:U; [|reflexivity]. rewrite (uses_incl d x a0 a' Hi U) in Hd. discriminate.
Qed.

Lemma uses_removed d x an : uses_data d x (ann_remove_data an d x) = false.
Proof.
  unfold uses_data, ann_remove_data. cbn [a_data].
  induction (a_data an) as [|p l IH]; cbn [filter existsb]; [reflexivity|].
  destruct ((fst p =? d) && (snd p =? x)) eqn:E; cbn [negb]; [exact IH|].
  cbn [existsb]. rewrite E, IH. reflexivity.
Qed.

Record StepInv (ex : nat -> nat -> bool) (s0 s : store) : Prop := mkSI {
  SI_inv : InvE ex s; SI_wf : wf_targets s; SI_later : later s0 s;
  SI_shr : shrinks s0 s; SI_frame : frame4 s0 s; SI_refs : ann_refs_ok s0 -> ann_refs_ok s
}.

Lemma SI_Post ex s0 s c s' : StepInv ex s0 s -> Post ex c s s' -> shrinks s s' -> StepInv ex s0 s'.
Proof.
  intros [A1 A2 A3 A4 A5 A6] P Sh. constructor.
  - exact (P_inv _ _ _ _ P).
  - exact (P_wf _ _ _ _ P).
  - eapply later_trans; [exact A3|apply (Post_later _ _ _ _ P)].
  - eapply shrinks_trans; eassumption.
  - eapply frame4_trans; [exact A5|exact (P_frame _ _ _ _ P)].
  - intros Hr. apply (P_closed _ _ _ _ P). apply A6. exact Hr.
Qed.

Lemma strip_step_SI ex d x strict s0 s a :
  StepInv (exd ex d x) s0 s ->
  StepInv (exd ex d x) s0 (strip_step d x strict s a) /\ done_with d x (strip_step d x strict s a) a.
Proof.
  intros SI. pose proof SI as [HI Hwf Hl Hs Hf Hrf]. unfold strip_step. destruct strict.
  - pose proof (remove_ann_Post (exd ex d x) (fuel_of s) s a HI Hwf (fuel_ok s a)) as R.
    pose proof (remove_ann_shrinks (fuel_of s) s a) as Sh.
    destruct (remove_ann (fuel_of s) s a) as [s' r]. destruct R as (P & Hlive & Hdead). cbn [fst] in *.
    split; [apply (SI_Post _ _ _ _ _ SI P Sh)|].
    unfold done_with. destruct (get_ann s a) as [an|] eqn:E.
    + destruct (Hlive an eq_refl) as (Hn & _). rewrite Hn. exact I.
    + rewrite (Hdead eq_refl), E. exact I.
  - destruct (get_ann s a) as [an|] eqn:E.
    2:{ split; [exact SI|]. unfold done_with. rewrite E. exact I. }
    set (an' := ann_remove_data an d x).
    set (s' := set_anns s (set_slot (anns s) a (Some an'))).
    assert (Hget : forall y, get_ann s' y = if y =? a then Some an' else get_ann s y).
    { intros y. unfold get_ann, s'. cbn [set_anns anns]. rewrite slot_set_slot.
      destruct (y =? a) eqn:Ey; cbn [andb]; [|reflexivity].
      pose proof (get_ann_lt s a an E). destruct (a <? length (anns s)) eqn:E2; [reflexivity|lia]. }
    assert (Hl' : later s s').
    { split; [unfold s'; cbn [set_anns anns]; apply length_set_slot|].
      intros y a' Hy. rewrite Hget in Hy. destruct (y =? a) eqn:Ey.
      - assert (y = a) by lia. subst y. inversion Hy; subst a'. exists an. split; [exact E|].
        split; [reflexivity|]. unfold an', ann_remove_data. cbn [a_data]. intros p Hp. apply filter_In in Hp. tauto.
      - exists a'. split; [exact Hy|]. split; [reflexivity|apply incl_refl]. }
    assert (SI' : StepInv (exd ex d x) s0 s').
    { constructor.
      - apply strip_data_Inv; assumption.
      - apply (later_wf s s' Hl' Hwf).
      - eapply later_trans; eassumption.
      - eapply shrinks_trans; [exact Hs|apply shrinks_same; reflexivity].
      - eapply frame4_trans; [exact Hf|repeat split].
      - intros Hr y a' Hy lf Hlf. destruct Hl' as (_ & B). destruct (B y a' Hy) as (a0 & Ha0 & El & _).
        rewrite El in Hlf. pose proof (Hrf Hr y a0 Ha0 lf Hlf) as H0.
        destruct lf; try exact I; rewrite Hget;
          (match goal with |- (if ?t =? a then _ else _) <> None => destruct (t =? a); [discriminate|exact H0] end). }
    assert (Hd' : done_with d x s' a).
    { unfold done_with. rewrite Hget, Nat.eqb_refl. apply uses_removed. }
    destruct (a_data an') as [|p l] eqn:Ed; [|split; assumption].
    destruct (a_data an) as [|q m]; [split; assumption|].
    pose proof SI' as [HI' Hwf' _ _ _ _].
    pose proof (remove_ann_Post (exd ex d x) (fuel_of s') s' a HI' Hwf' (fuel_ok s' a)) as R.
    pose proof (remove_ann_shrinks (fuel_of s') s' a) as Sh.
    destruct (remove_ann (fuel_of s') s' a) as [s'' r]. destruct R as (P & Hlive & Hdead). cbn [fst] in *.
    split; [apply (SI_Post _ _ _ _ _ SI' P Sh)|].
    apply (done_later d x s' s'' a (Post_later _ _ _ _ P) Hd').
Qed.

Lemma strip_fold_SI ex d x strict : forall us s0 s,
  StepInv (exd ex d x) s0 s ->
  let s1 := fold_left (strip_step d x strict) us s in
  StepInv (exd ex d x) s0 s1 /\ (forall a, In a us -> done_with d x s1 a) /\ later s s1.
Proof.
  induction us as [|a us IH]; intros s0 s SI; cbn [fold_left].
  - split; [exact SI|]. split; [intros a []|apply later_refl].
  - destruct (strip_step_SI ex d x strict s0 s a SI) as (SI1 & D1).
    assert (L1 : later s (strip_step d x strict s a)).
    { (* re-derive later for one step from the step invariant relative to s itself *)
      pose proof SI as [HI Hwf _ _ _ _].
      destruct (strip_step_SI ex d x strict s s a
                  (mkSI _ _ _ HI Hwf (later_refl s) (shrinks_refl s) (frame4_refl s) (fun H => H))) as ([_ _ L _ _ _] & _). exact L. }
    destruct (IH s0 (strip_step d x strict s a) SI1) as (SI2 & D2 & L2). cbv zeta in *.
    split; [exact SI2|]. split; [|eapply later_trans; eassumption].
    intros a' [<-|Ha']; [|apply D2; exact Ha'].
    apply (done_later d x _ _ a L2 D1).
Qed.

Lemma remove_data_h_unfold s d x strict :
  remove_data_h s d x strict =
  let users := tget (ddam s) d x in
  let s1 := fold_left (strip_step d x strict) users s in
  let s2 := remove_anns s1 (tget (damm s1) d x) in
  let s3 := set_damm s2 (tclear2 (damm s2) d x) in
  match get_set s3 d with
  | None => (s3, OErr)
  | Some ds =>
      match slot (d_data ds) x with
      | None => (s3, OErr)
      | Some it =>
          let ds' := mkset (d_id ds) (d_keys ds) (set_slot (d_data ds) x None) (d_kidx ds)
                           (match x_id it with Some tok => id_del (d_xidx ds) tok | None => d_xidx ds end)
                           (rrem (d_k2x ds) (x_key it) x) in
          let s4 := set_sets s3 (set_slot (sets s3) d (Some ds')) in
          (fold_left (fun s a => set_ddam s (trem (ddam s) d x a)) users s4, OOk x)
      end
  end.
Proof. reflexivity. Qed.

Lemma fold_trem_row d x us : forall s,
  tget (ddam (fold_left (fun s a => set_ddam s (trem (ddam s) d x a)) us s)) d x
  = fold_left (fun r a => remove_first a r) us (tget (ddam s) d x).
Proof.
  induction us as [|u us IH]; intros s; cbn [fold_left]; [reflexivity|].
  rewrite IH. cbn [set_ddam ddam]. rewrite tget_trem, !Nat.eqb_refl. reflexivity.
Qed.

Lemma fold_trem_other d x us d' x' : (d' =? d) && (x' =? x) = false -> forall s,
  tget (ddam (fold_left (fun s a => set_ddam s (trem (ddam s) d x a)) us s)) d' x' = tget (ddam s) d' x'.
Proof.
  intros Hne. induction us as [|u us IH]; intros s; cbn [fold_left]; [reflexivity|].
  rewrite IH. cbn [set_ddam ddam]. rewrite tget_trem, Hne. reflexivity.
Qed.

Lemma fold_trem_frame d x us : forall s,
  let s' := fold_left (fun s a => set_ddam s (trem (ddam s) d x a)) us s in
  anns s' = anns s /\ trm s' = trm s /\ aam s' = aam s /\ ramm s' = ramm s /\ samm s' = samm s
  /\ kamm s' = kamm s /\ damm s' = damm s /\ sets s' = sets s /\ ress s' = ress s.
Proof.
  induction us as [|u us IH]; intros s; cbn [fold_left]; [repeat split|].
  specialize (IH (set_ddam s (trem (ddam s) d x u))). cbv zeta in *. exact IH.
Qed.

Theorem remove_data_h_Inv s d x strict :
  Inv s -> wf_targets s ->
  ((exists ds it, get_set s d = Some ds /\ slot (d_data ds) x = Some it) \/ tget (ddam s) d x = []) ->
  let s' := fst (remove_data_h s d x strict) in
  Inv s' /\ wf_targets s' /\ later s s' /\ ress s' = ress s
  /\ (data_ok s -> data_ok s')
  /\ (ann_refs_ok s -> ann_refs_ok s')
  /\ (item_refs_ok s -> item_refs_ok s')
  /\ (forall d', d' <> d -> get_set s' d' = get_set s d')
  /\ (forall ds, get_set s d = Some ds -> exists ds', get_set s' d = Some ds' /\ d_keys ds' = d_keys ds
        /\ d_kidx ds' = d_kidx ds /\ length (d_data ds') = length (d_data ds)
        /\ (forall x', x' <> x -> slot (d_data ds') x' = slot (d_data ds) x')
        /\ (forall k, rget (d_k2x ds') k = rget (d_k2x ds) k \/ exists k0, rget (d_k2x ds') k = remove_first x (rget (d_k2x ds) k0) /\ k = k0)).
Proof.
  intros HI Hwf Hex. rewrite remove_data_h_unfold. cbv zeta.
  set (users := tget (ddam s) d x).
  pose proof (mkSI (exd noex d x) s s (InvE_weaken noex d x s HI) Hwf (later_refl s) (shrinks_refl s) (frame4_refl s) (fun H => H)) as SI0.
  destruct (strip_fold_SI noex d x strict users s s SI0) as (SI1 & D1 & _). cbv zeta in SI1, D1.
  set (s1 := fold_left (strip_step d x strict) users s) in *.
  pose proof SI1 as [HI1 Hwf1 L1 Sh1 F1 Rf1].
  destruct (remove_anns_Post (exd noex d x) (tget (damm s1) d x) s1 HI1 Hwf1) as (P2 & D2).
  pose proof (remove_anns_shrinks (tget (damm s1) d x) s1) as Sh2.
  set (s2 := remove_anns s1 (tget (damm s1) d x)) in *.
  pose proof (SI_Post _ _ _ _ _ SI1 P2 Sh2) as SI2. pose proof SI2 as [HI2 Hwf2 L2 Sh02 F2 Rf2].
  (* nothing alive uses (d, x) or targets it as metadata *)
  assert (Ru : scan s2 (uses_data d x) = []).
  { rewrite scan_scanl. destruct (scanl (anns s2) (uses_data d x)) as [|y l] eqn:E; [reflexivity|exfalso].
    assert (Hy : In y (scanl (anns s2) (uses_data d x))) by (rewrite E; left; reflexivity).
    apply scanl_In in Hy. destruct Hy as (a2 & Ha2 & HP2).
    destruct L2 as (_ & L2). destruct (L2 y a2 Ha2) as (a0 & Ha0 & _ & Hi).
    assert (Hu : In y users).
    { unfold users. rewrite (I_ddam noex s HI d x eq_refl). apply scan_member. exists a0.
      split; [exact Ha0|apply (uses_incl d x a0 a2 Hi HP2)]. }
    pose proof (done_later d x s1 s2 y (Post_later _ _ _ _ P2) (D1 y Hu)) as Hd.
    unfold done_with in Hd. change (slot (anns s2) y) with (get_ann s2 y) in Ha2. rewrite Ha2 in Hd. congruence. }
  assert (Rm : scan s2 (has_leaf (on_data d x)) = []).
  { apply (kill_row (exd noex d x) 0 s1 s2 _ (tget (damm s1) d x) P2); [|exact D2].
    intros y a Ha HP. rewrite (I_damm _ s1 HI1). apply scan_member. exists a. tauto. }
  set (s3 := set_damm s2 (tclear2 (damm s2) d x)).
  (* full invariant again once the exempt row is repaired; [fin] is any state that differs from s3
     in the datasets and in the row (d, x) only *)
  assert (Final : forall fin, anns fin = anns s3 -> trm fin = trm s3 -> aam fin = aam s3 -> ramm fin = ramm s3 ->
            samm fin = samm s3 -> kamm fin = kamm s3 -> damm fin = damm s3 ->
            (forall d' x', (d' =? d) && (x' =? x) = false -> tget (ddam fin) d' x' = tget (ddam s3) d' x') ->
            tget (ddam fin) d x = [] -> Inv fin).
  { intros fin E0 E1 E2 E3 E4 E5 E6 Eo Er. destruct HI2 as [H1 H2 H3 H4 H5 H6 H7].
    constructor; intros;
      unfold s_ts_anns, s_ann_anns, s_res_meta, s_set_meta, s_key_meta, s_data_meta, s_data_anns in *;
      rewrite scan_scanl, E0; unfold s3; cbn [set_damm anns];
      rewrite ?E1, ?E2, ?E3, ?E4, ?E5, ?E6; unfold s3; cbn [set_damm trm aam ramm samm kamm damm];
      try first [apply H1|apply H2|apply H3|apply H4|apply H5].
    - rewrite tget_tclear2. destruct ((d0 =? d) && (x0 =? x)) eqn:E; [|apply H6].
      assert (d0 = d) by lia. assert (x0 = x) by lia. subst. symmetry. apply Rm.
    - destruct ((d0 =? d) && (x0 =? x)) eqn:E.
      + assert (d0 = d) by lia. assert (x0 = x) by lia. subst. rewrite Er. symmetry. apply Ru.
      + rewrite (Eo d0 x0 E). unfold s3. cbn [set_damm ddam]. apply H7. unfold exd, noex. rewrite E. reflexivity. }
  assert (Hwf3 : wf_targets s3) by (apply (wf_frame s2 s3); [reflexivity|exact Hwf2]).
  assert (L3 : later s s3).
  { destruct L2 as (A & B). split; [exact A|exact B]. }
  destruct F2 as (Fs & Fr & _ & _).
  assert (Hsets3 : sets s3 = sets s) by exact Fs.
  assert (Hnouse : forall y a', get_ann s3 y = Some a' -> uses_data d x a' = false).
  { intros y a' Hy. destruct (uses_data d x a') eqn:U; [|reflexivity].
    assert (In y (scan s2 (uses_data d x))) by (apply scan_member; exists a'; split; assumption).
    rewrite Ru in H. destruct H. }
  assert (Hok3 : forall fin, anns fin = anns s3 -> sets fin = sets s -> data_ok s -> data_ok fin).
  { intros fin E0 E1 Hok y a' Hy dx Hdx. unfold get_ann in Hy. rewrite E0 in Hy.
    destruct L3 as (_ & B). destruct (B y a' Hy) as (a0 & Ha0 & _ & Hi).
    destruct (Hok y a0 Ha0 dx (Hi dx Hdx)) as (ds0 & it0 & G1 & G2). exists ds0, it0.
    unfold get_set in *. rewrite E1. tauto. }
  assert (Hit3 : forall fin, anns fin = anns s3 -> sets fin = sets s -> ress fin = ress s -> item_refs_ok s -> item_refs_ok fin).
  { intros fin E0 E1 E2 Hr y a' Hy lf Hlf. unfold get_ann in Hy. rewrite E0 in Hy.
    destruct L3 as (_ & B). destruct (B y a' Hy) as (a0 & Ha0 & El & _). rewrite El in Hlf.
    pose proof (Hr y a0 Ha0 lf Hlf) as H0.
    destruct lf; cbn [item_ref_ok] in *; unfold get_res, get_set in *; rewrite ?E1, ?E2; exact H0. }
  assert (Hsame3 : forall fin, sets fin = sets s ->
            (forall d', d' <> d -> get_set fin d' = get_set s d')
            /\ (forall ds, get_set s d = Some ds -> exists ds', get_set fin d = Some ds' /\ d_keys ds' = d_keys ds
                  /\ d_kidx ds' = d_kidx ds /\ length (d_data ds') = length (d_data ds)
                  /\ (forall x', x' <> x -> slot (d_data ds') x' = slot (d_data ds) x')
                  /\ (forall k, rget (d_k2x ds') k = rget (d_k2x ds) k \/ exists k0, rget (d_k2x ds') k = remove_first x (rget (d_k2x ds) k0) /\ k = k0))).
  { intros fin E1. split; [intros d' _; unfold get_set; rewrite E1; reflexivity|].
    intros ds Hds. exists ds. unfold get_set in *. rewrite E1. repeat split; auto. }
  destruct (get_set s3 d) as [ds|] eqn:Eds; cbn [fst].
  2:{ (* the set does not exist: only possible with an empty row *)
      destruct Hex as [(ds0 & it0 & G1 & _)|He].
      - unfold get_set in Eds, G1. rewrite Hsets3 in Eds. congruence.
      - split; [|split; [exact Hwf3|split; [exact L3|split; [exact Fr|split; [apply Hok3; [reflexivity|exact Hsets3]|split; [exact Rf2|split; [apply Hit3; [reflexivity|exact Hsets3|exact Fr]|apply Hsame3; exact Hsets3]]]]]]].
        apply (Final s3); try reflexivity.
        pose proof (Sh02 d x) as (Hin & _). unfold s3. cbn [set_damm ddam]. rewrite He in Hin.
        destruct (tget (ddam s2) d x) as [|z l] eqn:Ez; [reflexivity|].
        exfalso. apply (Hin z (or_introl eq_refl)). }
  destruct (slot (d_data ds) x) as [it|] eqn:Eit; cbn [fst].
  2:{ destruct Hex as [(ds0 & it0 & G1 & G2)|He].
      - unfold get_set in Eds, G1. rewrite Hsets3 in Eds. rewrite G1 in Eds. inversion Eds; subst. congruence.
      - split; [|split; [exact Hwf3|split; [exact L3|split; [exact Fr|split; [apply Hok3; [reflexivity|exact Hsets3]|split; [exact Rf2|split; [apply Hit3; [reflexivity|exact Hsets3|exact Fr]|apply Hsame3; exact Hsets3]]]]]]].
        apply (Final s3); try reflexivity.
        pose proof (Sh02 d x) as (Hin & _). unfold s3. cbn [set_damm ddam]. rewrite He in Hin.
        destruct (tget (ddam s2) d x) as [|z l] eqn:Ez; [reflexivity|].
        exfalso. apply (Hin z (or_introl eq_refl)). }
  match goal with |- context [fold_left _ users ?s4] => set (sfour := s4) end.
  destruct (fold_trem_frame d x users sfour) as (T0&T1&T2&T3&T4&T5&T6&T7&T8). cbv zeta in *.
  split; [|split; [|split; [|split; [|split; [|split; [|split; [|split]]]]]]].
  - apply Final; try (first [rewrite T0|rewrite T1|rewrite T2|rewrite T3|rewrite T4|rewrite T5|rewrite T6]; reflexivity).
    + intros d' x' Hne. rewrite (fold_trem_other d x users d' x' Hne). reflexivity.
    + rewrite fold_trem_row. unfold sfour. cbn [set_sets ddam]. unfold s3. cbn [set_damm ddam].
      pose proof (Sh02 d x) as (Hin & Hnd).
      apply remove_all_nil.
      * apply Hnd. rewrite (I_ddam noex s HI d x eq_refl). unfold s_data_anns. rewrite scan_scanl. apply scanl_NoDup.
      * exact Hin.
  - apply (wf_frame s3); [rewrite T0; reflexivity|exact Hwf3].
  - destruct L3 as (A & B). split; [rewrite T0; exact A|]. intros y a' Hy. apply B.
    unfold get_ann in *. rewrite T0 in Hy. exact Hy.
  - rewrite T8. unfold sfour. cbn [set_sets ress]. exact Fr.
  - (* data_ok: survivors do not use (d, x); every other data item is still there *)
    intros Hok y a' Hy dx Hdx. unfold get_ann in Hy. rewrite T0 in Hy.
    assert (Hy3 : get_ann s3 y = Some a') by exact Hy.
    pose proof (Hnouse y a' Hy3) as Hn.
    destruct L3 as (_ & B). destruct (B y a' Hy3) as (a0 & Ha0 & _ & Hi).
    destruct (Hok y a0 Ha0 dx (Hi dx Hdx)) as (ds0 & it0 & G1 & G2).
    assert (Hne : (fst dx =? d) && (snd dx =? x) = false).
    { destruct ((fst dx =? d) && (snd dx =? x)) eqn:E; [|reflexivity].
      unfold uses_data in Hn. assert (existsb (fun dx0 => (fst dx0 =? d) && (snd dx0 =? x)) (a_data a') = true)
        by (apply existsb_exists; exists dx; tauto). congruence. }
    unfold data_exists, get_set. rewrite T7. unfold sfour. cbn [set_sets sets]. rewrite slot_set_slot.
    unfold get_set in G1, Eds. rewrite Hsets3 in Eds.
    destruct (fst dx =? d) eqn:E1; cbn [andb].
    + assert (fst dx = d) by lia. rewrite H in G1. rewrite G1 in Eds. inversion Eds; subst ds0.
      assert (Hlt : d < length (sets s3)).
      { rewrite Hsets3. destruct (lt_dec d (length (sets s))); [assumption|]. unfold slot in G1. rewrite nth_overflow in G1 by lia. discriminate. }
      destruct (d <? length (sets s3)) eqn:E2; [|lia].
      eexists. exists it0. split; [reflexivity|]. cbn [d_data]. rewrite slot_set_slot.
      cbn [andb] in Hne. destruct (snd dx =? x) eqn:E3; [discriminate|]. cbn [andb]. exact G2.
    + exists ds0, it0. rewrite Hsets3. tauto.
  - intros Hr. apply (ann_refs_frame s2); [rewrite T0; reflexivity|apply Rf2; exact Hr].
  - (* item references: nobody names data (d, x) any more; everything else is still there *)
    intros Hr y a' Hy lf Hlf. unfold get_ann in Hy. rewrite T0 in Hy.
    assert (Hy3 : get_ann s3 y = Some a') by exact Hy.
    destruct L3 as (_ & B). destruct (B y a' Hy3) as (a0 & Ha0 & El & _).
    pose proof Hlf as Hlf0. rewrite El in Hlf0. pose proof (Hr y a0 Ha0 lf Hlf0) as H0.
    assert (Hnot : on_data d x lf = true -> False).
    { intros Hon. assert (Hin : In y (scan s2 (has_leaf (on_data d x)))).
      { apply scan_member. exists a'. split; [exact Hy3|]. unfold has_leaf. apply existsb_exists. exists lf. tauto. }
      rewrite Rm in Hin. destruct Hin. }
    assert (Hlt : d < length (sets s3)).
    { unfold get_set in Eds. destruct (lt_dec d (length (sets s3))); [assumption|]. unfold slot in Eds. rewrite nth_overflow in Eds by lia. discriminate. }
    assert (Hgs : forall d0, get_set (fold_left (fun s a => set_ddam s (trem (ddam s) d x a)) users sfour) d0
                  = if d0 =? d then Some (mkset (d_id ds) (d_keys ds) (set_slot (d_data ds) x None) (d_kidx ds)
                                           (match x_id it with Some tok => id_del (d_xidx ds) tok | None => d_xidx ds end)
                                           (rrem (d_k2x ds) (x_key it) x))
                    else get_set s d0).
    { intros d0. unfold get_set. rewrite T7. unfold sfour. cbn [set_sets sets]. rewrite slot_set_slot.
      destruct (d0 =? d) eqn:E; cbn [andb]; [|rewrite Hsets3; reflexivity].
      destruct (d <? length (sets s3)) eqn:E2; [reflexivity|lia]. }
    assert (Hds : get_set s d = Some ds) by (unfold get_set in *; rewrite <- Hsets3; exact Eds).
    destruct lf; cbn [item_ref_ok] in *; try exact H0.
    + unfold get_res in *. rewrite T8. unfold sfour, s3. cbn [set_sets set_damm ress]. rewrite Fr. exact H0.
    + unfold get_res in *. rewrite T8. unfold sfour, s3. cbn [set_sets set_damm ress]. rewrite Fr. exact H0.
    + unfold get_res in *. rewrite T8. unfold sfour, s3. cbn [set_sets set_damm ress]. rewrite Fr. exact H0.
    + rewrite Hgs. destruct (d0 =? d) eqn:E; [discriminate|exact H0].
    + destruct H0 as (ds0 & G1 & G2). rewrite Hgs. destruct (d0 =? d) eqn:E.
      * assert (d0 = d) by lia. subst d0. rewrite Hds in G1. inversion G1; subst ds0. eexists. split; [reflexivity|]. exact G2.
      * exists ds0. tauto.
    + destruct H0 as (ds0 & G1 & G2). rewrite Hgs. destruct (d0 =? d) eqn:E.
      * assert (d0 = d) by lia. subst d0. rewrite Hds in G1. inversion G1; subst ds0. eexists. split; [reflexivity|].
        cbn [d_data]. rewrite slot_set_slot. destruct (x0 =? x) eqn:Ex; cbn [andb]; [|exact G2].
        exfalso. apply Hnot. cbn [on_data]. rewrite Nat.eqb_refl, Ex. reflexivity.
      * exists ds0. tauto.
  - intros d' Hd'. unfold get_set. rewrite T7. unfold sfour. cbn [set_sets sets]. rewrite slot_set_slot.
    destruct (d' =? d) eqn:E; [lia|]. cbn [andb]. rewrite Hsets3. reflexivity.
  - intros ds0 Hds0. unfold get_set in Hds0, Eds. rewrite Hsets3 in Eds. rewrite Hds0 in Eds. inversion Eds; subst ds0.
    assert (Hlt : d < length (sets s3)).
    { rewrite Hsets3. destruct (lt_dec d (length (sets s))); [assumption|]. unfold slot in Hds0. rewrite nth_overflow in Hds0 by lia. discriminate. }
    eexists. split.
    { unfold get_set. rewrite T7. unfold sfour. cbn [set_sets sets]. rewrite slot_set_slot, Nat.eqb_refl.
      destruct (d <? length (sets s3)) eqn:E2; [reflexivity|lia]. }
    cbn [d_keys d_kidx d_data d_k2x]. split; [reflexivity|]. split; [reflexivity|]. split; [apply length_set_slot|]. split.
    + intros x' Hx'. rewrite slot_set_slot. destruct (x' =? x) eqn:E; [lia|]. reflexivity.
    + intros k. rewrite rget_rrem. destruct (k =? x_key it) eqn:E; [|left; reflexivity].
      right. exists (x_key it). split; [reflexivity|lia].
Qed.
