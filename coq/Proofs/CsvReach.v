(* The conditions of the store-level theorem (Proofs/CsvStore.v Good, Spec/CsvSpec.v hyps_ok) and
   "the writer does not panic" hold for every reachable store: they follow from the invariants of
   histories proved elsewhere - RangeInv (Proofs/StoreRange.v), NestInv (Proofs/ValidateNest.v),
   wf_targets / data_ok / ann_refs_ok / item_refs_ok (Proofs/StoreData.v, bundled in W),
   stability of targets (Proofs/StoreStable.v) - plus the shape of targets proved here. *)
From Coq Require Import List NArith ZArith Bool Arith Lia.
Import ListNotations.
From Stam Require Import Base.Tac Base.Sx Model.Offset Model.Store Model.Loader Model.Csv Model.Compress Spec.CsvSpec
  Proofs.Loader Proofs.RelMap Proofs.StoreInv Proofs.StoreRemove Proofs.StoreDataDef Proofs.StoreErr Proofs.StoreIds Proofs.StoreSets
  Proofs.StoreSel Proofs.StoreRange Proofs.StoreStable Proofs.ValidateProtect Proofs.ValidateNest
  Proofs.Csv Proofs.CsvSet Proofs.CsvResolve Proofs.CsvStore.

(** * the shape of targets: the three complex kinds of the API *)

Definition kind_ok (o : op) : Prop :=
  match o with
  | Annotate b => match Store.ab_target b with Some (Store.BComplex k _) => 1 <= k <= 3 | _ => True end
  | _ => True
  end.

Definition ShapeInv (s : store) : Prop := forall h a, get_ann s h = Some a -> shape_b a = true.


Lemma resolve_target_shape s tb k lfs : snd (resolve_target s tb) = Some (k, lfs) ->
  match tb with Store.BComplex k' _ => k = k' | _ => k = 0 /\ length lfs = 1 end.
Proof.
  destruct tb; cbn [resolve_target]; intro H;
    try (match type of H with context [resolve_simple ?s0 ?b0] => destruct (resolve_simple s0 b0) as [s1 [lf|]] end;
         cbn [snd] in H; [injection H as <- <-; split; reflexivity|discriminate]).
  destruct (resolve_subs s l) as [s1 [l'|]]; cbn [snd] in H; [injection H as <- _; reflexivity|discriminate].
Qed.

Lemma annotate_new_shape s b : kind_ok (Annotate b) ->
  forall y a', length (anns s) <= y -> get_ann (fst (annotate s b)) y = Some a' -> shape_b a' = true.
Proof.
  intros Hk y a' Hge Hy.
  assert (Old : forall s0, anns s0 = anns s -> get_ann s0 y = Some a' -> False).
  { intros s0 E H. apply get_ann_lt in H. rewrite E in H. lia. }
  unfold annotate in *. cbn [kind_ok] in Hk. destruct (Store.ab_target b) as [tb|]; [|destruct (Old s eq_refl Hy)].
  pose proof (resolve_target_shape s tb) as N. pose proof (resolve_target_core s tb) as C1.
  destruct (resolve_target s tb) as [s1 [[k lfs]|]]; cbn [fst snd] in *; [|destruct C1 as (E & _); destruct (Old s1 E Hy)].
  specialize (N k lfs eq_refl).
  pose proof (insert_datas_core (Store.ab_data b) s1) as C2.
  destruct (insert_datas s1 (Store.ab_data b)) as [s2 [data|]]; cbn [fst] in *;
    [|destruct (same_core_trans _ _ _ C1 C2) as (E & _); destruct (Old s2 E Hy)].
  destruct (same_core_trans _ _ _ C1 C2) as (Ea & _).
  destruct (match Store.ab_id b with Some tok => id_get (aidx s2) tok | None => None end) as [h'|].
  - destruct (get_ann s2 h'); [destruct (_ && _)|]; destruct (Old s2 Ea Hy).
  - cbn [fst] in *.
    match type of Hy with get_ann (index_ann ?s4 ?h0 ?a0) y = _ =>
      destruct (index_ann_ids s4 h0 a0) as (IA & _);
      assert (E4 : anns s4 = anns s2 ++ [Some a0]) by (destruct (Store.ab_id b); reflexivity) end.
    unfold get_ann in Hy. rewrite IA, E4, slot_app_new in Hy.
    destruct (y =? length (anns s2)) eqn:Ey; [|apply slot_lt in Hy; rewrite Ea in Hy; lia].
    injection Hy as <-. unfold shape_b. cbn [a_kind a_leaves].
    destruct tb; try (destruct N as [E1 E2]; rewrite E1, E2; reflexivity).
    subst k. destruct Hk as [H1 H3]. apply andb_true_intro. split; [apply Nat.leb_le; exact H3|].
    destruct kind; [lia|reflexivity].
Qed.

Lemma step_ShapeInv s o : kind_ok o -> ShapeInv s -> ShapeInv (fst (step s o)).
Proof.
  intros Hk HI h a' Ha'. destruct (lt_dec h (length (anns s))) as [Hlt|Hge].
  - destruct (step_stable s o) as [_ St]. destruct (St h a' Hlt Ha') as (a & Ha & (_ & E2 & E3 & _)).
    pose proof (HI h a Ha) as Hs. unfold shape_b in *. rewrite E2, E3. exact Hs.
  - assert ((forall b, o <> Annotate b) -> False) as Other.
    { intros Hna. pose proof (step_samelen s o Hna) as L. unfold samelen in L. apply get_ann_lt in Ha'. lia. }
    destruct o; try (exfalso; apply Other; intros b0; discriminate).
    cbn [step] in Ha'. apply (annotate_new_shape s b Hk h a' ltac:(lia) Ha').
Qed.

Theorem reachable_ShapeInv ops : Forall kind_ok ops -> ShapeInv (run ops).
Proof.
  unfold run. assert (G : forall l s0, Forall kind_ok l -> ShapeInv s0 -> ShapeInv (fold_left (fun s o => fst (step s o)) l s0)).
  { induction l as [|o l IH]; intros s0 Hf Hs; cbn [fold_left]; [exact Hs|]. inversion Hf; subst.
    apply IH; [assumption|]. apply step_ShapeInv; assumption. }
  intro H. apply G; [exact H|]. intros h a Ha. unfold get_ann, slot in Ha. cbn in Ha. destruct h; discriminate.
Qed.

(** * hyps_ok *)

(* lengths of texts within the cursor type *)
Definition lens_fit (s : store) : Prop := forall r rs, get_res s r = Some rs -> fits (r_len rs) = true.

Lemma forallb_live {X} (p : nat * X -> bool) (l : list (option X)) :
  (forall h x, slot l h = Some x -> p (h, x) = true) -> forallb p (live_items l) = true.
Proof. intro H. apply forallb_forall. intros [h x] Hin. apply H. apply live_items_In. exact Hin. Qed.

Lemma hyps_ok_of s : RangeInv s -> NestInv s -> wf_targets s -> ShapeInv s -> lens_fit s -> hyps_ok s = true.
Proof.
  intros HR HN Hwf Hsh Hfit. unfold hyps_ok, store_ok. rewrite !andb_true_iff. repeat split.
  - apply forallb_live. intros r rs Hr. cbn [snd]. unfold res_ok. rewrite (Hfit r rs Hr). cbn [andb].
    apply forallb_forall. intros rg Hrg. destruct (HR r rs Hr rg Hrg) as [H1 H2]. unfold range_ok.
    apply andb_true_intro. split; apply Nat.leb_le; assumption.
  - apply forallb_live. intros h a Ha. cbn [snd]. apply forallb_forall. intros lf Hlf.
    pose proof (HN h a Ha) as Hn. rewrite Forall_forall in Hn. specialize (Hn lf Hlf).
    destruct lf; try reflexivity. cbn [nest_leaf] in Hn. destruct Hn as (pa & pt & prg & rg & H1 & H2 & H3 & H4 & H5 & H6).
    cbn [leaf_ok]. rewrite H1, H2. unfold range_of in H3. unfold sel_range.
    destruct (get_res s r) as [rs|]; [|discriminate]. rewrite (nth_error_nth _ _ _ H3). rewrite Nat.eqb_refl. cbn [andb].
    apply andb_true_intro. split; apply Nat.leb_le; assumption.
  - apply forallb_live. intros h a Ha. cbn [fst snd]. rewrite (Hsh h a Ha). cbn [andb]. unfold back_b.
    apply forallb_forall. intros lf Hlf. pose proof (Hwf h a Ha) as Hw. rewrite Forall_forall in Hw. specialize (Hw lf Hlf).
    destruct lf; try reflexivity; cbn [leaf_lt] in Hw; apply Nat.ltb_lt; exact Hw.
Qed.

Theorem reachable_hyps_ok ops : Forall op_ok ops -> Forall kind_ok ops -> lens_fit (run ops) -> hyps_ok (run ops) = true.
Proof.
  intros Hops Hk Hfit. destruct (reachable_W2 ops Hops) as [HW _ HR HN].
  apply hyps_ok_of; [exact HR|exact HN|apply (W_wf _ HW)|apply (reachable_ShapeInv ops Hk)|exact Hfit].
Qed.

(** * the writer does not panic *)

Lemma map_opt_total {A B} (f : A -> option B) l : (forall x, In x l -> f x <> None) -> map_opt f l <> None.
Proof.
  induction l as [|x l IH]; intro H; [discriminate|]. cbn [map_opt].
  destruct (f x) eqn:E; [|exfalso; apply (H x (or_introl eq_refl)); exact E].
  assert (map_opt f l <> None) as Hn by (apply IH; intros y Hy; apply H; right; exact Hy).
  destruct (map_opt f l); [discriminate|contradiction].
Qed.

Lemma leaf_member_total s h a lf : item_refs_ok s -> ann_refs_ok s -> get_ann s h = Some a -> In lf (a_leaves a) ->
  leaf_member s lf <> None.
Proof.
  intros Hi Hr Ha Hlf. pose proof (Hi h a Ha lf Hlf) as I1. pose proof (Hr h a Ha lf Hlf) as R1.
  destruct lf; cbn [item_ref_ok] in I1; cbn [leaf_member].
  - destruct I1 as (rs & -> & Ht). destruct (nth_error (r_sels rs) t) eqn:E; [discriminate|]. apply nth_error_None in E. lia.
  - destruct (get_ann s a0); [discriminate|contradiction].
  - destruct (get_ann s a0); [|contradiction]. destruct I1 as (rs & -> & Ht).
    destruct (nth_error (r_sels rs) t) eqn:E; [discriminate|]. apply nth_error_None in E. lia.
  - destruct (get_res s r); [discriminate|contradiction].
  - destruct (get_set s d); [discriminate|contradiction].
  - destruct I1 as (ds & -> & Hk). destruct (slot (d_keys ds) k); [discriminate|contradiction].
  - destruct I1 as (ds & -> & Hx). destruct (slot (d_data ds) x); [discriminate|contradiction].
Qed.

Lemma save_total s : W s -> ShapeInv s -> save s <> None.
Proof.
  intros HW Hsh. unfold save.
  destruct (map_opt _ (live_items (sets s))) as [fs|] eqn:E1.
  2:{ exfalso. revert E1. apply map_opt_total. intros [d ds] Hin. apply live_items_In in Hin. cbn [snd].
      pose proof (W_sets _ HW d ds Hin) as Hinv. unfold save_set.
      destruct (map_opt _ (live_items (d_data ds))) as [rows|] eqn:E2; [discriminate|]. exfalso. revert E2.
      apply map_opt_total. intros [x it] Hx. apply live_items_In in Hx. cbn [fst snd].
      pose proof (D_keys ds Hinv x it Hx) as Hk. unfold key_live in Hk. destruct (slot (d_keys ds) (x_key it)); [discriminate|contradiction]. }
  destruct (map_opt _ (live_items (anns s))) as [rows|] eqn:E2; [discriminate|]. exfalso. revert E2.
  apply map_opt_total. intros [h a] Hin. apply live_items_In in Hin. cbn [fst snd]. unfold pack_row.
  destruct (map_opt (leaf_member s) (a_leaves a)) as [ms|] eqn:E3.
  2:{ exfalso. revert E3. apply map_opt_total. intros lf Hlf. apply (leaf_member_total s h a lf (W_items _ HW) (W_refs _ HW) Hin Hlf). }
  unfold data_names. destruct (map_opt _ (a_data a)) as [ds|] eqn:E4.
  2:{ exfalso. revert E4. apply map_opt_total. intros dx Hdx. destruct (W_data _ HW h a Hin dx Hdx) as (dst & it & -> & ->). discriminate. }
  pose proof (Hsh h a Hin) as Hs. unfold shape_b in Hs. apply andb_prop in Hs. destruct Hs as [_ Hs].
  unfold assemble. destruct (a_kind a) as [|k']; [|discriminate].
  cbn in Hs. apply Nat.eqb_eq in Hs. apply map_opt_length in E3. rewrite Hs in E3.
  destruct ms as [|m [|m' ms]]; try discriminate.
Qed.

Theorem reachable_save ops : Forall op_ok ops -> Forall kind_ok ops -> save (run ops) <> None.
Proof. intros Hops Hk. apply save_total; [apply (reachable_W ops Hops)|apply (reachable_ShapeInv ops Hk)]. Qed.

(** * the property for every reachable store outside the known classes *)

Theorem reachable_roundtrip_uncond ops : Forall op_ok ops -> Forall kind_ok ops ->
  ids_fit (run ops) -> lens_fit (run ops) -> known_class (run ops) = 0 ->
  sx_of_loaded (roundtrip (run ops)) = roundtrip_spec (run ops).
Proof.
  intros Hops Hk Hfit Hlen Hkn.
  apply reachable_roundtrip; [exact Hops|exact Hfit|apply reachable_hyps_ok; assumption|exact Hkn|apply reachable_save; assumption].
Qed.
