(* The comparator the source contains NOW (Gen/SubOrderTable.v, regenerated from
   src/annotationstore.rs on every run) denotes the modelled comparator; so the theorems of
   Proofs/SubOrder.v (total preorder, lexicographic key) hold of the code's arm table. *)
From Coq Require Import List Arith Bool.
Import ListNotations.
From Stam Require Import Model.Offset Model.Store Model.Compress Model.SubOrder Model.SubOrderArms
     Gen.SubOrderTable Proofs.SubOrder.

Theorem arms_agree : forall s a b, interp arms s a b = leaf_cmp s a b.
Proof. intros s a b. destruct a, b; reflexivity. Qed.

Theorem code_comparator_is_total : forall s a b c,
  interp arms s a b = lex4 (leaf_sortkey s a) (leaf_sortkey s b)
  /\ interp arms s b a = CompOpp (interp arms s a b)
  /\ (interp arms s a b <> Gt -> interp arms s b c <> Gt -> interp arms s a c <> Gt).
Proof.
  intros s a b c. rewrite !arms_agree. split; [apply leaf_cmp_key|]. split; [apply leaf_cmp_antisym|apply leaf_cmp_trans].
Qed.
