(* Store level: loading what was saved gives a store with the content of the original
   (Spec/CsvSpec.v content), for every store that satisfies the well-formedness conditions [Good]
   (all of them decidable and evaluated on every explored store by Run/C15.v). *)
From Coq Require Import List NArith ZArith Bool Arith Lia.
Import ListNotations.
From Stam Require Import Base.Tac Base.Sx Model.Offset Model.Store Model.Loader Model.Csv Spec.CsvSpec
  Proofs.Loader Proofs.RelMap Proofs.StoreIds Proofs.StoreSets Proofs.Csv Proofs.CsvSet Proofs.CsvResolve.
From Stam Require Spec.OffsetSpec Proofs.Offset.

(** * generic facts about live items, ranks and positions *)

Lemma live_from_fst_ge {X} (l : list (option X)) : forall b p, In p (live_from b l) -> b <= fst p.
Proof.
  induction l as [|o l IH]; intros b p H; [destruct H|]. cbn [live_from] in H. destruct o as [x|].
  - destruct H as [<-|H]; [cbn; lia|]. specialize (IH (S b) p H). lia.
  - specialize (IH (S b) p H). lia.
Qed.

Lemma live_from_nodup {X} (l : list (option X)) : forall b, NoDup (map fst (live_from b l)).
Proof.
  induction l as [|o l IH]; intro b; [constructor|]. cbn [live_from]. destruct o as [x|]; [|apply IH].
  cbn [map fst]. constructor; [|apply IH].
  intro H. apply in_map_iff in H. destruct H as (p & E & Hp). apply live_from_fst_ge in Hp. lia.
Qed.

Lemma nth_live_rank {X} (l : list (option X)) : forall b h x, slot l h = Some x ->
  nth_error (live_from b l) (rank l h) = Some (b + h, x).
Proof.
  induction l as [|o l IH]; intros b h x Hs.
  - unfold slot in Hs. destruct h; discriminate.
  - destruct h as [|h].
    + unfold slot in Hs. cbn [nth] in Hs. subst o. cbn [live_from]. unfold rank. cbn [firstn filter length nth_error].
      rewrite Nat.add_0_r. reflexivity.
    + change (slot (o :: l) (S h)) with (slot l h) in Hs. unfold rank. cbn [firstn filter].
      destruct o as [y|]; cbn [is_some live_from length nth_error];
        change (length (filter is_some (firstn h l))) with (rank l h);
        rewrite (IH (S b) h x Hs); f_equal; f_equal; lia.
Qed.

Lemma nth_live_items {X} (l : list (option X)) h x : slot l h = Some x ->
  nth_error (live_items l) (rank l h) = Some (h, x).
Proof. intro H. rewrite live_items_from. apply (nth_live_rank l 0 h x H). Qed.

Lemma rank_lt_live {X} (l : list (option X)) h x : slot l h = Some x -> rank l h < length (live_items l).
Proof. intro H. apply nth_error_Some. rewrite (nth_live_items l h x H). discriminate. Qed.

Lemma rank_mono {X} (l : list (option X)) h1 h2 x : h1 < h2 -> slot l h1 = Some x -> rank l h1 < rank l h2.
Proof.
  unfold rank. revert h1 h2. induction l as [|o l IH]; intros h1 h2 Hlt Hs.
  - unfold slot in Hs. destruct h1; discriminate.
  - destruct h2 as [|h2]; [lia|]. destruct h1 as [|h1].
    + unfold slot in Hs. cbn [nth] in Hs. subst o. cbn [firstn filter is_some length]. lia.
    + change (slot (o :: l) (S h1)) with (slot l h1) in Hs. cbn [firstn filter].
      assert (h1 < h2) as Hlt' by lia. specialize (IH h1 h2 Hlt' Hs).
      destruct o; cbn [is_some length]; lia.
Qed.

Lemma index_of_nth l : NoDup l -> forall i v, nth_error l i = Some v -> index_of v l = Some i.
Proof.
  induction l as [|x l IH]; intros Hnd i v H; [destruct i; discriminate|].
  inversion Hnd as [|? ? Hn Hnd']. subst. destruct i as [|i]; cbn [nth_error] in H.
  - injection H as ->. cbn [index_of]. rewrite Nat.eqb_refl. reflexivity.
  - cbn [index_of]. destruct (Nat.eqb_spec x v) as [->|Hne].
    + exfalso. apply Hn. eapply nth_error_In. exact H.
    + rewrite (IH Hnd' i v H). reflexivity.
Qed.

Lemma slot_map_some {X} (l : list X) i x : nth_error l i = Some x -> slot (map Some l) i = Some x.
Proof.
  revert i. induction l as [|y l IH]; intros i H; [destruct i; discriminate|].
  destruct i as [|i]; cbn [nth_error] in H.
  - injection H as ->. reflexivity.
  - apply (IH i H).
Qed.

Lemma slot_map_some_inv {X} (l : list X) i x : slot (map Some l) i = Some x -> nth_error l i = Some x.
Proof.
  revert i. induction l as [|y l IH]; intros i H; [unfold slot in H; destruct i; discriminate|].
  destruct i as [|i].
  - unfold slot in H. cbn [map nth] in H. injection H as ->. reflexivity.
  - apply (IH i H).
Qed.

Lemma Forall2_nth {A B} (R : A -> B -> Prop) l1 l2 : Forall2 R l1 l2 ->
  forall i a, nth_error l1 i = Some a -> exists b, nth_error l2 i = Some b /\ R a b.
Proof.
  induction 1 as [|x y l1 l2 Hxy _ IH]; intros i a Hi; [destruct i; discriminate|].
  destruct i as [|i]; cbn [nth_error] in *.
  - injection Hi as <-. exists y. split; [reflexivity|exact Hxy].
  - apply IH. exact Hi.
Qed.

Lemma Forall2_nth_r {A B} (R : A -> B -> Prop) l1 l2 : Forall2 R l1 l2 ->
  forall i b, nth_error l2 i = Some b -> exists a, nth_error l1 i = Some a /\ R a b.
Proof.
  induction 1 as [|x y l1 l2 Hxy _ IH]; intros i b Hi; [destruct i; discriminate|].
  destruct i as [|i]; cbn [nth_error] in *.
  - injection Hi as <-. exists x. split; [reflexivity|exact Hxy].
  - apply IH. exact Hi.
Qed.

Lemma slot_map_some_gen {X Y} (f : X -> option Y) (l : list X) i x : nth_error l i = Some x -> slot (map f l) i = f x.
Proof.
  revert i. induction l as [|y l IH]; intros i H; [destruct i; discriminate|].
  destruct i as [|i]; cbn [nth_error] in H.
  - injection H as ->. reflexivity.
  - apply (IH i H).
Qed.

(** * a loaded data set answers the lookups of the original, by rank *)

Lemma Forall2_len {A B} (R : A -> B -> Prop) l1 l2 : Forall2 R l1 l2 -> length l1 = length l2.
Proof. induction 1; [reflexivity|]. cbn [length]. f_equal. assumption. Qed.

Lemma map_all_some {X Y} (f : X -> option Y) (xs : list X) : (forall x, In x xs -> exists y, f x = Some y) ->
  exists ys, map f xs = map Some ys /\ length ys = length xs.
Proof.
  induction xs as [|x xs IH]; intro H; [exists []; split; reflexivity|].
  destruct (H x (or_introl eq_refl)) as (y & Hy). destruct (IH (fun x' Hx' => H x' (or_intror Hx'))) as (ys & E & L).
  exists (y :: ys). cbn [map length]. rewrite Hy, E, L. split; reflexivity.
Qed.

Definition set_rel (ds d' : dset) : Prop :=
  d_id d' = d_id ds
  /\ (exists ks', d_keys d' = map Some ks' /\ length ks' = length (live_items (d_keys ds)))
  /\ (exists ys, d_data d' = map Some ys /\ length ys = length (live_items (d_data ds)))
  /\ content_set d' = content_set ds
  /\ (forall k kt, slot (d_keys ds) k = Some kt -> ref_key d' (ById kt) = Some (rank (d_keys ds) k))
  /\ (forall x it t, slot (d_data ds) x = Some it -> x_id it = Some t -> ref_data d' (ById t) = Some (rank (d_data ds) x)).

Lemma load_set_rel ds rows : dset_ok ds -> save_set ds = Some rows ->
  exists d', load_set (name_set (d_id ds)) rows = Some d' /\ set_rel ds d'.
Proof.
  intros Hok Hs. destruct (load_set_struct ds rows Hok Hs) as (d' & xs & Hl & HD & Hx & Hrel & Hid).
  exists d'. split; [exact Hl|].
  destruct Hok as (_ & Hnd & _ & Hids & Hndx).
  split; [exact Hid|].
  split. { exists (map snd (live_items (d_keys ds))). split; [apply HD|apply map_length]. }
  split.
  { destruct HD as (_ & Hd & _). rewrite Hd.
    destruct (map_all_some (item_of (map snd (live_items (d_keys ds)))) xs) as (ys & E & L).
    - intros x Hxin. rewrite Forall_forall in Hx. destruct (Hx x Hxin) as (_ & _ & i & Hi). unfold item_of. rewrite Hi. eexists. reflexivity.
    - exists ys. split; [exact E|]. rewrite L. symmetry. apply (Forall2_len _ _ _ Hrel). }
  split.
  { rewrite (content_loaded d' _ xs HD Hx), (content_original ds xs Hnd Hrel), Hid. reflexivity. }
  destruct HD as ((Hk1 & Hk2) & Hd & Hxi).
  split.
  - intros k kt Hk. unfold ref_key, resolve_ref. rewrite Hk2.
    pose proof Hnd as Hnd'. rewrite live_items_from in Hnd'.
    pose proof (rank_live_from (d_keys ds) 0 k kt Hk Hnd') as Hi. rewrite <- live_items_from in Hi. rewrite Hi.
    rewrite Hk1. pose proof (nth_live_items (d_keys ds) k kt Hk) as Hn.
    rewrite (slot_map_some _ _ kt); [reflexivity|].
    rewrite nth_error_map, Hn. reflexivity.
  - intros x it t Hs' Ht. unfold ref_data, resolve_ref. rewrite Hxi.
    pose proof (nth_live_items (d_data ds) x it Hs') as Hn.
    destruct (Forall2_nth _ _ _ Hrel _ _ Hn) as (x' & Hn' & (R1 & R2 & R3)). cbn [snd] in R1.
    assert (fst (fst x') = t) as Et by congruence.
    assert (NoDup (map (fun x0 : nat * nat * str => fst (fst x0)) xs)) as Hndt.
    { apply NoDup_map_some. rewrite map_map. rewrite <- (rel_tokens ds _ _ Hrel). exact Hndx. }
    rewrite (index_of_nth _ Hndt (rank (d_data ds) x) t).
    2:{ rewrite nth_error_map, Hn'. cbn [option_map]. rewrite Et. reflexivity. }
    rewrite Hd. rewrite Forall_forall in Hx. destruct (Hx x' (nth_error_In _ _ Hn')) as (_ & _ & i & Hi).
    rewrite (slot_map_some_gen (item_of _) xs _ x' Hn'). unfold item_of. rewrite Hi. reflexivity.
Qed.

(** * phase 1: the data sets *)

Definition set_file (hd : nat * dset) : option (str * list datarow) :=
  match save_set (snd hd) with
  | Some rows => Some (name_set (d_id (snd hd)), rows)
  | None => None
  end.

Definition load_set_step (acc : option store) (ir : str * list datarow) : option store :=
  match acc with
  | Some s => match load_set (fst ir) (snd ir) with
              | Some d => store_add_loaded_set s d
              | None => None
              end
  | None => None
  end.

Lemma load_sets_gen LSsuf : forall LSpre Dpre s0 fs,
  sets s0 = map Some Dpre -> exact did (sets s0) (sidx s0) ->
  Forall2 (fun hd d' => set_rel (snd hd) d') LSpre Dpre ->
  NoDup (map (fun hd : nat * dset => d_id (snd hd)) (LSpre ++ LSsuf)) ->
  (forall hd, In hd LSsuf -> dset_ok (snd hd)) ->
  map_opt set_file LSsuf = Some fs ->
  exists Dsuf s1, fold_left load_set_step fs (Some s0) = Some s1
    /\ sets s1 = map Some (Dpre ++ Dsuf) /\ Forall2 (fun hd d' => set_rel (snd hd) d') LSsuf Dsuf
    /\ exact did (sets s1) (sidx s1)
    /\ anns s1 = anns s0 /\ ress s1 = ress s0 /\ aidx s1 = aidx s0 /\ ridx s1 = ridx s0.
Proof.
  induction LSsuf as [|hd LSsuf IH]; intros LSpre Dpre s0 fs Hsets Hex Hrel Hnd Hok Hfs.
  - injection Hfs as <-. exists [], s0. rewrite app_nil_r. split; [reflexivity|]. split; [exact Hsets|].
    split; [constructor|]. split; [exact Hex|]. repeat split.
  - cbn [map_opt] in Hfs. destruct (set_file hd) as [ir|] eqn:Ef; [|discriminate].
    destruct (map_opt set_file LSsuf) as [fs'|] eqn:Efs; [|discriminate]. injection Hfs as <-.
    unfold set_file in Ef. destruct (save_set (snd hd)) as [rows|] eqn:Es; [|discriminate]. injection Ef as <-.
    destruct (load_set_rel (snd hd) rows (Hok hd (or_introl eq_refl)) Es) as (d' & Hl & Hr).
    cbn [fold_left load_set_step fst snd]. rewrite Hl.
    (* the id is new *)
    assert (id_get (sidx s0) (d_id d') = None) as Hfresh.
    { destruct (id_get (sidx s0) (d_id d')) as [i|] eqn:Ei; [|reflexivity]. exfalso.
      apply Hex in Ei. destruct Ei as (dj & Hj & Hidj). rewrite Hsets in Hj. apply slot_map_some_inv in Hj.
      destruct (Forall2_nth_r _ _ _ Hrel _ _ Hj) as (hdj & Hn & Rj). cbn in Rj.
      destruct Rj as (Eid & _). destruct Hr as (Eid' & _). unfold did in Hidj. injection Hidj as Hidj.
      rewrite map_app in Hnd. cbn [map] in Hnd. apply NoDup_remove_2 in Hnd. apply Hnd.
      apply in_or_app. left. apply in_map_iff. exists hdj. split; [congruence|eapply nth_error_In; exact Hn]. }
    unfold store_add_loaded_set. rewrite Hfresh.
    set (s0' := set_sidx (set_sets s0 (sets s0 ++ [Some d'])) (id_put (sidx s0) (d_id d') (length (sets s0)))).
    destruct (IH (LSpre ++ [hd]) (Dpre ++ [d']) s0' fs') as (Dsuf & s1 & Hf & H1 & H2 & H3 & H4 & H5 & H6 & H7).
    + unfold s0'. cbn [set_sidx set_sets sets]. rewrite Hsets, map_app. reflexivity.
    + unfold s0'. cbn [set_sidx set_sets sets sidx].
      pose proof (exact_app did (sets s0) (sidx s0) d' Hex) as Ha. cbn [did] in Ha. apply Ha.
      intros tok Ht. injection Ht as <-. exact Hfresh.
    + apply Forall2_app; [exact Hrel|]. constructor; [exact Hr|constructor].
    + rewrite <- app_assoc. exact Hnd.
    + intros hd' Hin. apply Hok. right. exact Hin.
    + reflexivity.
    + exists (d' :: Dsuf), s1. rewrite <- app_assoc in H1. split; [exact Hf|]. split; [exact H1|].
      split; [constructor; [exact Hr|exact H2]|]. split; [exact H3|].
      unfold s0' in H4, H5, H6, H7. cbn in H4, H5, H6, H7. repeat split; assumption.
Qed.

(** * phase 2: the resources *)

Definition load_res_step (acc : option store) (ir : str * nat) : option store :=
  match acc with
  | Some s => match parse_tok 114%N (fst ir) with
              | Some tok => match add_res s tok (snd ir) with
                            | (s', OOk _) => Some s'
                            | _ => None
                            end
              | None => None
              end
  | None => None
  end.

Definition res_file (hr : nat * res) : str * nat := (name_res (r_id (snd hr)), r_len (snd hr)).
Definition fresh_res (hr : nat * res) : res := mkres (r_id (snd hr)) (r_len (snd hr)) [].

Lemma load_ress_gen LRsuf : forall LRpre Rpre s0,
  ress s0 = map Some Rpre -> exact rid (ress s0) (ridx s0) ->
  map r_id Rpre = map (fun hr : nat * res => r_id (snd hr)) LRpre ->
  NoDup (map (fun hr : nat * res => r_id (snd hr)) (LRpre ++ LRsuf)) ->
  (forall hr, In hr LRsuf -> tok_fits (r_id (snd hr))) ->
  exists s1, fold_left load_res_step (map res_file LRsuf) (Some s0) = Some s1
    /\ ress s1 = map Some (Rpre ++ map fresh_res LRsuf)
    /\ exact rid (ress s1) (ridx s1)
    /\ anns s1 = anns s0 /\ sets s1 = sets s0 /\ aidx s1 = aidx s0 /\ sidx s1 = sidx s0.
Proof.
  induction LRsuf as [|hr LRsuf IH]; intros LRpre Rpre s0 Hress Hex Hids Hnd Hfit.
  - exists s0. cbn [map]. rewrite app_nil_r. split; [reflexivity|]. split; [exact Hress|]. split; [exact Hex|]. repeat split.
  - cbn [map fold_left]. unfold load_res_step at 2. unfold res_file at 2. cbn [fst snd].
    unfold name_res. rewrite parse_tok_name by (apply Hfit; left; reflexivity).
    assert (id_get (ridx s0) (r_id (snd hr)) = None) as Hfresh.
    { destruct (id_get (ridx s0) (r_id (snd hr))) as [i|] eqn:Ei; [|reflexivity]. exfalso.
      apply Hex in Ei. destruct Ei as (rj & Hj & Hidj). rewrite Hress in Hj. apply slot_map_some_inv in Hj.
      unfold rid in Hidj. injection Hidj as Hidj.
      rewrite map_app in Hnd. cbn [map] in Hnd. apply NoDup_remove_2 in Hnd. apply Hnd.
      apply in_or_app. left. rewrite <- Hids. rewrite <- Hidj. apply in_map. eapply nth_error_In. exact Hj. }
    unfold add_res. rewrite Hfresh.
    set (s0' := set_ridx (set_ress s0 (ress s0 ++ [Some (mkres (r_id (snd hr)) (r_len (snd hr)) [])]))
                         (id_put (ridx s0) (r_id (snd hr)) (length (ress s0)))).
    destruct (IH (LRpre ++ [hr]) (Rpre ++ [fresh_res hr]) s0') as (s1 & Hf & H1 & H2 & H3 & H4 & H5 & H6).
    + unfold s0'. cbn [set_ridx set_ress ress]. rewrite Hress, map_app. reflexivity.
    + unfold s0'. cbn [set_ridx set_ress ress ridx].
      pose proof (exact_app rid (ress s0) (ridx s0) (mkres (r_id (snd hr)) (r_len (snd hr)) []) Hex) as Ha.
      cbn [rid r_id] in Ha. apply Ha. intros tok Ht. injection Ht as <-. exact Hfresh.
    + rewrite !map_app, Hids. reflexivity.
    + rewrite <- app_assoc. exact Hnd.
    + intros hr' Hin. apply Hfit. right. exact Hin.
    + exists s1. rewrite <- app_assoc in H1. split; [exact Hf|]. split; [exact H1|]. split; [exact H2|].
      unfold s0' in H3, H4, H5, H6. cbn in H3, H4, H5, H6. repeat split; assumption.
Qed.

(** * phase 3: the annotation rows.  The simulation relation *)

Definition sel_at (s : store) (r t : nat) : option (nat * nat) :=
  match get_res s r with Some rs => nth_error (r_sels rs) t | None => None end.

Definition leaf_rel (s s' : store) (lf lf' : leaf) : Prop :=
  match lf, lf' with
  | LText r t _, LText r' t' _ =>
      r' = rank (ress s) r /\ exists rg, sel_at s r t = Some rg /\ sel_at s' r' t' = Some rg
  | LAnn a, LAnn a' => a' = rank (anns s) a
  | LAnnText a r t _, LAnnText a' r' t' _ =>
      a' = rank (anns s) a /\ r' = rank (ress s) r /\ exists rg, sel_at s r t = Some rg /\ sel_at s' r' t' = Some rg
  | LRes r, LRes r' => r' = rank (ress s) r
  | LSet d, LSet d' => d' = rank (sets s) d
  | LKey d k, LKey d' k' => d' = rank (sets s) d /\ k' = set_rank_in s d (fun ds => rank (d_keys ds) k)
  | LData d x, LData d' x' => d' = rank (sets s) d /\ x' = set_rank_in s d (fun ds => rank (d_data ds) x)
  | _, _ => False
  end.

Definition data_ren (s : store) (dx : nat * nat) : nat * nat :=
  (rank (sets s) (fst dx), set_rank_in s (fst dx) (fun ds => rank (d_data ds) (snd dx))).

Definition ann_rel (s s' : store) (a a' : ann) : Prop :=
  a_id a' = a_id a /\ a_kind a' = a_kind a /\ a_data a' = map (data_ren s) (a_data a)
  /\ Forall2 (leaf_rel s s') (a_leaves a) (a_leaves a').

Definition res_rel (rs rs' : res) : Prop := r_id rs' = r_id rs /\ r_len rs' = r_len rs.

(* the first n live items of the original are the slots 0..n-1 of the loaded store *)
Definition tab {X Y} (LX : list (nat * X)) (l' : list (option Y)) (n : nat) (R : X -> Y -> Prop) : Prop :=
  length l' = n /\ n <= length LX
  /\ forall i hx, i < n -> nth_error LX i = Some hx -> exists y, slot l' i = Some y /\ R (snd hx) y.

Record Env (s s' : store) (n : nat) : Prop := mkEnv {
  E_sets : tab (live_items (sets s)) (sets s') (length (live_items (sets s))) set_rel;
  E_sidx : exact did (sets s') (sidx s');
  E_ress : tab (live_items (ress s)) (ress s') (length (live_items (ress s))) res_rel;
  E_ridx : exact rid (ress s') (ridx s');
  E_anns : tab (live_items (anns s)) (anns s') n (ann_rel s s');
  E_aidx : exact a_id (anns s') (aidx s')
}.

Lemma tab_get {X Y} (LX : list (nat * X)) (l : list (option X)) (l' : list (option Y)) n R h x :
  LX = live_items l -> tab LX l' n R -> slot l h = Some x -> rank l h < n ->
  exists y, slot l' (rank l h) = Some y /\ R x y.
Proof.
  intros -> (_ & _ & H) Hs Hlt. destruct (H (rank l h) (h, x) Hlt (nth_live_items l h x Hs)) as (y & Hy & Hr).
  exists y. split; assumption.
Qed.

Lemma env_res s s' n r rs : Env s s' n -> get_res s r = Some rs ->
  exists rs', get_res s' (rank (ress s) r) = Some rs' /\ res_rel rs rs'
              /\ ref_res s' (ById (r_id rs)) = Some (rank (ress s) r).
Proof.
  intros E Hr. destruct (tab_get _ (ress s) (ress s') _ _ r rs eq_refl (E_ress _ _ _ E) Hr (rank_lt_live _ _ _ Hr)) as (rs' & Hs & Hrel).
  exists rs'. split; [exact Hs|]. split; [exact Hrel|].
  destruct Hrel as [Hid _]. apply (exact_get rid _ _ _ rs' (r_id rs) (E_ridx _ _ _ E) Hs). unfold rid. rewrite Hid. reflexivity.
Qed.

Lemma env_set s s' n d ds : Env s s' n -> get_set s d = Some ds ->
  exists d', get_set s' (rank (sets s) d) = Some d' /\ set_rel ds d'
             /\ ref_set s' (ById (d_id ds)) = Some (rank (sets s) d).
Proof.
  intros E Hd. destruct (tab_get _ (sets s) (sets s') _ _ d ds eq_refl (E_sets _ _ _ E) Hd (rank_lt_live _ _ _ Hd)) as (d' & Hs & Hrel).
  exists d'. split; [exact Hs|]. split; [exact Hrel|].
  destruct Hrel as [Hid _]. apply (exact_get did _ _ _ d' (d_id ds) (E_sidx _ _ _ E) Hs). unfold did. rewrite Hid. reflexivity.
Qed.

Lemma env_ann s s' n a0 an t : Env s s' n -> get_ann s a0 = Some an -> a_id an = Some t -> rank (anns s) a0 < n ->
  exists an', get_ann s' (rank (anns s) a0) = Some an' /\ ann_rel s s' an an'
              /\ ref_ann s' (ById t) = Some (rank (anns s) a0).
Proof.
  intros E Ha Ht Hlt. destruct (tab_get _ (anns s) (anns s') _ _ a0 an eq_refl (E_anns _ _ _ E) Ha Hlt) as (an' & Hs & Hrel).
  exists an'. split; [exact Hs|]. split; [exact Hrel|].
  destruct Hrel as [Hid _]. apply (exact_get a_id _ _ _ an' t (E_aidx _ _ _ E) Hs). rewrite Hid. exact Ht.
Qed.

(** * interning a text selection in the store being loaded *)

Definition res_ext (o o' : option res) : Prop :=
  match o, o' with
  | None, None => True
  | Some a, Some b => r_id b = r_id a /\ r_len b = r_len a /\ exists ext, r_sels b = r_sels a ++ ext
  | _, _ => False
  end.

Record Ext (s' s'' : store) : Prop := mkExt {
  X_sets : sets s'' = sets s';
  X_sidx : sidx s'' = sidx s';
  X_ridx : ridx s'' = ridx s';
  X_anns : anns s'' = anns s';
  X_aidx : aidx s'' = aidx s';
  X_len : length (ress s'') = length (ress s');
  X_res : forall r, res_ext (get_res s' r) (get_res s'' r)
}.

Lemma Ext_refl s : Ext s s.
Proof.
  constructor; try reflexivity. intro r. unfold res_ext. destruct (get_res s r); [|exact I].
  repeat split. exists []. rewrite app_nil_r. reflexivity.
Qed.

Lemma Ext_trans s1 s2 s3 : Ext s1 s2 -> Ext s2 s3 -> Ext s1 s3.
Proof.
  intros A B. constructor; try (etransitivity; [apply B|apply A]).
  intro r. pose proof (X_res _ _ A r) as H1. pose proof (X_res _ _ B r) as H2. unfold res_ext in *.
  destruct (get_res s1 r), (get_res s2 r), (get_res s3 r); try tauto.
  destruct H1 as (a1 & a2 & e1 & a3). destruct H2 as (b1 & b2 & e2 & b3).
  repeat split; try congruence. exists (e1 ++ e2). rewrite b3, a3, app_assoc. reflexivity.
Qed.

Lemma set_slot_len {X} (l : list (option X)) : forall h v, length (set_slot l h v) = length l.
Proof. induction l as [|x l IH]; intros h v; [reflexivity|]. destruct h; cbn [set_slot length]; [reflexivity|]. rewrite IH. reflexivity. Qed.

Lemma find_sel_sound l rg : forall i t, find_sel l rg i = Some t -> exists j, t = i + j /\ nth_error l j = Some rg.
Proof.
  induction l as [|u l IH]; intros i t H; [discriminate|]. cbn [find_sel] in H.
  destruct (Nat.eqb (fst u) (fst rg) && Nat.eqb (snd u) (snd rg)) eqn:E.
  - injection H as <-. exists 0. split; [lia|]. apply andb_prop in E. destruct E as [E1 E2]. apply Nat.eqb_eq in E1, E2.
    destruct u, rg. cbn [fst snd] in *. subst. reflexivity.
  - destruct (IH (S i) t H) as (j & -> & Hn). exists (S j). split; [lia|exact Hn].
Qed.

Lemma intern_sel_spec s' r' rs' rg : get_res s' r' = Some rs' ->
  exists s'' t' rs'', intern_sel s' r' rs' rg = (s'', t') /\ get_res s'' r' = Some rs''
                      /\ nth_error (r_sels rs'') t' = Some rg /\ Ext s' s''.
Proof.
  intro Hr. unfold intern_sel. destruct (find_sel (r_sels rs') rg 0) as [t|] eqn:Ef.
  - destruct (find_sel_sound _ _ _ _ Ef) as (j & -> & Hn). exists s', (0 + j), rs'.
    split; [reflexivity|]. split; [exact Hr|]. split; [exact Hn|apply Ext_refl].
  - eexists _, _, (mkres (r_id rs') (r_len rs') (r_sels rs' ++ [rg])). split; [reflexivity|].
    pose proof (slot_lt _ _ _ Hr) as Hlt.
    assert (forall r, get_res (set_ress s' (set_slot (ress s') r' (Some (mkres (r_id rs') (r_len rs') (r_sels rs' ++ [rg]))))) r
                      = if Nat.eqb r r' then Some (mkres (r_id rs') (r_len rs') (r_sels rs' ++ [rg])) else get_res s' r) as Hg.
    { intro r. unfold get_res. cbn [set_ress ress]. rewrite slot_set_slot.
      destruct (Nat.eqb_spec r r') as [->|Hne]; cbn [andb]; [|reflexivity].
      destruct (Nat.ltb_spec r' (length (ress s'))); [reflexivity|lia]. }
    split; [rewrite Hg, Nat.eqb_refl; reflexivity|]. split.
    + cbn [r_sels]. rewrite nth_error_app2 by lia. rewrite Nat.sub_diag. reflexivity.
    + constructor; try reflexivity.
      * cbn [set_ress ress]. apply set_slot_len.
      * intro r. rewrite Hg. destruct (Nat.eqb_spec r r') as [->|Hne].
        -- unfold get_res in Hr. unfold get_res. rewrite Hr. cbn [res_ext r_id r_len r_sels]. repeat split. exists [rg]. reflexivity.
        -- unfold res_ext. destruct (get_res s' r); [|exact I]. repeat split. exists []. rewrite app_nil_r. reflexivity.
Qed.

Lemma sel_at_ext s' s'' r t rg : Ext s' s'' -> sel_at s' r t = Some rg -> sel_at s'' r t = Some rg.
Proof.
  intros X H. unfold sel_at in *. pose proof (X_res _ _ X r) as Hr. unfold res_ext in Hr.
  destruct (get_res s' r) as [a|]; [|discriminate]. destruct (get_res s'' r) as [b|]; [|contradiction].
  destruct Hr as (_ & _ & ext & ->). rewrite nth_error_app1; [exact H|]. apply nth_error_Some. rewrite H. discriminate.
Qed.

Lemma leaf_rel_ext s s' s'' lf lf' : Ext s' s'' -> leaf_rel s s' lf lf' -> leaf_rel s s'' lf lf'.
Proof.
  intros X H. destruct lf, lf'; cbn [leaf_rel] in *; try exact H.
  - destruct H as (H1 & rg & H2 & H3). split; [exact H1|]. exists rg. split; [exact H2|]. apply (sel_at_ext _ _ _ _ _ X H3).
  - destruct H as (H0 & H1 & rg & H2 & H3). split; [exact H0|]. split; [exact H1|]. exists rg. split; [exact H2|].
    apply (sel_at_ext _ _ _ _ _ X H3).
Qed.

Lemma ann_rel_ext s s' s'' a a' : Ext s' s'' -> ann_rel s s' a a' -> ann_rel s s'' a a'.
Proof.
  intros X (H1 & H2 & H3 & H4). repeat split; try assumption.
  induction H4 as [|lf lf' l l' Hl _ IH]; constructor; [apply (leaf_rel_ext _ _ _ _ _ X Hl)|exact IH].
Qed.

Lemma Env_ext s s' s'' n : Env s s' n -> Ext s' s'' -> Env s s'' n.
Proof.
  intros E X. constructor.
  - rewrite (X_sets _ _ X). apply (E_sets _ _ _ E).
  - rewrite (X_sets _ _ X), (X_sidx _ _ X). apply (E_sidx _ _ _ E).
  - destruct (E_ress _ _ _ E) as (H1 & H2 & H3). split; [rewrite (X_len _ _ X); exact H1|]. split; [exact H2|].
    intros i hx Hi Hn. destruct (H3 i hx Hi Hn) as (y & Hy & (R1 & R2)).
    pose proof (X_res _ _ X i) as Hr. unfold res_ext, get_res in Hr. rewrite Hy in Hr.
    destruct (slot (ress s'') i) as [b|]; [|contradiction]. destruct Hr as (Q1 & Q2 & _).
    exists b. split; [reflexivity|]. split; congruence.
  - rewrite (X_ridx _ _ X). pose proof (E_ridx _ _ _ E) as Hex. intros tok h. rewrite (Hex tok h).
    pose proof (X_res _ _ X h) as Hr. unfold res_ext, get_res in Hr. split; intros (it & Hs & Hi).
    + rewrite Hs in Hr. destruct (slot (ress s'') h) as [b|]; [|contradiction]. destruct Hr as (Q1 & _).
      exists b. split; [reflexivity|]. unfold rid in *. congruence.
    + rewrite Hs in Hr. destruct (slot (ress s') h) as [a|]; [|contradiction]. destruct Hr as (Q1 & _).
      exists a. split; [reflexivity|]. unfold rid in *. congruence.
  - rewrite (X_anns _ _ X). destruct (E_anns _ _ _ E) as (H1 & H2 & H3). split; [exact H1|]. split; [exact H2|].
    intros i hx Hi Hn. destruct (H3 i hx Hi Hn) as (y & Hy & Hr). exists y. split; [exact Hy|]. apply (ann_rel_ext _ _ _ _ _ X Hr).
  - rewrite (X_anns _ _ X), (X_aidx _ _ X). apply (E_aidx _ _ _ E).
Qed.

(** * the conditions on the original store *)

Record Good (s : store) : Prop := mkGood {
  G_id : IdInv s;
  G_sets : SetsInv s;
  G_ok : store_ok s = true;
  G_fit : ids_fit s;
  G_aid : forall h a, get_ann s h = Some a -> exists t, a_id a = Some t;
  G_xid : forall d ds x it, get_set s d = Some ds -> slot (d_data ds) x = Some it -> exists t, x_id it = Some t;
  G_shape : forall h a, get_ann s h = Some a -> shape_ok a;
  G_back : forall h a lf, get_ann s h = Some a -> In lf (a_leaves a) ->
           match lf with LAnn a0 | LAnnText a0 _ _ _ => a0 < h | _ => True end;
  G_dsok : forall d ds, get_set s d = Some ds -> dset_ok ds
}.

Lemma ann_textsel_rel s s' an an' r tp prg : ann_rel s s' an an' -> ann_textsel s an = Some (r, tp, prg) ->
  exists tp', ann_textsel s' an' = Some (rank (ress s) r, tp', prg).
Proof.
  intros (_ & Hk & _ & Hl) H. unfold ann_textsel in *. rewrite Hk.
  destruct (a_kind an); [|discriminate].
  destruct (a_leaves an) as [|lf [|lf2 l]]; try discriminate; [|destruct lf; discriminate].
  inversion Hl as [|? lf' ? l' Hlf Hnil]. subst. inversion Hnil. subst.
  destruct lf as [r0 t0 m0|a0|a0 r0 t0 m0|r0|d0|d0 k0|d0 x0]; try discriminate.
  - destruct (get_res s r0) as [rs|] eqn:Er; [|discriminate].
    destruct (nth_error (r_sels rs) t0) as [rg|] eqn:Et; [|discriminate]. injection H as <- <- <-.
    destruct lf'; cbn [leaf_rel] in Hlf; try contradiction. destruct Hlf as (-> & rg' & S1 & S2).
    unfold sel_at in S1, S2. rewrite Er, Et in S1. injection S1 as <-.
    destruct (get_res s' (rank (ress s) r0)) as [rs'|]; [|discriminate]. rewrite S2. eexists. reflexivity.
  - destruct (get_res s r0) as [rs|] eqn:Er; [|discriminate].
    destruct (nth_error (r_sels rs) t0) as [rg|] eqn:Et; [|discriminate]. injection H as <- <- <-.
    destruct lf'; cbn [leaf_rel] in Hlf; try contradiction. destruct Hlf as (_ & -> & rg' & S1 & S2).
    unfold sel_at in S1, S2. rewrite Er, Et in S1. injection S1 as <-.
    destruct (get_res s' (rank (ress s) r0)) as [rs'|]; [|discriminate]. rewrite S2. eexists. reflexivity.
Qed.

Lemma leaf_load s s' n h a lf b : Good s -> Env s s' n -> get_ann s h = Some a -> rank (anns s) h = n ->
  In lf (a_leaves a) -> leaf_build s lf = Some b ->
  exists sb lf' s'', simple_of_loader b = Some sb /\ resolve_simple s' sb = (s'', Some lf')
                     /\ leaf_rel s s'' lf lf' /\ Ext s' s''.
Proof.
  intros G E Ha Hn Hlf Hb.
  pose proof (G_id _ G) as Hid. pose proof (G_sets _ G) as Hsets. pose proof (G_ok _ G) as Hok.
  destruct (G_fit _ G) as (Fa & Fr & Fs).
  destruct lf as [r t m|a0|a0 r t m|r|d|d k|d x]; cbn [leaf_build] in Hb.
  - (* text *)
    destruct (get_res s r) as [rs|] eqn:Er; [|discriminate].
    destruct (nth_error (r_sels rs) t) as [[b0 e0]|] eqn:Et; [|discriminate].
    remember (report_resource (r_len rs) (b0, e0) (mode_of_nat m)) as o eqn:Eo. cbv zeta in Hb. injection Hb as <-.
    destruct (store_ok_res s r rs Hok Er) as [Hf Hs].
    destruct (Hs (b0, e0) (nth_error_In _ _ Et)) as [H1 H2]. cbn [fst snd] in H1, H2.
    destruct (res_ref_ok s r rs Hid Er (Fr r rs Er)) as [N1 _].
    destruct (env_res s s' n r rs E Er) as (rs' & Gr' & (Rid & Rlen) & N2).
    destruct (Proofs.Offset.report_resource_spec (r_len rs) b0 e0 (mode_of_nat m) H1 H2) as (Eq & _ & _ & _ & R).
    destruct (intern_sel_spec s' (rank (ress s) r) rs' (b0, e0) Gr') as (s'' & t' & rs'' & Hi & Gr'' & Ht'' & X).
    eexists _, (LText (rank (ress s) r) t' _), s''. cbn [simple_of_loader]. rewrite N1. cbn [option_map]. split; [reflexivity|].
    cbn [resolve_simple]. rewrite N2, Gr'. rewrite !ocur_lcur.
    replace (mkoff (o_begin o) (o_end o)) with o by (destruct o; reflexivity).
    rewrite Rlen, Eo, Eq, R, Hi. split; [reflexivity|]. split; [|exact X].
    cbn [leaf_rel]. split; [reflexivity|]. exists (b0, e0). unfold sel_at. rewrite Er, Gr''. split; assumption.
  - (* annotation *)
    destruct (get_ann s a0) as [an|] eqn:Ea; [|discriminate]. injection Hb as <-.
    destruct (G_aid _ G a0 an Ea) as (t0 & Et0).
    destruct (Fa a0 an Ea) as [_ Ff2].
    pose proof (G_back _ G h a _ Ha Hlf) as Hlt. cbn in Hlt.
    assert (rank (anns s) a0 < n) as Hrk by (rewrite <- Hn; apply (rank_mono _ _ _ an Hlt Ea)).
    destruct (env_ann s s' n a0 an t0 E Ea Et0 Hrk) as (an' & Ga' & Rel & N2).
    eexists _, (LAnn (rank (anns s) a0)), s'. cbn [simple_of_loader]. unfold ann_ident. rewrite Et0.
    unfold name_ann. rewrite ref_of_plain_name by (reflexivity || apply Ff2; exact Et0). cbn [option_map]. split; [reflexivity|].
    cbn [resolve_simple]. rewrite N2. split; [reflexivity|]. split; [reflexivity|apply Ext_refl].
  - (* annotation with a relative offset *)
    destruct (get_ann s a0) as [an|] eqn:Ea; [|discriminate].
    destruct (get_res s r) as [rs|] eqn:Er; [|discriminate].
    destruct (nth_error (r_sels rs) t) as [[b0 e0]|] eqn:Et; [|discriminate]. injection Hb as <-.
    destruct (G_aid _ G a0 an Ea) as (t0 & Et0).
    destruct (Fa a0 an Ea) as [_ Ff2].
    pose proof (G_back _ G h a _ Ha Hlf) as Hlt. cbn in Hlt.
    assert (rank (anns s) a0 < n) as Hrk by (rewrite <- Hn; apply (rank_mono _ _ _ an Hlt Ea)).
    destruct (env_ann s s' n a0 an t0 E Ea Et0 Hrk) as (an' & Ga' & Rel & N2).
    assert (leaf_ok s (LAnnText a0 r t m) = true) as Hl.
    { unfold store_ok in Hok. apply andb_prop in Hok. destruct Hok as [_ Hok'].
      rewrite forallb_forall in Hok'. specialize (Hok' (h, a)). cbn [snd] in Hok'.
      assert (forallb (leaf_ok s) (a_leaves a) = true) as Hall by (apply Hok'; apply live_items_In; exact Ha).
      rewrite forallb_forall in Hall. apply Hall. exact Hlf. }
    cbn [leaf_ok] in Hl. rewrite Ea in Hl.
    destruct (ann_textsel s an) as [[[r0 tp] [pb pe]]|] eqn:Ep; [|discriminate].
    rewrite (sel_range_nth s r rs t _ Er Et) in Hl. cbn [fst snd] in Hl.
    apply andb_prop in Hl. destruct Hl as [Hl H5]. apply andb_prop in Hl. destruct Hl as [H3 H4].
    apply Nat.eqb_eq in H3. subst r0. apply Nat.leb_le in H4, H5.
    destruct (store_ok_res s r rs Hok Er) as [Hf Hs].
    destruct (Hs (b0, e0) (nth_error_In _ _ Et)) as [H6 H7]. cbn [fst snd] in H6, H7.
    destruct (Proofs.Offset.relative_offset_spec pb pe b0 e0 (mode_of_nat m) H4 H6 H5) as (Eq & _ & _ & _ & R).
    cbv zeta in Eq, R.
    destruct (ann_textsel_rel s s' an an' r tp (pb, pe) Rel Ep) as (tp' & Ep').
    destruct (env_res s s' n r rs E Er) as (rs' & Gr' & (Rid & Rlen) & _).
    destruct (intern_sel_spec s' (rank (ress s) r) rs' (b0, e0) Gr') as (s'' & t' & rs'' & Hi & Gr'' & Ht'' & X).
    eexists _, (LAnnText (rank (anns s) a0) (rank (ress s) r) t' _), s''. cbn [simple_of_loader]. unfold ann_ident. rewrite Et0.
    unfold name_ann. rewrite ref_of_plain_name by (reflexivity || apply Ff2; exact Et0). rewrite Eq.
    cbn [option_map off_curs fst snd]. split; [reflexivity|].
    cbn [resolve_simple]. rewrite N2, Ga', Ep'. rewrite !ocur_lcur.
    match goal with |- context [selection_ts _ (mkoff (o_begin ?o) (o_end ?o))] =>
      replace (mkoff (o_begin o) (o_end o)) with o by (destruct o; reflexivity) end.
    rewrite R, Gr', Hi. split; [reflexivity|]. split; [|exact X].
    cbn [leaf_rel]. split; [reflexivity|]. split; [reflexivity|]. exists (b0, e0). unfold sel_at. rewrite Er, Gr''. split; assumption.
  - (* resource *)
    destruct (get_res s r) as [rs|] eqn:Er; [|discriminate]. injection Hb as <-.
    destruct (res_ref_ok s r rs Hid Er (Fr r rs Er)) as [N1 _].
    destruct (env_res s s' n r rs E Er) as (rs' & Gr' & _ & N2).
    eexists _, (LRes (rank (ress s) r)), s'. cbn [simple_of_loader]. rewrite N1. cbn [option_map]. split; [reflexivity|].
    cbn [resolve_simple]. rewrite N2. split; [reflexivity|]. split; [reflexivity|apply Ext_refl].
  - (* data set *)
    destruct (get_set s d) as [ds|] eqn:Ed; [|discriminate]. injection Hb as <-.
    destruct (Fs d ds Ed) as (G1 & _ & _). destruct (set_ref_ok s d ds Hid Ed G1) as [N1 _].
    destruct (env_set s s' n d ds E Ed) as (d' & Gd' & _ & N2).
    eexists _, (LSet (rank (sets s) d)), s'. cbn [simple_of_loader]. rewrite N1. cbn [option_map]. split; [reflexivity|].
    cbn [resolve_simple]. rewrite N2. split; [reflexivity|]. split; [reflexivity|apply Ext_refl].
  - (* key *)
    destruct (get_set s d) as [ds|] eqn:Ed; [|discriminate].
    destruct (slot (d_keys ds) k) as [kt|] eqn:Ek; [|discriminate]. injection Hb as <-.
    destruct (Fs d ds Ed) as (G1 & G2 & _). destruct (set_ref_ok s d ds Hid Ed G1) as [N1 _].
    destruct (env_set s s' n d ds E Ed) as (d' & Gd' & (_ & _ & _ & _ & Rk & _) & N2).
    eexists _, (LKey (rank (sets s) d) (rank (d_keys ds) k)), s'. cbn [simple_of_loader]. rewrite N1.
    unfold name_key. rewrite ref_of_plain_name by (reflexivity || apply (G2 k kt Ek)). split; [reflexivity|].
    cbn [resolve_simple]. rewrite N2, Gd', (Rk k kt Ek). split; [reflexivity|]. split; [|apply Ext_refl].
    cbn [leaf_rel]. unfold set_rank_in. rewrite Ed. split; reflexivity.
  - (* data *)
    destruct (get_set s d) as [ds|] eqn:Ed; [|discriminate].
    destruct (slot (d_data ds) x) as [it|] eqn:Ex; [|discriminate]. injection Hb as <-.
    destruct (Fs d ds Ed) as (G1 & _ & G3). destruct (set_ref_ok s d ds Hid Ed G1) as [N1 _].
    destruct (G3 x it Ex) as [_ G5]. destruct (G_xid _ G d ds x it Ed Ex) as (tx & Etx).
    destruct (env_set s s' n d ds E Ed) as (d' & Gd' & (_ & _ & _ & _ & _ & Rx) & N2).
    eexists _, (LData (rank (sets s) d) (rank (d_data ds) x)), s'. cbn [simple_of_loader]. rewrite N1.
    unfold data_ident. rewrite Etx. unfold name_data. rewrite ref_of_plain_name by (reflexivity || apply (G5 tx Etx)).
    split; [reflexivity|].
    cbn [resolve_simple]. rewrite N2, Gd', (Rx x it tx Ex Etx). split; [reflexivity|]. split; [|apply Ext_refl].
    cbn [leaf_rel]. unfold set_rank_in. rewrite Ed. split; reflexivity.
Qed.

(** * all leaves, the target, the data *)

Lemma leaves_load s n h a : Good s -> get_ann s h = Some a -> rank (anns s) h = n ->
  forall lfs bs s', Env s s' n -> (forall lf, In lf lfs -> In lf (a_leaves a)) -> map_opt (leaf_build s) lfs = Some bs ->
  exists sbs lfs' s'', map_opt simple_of_loader bs = Some sbs /\ resolve_subs s' sbs = (s'', Some lfs')
                       /\ Forall2 (leaf_rel s s'') lfs lfs' /\ Ext s' s''.
Proof.
  intros G Ha Hn. induction lfs as [|lf lfs IH]; intros bs s' E Hsub Hb.
  - injection Hb as <-. exists [], [], s'. repeat split; [constructor|apply Ext_refl].
  - cbn [map_opt] in Hb. destruct (leaf_build s lf) as [b|] eqn:Eb; [|discriminate].
    destruct (map_opt (leaf_build s) lfs) as [bs'|] eqn:Ebs; [|discriminate]. injection Hb as <-.
    destruct (leaf_load s s' n h a lf b G E Ha Hn (Hsub lf (or_introl eq_refl)) Eb) as (sb & lf' & s1 & S1 & S2 & S3 & X1).
    destruct (IH bs' s1 (Env_ext _ _ _ _ E X1) (fun l Hl => Hsub l (or_intror Hl)) eq_refl) as (sbs & lfs' & s2 & T1 & T2 & T3 & X2).
    exists (sb :: sbs), (lf' :: lfs'), s2. cbn [map_opt]. rewrite S1, T1. split; [reflexivity|].
    cbn [resolve_subs]. rewrite S2, T2. split; [reflexivity|]. split; [|apply (Ext_trans _ _ _ X1 X2)].
    constructor; [apply (leaf_rel_ext _ _ _ _ _ X2 S3)|exact T3].
Qed.

Lemma target_load s s' n h a bs : Good s -> Env s s' n -> get_ann s h = Some a -> rank (anns s) h = n ->
  map_opt (leaf_build s) (a_leaves a) = Some bs ->
  exists tb lfs' s'', target_of_loader (target_of (a_kind a) bs) = Some tb
                      /\ resolve_target s' tb = (s'', Some (a_kind a, lfs'))
                      /\ Forall2 (leaf_rel s s'') (a_leaves a) lfs' /\ Ext s' s''.
Proof.
  intros G E Ha Hn Hb. destruct (G_shape _ G h a Ha) as (Hk3 & Hk0).
  destruct (leaves_load s n h a G Ha Hn (a_leaves a) bs s' E (fun _ H => H) Hb) as (sbs & lfs' & s'' & T1 & T2 & T3 & X).
  destruct (a_kind a) as [|k'] eqn:Ek.
  - destruct (Hk0 eq_refl) as (lf & El). rewrite El in *. cbn [map_opt] in Hb.
    destruct (leaf_build s lf) as [b|] eqn:Eb; [|discriminate]. injection Hb as <-.
    cbn [map_opt] in T1. destruct (simple_of_loader b) as [sb|] eqn:Esb; [|discriminate]. injection T1 as <-.
    cbn [resolve_subs] in T2. destruct (resolve_simple s' sb) as [s1 [lf1|]] eqn:Er; [|discriminate].
    injection T2 as -> <-.
    exists sb, [lf1], s''. cbn [target_of]. split.
    + destruct b; try exact Esb. exfalso. exact (leaf_build_not_complex s lf _ Eb _ _ eq_refl).
    + split; [|split; [exact T3|exact X]]. unfold resolve_target. rewrite Er.
      destruct sb; try reflexivity. exfalso. exact (simple_of_loader_not_complex b _ Esb _ _ eq_refl).
  - exists (Store.BComplex (S k') sbs), lfs', s''. cbn [target_of target_of_loader]. rewrite T1. cbn [option_map].
    assert (kind_nat (complex_kind (S k')) = S k') as Ekk by (destruct k' as [|[|[|?]]]; try reflexivity; lia).
    rewrite Ekk. split; [reflexivity|]. cbn [resolve_target]. rewrite T2. split; [reflexivity|]. split; [exact T3|exact X].
Qed.

Lemma set_slot_same {X} (l : list (option X)) : forall h v, slot l h = Some v -> set_slot l h (Some v) = l.
Proof.
  induction l as [|x l IH]; intros h v H; [reflexivity|]. destruct h as [|h].
  - unfold slot in H. cbn [nth] in H. subst x. reflexivity.
  - cbn [set_slot]. f_equal. apply IH. exact H.
Qed.

Lemma set_sets_same s : set_sets s (sets s) = s.
Proof. destruct s. reflexivity. Qed.

Definition existing_data (sd : str * str) : option dbuild :=
  match set_ref_of_name (fst sd), ref_of_name 100%N LETTER_D (snd sd) with
  | Some sr, Some dr => Some (mkdb sr (Some dr) None VNull)
  | _, _ => None
  end.

Lemma data_load s s' n : Good s -> Env s s' n -> forall l ds,
  map_opt (fun dx => match get_set s (fst dx) with
                     | Some dst => match slot (d_data dst) (snd dx) with
                                   | Some it => Some (name_set (d_id dst), data_ident (snd dx) it)
                                   | None => None
                                   end
                     | None => None
                     end) l = Some ds ->
  exists dbs, map_opt existing_data ds = Some dbs /\ insert_datas s' dbs = (s', Some (map (data_ren s) l)).
Proof.
  intros G E. destruct (G_fit _ G) as (_ & _ & Fs).
  induction l as [|dx l IH]; intros ds H.
  - injection H as <-. exists []. split; reflexivity.
  - cbn [map_opt] in H. destruct (get_set s (fst dx)) as [dst|] eqn:Ed; [|discriminate].
    destruct (slot (d_data dst) (snd dx)) as [it|] eqn:Ex; [|discriminate].
    destruct (map_opt _ l) as [ds'|] eqn:El; [|discriminate]. injection H as <-.
    destruct (IH ds' eq_refl) as (dbs & D1 & D2).
    destruct (Fs (fst dx) dst Ed) as (G1 & _ & G3). destruct (G3 (snd dx) it Ex) as [_ G5].
    destruct (G_xid _ G _ _ _ _ Ed Ex) as (tx & Etx).
    destruct (env_set s s' n (fst dx) dst E Ed) as (d' & Gd' & (_ & _ & _ & _ & _ & Rx) & N2).
    exists (mkdb (ById (d_id dst)) (Some (ById tx)) None VNull :: dbs). split.
    + cbn [map_opt]. unfold existing_data at 1. cbn [fst snd]. rewrite (set_ref_of_name_set _ G1).
      unfold data_ident. rewrite Etx. unfold name_data. rewrite ref_of_plain_name by (reflexivity || apply (G5 tx Etx)).
      rewrite D1. reflexivity.
    + cbn [insert_datas]. unfold store_insert_data. cbn [db_set db_id db_key db_val]. rewrite N2, Gd'.
      unfold dset_insert_data. rewrite (Rx (snd dx) it tx Ex Etx).
      unfold get_set in Gd'. rewrite (set_slot_same _ _ _ Gd'), set_sets_same, D2.
      cbn [map]. unfold data_ren at 2. unfold set_rank_in. rewrite Ed. reflexivity.
Qed.

(** * one row *)

Lemma leaf_rel_ress s s' s'' lf lf' : ress s'' = ress s' -> leaf_rel s s' lf lf' -> leaf_rel s s'' lf lf'.
Proof.
  intros Hr H. destruct lf, lf'; cbn [leaf_rel] in *; try exact H; unfold sel_at, get_res in *; rewrite Hr; exact H.
Qed.

Lemma ann_rel_ress s s' s'' a a' : ress s'' = ress s' -> ann_rel s s' a a' -> ann_rel s s'' a a'.
Proof.
  intros Hr (H1 & H2 & H3 & H4). repeat split; try assumption.
  induction H4 as [|lf lf' l l' Hl _ IH]; constructor; [apply (leaf_rel_ress _ _ _ _ _ Hr Hl)|exact IH].
Qed.

Lemma live_items_nth_inj {X} (l : list (option X)) i j h x y :
  nth_error (live_items l) i = Some (h, x) -> nth_error (live_items l) j = Some (h, y) -> i = j.
Proof.
  intros Hi Hj. pose proof (live_from_nodup l 0) as Hnd. rewrite <- live_items_from in Hnd.
  rewrite NoDup_nth_error in Hnd. apply Hnd.
  - rewrite map_length. apply nth_error_Some. rewrite Hi. discriminate.
  - rewrite !nth_error_map, Hi, Hj. reflexivity.
Qed.

Lemma name_ann_opt t : opt (name_ann t) = Some (name_ann t).
Proof. reflexivity. Qed.

Lemma row_load s s' n h a r : Good s -> Env s s' n -> nth_error (live_items (anns s)) n = Some (h, a) ->
  pack_row s h a = Some r -> exists s'', load_row (LOk s') r = LOk s'' /\ Env s s'' (S n).
Proof.
  intros G E Hnth Hr.
  assert (get_ann s h = Some a) as Ha by (apply live_items_In; eapply nth_error_In; exact Hnth).
  assert (rank (anns s) h = n) as Hn by (apply (live_items_nth_inj (anns s) _ _ h a a (nth_live_items _ _ _ Ha) Hnth)).
  destruct (G_aid _ G h a Ha) as (t & Et).
  destruct (G_fit _ G) as (Fa & _ & _). destruct (Fa h a Ha) as [_ Ff2].
  destruct (pack_row_decodes s h a r (G_ok _ G) Ha Hr) as (bs & ds & Ebs & Eds & Erow).
  destruct (target_load s s' n h a bs G E Ha Hn Ebs) as (tb & lfs' & s1 & T1 & T2 & T3 & X).
  pose proof (Env_ext _ _ _ _ E X) as E1.
  destruct (data_load s s1 n G E1 (a_data a) ds Eds) as (dbs & D1 & D2).
  (* the id column is the public id *)
  assert (id_column h a = name_ann t) as Eid.
  { unfold id_column, ann_ident. rewrite Et. destruct (a_data a); reflexivity. }
  (* the id is new in the store being loaded *)
  assert (id_get (aidx s1) t = None) as Hfresh.
  { destruct (id_get (aidx s1) t) as [i|] eqn:Ei; [|reflexivity]. exfalso.
    apply (E_aidx _ _ _ E1) in Ei. destruct Ei as (a'' & Hs'' & Hid'').
    destruct (E_anns _ _ _ E1) as (Hlen & Hle & Htab).
    assert (i < n) as Hi by (rewrite <- Hlen; apply (slot_lt _ _ _ Hs'')).
    destruct (nth_error (live_items (anns s)) i) as [[hi ai]|] eqn:Eni.
    2:{ apply nth_error_None in Eni. lia. }
    destruct (Htab i (hi, ai) Hi Eni) as (y & Hy & (Ry & _)). cbn [snd] in Ry. rewrite Hs'' in Hy. injection Hy as <-.
    assert (get_ann s hi = Some ai) as Hai by (apply live_items_In; eapply nth_error_In; exact Eni).
    pose proof (Id_a s (G_id _ G)) as Hex.
    assert (id_get (aidx s) t = Some hi) as K1 by (apply Hex; exists ai; split; [exact Hai|congruence]).
    assert (id_get (aidx s) t = Some h) as K2 by (apply Hex; exists a; split; [exact Ha|exact Et]).
    assert (hi = h) by congruence. subst hi.
    pose proof (live_items_nth_inj (anns s) _ _ h ai a Eni Hnth). lia. }
  unfold load_row. rewrite Erow. unfold builder_of_loader. cbn [Loader.ab_id Loader.ab_target Loader.ab_data].
  rewrite Eid, name_ann_opt. unfold name_ann at 1. rewrite own_tok_plain by (reflexivity || apply Ff2; exact Et).
  cbn [option_map]. rewrite T1. cbn [option_map].
  change (map_opt (fun sd : str * str =>
                     match set_ref_of_name (fst sd), ref_of_name 100%N LETTER_D (snd sd) with
                     | Some sr, Some dr => Some (mkdb sr (Some dr) None VNull)
                     | _, _ => None
                     end) ds) with (map_opt existing_data ds).
  rewrite D1. unfold annotate. cbn [Store.ab_target Store.ab_data Store.ab_id]. rewrite T2, D2, Hfresh.
  eexists. split; [reflexivity|].
  match goal with |- Env s (index_ann ?s4 ?h0 ?a0) _ =>
    remember s4 as S4 eqn:ES4; remember a0 as A0 eqn:EA0;
    destruct (index_ann_ids S4 h0 A0) as (I1 & I2 & I3 & I4 & I5 & I6) end.
  assert (anns S4 = anns s1 ++ [Some A0]) as K1 by (subst S4; reflexivity).
  assert (ress S4 = ress s1) as K2 by (subst S4; reflexivity).
  assert (sets S4 = sets s1) as K3 by (subst S4; reflexivity).
  assert (aidx S4 = id_put (aidx s1) t (length (anns s1))) as K4 by (subst S4; reflexivity).
  assert (ridx S4 = ridx s1) as K5 by (subst S4; reflexivity).
  assert (sidx S4 = sidx s1) as K6 by (subst S4; reflexivity).
  rewrite K1 in I1. rewrite K2 in I2. rewrite K3 in I3. rewrite K4 in I4. rewrite K5 in I5. rewrite K6 in I6.
  clear K1 K2 K3 K4 K5 K6 ES4.
  remember (index_ann S4 (length (anns s1)) A0) as SN eqn:ESN. clear ESN S4.
  assert (Forall2 (leaf_rel s SN) (a_leaves a) lfs') as T3'.
  { clear - T3 I2. induction T3 as [|lf lf' l l' Hl _ IH]; constructor; [apply (leaf_rel_ress _ _ _ _ _ I2 Hl)|exact IH]. }
  destruct (E_anns _ _ _ E1) as (Hlen & Hle & Htab).
  constructor.
  - rewrite I3. apply (E_sets _ _ _ E1).
  - rewrite I3, I6. apply (E_sidx _ _ _ E1).
  - rewrite I2. apply (E_ress _ _ _ E1).
  - rewrite I2, I5. apply (E_ridx _ _ _ E1).
  - rewrite I1. split; [rewrite app_length, Hlen; cbn [length]; lia|].
    split; [apply Nat.le_succ_l; apply nth_error_Some; rewrite Hnth; discriminate|].
    intros i hx Hi Hni. rewrite slot_app_new, Hlen.
    destruct (Nat.eqb_spec i n) as [->|Hne].
    + rewrite Hnth in Hni. injection Hni as <-. cbn [snd]. eexists. split; [reflexivity|].
      subst A0. unfold ann_rel. cbn [a_id a_kind a_data a_leaves]. split; [symmetry; exact Et|]. split; [reflexivity|]. split; [reflexivity|].
      exact T3'.
    + destruct (Htab i hx (ltac:(lia)) Hni) as (y & Hy & Ry). exists y. split; [exact Hy|].
      apply (ann_rel_ress _ _ _ _ _ I2 Ry).
  - rewrite I1, I4.
    pose proof (exact_app a_id (anns s1) (aidx s1) A0 (E_aidx _ _ _ E1)) as Ha'.
    subst A0. cbn [a_id] in Ha'. apply Ha'. intros tok Ht. injection Ht as <-. exact Hfresh.
Qed.

(** * all rows *)

Lemma rows_load s : Good s -> forall LAsuf LApre s' rows,
  live_items (anns s) = LApre ++ LAsuf -> Env s s' (length LApre) ->
  map_opt (fun ha => pack_row s (fst ha) (snd ha)) LAsuf = Some rows ->
  exists s'', fold_left load_row rows (LOk s') = LOk s'' /\ Env s s'' (length (live_items (anns s))).
Proof.
  intros G. induction LAsuf as [|[h a] LAsuf IH]; intros LApre s' rows Hla E Hrows.
  - injection Hrows as <-. exists s'. split; [reflexivity|]. rewrite Hla, app_nil_r. exact E.
  - cbn [map_opt fst snd] in Hrows. destruct (pack_row s h a) as [r|] eqn:Er; [|discriminate].
    destruct (map_opt _ LAsuf) as [rows'|] eqn:Ers; [|discriminate]. injection Hrows as <-.
    assert (nth_error (live_items (anns s)) (length LApre) = Some (h, a)) as Hnth.
    { rewrite Hla, nth_error_app2 by lia. rewrite Nat.sub_diag. reflexivity. }
    destruct (row_load s s' (length LApre) h a r G E Hnth Er) as (s1 & Hl & E1).
    cbn [fold_left]. rewrite Hl.
    apply (IH (LApre ++ [(h, a)]) s1 rows').
    + rewrite <- app_assoc. exact Hla.
    + rewrite app_length. cbn [length]. rewrite Nat.add_1_r. exact E1.
    + reflexivity.
Qed.

(** * the store after the data sets and the resources *)

Lemma tab_of_list {X Y} (LX : list (nat * X)) (ys : list Y) (R : X -> Y -> Prop) :
  Forall2 (fun hx y => R (snd hx) y) LX ys -> tab LX (map Some ys) (length LX) R.
Proof.
  intro H. split; [rewrite map_length; symmetry; apply (Forall2_len _ _ _ H)|]. split; [lia|].
  intros i hx Hi Hn. destruct (Forall2_nth _ _ _ H i hx Hn) as (y & Hy & Hr). exists y. split; [apply slot_map_some; exact Hy|exact Hr].
Qed.

Lemma exact_empty {X} (idof : X -> option nat) : exact idof [] [].
Proof. intros tok h. split; [discriminate|]. intros (it & Hs & _). unfold slot in Hs. destruct h; discriminate. Qed.

Lemma nodup_ids_live {X} (idof : X -> option nat) (f : X -> nat) (l : list (option X)) m :
  exact idof l m -> (forall h x, slot l h = Some x -> idof x = Some (f x)) -> NoDup (map (fun hx => f (snd hx)) (live_items l)).
Proof.
  intros Hex Hf. apply NoDup_nth_error. intros i j Hi Hij. rewrite map_length in Hi.
  rewrite !nth_error_map in Hij.
  destruct (nth_error (live_items l) i) as [[hi xi]|] eqn:Ei; [|apply nth_error_None in Ei; lia].
  destruct (nth_error (live_items l) j) as [[hj xj]|] eqn:Ej; [|discriminate]. cbn [option_map snd] in Hij. injection Hij as Hij.
  assert (slot l hi = Some xi) as Si by (apply live_items_In; eapply nth_error_In; exact Ei).
  assert (slot l hj = Some xj) as Sj by (apply live_items_In; eapply nth_error_In; exact Ej).
  assert (id_get m (f xi) = Some hi) as K1 by (apply Hex; exists xi; split; [exact Si|apply (Hf hi); exact Si]).
  assert (id_get m (f xi) = Some hj) as K2 by (apply Hex; exists xj; split; [exact Sj|rewrite Hij; apply (Hf hj); exact Sj]).
  assert (hi = hj) by congruence. subst hj. apply (live_items_nth_inj l i j hi xi xj Ei Ej).
Qed.

Lemma nodup_ids {X} (idof : X -> option nat) (f : X -> nat) (l : list (option X)) m :
  exact idof l m -> (forall x, idof x = Some (f x)) -> NoDup (map (fun hx => f (snd hx)) (live_items l)).
Proof.
  intros Hex Hf. apply NoDup_nth_error. intros i j Hi Hij. rewrite map_length in Hi.
  rewrite !nth_error_map in Hij.
  destruct (nth_error (live_items l) i) as [[hi xi]|] eqn:Ei; [|apply nth_error_None in Ei; lia].
  destruct (nth_error (live_items l) j) as [[hj xj]|] eqn:Ej; [|discriminate]. cbn [option_map snd] in Hij. injection Hij as Hij.
  assert (slot l hi = Some xi) as Si by (apply live_items_In; eapply nth_error_In; exact Ei).
  assert (slot l hj = Some xj) as Sj by (apply live_items_In; eapply nth_error_In; exact Ej).
  assert (id_get m (f xi) = Some hi) as K1 by (apply Hex; exists xi; split; [exact Si|apply Hf]).
  assert (id_get m (f xi) = Some hj) as K2 by (apply Hex; exists xj; split; [exact Sj|rewrite Hij; apply Hf]).
  assert (hi = hj) by congruence. subst hj. apply (live_items_nth_inj l i j hi xi xj Ei Ej).
Qed.

(** * from the simulation to the content *)

Lemma live_from_length {X} (l : list (option X)) : forall b, length (live_from b l) = length (filter is_some l).
Proof. induction l as [|o l IH]; intro b; [reflexivity|]. destruct o; cbn [live_from filter is_some length]; rewrite IH; reflexivity. Qed.

Lemma filter_firstn_le {X} (f : X -> bool) (l : list X) : forall h, length (filter f (firstn h l)) <= length (filter f l).
Proof.
  induction l as [|x l IH]; intro h; [destruct h; cbn; lia|]. destruct h as [|h]; [cbn; lia|].
  cbn [firstn filter]. specialize (IH h). destruct (f x); cbn [length]; lia.
Qed.

Lemma rank_le_live {X} (l : list (option X)) h : rank l h <= length (live_items l).
Proof. rewrite live_items_from, live_from_length. apply filter_firstn_le. Qed.

Lemma all_some_list {X} (l : list (option X)) : (forall i, i < length l -> exists y, slot l i = Some y) ->
  exists ys, l = map Some ys.
Proof.
  induction l as [|o l IH]; intro H; [exists []; reflexivity|].
  destruct (H 0 ltac:(cbn; lia)) as (y & Hy). unfold slot in Hy. cbn [nth] in Hy. subst o.
  destruct IH as (ys & ->).
  { intros i Hi. destruct (H (S i) ltac:(cbn; lia)) as (y' & Hy'). exists y'. exact Hy'. }
  exists (y :: ys). reflexivity.
Qed.

Lemma Forall2_of_nth {A B} (R : A -> B -> Prop) : forall l1 l2, length l1 = length l2 ->
  (forall i a b, nth_error l1 i = Some a -> nth_error l2 i = Some b -> R a b) -> Forall2 R l1 l2.
Proof.
  induction l1 as [|a l1 IH]; intros [|b l2] Hl H; try discriminate; constructor.
  - apply (H 0 a b); reflexivity.
  - apply IH; [cbn [length] in Hl; lia|]. intros i a' b' Ha Hb. apply (H (S i) a' b'); assumption.
Qed.

Lemma tab_lists {X Y} (LX : list (nat * X)) (l' : list (option Y)) (R : X -> Y -> Prop) :
  tab LX l' (length LX) R -> exists ys, l' = map Some ys /\ Forall2 (fun hx y => R (snd hx) y) LX ys.
Proof.
  intros (Hlen & _ & H).
  destruct (all_some_list l') as (ys & ->).
  { intros i Hi. rewrite Hlen in Hi. destruct (nth_error LX i) as [hx|] eqn:E; [|apply nth_error_None in E; lia].
    destruct (H i hx Hi E) as (y & Hy & _). exists y. exact Hy. }
  exists ys. split; [reflexivity|]. rewrite map_length in Hlen.
  apply Forall2_of_nth; [symmetry; exact Hlen|].
  intros i hx y Hx Hy. assert (i < length LX) as Hi by (apply nth_error_Some; rewrite Hx; discriminate).
  destruct (H i hx Hi Hx) as (y' & Hy' & Hr). rewrite (slot_map_some _ _ _ Hy) in Hy'. injection Hy' as <-. exact Hr.
Qed.

Lemma map_Forall2_eq {A B C} (f : A -> C) (g : B -> C) l1 l2 : Forall2 (fun a b => f a = g b) l1 l2 -> map f l1 = map g l2.
Proof. induction 1 as [|a b l1 l2 H _ IH]; [reflexivity|]. cbn [map]. rewrite H, IH. reflexivity. Qed.

Lemma live_items_all_some {X} (l : list X) : live_items (map Some l) = combine (seq 0 (length l)) l.
Proof. rewrite live_items_from. apply live_from_all_some. Qed.

Lemma map_live_all_some {X Z} (F : X -> Z) (l : list X) : map (fun hx => F (snd hx)) (live_items (map Some l)) = map F l.
Proof. rewrite live_items_all_some. apply map_combine_snd. rewrite seq_length. reflexivity. Qed.

Lemma sel_at_range s r t rg : sel_at s r t = Some rg -> sel_range s r t = rg.
Proof. unfold sel_at, sel_range. destruct (get_res s r) as [rs|]; [|discriminate]. apply nth_error_nth. Qed.

(* the loaded store has no removed slots *)
Record Full (s s' : store) : Prop := mkFull {
  F_ress : exists R', ress s' = map Some R' /\ length R' = length (live_items (ress s));
  F_sets : exists D', sets s' = map Some D' /\ length D' = length (live_items (sets s));
  F_anns : exists A', anns s' = map Some A' /\ length A' = length (live_items (anns s))
}.

Lemma rank_full {X Y} (l : list (option X)) (l' : list (option Y)) h :
  (exists ys, l' = map Some ys /\ length ys = length (live_items l)) -> rank l' (rank l h) = rank l h.
Proof. intros (ys & -> & Hl). apply rank_all_some. rewrite Hl. apply rank_le_live. Qed.

Lemma set_rank_key s s' n d k : Env s s' n ->
  set_rank_in s' (rank (sets s) d) (fun ds' => rank (d_keys ds') (set_rank_in s d (fun ds => rank (d_keys ds) k)))
  = set_rank_in s d (fun ds => rank (d_keys ds) k).
Proof.
  intro E. unfold set_rank_in at 2 3. destruct (get_set s d) as [ds|] eqn:Ed.
  - destruct (env_set s s' n d ds E Ed) as (d' & Gd' & (_ & Hk & _) & _). unfold set_rank_in. rewrite Gd'.
    apply (rank_full (d_keys ds) (d_keys d') k Hk).
  - unfold set_rank_in. destruct (get_set s' (rank (sets s) d)); reflexivity.
Qed.

Lemma set_rank_data s s' n d x : Env s s' n ->
  set_rank_in s' (rank (sets s) d) (fun ds' => rank (d_data ds') (set_rank_in s d (fun ds => rank (d_data ds) x)))
  = set_rank_in s d (fun ds => rank (d_data ds) x).
Proof.
  intro E. unfold set_rank_in at 2 3. destruct (get_set s d) as [ds|] eqn:Ed.
  - destruct (env_set s s' n d ds E Ed) as (d' & Gd' & (_ & _ & Hx & _) & _). unfold set_rank_in. rewrite Gd'.
    apply (rank_full (d_data ds) (d_data d') x Hx).
  - unfold set_rank_in. destruct (get_set s' (rank (sets s) d)); reflexivity.
Qed.

Lemma leaf_desc_rel s s' n lf lf' : Env s s' n -> Full s s' -> leaf_rel s s' lf lf' -> leaf_desc s' lf' = leaf_desc s lf.
Proof.
  intros E F H. pose proof (F_ress _ _ F) as Fr. pose proof (F_sets _ _ F) as Fs. pose proof (F_anns _ _ F) as Fa.
  destruct lf, lf'; cbn [leaf_rel] in H; try contradiction; cbn [leaf_desc].
  - destruct H as (-> & rg & S1 & S2). rewrite (sel_at_range _ _ _ _ S1), (sel_at_range _ _ _ _ S2).
    rewrite (rank_full (ress s) (ress s') _ Fr). reflexivity.
  - subst. rewrite (rank_full (anns s) (anns s') _ Fa). reflexivity.
  - destruct H as (-> & -> & rg & S1 & S2). rewrite (sel_at_range _ _ _ _ S1), (sel_at_range _ _ _ _ S2).
    rewrite (rank_full (ress s) (ress s') _ Fr), (rank_full (anns s) (anns s') _ Fa). reflexivity.
  - subst. rewrite (rank_full (ress s) (ress s') _ Fr). reflexivity.
  - subst. rewrite (rank_full (sets s) (sets s') _ Fs). reflexivity.
  - destruct H as (-> & ->). rewrite (rank_full (sets s) (sets s') _ Fs), (set_rank_key s s' n _ _ E). reflexivity.
  - destruct H as (-> & ->). rewrite (rank_full (sets s) (sets s') _ Fs), (set_rank_data s s' n _ _ E). reflexivity.
Qed.

Lemma content_ann_rel s s' n a a' : Env s s' n -> Full s s' -> ann_rel s s' a a' -> content_ann s' a' = content_ann s a.
Proof.
  intros E F (H1 & H2 & H3 & H4). unfold content_ann. rewrite H1, H2, H3.
  assert (map (leaf_desc s') (a_leaves a') = map (leaf_desc s) (a_leaves a)) as El.
  { clear - E F H4. induction H4 as [|lf lf' l l' Hl _ IH]; [reflexivity|]. cbn [map].
    rewrite (leaf_desc_rel s s' n lf lf' E F Hl), IH. reflexivity. }
  rewrite El. f_equal. f_equal. f_equal. f_equal.
  rewrite map_map. apply map_ext. intros dx. unfold data_ren. cbn [fst snd].
  rewrite (rank_full (sets s) (sets s') _ (F_sets _ _ F)), (set_rank_data s s' n _ _ E). reflexivity.
Qed.

(** * the theorem *)

Lemma Forall2_map_right {A B} (R : A -> B -> Prop) (f : A -> B) l : (forall a, In a l -> R a (f a)) -> Forall2 R l (map f l).
Proof.
  induction l as [|a l IH]; intro H; [constructor|]. cbn [map]. constructor; [apply H; left; reflexivity|].
  apply IH. intros a' Ha'. apply H. right. exact Ha'.
Qed.

Lemma Forall2_imp {A B} (R Q : A -> B -> Prop) l1 l2 : (forall a b, R a b -> Q a b) -> Forall2 R l1 l2 -> Forall2 Q l1 l2.
Proof. intros H F. induction F; constructor; auto. Qed.

Theorem load_save_content s f : Good s -> save s = Some f ->
  exists s', load f = LOk s' /\ content s' = content s.
Proof.
  intros G Hs. unfold save in Hs.
  change (map_opt (fun hd : nat * dset => match save_set (snd hd) with
                                          | Some rows => Some (name_set (d_id (snd hd)), rows)
                                          | None => None
                                          end) (live_items (sets s)))
    with (map_opt set_file (live_items (sets s))) in Hs.
  destruct (map_opt set_file (live_items (sets s))) as [fs|] eqn:Efs; [|discriminate].
  destruct (map_opt (fun ha : nat * ann => pack_row s (fst ha) (snd ha)) (live_items (anns s))) as [rows|] eqn:Erows; [|discriminate].
  injection Hs as <-. unfold load. cbn [f_sets f_ress f_rows].
  pose proof (G_id _ G) as Hid.
  (* the data sets *)
  destruct (load_sets_gen (live_items (sets s)) [] [] empty_store fs) as (D' & s1 & Hf1 & S1 & S2 & S3 & S4 & S5 & S6 & S7).
  { reflexivity. } { apply exact_empty. } { constructor. }
  { cbn [app]. apply (nodup_ids did d_id (sets s) (sidx s) (Id_s s Hid)). intro x. reflexivity. }
  { intros [d ds] Hin. apply (G_dsok _ G d ds). apply live_items_In. exact Hin. }
  { exact Efs. }
  change (fold_left _ fs (Some empty_store)) with (fold_left load_set_step fs (Some empty_store)). rewrite Hf1.
  (* the resources *)
  destruct (G_fit _ G) as (_ & Fr & _).
  destruct (load_ress_gen (live_items (ress s)) [] [] s1) as (s2 & Hf2 & R1 & R2 & R3 & R4 & R5 & R6).
  { rewrite S5. reflexivity. } { rewrite S5, S7. apply exact_empty. } { reflexivity. }
  { cbn [app]. apply (nodup_ids rid r_id (ress s) (ridx s) (Id_r s Hid)). intro x. reflexivity. }
  { intros [r rs] Hin. apply (Fr r rs). apply live_items_In. exact Hin. }
  change (map (fun hr : nat * res => (name_res (r_id (snd hr)), r_len (snd hr))) (live_items (ress s)))
    with (map res_file (live_items (ress s))).
  change (fold_left _ (map res_file (live_items (ress s))) (Some s1))
    with (fold_left load_res_step (map res_file (live_items (ress s))) (Some s1)). rewrite Hf2.
  (* the initial simulation *)
  cbn [app] in S1, R1.
  assert (Env s s2 0) as E0.
  { constructor.
    - rewrite R4, S1. apply tab_of_list. exact S2.
    - rewrite R4, R6. exact S3.
    - rewrite R1. apply tab_of_list. apply Forall2_map_right. intros hr _. split; reflexivity.
    - exact R2.
    - rewrite R3, S4. split; [reflexivity|]. split; [lia|]. intros i hx Hi. lia.
    - rewrite R3, R5, S4, S6. apply exact_empty. }
  (* the rows *)
  destruct (rows_load s G (live_items (anns s)) [] s2 rows eq_refl E0 Erows) as (s3 & Hf3 & E).
  rewrite Hf3. exists s3. split; [reflexivity|].
  (* the content *)
  destruct (tab_lists _ _ _ (E_ress _ _ _ E)) as (R' & HR' & FR).
  destruct (tab_lists _ _ _ (E_sets _ _ _ E)) as (D'' & HD' & FD).
  destruct (tab_lists _ _ _ (E_anns _ _ _ E)) as (A' & HA' & FA).
  assert (Full s s3) as F.
  { constructor; eexists; (split; [eassumption|]); symmetry; eapply Forall2_len; eassumption. }
  unfold content. rewrite HR', HD', HA'.
  rewrite (map_live_all_some (fun r : res => L [of_nat (r_id r); of_nat (r_len r)]) R').
  rewrite (map_live_all_some content_set D'').
  rewrite (map_live_all_some (content_ann s3) A').
  f_equal. f_equal; [|f_equal; [|f_equal]].
  - f_equal. symmetry. apply map_Forall2_eq.
    eapply Forall2_imp; [|exact FR]. intros hr y [H1 H2]. cbn beta. rewrite H1, H2. reflexivity.
  - f_equal. symmetry. apply map_Forall2_eq.
    eapply Forall2_imp; [|exact FD]. intros hd y (_ & _ & _ & H & _). cbn beta. symmetry. exact H.
  - f_equal. symmetry. apply map_Forall2_eq.
    eapply Forall2_imp; [|exact FA]. intros ha y H. cbn beta. symmetry. apply (content_ann_rel s s3 _ (snd ha) y E F H).
Qed.

(** * the conditions from decidable checks and the invariants of reachable stores *)

Lemma NoDup_map_Some (l : list nat) : NoDup l -> NoDup (map Some l).
Proof.
  induction l as [|x l IH]; intro H; [constructor|]. inversion H as [|? ? Hn Hd]. subst. cbn [map].
  constructor; [|apply IH; exact Hd]. intro Hin. apply in_map_iff in Hin. destruct Hin as (y & Ey & Hy). injection Ey as ->. contradiction.
Qed.

Lemma dset_ok_of s d ds : SetsInv s -> ids_fit s -> get_set s d = Some ds ->
  (forall x it, slot (d_data ds) x = Some it -> exists t, x_id it = Some t) -> dset_ok ds.
Proof.
  intros Hsets (_ & _ & Fs) Hd Hx. pose proof (Hsets d ds Hd) as Hinv. destruct (Fs d ds Hd) as (F1 & F2 & F3).
  split; [exact F1|]. split.
  { apply (nodup_ids_live (fun t : nat => Some t) (fun t => t) (d_keys ds) (d_kidx ds)).
    - intros tok k. rewrite (D_kidx ds Hinv). split; [intro H; exists tok; split; [exact H|reflexivity]|].
      intros (it & Hs & Hi). injection Hi as ->. exact Hs.
    - intros. reflexivity. }
  split.
  { apply Forall_forall. intros kt Hin. apply in_map_iff in Hin. destruct Hin as ([k kt'] & <- & Hk).
    apply live_items_In in Hk. apply (F2 k kt' Hk). }
  split.
  { intros [x it] Hin. apply live_items_In in Hin. destruct (Hx x it Hin) as (t & Ht). exists t. split; [exact Ht|].
    destruct (F3 x it Hin) as [_ G5]. apply (G5 t Ht). }
  set (f := fun it : adata => match x_id it with Some t => t | None => 0 end).
  assert (map (fun hx : nat * adata => x_id (snd hx)) (live_items (d_data ds))
          = map Some (map (fun hx => f (snd hx)) (live_items (d_data ds)))) as E.
  { rewrite map_map. apply map_ext_in. intros [x it] Hin. apply live_items_In in Hin. destruct (Hx x it Hin) as (t & Ht).
    cbn [snd]. unfold f. rewrite Ht. reflexivity. }
  rewrite E. apply NoDup_map_Some.
  apply (nodup_ids_live x_id f (d_data ds) (d_xidx ds)).
  - intros tok x. apply (D_xidx ds Hinv).
  - intros x it Hs. destruct (Hx x it Hs) as (t & Ht). unfold f. rewrite Ht. reflexivity.
Qed.

Lemma existsb_false_forall {X} (p : X -> bool) l : existsb p l = false -> forall x, In x l -> p x = false.
Proof.
  intros H x Hin. destruct (p x) eqn:E; [|reflexivity]. exfalso.
  assert (existsb p l = true) by (apply existsb_exists; exists x; split; assumption). congruence.
Qed.

Theorem Good_intro s : IdInv s -> SetsInv s -> ids_fit s -> hyps_ok s = true -> known_class s = 0 -> Good s.
Proof.
  intros Hid Hsets Hfit Hh Hk. unfold hyps_ok in Hh. apply andb_prop in Hh. destruct Hh as [Hok Hall].
  rewrite forallb_forall in Hall.
  unfold known_class in Hk. destruct (Known_C15_tempid s) eqn:K1; [discriminate|].
  clear Hk.
  unfold Known_C15_tempid in K1. apply orb_false_elim in K1. destruct K1 as [K1a K1x].
  assert (forall h a, get_ann s h = Some a -> exists t, a_id a = Some t) as Haid.
  { intros h a Ha. pose proof (existsb_false_forall _ _ K1a (h, a) (proj2 (live_items_In _ _ _) Ha)) as H. cbn [snd] in H.
    destruct (a_id a) as [t|]; [exists t; reflexivity|discriminate]. }
  assert (forall d ds x it, get_set s d = Some ds -> slot (d_data ds) x = Some it -> exists t, x_id it = Some t) as Hxid.
  { intros d ds x it Hd Hx. pose proof (existsb_false_forall _ _ K1x (d, ds) (proj2 (live_items_In _ _ _) Hd)) as H. cbn [snd] in H.
    pose proof (existsb_false_forall _ _ H (x, it) (proj2 (live_items_In _ _ _) Hx)) as H'. cbn [snd] in H'.
    destruct (x_id it) as [t|]; [exists t; reflexivity|discriminate]. }
  constructor; try assumption.
  - intros h a Ha. pose proof (Hall (h, a) (proj2 (live_items_In _ _ _) Ha)) as H. cbn [fst snd] in H.
    apply andb_prop in H. destruct H as [Hs _]. unfold shape_b in Hs. apply andb_prop in Hs. destruct Hs as [H3 H0].
    apply Nat.leb_le in H3. split; [exact H3|].
    intro E0. rewrite E0 in H0. cbn in H0. apply Nat.eqb_eq in H0.
    destruct (a_leaves a) as [|lf [|lf' l]]; try discriminate. exists lf. reflexivity.
  - intros h a lf Ha Hlf. pose proof (Hall (h, a) (proj2 (live_items_In _ _ _) Ha)) as H. cbn [fst snd] in H.
    apply andb_prop in H. destruct H as [_ Hb]. unfold back_b in Hb. rewrite forallb_forall in Hb. specialize (Hb lf Hlf).
    destruct lf; try exact I; apply Nat.ltb_lt in Hb; exact Hb.
  - intros d ds Hd. apply (dset_ok_of s d ds Hsets Hfit Hd). intros x it Hx. apply (Hxid d ds x it Hd Hx).
Qed.

(* the property at store level, for every reachable store outside the known classes *)
Theorem reachable_roundtrip ops : Forall op_ok ops -> ids_fit (run ops) -> hyps_ok (run ops) = true ->
  known_class (run ops) = 0 -> save (run ops) <> None ->
  sx_of_loaded (roundtrip (run ops)) = roundtrip_spec (run ops).
Proof.
  intros Hops Hfit Hh Hk Hsave.
  pose proof (Good_intro _ (reachable_IdInv ops) (reachable_SetsInv ops Hops) Hfit Hh Hk) as G.
  unfold roundtrip. destruct (save (run ops)) as [f|] eqn:Es; [|contradiction].
  destruct (load_save_content _ f G Es) as (s' & Hl & Hc). rewrite Hl. unfold sx_of_loaded, roundtrip_spec. rewrite Hc. reflexivity.
Qed.
