(* An annotation's identity, kind and target never change after it was created; its data can only
   lose items (non-strict removal of data).  Structural: no invariant is needed. *)
From Stam Require Import Base.Tac Base.ListAux Model.Offset Model.Store Model.StoreObs Spec.StoreSpec
     Proofs.RelMap Proofs.StoreScan Proofs.StoreInv Proofs.StoreDataDef Proofs.StoreRemove Proofs.StoreRemove3 Proofs.StoreSets.

Definition same_ann (a a' : ann) : Prop :=
  a_id a' = a_id a /\ a_kind a' = a_kind a /\ a_leaves a' = a_leaves a /\ incl (a_data a') (a_data a).

(* every annotation of s' at a slot that existed in s is the (possibly data-reduced) one of s *)
Definition stable (s s' : store) : Prop :=
  length (anns s) <= length (anns s')
  /\ forall h a', h < length (anns s) -> get_ann s' h = Some a' -> exists a, get_ann s h = Some a /\ same_ann a a'.

Lemma same_ann_refl a : same_ann a a.
Proof. repeat split; try reflexivity. apply incl_refl. Qed.
Lemma same_ann_trans a b c : same_ann a b -> same_ann b c -> same_ann a c.
Proof. intros (A1&A2&A3&A4) (B1&B2&B3&B4). repeat split; try congruence. eapply incl_tran; eassumption. Qed.

Lemma stable_refl s : stable s s.
Proof. split; [lia|]. intros h a' _ H. exists a'. split; [exact H|apply same_ann_refl]. Qed.
Lemma stable_trans s1 s2 s3 : stable s1 s2 -> stable s2 s3 -> stable s1 s3.
Proof.
  intros (L1&A) (L2&B). split; [lia|]. intros h a3 Hh H3. destruct (B h a3 ltac:(lia) H3) as (a2 & H2 & S2).
  destruct (A h a2 Hh H2) as (a1 & H1 & S1). exists a1. split; [exact H1|eapply same_ann_trans; eassumption].
Qed.
Lemma stable_same s s' : anns s' = anns s -> stable s s'.
Proof. intros E. unfold stable, get_ann. rewrite E. split; [lia|]. intros h a' _ H. exists a'. split; [exact H|apply same_ann_refl]. Qed.

Lemma stable_set_none s h : stable s (set_anns s (set_slot (anns s) h None)).
Proof.
  split; [cbn [set_anns anns]; rewrite length_set_slot; lia|]. intros y a' _ H. unfold get_ann in *. cbn [set_anns anns] in H.
  rewrite slot_set_slot in H. destruct ((y =? h) && _); [discriminate|]. exists a'. split; [exact H|apply same_ann_refl].
Qed.

Lemma remove_ann_stable : forall fuel s h, stable s (fst (remove_ann fuel s h)).
Proof.
  induction fuel as [|fuel IH]; intros s h; cbn [remove_ann]; [apply stable_refl|].
  destruct (get_ann s h) as [a0|]; [|apply stable_refl].
  assert (F : forall L s0, stable s0 (fold_left (fun s c => fst (remove_ann fuel s c)) L s0)).
  { induction L as [|c L IHL]; intros s0; cbn [fold_left]; [apply stable_refl|]. eapply stable_trans; [apply IH|apply IHL]. }
  pose proof (F (rget (aam s) h) s) as S1.
  set (s1 := fold_left (fun s c => fst (remove_ann fuel s c)) (rget (aam s) h) s) in *.
  set (s2 := set_aam s1 (rclear (aam s1) h)).
  destruct (get_ann s2 h) as [a|]; cbn [fst]; [|eapply stable_trans; [exact S1|apply stable_same; reflexivity]].
  eapply stable_trans; [exact S1|].
  destruct (ufold_data_frame h (a_data a) s2) as (F0&_).
  destruct (ufold_leaves_frame h (a_leaves a) (fold_left (unindex_datum h) (a_data a) s2)) as (_&G1&_).
  assert (E3 : anns (unindex_ann s2 h a) = anns s1) by (rewrite unindex_ann_unfold, G1, F0; reflexivity).
  assert (S3 : stable s1 (unindex_ann s2 h a)) by (apply stable_same; exact E3).
  eapply stable_trans; [exact S3|].
  destruct (a_id a) as [tok|].
  - set (s3 := set_aidx (unindex_ann s2 h a) (id_del (aidx (unindex_ann s2 h a)) tok)).
    eapply stable_trans; [apply (stable_same (unindex_ann s2 h a) s3); reflexivity|]. apply (stable_set_none s3 h).
  - apply stable_set_none.
Qed.

Lemma remove_anns_stable l : forall s, stable s (remove_anns s l).
Proof.
  unfold remove_anns. induction l as [|c l IH]; intros s; cbn [fold_left]; [apply stable_refl|].
  eapply stable_trans; [apply remove_ann_stable|apply IH].
Qed.

Lemma strip_step_stable d x strict s a : stable s (strip_step d x strict s a).
Proof.
  unfold strip_step. destruct strict; [apply remove_ann_stable|].
  destruct (get_ann s a) as [an|] eqn:E; [|apply stable_refl].
  assert (S1 : stable s (set_anns s (set_slot (anns s) a (Some (ann_remove_data an d x))))).
  { split; [cbn [set_anns anns]; rewrite length_set_slot; lia|]. intros y a' _ H. unfold get_ann in *. cbn [set_anns anns] in H.
    rewrite slot_set_slot in H. destruct ((y =? a) && _) eqn:Ey.
    - assert (y = a) by lia. subst y. inversion H; subst a'. exists an. split; [exact E|].
      unfold ann_remove_data. repeat split; cbn [a_id a_kind a_leaves a_data]; try reflexivity.
      intros p Hp. apply filter_In in Hp. tauto.
    - exists a'. split; [exact H|apply same_ann_refl]. }
  destruct (a_data (ann_remove_data an d x)); [destruct (a_data an)|]; try exact S1.
  eapply stable_trans; [exact S1|apply remove_ann_stable].
Qed.

Lemma remove_data_h_stable s d x strict : stable s (fst (remove_data_h s d x strict)).
Proof.
  rewrite remove_data_h_unfold. cbv zeta.
  set (users := tget (ddam s) d x).
  assert (F : forall us s0, stable s0 (fold_left (strip_step d x strict) us s0)).
  { induction us as [|a us IH]; intros s0; cbn [fold_left]; [apply stable_refl|]. eapply stable_trans; [apply strip_step_stable|apply IH]. }
  pose proof (F users s) as S1. set (s1 := fold_left (strip_step d x strict) users s) in *.
  pose proof (remove_anns_stable (tget (damm s1) d x) s1) as S2. set (s2 := remove_anns s1 (tget (damm s1) d x)) in *.
  set (s3 := set_damm s2 (tclear2 (damm s2) d x)).
  assert (S3 : stable s s3) by (eapply stable_trans; [exact S1|eapply stable_trans; [exact S2|apply stable_same; reflexivity]]).
  destruct (get_set s3 d) as [ds|]; cbn [fst]; [|exact S3]. destruct (slot (d_data ds) x) as [it|]; cbn [fst]; [|exact S3].
  eapply stable_trans; [exact S3|]. apply stable_same.
  match goal with |- anns (fold_left ?f users ?s4) = _ =>
    assert (F4 : forall us s0, anns (fold_left f us s0) = anns s0)
      by (induction us as [|a us IH]; intros s0; cbn [fold_left]; [reflexivity|]; rewrite IH; reflexivity);
    rewrite F4 end.
  reflexivity.
Qed.

Theorem step_stable s o : stable s (fst (step s o)).
Proof.
  destruct o; cbn [step].
  - apply stable_same. apply (add_res_core s id len).
  - apply stable_same. apply (add_set_core s id).
  - pose proof (store_insert_data_core s b) as C. destruct (store_insert_data s b) as [s' [[d x]|]]; apply stable_same; apply C.
  - (* annotate: slots are only appended *)
    unfold annotate. destruct (ab_target b) as [tb|]; [|apply stable_refl].
    pose proof (resolve_target_core s tb) as C1.
    destruct (resolve_target s tb) as [s1 [[kind leaves]|]]; cbn [fst] in C1; [|apply stable_same; apply C1].
    pose proof (insert_datas_core (ab_data b) s1) as C2.
    destruct (insert_datas s1 (ab_data b)) as [s2 [data|]]; cbn [fst] in C2;
      pose proof (same_core_trans _ _ _ C1 C2) as C3; [|apply stable_same; apply C3].
    destruct (match ab_id b with Some tok => id_get (aidx s2) tok | None => None end) as [h'|].
    + destruct (get_ann s2 h') as [exi|]; [destruct (_ && _)|]; apply stable_same; apply C3.
    + cbn [fst]. destruct C3 as (Ca & _).
      assert (Hanns : forall s4 h0 a0, anns (index_ann s4 h0 a0) = anns s4).
      { intros s4 h0 a0. rewrite index_ann_unfold, fold_leaves_anns.
        destruct (fold_data_frame h0 (a_data a0) s4) as (F0 & _). exact F0. }
      match goal with |- stable s (index_ann ?s4 ?h0 ?a0) =>
        assert (E : anns (index_ann s4 h0 a0) = anns s ++ [Some a0])
          by (rewrite Hanns; destruct (ab_id b); cbn [set_aidx set_anns anns]; rewrite Ca; reflexivity) end.
      split; [rewrite E, app_length; lia|]. intros h a' Hh H. unfold get_ann in *. rewrite E, slot_app_new in H.
      destruct (h =? length (anns s)) eqn:Eh; [lia|]. exists a'. split; [exact H|apply same_ann_refl].
  - unfold rm_annotation. destruct (ref_ann s r); [apply remove_ann_stable|apply stable_refl].
  - unfold rm_data. destruct (to_handle (sidx s) d) as [d0|]; [|apply stable_refl]. destruct (get_set s d0) as [ds|]; [|apply stable_refl].
    destruct (to_handle (d_xidx ds) x) as [x0|]; [apply remove_data_h_stable|apply stable_refl].
  - unfold rm_key. destruct (to_handle (sidx s) d) as [d0|]; [|apply stable_refl]. destruct (get_set s d0) as [ds|]; [|apply stable_refl].
    destruct (to_handle (d_kidx ds) k) as [k0|]; [|apply stable_refl].
    assert (F : forall xs s0, stable s0 (fold_left (fun s x => fst (remove_data_h s d0 x strict)) xs s0)).
    { induction xs as [|x xs IH]; intros s0; cbn [fold_left]; [apply stable_refl|]. eapply stable_trans; [apply remove_data_h_stable|apply IH]. }
    pose proof (F (rget (d_k2x ds) k0) s) as S1. set (s1 := fold_left _ (rget (d_k2x ds) k0) s) in *.
    destruct (get_set s1 d0) as [ds1|]; [|exact S1]. destruct (slot (d_keys ds1) k0) as [tok|]; [|exact S1]. cbn [fst].
    eapply stable_trans; [exact S1|].
    match goal with |- stable s1 (set_kamm (remove_anns ?s2 ?l) _) =>
      eapply stable_trans; [apply (stable_same s1 s2); reflexivity|]; eapply stable_trans; [apply (remove_anns_stable l s2)|apply stable_same; reflexivity] end.
  - unfold rm_resource. destruct (ref_res s r) as [h|]; [|apply stable_refl].
    pose proof (remove_anns_stable (rget (ramm s) h) s) as S1. set (s1 := remove_anns s (rget (ramm s) h)) in *.
    pose proof (remove_anns_stable (sort_dedup (concat (nth h (trm s1) []))) s1) as S2. set (s2 := remove_anns s1 _) in *.
    eapply stable_trans; [exact S1|]. eapply stable_trans; [exact S2|]. apply stable_same.
    destruct (get_res _ h); reflexivity.
  - unfold rm_dataset. destruct (ref_set s r) as [h|]; [|apply stable_refl].
    set (users := filter _ (live_handles (anns s))).
    pose proof (remove_anns_stable users s) as S1. set (s1 := remove_anns s users) in *.
    pose proof (remove_anns_stable (rget (samm s1) h) s1) as S2. set (s2 := remove_anns s1 (rget (samm s1) h)) in *.
    set (s3 := set_samm s2 (rclear (samm s2) h)). set (metas := sort_dedup _).
    pose proof (remove_anns_stable metas s3) as S4. set (s4 := remove_anns s3 metas) in *.
    eapply stable_trans; [exact S1|]. eapply stable_trans; [exact S2|].
    eapply stable_trans; [apply (stable_same s2 s3); reflexivity|]. eapply stable_trans; [exact S4|].
    apply stable_same. destruct (get_set _ h); reflexivity.
  - unfold store_add_key. destruct (ref_set s d) as [h|]; [|apply stable_refl].
    destruct (get_set s h) as [ds|]; [|apply stable_refl]. destruct (dset_add_key ds tok) as [d' r]. apply stable_same. reflexivity.
Qed.

(* over any continuation of a history: what an annotation targets is what it was created with *)
Theorem targets_never_change : forall ops ops' h a',
  h < length (anns (run ops)) -> get_ann (run (ops ++ ops')) h = Some a' ->
  exists a, get_ann (run ops) h = Some a /\ same_ann a a'.
Proof.
  intros ops ops'. unfold run. rewrite fold_left_app. generalize (fold_left (fun s o => fst (step s o)) ops empty_store) as s.
  induction ops' as [|o ops' IH]; intros s h a' Hh H; cbn [fold_left] in H.
  - exists a'. split; [exact H|apply same_ann_refl].
  - destruct (step_stable s o) as (L & St).
    destruct (IH (fst (step s o)) h a' ltac:(lia) H) as (a1 & H1 & S1).
    destruct (St h a1 Hh H1) as (a0 & H0 & S0). exists a0. split; [exact H0|eapply same_ann_trans; eassumption].
Qed.
