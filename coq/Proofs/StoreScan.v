(* Scans over the live annotations (Spec/StoreSpec.v): membership, order, extension. *)
From Coq Require Import Sorting.Sorted.
From Stam Require Import Base.Tac Base.ListAux Model.Offset Model.Store Model.StoreObs Spec.StoreSpec Proofs.RelMap.

(* scan only reads the annotation slots *)
Definition scanl (l : list (option ann)) (P : ann -> bool) : list nat :=
  filter (fun h => match slot l h with Some a => P a | None => false end) (seq 0 (length l)).

Lemma scan_scanl s P : scan s P = scanl (anns s) P.
Proof. reflexivity. Qed.

Lemma scanl_In l P h : In h (scanl l P) <-> exists a, slot l h = Some a /\ P a = true.
Proof.
  unfold scanl. rewrite filter_In, in_seq. split.
  - intros [_ H]. destruct (slot l h) as [a|]; [exists a; tauto|discriminate].
  - intros (a & Ha & HP). split.
    + split; [lia|]. cbn. destruct (lt_dec h (length l)) as [Hl|Hl]; [exact Hl|].
      unfold slot in Ha. rewrite nth_overflow in Ha by lia. discriminate.
    + rewrite Ha. exact HP.
Qed.

Lemma scanl_lt l P h : In h (scanl l P) -> h < length l.
Proof. unfold scanl. rewrite filter_In, in_seq. lia. Qed.

Lemma scanl_NoDup l P : NoDup (scanl l P).
Proof. apply NoDup_filter, seq_NoDup. Qed.

Lemma scanl_ext l P Q : (forall h a, slot l h = Some a -> P a = Q a) -> scanl l P = scanl l Q.
Proof.
  intros H. unfold scanl. apply filter_ext_in. intros h _.
  destruct (slot l h) as [a|] eqn:E; [apply (H h a E)|reflexivity].
Qed.

Lemma filter_seq_sorted (f : nat -> bool) a n : StronglySorted lt (filter f (seq a n)).
Proof.
  revert a. induction n as [|n IH]; intros a; cbn [seq filter]; [constructor|].
  destruct (f a).
  - constructor; [apply IH|]. rewrite Forall_forall. intros x Hx.
    apply filter_In in Hx. destruct Hx as [Hx _]. apply in_seq in Hx. lia.
  - apply IH.
Qed.

Lemma scanl_sorted l P : StronglySorted lt (scanl l P).
Proof. apply filter_seq_sorted. Qed.

(* appending a slot *)
Lemma scanl_app_new l v P :
  scanl (l ++ [v]) P = scanl l P ++ (match v with Some a => if P a then [length l] else [] | None => [] end).
Proof.
  unfold scanl. rewrite app_length. cbn [length]. rewrite Nat.add_1_r, seq_S, filter_app. cbn [plus].
  f_equal.
  - apply filter_ext_in. intros h Hh. apply in_seq in Hh. rewrite slot_app_new.
    destruct (h =? length l) eqn:E; [lia|reflexivity].
  - cbn [filter]. rewrite slot_app_new, Nat.eqb_refl. destruct v as [a|]; [destruct (P a)|]; reflexivity.
Qed.

Lemma filter_filter {X} (f g : X -> bool) l : filter f (filter g l) = filter (fun x => g x && f x) l.
Proof.
  induction l as [|x l IH]; cbn [filter]; [reflexivity|].
  destruct (g x); cbn [andb filter]; [destruct (f x); rewrite IH; reflexivity|exact IH].
Qed.

(* emptying a slot *)
Lemma scanl_set_none l h P :
  scanl (set_slot l h None) P = filter (fun x => negb (x =? h)) (scanl l P).
Proof.
  unfold scanl. rewrite length_set_slot. rewrite filter_filter.
  apply filter_ext_in. intros x Hx. apply in_seq in Hx.
  rewrite slot_set_slot. destruct (x =? h) eqn:E; cbn [negb andb].
  - assert (x = h) by lia. subst x. destruct (h <? length l) eqn:E2; [|lia].
    rewrite andb_false_r. reflexivity.
  - rewrite andb_true_r. reflexivity.
Qed.

(* replacing a live slot by an annotation that answers P the same way *)
Lemma scanl_set_same l h a a' P :
  slot l h = Some a -> P a' = P a -> scanl (set_slot l h (Some a')) P = scanl l P.
Proof.
  intros Ha HP. unfold scanl. rewrite length_set_slot. apply filter_ext_in. intros x Hx.
  rewrite slot_set_slot. destruct ((x =? h) && (h <? length l)) eqn:E; [|reflexivity].
  assert (x = h) by lia. subst x. rewrite Ha. exact HP.
Qed.

Lemma filter_true_in {X} (f : X -> bool) l : (forall x, In x l -> f x = true) -> filter f l = l.
Proof.
  induction l as [|x l IH]; intros H; cbn [filter]; [reflexivity|].
  rewrite (H x (or_introl eq_refl)). f_equal. apply IH. intros y Hy. apply H. right; exact Hy.
Qed.

(* every member is a live annotation *)
Lemma flt_scan s P : flt s (scan s P) = scan s P.
Proof.
  unfold flt. apply filter_true_in. intros h Hh. rewrite scan_scanl in Hh.
  apply scanl_In in Hh. destruct Hh as (a & Ha & _). unfold live_ann, get_ann. rewrite Ha. reflexivity.
Qed.

(* two strictly increasing lists with the same members are equal *)
Lemma sorted_ext (l1 l2 : list nat) :
  StronglySorted lt l1 -> StronglySorted lt l2 -> (forall x, In x l1 <-> In x l2) -> l1 = l2.
Proof.
  revert l2. induction l1 as [|a l1 IH]; intros l2 H1 H2 Hm.
  - destruct l2 as [|b l2]; [reflexivity|]. exfalso. apply (proj2 (Hm b)). left; reflexivity.
  - destruct l2 as [|b l2]; [exfalso; apply (proj1 (Hm a)); left; reflexivity|].
    inversion H1 as [|? ? S1 F1]; subst. inversion H2 as [|? ? S2 F2]; subst.
    rewrite Forall_forall in F1, F2.
    assert (a = b).
    { destruct (proj1 (Hm a) (or_introl eq_refl)) as [E|E]; [symmetry; exact E|].
      destruct (proj2 (Hm b) (or_introl eq_refl)) as [E'|E']; [exact E'|].
      specialize (F1 _ E'). specialize (F2 _ E). lia. }
    subst b. f_equal. apply IH; [exact S1|exact S2|].
    intros x. split; intros Hx.
    + destruct (proj1 (Hm x) (or_intror Hx)) as [E|E]; [|exact E]. subst x. specialize (F1 _ Hx). lia.
    + destruct (proj2 (Hm x) (or_intror Hx)) as [E|E]; [|exact E]. subst x. specialize (F2 _ Hx). lia.
Qed.

(* sort_dedup: strictly increasing, same members *)
Lemma ins_sorted_In x l y : In y (ins_sorted x l) <-> y = x \/ In y l.
Proof.
  induction l as [|z l IH]; cbn [ins_sorted]; [cbn; intuition|].
  destruct (x <? z) eqn:E1; [cbn; intuition|].
  destruct (x =? z) eqn:E2.
  - assert (x = z) by lia. subst z. cbn. intuition.
  - cbn [In]. rewrite IH. intuition.
Qed.

Lemma ins_sorted_sorted x l : StronglySorted lt l -> StronglySorted lt (ins_sorted x l).
Proof.
  induction l as [|z l IH]; intros H; cbn [ins_sorted]; [repeat constructor|].
  inversion H as [|? ? S F]; subst.
  destruct (x <? z) eqn:E1.
  - constructor; [exact H|]. constructor; [lia|]. rewrite Forall_forall in *. intros y Hy. specialize (F y Hy). lia.
  - destruct (x =? z) eqn:E2; [exact H|].
    constructor; [apply IH; exact S|]. rewrite Forall_forall in *. intros y Hy.
    apply ins_sorted_In in Hy. destruct Hy as [->|Hy]; [lia|apply F; exact Hy].
Qed.

Lemma sort_dedup_In l y : In y (sort_dedup l) <-> In y l.
Proof.
  unfold sort_dedup. induction l as [|x l IH]; cbn [fold_right]; [tauto|].
  rewrite ins_sorted_In, IH. cbn. intuition.
Qed.

Lemma sort_dedup_sorted l : StronglySorted lt (sort_dedup l).
Proof.
  unfold sort_dedup. induction l as [|x l IH]; cbn [fold_right]; [constructor|].
  apply ins_sorted_sorted. exact IH.
Qed.
