(* Removal of resources, datasets, data and keys preserves the index invariant;
   every reachable store satisfies it. *)
From Coq Require Import Sorting.Sorted.
From Stam Require Import Base.Tac Base.ListAux Model.Offset Model.Store Model.StoreObs Spec.StoreSpec
     Proofs.RelMap Proofs.StoreScan Proofs.StoreInv Proofs.StoreDataDef Proofs.StoreRemove.

Lemma fuel_ok s c : length (anns s) - c < fuel_of s.
Proof. unfold fuel_of. lia. Qed.

Lemma remove_anns_Post ex : forall l s, InvE ex s -> wf_targets s ->
  Post ex 0 s (remove_anns s l) /\ (forall c, In c l -> get_ann (remove_anns s l) c = None).
Proof.
  unfold remove_anns.
  assert (G : forall l s0 s, Post ex 0 s0 s ->
            Post ex 0 s0 (fold_left (fun s c => fst (remove_ann (fuel_of s) s c)) l s)
            /\ (forall c, In c l -> get_ann (fold_left (fun s c => fst (remove_ann (fuel_of s) s c)) l s) c = None)
            /\ dead_stays s (fold_left (fun s c => fst (remove_ann (fuel_of s) s c)) l s)).
  { induction l as [|c l IH]; intros s0 s P0; cbn [fold_left].
    - split; [exact P0|]. split; [intros c []|intros x Hx; exact Hx].
    - pose proof (remove_ann_Post ex (fuel_of s) s c (P_inv _ _ _ _ P0) (P_wf _ _ _ _ P0) (fuel_ok s c)) as R.
      destruct (remove_ann (fuel_of s) s c) as [s1 r]. destruct R as (Pc & Hlive & Hdead). cbn [fst].
      assert (P1 : Post ex 0 s0 s1) by (apply (Post_trans ex 0 c s0 s s1); [lia|exact P0|exact Pc]).
      destruct (IH s0 s1 P1) as (P2 & Hall & Hstay).
      split; [exact P2|]. split.
      + intros c' [<-|Hc']; [|apply Hall; exact Hc'].
        apply Hstay. destruct (get_ann s c) as [ac|] eqn:Ec; [apply (Hlive ac eq_refl)|rewrite (Hdead eq_refl); exact Ec].
      + intros x Hx. apply Hstay. apply (Post_dead _ _ _ _ Pc). exact Hx. }
  intros l s HI Hwf. destruct (G l s s (Post_refl ex 0 s HI Hwf)) as (A & B & _). split; assumption.
Qed.

(* when every annotation selected by P is dead afterwards, the scan is empty *)
Lemma kill_row ex c s s' P L :
  Post ex c s s' ->
  (forall x a, get_ann s x = Some a -> P a = true -> In x L) ->
  (forall x, In x L -> get_ann s' x = None) ->
  scan s' P = [].
Proof.
  intros Po Hin Hdead. rewrite scan_scanl.
  destruct (scanl (anns s') P) as [|x l] eqn:E; [reflexivity|exfalso].
  assert (Hx : In x (scanl (anns s') P)) by (rewrite E; left; reflexivity).
  apply scanl_In in Hx. destruct Hx as (a & Ha & HP).
  pose proof (P_sub _ _ _ _ Po x a Ha) as Hs.
  specialize (Hdead x (Hin x a Hs HP)). unfold get_ann in Hdead. congruence.
Qed.

Lemma Post_data_ok ex c s s' : Post ex c s s' -> data_ok s -> data_ok s'.
Proof.
  intros P Hok y a Ha dx Hdx. destruct (Hok y a (P_sub _ _ _ _ P y a Ha) dx Hdx) as (ds & it & G1 & G2).
  exists ds, it. destruct (P_frame _ _ _ _ P) as (Es & _). unfold get_set in *. rewrite Es. tauto.
Qed.

Lemma data_ok_frame s s' : anns s' = anns s -> sets s' = sets s -> data_ok s -> data_ok s'.
Proof.
  intros Ea Es Hok y a Ha dx Hdx. unfold get_ann in Ha. rewrite Ea in Ha.
  destruct (Hok y a Ha dx Hdx) as (ds & it & G1 & G2). exists ds, it. unfold get_set in *. rewrite Es. tauto.
Qed.

Lemma ann_refs_frame s s' : anns s' = anns s -> ann_refs_ok s -> ann_refs_ok s'.
Proof.
  intros E H y a Hy lf Hlf. unfold get_ann in *. rewrite E in *. apply (H y a Hy lf Hlf).
Qed.

Lemma Post_item_refs ex c s s' : Post ex c s s' -> item_refs_ok s -> item_refs_ok s'.
Proof.
  intros P H y a Hy lf Hlf. pose proof (H y a (P_sub _ _ _ _ P y a Hy) lf Hlf) as H0.
  destruct (P_frame _ _ _ _ P) as (Es & Er & _).
  destruct lf; cbn [item_ref_ok] in *; unfold get_res, get_set in *; rewrite ?Es, ?Er; exact H0.
Qed.

Lemma item_refs_frame s s' : anns s' = anns s -> sets s' = sets s -> ress s' = ress s -> item_refs_ok s -> item_refs_ok s'.
Proof.
  intros Ea Es Er H y a Hy lf Hlf. unfold get_ann in Hy. rewrite Ea in Hy. pose proof (H y a Hy lf Hlf) as H0.
  destruct lf; cbn [item_ref_ok] in *; unfold get_res, get_set in *; rewrite ?Es, ?Er; exact H0.
Qed.

Lemma scan_member s P x : In x (scan s P) <-> exists a, get_ann s x = Some a /\ P a = true.
Proof. rewrite scan_scanl. apply scanl_In. Qed.

(** * remove_annotation *)
Theorem rm_annotation_Inv ex s r : InvE ex s -> wf_targets s ->
  InvE ex (fst (rm_annotation s r)) /\ wf_targets (fst (rm_annotation s r))
  /\ (data_ok s -> data_ok (fst (rm_annotation s r)))
  /\ (ann_refs_ok s -> ann_refs_ok (fst (rm_annotation s r)))
  /\ (item_refs_ok s -> item_refs_ok (fst (rm_annotation s r))).
Proof.
  intros HI Hwf. unfold rm_annotation. destruct (ref_ann s r) as [h|]; [|split; [assumption|split; [assumption|tauto]]].
  pose proof (remove_ann_Post ex (fuel_of s) s h HI Hwf (fuel_ok s h)) as R.
  destruct (remove_ann (fuel_of s) s h) as [s' o]. destruct R as (P & _ & _). cbn [fst].
  split; [exact (P_inv _ _ _ _ P)|split; [exact (P_wf _ _ _ _ P)|split; [apply (Post_data_ok _ _ _ _ P)|split; [apply (P_closed _ _ _ _ P)|apply (Post_item_refs _ _ _ _ P)]]]].
Qed.

(** * remove_resource *)
Lemma wf_frame s s' : anns s' = anns s -> wf_targets s -> wf_targets s'.
Proof. intros E Hwf x a Ha. apply (Hwf x a). unfold get_ann in *. rewrite <- E. exact Ha. Qed.

Theorem rm_resource_Inv ex s r : InvE ex s -> wf_targets s ->
  InvE ex (fst (rm_resource s r)) /\ wf_targets (fst (rm_resource s r))
  /\ (data_ok s -> data_ok (fst (rm_resource s r)))
  /\ (ann_refs_ok s -> ann_refs_ok (fst (rm_resource s r)))
  /\ (item_refs_ok s -> item_refs_ok (fst (rm_resource s r))).
Proof.
  intros HI Hwf. unfold rm_resource. destruct (ref_res s r) as [h|]; [|split; [assumption|split; [assumption|tauto]]].
  destruct (remove_anns_Post ex (rget (ramm s) h) s HI Hwf) as (P1 & D1).
  set (s1 := remove_anns s (rget (ramm s) h)) in *.
  destruct (remove_anns_Post ex (sort_dedup (concat (nth h (trm s1) []))) s1 (P_inv _ _ _ _ P1) (P_wf _ _ _ _ P1)) as (P2 & D2).
  set (s2 := remove_anns s1 (sort_dedup (concat (nth h (trm s1) [])))) in *.
  pose proof (Post_trans ex 0 0 s s1 s2 (le_n 0) P1 P2) as P12.
  (* the rows of the resource describe no live annotation any more *)
  assert (Rm : scan s2 (has_leaf (on_res_meta h)) = []).
  { apply (kill_row ex 0 s s2 _ (rget (ramm s) h) P12).
    - intros x a Ha HP. rewrite (I_ramm ex s HI). apply scan_member. exists a. tauto.
    - intros x Hx. apply (Post_dead _ _ _ _ P2). apply D1. exact Hx. }
  assert (Rt : forall t, scan s2 (has_leaf (on_ts h t)) = []).
  { intros t. apply (kill_row ex 0 s1 s2 _ (sort_dedup (concat (nth h (trm s1) []))) P2).
    - intros x a Ha HP. apply sort_dedup_In. apply In_concat_rows. exists t.
      change (rget (nth h (trm s1) []) t) with (tget (trm s1) h t).
      rewrite (I_trm ex s1 (P_inv _ _ _ _ P1)). apply scan_member. exists a. tauto.
    - exact D2. }
  set (s3 := set_trm (set_ramm s2 (rclear (ramm s2) h)) (tclear (trm s2) h)).
  assert (HI3 : InvE ex s3).
  { destruct (P_inv _ _ _ _ P2) as [H1 H2 H3 H4 H5 H6 H7].
    constructor; intros; unfold s3; cbn [set_trm set_ramm trm aam ramm samm kamm damm ddam];
      unfold s_ts_anns, s_ann_anns, s_res_meta, s_set_meta, s_key_meta, s_data_meta, s_data_anns in *;
      try first [apply H2|apply H4|apply H5|apply H6|apply H7; assumption].
    - rewrite tget_tclear. destruct (r0 =? h) eqn:E; [|apply H1].
      assert (r0 = h) by lia. subst r0. symmetry. apply Rt.
    - rewrite rget_rclear. destruct (r0 =? h) eqn:E; [|apply H3].
      assert (r0 = h) by lia. subst r0. symmetry. apply Rm. }
  assert (Hwf3 : wf_targets s3) by (apply (wf_frame s2 s3); [reflexivity|exact (P_wf _ _ _ _ P2)]).
  assert (Hok3 : data_ok s -> data_ok s3).
  { intros Hok. apply (data_ok_frame s2 s3); [reflexivity|reflexivity|]. apply (Post_data_ok _ _ _ _ P12 Hok). }
  assert (Hrf3 : ann_refs_ok s -> ann_refs_ok s3).
  { intros Hr. apply (ann_refs_frame s2 s3); [reflexivity|]. apply (P_closed _ _ _ _ P12 Hr). }
  assert (Hit3 : item_refs_ok s -> item_refs_ok s3).
  { intros Hr. apply (item_refs_frame s2 s3); [reflexivity|reflexivity|reflexivity|]. apply (Post_item_refs _ _ _ _ P12 Hr). }
  destruct (get_res s3 h) as [rs|]; cbn [fst]; [|split; [assumption|split; [assumption|split; [assumption|split; assumption]]]].
  split; [|split; [|split; [|split]]].
  - apply (Inv_same_core ex s3); [repeat split|exact HI3].
  - apply (wf_frame s3); [reflexivity|exact Hwf3].
  - intros Hok. apply (data_ok_frame s3); [reflexivity|reflexivity|apply Hok3; exact Hok].
  - intros Hr. apply (ann_refs_frame s3); [reflexivity|apply Hrf3; exact Hr].
  - (* no surviving annotation names resource h any more; all other resources are untouched *)
    intros Hr y a Hy lf Hlf.
    assert (Hy2 : get_ann s2 y = Some a) by exact Hy.
    pose proof (Hit3 Hr y a Hy2 lf Hlf) as H0.
    assert (Hnot_ts : forall t, on_ts h t lf = true -> False).
    { intros t Hon. assert (Hin : In y (scan s2 (has_leaf (on_ts h t)))).
      { apply scan_member. exists a. split; [exact Hy2|]. unfold has_leaf. apply existsb_exists. exists lf. tauto. }
      rewrite Rt in Hin. destruct Hin. }
    assert (Hnot_rm : on_res_meta h lf = true -> False).
    { intros Hon. assert (Hin : In y (scan s2 (has_leaf (on_res_meta h)))).
      { apply scan_member. exists a. split; [exact Hy2|]. unfold has_leaf. apply existsb_exists. exists lf. tauto. }
      rewrite Rm in Hin. destruct Hin. }
    assert (Hres : forall r0, r0 <> h -> get_res (set_ress (set_ridx s3 (id_del (ridx s3) (r_id rs))) (set_slot (ress s3) h None)) r0 = get_res s3 r0).
    { intros r0 Hne. unfold get_res. cbn [set_ress set_ridx ress]. rewrite slot_set_slot.
      destruct (r0 =? h) eqn:E; [lia|reflexivity]. }
    destruct lf; cbn [item_ref_ok] in *; try exact H0.
    + destruct (Nat.eq_dec r0 h) as [->|Hne]; [exfalso; apply (Hnot_ts t); cbn [on_ts]; rewrite !Nat.eqb_refl; reflexivity|].
      rewrite (Hres r0 Hne). exact H0.
    + destruct (Nat.eq_dec r0 h) as [->|Hne]; [exfalso; apply (Hnot_ts t); cbn [on_ts]; rewrite !Nat.eqb_refl; reflexivity|].
      rewrite (Hres r0 Hne). exact H0.
    + destruct (Nat.eq_dec r0 h) as [->|Hne]; [exfalso; apply Hnot_rm; cbn [on_res_meta]; rewrite Nat.eqb_refl; reflexivity|].
      rewrite (Hres r0 Hne). exact H0.
Qed.

(** * remove_dataset *)
Lemma live_handles_In {X} (l : list (option X)) h : In h (live_handles l) <-> exists a, slot l h = Some a.
Proof.
  unfold live_handles. rewrite filter_In, in_seq. split.
  - intros [_ H]. destruct (slot l h) as [a|]; [exists a; reflexivity|discriminate].
  - intros (a & Ha). split; [|rewrite Ha; reflexivity]. split; [lia|]. cbn.
    destruct (lt_dec h (length l)) as [Hl|Hl]; [exact Hl|]. unfold slot in Ha. rewrite nth_overflow in Ha by lia. discriminate.
Qed.

Theorem rm_dataset_Inv ex s r : InvE ex s -> wf_targets s ->
  InvE ex (fst (rm_dataset s r)) /\ wf_targets (fst (rm_dataset s r))
  /\ (data_ok s -> data_ok (fst (rm_dataset s r)))
  /\ (ann_refs_ok s -> ann_refs_ok (fst (rm_dataset s r)))
  /\ (item_refs_ok s -> item_refs_ok (fst (rm_dataset s r))).
Proof.
  intros HI Hwf. unfold rm_dataset. destruct (ref_set s r) as [h|]; [|split; [assumption|split; [assumption|tauto]]].
  set (users := filter _ (live_handles (anns s))).
  destruct (remove_anns_Post ex users s HI Hwf) as (P1 & D1).
  set (s1 := remove_anns s users) in *.
  destruct (remove_anns_Post ex (rget (samm s1) h) s1 (P_inv _ _ _ _ P1) (P_wf _ _ _ _ P1)) as (P2 & D2).
  set (s2 := remove_anns s1 (rget (samm s1) h)) in *.
  set (s3 := set_samm s2 (rclear (samm s2) h)).
  assert (Rs : scan s2 (has_leaf (on_set h)) = []).
  { apply (kill_row ex 0 s1 s2 _ (rget (samm s1) h) P2); [|exact D2].
    intros x a Ha HP. rewrite (I_samm ex s1 (P_inv _ _ _ _ P1)). apply scan_member. exists a. tauto. }
  assert (HI3 : InvE ex s3).
  { destruct (P_inv _ _ _ _ P2) as [H1 H2 H3 H4 H5 H6 H7].
    constructor; intros; unfold s3; cbn [set_samm trm aam ramm samm kamm damm ddam];
      unfold s_ts_anns, s_ann_anns, s_res_meta, s_set_meta, s_key_meta, s_data_meta, s_data_anns in *;
      try first [apply H1|apply H2|apply H3|apply H5|apply H6|apply H7; assumption].
    rewrite rget_rclear. destruct (d =? h) eqn:E; [|apply H4].
    assert (d = h) by lia. subst d. symmetry. apply Rs. }
  assert (Hwf3 : wf_targets s3) by (apply (wf_frame s2 s3); [reflexivity|exact (P_wf _ _ _ _ P2)]).
  set (metas := sort_dedup (concat (nth h (kamm s3) []) ++ concat (nth h (damm s3) []))).
  destruct (remove_anns_Post ex metas s3 HI3 Hwf3) as (P4 & D4).
  set (s4 := remove_anns s3 metas) in *.
  (* s -> s4 as one Post: s3 has the annotations of s2 *)
  assert (Psub : forall x a, get_ann s4 x = Some a -> get_ann s x = Some a).
  { intros x a Ha. apply (P_sub _ _ _ _ P1). apply (P_sub _ _ _ _ P2). apply (P_sub _ _ _ _ P4 x a Ha). }
  assert (Rk : forall k, scan s4 (has_leaf (on_key h k)) = []).
  { intros k. apply (kill_row ex 0 s3 s4 _ metas P4); [|exact D4].
    intros x a Ha HP. apply sort_dedup_In, in_or_app. left. apply In_concat_rows. exists k.
    change (rget (nth h (kamm s3) []) k) with (tget (kamm s3) h k).
    rewrite (I_kamm ex s3 HI3). apply scan_member. exists a. tauto. }
  assert (Rd : forall x, scan s4 (has_leaf (on_data h x)) = []).
  { intros x0. apply (kill_row ex 0 s3 s4 _ metas P4); [|exact D4].
    intros x a Ha HP. apply sort_dedup_In, in_or_app. right. apply In_concat_rows. exists x0.
    change (rget (nth h (damm s3) []) x0) with (tget (damm s3) h x0).
    rewrite (I_damm ex s3 HI3). apply scan_member. exists a. tauto. }
  assert (Ru : forall x, scan s4 (uses_data h x) = []).
  { intros x0. rewrite scan_scanl.
    destruct (scanl (anns s4) (uses_data h x0)) as [|y l] eqn:E; [reflexivity|exfalso].
    assert (Hy : In y (scanl (anns s4) (uses_data h x0))) by (rewrite E; left; reflexivity).
    apply scanl_In in Hy. destruct Hy as (a & Ha & HP).
    pose proof (Psub y a Ha) as Hs.
    assert (Hu : In y users).
    { unfold users. apply filter_In. split; [apply live_handles_In; exists a; exact Hs|].
      rewrite Hs. unfold uses_data in HP. apply existsb_exists in HP. destruct HP as (dx & Hdx & Hq).
      apply existsb_exists. exists dx. split; [exact Hdx|]. apply andb_true_iff in Hq. tauto. }
    specialize (D1 y Hu).
    assert (get_ann s4 y = None).
    { apply (Post_dead _ _ _ _ P4). change (get_ann s3 y) with (get_ann s2 y). apply (Post_dead _ _ _ _ P2). exact D1. }
    unfold get_ann in *. congruence. }
  set (s5 := set_ddam (set_damm (set_kamm s4 (tclear (kamm s4) h)) (tclear (damm s4) h)) (tclear (ddam s4) h)).
  assert (HI5 : InvE ex s5).
  { destruct (P_inv _ _ _ _ P4) as [H1 H2 H3 H4 H5 H6 H7].
    constructor; intros; unfold s5; cbn [set_ddam set_damm set_kamm trm aam ramm samm kamm damm ddam];
      unfold s_ts_anns, s_ann_anns, s_res_meta, s_set_meta, s_key_meta, s_data_meta, s_data_anns in *;
      try first [apply H1|apply H2|apply H3|apply H4].
    - rewrite tget_tclear. destruct (d =? h) eqn:E; [|apply H5]. assert (d = h) by lia. subst d. symmetry. apply Rk.
    - rewrite tget_tclear. destruct (d =? h) eqn:E; [|apply H6]. assert (d = h) by lia. subst d. symmetry. apply Rd.
    - rewrite tget_tclear. destruct (d =? h) eqn:E; [|apply H7; assumption]. assert (d = h) by lia. subst d. symmetry. apply Ru. }
  assert (Hwf5 : wf_targets s5) by (apply (wf_frame s4 s5); [reflexivity|exact (P_wf _ _ _ _ P4)]).
  assert (Hsets5 : sets s5 = sets s).
  { destruct (P_frame _ _ _ _ P1) as (A1&_). destruct (P_frame _ _ _ _ P2) as (A2&_). destruct (P_frame _ _ _ _ P4) as (A4&_).
    unfold s5. cbn [set_ddam set_damm set_kamm sets]. rewrite A4. unfold s3. cbn [set_samm sets]. congruence. }
  assert (Hno : forall y a dx, get_ann s4 y = Some a -> In dx (a_data a) -> fst dx <> h).
  { intros y a dx Ha Hdx Heq.
    assert (Hy : In y (scan s4 (uses_data h (snd dx)))).
    { apply scan_member. exists a. split; [exact Ha|]. unfold uses_data. apply existsb_exists. exists dx.
      split; [exact Hdx|]. rewrite Heq, !Nat.eqb_refl. reflexivity. }
    rewrite Ru in Hy. destruct Hy. }
  assert (Hrf5 : ann_refs_ok s -> ann_refs_ok s5).
  { intros Hr. apply (ann_refs_frame s4 s5); [reflexivity|]. apply (P_closed _ _ _ _ P4).
    apply (ann_refs_frame s2 s3); [reflexivity|]. apply (P_closed _ _ _ _ P2). apply (P_closed _ _ _ _ P1 Hr). }
  assert (Hress5 : ress s5 = ress s).
  { destruct (P_frame _ _ _ _ P1) as (_&A1&_). destruct (P_frame _ _ _ _ P2) as (_&A2&_). destruct (P_frame _ _ _ _ P4) as (_&A4&_).
    unfold s5. cbn [set_ddam set_damm set_kamm ress]. rewrite A4. unfold s3. cbn [set_samm ress]. congruence. }
  assert (Hit5 : item_refs_ok s -> item_refs_ok s5).
  { intros Hr y a Hy lf Hlf. assert (Hy4 : get_ann s4 y = Some a) by exact Hy.
    pose proof (Hr y a (Psub y a Hy4) lf Hlf) as H0.
    destruct lf; cbn [item_ref_ok] in *; unfold get_res, get_set in *; rewrite ?Hsets5, ?Hress5; exact H0. }
  destruct (get_set s5 h) as [ds|] eqn:Eg5; cbn [fst].
  2:{ split; [exact HI5|]. split; [exact Hwf5|]. split; [|split; [exact Hrf5|exact Hit5]]. intros Hok y a Ha dx Hdx.
      destruct (Hok y a (Psub y a Ha) dx Hdx) as (ds0 & it & G1 & G2).
      exists ds0, it. unfold get_set in *. rewrite Hsets5. tauto. }
  split; [|split; [|split; [|split]]]; [| | |intros Hr; apply (ann_refs_frame s5); [reflexivity|apply Hrf5; exact Hr]|].
  4:{ (* no surviving annotation names the set, one of its keys or one of its data items *)
    intros Hr y a Hy lf Hlf. assert (Hy4 : get_ann s4 y = Some a) by exact Hy.
    pose proof (Hit5 Hr y a Hy4 lf Hlf) as H0.
    assert (Hy2 : get_ann s2 y = Some a) by (apply (P_sub _ _ _ _ P4 y a Hy4)).
    assert (Hkill : forall P, scan s4 (has_leaf P) = [] -> P lf = true -> False).
    { intros P HP Hon. assert (Hin : In y (scan s4 (has_leaf P))).
      { apply scan_member. exists a. split; [exact Hy4|]. unfold has_leaf. apply existsb_exists. exists lf. tauto. }
      rewrite HP in Hin. destruct Hin. }
    assert (Hkill2 : on_set h lf = true -> False).
    { intros Hon. assert (Hin : In y (scan s2 (has_leaf (on_set h)))).
      { apply scan_member. exists a. split; [exact Hy2|]. unfold has_leaf. apply existsb_exists. exists lf. tauto. }
      rewrite Rs in Hin. destruct Hin. }
    assert (Hset : forall d0, d0 <> h -> get_set (set_sets (set_sidx s5 (id_del (sidx s5) (d_id ds))) (set_slot (sets s5) h None)) d0 = get_set s5 d0).
    { intros d0 Hne. unfold get_set. cbn [set_sets set_sidx sets]. rewrite slot_set_slot.
      destruct (d0 =? h) eqn:E; [lia|reflexivity]. }
    destruct lf; cbn [item_ref_ok] in *; try exact H0.
    + destruct (Nat.eq_dec d h) as [->|Hne]; [exfalso; apply Hkill2; cbn [on_set]; rewrite Nat.eqb_refl; reflexivity|].
      rewrite (Hset d Hne). exact H0.
    + destruct (Nat.eq_dec d h) as [->|Hne]; [exfalso; apply (Hkill _ (Rk k)); cbn [on_key]; rewrite !Nat.eqb_refl; reflexivity|].
      rewrite (Hset d Hne). exact H0.
    + destruct (Nat.eq_dec d h) as [->|Hne]; [exfalso; apply (Hkill _ (Rd x)); cbn [on_data]; rewrite !Nat.eqb_refl; reflexivity|].
      rewrite (Hset d Hne). exact H0. }
  - apply (Inv_same_core ex s5); [repeat split|exact HI5].
  - apply (wf_frame s5); [reflexivity|exact Hwf5].
  - intros Hok y a Ha dx Hdx.
    assert (Ha4 : get_ann s4 y = Some a) by exact Ha.
    destruct (Hok y a (Psub y a Ha4) dx Hdx) as (ds0 & it & G1 & G2).
    exists ds0, it. split; [|exact G2]. unfold get_set in *. cbn [set_sets set_sidx sets].
    rewrite Hsets5, slot_set_slot.
    destruct (fst dx =? h) eqn:E; cbn [andb]; [|exact G1].
    exfalso. apply (Hno y a dx Ha4 Hdx). lia.
Qed.

(** * annotate keeps "targets are older" *)
Lemma ref_ann_lt s r a : ref_ann s r = Some a -> a < length (anns s).
Proof.
  unfold ref_ann, resolve_ref. destruct r as [tok|h].
  - destruct (id_get (aidx s) tok) as [h|]; [|discriminate]. destruct (slot (anns s) h) as [x|] eqn:E; [|discriminate].
    intros H; inversion H; subst. apply (get_ann_lt s a x E).
  - destruct (slot (anns s) h) as [x|] eqn:E; [|discriminate].
    intros H; inversion H; subst. apply (get_ann_lt s a x E).
Qed.

Lemma resolve_simple_lt s b s' lf : resolve_simple s b = (s', Some lf) -> leaf_lt (length (anns s)) lf.
Proof.
  destruct b as [rr o|ar [o|]|rr|dr|dr kr|dr xr|k l]; cbn [resolve_simple].
  - destruct (ref_res s rr) as [r|]; [|discriminate]. destruct (get_res s r) as [rs|]; [|discriminate].
    destruct (resource_ts (r_len rs) o) as [rg|]; [|discriminate]. destruct (intern_sel s r rs rg).
    intros H; inversion H; subst. exact I.
  - destruct (ref_ann s ar) as [a|] eqn:Ea; [|discriminate]. pose proof (ref_ann_lt s ar a Ea) as Hlt.
    destruct (get_ann s a) as [an|]; [|discriminate].
    destruct (ann_textsel s an) as [[[r t] prg]|]; [|intros H; inversion H; subst; exact Hlt].
    destruct (selection_ts prg o) as [rg|]; [|discriminate].
    destruct (get_res s r) as [rs|]; [|discriminate]. destruct (intern_sel s r rs rg).
    intros H; inversion H; subst. exact Hlt.
  - destruct (ref_ann s ar) as [a|] eqn:Ea; [|discriminate]. pose proof (ref_ann_lt s ar a Ea) as Hlt.
    intros H; inversion H; subst. exact Hlt.
  - destruct (ref_res s rr); [|discriminate]. intros H; inversion H; subst. exact I.
  - destruct (ref_set s dr); [|discriminate]. intros H; inversion H; subst. exact I.
  - destruct (ref_set s dr) as [d|]; [|discriminate]. destruct (get_set s d) as [ds|]; [|discriminate].
    destruct (ref_key ds kr); [|discriminate]. intros H; inversion H; subst. exact I.
  - destruct (ref_set s dr) as [d|]; [|discriminate]. destruct (get_set s d) as [ds|]; [|discriminate].
    destruct (ref_data ds xr); [|discriminate]. intros H; inversion H; subst. exact I.
  - discriminate.
Qed.

Lemma resolve_subs_lt l : forall s s' lfs, resolve_subs s l = (s', Some lfs) -> Forall (leaf_lt (length (anns s))) lfs.
Proof.
  induction l as [|b l IH]; intros s s' lfs; cbn [resolve_subs].
  - intros H; inversion H; subst. constructor.
  - destruct (resolve_simple s b) as [s1 [lf|]] eqn:E1; [|discriminate].
    pose proof (resolve_simple_core s b) as C. rewrite E1 in C. cbn [fst] in C. destruct C as (Ca & _).
    destruct (resolve_subs s1 l) as [s2 [lfs'|]] eqn:E2; [|discriminate].
    intros H; inversion H; subst. constructor.
    + apply (resolve_simple_lt s b s1 lf E1).
    + rewrite <- Ca. eapply IH. exact E2.
Qed.

Lemma annotate_wf s b : wf_targets s -> wf_targets (fst (annotate s b)).
Proof.
  intros Hwf. unfold annotate.
  destruct (ab_target b) as [tb|]; [|exact Hwf].
  pose proof (resolve_target_core s tb) as C1.
  destruct (resolve_target s tb) as [s1 [[kind leaves]|]] eqn:Et; cbn [fst] in C1;
    [|apply (wf_frame s); [apply C1|exact Hwf]].
  pose proof (insert_datas_core (ab_data b) s1) as C2.
  destruct (insert_datas s1 (ab_data b)) as [s2 [data|]]; cbn [fst] in C2;
    pose proof (same_core_trans _ _ _ C1 C2) as C3; [|apply (wf_frame s); [apply C3|exact Hwf]].
  assert (Hwf2 : wf_targets s2) by (apply (wf_frame s); [apply C3|exact Hwf]).
  assert (Hlv : Forall (leaf_lt (length (anns s))) leaves).
  { unfold resolve_target in Et. destruct tb;
      try (match type of Et with context [resolve_simple ?s0 ?b0] =>
             destruct (resolve_simple s0 b0) as [s' [lf|]] eqn:E; inversion Et; subst;
             constructor; [apply (resolve_simple_lt _ _ _ _ E)|constructor] end).
    destruct (resolve_subs s l) as [s' [lfs|]] eqn:E; inversion Et; subst.
    apply (resolve_subs_lt _ _ _ _ E). }
  destruct (match ab_id b with Some tok => id_get (aidx s2) tok | None => None end) as [h'|].
  - destruct (get_ann s2 h') as [exi|]; [|exact Hwf2]. destruct (_ && _); exact Hwf2.
  - cbn [fst]. intros x a Ha.
    assert (Hanns : forall s4 h0 a0, anns (index_ann s4 h0 a0) = anns s4).
    { intros s4 h0 a0. rewrite index_ann_unfold, fold_leaves_anns.
      destruct (fold_data_frame h0 (a_data a0) s4) as (F0 & _). exact F0. }
    unfold get_ann in Ha. rewrite Hanns in Ha.
    assert (E : forall s3, anns (match ab_id b with Some tok => set_aidx s3 (id_put (aidx s3) tok (length (anns s2))) | None => s3 end) = anns s3)
      by (intros s3; destruct (ab_id b); reflexivity).
    rewrite E in Ha. cbn [set_anns anns] in Ha. rewrite slot_app_new in Ha.
    destruct (x =? length (anns s2)) eqn:Ex.
    + inversion Ha; subst a. cbn [a_leaves]. assert (x = length (anns s2)) by lia. subst x.
      destruct C3 as (Ca & _). rewrite Ca. exact Hlv.
    + apply (Hwf2 x a). exact Ha.
Qed.
