(* The data set files of STAM CSV: saving a data set (key rows, then data rows with the value as
   text) and loading the file gives a set with the same keys, the same data items under the same
   ids and keys, and the same value text (Model/Csv.v save_set / load_set). *)
From Coq Require Import List NArith ZArith Bool Arith Lia.
Import ListNotations.
From Stam Require Import Base.Tac Base.Sx Model.Offset Model.Store Model.Loader Model.Csv Spec.CsvSpec
  Proofs.Loader Proofs.RelMap Proofs.Csv.

(** * live items by structural recursion *)

Fixpoint live_from {X} (b : nat) (l : list (option X)) : list (nat * X) :=
  match l with
  | [] => []
  | Some x :: l' => (b, x) :: live_from (S b) l'
  | None :: l' => live_from (S b) l'
  end.

Lemma live_items_from_gen {X} (l : list (option X)) : forall pre,
  flat_map (fun h => match slot (pre ++ l) h with Some x => [(h, x)] | None => [] end) (seq (length pre) (length l))
  = live_from (length pre) l.
Proof.
  induction l as [|o l IH]; intro pre; [reflexivity|].
  cbn [length seq flat_map live_from].
  assert (slot (pre ++ o :: l) (length pre) = o) as E.
  { unfold slot. rewrite app_nth2 by lia. rewrite Nat.sub_diag. reflexivity. }
  rewrite E. specialize (IH (pre ++ [o])). rewrite <- app_assoc in IH. cbn [app] in IH.
  rewrite app_length in IH. cbn [length] in IH. rewrite Nat.add_1_r in IH. rewrite IH.
  destruct o; reflexivity.
Qed.

Lemma live_items_from {X} (l : list (option X)) : live_items l = live_from 0 l.
Proof. apply (live_items_from_gen l []). Qed.

Lemma live_from_all_some {X} (l : list X) : forall b, live_from b (map Some l) = combine (seq b (length l)) l.
Proof. induction l as [|x l IH]; intro b; [reflexivity|]. cbn [map live_from length seq combine]. rewrite IH. reflexivity. Qed.

Lemma rank_all_some {X} (l : list X) i : i <= length l -> rank (map Some l) i = i.
Proof.
  unfold rank. revert i. induction l as [|x l IH]; intros i Hi.
  - cbn [length] in Hi. replace i with 0 by lia. reflexivity.
  - destruct i as [|i]; [reflexivity|]. cbn [map firstn filter is_some length]. f_equal. apply IH. cbn [length] in Hi. lia.
Qed.

(** * index of a token *)

Fixpoint index_of (k : nat) (l : list nat) : option nat :=
  match l with
  | [] => None
  | x :: l' => if Nat.eqb x k then Some 0 else option_map S (index_of k l')
  end.

Lemma index_of_notin k l : ~ In k l -> index_of k l = None.
Proof.
  induction l as [|x l IH]; intro H; [reflexivity|]. cbn [index_of].
  destruct (Nat.eqb_spec x k) as [->|Hne]; [exfalso; apply H; left; reflexivity|].
  rewrite IH; [reflexivity|]. intro Hin. apply H. right. exact Hin.
Qed.

Lemma index_of_app k l x : index_of k (l ++ [x]) =
  match index_of k l with Some i => Some i | None => if Nat.eqb x k then Some (length l) else None end.
Proof.
  induction l as [|y l IH]; cbn [app index_of length].
  - destruct (Nat.eqb x k); reflexivity.
  - destruct (Nat.eqb y k); [reflexivity|]. rewrite IH.
    destruct (index_of k l); [reflexivity|]. destruct (Nat.eqb x k); reflexivity.
Qed.

(* the rank of a live slot is the position of its item among the live items *)
Lemma rank_live_from (l : list (option nat)) : forall b h x, slot l h = Some x ->
  NoDup (map snd (live_from b l)) -> index_of x (map snd (live_from b l)) = Some (rank l h).
Proof.
  induction l as [|o l IH]; intros b h x Hs Hnd.
  - unfold slot in Hs. destruct h; discriminate.
  - destruct h as [|h].
    + unfold slot in Hs. cbn [nth] in Hs. subst o. cbn [live_from map snd index_of]. rewrite Nat.eqb_refl. reflexivity.
    + change (slot (o :: l) (S h)) with (slot l h) in Hs.
      destruct o as [y|].
      * cbn [live_from map snd] in *. cbn [index_of]. inversion Hnd as [|? ? Hny Hnd']. subst.
        destruct (Nat.eqb_spec y x) as [->|Hne].
        { exfalso. apply Hny. specialize (IH (S b) h x Hs Hnd').
          destruct (in_dec Nat.eq_dec x (map snd (live_from (S b) l))) as [Hi|Hn]; [exact Hi|].
          rewrite index_of_notin in IH by exact Hn. discriminate. }
        rewrite (IH (S b) h x Hs Hnd'). cbn [option_map]. f_equal.
      * cbn [live_from] in *. rewrite (IH (S b) h x Hs Hnd). reflexivity.
Qed.

(** * loading the key rows *)

Definition KInv (d : dset) (ks : list nat) : Prop :=
  d_keys d = map Some ks /\ forall k, id_get (d_kidx d) k = index_of k ks.

Lemma add_key_new d ks k : KInv d ks -> ~ In k ks ->
  KInv (dset_add_key d k) (ks ++ [k]) /\ d_data (dset_add_key d k) = d_data d
  /\ d_xidx (dset_add_key d k) = d_xidx d /\ d_id (dset_add_key d k) = d_id d.
Proof.
  intros [Hk Hi] Hn. unfold dset_add_key. rewrite Hi, (index_of_notin k ks Hn).
  unfold KInv. cbn [d_keys d_kidx d_data d_xidx d_id]. repeat split.
  - rewrite Hk, map_app. reflexivity.
  - intro k'. rewrite id_get_put, index_of_app, Hi, Hk, map_length.
    destruct (Nat.eqb_spec k' k) as [->|Hne].
    + rewrite (index_of_notin k ks Hn), Nat.eqb_refl. reflexivity.
    + destruct (index_of k' ks); [reflexivity|]. destruct (Nat.eqb_spec k k'); [congruence|reflexivity].
Qed.

Lemma add_key_old d ks k i : KInv d ks -> index_of k ks = Some i -> dset_add_key d k = d.
Proof. intros [_ Hi] H. unfold dset_add_key. rewrite Hi, H. reflexivity. Qed.

Definition key_row (k : nat) : datarow := {| dr_id := []; dr_key := name_key k; dr_val := [] |}.

Lemma load_key_row d k : tok_fits k -> load_datarow (Some d) (key_row k) = Some (dset_add_key d k).
Proof.
  intro H. unfold load_datarow, key_row. cbn [dr_id dr_key dr_val is_empty name_key negb andb].
  unfold name_key. rewrite parse_tok_name by exact H. reflexivity.
Qed.

Lemma load_key_rows ks2 : forall ks1 d, KInv d ks1 -> NoDup (ks1 ++ ks2) -> Forall tok_fits ks2 ->
  exists d', fold_left load_datarow (map key_row ks2) (Some d) = Some d' /\ KInv d' (ks1 ++ ks2)
             /\ d_data d' = d_data d /\ d_xidx d' = d_xidx d /\ d_id d' = d_id d.
Proof.
  induction ks2 as [|k ks2 IH]; intros ks1 d Hinv Hnd Hfit.
  - exists d. rewrite app_nil_r. repeat split; try reflexivity; apply Hinv.
  - cbn [map fold_left]. inversion Hfit as [|? ? Hk Hfit']. subst.
    rewrite load_key_row by exact Hk.
    assert (~ In k ks1) as Hn.
    { intro Hin. apply NoDup_remove_2 in Hnd. apply Hnd. apply in_or_app. left. exact Hin. }
    destruct (add_key_new d ks1 k Hinv Hn) as (Hinv' & E1 & E2 & E3).
    destruct (IH (ks1 ++ [k]) (dset_add_key d k) Hinv') as (d' & Hf & Hi' & F1 & F2 & F3).
    + rewrite <- app_assoc. exact Hnd.
    + exact Hfit'.
    + exists d'. rewrite <- app_assoc in Hi'. split; [exact Hf|]. split; [exact Hi'|].
      repeat split; congruence.
Qed.

(** * loading the data rows *)

(* a data row in terms of tokens: data id, key id, value text *)
Definition data_row (x : nat * nat * str) : datarow :=
  {| dr_id := name_data (fst (fst x)); dr_key := name_key (snd (fst x)); dr_val := snd x |}.

Definition item_of (ks : list nat) (x : nat * nat * str) : option adata :=
  match index_of (snd (fst x)) ks with
  | Some i => Some (mkdata (Some (fst (fst x))) i (VStr (snd x)))
  | None => None
  end.

Definition DInv (d : dset) (ks : list nat) (xs : list (nat * nat * str)) : Prop :=
  KInv d ks /\ d_data d = map (item_of ks) xs /\ forall t, id_get (d_xidx d) t = index_of t (map (fun x => fst (fst x)) xs).

Lemma name_data_nonempty t : is_empty (name_data t) = false.
Proof. reflexivity. Qed.

Lemma load_data_row d ks xs x i : DInv d ks xs -> tok_fits (fst (fst x)) -> tok_fits (snd (fst x)) ->
  ~ In (fst (fst x)) (map (fun x => fst (fst x)) xs) -> index_of (snd (fst x)) ks = Some i ->
  exists d', load_datarow (Some d) (data_row x) = Some d' /\ DInv d' ks (xs ++ [x]) /\ d_id d' = d_id d.
Proof.
  destruct x as [[dt kt] tx]. cbn [fst snd]. intros (Hk & Hd & Hx) Hf1 Hf2 Hn Hi.
  unfold load_datarow, data_row. cbn [dr_id dr_key dr_val fst snd].
  rewrite name_data_nonempty. cbn [andb].
  unfold name_key. rewrite parse_tok_name by exact Hf2.
  unfold csv_insert_data, name_data.
  rewrite ref_of_plain_name by (reflexivity || exact Hf1). rewrite own_tok_plain by (reflexivity || exact Hf1).
  unfold ref_data, resolve_ref. rewrite Hx, (index_of_notin dt _ Hn).
  rewrite (add_key_old d ks kt i Hk Hi). destruct Hk as [Hk1 Hk2]. rewrite Hk2, Hi.
  eexists. split; [reflexivity|]. cbn [d_id]. split; [|reflexivity].
  unfold DInv, KInv. cbn [d_keys d_kidx d_data d_xidx]. repeat split.
  - exact Hk1.
  - exact Hk2.
  - rewrite Hd, map_app. cbn [map]. unfold item_of at 3. cbn [fst snd]. rewrite Hi. reflexivity.
  - intro t. rewrite id_get_put, map_app. cbn [map fst]. rewrite index_of_app, Hx, Hd, !map_length.
    destruct (Nat.eqb_spec t dt) as [->|Hne].
    + rewrite (index_of_notin dt _ Hn), Nat.eqb_refl. reflexivity.
    + destruct (index_of t (map (fun x => fst (fst x)) xs)); [reflexivity|].
      destruct (Nat.eqb_spec dt t); [congruence|reflexivity].
Qed.

Definition drow_ok (ks : list nat) (x : nat * nat * str) : Prop :=
  tok_fits (fst (fst x)) /\ tok_fits (snd (fst x)) /\ exists i, index_of (snd (fst x)) ks = Some i.

Lemma load_data_rows ks xs2 : forall xs1 d, DInv d ks xs1 ->
  NoDup (map (fun x => fst (fst x)) (xs1 ++ xs2)) -> Forall (drow_ok ks) xs2 ->
  exists d', fold_left load_datarow (map data_row xs2) (Some d) = Some d' /\ DInv d' ks (xs1 ++ xs2) /\ d_id d' = d_id d.
Proof.
  induction xs2 as [|x xs2 IH]; intros xs1 d Hinv Hnd Hok.
  - exists d. rewrite app_nil_r. repeat split; try reflexivity; apply Hinv.
  - cbn [map fold_left]. inversion Hok as [|? ? (H1 & H2 & i & H3) Hok']. subst.
    assert (~ In (fst (fst x)) (map (fun x => fst (fst x)) xs1)) as Hn.
    { rewrite map_app in Hnd. cbn [map] in Hnd. apply NoDup_remove_2 in Hnd.
      intro Hin. apply Hnd. apply in_or_app. left. exact Hin. }
    destruct (load_data_row d ks xs1 x i Hinv H1 H2 Hn H3) as (d1 & E & Hinv1 & Eid). rewrite E.
    destruct (IH (xs1 ++ [x]) d1 Hinv1) as (d' & Hf & Hi' & F).
    + rewrite <- app_assoc. exact Hnd.
    + exact Hok'.
    + exists d'. rewrite <- app_assoc in Hi'. split; [exact Hf|]. split; [exact Hi'|]. congruence.
Qed.

(** * the content of the loaded set and of the original *)

Definition row_sx (ks : list nat) (x : nat * nat * str) : sx :=
  L [of_onat (Some (fst (fst x)));
     of_nat (match index_of (snd (fst x)) ks with Some i => i | None => 0 end);
     of_str (snd x)].

Lemma index_of_lt k l i : index_of k l = Some i -> i < length l.
Proof.
  revert i. induction l as [|x l IH]; intros i H; [discriminate|]. cbn [index_of] in H.
  destruct (Nat.eqb x k).
  - injection H as <-. cbn [length]. lia.
  - destruct (index_of k l) as [j|]; [|discriminate]. injection H as <-. cbn [length]. specialize (IH j eq_refl). lia.
Qed.

Lemma live_from_map_some {X Y} (f : X -> option Y) (g : X -> Y) (xs : list X) :
  (forall x, In x xs -> f x = Some (g x)) -> forall b, live_from b (map f xs) = combine (seq b (length xs)) (map g xs).
Proof.
  induction xs as [|x xs IH]; intros H b; [reflexivity|].
  cbn [map live_from length seq combine]. rewrite (H x (or_introl eq_refl)). rewrite IH; [reflexivity|].
  intros y Hy. apply H. right. exact Hy.
Qed.

Lemma map_combine_snd {X Y Z} (f : Y -> Z) (l1 : list X) (l2 : list Y) : length l1 = length l2 ->
  map (fun p => f (snd p)) (combine l1 l2) = map f l2.
Proof.
  revert l2. induction l1 as [|a l1 IH]; intros [|b l2] H; try discriminate; [reflexivity|].
  cbn [combine map snd]. f_equal. apply IH. cbn [length] in H. lia.
Qed.

Lemma content_loaded d' ks xs : DInv d' ks xs -> Forall (drow_ok ks) xs ->
  content_set d' = L [of_nat (d_id d'); of_nats ks; L (map (row_sx ks) xs)].
Proof.
  intros ((Hk & _) & Hd & _) Hok. unfold content_set. rewrite Hk, Hd, !live_items_from.
  rewrite live_from_all_some.
  set (g := fun x : nat * nat * str =>
              mkdata (Some (fst (fst x))) (match index_of (snd (fst x)) ks with Some i => i | None => 0 end) (VStr (snd x))).
  rewrite (live_from_map_some (item_of ks) g).
  2:{ intros x Hx. rewrite Forall_forall in Hok. destruct (Hok x Hx) as (_ & _ & i & Hi).
      unfold item_of, g. rewrite Hi. reflexivity. }
  assert (map snd (combine (seq 0 (length ks)) ks) = ks) as E1.
  { rewrite <- (map_id ks) at 3. apply (map_combine_snd (fun k => k)). rewrite seq_length. reflexivity. }
  rewrite E1.
  rewrite (map_combine_snd (fun it => L [of_onat (x_id it); of_nat (rank (map Some ks) (x_key it)); of_str (value_text (x_val it))]))
    by (rewrite seq_length, map_length; reflexivity).
  rewrite map_map. do 5 f_equal.
  apply map_ext_in. intros x Hx. unfold g, row_sx. cbn [x_id x_key x_val value_text].
  rewrite Forall_forall in Hok. destruct (Hok x Hx) as (_ & _ & i & Hi). rewrite Hi.
  rewrite rank_all_some by (apply index_of_lt in Hi; lia). reflexivity.
Qed.

(* the written rows in terms of tokens *)
Definition drow_rel (d : dset) (hx : nat * adata) (x : nat * nat * str) : Prop :=
  x_id (snd hx) = Some (fst (fst x)) /\ slot (d_keys d) (x_key (snd hx)) = Some (snd (fst x))
  /\ snd x = value_text (x_val (snd hx)).

Lemma datarows_tokens d ld : forall rows,
  (forall hx, In hx ld -> exists t, x_id (snd hx) = Some t) ->
  map_opt (fun hx => match slot (d_keys d) (x_key (snd hx)) with
                     | Some kt => Some {| dr_id := data_ident (fst hx) (snd hx); dr_key := name_key kt;
                                          dr_val := value_text (x_val (snd hx)) |}
                     | None => None
                     end) ld = Some rows ->
  exists xs, rows = map data_row xs /\ Forall2 (drow_rel d) ld xs.
Proof.
  induction ld as [|hx ld IH]; intros rows Hid H.
  - injection H as <-. exists []. split; [reflexivity|constructor].
  - cbn [map_opt] in H. destruct (slot (d_keys d) (x_key (snd hx))) as [kt|] eqn:Ek; [|discriminate].
    destruct (map_opt _ ld) as [rs|] eqn:Er; [|discriminate]. injection H as <-.
    destruct (IH rs) as (xs & -> & Hrel); [intros y Hy; apply Hid; right; exact Hy|reflexivity|].
    destruct (Hid hx (or_introl eq_refl)) as (t & Ht).
    exists ((t, kt, value_text (x_val (snd hx))) :: xs). split.
    + cbn [map]. f_equal. unfold data_row, data_ident. cbn [fst snd]. rewrite Ht. reflexivity.
    + constructor; [|exact Hrel]. unfold drow_rel. cbn [fst snd]. repeat split; assumption.
Qed.

Lemma content_original d xs : NoDup (map snd (live_items (d_keys d))) ->
  Forall2 (drow_rel d) (live_items (d_data d)) xs ->
  content_set d = L [of_nat (d_id d); of_nats (map snd (live_items (d_keys d)));
                     L (map (row_sx (map snd (live_items (d_keys d)))) xs)].
Proof.
  intros Hnd Hrel. unfold content_set.
  assert (map (fun hx : nat * adata =>
                 L [of_onat (x_id (snd hx)); of_nat (rank (d_keys d) (x_key (snd hx)));
                    of_str (value_text (x_val (snd hx)))]) (live_items (d_data d))
          = map (row_sx (map snd (live_items (d_keys d)))) xs) as E.
  { induction Hrel as [|hx x ld xs (H1 & H2 & H3) Hrel IH]; [reflexivity|].
    cbn [map]. rewrite IH. f_equal.
    unfold row_sx. rewrite H1, <- H3.
    rewrite live_items_from in *. rewrite (rank_live_from (d_keys d) 0 _ _ H2 Hnd). reflexivity. }
  rewrite E. reflexivity.
Qed.

(** * the theorem *)

Definition dset_ok (d : dset) : Prop :=
  tok_fits (d_id d)
  /\ NoDup (map snd (live_items (d_keys d))) /\ Forall tok_fits (map snd (live_items (d_keys d)))
  /\ (forall hx, In hx (live_items (d_data d)) -> exists t, x_id (snd hx) = Some t /\ tok_fits t)
  /\ NoDup (map (fun hx => x_id (snd hx)) (live_items (d_data d))).

Lemma set_tok_of_name_set t : tok_fits t -> set_tok_of_name (name_set t) = Some t.
Proof.
  intro H. unfold set_tok_of_name, name_set. destruct (Nat.eqb_spec t DEFAULT_SET_TOKEN) as [->|Hne].
  - rewrite str_eqb_refl. reflexivity.
  - change (str_eqb (115%N :: nat_dec t) DEFAULT_SET_NAME) with false. apply parse_tok_name. exact H.
Qed.

Lemma rel_tokens d ld xs : Forall2 (drow_rel d) ld xs ->
  map (fun hx => x_id (snd hx)) ld = map (fun x => Some (fst (fst x))) xs.
Proof. induction 1 as [|hx x ld xs (H1 & _ & _) _ IH]; [reflexivity|]. cbn [map]. rewrite H1, IH. reflexivity. Qed.

Lemma NoDup_map_some (l : list nat) : NoDup (map Some l) -> NoDup l.
Proof.
  induction l as [|x l IH]; intro H; [constructor|]. cbn [map] in H. inversion H as [|? ? Hn Hd]. subst.
  constructor; [|apply IH; exact Hd]. intro Hin. apply Hn. apply in_map. exact Hin.
Qed.

(* the structure of the loaded set *)
Lemma load_set_struct d rows : dset_ok d -> save_set d = Some rows ->
  exists d' xs, load_set (name_set (d_id d)) rows = Some d'
    /\ DInv d' (map snd (live_items (d_keys d))) xs
    /\ Forall (drow_ok (map snd (live_items (d_keys d)))) xs
    /\ Forall2 (drow_rel d) (live_items (d_data d)) xs
    /\ d_id d' = d_id d.
Proof.
  intros (Hid & Hnd & Hfit & Hids & Hndx) Hs. unfold save_set in Hs.
  destruct (map_opt _ (live_items (d_data d))) as [datarows|] eqn:Ed; [|discriminate]. injection Hs as <-.
  destruct (datarows_tokens d (live_items (d_data d)) datarows) as (xs & -> & Hrel).
  { intros hx Hhx. destruct (Hids hx Hhx) as (t & Ht & _). exists t. exact Ht. }
  { exact Ed. }
  set (ks := map snd (live_items (d_keys d))) in *.
  assert (map (fun kt : nat * nat => {| dr_id := []; dr_key := name_key (snd kt); dr_val := [] |}) (live_items (d_keys d))
          = map key_row ks) as Ek by (unfold ks; rewrite map_map; reflexivity).
  rewrite Ek. unfold load_set. rewrite set_tok_of_name_set by exact Hid. rewrite fold_left_app.
  destruct (load_key_rows ks [] (mkset (d_id d) [] [] [] [] [])) as (dK & Hf & HK & F1 & F2 & F3).
  { split; [reflexivity|]. intro k. reflexivity. }
  { exact Hnd. }
  { exact Hfit. }
  rewrite Hf. cbn [app] in HK. cbn [d_data d_xidx d_id] in F1, F2, F3.
  assert (forall ld xs0, (forall hx, In hx ld -> exists t, x_id (snd hx) = Some t /\ tok_fits t) ->
                         Forall2 (drow_rel d) ld xs0 -> Forall (drow_ok ks) xs0) as Hgen.
  { intros ld xs0 Hl Hr. induction Hr as [|hx x ld xs' (H1 & H2 & H3) Hr IH]; [constructor|].
    constructor.
    - destruct (Hl hx (or_introl eq_refl)) as (t & Ht & Hft). rewrite H1 in Ht. injection Ht as <-.
      assert (In (snd (fst x)) ks) as Hin.
      { unfold ks. apply in_map_iff. exists (x_key (snd hx), snd (fst x)). split; [reflexivity|].
        apply live_items_In. exact H2. }
      repeat split; [exact Hft|rewrite Forall_forall in Hfit; apply Hfit; exact Hin|].
      destruct (index_of (snd (fst x)) ks) as [i|] eqn:Ei; [exists i; reflexivity|].
      exfalso. clear - Hin Ei. induction ks as [|y ks IH]; [destruct Hin|]. cbn [index_of] in Ei.
      destruct (Nat.eqb_spec y (snd (fst x))) as [|Hne]; [discriminate|].
      destruct Hin as [->|Hin]; [congruence|]. destruct (index_of (snd (fst x)) ks); [discriminate|]. apply IH; [exact Hin|reflexivity].
    - apply IH. intros hx' Hhx'. apply Hl. right. exact Hhx'. }
  assert (Forall (drow_ok ks) xs) as Hok by (apply (Hgen _ _ Hids Hrel)).
  destruct (load_data_rows ks xs [] dK) as (d' & Hf' & HD & F4).
  { split; [exact HK|]. split; [rewrite F1; reflexivity|]. intro t. rewrite F2. reflexivity. }
  { cbn [app]. apply NoDup_map_some. rewrite map_map. rewrite <- (rel_tokens d _ _ Hrel). exact Hndx. }
  { exact Hok. }
  exists d', xs. cbn [app] in HD. split; [exact Hf'|]. split; [exact HD|]. split; [exact Hok|].
  split; [exact Hrel|]. congruence.
Qed.

Theorem set_file_roundtrip d rows : dset_ok d -> save_set d = Some rows ->
  exists d', load_set (name_set (d_id d)) rows = Some d' /\ content_set d' = content_set d.
Proof.
  intros Hok Hs. destruct (load_set_struct d rows Hok Hs) as (d' & xs & Hl & HD & Hx & Hrel & Hid).
  exists d'. split; [exact Hl|].
  destruct Hok as (_ & Hnd & _).
  rewrite (content_loaded d' _ xs HD Hx), (content_original d xs Hnd Hrel), Hid. reflexivity.
Qed.
