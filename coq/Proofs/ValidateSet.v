(* Text validation, part 2: what insert_data(None, key, String) does to a dataset that satisfies the
   dataset invariant (the step protect_text performs per queued annotation). *)
From Coq Require Import NArith.
From Stam Require Import Base.Tac Base.ListAux Model.Offset Model.Utf8 Model.Store Model.StoreObs Spec.StoreSpec
     Model.TempId Model.DataValue Spec.DataSpec
     Proofs.RelMap Proofs.StoreScan Proofs.StoreInv Proofs.StoreDataDef Proofs.StoreItems Proofs.StoreSets
     Model.Validate.

Lemma value_eqb_str a v : value_eqb a (VStr v) = true -> a = VStr v.
Proof.
  destruct a as [| | | |s|]; cbn [value_eqb]; try discriminate. intros E. f_equal.
  revert v E. induction s as [|c s IH]; intros [|d v] E; try discriminate; [reflexivity|].
  apply andb_prop in E. destruct E as [E1 E2]. apply N.eqb_eq in E1. subst. f_equal. apply IH. exact E2.
Qed.

Lemma value_eqb_str_refl v : value_eqb (VStr v) (VStr v) = true.
Proof. cbn [value_eqb]. induction v as [|c v IH]; [reflexivity|]. rewrite N.eqb_refl. exact IH. Qed.

(* under the invariant a key id resolves to the slot that carries it *)
Lemma ref_key_iff ds t k : DsInv ds -> (ref_key ds (ById t) = Some k <-> slot (d_keys ds) k = Some t).
Proof.
  intros HI. unfold ref_key, resolve_ref. split.
  - destruct (id_get (d_kidx ds) t) as [h|] eqn:E; [|discriminate].
    destruct (slot (d_keys ds) h) eqn:Es; [|discriminate]. intros H; inversion H; subst h.
    apply (D_kidx ds HI). exact E.
  - intros Hs. rewrite (proj2 (D_kidx ds HI t k) Hs), Hs. reflexivity.
Qed.

Lemma ref_key_none_iff ds t : DsInv ds -> (ref_key ds (ById t) = None <-> forall k, slot (d_keys ds) k <> Some t).
Proof.
  intros HI. split.
  - intros Hn k Hs. apply (ref_key_iff ds t k HI) in Hs. congruence.
  - intros Hn. destruct (ref_key ds (ById t)) as [k|] eqn:E; [|reflexivity].
    apply (ref_key_iff ds t k HI) in E. destruct (Hn k E).
Qed.

(* what one insertion of a string under the key [ktok] yields *)
Record StrIns (ds ds' : dset) (ktok : nat) (v : text) (x k : nat) : Prop := mkStrIns {
  SI_inv : DsInv ds';
  SI_id : d_id ds' = d_id ds;
  SI_key : slot (d_keys ds') k = Some ktok;
  SI_item : exists it, slot (d_data ds') x = Some it /\ x_key it = k /\ x_val it = VStr v;
  SI_data : forall x0 it0, slot (d_data ds) x0 = Some it0 -> slot (d_data ds') x0 = Some it0;
  SI_keys : forall k0 t, slot (d_keys ds) k0 = Some t -> slot (d_keys ds') k0 = Some t;
  SI_keys_back : forall k0 t, slot (d_keys ds') k0 = Some t -> t <> ktok -> slot (d_keys ds) k0 = Some t;
  SI_fresh_key : ref_key ds (ById ktok) = None ->
                 forall x0 it0, slot (d_data ds) x0 = Some it0 -> x_key it0 <> k
}.

Lemma insert_str ds ktok v : DsInv ds ->
  exists ds' x k, dset_insert_data ds None (Some (ById ktok)) (VStr v) = (ds', OOk x) /\ StrIns ds ds' ktok v x k.
Proof.
  intros HI.
  pose proof (dset_insert_data_DsInv ds None (Some (ById ktok)) (VStr v) HI I) as HI'.
  unfold dset_insert_data in *. cbv iota beta in *.
  destruct (ref_key ds (ById ktok)) as [k|] eqn:Ek.
  - cbn [negb] in *. pose proof (proj1 (ref_key_iff ds ktok k HI) Ek) as Hk.
    destruct (data_by_value ds k (VStr v)) as [h|] eqn:Ed.
    + exists ds, h, k. split; [reflexivity|].
      rewrite (data_by_value_spec ds k (VStr v) HI) in Ed. apply find_some in Ed. destruct Ed as [_ Ed].
      destruct (slot (d_data ds) h) as [it|] eqn:Es; [|discriminate]. apply andb_prop in Ed. destruct Ed as [E1 E2].
      constructor; auto.
      * exists it. split; [exact Es|]. split; [lia|apply value_eqb_str; exact E2].
      * congruence.
    + cbn [fst] in HI'. eexists _, (length (d_data ds)), k. split; [reflexivity|].
      constructor; cbn [d_id d_keys d_data]; auto.
      * exists (mkdata None k (VStr v)). rewrite slot_app_new, Nat.eqb_refl. auto.
      * intros x0 it0 H0. rewrite slot_app_new. destruct (x0 =? length (d_data ds)) eqn:E; [|exact H0].
        apply slot_lt in H0. lia.
      * congruence.
  - cbn [negb] in *. cbn [fst] in HI'. eexists _, (length (d_data ds)), (length (d_keys ds)). split; [reflexivity|].
    constructor; cbn [d_id d_keys d_data]; auto.
    + rewrite slot_app_new, Nat.eqb_refl. reflexivity.
    + exists (mkdata None (length (d_keys ds)) (VStr v)). rewrite slot_app_new, Nat.eqb_refl. auto.
    + intros x0 it0 H0. rewrite slot_app_new. destruct (x0 =? length (d_data ds)) eqn:E; [|exact H0].
      apply slot_lt in H0. lia.
    + intros k0 t H0. rewrite slot_app_new. destruct (k0 =? length (d_keys ds)) eqn:E; [|exact H0].
      apply slot_lt in H0. lia.
    + intros k0 t H0 Hne. rewrite slot_app_new in H0. destruct (k0 =? length (d_keys ds)) eqn:E; [|exact H0].
      inversion H0. congruence.
    + intros _ x0 it0 H0 Hc. pose proof (D_keys ds HI x0 it0 H0) as Hl. unfold key_live in Hl.
      apply Hl. unfold slot. apply nth_overflow. lia.
Qed.
