(* Handles: the sorted fast paths of union / intersection / contains agree
   with plain set operations, and the `sorted` flag always describes the array. *)
From Stam Require Import Base.Tac Base.ListAux Model.Handles Spec.HandlesSpec.

Definition ssorted (l : list nat) : Prop := StronglySorted lt l.
(* the representation invariant of a Handles collection of distinct handles *)
Definition ok (h : handles) : Prop := NoDup (arr h) /\ (srt h = true -> ssorted (arr h)).

Lemma mem_In x l : mem x l = true <-> In x l.
Proof.
  unfold mem. rewrite existsb_exists. split.
  - intros (y & Hy & E). apply Nat.eqb_eq in E. subst. exact Hy.
  - intros H. exists x. split; [exact H|apply Nat.eqb_refl].
Qed.

Lemma mem_false x l : mem x l = false <-> ~ In x l.
Proof. rewrite <- mem_In. destruct (mem x l); split; congruence. Qed.

Lemma mem_app x a b : mem x (a ++ b) = mem x a || mem x b.
Proof. unfold mem. apply existsb_app. Qed.

Lemma ssorted_inv a l : ssorted (a :: l) -> ssorted l /\ Forall (lt a) l.
Proof. intros H. inversion H; subst. split; assumption. Qed.

Lemma ssorted_nodup l : ssorted l -> NoDup l.
Proof.
  induction l as [|a l IH]; intros H; [constructor|].
  apply ssorted_inv in H. destruct H as [Hs Ha]. constructor; [|apply IH; exact Hs].
  intros Hin. rewrite Forall_forall in Ha. specialize (Ha a Hin). lia.
Qed.

Lemma ssorted_skipn l : forall n, ssorted l -> ssorted (skipn n l).
Proof.
  induction l as [|a l IH]; intros n H; [rewrite skipn_nil; exact H|].
  destruct n; [exact H|]. cbn [skipn]. apply IH. apply ssorted_inv in H. tauto.
Qed.

Lemma ssorted_app a b : ssorted a -> ssorted b -> (forall x y, In x a -> In y b -> x < y) ->
  ssorted (a ++ b).
Proof.
  induction a as [|x a IH]; intros Ha Hb H; [exact Hb|].
  apply ssorted_inv in Ha. destruct Ha as [Ha Hx]. cbn [app]. constructor.
  - apply IH; [exact Ha|exact Hb|]. intros u v Hu Hv. apply H; [right; exact Hu|exact Hv].
  - apply Forall_app. split; [exact Hx|]. apply Forall_forall. intros y Hy. apply H; [left; reflexivity|exact Hy].
Qed.

(* two strictly sorted lists with the same elements are equal *)
Lemma ssorted_ext l : forall m, ssorted l -> ssorted m -> (forall x, In x l <-> In x m) -> l = m.
Proof.
  induction l as [|a l IH]; intros m Hl Hm H.
  - destruct m as [|b m]; [reflexivity|]. exfalso. apply (proj2 (H b)). left; reflexivity.
  - destruct m as [|b m]; [exfalso; apply (proj1 (H a)); left; reflexivity|].
    apply ssorted_inv in Hl. destruct Hl as [Hl Ha].
    apply ssorted_inv in Hm. destruct Hm as [Hm Hb].
    rewrite Forall_forall in Ha, Hb.
    assert (a = b).
    { destruct (proj1 (H a) (or_introl eq_refl)) as [E|Hin]; [congruence|].
      destruct (proj2 (H b) (or_introl eq_refl)) as [E|Hin']; [congruence|].
      specialize (Ha b Hin'). specialize (Hb a Hin). lia. }
    subst b. f_equal. apply IH; try assumption.
    intros x. split; intros Hx.
    + destruct (proj1 (H x) (or_intror Hx)) as [E|Hin]; [|exact Hin].
      subst x. specialize (Ha a Hx). lia.
    + destruct (proj2 (H x) (or_intror Hx)) as [E|Hin]; [|exact Hin].
      subst x. specialize (Hb a Hx). lia.
Qed.

(** * insertion sort *)

Lemma insert_In x y l : In y (insert_sorted x l) <-> y = x \/ In y l.
Proof.
  induction l as [|a l IH]; cbn [insert_sorted]; [cbn; intuition|].
  destruct (x <=? a); cbn [In]; [intuition|]. rewrite IH. intuition.
Qed.

Lemma sort_In y l : In y (sort l) <-> In y l.
Proof.
  induction l as [|a l IH]; [reflexivity|]. unfold sort in *. cbn [fold_right].
  rewrite insert_In, IH. cbn [In]. intuition.
Qed.

Lemma insert_ssorted x l : ssorted l -> ~ In x l -> ssorted (insert_sorted x l).
Proof.
  induction l as [|a l IH]; intros Hs Hn; cbn [insert_sorted]; [repeat constructor|].
  pose proof (ssorted_inv _ _ Hs) as [Hl Ha]. rewrite Forall_forall in Ha.
  destruct (x <=? a) eqn:E.
  - constructor; [exact Hs|]. apply Forall_forall. intros y [Hy|Hy].
    + subst y. assert (x <> a) by (intros ->; apply Hn; left; reflexivity). lia.
    + specialize (Ha y Hy). lia.
  - constructor; [apply IH; [exact Hl| intros H; apply Hn; right; exact H]|].
    apply Forall_forall. intros y Hy. apply insert_In in Hy. destruct Hy as [->|Hy]; [lia|apply Ha; exact Hy].
Qed.

Lemma sort_ssorted l : NoDup l -> ssorted (sort l).
Proof.
  induction 1 as [|a l Hn Hd IH]; [constructor|]. unfold sort in *. cbn [fold_right].
  apply insert_ssorted; [exact IH|]. fold (sort l). rewrite sort_In. exact Hn.
Qed.

Lemma sort_id l : ssorted l -> sort l = l.
Proof.
  intros H. apply ssorted_ext; [apply sort_ssorted, ssorted_nodup, H|exact H|intros x; apply sort_In].
Qed.

(** * binary search on a strictly sorted slice *)

Lemma bsearch_spec x l : ssorted l ->
  let '(f, i) := bsearch x l in
  f = mem x l /\ i <= length l
  /\ (forall y, In y (firstn i l) -> y < x)
  /\ (f = true -> nth i l 0 = x /\ i < length l)
  /\ (forall y, In y (skipn (if f then S i else i) l) -> x < y).
Proof.
  induction l as [|a l IH]; intros Hs; cbn [bsearch].
  - cbn. repeat split; try lia; try contradiction; discriminate.
  - apply ssorted_inv in Hs. destruct Hs as [Hl Ha]. rewrite Forall_forall in Ha.
    specialize (IH Hl). cbn [mem existsb].
    destruct (x =? a) eqn:E1.
    + apply Nat.eqb_eq in E1. subst a. cbn [orb firstn nth length skipn]. repeat split; try lia; try contradiction.
      intros y Hy. apply Ha. exact Hy.
    + destruct (x <? a) eqn:E2.
      * cbn [firstn skipn length]. repeat split; try lia; try contradiction; try discriminate.
        -- symmetry. cbn [orb]. apply mem_false. intros Hin. specialize (Ha x Hin). lia.
        -- intros y [Hy|Hy]; [lia|]. specialize (Ha y Hy). lia.
      * destruct (bsearch x l) as [f i]. destruct IH as (H1 & H2 & H3 & H4 & H5).
        cbn [orb firstn length nth]. split; [exact H1|]. split; [lia|]. split; [|split].
        -- intros y [Hy|Hy]; [lia|apply H3; exact Hy].
        -- intros Hf. destruct (H4 Hf). split; [assumption|lia].
        -- destruct f; cbn [skipn]; exact H5.
Qed.

Lemma bsearch_mem x l : ssorted l -> fst (bsearch x l) = mem x l.
Proof. intros H. pose proof (bsearch_spec x l H) as S. destruct (bsearch x l). cbn. tauto. Qed.

Lemma contains_ok h x : ok h -> contains h x = mem x (arr h).
Proof.
  intros [_ H]. unfold contains. destruct (srt h); [|reflexivity]. apply bsearch_mem. apply H. reflexivity.
Qed.

Lemma nondecr_nodup_ssorted l : nondecr l = true -> NoDup l -> ssorted l.
Proof.
  induction l as [|a l IH]; intros Hn Hd; [constructor|].
  inversion Hd as [|? ? Ha Hd']; subst.
  assert (Hl : nondecr l = true).
  { destruct l as [|b l]; [reflexivity|]. cbn [nondecr] in Hn. apply andb_prop in Hn. tauto. }
  specialize (IH Hl Hd'). constructor; [exact IH|].
  destruct l as [|b l]; [constructor|]. cbn [nondecr] in Hn. apply andb_prop in Hn. destruct Hn as [Hab _].
  apply ssorted_inv in IH. destruct IH as [_ Hb]. rewrite Forall_forall in Hb.
  apply Forall_forall. intros y [Hy|Hy].
  - subst y. assert (a <> b) by (intros ->; apply Ha; left; reflexivity). lia.
  - specialize (Hb y Hy). assert (a <> b) by (intros ->; apply Ha; left; reflexivity). lia.
Qed.

Lemma from_iter_ok l : NoDup l -> ok (from_iter l).
Proof.
  intros H. split; [exact H|]. cbn [srt from_iter arr]. intros Hn. apply nondecr_nodup_ssorted; assumption.
Qed.

Lemma ssorted_nondecr l : ssorted l -> nondecr l = true.
Proof.
  induction l as [|a l IH]; intros H; [reflexivity|].
  apply ssorted_inv in H. destruct H as [Hl Ha]. destruct l as [|b l]; [reflexivity|].
  specialize (IH Hl). inversion Ha; subst. change (nondecr (a :: b :: l)) with ((a <=? b) && nondecr (b :: l)).
  rewrite IH, andb_true_r. lia.
Qed.

(** * The sorted fast paths *)

Lemma firstn_S_In (l : list nat) : forall i y, In y (firstn (S i) l) ->
  In y (firstn i l) \/ (i < length l /\ y = nth i l 0).
Proof.
  induction l as [|a l IH]; intros i y H; [destruct i; contradiction|].
  destruct i.
  - cbn in H. destruct H as [H|[]]. right. cbn. split; [lia|congruence].
  - cbn [firstn] in H. destruct H as [H|H]; [left; left; exact H|].
    destruct (IH i y H) as [H'|[H1 H2]]; [left; right; exact H'|right]. cbn [length nth]. split; [lia|exact H2].
Qed.

Lemma mem_skipn_lt z k l : (forall y, In y (firstn k l) -> y < z) -> mem z l = mem z (skipn k l).
Proof.
  intros H. rewrite <- (firstn_skipn k l) at 1. rewrite mem_app.
  replace (mem z (firstn k l)) with false; [reflexivity|].
  symmetry. apply mem_false. intros Hin. specialize (H z Hin). lia.
Qed.

(* after searching x in a sorted slice, any larger z is found in the rest iff it is in the slice *)
Lemma bsearch_advance x z l : ssorted l -> x < z ->
  let '(f, i) := bsearch x l in
  mem z l = mem z (skipn (if f then i + 1 else i) l).
Proof.
  intros Hs Hxz. pose proof (bsearch_spec x l Hs) as S. destruct (bsearch x l) as [f i].
  destruct S as (H1 & H2 & H3 & H4 & H5). apply mem_skipn_lt. intros y Hy. destruct f.
  - replace (i + 1) with (S i) in Hy by lia. destruct (firstn_S_In _ _ _ Hy) as [H|[_ H]].
    + specialize (H3 y H). lia.
    + destruct (H4 eq_refl) as [E _]. lia.
  - specialize (H3 y Hy). lia.
Qed.

Lemma union_ss_spec orig : ssorted orig -> forall other off app, ssorted other ->
  (forall z, In z other -> mem z orig = mem z (skipn off orig)) ->
  union_ss orig off other app = app ++ filter (fun x => negb (mem x orig)) other.
Proof.
  intros Ho. induction other as [|x o' IH]; intros off app Hs Hinv; cbn [union_ss filter].
  - rewrite app_nil_r. reflexivity.
  - apply ssorted_inv in Hs. destruct Hs as [Hs' Hx]. rewrite Forall_forall in Hx.
    pose proof (ssorted_skipn orig off Ho) as Hsk.
    pose proof (bsearch_mem x _ Hsk) as Hm.
    assert (Hadv : forall z, In z o' ->
               mem z orig = mem z (skipn (if fst (bsearch x (skipn off orig)) then off + snd (bsearch x (skipn off orig)) + 1
                                          else off + snd (bsearch x (skipn off orig))) orig)).
    { intros z Hz. rewrite (Hinv z (or_intror Hz)).
      pose proof (bsearch_advance x z _ Hsk (Hx z Hz)) as A.
      destruct (bsearch x (skipn off orig)) as [f i]. cbn [fst snd]. rewrite A, skipn_skipn.
      destruct f; do 2 f_equal; lia. }
    rewrite (Hinv x (or_introl eq_refl)), <- Hm.
    destruct (bsearch x (skipn off orig)) as [f i]. cbn [fst snd] in *. destruct f; cbn [negb].
    + apply IH; assumption.
    + rewrite IH by assumption. rewrite <- app_assoc. reflexivity.
Qed.

Lemma inter_ss_spec other : ssorted other -> forall self off, ssorted self ->
  (forall z, In z self -> mem z other = mem z (skipn off other)) ->
  inter_ss other off self = filter (fun x => mem x other) self.
Proof.
  intros Ho. induction self as [|x s' IH]; intros off Hs Hinv; cbn [inter_ss filter]; [reflexivity|].
  apply ssorted_inv in Hs. destruct Hs as [Hs' Hx]. rewrite Forall_forall in Hx.
  pose proof (ssorted_skipn other off Ho) as Hsk.
  pose proof (bsearch_mem x _ Hsk) as Hm.
  assert (Hadv : forall z, In z s' ->
             mem z other = mem z (skipn (if fst (bsearch x (skipn off other)) then off + snd (bsearch x (skipn off other)) + 1
                                         else off + snd (bsearch x (skipn off other))) other)).
  { intros z Hz. rewrite (Hinv z (or_intror Hz)).
    pose proof (bsearch_advance x z _ Hsk (Hx z Hz)) as A.
    destruct (bsearch x (skipn off other)) as [f i]. cbn [fst snd]. rewrite A, skipn_skipn.
    destruct f; do 2 f_equal; lia. }
  rewrite (Hinv x (or_introl eq_refl)), <- Hm.
  destruct (bsearch x (skipn off other)) as [f i]. cbn [fst snd] in *. destruct f.
  - f_equal. apply IH; assumption.
  - apply IH; assumption.
Qed.

(** * union *)

Lemma filter_ext_In' {X} (f g : X -> bool) l : (forall x, In x l -> f x = g x) -> filter f l = filter g l.
Proof. apply filter_ext_in. Qed.

Lemma In_spec_union x A B : In x (spec_union_list A B) <-> In x A \/ In x B.
Proof.
  unfold spec_union_list. rewrite in_app_iff, filter_In, negb_true_iff, mem_false.
  destruct (in_dec Nat.eq_dec x A); tauto.
Qed.

Lemma NoDup_spec_union A B : NoDup A -> NoDup B -> NoDup (spec_union_list A B).
Proof.
  intros HA HB. unfold spec_union_list. apply NoDup_app'; [exact HA|apply NoDup_filter; exact HB|].
  intros x Hx Hf. apply filter_In in Hf. destruct Hf as [_ Hf]. apply negb_true_iff, mem_false in Hf. exact (Hf Hx).
Qed.

Lemma ssorted_firstn l : forall n, ssorted l -> ssorted (firstn n l).
Proof.
  induction l as [|a l IH]; intros n H; [rewrite firstn_nil; exact H|].
  destruct n; [constructor|]. cbn [firstn]. apply ssorted_inv in H. destruct H as [Hl Ha].
  constructor; [apply IH; exact Hl|]. rewrite Forall_forall in *. intros y Hy. apply Ha.
  rewrite <- (firstn_skipn n l). apply in_or_app. left; exact Hy.
Qed.

Lemma ssorted_filter f l : ssorted l -> ssorted (filter f l).
Proof.
  induction l as [|a l IH]; intros H; [exact H|]. apply ssorted_inv in H. destruct H as [Hl Ha].
  cbn [filter]. destruct (f a); [|apply IH; exact Hl]. constructor; [apply IH; exact Hl|].
  rewrite Forall_forall in *. intros y Hy. apply filter_In in Hy. apply Ha. tauto.
Qed.

Lemma fold_union B : forall acc, NoDup B ->
  fold_left (fun acc x => if mem x acc then acc else acc ++ [x]) B acc
  = acc ++ filter (fun x => negb (mem x acc)) B.
Proof.
  induction B as [|x B IH]; intros acc HB; cbn [fold_left filter]; [rewrite app_nil_r; reflexivity|].
  inversion HB as [|? ? Hx HB']; subst. destruct (mem x acc) eqn:E; cbn [negb].
  - apply IH. exact HB'.
  - rewrite IH by exact HB'. rewrite <- app_assoc. cbn [app]. do 2 f_equal.
    apply filter_ext_in. intros y Hy. rewrite mem_app. cbn [mem existsb].
    rewrite orb_false_r. destruct (Nat.eqb_spec y x); [subst; contradiction|]. rewrite orb_false_r. reflexivity.
Qed.

Lemma add_spec A x : ok A ->
  arr (add A x) = (if srt A then sort (spec_union_list (arr A) [x]) else spec_union_list (arr A) [x])
  /\ srt (add A x) = srt A.
Proof.
  intros [Hd Hs]. unfold add, spec_union_list. cbn [filter]. destruct (srt A) eqn:Es.
  - specialize (Hs eq_refl). pose proof (bsearch_spec x (arr A) Hs) as S.
    destruct (bsearch x (arr A)) as [f i]. destruct S as (H1 & H2 & H3 & H4 & H5). rewrite <- H1.
    destruct f; cbn [negb].
    + rewrite app_nil_r, sort_id by exact Hs. split; [reflexivity|exact Es].
    + cbn [arr srt]. split; [|reflexivity]. apply ssorted_ext.
      * apply ssorted_app; [apply ssorted_firstn; exact Hs| |].
        -- constructor; [apply ssorted_skipn; exact Hs|]. apply Forall_forall. exact H5.
        -- intros u v Hu [Hv|Hv]; [subst; apply H3; exact Hu|]. specialize (H3 u Hu). specialize (H5 v Hv). lia.
      * apply sort_ssorted. apply NoDup_app'; [exact Hd|repeat constructor; intros []|].
        intros y Hy [E|[]]. subst y. apply mem_In in Hy. congruence.
      * intros y. rewrite sort_In, !in_app_iff. cbn [In].
        rewrite <- (firstn_skipn i (arr A)) at 3. rewrite in_app_iff. tauto.
  - destruct (mem x (arr A)) eqn:E; cbn [negb arr srt]; [rewrite app_nil_r|]; split; try reflexivity; exact Es.
Qed.

Theorem union_spec A B : ok A -> ok B ->
  arr (union A B) = (if srt A then sort (spec_union_list (arr A) (arr B)) else spec_union_list (arr A) (arr B))
  /\ srt (union A B) = srt A.
Proof.
  intros HA HB. pose proof HA as [HdA HsA]. pose proof HB as [HdB HsB]. unfold union.
  destruct (arr B) as [|x [|y l]] eqn:EB.
  - unfold spec_union_list. cbn [filter]. rewrite app_nil_r. split; [|reflexivity].
    destruct (srt A) eqn:Es; [|reflexivity]. rewrite sort_id; [reflexivity|apply HsA; reflexivity].
  - apply add_spec. exact HA.
  - rewrite <- EB in *. clear EB x y l.
    destruct (srt A) eqn:EsA; cbn [andb].
    + specialize (HsA eq_refl).
      assert (Happ : (if srt B then union_ss (arr A) 0 (arr B) []
                      else filter (fun x => negb (fst (bsearch x (arr A)))) (arr B))
                     = filter (fun x => negb (mem x (arr A))) (arr B)).
      { destruct (srt B) eqn:EsB.
        - rewrite union_ss_spec; [reflexivity|exact HsA|apply HsB; reflexivity|]. intros z _. reflexivity.
        - apply filter_ext. intros z. rewrite bsearch_mem by exact HsA. reflexivity. }
      unfold spec_union_list.
      destruct (srt B) eqn:EsB; rewrite Happ;
        destruct (filter (fun x => negb (mem x (arr A))) (arr B)) as [|z zs] eqn:EF; cbn [is_nil arr srt];
        rewrite ?app_nil_r, ?sort_id by exact HsA; split; first [reflexivity | exact EsA].
    + cbn [arr srt]. rewrite fold_union by exact HdB. split; reflexivity.
Qed.

Corollary union_ok A B : ok A -> ok B -> ok (union A B).
Proof.
  intros HA HB. destruct (union_spec A B HA HB) as [Harr Hsrt]. destruct HA as [HdA HsA]. destruct HB as [HdB _].
  pose proof (NoDup_spec_union _ _ HdA HdB) as Hd. split.
  - rewrite Harr. destruct (srt A); [apply ssorted_nodup, sort_ssorted|]; exact Hd.
  - rewrite Hsrt, Harr. intros E. rewrite E. apply sort_ssorted. exact Hd.
Qed.

Corollary union_mem A B x : ok A -> ok B ->
  contains (union A B) x = mem x (arr A) || mem x (arr B).
Proof.
  intros HA HB. rewrite contains_ok by (apply union_ok; assumption).
  destruct (union_spec A B HA HB) as [Harr _]. rewrite Harr.
  apply eq_true_iff_eq. rewrite orb_true_iff, !mem_In.
  destruct (srt A); rewrite ?sort_In, In_spec_union; reflexivity.
Qed.

(** * intersection *)

Lemma retain_spec A B : ok A -> ok B ->
  arr (retain A B) = spec_inter_list (arr A) (arr B) /\ srt (retain A B) = srt A.
Proof.
  intros [HdA HsA] HB. pose proof HB as [HdB HsB]. unfold retain, spec_inter_list.
  destruct (srt A && srt B) eqn:E; cbn [arr srt]; split; try reflexivity.
  - apply andb_prop in E. destruct E as [EA EB].
    apply inter_ss_spec; [apply HsB; exact EB|apply HsA; exact EA|]. intros z _. reflexivity.
  - apply filter_ext. intros z. apply contains_ok. exact HB.
Qed.

Lemma In_spec_inter x A B : In x (spec_inter_list A B) <-> In x A /\ In x B.
Proof. unfold spec_inter_list. rewrite filter_In, mem_In. reflexivity. Qed.

Lemma list_eqb_eq (l m : list nat) :
  length l = length m -> forallb (fun p => fst p =? snd p) (combine l m) = true -> l = m.
Proof.
  revert m. induction l as [|a l IH]; intros [|b m] Hl H; try discriminate; [reflexivity|].
  cbn in H. apply andb_prop in H. destruct H as [E H]. apply Nat.eqb_eq in E. subst b.
  f_equal. apply IH; [cbn in Hl; lia|exact H].
Qed.

Lemma subset_In h sub : ok h -> contains_subset h sub = true -> forall x, In x (arr sub) -> In x (arr h).
Proof.
  intros Hh H x Hx. unfold contains_subset in H. rewrite forallb_forall in H. specialize (H x Hx).
  rewrite contains_ok in H by exact Hh. apply mem_In. exact H.
Qed.

Theorem intersection_spec A B : ok A -> ok B ->
  ok (intersection A B) /\ srt (intersection A B) = srt A
  /\ forall x, In x (arr (intersection A B)) <-> In x (arr A) /\ In x (arr B).
Proof.
  intros HA HB. pose proof HA as [HdA HsA]. pose proof HB as [HdB HsB].
  assert (Hret : ok (retain A B) /\ srt (retain A B) = srt A
                 /\ forall x, In x (arr (retain A B)) <-> In x (arr A) /\ In x (arr B)).
  { destruct (retain_spec A B HA HB) as [Harr Hsrt]. rewrite Harr, Hsrt. split; [|split; [reflexivity|]].
    - split; [rewrite Harr; apply NoDup_filter; exact HdA|]. rewrite Harr, Hsrt. intros E.
      apply ssorted_filter. apply HsA. exact E.
    - intros x. apply In_spec_inter. }
  unfold intersection.
  destruct ((length (arr A) =? 0) || (length (arr B) =? 0)) eqn:E0.
  - cbn [arr srt]. split; [split; [constructor|intros _; constructor]|]. split; [reflexivity|].
    intros x. split; [intros []|]. intros [Ha Hb].
    destruct (arr A); [contradiction|]. destruct (arr B); [contradiction|]. cbn in E0. discriminate.
  - destruct ((length (arr A) =? length (arr B)) && srt A && srt B) eqn:E1.
    + destruct (forallb _ _) eqn:E2; [|exact Hret].
      apply andb_prop in E1. destruct E1 as [E1 _]. apply andb_prop in E1. destruct E1 as [E1 _].
      apply Nat.eqb_eq in E1. pose proof (list_eqb_eq _ _ E1 E2) as Heq.
      split; [exact HA|]. split; [reflexivity|]. intros x. rewrite <- Heq. tauto.
    + destruct (length (arr B) <? length (arr A)) eqn:E2.
      * destruct (Bool.eqb (srt A) (srt B) && contains_subset A B) eqn:E3; [|exact Hret].
        apply andb_prop in E3. destruct E3 as [Ef Es]. apply Bool.eqb_prop in Ef.
        cbn [arr srt]. split; [split; [exact HdB|rewrite Ef; exact HsB]|]. split; [reflexivity|].
        intros x. pose proof (subset_In A B HA Es x). tauto.
      * destruct (length (arr A) <? length (arr B)) eqn:E3; [|exact Hret].
        destruct (contains_subset B A) eqn:E4; [|exact Hret].
        split; [exact HA|]. split; [reflexivity|]. intros x. pose proof (subset_In B A HB E4 x). tauto.
Qed.

Corollary intersection_mem A B x : ok A -> ok B ->
  contains (intersection A B) x = mem x (arr A) && mem x (arr B).
Proof.
  intros HA HB. destruct (intersection_spec A B HA HB) as (Hok & _ & Hin).
  rewrite contains_ok by exact Hok. apply eq_true_iff_eq. rewrite andb_true_iff, !mem_In. apply Hin.
Qed.

Lemma sort_h_spec A : ok A -> arr (sort_h A) = sort (arr A) /\ ok (sort_h A).
Proof.
  intros [Hd Hs]. unfold sort_h. destruct (srt A) eqn:E.
  - rewrite sort_id by (apply Hs; reflexivity). split; [reflexivity|]. split; [exact Hd|intros _; apply Hs; reflexivity].
  - cbn [arr srt]. split; [reflexivity|]. split; [apply ssorted_nodup, sort_ssorted, Hd|intros _; apply sort_ssorted, Hd].
Qed.
