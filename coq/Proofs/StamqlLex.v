(* Lexical layer of the STAMQL parser: the lexer functions never panic, for any input. *)
From Coq Require Import List ZArith NArith Bool Arith Lia.
Import ListNotations.
From Stam Require Import Model.StamqlLex.
Local Open Scope stamql_scope.

Lemma get_arg_loop_nopanic : forall dt s quote escaped all_rev q_rev,
  get_arg_loop dt quote escaped all_rev q_rev s <> Panic
  /\ get_arg_loop dt quote escaped all_rev q_rev s <> Fuel.
Proof.
  induction s as [|c s IH]; intros; cbn [get_arg_loop]; [split; discriminate|].
  destruct ((c =? c_dquote)%N && negb escaped).
  - destruct quote; [split; discriminate | apply IH].
  - destruct (negb quote && starts_with K__OR_ (c :: s)); [split; discriminate|].
    destruct (negb quote && is_term c); [split; discriminate | apply IH].
Qed.

Theorem get_arg_total : forall dt s, get_arg dt s <> Panic /\ get_arg dt s <> Fuel.
Proof. intros; apply get_arg_loop_nopanic. Qed.
