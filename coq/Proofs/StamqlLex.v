(* Lexical layer of the STAMQL parser: basic facts about the string primitives,
   totality of the lexer functions (no panic, no exhausted budget, for any
   input), length bounds of the remainders they return, and what the argument
   classification of get_arg_type guarantees. *)
From Coq Require Import List ZArith NArith Bool Arith Lia.
Import ListNotations.
From Stam Require Import Model.StamqlLex.
Local Open Scope stamql_scope.

(* ---------- outcomes ---------- *)
Definition np {A} (o : outcome A) : Prop := o <> Panic.
Definition nf {A} (o : outcome A) : Prop := o <> Fuel.

Lemma bind_ok {A B} (o : outcome A) (f : A -> outcome B) b :
  bind o f = Ok b -> exists a, o = Ok a /\ f a = Ok b.
Proof. destruct o; cbn; try discriminate. eauto. Qed.

Lemma np_bind {A B} (o : outcome A) (f : A -> outcome B) :
  np o -> (forall a, o = Ok a -> np (f a)) -> np (bind o f).
Proof. unfold np; destruct o; cbn; intros; try congruence. auto. Qed.

Lemma nf_bind {A B} (o : outcome A) (f : A -> outcome B) :
  nf o -> (forall a, o = Ok a -> nf (f a)) -> nf (bind o f).
Proof. unfold nf; destruct o; cbn; intros; try congruence. auto. Qed.

Lemma np_ok {A} (a : A) : np (Ok a). Proof. discriminate. Qed.
Lemma np_err {A} : np (@Err A). Proof. discriminate. Qed.
Lemma nf_ok {A} (a : A) : nf (Ok a). Proof. discriminate. Qed.
Lemma nf_err {A} : nf (@Err A). Proof. discriminate. Qed.
#[export] Hint Resolve np_ok np_err nf_ok nf_err : stamql.

(* ---------- strings ---------- *)
Lemma str_eqb_eq : forall a b, str_eqb a b = true <-> a = b.
Proof.
  induction a as [|x a IH]; destruct b as [|y b]; cbn; split; intros H; try discriminate; auto.
  - apply andb_true_iff in H as [H1 H2]. apply N.eqb_eq in H1. apply IH in H2. congruence.
  - inversion H; subst. rewrite N.eqb_refl. cbn. apply IH. reflexivity.
Qed.

Lemma str_eqb_refl : forall a, str_eqb a a = true.
Proof. intros; apply str_eqb_eq; reflexivity. Qed.

Lemma starts_with_app : forall p s, starts_with p s = true <-> exists r, s = p ++ r.
Proof.
  induction p as [|x p IH]; intros s; cbn.
  - split; eauto.
  - destruct s as [|y s]; split; intros H; try discriminate.
    + destruct H as [r H]; discriminate.
    + apply andb_true_iff in H as [H1 H2]. apply N.eqb_eq in H1. apply IH in H2 as [r ->].
      subst. eauto.
    + destruct H as [r H]. inversion H; subst. rewrite N.eqb_refl. cbn. apply IH. eauto.
Qed.

Lemma trim_start_len : forall s, length (trim_start s) <= length s.
Proof. induction s as [|c s IH]; cbn; [lia|]. destruct (is_ws c); cbn; lia. Qed.

Definition hd_nows (s : str) : Prop :=
  match s with [] => True | c :: _ => is_ws c = false end.

Lemma trim_start_hd : forall s, hd_nows (trim_start s).
Proof. induction s as [|c s IH]; cbn; auto. destruct (is_ws c) eqn:E; cbn; auto. Qed.

Lemma trim_start_fix : forall s, hd_nows s -> trim_start s = s.
Proof. destruct s as [|c s]; cbn; auto. intros ->. reflexivity. Qed.

Lemma trim_start_idem : forall s, trim_start (trim_start s) = trim_start s.
Proof. intros; apply trim_start_fix, trim_start_hd. Qed.

Lemma trim_start_snoc : forall l c, is_ws c = false -> trim_start (l ++ [c]) = trim_start l ++ [c].
Proof.
  induction l as [|x l IH]; intros c H; cbn.
  - rewrite H. reflexivity.
  - destruct (is_ws x); auto.
Qed.

Lemma trim_end_len : forall s, length (trim_end s) <= length s.
Proof.
  intros. unfold trim_end. rewrite rev_length.
  pose proof (trim_start_len (rev s)). rewrite rev_length in H. lia.
Qed.

Lemma trim_end_hd : forall s, hd_nows s -> hd_nows (trim_end s).
Proof.
  destruct s as [|c s]; cbn; auto. intros H. unfold trim_end. cbn [rev].
  rewrite trim_start_snoc by exact H. rewrite rev_app_distr. cbn. exact H.
Qed.

Lemma trim_len : forall s, length (trim s) <= length s.
Proof.
  intros. unfold trim. pose proof (trim_end_len (trim_start s)). pose proof (trim_start_len s). lia.
Qed.

Lemma trim_hd : forall s, hd_nows (trim s).
Proof. intros. unfold trim. apply trim_end_hd, trim_start_hd. Qed.

Lemma trim_start_trim : forall s, trim_start (trim s) = trim s.
Proof. intros; apply trim_start_fix, trim_hd. Qed.

Lemma first_nonspace_fix : forall s, hd_nows s -> first_nonspace s = hd_error s.
Proof. intros. unfold first_nonspace. rewrite trim_start_fix; auto. Qed.

Lemma split_first_prefix : forall s, exists r, s = split_first s ++ r.
Proof.
  induction s as [|c s [r IH]]; cbn; [exists []; reflexivity|].
  destruct (is_split c); [exists (c :: s); reflexivity|].
  exists r. cbn. congruence.
Qed.

Lemma split_first_starts : forall s, starts_with (split_first s) s = true.
Proof. intros. apply starts_with_app. apply split_first_prefix. Qed.

Lemma trim_start_semis_suffix : forall s, exists p, s = p ++ trim_start_semis s.
Proof.
  induction s as [|c s [p IH]]; cbn; [exists []; reflexivity|].
  destruct (c =? c_semicolon)%N; [exists (c :: p); cbn; congruence | exists []; reflexivity].
Qed.

Lemma trim_end_semis_prefix : forall s, exists r, s = trim_end_semis s ++ r.
Proof.
  intros. unfold trim_end_semis. destruct (trim_start_semis_suffix (rev s)) as [p H].
  exists (rev p). rewrite <- rev_app_distr, <- H, rev_involutive. reflexivity.
Qed.

(* ---------- byte slices ---------- *)
Lemma clen_pos : forall c, 1 <= clen c.
Proof. intros. unfold clen. repeat destruct (_ <? _)%N; lia. Qed.

Lemma drop_bytes_app : forall p r, drop_bytes (blen p) (p ++ r) = Some r.
Proof.
  induction p as [|c p IH]; intros r; cbn [blen fold_right app].
  - destruct r; reflexivity.
  - pose proof (clen_pos c). fold (blen p).
    destruct (clen c + blen p) eqn:E; [lia|]. cbn [drop_bytes]. rewrite <- E.
    replace (clen c <=? clen c + blen p) with true by (symmetry; apply Nat.leb_le; lia).
    replace (clen c + blen p - clen c) with (blen p) by lia. apply IH.
Qed.

Lemma slice_from_app : forall p r, slice_from (blen p) (p ++ r) = Ok r.
Proof. intros. unfold slice_from. rewrite drop_bytes_app. reflexivity. Qed.

Lemma drop_bytes_len : forall k s r, drop_bytes k s = Some r -> length r + (if k =? 0 then 0 else 1) <= length s.
Proof.
  intros k s; revert k. induction s as [|c s IH]; intros k r H.
  - destruct k; cbn in H; inversion H; cbn; lia.
  - destruct k; cbn in H; [inversion H; cbn; lia|].
    destruct (clen c <=? S k) eqn:E; [|discriminate].
    apply IH in H. cbn [length]. destruct (S k - clen c =? 0); cbn [Nat.eqb]; lia.
Qed.

Lemma slice_from_len : forall k s r, slice_from k s = Ok r -> length r <= length s.
Proof.
  unfold slice_from; intros k s r H. destruct (drop_bytes k s) eqn:E; inversion H; subst.
  apply drop_bytes_len in E. lia.
Qed.

Lemma slice_from_lt : forall k s r, 0 < k -> slice_from k s = Ok r -> length r < length s.
Proof.
  unfold slice_from; intros k s r Hk H. destruct (drop_bytes k s) eqn:E; inversion H; subst.
  apply drop_bytes_len in E. destruct k; [lia|]. cbn in E. lia.
Qed.

(* a prefix test that succeeded makes the slice behind it safe *)
Lemma slice_after_prefix : forall p s, starts_with p s = true -> exists r, s = p ++ r /\ slice_from (blen p) s = Ok r.
Proof. intros p s H. apply starts_with_app in H as [r ->]. exists r. split; auto. apply slice_from_app. Qed.

Lemma slice_np_prefix : forall p s, starts_with p s = true -> np (slice_from (blen p) s).
Proof. intros p s H. destruct (slice_after_prefix p s H) as [r [_ ->]]. apply np_ok. Qed.

(* two strings of one-byte characters of the same length: same byte length *)
Definition ascii (s : str) : Prop := Forall (fun c => (c < 128)%N) s.
Lemma blen_ascii : forall s, ascii s -> blen s = length s.
Proof.
  induction 1 as [|c s Hc _ IH]; cbn; auto. fold (blen s). rewrite IH.
  unfold clen. apply N.ltb_lt in Hc. rewrite Hc. reflexivity.
Qed.

(* ---------- get_arg ---------- *)
Lemma get_arg_loop_total : forall dt s quote escaped all_rev q_rev,
  np (get_arg_loop dt quote escaped all_rev q_rev s) /\ nf (get_arg_loop dt quote escaped all_rev q_rev s).
Proof.
  unfold np, nf.
  induction s as [|c s IH]; intros; cbn [get_arg_loop]; [split; discriminate|].
  destruct ((c =? c_dquote)%N && negb escaped).
  - destruct quote; [split; discriminate | apply IH].
  - destruct (negb quote && starts_with K__OR_ (c :: s)); [split; discriminate|].
    destruct (negb quote && is_term c); [split; discriminate | apply IH].
Qed.

Theorem get_arg_total : forall dt s, get_arg dt s <> Panic /\ get_arg dt s <> Fuel.
Proof. intros; apply get_arg_loop_total. Qed.

Lemma get_arg_np : forall dt s, np (get_arg dt s).
Proof. intros; apply get_arg_total. Qed.
Lemma get_arg_nf : forall dt s, nf (get_arg dt s).
Proof. intros; apply get_arg_total. Qed.
#[export] Hint Resolve get_arg_np get_arg_nf : stamql.

Lemma get_arg_loop_len : forall dt s quote escaped all_rev q_rev a r t,
  get_arg_loop dt quote escaped all_rev q_rev s = Ok (a, r, t) -> length r <= length s.
Proof.
  induction s as [|c s IH]; intros quote escaped all_rev q_rev a r t H; cbn [get_arg_loop] in H; [discriminate|].
  destruct ((c =? c_dquote)%N && negb escaped).
  - destruct quote.
    + inversion H; subst. pose proof (trim_start_len s). cbn; lia.
    + apply IH in H. cbn; lia.
  - destruct (negb quote && starts_with K__OR_ (c :: s)).
    + inversion H; subst. pose proof (trim_start_len s). cbn; lia.
    + destruct (negb quote && is_term c).
      * inversion H; subst. apply (trim_start_len (c :: s)).
      * apply IH in H. cbn; lia.
Qed.

Lemma get_arg_len : forall dt s a r t, get_arg dt s = Ok (a, r, t) -> length r <= length s.
Proof. intros dt s a r t H. eapply get_arg_loop_len; exact H. Qed.

Lemma get_arg_loop_hd : forall dt s quote escaped all_rev q_rev a r t,
  get_arg_loop dt quote escaped all_rev q_rev s = Ok (a, r, t) -> hd_nows r.
Proof.
  induction s as [|c s IH]; intros quote escaped all_rev q_rev a r t H; cbn [get_arg_loop] in H; [discriminate|].
  destruct ((c =? c_dquote)%N && negb escaped).
  - destruct quote; [inversion H; subst; apply trim_start_hd | eapply IH; exact H].
  - destruct (negb quote && starts_with K__OR_ (c :: s)); [inversion H; subst; apply trim_start_hd|].
    destruct (negb quote && is_term c); [inversion H; subst; apply (trim_start_hd (c :: s)) | eapply IH; exact H].
Qed.

(* the remainder get_arg returns never starts with white space *)
Lemma get_arg_hd : forall dt s a r t, get_arg dt s = Ok (a, r, t) -> hd_nows r.
Proof. intros dt s a r t H. eapply get_arg_loop_hd; exact H. Qed.

(* ---------- get_arg_type ---------- *)
Lemma gat_loop_some : forall s quoted numeric fp prevc t n f,
  gat_loop quoted numeric fp prevc s = (Some t, n, f) -> t = TList \/ t = TUnquotedList.
Proof.
  induction s as [|c s IH]; intros quoted numeric fp prevc t n f H; cbn [gat_loop] in H; [discriminate|].
  match type of H with (if ?c then _ else _) = _ => destruct c end.
  - inversion H; subst. destruct quoted; auto.
  - match type of H with (let '(_, _) := ?x in _) = _ => destruct x end. eapply IH; exact H.
Qed.

(* the "." of a float clears the numeric flag before it is counted: numeric -> no period seen *)
Lemma gat_loop_noperiod : forall s quoted numeric fp prevc f,
  (numeric = true -> fp = false) ->
  gat_loop quoted numeric fp prevc s = (None, true, f) -> f = false.
Proof.
  induction s as [|c s IH]; intros quoted numeric fp prevc f Hinv H; cbn [gat_loop] in H.
  - inversion H; subst. auto.
  - match type of H with (if ?c then _ else _) = _ => destruct c end; [discriminate|].
    set (numeric1 := if negb (is_digit c)
                     then if negb (c =? c_minus)%N || match prevc with Some _ => true | None => false end
                          then false else numeric
                     else numeric) in *.
    assert (Hn1 : numeric1 = true -> numeric = true).
    { subst numeric1. destruct (negb (is_digit c)); auto.
      destruct (negb (c =? c_minus)%N || _); auto; discriminate. }
    destruct (numeric1 && (c =? c_period)%N) eqn:E.
    + exfalso. apply andb_true_iff in E as [E1 E2]. apply N.eqb_eq in E2. subst c.
      subst numeric1. cbn in E1. discriminate.
    + eapply IH; [|exact H]. intros Hn. auto.
Qed.

Theorem get_arg_type_never_float : forall dt s quoted, get_arg_type dt s quoted <> TFloat.
Proof.
  intros dt s quoted. unfold get_arg_type. destruct s as [|c s]; [discriminate|].
  destruct (gat_loop quoted (negb quoted) false None (c :: s)) as [[o n] f] eqn:E.
  destruct o as [t|].
  - apply gat_loop_some in E as [-> | ->]; discriminate.
  - destruct n.
    + apply gat_loop_noperiod in E; [subst; discriminate | auto].
    + destruct (str_eqb (c :: s) K_null); [discriminate|].
      destruct (str_eqb (c :: s) K_any); [discriminate|].
      destruct (str_eqb (c :: s) K_true || str_eqb (c :: s) K_false); [discriminate|].
      destruct (dt (c :: s)); discriminate.
Qed.

Lemma get_arg_type_bool : forall dt s quoted,
  get_arg_type dt s quoted = TBool -> s = K_true \/ s = K_false.
Proof.
  intros dt s quoted. unfold get_arg_type. destruct s as [|c s]; [discriminate|].
  destruct (gat_loop quoted (negb quoted) false None (c :: s)) as [[o n] f] eqn:E.
  destruct o as [t|].
  - apply gat_loop_some in E as [-> | ->]; discriminate.
  - destruct n; [destruct f; discriminate|].
    destruct (str_eqb (c :: s) K_null); [discriminate|].
    destruct (str_eqb (c :: s) K_any); [discriminate|].
    destruct (str_eqb (c :: s) K_true) eqn:Et.
    + intros _. left. apply str_eqb_eq. exact Et.
    + destruct (str_eqb (c :: s) K_false) eqn:Ef; cbn.
      * intros _. right. apply str_eqb_eq. exact Ef.
      * destruct (dt (c :: s)); discriminate.
Qed.

Lemma get_arg_type_datetime : forall dt s quoted,
  get_arg_type dt s quoted = TDatetime -> exists d, dt s = Some d.
Proof.
  intros dt s quoted. unfold get_arg_type. destruct s as [|c s]; [discriminate|].
  destruct (gat_loop quoted (negb quoted) false None (c :: s)) as [[o n] f] eqn:E.
  destruct o as [t|].
  - apply gat_loop_some in E as [-> | ->]; discriminate.
  - destruct n; [destruct f; discriminate|].
    destruct (str_eqb (c :: s) K_null); [discriminate|].
    destruct (str_eqb (c :: s) K_any); [discriminate|].
    destruct (str_eqb (c :: s) K_true || str_eqb (c :: s) K_false); [discriminate|].
    destruct (dt (c :: s)) eqn:D; [eauto | discriminate].
Qed.

(* ---------- parse_name ---------- *)
Lemma parse_name_total : forall s, np (parse_name s) /\ nf (parse_name s).
Proof.
  intros s. unfold parse_name. destruct s as [|c s]; [split; discriminate|].
  destruct (c =? c_qmark)%N eqn:E; [|split; discriminate].
  change (slice_from 1 (c :: s)) with (slice_from (blen [c_qmark]) (c :: s)).
  apply N.eqb_eq in E. subst c.
  change (c_qmark :: s) with ([c_qmark] ++ s). rewrite slice_from_app. cbn [bind].
  destruct (split_first_prefix s) as [r1 H1].
  destruct (trim_end_semis_prefix (split_first s)) as [r2 H2].
  set (name := trim_end_semis (split_first s)) in *.
  assert (Hs : [c_qmark] ++ s = (c_qmark :: name) ++ (r2 ++ r1)).
  { cbn. f_equal. rewrite H1 at 1. rewrite H2 at 1. rewrite <- app_assoc. reflexivity. }
  replace (1 + blen name) with (blen (c_qmark :: name)) by reflexivity.
  rewrite Hs, slice_from_app. cbn [bind]. split; discriminate.
Qed.

Lemma parse_name_len : forall s n r, parse_name s = Ok (n, r) -> length r <= length s.
Proof.
  intros s n r. unfold parse_name. destruct s as [|c s]; [intros H; inversion H; auto|].
  destruct (c =? c_qmark)%N; [|intros H; inversion H; auto].
  intros H. apply bind_ok in H as [r0 [_ H]]. apply bind_ok in H as [rest [H1 H]].
  inversion H; subst. apply slice_from_len in H1. pose proof (trim_start_len rest). lia.
Qed.

Lemma parse_name_hd : forall s n r, hd_nows s -> parse_name s = Ok (n, r) -> hd_nows r.
Proof.
  intros s n r Hs. unfold parse_name. destruct s as [|c s]; [intros H; inversion H; subst; auto|].
  destruct (c =? c_qmark)%N; [|intros H; inversion H; subst; auto].
  intros H. apply bind_ok in H as [r0 [_ H]]. apply bind_ok in H as [rest [H1 H]].
  inversion H; subst. apply trim_start_hd.
Qed.

(* ---------- parse_attributes ---------- *)
Lemma find_split_pos : forall s e c, find_split (c :: s) = Some e -> is_split c = false -> 1 <= e.
Proof.
  intros s e c H Hc. cbn in H. rewrite Hc in H. destruct (find_split s); cbn in H; inversion H; lia.
Qed.

Lemma parse_attributes_loop_total : forall n acc s,
  length s < n -> np (parse_attributes_loop n acc s) /\ nf (parse_attributes_loop n acc s).
Proof.
  induction n as [|n IH]; intros acc s Hn; [lia|].
  destruct s as [|c s]; cbn [parse_attributes_loop]; [split; discriminate|].
  destruct (c =? c_at)%N eqn:E; [|split; discriminate].
  destruct (find_split (c :: s)) as [e|] eqn:F; [|split; discriminate].
  apply IH. apply N.eqb_eq in E. subst c.
  apply find_split_pos in F; [|reflexivity].
  pose proof (trim_len (skipn e (c_at :: s))). rewrite skipn_length in H. cbn [length] in *. lia.
Qed.

Theorem parse_attributes_total : forall s, np (parse_attributes s) /\ nf (parse_attributes s).
Proof.
  intros. unfold parse_attributes. apply parse_attributes_loop_total.
  pose proof (trim_len s). lia.
Qed.

Lemma parse_attributes_loop_res : forall n acc s a r,
  hd_nows s -> parse_attributes_loop n acc s = Ok (a, r) -> length r <= length s /\ hd_nows r.
Proof.
  induction n as [|n IH]; intros acc s a r Hs H.
  - destruct s as [|c s]; cbn in H; [inversion H; subst; auto|].
    destruct (c =? c_at)%N; [discriminate | inversion H; subst; auto].
  - destruct s as [|c s]; cbn [parse_attributes_loop] in H; [inversion H; subst; auto|].
    destruct (c =? c_at)%N; [|inversion H; subst; auto].
    destruct (find_split (c :: s)) as [e|]; [|discriminate].
    apply IH in H; [|apply trim_hd]. destruct H as [H1 H2]. split; auto.
    pose proof (trim_len (skipn e (c :: s))). rewrite skipn_length in H. lia.
Qed.

Lemma parse_attributes_res : forall s a r,
  parse_attributes s = Ok (a, r) -> length r <= length s /\ hd_nows r.
Proof.
  intros s a r H. unfold parse_attributes in H. apply parse_attributes_loop_res in H; [|apply trim_hd].
  pose proof (trim_len s). destruct H; split; auto; lia.
Qed.
