(* C02, "touches nothing else": what each removal does to the resources and datasets (the
   annotations are covered by the exactness theorems).  No invariant is needed. *)
From Stam Require Import Base.Tac Base.ListAux Model.Offset Model.Store Model.StoreObs Spec.StoreSpec
     Proofs.RelMap Proofs.StoreScan Proofs.StoreInv Proofs.StoreDataDef Proofs.StoreRemove Proofs.StoreRemove2
     Proofs.StoreRemove3 Proofs.StoreItems Proofs.StoreSets.

Theorem rm_annotation_frame s r :
  let s' := fst (rm_annotation s r) in
  sets s' = sets s /\ ress s' = ress s /\ sidx s' = sidx s /\ ridx s' = ridx s.
Proof. unfold rm_annotation. destruct (ref_ann s r) as [h|]; [apply remove_ann_frame|repeat split]. Qed.

Theorem rm_resource_frame s r h : ref_res s r = Some h ->
  let s' := fst (rm_resource s r) in
  sets s' = sets s /\ sidx s' = sidx s /\ ress s' = set_slot (ress s) h None.
Proof.
  intros Hr. unfold rm_resource. rewrite Hr. destruct (ref_res_live s r h Hr) as (rs & Hrs).
  destruct (remove_anns_frame (rget (ramm s) h) s) as (S1&A1&I1&_).
  set (s1 := remove_anns s (rget (ramm s) h)) in *.
  destruct (remove_anns_frame (sort_dedup (concat (nth h (trm s1) []))) s1) as (S2&A2&I2&_).
  set (s2 := remove_anns s1 _) in *.
  set (s3 := set_trm _ _).
  assert (E3 : get_res s3 h = Some rs) by (unfold get_res, s3; cbn [set_trm set_ramm ress]; rewrite A2, A1; exact Hrs).
  rewrite E3. cbn [fst set_ress set_ridx sets sidx ress]. unfold s3. cbn [set_trm set_ramm sets sidx ress].
  repeat split; congruence.
Qed.

Theorem rm_dataset_frame s r h : ref_set s r = Some h ->
  let s' := fst (rm_dataset s r) in
  ress s' = ress s /\ ridx s' = ridx s /\ sets s' = set_slot (sets s) h None.
Proof.
  intros Hr. unfold rm_dataset. rewrite Hr. destruct (ref_set_live s r h Hr) as (ds & Hds).
  set (users := filter _ (live_handles (anns s))).
  destruct (remove_anns_frame users s) as (A1&B1&_&D1). set (s1 := remove_anns s users) in *.
  destruct (remove_anns_frame (rget (samm s1) h) s1) as (A2&B2&_&D2). set (s2 := remove_anns s1 (rget (samm s1) h)) in *.
  set (s3 := set_samm s2 (rclear (samm s2) h)).
  set (metas := sort_dedup _).
  destruct (remove_anns_frame metas s3) as (A4&B4&_&D4). set (s4 := remove_anns s3 metas) in *.
  set (s5 := set_ddam _ _).
  assert (E5 : sets s5 = sets s /\ ress s5 = ress s /\ ridx s5 = ridx s).
  { unfold s5. cbn [set_ddam set_damm set_kamm sets ress ridx]. rewrite A4, B4, D4. unfold s3. cbn [set_samm sets ress ridx].
    repeat split; congruence. }
  destruct E5 as (E5a & E5b & E5c).
  assert (G5 : get_set s5 h = Some ds) by (unfold get_set; rewrite E5a; exact Hds).
  rewrite G5. cbn [fst set_sets set_sidx sets ress ridx]. rewrite E5a. repeat split; assumption.
Qed.

(* remove_data: exactly that data item leaves its dataset (slot, id map entry, key_data_map entry) *)
Theorem remove_data_h_frame s d x strict ds it :
  get_set s d = Some ds -> slot (d_data ds) x = Some it ->
  let s' := fst (remove_data_h s d x strict) in
  ress s' = ress s /\ sidx s' = sidx s /\ ridx s' = ridx s
  /\ sets s' = set_slot (sets s) d (Some (ds_without ds x it)).
Proof.
  intros Hds Hx. destruct (remove_data_h_sets s d x strict) as (A & B & C & D). cbv zeta in *.
  rewrite Hds, Hx in D. repeat split; assumption.
Qed.

(* remove_key: resources and other datasets untouched; in the dataset exactly the key and the data
   items of the key leave *)
Lemma fold_remove_data_others d strict : forall xs s ds,
  get_set s d = Some ds ->
  let s1 := fold_left (fun s x => fst (remove_data_h s d x strict)) xs s in
  ress s1 = ress s /\ sidx s1 = sidx s /\ ridx s1 = ridx s
  /\ exists ds1, get_set s1 d = Some ds1 /\ d_id ds1 = d_id ds /\ d_keys ds1 = d_keys ds /\ d_kidx ds1 = d_kidx ds
     /\ (forall x, ~ In x xs -> slot (d_data ds1) x = slot (d_data ds) x)
     /\ (forall x, In x xs -> slot (d_data ds1) x = None)
     /\ (forall d0, d0 <> d -> get_set s1 d0 = get_set s d0).
Proof.
  induction xs as [|x xs IH]; intros s ds Hd; cbn [fold_left].
  - repeat split. exists ds. repeat split; [exact Hd|intros x []].
  - destruct (remove_data_h_sets s d x strict) as (R & SI & RI & E). cbv zeta in R, SI, RI, E. rewrite Hd in E.
    set (s' := fst (remove_data_h s d x strict)) in *.
    pose proof (slot_lt _ _ _ Hd) as Hlt.
    assert (Hd' : exists ds', get_set s' d = Some ds' /\ d_id ds' = d_id ds /\ d_keys ds' = d_keys ds /\ d_kidx ds' = d_kidx ds
                 /\ (forall y, y <> x -> slot (d_data ds') y = slot (d_data ds) y)
                 /\ slot (d_data ds') x = None
                 /\ (forall d0, d0 <> d -> get_set s' d0 = get_set s d0)).
    { destruct (slot (d_data ds) x) as [it|] eqn:Ex.
      - exists (ds_without ds x it). unfold get_set. rewrite E.
        split; [rewrite slot_set_slot, Nat.eqb_refl; destruct (d <? length (sets s)) eqn:E2; [reflexivity|lia]|].
        unfold ds_without. cbn [d_id d_keys d_kidx d_data]. repeat split.
        + intros y Hy. rewrite slot_set_slot. destruct (y =? x) eqn:Ey; [lia|reflexivity].
        + rewrite slot_set_slot, Nat.eqb_refl. cbn [andb]. destruct (x <? length (d_data ds)) eqn:E3; [reflexivity|].
          apply slot_lt in Ex. lia.
        + intros d0 Hne. rewrite slot_set_slot. destruct (d0 =? d) eqn:E0; [lia|reflexivity].
      - exists ds. unfold get_set. rewrite E. repeat split; [exact Hd|exact Ex]. }
    destruct Hd' as (ds' & G1 & G2 & G3 & G4 & G5 & G6 & G7).
    destruct (IH s' ds' G1) as (R1 & SI1 & RI1 & ds1 & A1 & A2 & A3 & A4 & A5 & A6 & A7). cbv zeta in *.
    split; [congruence|]. split; [congruence|]. split; [congruence|].
    exists ds1. split; [exact A1|]. split; [congruence|]. split; [congruence|]. split; [congruence|]. split; [|split].
    + intros y Hy. rewrite A5 by (intros H; apply Hy; right; exact H). apply G5. intros ->. apply Hy. left. reflexivity.
    + intros y [<-|Hy].
      * destruct (in_dec Nat.eq_dec x xs) as [Hi|Hn]; [apply A6; exact Hi|]. rewrite (A5 x Hn). exact G6.
      * apply A6. exact Hy.
    + intros d0 Hne. rewrite (A7 d0 Hne). apply (G7 d0 Hne).
Qed.

Theorem rm_key_frame s dr kr strict d ds k tok :
  to_handle (sidx s) dr = Some d -> get_set s d = Some ds -> to_handle (d_kidx ds) kr = Some k ->
  slot (d_keys ds) k = Some tok ->
  let s' := fst (rm_key s dr kr strict) in
  ress s' = ress s /\ ridx s' = ridx s /\ sidx s' = sidx s
  /\ (forall d0, d0 <> d -> get_set s' d0 = get_set s d0)
  /\ exists ds', get_set s' d = Some ds' /\ d_id ds' = d_id ds
     /\ (forall k0, slot (d_keys ds') k0 = if k0 =? k then None else slot (d_keys ds) k0)
     /\ (forall x, slot (d_data ds') x = if existsb (Nat.eqb x) (rget (d_k2x ds) k) then None else slot (d_data ds) x).
Proof.
  intros Hd Hds Hk Htok. unfold rm_key. rewrite Hd, Hds, Hk.
  destruct (fold_remove_data_others d strict (rget (d_k2x ds) k) s ds Hds) as (R1 & SI1 & RI1 & ds1 & A1 & A2 & A3 & A4 & A5 & A6 & A7).
  cbv zeta in *. set (s1 := fold_left _ (rget (d_k2x ds) k) s) in *.
  rewrite A1. cbv beta iota. rewrite A3, Htok. cbn [fst].
  set (ds' := mkset _ _ _ _ _ _). set (s2 := set_sets s1 (set_slot (sets s1) d (Some ds'))).
  destruct (remove_anns_frame (tget (kamm s2) d k) s2) as (F1 & F2 & F3 & F4).
  set (s3 := remove_anns s2 (tget (kamm s2) d k)) in *.
  cbn [set_kamm ress ridx sidx]. unfold get_set. cbn [set_kamm sets]. rewrite F1, F2, F3, F4. unfold s2. cbn [set_sets ress ridx sidx sets].
  pose proof (slot_lt _ _ _ A1) as Hlt.
  split; [exact R1|]. split; [exact RI1|]. split; [exact SI1|]. split.
  - intros d0 Hne. rewrite slot_set_slot. destruct (d0 =? d) eqn:E0; [lia|]. apply (A7 d0 Hne).
  - exists ds'. split; [rewrite slot_set_slot, Nat.eqb_refl; destruct (d <? length (sets s1)) eqn:E2; [reflexivity|lia]|].
    unfold ds'. cbn [d_id d_keys d_data]. split; [exact A2|]. split.
    + intros k0. rewrite slot_set_slot. destruct (k0 =? k) eqn:Ek; cbn [andb]; [|reflexivity].
      destruct (k <? length (d_keys ds)) eqn:E3; [reflexivity|]. apply slot_lt in Htok. lia.
    + intros x. destruct (existsb (Nat.eqb x) (rget (d_k2x ds) k)) eqn:Ex.
      * apply existsb_exists in Ex. destruct Ex as (z & Hz & Ez). apply Nat.eqb_eq in Ez. subst z. apply (A6 x Hz).
      * apply A5. intros Hin. assert (existsb (Nat.eqb x) (rget (d_k2x ds) k) = true) by (apply existsb_exists; exists x; split; [exact Hin|apply Nat.eqb_refl]). congruence.
Qed.
