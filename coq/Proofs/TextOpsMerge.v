(* The merge of the matches of several regular expressions (FindRegexIter::next, model
   Model/TextOps.v regex_merge) equals its plain description (Spec/TextOpsSpec.v merge_spec):
   all matches in a stable order by begin, and without allow_overlap minus those that begin
   inside an earlier result. *)
From Coq Require Import NArith Permutation.
From Stam Require Import Base.Tac Model.TextOps Spec.TextOpsSpec.

Section MergeProof.
  Context {X : Type}.
  Variable kb ke : X -> nat.
  Notation E := (nat * X)%type.

  (* order of the results: by begin, ties by stream *)
  Definition klt (x y : E) : Prop :=
    kb (snd x) < kb (snd y) \/ (kb (snd x) = kb (snd y) /\ fst x < fst y).
  (* order of the tagged input: by stream, inside a stream by begin *)
  Definition tlt (x y : E) : Prop :=
    fst x < fst y \/ (fst x = fst y /\ kb (snd x) < kb (snd y)).

  Lemma klt_irrefl x : ~ klt x x.
  Proof. unfold klt. lia. Qed.
  Lemma klt_trans x y z : klt x y -> klt y z -> klt x z.
  Proof. unfold klt. lia. Qed.

  Lemma sorted_unique : forall l1 l2 : list E,
    StronglySorted klt l1 -> StronglySorted klt l2 -> Permutation l1 l2 -> l1 = l2.
  Proof.
    induction l1 as [|a l1 IH]; intros l2 S1 S2 P.
    - apply Permutation_nil in P. subst. reflexivity.
    - destruct l2 as [|b l2]; [apply Permutation_sym, Permutation_nil in P; discriminate|].
      inversion S1 as [|? ? S1' F1]; subst. inversion S2 as [|? ? S2' F2]; subst.
      assert (a = b) as ->.
      { pose proof (Permutation_in a P (or_introl eq_refl)) as Ha.
        destruct Ha as [Ha|Ha]; [congruence|].
        pose proof (Permutation_in b (Permutation_sym P) (or_introl eq_refl)) as Hb.
        destruct Hb as [Hb|Hb]; [congruence|].
        rewrite Forall_forall in F1, F2. exfalso.
        apply (klt_irrefl a). apply (klt_trans a b a); [apply F1; exact Hb|apply F2; exact Ha]. }
      f_equal. apply IH; [assumption|assumption|]. apply (Permutation_cons_inv P).
  Qed.

  (* -- the stable insertion sort of the spec -- *)
  Lemma insert_perm x : forall l, Permutation (insert_by kb x l) (x :: l).
  Proof.
    induction l as [|y l IH]; [reflexivity|]. cbn. destruct (kb (snd x) <=? kb (snd y)); [reflexivity|].
    rewrite IH. apply perm_swap.
  Qed.

  Lemma sort_perm : forall l, Permutation (sort_by kb l) l.
  Proof.
    induction l as [|x l IH]; [reflexivity|]. cbn. rewrite insert_perm. constructor. exact IH.
  Qed.

  Lemma insert_sorted x : forall s, StronglySorted klt s -> (forall y, In y s -> tlt x y) ->
    StronglySorted klt (insert_by kb x s).
  Proof.
    induction s as [|y s IH]; intros S T.
    - cbn. constructor; constructor.
    - inversion S as [|? ? S' F]; subst. rewrite Forall_forall in F. cbn.
      destruct (kb (snd x) <=? kb (snd y)) eqn:E.
      + constructor; [exact S|]. apply Forall_forall. intros z Hz.
        assert (kb (snd y) <= kb (snd z)).
        { destruct Hz as [<-|Hz]; [lia|]. specialize (F z Hz). unfold klt in F. lia. }
        specialize (T z Hz). unfold tlt in T. unfold klt. lia.
      + constructor.
        * apply IH; [exact S'|]. intros z Hz. apply T. right. exact Hz.
        * apply Forall_forall. intros z Hz. apply (Permutation_in _ (insert_perm x s)) in Hz.
          destruct Hz as [<-|Hz]; [unfold klt; lia|apply F; exact Hz].
  Qed.

  Lemma sort_sorted : forall l, StronglySorted tlt l -> StronglySorted klt (sort_by kb l).
  Proof.
    induction l as [|x l IH]; intros S; [constructor|]. inversion S as [|? ? S' F]; subst.
    cbn. apply insert_sorted; [apply IH; exact S'|]. intros y Hy.
    rewrite Forall_forall in F. apply F. apply (Permutation_in _ (sort_perm l)). exact Hy.
  Qed.

  (* -- the tagged input -- *)
  Definition incr (s : list X) : Prop := StronglySorted (fun a b => kb a < kb b) s.

  Lemma tag_from_ge : forall (ss : list (list X)) i x, In x (tag_from i ss) -> i <= fst x.
  Proof.
    induction ss as [|s ss IH]; intros i x H; [contradiction|]. cbn in H. apply in_app_or in H.
    destruct H as [H|H].
    - apply in_map_iff in H. destruct H as (m & <- & _). cbn. lia.
    - specialize (IH _ _ H). lia.
  Qed.

  Lemma sorted_app {Y} (R : Y -> Y -> Prop) : forall a b, StronglySorted R a -> StronglySorted R b ->
    (forall x y, In x a -> In y b -> R x y) -> StronglySorted R (a ++ b).
  Proof.
    induction a as [|x a IH]; intros b Sa Sb H; [exact Sb|]. inversion Sa as [|? ? Sa' F]; subst.
    cbn. constructor.
    - apply IH; [assumption|assumption|]. intros; apply H; [right|]; assumption.
    - apply Forall_app. split; [exact F|]. apply Forall_forall. intros y Hy. apply H; [left; reflexivity|exact Hy].
  Qed.

  Lemma tag_from_sorted : forall (ss : list (list X)) i, Forall incr ss -> StronglySorted tlt (tag_from i ss).
  Proof.
    induction ss as [|s ss IH]; intros i F; [constructor|]. inversion F as [|? ? Hs F']; subst. cbn.
    apply sorted_app.
    - clear -Hs. induction Hs as [|a s Hs IHs Fa]; [constructor|]. cbn. constructor; [exact IHs|].
      apply Forall_forall. intros y Hy. apply in_map_iff in Hy. destruct Hy as (m & <- & Hm).
      rewrite Forall_forall in Fa. right. cbn. split; [reflexivity|apply Fa; exact Hm].
    - apply IH. exact F'.
    - intros x y Hx Hy. apply in_map_iff in Hx. destruct Hx as (m & <- & _).
      apply tag_from_ge in Hy. left. cbn. lia.
  Qed.

End MergeProof.

Section MergeModel.
  Context {X : Type}.
  Variable kb ke : X -> nat.

  (* the buffered match of stream j *)
  Definition hd_at (ss : list (list X)) (j : nat) : option X :=
    match nth_error ss j with Some (h :: _) => Some h | _ => None end.
  Lemma hd_at_nil j : hd_at [] j = None.
  Proof. unfold hd_at. destruct j; reflexivity. Qed.
  Lemma hd_at_S s ss j : hd_at (s :: ss) (S j) = hd_at ss j.
  Proof. reflexivity. Qed.

  Lemma best_from_spec : forall ss i cur,
    match best_from kb i ss cur with
    | None => cur = None /\ forall j, hd_at ss j = None
    | Some (ri, rm) =>
        (forall j h, hd_at ss j = Some h -> kb rm <= kb h)
        /\ (forall c, cur = Some c -> kb rm <= kb (snd c))
        /\ (cur = Some (ri, rm) \/
            exists j, ri = i + j /\ hd_at ss j = Some rm
                      /\ (forall j' h, j' < j -> hd_at ss j' = Some h -> kb rm < kb h)
                      /\ (forall c, cur = Some c -> kb rm < kb (snd c)))
    end.
  Proof.
    induction ss as [|s ss IH]; intros i cur.
    - cbn. destruct cur as [[ci cm]|].
      + split; [intros j h H; rewrite hd_at_nil in H; discriminate|]. split; [intros c [= <-]; cbn; lia|]. left. reflexivity.
      + split; [reflexivity|]. intros j. apply hd_at_nil.
    - cbn [best_from]. destruct s as [|m s].
      + specialize (IH (S i) cur). destruct (best_from kb (S i) ss cur) as [[ri rm]|].
        * destruct IH as (A & B & C). split; [|split; [exact B|]].
          -- intros [|j] h H; [discriminate|]. apply (A j). exact H.
          -- destruct C as [C|(j & C1 & C2 & C3 & C4)]; [left; exact C|]. right. exists (S j).
             split; [lia|]. split; [exact C2|]. split; [|exact C4].
             intros [|j'] h Hj H; [discriminate|]. apply (C3 j'); [lia|exact H].
        * destruct IH as [A B]. split; [exact A|]. intros [|j]; [reflexivity|apply B].
      + destruct cur as [[ci cm]|].
        * destruct (kb m <? kb cm) eqn:E.
          -- specialize (IH (S i) (Some (i, m))). destruct (best_from kb (S i) ss (Some (i, m))) as [[ri rm]|].
             ++ destruct IH as (A & B & C). specialize (B _ eq_refl). cbn in B. split; [|split].
                ** intros [|j] h H; [injection H as <-; exact B|]. apply (A j). exact H.
                ** intros c [= <-]. cbn. lia.
                ** right. destruct C as [C|(j & C1 & C2 & C3 & C4)].
                   --- injection C as -> ->. exists 0. split; [lia|]. split; [reflexivity|]. split; [intros; lia|].
                       intros c [= <-]. cbn. lia.
                   --- specialize (C4 _ eq_refl). cbn in C4. exists (S j). split; [lia|]. split; [exact C2|]. split.
                       +++ intros [|j'] h Hj H; [injection H as <-; exact C4|]. apply (C3 j'); [lia|exact H].
                       +++ intros c [= <-]. cbn. lia.
             ++ destruct IH as [A _]. discriminate.
          -- specialize (IH (S i) (Some (ci, cm))). destruct (best_from kb (S i) ss (Some (ci, cm))) as [[ri rm]|].
             ++ destruct IH as (A & B & C). pose proof (B _ eq_refl) as B'. cbn in B'. split; [|split; [exact B|]].
                ** intros [|j] h H; [injection H as <-; lia|]. apply (A j). exact H.
                ** destruct C as [C|(j & C1 & C2 & C3 & C4)]; [left; exact C|]. right.
                   pose proof (C4 _ eq_refl) as C4'. cbn in C4'. exists (S j). split; [lia|]. split; [exact C2|].
                   split; [|exact C4]. intros [|j'] h Hj H; [injection H as <-; lia|]. apply (C3 j'); [lia|exact H].
             ++ destruct IH as [A _]. discriminate.
        * specialize (IH (S i) (Some (i, m))). destruct (best_from kb (S i) ss (Some (i, m))) as [[ri rm]|].
          -- destruct IH as (A & B & C). specialize (B _ eq_refl). cbn in B. split; [|split; [intros c H; discriminate|]].
             ++ intros [|j] h H; [injection H as <-; exact B|]. apply (A j). exact H.
             ++ right. destruct C as [C|(j & C1 & C2 & C3 & C4)].
                ** injection C as -> ->. exists 0. split; [lia|]. split; [reflexivity|]. split; [intros; lia|intros c H; discriminate].
                ** specialize (C4 _ eq_refl). cbn in C4. exists (S j). split; [lia|]. split; [exact C2|]. split; [|intros c H; discriminate].
                   intros [|j'] h Hj H; [injection H as <-; exact C4|]. apply (C3 j'); [lia|exact H].
          -- destruct IH as [A _]. discriminate.
  Qed.
End MergeModel.

Section MergeModel2.
  Context {X : Type}.
  Variable kb ke : X -> nat.

  Lemma best_top (ss : list (list X)) :
    match best_from kb 0 ss None with
    | None => forall j, hd_at ss j = None
    | Some (i, m) => hd_at ss i = Some m
                     /\ (forall j h, hd_at ss j = Some h -> kb m <= kb h)
                     /\ (forall j h, j < i -> hd_at ss j = Some h -> kb m < kb h)
    end.
  Proof.
    pose proof (best_from_spec kb ss 0 None) as H. destruct (best_from kb 0 ss None) as [[i m]|].
    - destruct H as (A & _ & [C|(j & C1 & C2 & C3 & _)]); [discriminate|]. cbn in C1. subst j. auto.
    - apply H.
  Qed.

  (* -- mapi_from -- *)
  Lemma mapi_ext {Y} (f g : nat -> list X -> Y) : forall ss k,
    (forall j s, nth_error ss j = Some s -> f (k + j) s = g (k + j) s) ->
    mapi_from k f ss = mapi_from k g ss.
  Proof.
    induction ss as [|s ss IH]; intros k H; [reflexivity|]. cbn. f_equal.
    - specialize (H 0 s eq_refl). rewrite Nat.add_0_r in H. exact H.
    - apply IH. intros j s' Hj. specialize (H (S j) s' Hj). replace (S k + j) with (k + S j) by lia. exact H.
  Qed.

  Lemma mapi_id (f : nat -> list X -> list X) ss k :
    (forall j s, nth_error ss j = Some s -> f (k + j) s = s) -> mapi_from k f ss = ss.
  Proof.
    intros H. rewrite (mapi_ext f (fun _ s => s) ss k H). clear. revert k.
    induction ss as [|s ss IH]; intros k; [reflexivity|]. cbn. f_equal. apply IH.
  Qed.

  Lemma mapi_mapi (f g : nat -> list X -> list X) : forall ss k,
    mapi_from k g (mapi_from k f ss) = mapi_from k (fun j s => g j (f j s)) ss.
  Proof. induction ss as [|s ss IH]; intros k; [reflexivity|]. cbn. f_equal. apply IH. Qed.

  Lemma map_mapi (h : list X -> list X) (f : nat -> list X -> list X) : forall ss k,
    map h (mapi_from k f ss) = mapi_from k (fun j s => h (f j s)) ss.
  Proof. induction ss as [|s ss IH]; intros k; [reflexivity|]. cbn. f_equal. apply IH. Qed.

  Lemma mapi_const (h : list X -> list X) : forall ss k, mapi_from k (fun _ s => h s) ss = map h ss.
  Proof. induction ss as [|s ss IH]; intros k; [reflexivity|]. cbn. f_equal. apply IH. Qed.

  Lemma Forall_mapi (P : list X -> Prop) (f : nat -> list X -> list X) : forall ss k,
    (forall j s, P s -> P (f j s)) -> Forall P ss -> Forall P (mapi_from k f ss).
  Proof.
    induction ss as [|s ss IH]; intros k H F; [constructor|]. inversion F; subst. cbn. constructor; [auto|].
    apply IH; assumption.
  Qed.

  (* -- membership in the tagged list -- *)
  Lemma In_tag : forall (ss : list (list X)) k x,
    In x (tag_from k ss) <-> k <= fst x /\ exists s, nth_error ss (fst x - k) = Some s /\ In (snd x) s.
  Proof.
    induction ss as [|s ss IH]; intros k x.
    - cbn. split; [contradiction|]. intros (_ & s & H & _). destruct (fst x - k); discriminate.
    - cbn [tag_from]. rewrite in_app_iff, IH, in_map_iff. split.
      + intros [(m & <- & Hm)|(Hk & s' & H1 & H2)].
        * cbn. split; [lia|]. exists s. rewrite Nat.sub_diag. split; [reflexivity|exact Hm].
        * split; [lia|]. exists s'. replace (fst x - k) with (S (fst x - S k)) by lia. split; assumption.
      + intros (Hk & s' & H1 & H2). destruct (fst x - k) as [|d] eqn:E.
        * left. injection H1 as <-. exists (snd x). split; [|exact H2]. destruct x as [a b]. cbn in *. f_equal. lia.
        * right. split; [lia|]. exists s'. replace (fst x - S k) with d by lia. split; assumption.
  Qed.

  Lemma tag_nil : forall (ss : list (list X)) k, (forall j, hd_at ss j = None) -> tag_from k ss = [].
  Proof.
    induction ss as [|s ss IH]; intros k H; [reflexivity|]. cbn.
    pose proof (H 0) as H0. unfold hd_at in H0. cbn in H0. destruct s; [|discriminate]. cbn.
    apply IH. intros j. apply (H (S j)).
  Qed.

  Lemma tag_length : forall (ss : list (list X)) k k', length (tag_from k ss) = length (tag_from k' ss).
  Proof.
    induction ss as [|s ss IH]; intros k k'; [reflexivity|]. cbn. rewrite !app_length, !map_length.
    f_equal. apply IH.
  Qed.

  (* taking the buffered match of stream i out *)
  Lemma tag_upd_perm m : forall (ss : list (list X)) k i, hd_at ss i = Some m ->
    Permutation (tag_from k ss)
      ((k + i, m) :: tag_from k (mapi_from k (fun j s => if j =? k + i then tl s else s) ss)).
  Proof.
    induction ss as [|s ss IH]; intros k i H; [rewrite hd_at_nil in H; discriminate|].
    destruct i as [|i].
    - unfold hd_at in H. cbn in H. destruct s as [|h s]; [discriminate|]. injection H as ->.
      cbn [mapi_from tag_from]. rewrite Nat.add_0_r, Nat.eqb_refl. cbn [tl map app].
      rewrite mapi_id; [reflexivity|]. intros j s' _. replace (S k + j =? k) with false by lia. reflexivity.
    - rewrite hd_at_S in H. cbn [mapi_from tag_from]. replace (k =? k + S i) with false by lia.
      rewrite (mapi_ext _ (fun j s0 => if j =? S k + i then tl s0 else s0))
        by (intros j s' _; replace (k + S i) with (S k + i) by lia; reflexivity).
      rewrite (IH (S k) i H) at 1. replace (S k + i) with (k + S i) by lia.
      symmetry. apply Permutation_middle.
  Qed.
End MergeModel2.

Section MergeModel3.
  Context {X : Type}.
  Variable kb ke : X -> nat.

  Lemma incr_tl s : incr kb s -> incr kb (tl s).
  Proof. intros H. destruct s; [exact H|]. inversion H; assumption. Qed.

  Lemma incr_head_min h s y : incr kb (h :: s) -> In y (h :: s) -> kb h <= kb y.
  Proof.
    intros H [<-|Hy]; [lia|]. inversion H as [|? ? _ F]; subst. rewrite Forall_forall in F.
    specialize (F y Hy). lia.
  Qed.

  Lemma nth_error_mapi {Y} (f : nat -> list X -> Y) : forall l k j,
    nth_error (mapi_from k f l) j = option_map (f (k + j)) (nth_error l j).
  Proof.
    induction l as [|a l IH]; intros k j; [destruct j; reflexivity|]. destruct j as [|j].
    - cbn. rewrite Nat.add_0_r. reflexivity.
    - cbn. rewrite IH. replace (S k + j) with (k + S j) by lia. reflexivity.
  Qed.

  Lemma nth_incr (ss : list (list X)) j s : Forall (incr kb) ss -> nth_error ss j = Some s -> incr kb s.
  Proof. intros F H. rewrite Forall_forall in F. apply F. apply (nth_error_In _ _ H). Qed.

  (* with overlaps allowed the merge is the stable sort of all matches *)
  Lemma merge_true_sorted_perm : forall fuel (ss : list (list X)),
    length (tag_from 0 ss) < fuel -> Forall (incr kb) ss ->
    Permutation (regex_merge kb ke fuel true ss) (tag_from 0 ss)
    /\ StronglySorted (klt kb) (regex_merge kb ke fuel true ss).
  Proof.
    induction fuel as [|fuel IH]; intros ss Hf Hi; [lia|].
    cbn [regex_merge]. unfold regex_step. pose proof (best_top kb ss) as B.
    destruct (best_from kb 0 ss None) as [[i m]|].
    - destruct B as (B1 & B2 & B3).
      set (ss' := mapi_from 0 (fun j s => if j =? i then tl s else s) ss).
      pose proof (tag_upd_perm m ss 0 i B1) as P. cbn [Nat.add] in P. fold ss' in P.
      assert (Hi' : Forall (incr kb) ss').
      { apply Forall_mapi; [|exact Hi]. intros j s Hs. destruct (j =? i); [apply incr_tl|]; exact Hs. }
      assert (Hlen : length (tag_from 0 ss') < fuel).
      { apply Permutation_length in P. cbn in P. lia. }
      destruct (IH ss' Hlen Hi') as [IP IS]. split.
      + rewrite P. constructor. exact IP.
      + constructor; [exact IS|]. apply Forall_forall. intros [j y] Hy.
        apply (Permutation_in _ IP) in Hy. apply In_tag in Hy. cbn [fst snd] in Hy.
        destruct Hy as (_ & s & Hn & Hys). rewrite Nat.sub_0_r in Hn.
        unfold ss' in Hn. rewrite nth_error_mapi in Hn. cbn [Nat.add] in Hn.
        destruct (nth_error ss j) as [s0|] eqn:E0; [|discriminate]. cbn in Hn. injection Hn as <-.
        pose proof (nth_incr ss j s0 Hi E0) as I0. unfold klt. cbn [fst snd].
        destruct (j =? i) eqn:Eji.
        * apply Nat.eqb_eq in Eji. subst j. unfold hd_at in B1. rewrite E0 in B1.
          destruct s0 as [|h s0]; [discriminate|]. injection B1 as ->. cbn in Hys.
          inversion I0 as [|? ? _ F]; subst. rewrite Forall_forall in F. left. apply F. exact Hys.
        * apply Nat.eqb_neq in Eji. destruct s0 as [|h s0]; [contradiction|].
          pose proof (incr_head_min h s0 y I0 Hys) as Hh.
          assert (Hd : hd_at ss j = Some h) by (unfold hd_at; rewrite E0; reflexivity).
          pose proof (B2 j h Hd). destruct (Nat.lt_ge_cases j i) as [Hlt|Hge].
          -- pose proof (B3 j h Hlt Hd). lia.
          -- lia.
    - rewrite (tag_nil ss 0 B). split; constructor.
  Qed.

  Theorem merge_true_spec fuel (ss : list (list X)) :
    length (tag_from 0 ss) < fuel -> Forall (incr kb) ss ->
    regex_merge kb ke fuel true ss = sort_by kb (tag_from 0 ss).
  Proof.
    intros Hf Hi. destruct (merge_true_sorted_perm fuel ss Hf Hi) as [P S].
    apply (sorted_unique kb); [exact S| |].
    - apply sort_sorted. apply tag_from_sorted. exact Hi.
    - rewrite P. symmetry. apply sort_perm.
  Qed.
End MergeModel3.

Section MergeModel4.
  Context {X : Type}.
  Variable kb ke : X -> nat.

  (* matches of one expression: begin <= end, every later one begins after this begin and not
     before this end *)
  Fixpoint okstream (s : list X) : Prop :=
    match s with
    | [] => True
    | x :: s' => kb x <= ke x /\ (forall y, In y s' -> kb x < kb y /\ ke x <= kb y) /\ okstream s'
    end.

  Lemma okstream_incr s : okstream s -> incr kb s.
  Proof.
    induction s as [|x s IH]; intros H; [constructor|]. destruct H as (_ & H2 & H3).
    constructor; [apply IH; exact H3|]. apply Forall_forall. intros y Hy. apply H2. exact Hy.
  Qed.
  Lemma okstream_tl s : okstream s -> okstream (tl s).
  Proof. destruct s; [trivial|]. intros (_ & _ & H). exact H. Qed.

  (* drop the matches that begin before c *)
  Fixpoint dw (c : nat) (s : list X) : list X :=
    match s with
    | x :: s' => if kb x <? c then dw c s' else s
    | [] => []
    end.

  Lemma dw_keep c s : (forall h, hd_error s = Some h -> c <= kb h) -> dw c s = s.
  Proof. destruct s as [|h s]; [reflexivity|]. intros H. cbn [dw]. specialize (H h eq_refl). replace (kb h <? c) with false by lia. reflexivity. Qed.

  Lemma drop_overlap_dw mb me : forall s, (forall y, In y s -> mb <= kb y) -> drop_overlap kb mb me s = dw me s.
  Proof.
    induction s as [|x s IH]; intros H; [reflexivity|]. cbn [drop_overlap dw].
    pose proof (H x (or_introl eq_refl)). replace (mb <=? kb x) with true by lia. cbn [andb].
    destruct (kb x <? me); [|reflexivity]. apply IH. intros; apply H; right; assumption.
  Qed.

  Lemma best_none (ss : list (list X)) : (forall j, hd_at ss j = None) -> best_from kb 0 ss None = None.
  Proof.
    intros H. pose proof (best_top kb ss) as B. destruct (best_from kb 0 ss None) as [[i m]|]; [|reflexivity].
    destruct B as [B _]. rewrite H in B. discriminate.
  Qed.

  Lemma nth_ok (ss : list (list X)) j s : Forall okstream ss -> nth_error ss j = Some s -> okstream s.
  Proof. intros F H. rewrite Forall_forall in F. apply F. apply (nth_error_In _ _ H). Qed.

  Lemma merge_false_sim : forall n (ss : list (list X)) c f1 f2,
    length (tag_from 0 ss) <= n -> n < f1 -> n < f2 -> Forall okstream ss ->
    regex_merge kb ke f1 false (map (dw c) ss) = greedy kb ke c (regex_merge kb ke f2 true ss).
  Proof.
    induction n as [|n IH]; intros ss c f1 f2 Hn H1 H2 Hok.
    all: destruct f1 as [|f1]; [lia|]; destruct f2 as [|f2]; [lia|].
    all: cbn [regex_merge]; unfold regex_step at 2; pose proof (best_top kb ss) as B.
    all: destruct (best_from kb 0 ss None) as [[i m]|] eqn:Eb.
    all: try (unfold regex_step; rewrite best_none; [reflexivity|];
              intros j; unfold hd_at; rewrite nth_error_map; specialize (B j); unfold hd_at in B;
              destruct (nth_error ss j) as [[|? ?]|]; try discriminate; reflexivity).
    - (* n = 0 but there is a match *)
      destruct B as (B1 & _). exfalso. pose proof (tag_upd_perm m ss 0 i B1) as P.
      apply Permutation_length in P. cbn in P. lia.
    - destruct B as (B1 & B2 & B3).
      set (ss_i := mapi_from 0 (fun j s => if j =? i then tl s else s) ss).
      pose proof (tag_upd_perm m ss 0 i B1) as P. cbn [Nat.add] in P. fold ss_i in P.
      assert (Hlen : length (tag_from 0 ss_i) <= n) by (apply Permutation_length in P; cbn in P; lia).
      assert (Hok' : Forall okstream ss_i).
      { apply Forall_mapi; [|exact Hok]. intros j s Hs. destruct (j =? i); [apply okstream_tl|]; exact Hs. }
      assert (Hsi : exists s0, nth_error ss i = Some (m :: s0)).
      { unfold hd_at in B1. destruct (nth_error ss i) as [[|h s0]|]; try discriminate. injection B1 as ->. eauto. }
      destruct Hsi as [s0 Hsi]. pose proof (nth_ok ss i _ Hok Hsi) as (Om1 & Om2 & Om3).
      assert (Hhead : forall j s y, nth_error ss j = Some s -> In y s -> kb m <= kb y).
      { intros j s y Hs Hy. destruct s as [|h s]; [contradiction|].
        pose proof (incr_head_min kb h s y (okstream_incr _ (nth_ok ss j _ Hok Hs)) Hy).
        assert (hd_at ss j = Some h) by (unfold hd_at; rewrite Hs; reflexivity).
        pose proof (B2 j h H0). lia. }
      cbn [greedy snd]. destruct (c <=? kb m) eqn:Ec.
      + (* m is kept *)
        assert (Hkeep : map (dw c) ss = ss).
        { rewrite <- (mapi_const (dw c) ss 0). apply mapi_id. intros j s Hs. cbn [Nat.add]. apply dw_keep.
          intros h Hh. destruct s as [|h' s]; [discriminate|]. injection Hh as ->.
          pose proof (Hhead j _ h Hs (or_introl eq_refl)). lia. }
        rewrite Hkeep. unfold regex_step. rewrite Eb. rewrite mapi_mapi. f_equal.
        replace (Nat.max c (ke m)) with (ke m) by lia.
        rewrite <- (IH ss_i (ke m) f1 f2) by (assumption || lia). f_equal.
        unfold ss_i. rewrite map_mapi. apply mapi_ext. intros j s Hs. cbn [Nat.add].
        destruct (j =? i) eqn:Eji.
        * apply Nat.eqb_eq in Eji. subst j. rewrite Hsi in Hs. injection Hs as <-. cbn [tl].
          symmetry. apply dw_keep. intros h Hh. destruct s0 as [|h' s0]; [discriminate|]. injection Hh as ->.
          apply Om2. left. reflexivity.
        * apply drop_overlap_dw. intros y Hy. apply (Hhead j s y Hs Hy).
      + (* m begins inside an earlier result *)
        assert (Hmap : map (dw c) ss = map (dw c) ss_i).
        { unfold ss_i. rewrite map_mapi, <- (mapi_const (dw c) ss 0). apply mapi_ext. intros j s Hs. cbn [Nat.add].
          destruct (j =? i) eqn:Eji; [|reflexivity].
          apply Nat.eqb_eq in Eji. subst j. rewrite Hsi in Hs. injection Hs as <-. cbn [tl dw].
          replace (kb m <? c) with true by lia. reflexivity. }
        rewrite Hmap.
        change (regex_merge kb ke (S f1) false (map (dw c) ss_i) = greedy kb ke c (regex_merge kb ke f2 true ss_i)).
        apply IH; assumption || lia.
  Qed.

  Lemma dw_0 s : dw 0 s = s.
  Proof. destruct s; [reflexivity|]. cbn [dw]. replace (kb x <? 0) with false by lia. reflexivity. Qed.

  (* the merge of the model is the merge of the spec *)
  Theorem merge_spec_eq fuel allow (ss : list (list X)) :
    length (tag_from 0 ss) < fuel -> Forall okstream ss ->
    regex_merge kb ke fuel allow ss = merge_spec kb ke allow ss.
  Proof.
    intros Hf Hok. unfold merge_spec.
    assert (Hi : Forall (incr kb) ss) by (eapply Forall_impl; [|exact Hok]; apply okstream_incr).
    destruct allow.
    - apply merge_true_spec; assumption.
    - rewrite <- (merge_true_spec kb ke fuel ss Hf Hi).
      rewrite <- (merge_false_sim (length (tag_from 0 ss)) ss 0 fuel fuel) by (assumption || lia).
      f_equal. symmetry. rewrite <- (map_id ss) at 2. apply map_ext. apply dw_0.
  Qed.
End MergeModel4.
