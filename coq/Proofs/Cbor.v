(* C11: proofs about the CBOR model (Model/Cbor.v).

   Main results (all for an arbitrary schema [Sc] with [wf_schema Sc = true]):
     roundtrip_generic   dec fuel t (enc t v ++ rest) = Some (erase t v, rest)
                         for every well-typed value tree, any trailing tokens, enough fuel;
     enc_one_item        enc t v is exactly one well-formed CBOR data item;
     erase_at_rest       erase is idempotent: a reloaded value is at rest. *)
From Coq Require Import String Ascii.
From Coq Require Import List Arith ZArith NArith Bool Lia.
Import ListNotations.
From Stam Require Import Base.Tac Model.Cbor Spec.CborSpec.

(* ------------------------------------------------------------------ *)
(* primitives *)

Lemma prim_roundtrip : forall p v rest,
  ht_prim p v = true -> dec_prim p (enc_prim p v ++ rest) = Some (v, rest).
Proof.
  intros p v rest H.
  destruct p, v; cbn in H; try discriminate; cbn [enc_prim app dec_prim]; try rewrite H; try reflexivity.
  apply andb_true_iff in H. destruct H as [H1 H2].
  apply Z.leb_le in H1. apply Z.ltb_lt in H2.
  destruct (Z.leb 0 z) eqn:E; cbn [app dec_prim].
  - apply Z.leb_le in E. rewrite Z2N.id by lia.
    assert (Hlt : Z.ltb z two63z = true) by (apply Z.ltb_lt; lia).
    rewrite Hlt. reflexivity.
  - apply Z.leb_gt in E. rewrite Z2N.id by lia.
    assert (Hlt : Z.ltb (-1 - z) two63z = true) by (apply Z.ltb_lt; unfold two63z in *; lia).
    rewrite Hlt. f_equal. f_equal. f_equal. lia.
Qed.

Definition head_nonnull (ts : list tok) : bool :=
  match ts with TNull :: _ => false | _ => true end.

Lemma prim_head : forall p v rest, ht_prim p v = true -> head_nonnull (enc_prim p v ++ rest) = true.
Proof.
  intros p v rest H. destruct p, v; cbn in H; try discriminate; cbn; try reflexivity.
  destruct (Z.leb 0 z); reflexivity.
Qed.

(* ------------------------------------------------------------------ *)
(* list helpers *)

Lemma dec_list_rt : forall (d : list tok -> option (value * list tok)) (e : value -> list tok)
                           (er : value -> value) l rest,
  (forall v r, In v l -> d (e v ++ r) = Some (er v, r)) ->
  dec_list d (length l) (flat_map e l ++ rest) = Some (map er l, rest).
Proof.
  induction l as [|x l IH]; intros rest H; cbn [length flat_map dec_list map app].
  - reflexivity.
  - rewrite <- app_assoc. rewrite H by (left; reflexivity).
    rewrite IH by (intros; apply H; right; assumption). reflexivity.
Qed.

Lemma skip1_null : forall ts, skip1 (TNull :: ts) = Some ts.
Proof. intros. unfold skip1. cbn [length skip_items]. destruct (length ts); reflexivity. Qed.

Lemma skip1_arr0 : forall ts, skip1 (TArr 0 :: ts) = Some ts.
Proof. intros. unfold skip1. cbn [length skip_items Nat.add]. destruct (length ts); reflexivity. Qed.

Lemma nodup_nat_notin : forall l x, nodup_nat (x :: l) = true -> existsb (Nat.eqb x) l = false.
Proof. intros l x H. cbn in H. apply andb_true_iff in H. destruct H as [H _]. apply negb_true_iff in H. exact H. Qed.

Lemma existsb_eqb_in : forall l x, existsb (Nat.eqb x) l = false -> ~ In x l.
Proof.
  intros l x H Hin. assert (existsb (Nat.eqb x) l = true).
  { apply existsb_exists. exists x. split; [assumption | apply Nat.eqb_refl]. }
  congruence.
Qed.

Lemma vdepth_in : forall l x, In x l -> vdepth x <= fold_right (fun y m => Nat.max (vdepth y) m) 0 l.
Proof.
  induction l as [|y l IH]; intros x H; [contradiction|].
  cbn [fold_right]. destruct H as [->|H]; [lia|]. specialize (IH x H). lia.
Qed.

Lemma zipw_length : forall {A B C} (f : A -> B -> C) la lb, length la = length lb -> length (zipw f la lb) = length lb.
Proof.
  intros A B C f la lb. revert la. induction lb as [|y lb IH]; intros [|x la] H; cbn in *; try discriminate; try reflexivity.
  f_equal. apply IH. lia.
Qed.

Lemma nth_error_zipw : forall {A B C} (f : A -> B -> C) la lb p x y,
  nth_error la p = Some x -> nth_error lb p = Some y -> nth_error (zipw f la lb) p = Some (f x y).
Proof.
  intros A B C f la lb. revert la. induction lb as [|y0 lb IH]; intros [|x0 la] p x y Ha Hb;
    destruct p; cbn in *; try discriminate.
  - congruence.
  - eapply IH; eassumption.
Qed.

(* ------------------------------------------------------------------ *)
(* the generated encoder of a struct body (sorted fields, max test, gap filling) writes the
   slot array of the specification *)
Section Derive.

Definition keys (l : list dfield) : list nat := map d_idx l.

(* strictly increasing, all indices >= lo *)
Fixpoint incr_from (lo : nat) (l : list dfield) : Prop :=
  match l with
  | [] => True
  | x :: r => lo <= d_idx x /\ incr_from (S (d_idx x)) r
  end.

Lemma incr_weaken : forall l lo lo', lo' <= lo -> incr_from lo l -> incr_from lo' l.
Proof. destruct l; intros lo lo' H I; cbn in *; [exact I|]. destruct I; split; [lia|assumption]. Qed.

Lemma incr_lb : forall l lo k, incr_from lo l -> In k (keys l) -> lo <= k.
Proof.
  induction l as [|x l IH]; intros lo k I H; [contradiction|].
  cbn in I, H. destruct I as [I1 I2]. destruct H as [<-|H]; [assumption|].
  specialize (IH _ _ I2 H). lia.
Qed.

Lemma keys_insert : forall x l k, In k (keys (insert_d x l)) <-> k = d_idx x \/ In k (keys l).
Proof.
  induction l as [|y l IH]; intros k; cbn.
  - intuition.
  - destruct (Nat.leb (d_idx x) (d_idx y)); cbn; [intuition|]. rewrite IH. intuition.
Qed.

Lemma keys_sort : forall l k, In k (keys (sort_d l)) <-> In k (keys l).
Proof.
  induction l as [|x l IH]; intros k; cbn; [tauto|]. rewrite keys_insert, IH. intuition.
Qed.

Lemma incr_insert : forall x l lo, incr_from lo l -> lo <= d_idx x -> ~ In (d_idx x) (keys l) ->
  incr_from lo (insert_d x l).
Proof.
  induction l as [|y l IH]; intros lo I H N; cbn.
  - auto.
  - cbn in I. destruct I as [I1 I2]. cbn in N.
    destruct (Nat.leb (d_idx x) (d_idx y)) eqn:E; cbn.
    + apply Nat.leb_le in E. split; [assumption|]. split; [|assumption].
      assert (d_idx y <> d_idx x) by tauto. lia.
    + apply Nat.leb_gt in E. split; [assumption|]. apply IH; [assumption|lia|tauto].
Qed.

Lemma incr_sort : forall l, NoDup (keys l) -> incr_from 0 (sort_d l).
Proof.
  induction l as [|x l IH]; intros H; cbn; [exact I|].
  cbn in H. inversion H as [|? ? Hn Hd]; subst.
  apply incr_insert; [apply IH; assumption|lia|]. rewrite keys_sort. assumption.
Qed.

Definition lookup_d (i : nat) (l : list dfield) : option dfield := find (fun x => Nat.eqb (d_idx x) i) l.

Lemma lookup_insert : forall x l i, ~ In (d_idx x) (keys l) ->
  lookup_d i (insert_d x l) = if Nat.eqb (d_idx x) i then Some x else lookup_d i l.
Proof.
  unfold lookup_d. induction l as [|y l IH]; intros i N; cbn [insert_d find].
  - reflexivity.
  - cbn [keys map In] in N. destruct (Nat.leb (d_idx x) (d_idx y)); cbn [find]; [reflexivity|].
    rewrite IH by (unfold keys; tauto).
    destruct (Nat.eqb (d_idx y) i) eqn:Ey; [|reflexivity].
    destruct (Nat.eqb (d_idx x) i) eqn:Ex; [|reflexivity].
    apply Nat.eqb_eq in Ey, Ex. exfalso. apply N. left. lia.
Qed.

Lemma lookup_sort : forall l i, NoDup (keys l) -> lookup_d i (sort_d l) = lookup_d i l.
Proof.
  induction l as [|x l IH]; intros i H; [reflexivity|].
  cbn in H. inversion H as [|? ? Hn Hd]; subst.
  change (sort_d (x :: l)) with (insert_d x (sort_d l)).
  rewrite lookup_insert by (rewrite keys_sort; assumption). rewrite IH by assumption. reflexivity.
Qed.

Lemma lookup_none : forall l i, ~ In i (keys l) -> lookup_d i l = None.
Proof.
  induction l as [|x l IH]; intros i N; [reflexivity|]. cbn in *.
  destruct (Nat.eqb (d_idx x) i) eqn:E; [apply Nat.eqb_eq in E; tauto|]. apply IH. tauto.
Qed.

(* highest index of a non-nil entry, in any order *)
Fixpoint maxnn (l : list dfield) : option nat :=
  match l with
  | [] => None
  | x :: r =>
      let m := maxnn r in
      if d_nil x then m else match m with Some j => Some (Nat.max (d_idx x) j) | None => Some (d_idx x) end
  end.

Lemma maxnn_insert : forall x l, maxnn (insert_d x l) = maxnn (x :: l).
Proof.
  induction l as [|y l IH]; [reflexivity|]. cbn [insert_d].
  destruct (Nat.leb (d_idx x) (d_idx y)); [reflexivity|].
  cbn [maxnn] in *. rewrite IH.
  destruct (d_nil x), (d_nil y), (maxnn l); try reflexivity; f_equal; lia.
Qed.

Lemma maxnn_sort : forall l, maxnn (sort_d l) = maxnn l.
Proof.
  induction l as [|x l IH]; [reflexivity|].
  change (sort_d (x :: l)) with (insert_d x (sort_d l)). rewrite maxnn_insert. cbn [maxnn]. rewrite IH. reflexivity.
Qed.

Lemma maxnn_in : forall l m, maxnn l = Some m -> In m (keys l).
Proof.
  induction l as [|x l IH]; intros m H; [discriminate|]. cbn in *.
  destruct (d_nil x).
  - right. apply IH. assumption.
  - destruct (maxnn l) as [j|]; inversion H; subst.
    + destruct (Nat.max_dec (d_idx x) j) as [E|E]; rewrite E; [left; reflexivity|right; apply IH; reflexivity].
    + left; reflexivity.
Qed.

Lemma derive_max_incr : forall sf lo acc, incr_from lo sf -> (forall a, acc = Some a -> a < lo) ->
  derive_max sf acc = match maxnn sf with Some m => Some m | None => acc end.
Proof.
  induction sf as [|x r IH]; intros lo acc I A; [reflexivity|].
  cbn in I. destruct I as [I1 I2]. cbn [derive_max maxnn].
  rewrite (IH (S (d_idx x))); [|assumption|].
  - destruct (d_nil x); [reflexivity|].
    destruct (maxnn r) as [j|] eqn:Ej; [|reflexivity].
    pose proof (incr_lb _ _ _ I2 (maxnn_in _ _ Ej)). f_equal. lia.
  - intros a Ha. destruct (d_nil x).
    + specialize (A a Ha). lia.
    + inversion Ha. lia.
Qed.

(* the emission with the start of the next gap made explicit *)
Fixpoint emit_from (start m : nat) (sf : list dfield) : list tok :=
  match sf with
  | [] => []
  | x :: r =>
      (if Nat.leb (d_idx x) m then repeat TNull (d_idx x - start) ++ d_enc x else [])
      ++ emit_from (S (d_idx x)) m r
  end.

Lemma derive_emit_from : forall sf first k m,
  derive_emit first k m sf = emit_from (if first then k else S k) m sf.
Proof.
  induction sf as [|x r IH]; intros first k m; [reflexivity|].
  cbn [derive_emit emit_from]. rewrite IH. cbn.
  destruct first; [reflexivity|]. replace (d_idx x - k - 1) with (d_idx x - S k) by lia. reflexivity.
Qed.

Definition slot_d (sf : list dfield) (i : nat) : list tok :=
  match lookup_d i sf with Some x => d_enc x | None => [TNull] end.

Lemma flat_map_ext_in' : forall {X Y} (f g : X -> list Y) l, (forall x, In x l -> f x = g x) -> flat_map f l = flat_map g l.
Proof.
  induction l as [|x l IH]; intros H; [reflexivity|]. cbn.
  rewrite (H x) by (left; reflexivity). f_equal. apply IH. intros; apply H; right; assumption.
Qed.

Lemma flat_map_nulls : forall (f : nat -> list tok) l, (forall i, In i l -> f i = [TNull]) ->
  flat_map f l = repeat TNull (length l).
Proof.
  induction l as [|i l IH]; intros H; [reflexivity|]. cbn.
  rewrite (H i) by (left; reflexivity). cbn. f_equal. apply IH. intros; apply H; right; assumption.
Qed.

Lemma emit_slots : forall sf start m, incr_from start sf -> (start <= m -> In m (keys sf)) ->
  emit_from start m sf = flat_map (slot_d sf) (seq start (S m - start)).
Proof.
  induction sf as [|x r IH]; intros start m I H.
  - cbn [emit_from]. destruct (le_lt_dec start m) as [L|L]; [destruct (H L)|].
    replace (S m - start) with 0 by lia. reflexivity.
  - cbn in I. destruct I as [I1 I2]. cbn [emit_from].
    destruct (Nat.leb (d_idx x) m) eqn:E.
    + apply Nat.leb_le in E.
      replace (S m - start) with ((d_idx x - start) + S (m - d_idx x)) by lia.
      rewrite seq_app, flat_map_app.
      replace (start + (d_idx x - start)) with (d_idx x) by lia.
      cbn [seq flat_map]. rewrite <- app_assoc. f_equal; [|f_equal].
      * rewrite flat_map_nulls; [rewrite seq_length; reflexivity|].
        intros i Hi. apply in_seq in Hi. unfold slot_d. rewrite lookup_none; [reflexivity|].
        cbn. intros [Hx|Hr]; [lia|]. pose proof (incr_lb _ _ _ I2 Hr). lia.
      * unfold slot_d, lookup_d. cbn. rewrite Nat.eqb_refl. reflexivity.
      * rewrite (IH (S (d_idx x)) m I2).
        -- replace (S m - S (d_idx x)) with (m - d_idx x) by lia.
           apply flat_map_ext_in'. intros i Hi. apply in_seq in Hi.
           unfold slot_d, lookup_d. cbn.
           destruct (Nat.eqb (d_idx x) i) eqn:Ei; [apply Nat.eqb_eq in Ei; lia|reflexivity].
        -- intros L. assert (In m (keys (x :: r))) by (apply H; lia). cbn in H0. destruct H0; [lia|assumption].
    + apply Nat.leb_gt in E. cbn [app].
      assert (Hs : m < start).
      { destruct (le_lt_dec start m) as [L|L]; [|assumption].
        pose proof (H L) as Hin. cbn in Hin. destruct Hin as [Hx|Hr]; [lia|].
        pose proof (incr_lb _ _ _ I2 Hr). lia. }
      rewrite (IH (S (d_idx x)) m I2) by (intros; lia).
      replace (S m - S (d_idx x)) with 0 by lia. replace (S m - start) with 0 by lia. reflexivity.
Qed.

(* collect, read through the declaration *)
Lemma keys_collect : forall fs encs nils, length encs = length fs -> length nils = length fs ->
  keys (collect fs encs nils) = idxs fs.
Proof.
  induction fs as [|f fs IH]; intros [|e encs] [|b nils] H1 H2; cbn in *; try discriminate; try reflexivity.
  destruct (f_idx f); cbn; [f_equal|]; apply IH; lia.
Qed.

Lemma nodup_nat_NoDup : forall l, nodup_nat l = true -> NoDup l.
Proof.
  induction l as [|x l IH]; intros H; [constructor|].
  cbn in H. apply andb_true_iff in H. destruct H as [H1 H2]. apply negb_true_iff in H1.
  constructor; [|apply IH; assumption].
  intros Hin. assert (existsb (Nat.eqb x) l = true).
  { apply existsb_exists. exists x. split; [assumption|apply Nat.eqb_refl]. }
  congruence.
Qed.

Lemma maxnn_collect : forall fs encs nils, length encs = length fs -> length nils = length fs ->
  maxnn (collect fs encs nils) = max_idx fs nils.
Proof.
  induction fs as [|f fs IH]; intros [|e encs] [|b nils] H1 H2; cbn in *; try discriminate; try reflexivity.
  destruct (f_idx f); cbn; rewrite IH by lia; reflexivity.
Qed.

Lemma find_fld_from_ge : forall fs q i p f, find_fld_from q fs i = Some (p, f) -> q <= p.
Proof.
  induction fs as [|g fs IH]; intros q i p f H; cbn in H; [discriminate|].
  destruct (f_idx g) as [j|].
  - destruct (Nat.eqb j i); [inversion H; lia|]. apply IH in H. lia.
  - apply IH in H. lia.
Qed.

Lemma lookup_collect : forall fs encs nils q i, length encs = length fs -> length nils = length fs ->
  match lookup_d i (collect fs encs nils) with Some x => d_enc x | None => [TNull] end
  = match find_fld_from q fs i with Some (p, _) => nth (p - q) encs [] | None => [TNull] end.
Proof.
  unfold lookup_d.
  induction fs as [|f fs IH]; intros [|e encs] [|b nils] q i H1 H2; cbn [length] in H1, H2; try discriminate;
    cbn [collect find find_fld_from]; try reflexivity.
  destruct (f_idx f) as [j|]; cbn [find d_idx].
  - destruct (Nat.eqb j i) eqn:E.
    + rewrite Nat.sub_diag. reflexivity.
    + rewrite (IH encs nils (S q) i) by lia.
      destruct (find_fld_from (S q) fs i) as [[p g]|] eqn:Ef; [|reflexivity].
      apply find_fld_from_ge in Ef. replace (p - q) with (S (p - S q)) by lia. reflexivity.
  - rewrite (IH encs nils (S q) i) by lia.
    destruct (find_fld_from (S q) fs i) as [[p g]|] eqn:Ef; [|reflexivity].
    apply find_fld_from_ge in Ef. replace (p - q) with (S (p - S q)) by lia. reflexivity.
Qed.

Theorem enc_rec_is_spec : forall fs encs nils,
  nodup_nat (idxs fs) = true -> length encs = length fs -> length nils = length fs ->
  enc_rec fs encs nils = enc_rec_spec fs encs nils.
Proof.
  intros fs encs nils Hnd H1 H2. unfold enc_rec, enc_rec_spec.
  set (c := collect fs encs nils).
  assert (ND : NoDup (keys c)) by (unfold c; rewrite keys_collect by assumption; apply nodup_nat_NoDup; assumption).
  pose proof (incr_sort c ND) as I.
  rewrite (derive_max_incr _ 0 None I) by discriminate.
  rewrite maxnn_sort. unfold c at 1. rewrite maxnn_collect by assumption.
  destruct (max_idx fs nils) as [m|] eqn:Em; [|reflexivity].
  f_equal. rewrite derive_emit_from. cbn [Nat.sub].
  rewrite (emit_slots _ 0 m I).
  - rewrite Nat.sub_0_r. apply flat_map_ext. intros i. unfold slot_d, enc_slot.
    rewrite lookup_sort by assumption. unfold c, find_fld.
    rewrite (lookup_collect fs encs nils 0 i H1 H2).
    destruct (find_fld_from 0 fs i) as [[p g]|]; [rewrite Nat.sub_0_r|]; reflexivity.
  - intros _. rewrite keys_sort. apply maxnn_in. unfold c. rewrite maxnn_collect by assumption. exact Em.
Qed.

End Derive.

(* ------------------------------------------------------------------ *)
Section RT.
Variable Sc : schema.
Hypothesis WF : wf_schema Sc = true.

Notation enc := (enc Sc).
Notation dec := (dec Sc).
Notation ht := (ht Sc).
Notation erase := (erase Sc).
Notation encf := (encf Sc).
Notation htf := (htf Sc).
Notation erasef := (erasef Sc).
Notation encs := (encs Sc).
Notation hts := (hts Sc).
Notation erases := (erases Sc).
Notation lookup := (lookup Sc).

(* --- unfolding equations --- *)
Lemma enc_struct_raw : forall name fs l, lookup name = Some (IStruct false fs) ->
  enc (TRef name) (VRec l) = enc_rec fs (encs fs l) (zipw isnil fs l).
Proof. intros. cbn [Cbor.enc]. rewrite H. reflexivity. Qed.
Lemma enc_transparent : forall name fs l, lookup name = Some (IStruct true fs) ->
  enc (TRef name) (VRec l) = match encs fs l with [e] => e | _ => [] end.
Proof. intros. cbn [Cbor.enc]. rewrite H. reflexivity. Qed.
Lemma enc_enum_raw : forall name vs k l vr, lookup name = Some (IEnum vs) -> nth_error vs k = Some vr ->
  enc (TRef name) (VVar k l) =
  TArr 2 :: TUInt (N.of_nat (v_idx vr)) :: enc_rec (v_fields vr) (encs (v_fields vr) l) (no_nils l).
Proof. intros. cbn [Cbor.enc]. rewrite H, H0. reflexivity. Qed.
Lemma enc_TP : forall p v, enc (TP p) v = enc_prim p v.
Proof. intros. destruct v; reflexivity. Qed.
Lemma ht_TP : forall p v, ht (TP p) v = ht_prim p v.
Proof. intros. destruct v; reflexivity. Qed.
Lemma erase_TP : forall p v, erase (TP p) v = v.
Proof. intros. destruct v; reflexivity. Qed.
Lemma enc_tup : forall tys l, enc (TTup tys) (VSeq l) = TArr (length tys) :: enc_tuple Sc tys l.
Proof. reflexivity. Qed.

Lemma ht_struct : forall name b fs v, lookup name = Some (IStruct b fs) ->
  ht (TRef name) v = match v with VRec l => hts fs l | _ => false end.
Proof. intros. destruct v; cbn [Cbor.ht]; rewrite H; reflexivity. Qed.
Lemma ht_enum : forall name vs v, lookup name = Some (IEnum vs) ->
  ht (TRef name) v = match v with
                     | VVar k l => match nth_error vs k with Some vr => hts (v_fields vr) l | None => false end
                     | _ => false end.
Proof. intros. destruct v; cbn [Cbor.ht]; rewrite H; reflexivity. Qed.
Lemma ht_none_ref : forall name v, lookup name = None -> ht (TRef name) v = false.
Proof. intros. destruct v; cbn [Cbor.ht]; rewrite H; reflexivity. Qed.
Lemma ht_tup : forall tys l, ht (TTup tys) (VSeq l) = ht_tuple Sc tys l.
Proof. reflexivity. Qed.

Lemma erase_struct : forall name b fs l, lookup name = Some (IStruct b fs) ->
  erase (TRef name) (VRec l) = VRec (erases fs l).
Proof. intros. cbn [Cbor.erase]. rewrite H. reflexivity. Qed.
Lemma erase_enum : forall name vs k l vr, lookup name = Some (IEnum vs) -> nth_error vs k = Some vr ->
  erase (TRef name) (VVar k l) = VVar k (erases (v_fields vr) l).
Proof. intros. cbn [Cbor.erase]. rewrite H, H0. reflexivity. Qed.
Lemma erase_tup : forall tys l, erase (TTup tys) (VSeq l) = VSeq (erase_tuple Sc tys l).
Proof. reflexivity. Qed.

(* --- the schema's static facts --- *)
Lemma ident_eqb_eq : forall a b, ident_eqb a b = true -> a = b.
Proof.
  induction a as [|x a IH]; intros [|y b] H; cbn in H; try discriminate; [reflexivity|].
  apply andb_true_iff in H. destruct H as [H1 H2]. apply Ascii.eqb_eq in H1. f_equal; auto.
Qed.

Lemma lookup_in_In : forall s name it, lookup_in s name = Some it -> In (name, it) s.
Proof.
  induction s as [|[n i] s IH]; intros name it H; cbn in H; [discriminate|].
  destruct (ident_eqb n name) eqn:E.
  - apply ident_eqb_eq in E. subst. inversion H; subst. left; reflexivity.
  - right. apply IH. exact H.
Qed.

Lemma lookup_wf : forall name it, lookup name = Some it -> item_wf Sc it = true.
Proof.
  intros name it H. apply lookup_in_In in H.
  unfold wf_schema in WF. apply andb_true_iff in WF. destruct WF as [_ W].
  rewrite forallb_forall in W. exact (W _ H).
Qed.

Lemma fields_wf_field : forall fs p f, fields_wf Sc fs = true -> nth_error fs p = Some f -> field_wf Sc f = true.
Proof.
  intros fs p f H Hn. unfold fields_wf in H. apply andb_true_iff in H. destruct H as [H _].
  rewrite forallb_forall in H. apply H. eapply nth_error_In; eassumption.
Qed.

Lemma fields_wf_nodup : forall fs, fields_wf Sc fs = true -> nodup_nat (idxs fs) = true.
Proof. intros fs H. unfold fields_wf in H. apply andb_true_iff in H. tauto. Qed.

Lemma ty_wf_tup : forall l t, ty_wf Sc (TTup l) = true -> In t l -> ty_wf Sc t = true.
Proof.
  induction l as [|x l IH]; intros t H Hin; [contradiction|].
  cbn in H. apply andb_true_iff in H. destruct H as [H1 H2].
  destruct Hin as [->|Hin]; [assumption|]. apply IH; assumption.
Qed.

(* the type to which a non-skipped, well-typed field's value belongs is well-formed *)
Lemma field_kind_wf : forall f t, field_wf Sc f = true -> f_idx f <> None -> fkind_of f = FK_ty t -> ty_wf Sc t = true.
Proof.
  intros f t H Hi Hk. unfold field_wf in H. destruct (f_idx f); [|congruence].
  unfold fkind_of in *. destruct (f_codec f) as [[e d]|].
  - apply andb_true_iff in H. destruct H as [_ H]. unfold fkind_of in H.
    destruct (lookup_codec e d) as [[t'|c]|]; try discriminate; inversion Hk; subst; assumption.
  - inversion Hk; subst. assumption.
Qed.

(* --- find_fld --- *)
Lemma find_fld_from_some : forall fs q i p f, find_fld_from q fs i = Some (p, f) ->
  exists p', p = q + p' /\ nth_error fs p' = Some f /\ f_idx f = Some i.
Proof.
  induction fs as [|g fs IH]; intros q i p f H; cbn in H; [discriminate|].
  destruct (f_idx g) as [j|] eqn:Ej.
  - destruct (Nat.eqb j i) eqn:E.
    + apply Nat.eqb_eq in E. subst. inversion H; subst. exists 0. rewrite Nat.add_0_r. auto.
    + apply IH in H. destruct H as (p' & -> & Hn & Hi). exists (S p'). split; [lia|]. auto.
  - apply IH in H. destruct H as (p' & -> & Hn & Hi). exists (S p'). split; [lia|]. auto.
Qed.

Lemma idxs_in : forall fs p f i, nth_error fs p = Some f -> f_idx f = Some i -> In i (idxs fs).
Proof.
  induction fs as [|g fs IH]; intros p f i Hn Hi; destruct p; cbn in Hn; try discriminate.
  - inversion Hn; subst. cbn. rewrite Hi. left; reflexivity.
  - cbn. destruct (f_idx g); [right|]; eapply IH; eassumption.
Qed.

Lemma find_fld_from_unique : forall fs q i p' f, nodup_nat (idxs fs) = true ->
  nth_error fs p' = Some f -> f_idx f = Some i -> find_fld_from q fs i = Some (q + p', f).
Proof.
  induction fs as [|g fs IH]; intros q i p' f Hnd Hn Hi; destruct p'; cbn in Hn; try discriminate.
  - inversion Hn; subst. cbn. rewrite Hi, Nat.eqb_refl, Nat.add_0_r. reflexivity.
  - cbn. destruct (f_idx g) as [j|] eqn:Ej.
    + cbn in Hnd. rewrite Ej in Hnd.
      pose proof (nodup_nat_notin _ _ Hnd) as Hnot. apply existsb_eqb_in in Hnot.
      destruct (Nat.eqb j i) eqn:E.
      * apply Nat.eqb_eq in E. subst. exfalso. apply Hnot. eapply idxs_in; eassumption.
      * cbn in Hnd. apply andb_true_iff in Hnd. destruct Hnd as [_ Hnd].
        rewrite (IH (S q) i p' f Hnd Hn Hi). f_equal. f_equal. lia.
    + cbn in Hnd. rewrite Ej in Hnd.
      rewrite (IH (S q) i p' f Hnd Hn Hi). f_equal. f_equal. lia.
Qed.

Lemma find_fld_none : forall fs q i p f, find_fld_from q fs i = None -> nth_error fs p = Some f -> f_idx f <> Some i.
Proof.
  induction fs as [|g fs IH]; intros q i p f H Hn; destruct p; cbn in Hn; try discriminate.
  - inversion Hn; subst. cbn in H. destruct (f_idx f) as [j|]; [|congruence].
    destruct (Nat.eqb j i) eqn:E; [discriminate|]. apply Nat.eqb_neq in E. congruence.
  - cbn in H. destruct (f_idx g) as [j|].
    + destruct (Nat.eqb j i); [discriminate|]. eapply IH; eassumption.
    + eapply IH; eassumption.
Qed.

(* --- max_idx --- *)
Lemma max_idx_none : forall fs nils p f b i, max_idx fs nils = None ->
  nth_error fs p = Some f -> nth_error nils p = Some b -> f_idx f = Some i -> b = true.
Proof.
  induction fs as [|g fs IH]; intros nils p f b i H Hn Hb Hi; destruct p; cbn in Hn; try discriminate;
    destruct nils as [|b0 nils]; cbn in Hb; try discriminate.
  - inversion Hn; inversion Hb; subst. cbn in H. rewrite Hi in H.
    destruct b; [reflexivity|]. destruct (max_idx fs nils); discriminate.
  - cbn in H. destruct (f_idx g).
    + destruct b0; [eapply IH; eassumption|]. destruct (max_idx fs nils); discriminate.
    + eapply IH; eassumption.
Qed.

Lemma max_idx_some : forall fs nils p f b i m, max_idx fs nils = Some m ->
  nth_error fs p = Some f -> nth_error nils p = Some b -> f_idx f = Some i -> b = false -> i <= m.
Proof.
  induction fs as [|g fs IH]; intros nils p f b i m H Hn Hb Hi Hf; destruct p; cbn in Hn; try discriminate;
    destruct nils as [|b0 nils]; cbn in Hb; try discriminate.
  - inversion Hn; inversion Hb; subst. cbn in H. rewrite Hi in H.
    destruct (max_idx fs nils); inversion H; lia.
  - cbn in H. destruct (f_idx g) as [j|].
    + destruct b0.
      * eapply IH; eassumption.
      * destruct (max_idx fs nils) as [m'|] eqn:Em.
        -- inversion H; subst. assert (i <= m') by (eapply IH; eauto). lia.
        -- exfalso. assert (b = true) by (eapply max_idx_none; eauto). congruence.
    + eapply IH; eassumption.
Qed.

(* --- lists of fields --- *)
Lemma hts_length : forall fs l, hts fs l = true -> length fs = length l.
Proof.
  intros fs l. revert fs. induction l as [|v l IH]; intros [|f fs] H; cbn in H; try discriminate; try reflexivity.
  apply andb_true_iff in H. destruct H as [_ H]. cbn. f_equal. apply IH. exact H.
Qed.

Lemma hts_nth : forall fs l p f v, hts fs l = true -> nth_error fs p = Some f -> nth_error l p = Some v -> htf f v = true.
Proof.
  intros fs l. revert fs. induction l as [|v0 l IH]; intros [|f0 fs] p f v H Hf Hv; destruct p; cbn in *; try discriminate.
  - apply andb_true_iff in H. destruct H as [H _]. congruence.
  - apply andb_true_iff in H. destruct H as [_ H]. eapply IH; eassumption.
Qed.

Lemma encs_nth : forall fs l p f v, nth_error fs p = Some f -> nth_error l p = Some v ->
  nth p (encs fs l) [] = encf f v.
Proof.
  intros fs l. revert fs. induction l as [|v0 l IH]; intros [|f0 fs] p f v Hf Hv; destruct p; cbn in *; try discriminate.
  - congruence.
  - eapply IH; eassumption.
Qed.

Lemma erases_nth : forall fs l p f v, nth_error fs p = Some f -> nth_error l p = Some v ->
  nth_error (erases fs l) p = Some (erasef f v).
Proof.
  intros fs l. revert fs. induction l as [|v0 l IH]; intros [|f0 fs] p f v Hf Hv; destruct p; cbn in *; try discriminate.
  - congruence.
  - eapply IH; eassumption.
Qed.

Lemma encs_length : forall fs l, length fs = length l -> length (encs fs l) = length fs.
Proof.
  intros fs l. revert fs. induction l as [|v l IH]; intros [|f fs] H; cbn in *; try discriminate; try reflexivity.
  f_equal. apply IH. lia.
Qed.

(* from here on the struct body is used in its specification form *)
Lemma enc_struct : forall name fs l, lookup name = Some (IStruct false fs) -> hts fs l = true ->
  enc (TRef name) (VRec l) = enc_rec_spec fs (encs fs l) (zipw isnil fs l).
Proof.
  intros name fs l El Hh. rewrite (enc_struct_raw _ _ _ El).
  pose proof (hts_length _ _ Hh) as Hlen.
  apply enc_rec_is_spec.
  - pose proof (lookup_wf _ _ El) as Hw. cbn in Hw. apply fields_wf_nodup. exact Hw.
  - apply encs_length. exact Hlen.
  - rewrite zipw_length by exact Hlen. symmetry. exact Hlen.
Qed.

Lemma enc_enum : forall name vs k l vr, lookup name = Some (IEnum vs) -> nth_error vs k = Some vr ->
  hts (v_fields vr) l = true ->
  enc (TRef name) (VVar k l) =
  TArr 2 :: TUInt (N.of_nat (v_idx vr)) :: enc_rec_spec (v_fields vr) (encs (v_fields vr) l) (no_nils l).
Proof.
  intros name vs k l vr El Ek Hh. rewrite (enc_enum_raw _ _ _ _ _ El Ek).
  pose proof (hts_length _ _ Hh) as Hlen.
  f_equal. f_equal. apply enc_rec_is_spec.
  - pose proof (lookup_wf _ _ El) as Hw. cbn in Hw.
    apply andb_true_iff in Hw. destruct Hw as [Hw _]. apply andb_true_iff in Hw. destruct Hw as [Hvw _].
    rewrite forallb_forall in Hvw. pose proof (Hvw vr (nth_error_In _ _ Ek)) as Hv1.
    unfold variant_wf in Hv1. apply andb_true_iff in Hv1. destruct Hv1 as [Hfw _].
    apply fields_wf_nodup. exact Hfw.
  - apply encs_length. exact Hlen.
  - unfold no_nils. rewrite map_length. symmetry. exact Hlen.
Qed.

Lemma ht_none_opt : forall t, ht t VNone = true -> is_opt t = true.
Proof.
  intros t H. destruct t; cbn in H; try discriminate; try reflexivity.
  - destruct p; discriminate.
  - destruct (lookup name) as [[b fs|vs]|]; discriminate.
Qed.

Lemma erase_none : forall t, erase t VNone = VNone.
Proof. intros t. destruct t; cbn; try reflexivity. destruct (lookup name) as [[b fs|vs]|]; reflexivity. Qed.

(* a nil field (one the encoder may leave out) holds None, has an Option type, and the decoder's
   nil() puts None back *)
Lemma nil_field : forall f v, field_wf Sc f = true -> f_idx f <> None -> htf f v = true -> isnil f v = true ->
  is_opt (f_ty f) = true /\ erasef f v = VNone.
Proof.
  intros f v Hw Hi Hh Hn. unfold isnil in Hn. unfold field_wf in Hw. unfold Cbor.htf in Hh. unfold Cbor.erasef.
  destruct (f_idx f); [|congruence].
  destruct (f_codec f) as [[e d]|] eqn:Ec.
  - apply andb_true_iff in Hw. destruct Hw as [Hw _]. apply andb_true_iff in Hn. destruct Hn as [Hn _].
    rewrite Hn in Hw. discriminate.
  - unfold fkind_of in *. rewrite Ec in *. destruct v; try discriminate.
    split; [apply ht_none_opt; assumption | apply erase_none].
Qed.

(* ------------------------------------------------------------------ *)
(* the record lemma *)
Section Record.
Variable D : field -> list tok -> option (value * list tok).
Variable fs : list field.
Variable l : list value.
Variable nl : list bool.   (* which fields the encoder regards as nil *)
Hypothesis Hnl : forall p f v, nth_error fs p = Some f -> nth_error l p = Some v ->
  exists b, nth_error nl p = Some b /\ (b = true -> isnil f v = true).
Hypothesis Hwf : fields_wf Sc fs = true.
Hypothesis Hht : hts fs l = true.
Hypothesis HD : forall p f v, nth_error fs p = Some f -> nth_error l p = Some v -> f_idx f <> None ->
  forall r, D f (encf f v ++ r) = Some (erasef f v, r).

Let nd := fields_wf_nodup fs Hwf.

Definition slot_acc (acc : list (nat * value)) (i : nat) : list (nat * value) :=
  match find_fld fs i with
  | Some (p, f) => (p, erasef f (nth p l VU)) :: acc
  | None => acc
  end.

Lemma nth_of_nth_error : forall p v, nth_error l p = Some v -> nth p l VU = v.
Proof. intros p v H. apply nth_error_nth. exact H. Qed.

Lemma nth_error_l : forall p f, nth_error fs p = Some f -> exists v, nth_error l p = Some v.
Proof.
  intros p f H. assert (p < length l).
  { rewrite <- (hts_length _ _ Hht). apply nth_error_Some. congruence. }
  destruct (nth_error l p) eqn:E; [eauto|]. apply nth_error_None in E. lia.
Qed.

Lemma dec_slots_rt : forall n i rest acc,
  dec_slots D fs i n (flat_map (enc_slot fs (encs fs l)) (seq i n) ++ rest) acc
  = Some (fold_left slot_acc (seq i n) acc, rest).
Proof.
  induction n as [|n IH]; intros i rest acc; cbn [seq flat_map dec_slots fold_left app]; [reflexivity|].
  rewrite <- app_assoc.
  change (enc_slot fs (encs fs l) i) with
    (match find_fld fs i with Some (p, _) => nth p (encs fs l) [] | None => [TNull] end).
  change (slot_acc acc i) with
    (match find_fld fs i with Some (p, f) => (p, erasef f (nth p l VU)) :: acc | None => acc end).
  destruct (find_fld fs i) as [[p f]|] eqn:E.
  - unfold find_fld in E. apply find_fld_from_some in E. destruct E as (p' & -> & Hn & Hi). cbn [Nat.add] in *.
    destruct (nth_error_l _ _ Hn) as [v Hv].
    rewrite (encs_nth _ _ _ _ _ Hn Hv). rewrite (nth_of_nth_error _ _ Hv).
    rewrite (HD _ _ _ Hn Hv) by congruence. apply IH.
  - cbn [app]. rewrite skip1_null. apply IH.
Qed.

(* what the accumulated association list answers for position p *)
Lemma assoc_fold : forall is acc p f i, NoDup is ->
  nth_error fs p = Some f -> f_idx f = Some i ->
  assoc_pos p (fold_left slot_acc is acc) =
  if existsb (Nat.eqb i) is then Some (erasef f (nth p l VU)) else assoc_pos p acc.
Proof.
  induction is as [|i0 is IH]; intros acc p f i Hnd Hn Hi; cbn [fold_left existsb]; [reflexivity|].
  inversion Hnd as [|? ? Hnotin Hnd']; subst.
  rewrite (IH _ p f i Hnd' Hn Hi).
  destruct (Nat.eqb i i0) eqn:E.
  - apply Nat.eqb_eq in E. subst i0. cbn [orb].
    destruct (existsb (Nat.eqb i) is) eqn:Ex; [reflexivity|].
    unfold slot_acc. unfold find_fld. rewrite (find_fld_from_unique fs 0 i p f nd Hn Hi). cbn [Nat.add assoc_pos].
    rewrite Nat.eqb_refl. reflexivity.
  - cbn [orb]. destruct (existsb (Nat.eqb i) is); [reflexivity|].
    unfold slot_acc. destruct (find_fld fs i0) as [[p0 f0]|] eqn:Ef; [|reflexivity].
    unfold find_fld in Ef. apply find_fld_from_some in Ef. destruct Ef as (p' & -> & Hn0 & Hi0). cbn [Nat.add assoc_pos].
    destruct (Nat.eqb p' p) eqn:Ep; [|reflexivity].
    apply Nat.eqb_eq in Ep. subst p'. rewrite Hn in Hn0. inversion Hn0; subst f0.
    rewrite Hi in Hi0. inversion Hi0; subst. rewrite Nat.eqb_refl in E. discriminate.
Qed.

Lemma existsb_seq : forall i n, existsb (Nat.eqb i) (seq 0 n) = Nat.ltb i n.
Proof.
  intros i n. destruct (Nat.ltb i n) eqn:E.
  - apply Nat.ltb_lt in E. apply existsb_exists. exists i. split; [apply in_seq; lia | apply Nat.eqb_refl].
  - apply Nat.ltb_ge in E. destruct (existsb (Nat.eqb i) (seq 0 n)) eqn:Ex; [|reflexivity].
    apply existsb_exists in Ex. destruct Ex as (x & Hin & Hx). apply Nat.eqb_eq in Hx. subst. apply in_seq in Hin. lia.
Qed.

(* build_from over a suffix of the declaration *)
Lemma build_ok : forall acc fs' l' q,
  length fs' = length l' ->
  (forall p' f v, nth_error fs' p' = Some f -> nth_error l' p' = Some v ->
     match f_idx f with
     | None => True
     | Some _ => assoc_pos (q + p') acc = Some (erasef f v)
                 \/ (assoc_pos (q + p') acc = None /\ is_opt (f_ty f) = true /\ erasef f v = VNone)
     end) ->
  build_from q fs' acc = Some (erases fs' l').
Proof.
  intros acc fs'. induction fs' as [|f fs' IH]; intros l' q Hlen H; destruct l' as [|v l']; cbn in Hlen; try discriminate.
  - reflexivity.
  - cbn [build_from Cbor.erases].
    rewrite (IH l' (S q)).
    + pose proof (H 0 f v eq_refl eq_refl) as H0. rewrite Nat.add_0_r in H0.
      unfold Cbor.erasef at 1. unfold Cbor.erasef in H0.
      destruct (f_idx f) eqn:Ei; [|reflexivity].
      destruct H0 as [H0|(H0 & H1 & H2)]; rewrite H0; [reflexivity|]. rewrite H1, H2. reflexivity.
    + lia.
    + intros p' f' v' Hf Hv. specialize (H (S p') f' v' Hf Hv). rewrite Nat.add_succ_r in H. exact H.
Qed.

Lemma dec_rec_rt : forall rest,
  dec_rec D fs (enc_rec_spec fs (encs fs l) nl ++ rest) = Some (erases fs l, rest).
Proof.
  intros rest. unfold enc_rec_spec.
  assert (Hlen : length fs = length l) by (apply hts_length; exact Hht).
  destruct (max_idx fs nl) as [m|] eqn:Em.
  - cbn [app dec_rec]. rewrite dec_slots_rt.
    rewrite (build_ok _ fs l 0 Hlen); [reflexivity|].
    intros p f v Hf Hv. cbn [Nat.add]. destruct (f_idx f) as [i|] eqn:Ei; [|exact I].
    rewrite (assoc_fold (seq 0 (S m)) [] p f i (seq_NoDup _ _) Hf Ei).
    rewrite existsb_seq. rewrite (nth_of_nth_error _ _ Hv).
    destruct (Nat.ltb i (S m)) eqn:El; [left; reflexivity|].
    right. cbn [assoc_pos]. split; [reflexivity|].
    apply Nat.ltb_ge in El.
    assert (Hn : isnil f v = true).
    { destruct (Hnl _ _ _ Hf Hv) as (b & Hb & Hbn). destruct b; [auto|].
      assert (i <= m) by (eapply max_idx_some; eauto). lia. }
    apply nil_field; try assumption.
    + eapply fields_wf_field; eassumption.
    + congruence.
    + eapply hts_nth; eassumption.
  - cbn [app dec_rec dec_slots].
    rewrite (build_ok _ fs l 0 Hlen); [reflexivity|].
    intros p f v Hf Hv. cbn [Nat.add assoc_pos]. destruct (f_idx f) as [i|] eqn:Ei; [|exact I].
    right. split; [reflexivity|].
    assert (Hn : isnil f v = true).
    { destruct (Hnl _ _ _ Hf Hv) as (b & Hb & Hbn). apply Hbn. eapply max_idx_none; eauto. }
    apply nil_field; try assumption.
    + eapply fields_wf_field; eassumption.
    + congruence.
    + eapply hts_nth; eassumption.
Qed.

End Record.

(* ------------------------------------------------------------------ *)
(* the first token of an encoding under a never-null type is not null *)
Lemma enc_rec_head : forall fs es ns rest, head_nonnull (enc_rec_spec fs es ns ++ rest) = true.
Proof. intros. unfold enc_rec_spec. destruct (max_idx fs ns); reflexivity. Qed.

Lemma nn_head : forall n t v rest, nn Sc n t = true -> ht t v = true -> head_nonnull (enc t v ++ rest) = true.
Proof.
  induction n as [|n IH]; intros t v rest Hnn Hht.
  - destruct t; cbn [nn] in Hnn; try discriminate.
    + rewrite enc_TP. rewrite ht_TP in Hht. apply prim_head. exact Hht.
    + destruct v; cbn in Hht; try discriminate. reflexivity.
    + destruct v; cbn in Hht; try discriminate. reflexivity.
    + destruct v; cbn [Cbor.ht] in Hht; try discriminate. reflexivity.
    + destruct (lookup name) as [[[|] fs|vs]|] eqn:El; try discriminate.
      * destruct fs as [|f [|]]; discriminate.
      * rewrite (ht_struct _ _ _ _ El) in Hht. destruct v; try discriminate.
        rewrite (enc_struct _ _ _ El Hht). apply enc_rec_head.
      * rewrite (ht_enum _ _ _ El) in Hht. destruct v; try discriminate.
        destruct (nth_error vs k) as [vr|] eqn:Ek; [|discriminate].
        rewrite (enc_enum _ _ _ _ _ El Ek Hht). reflexivity.
  - destruct t; cbn [nn] in Hnn; try discriminate.
    + rewrite enc_TP. rewrite ht_TP in Hht. apply prim_head. exact Hht.
    + destruct v; cbn in Hht; try discriminate. reflexivity.
    + destruct v; cbn in Hht; try discriminate. reflexivity.
    + destruct v; cbn [Cbor.ht] in Hht; try discriminate. reflexivity.
    + destruct (lookup name) as [[[|] fs|vs]|] eqn:El; try discriminate.
      * destruct fs as [|f [|]]; try discriminate.
        destruct (f_idx f) eqn:Ei; [|discriminate].
        destruct (fkind_of f) as [t'| |] eqn:Ek; try discriminate.
        rewrite (ht_struct _ _ _ _ El) in Hht. destruct v; try discriminate.
        destruct l as [|v' [|]]; cbn in Hht; try discriminate;
          [|rewrite andb_false_r in Hht; discriminate].
        rewrite andb_true_r in Hht. unfold Cbor.htf in Hht. rewrite Ei, Ek in Hht.
        rewrite (enc_transparent _ _ _ El). cbn [Cbor.encs]. unfold Cbor.encf. rewrite Ek.
        apply IH; assumption.
      * rewrite (ht_struct _ _ _ _ El) in Hht. destruct v; try discriminate.
        rewrite (enc_struct _ _ _ El Hht). apply enc_rec_head.
      * rewrite (ht_enum _ _ _ El) in Hht. destruct v; try discriminate.
        destruct (nth_error vs k) as [vr|] eqn:Ek; [|discriminate].
        rewrite (enc_enum _ _ _ _ _ El Ek Hht). reflexivity.
Qed.

(* --- unfolding the decoder one step --- *)
Lemma dec_opt_nonnull : forall fuel t' ts, head_nonnull ts = true ->
  dec (S fuel) (TOpt t') ts = match dec fuel t' ts with Some (v, r) => Some (VSome v, r) | None => None end.
Proof. intros fuel t' ts H. destruct ts as [|[] ts]; cbn in H; try discriminate; reflexivity. Qed.

Lemma find_var_from_unique : forall vs q k vr, nodup_nat (map v_idx vs) = true ->
  nth_error vs k = Some vr -> find_var_from q vs (v_idx vr) = Some (q + k, vr).
Proof.
  induction vs as [|w vs IH]; intros q k vr Hnd Hn; destruct k; cbn in Hn; try discriminate.
  - inversion Hn; subst. cbn. rewrite Nat.eqb_refl, Nat.add_0_r. reflexivity.
  - cbn. cbn [map] in Hnd. pose proof (nodup_nat_notin _ _ Hnd) as Hnot. apply existsb_eqb_in in Hnot.
    destruct (Nat.eqb (v_idx w) (v_idx vr)) eqn:E.
    + apply Nat.eqb_eq in E. exfalso. apply Hnot. rewrite E. apply in_map. eapply nth_error_In; eassumption.
    + cbn in Hnd. apply andb_true_iff in Hnd. destruct Hnd as [_ Hnd].
      rewrite (IH (S q) k vr Hnd Hn). f_equal. f_equal. lia.
Qed.

Lemma dec_each_rt : forall fuel tys l rest,
  (forall t v r, In t tys -> In v l -> ht t v = true -> dec fuel t (enc t v ++ r) = Some (erase t v, r)) ->
  ht_tuple Sc tys l = true ->
  dec_each (map (dec fuel) tys) (enc_tuple Sc tys l ++ rest) = Some (erase_tuple Sc tys l, rest).
Proof.
  intros fuel tys l. revert tys. induction l as [|v l IH]; intros [|t tys] rest H Hh; cbn in Hh; try discriminate.
  - reflexivity.
  - apply andb_true_iff in Hh. destruct Hh as [H1 H2].
    cbn [map Cbor.enc_tuple dec_each Cbor.erase_tuple]. rewrite <- app_assoc.
    rewrite (H t v) by (try (left; reflexivity); assumption).
    rewrite IH; [reflexivity| |assumption].
    intros; apply H; try (right; assumption); assumption.
Qed.

Lemma ht_tuple_length : forall tys l, ht_tuple Sc tys l = true -> length tys = length l.
Proof.
  intros tys l. revert tys. induction l as [|v l IH]; intros [|t tys] H; cbn in H; try discriminate; try reflexivity.
  apply andb_true_iff in H. destruct H as [_ H]. cbn. f_equal. apply IH. exact H.
Qed.

(* ------------------------------------------------------------------ *)
(* the generic round trip *)
Theorem roundtrip_fuel : forall fuel t v rest,
  ty_wf Sc t = true -> ht t v = true -> vdepth v < fuel ->
  dec fuel t (enc t v ++ rest) = Some (erase t v, rest).
Proof.
  induction fuel as [|fuel IH]; intros t v rest Hty Hht Hd; [lia|].
  destruct t.
  - (* TP *) rewrite enc_TP, erase_TP. rewrite ht_TP in Hht. cbn [Cbor.dec]. apply prim_roundtrip. exact Hht.
  - (* TOpt *)
    cbn [ty_wf] in Hty. apply andb_true_iff in Hty. destruct Hty as [Hty Hnn].
    destruct v; cbn [Cbor.ht] in Hht; try discriminate.
    + reflexivity.
    + rewrite dec_opt_nonnull by (cbn [Cbor.enc]; eapply nn_head; eassumption).
      cbn [Cbor.enc Cbor.erase]. rewrite IH; [reflexivity|assumption|assumption|cbn in Hd; lia].
  - (* TVec *)
    destruct v; cbn [Cbor.ht] in Hht; try discriminate.
    cbn [Cbor.enc Cbor.erase Cbor.dec app]. cbn [ty_wf] in Hty.
    rewrite (dec_list_rt (dec fuel t) (enc t) (erase t)); [reflexivity|].
    intros x r Hin. apply IH; [assumption| |].
    + rewrite forallb_forall in Hht. apply Hht. exact Hin.
    + cbn in Hd. pose proof (vdepth_in _ _ Hin). lia.
  - (* TMapT *)
    destruct v; cbn [Cbor.ht] in Hht; try discriminate.
    cbn [Cbor.enc Cbor.erase Cbor.dec app]. cbn [ty_wf] in Hty. apply andb_true_iff in Hty. destruct Hty as [Hk Hv].
    match goal with |- context [dec_list ?d _ _] =>
      rewrite (dec_list_rt d
                 (fun e => match e with VPair k x => enc t1 k ++ enc t2 x | _ => [] end)
                 (fun e => match e with VPair k x => VPair (erase t1 k) (erase t2 x) | _ => e end)) end;
      [reflexivity|].
    intros e r Hin. rewrite forallb_forall in Hht. specialize (Hht e Hin).
    destruct e; try discriminate. apply andb_true_iff in Hht. destruct Hht as [H1 H2].
    pose proof (vdepth_in _ _ Hin) as Hdd. cbn in Hd. cbn [vdepth] in Hdd.
    rewrite <- app_assoc. rewrite IH by (try assumption; lia). rewrite IH by (try assumption; lia). reflexivity.
  - (* TTup *)
    destruct v; try (cbn [Cbor.ht] in Hht; discriminate).
    rewrite ht_tup in Hht. rewrite enc_tup, erase_tup. cbn [Cbor.dec app].
    rewrite Nat.eqb_refl.
    rewrite (dec_each_rt fuel l l0 rest); [reflexivity| |assumption].
    intros t v r Ht Hv Hh. apply IH; [eapply ty_wf_tup; eassumption|assumption|].
    cbn in Hd. pose proof (vdepth_in _ _ Hv). lia.
  - (* TRef *)
    destruct (lookup name) as [[[|] fs|vs]|] eqn:El.
    + (* transparent *)
      pose proof (lookup_wf _ _ El) as Hw. cbn in Hw.
      destruct fs as [|f [|]]; try discriminate.
      apply andb_true_iff in Hw. destruct Hw as [Hfw Hi].
      rewrite (ht_struct _ _ _ _ El) in Hht. destruct v; try discriminate.
      destruct l as [|v' [|]]; cbn in Hht; try discriminate;
        [|rewrite andb_false_r in Hht; discriminate].
      rewrite andb_true_r in Hht.
      rewrite (enc_transparent _ _ _ El), (erase_struct _ _ _ _ El). cbn [Cbor.encs Cbor.erases].
      cbn [Cbor.dec]. rewrite El.
      unfold Cbor.htf in Hht. unfold Cbor.encf, Cbor.erasef, decf_with.
      destruct (f_idx f) eqn:Ei; [|discriminate].
      destruct (fkind_of f) as [t'|c|] eqn:Ek; try discriminate.
      * rewrite IH; [reflexivity| |assumption|].
        -- eapply field_kind_wf; try eassumption. congruence.
        -- cbn in Hd. lia.
      * reflexivity.
    + (* struct *)
      pose proof (lookup_wf _ _ El) as Hw. cbn in Hw.
      rewrite (ht_struct _ _ _ _ El) in Hht. destruct v; try discriminate.
      rewrite (enc_struct _ _ _ El Hht), (erase_struct _ _ _ _ El). cbn [Cbor.dec]. rewrite El.
      rewrite (dec_rec_rt (decf_with (dec fuel)) fs l (zipw isnil fs l)); [reflexivity| |assumption|assumption|].
      { intros p f v Hf Hv. exists (isnil f v). split; [apply nth_error_zipw; assumption|auto]. }
      intros p f v Hf Hv Hi r.
      pose proof (hts_nth _ _ _ _ _ Hht Hf Hv) as Hh. unfold Cbor.htf in Hh.
      unfold Cbor.encf, Cbor.erasef, decf_with.
      destruct (f_idx f) eqn:Ei; [|congruence].
      destruct (fkind_of f) as [t'|c|] eqn:Ek; try discriminate.
      * apply IH; [|assumption|].
        -- eapply field_kind_wf; try eassumption. eapply fields_wf_field; eassumption. congruence.
        -- cbn in Hd. pose proof (vdepth_in _ _ (nth_error_In _ _ Hv)). lia.
      * reflexivity.
    + (* enum *)
      pose proof (lookup_wf _ _ El) as Hw. cbn in Hw.
      apply andb_true_iff in Hw. destruct Hw as [Hw Hr]. apply andb_true_iff in Hw. destruct Hw as [Hvw Hnd].
      rewrite (ht_enum _ _ _ El) in Hht. destruct v; try discriminate.
      destruct (nth_error vs k) as [vr|] eqn:Ek; [|discriminate].
      rewrite (enc_enum _ _ _ _ _ El Ek Hht), (erase_enum _ _ _ _ _ El Ek). cbn [Cbor.dec app]. rewrite El.
      rewrite forallb_forall in Hr. rewrite (Hr vr (nth_error_In _ _ Ek)).
      rewrite Nnat.Nat2N.id. unfold find_var. rewrite (find_var_from_unique vs 0 k vr Hnd Ek). cbn [Nat.add].
      rewrite forallb_forall in Hvw. pose proof (Hvw vr (nth_error_In _ _ Ek)) as Hv1.
      unfold variant_wf in Hv1. apply andb_true_iff in Hv1. destruct Hv1 as [Hfw Hu].
      destruct (v_unit vr) eqn:Eu.
      * destruct (v_fields vr) eqn:Ef; [|discriminate].
        destruct l; cbn in Hht; try discriminate.
        change (enc_rec_spec [] (encs [] []) (no_nils []) ++ rest) with (TArr 0 :: rest).
        rewrite skip1_arr0. reflexivity.
      * rewrite (dec_rec_rt (decf_with (dec fuel)) (v_fields vr) l (no_nils l)); [reflexivity| |assumption|assumption|].
        { intros p f v Hf Hv. exists false. split; [|discriminate].
          unfold no_nils. rewrite nth_error_map, Hv. reflexivity. }
        intros p f v Hf Hv Hi r.
        pose proof (hts_nth _ _ _ _ _ Hht Hf Hv) as Hh. unfold Cbor.htf in Hh.
        unfold Cbor.encf, Cbor.erasef, decf_with.
        destruct (f_idx f) eqn:Ei; [|congruence].
        destruct (fkind_of f) as [t'|c|] eqn:Ekk; try discriminate.
        -- apply IH; [|assumption|].
           ++ eapply field_kind_wf; try eassumption. eapply fields_wf_field; eassumption. congruence.
           ++ cbn in Hd. pose proof (vdepth_in _ _ (nth_error_In _ _ Hv)). lia.
        -- reflexivity.
    + rewrite ht_none_ref in Hht by assumption. discriminate.
  - (* TOpaque *) cbn in Hty. discriminate.
Qed.


(* ------------------------------------------------------------------ *)
(* every encoding is exactly one well-formed data item: skipping S n items over it costs one
   unit of fuel per token and leaves n items to skip *)
Lemma skip_flat : forall (e : value -> list tok) l rest f n,
  (forall v r f' n', In v l -> skip_items (length (e v) + f') (S n') (e v ++ r) = skip_items f' n' r) ->
  skip_items (length (flat_map e l) + f) (length l + n) (flat_map e l ++ rest) = skip_items f n rest.
Proof.
  induction l as [|x l IH]; intros rest f n H; cbn [flat_map length app Nat.add]; [reflexivity|].
  rewrite app_length, <- app_assoc, <- Nat.add_assoc.
  rewrite H by (left; reflexivity). apply IH. intros; apply H; right; assumption.
Qed.

Lemma skip_slots : forall fs es is rest f n,
  (forall i p fl, In i is -> find_fld fs i = Some (p, fl) ->
     forall r f' n', skip_items (length (nth p es []) + f') (S n') (nth p es [] ++ r) = skip_items f' n' r) ->
  skip_items (length (flat_map (enc_slot fs es) is) + f) (length is + n) (flat_map (enc_slot fs es) is ++ rest)
  = skip_items f n rest.
Proof.
  induction is as [|i is IH]; intros rest f n H; cbn [flat_map length app Nat.add]; [reflexivity|].
  rewrite app_length, <- app_assoc, <- Nat.add_assoc.
  assert (Hs : skip_items (length (enc_slot fs es i) + (length (flat_map (enc_slot fs es) is) + f)) (S (length is + n))
                 (enc_slot fs es i ++ flat_map (enc_slot fs es) is ++ rest)
               = skip_items (length (flat_map (enc_slot fs es) is) + f) (length is + n) (flat_map (enc_slot fs es) is ++ rest)).
  { unfold enc_slot at 1 3. destruct (find_fld fs i) as [[p fl]|] eqn:E.
    - eapply H; [left; reflexivity|eassumption].
    - reflexivity. }
  rewrite Hs. apply IH. intros; eapply H; [right|]; eassumption.
Qed.

Lemma enc_rec_item : forall fs l nl rest f n,
  length fs = length l ->
  (forall p fl v, nth_error fs p = Some fl -> nth_error l p = Some v ->
     forall r f' n', skip_items (length (encf fl v) + f') (S n') (encf fl v ++ r) = skip_items f' n' r) ->
  skip_items (length (enc_rec_spec fs (encs fs l) nl) + f) (S n) (enc_rec_spec fs (encs fs l) nl ++ rest) = skip_items f n rest.
Proof.
  intros fs l nl rest f n Hlen H. unfold enc_rec_spec. destruct (max_idx fs nl) as [m|].
  - cbn [length app Nat.add skip_items].
    pose proof (skip_slots fs (encs fs l) (seq 0 (S m)) rest f n) as Hs. rewrite seq_length in Hs.
    apply Hs. intros i p fl _ Hf r f' n'. unfold find_fld in Hf. apply find_fld_from_some in Hf.
    destruct Hf as (p' & -> & Hn & _). cbn [Nat.add].
    assert (Hp : p' < length l). { rewrite <- Hlen. apply nth_error_Some. congruence. }
    destruct (nth_error l p') as [v|] eqn:Ev; [|apply nth_error_None in Ev; lia].
    rewrite (encs_nth _ _ _ _ _ Hn Ev). eapply H; eassumption.
  - reflexivity.
Qed.

Lemma prim_item : forall p v rest f n, ht_prim p v = true ->
  skip_items (length (enc_prim p v) + f) (S n) (enc_prim p v ++ rest) = skip_items f n rest.
Proof.
  intros p v rest f n H. destruct p, v; cbn in H; try discriminate; try reflexivity.
  cbn [enc_prim]. destruct (Z.leb 0 z); reflexivity.
Qed.

Theorem enc_items_fuel : forall d t v rest f n,
  ty_wf Sc t = true -> ht t v = true -> vdepth v < d ->
  skip_items (length (enc t v) + f) (S n) (enc t v ++ rest) = skip_items f n rest.
Proof.
  induction d as [|d IH]; intros t v rest f n Hty Hht Hd; [lia|].
  destruct t.
  - rewrite enc_TP. rewrite ht_TP in Hht. apply prim_item. exact Hht.
  - cbn [ty_wf] in Hty. apply andb_true_iff in Hty. destruct Hty as [Hty _].
    destruct v; cbn [Cbor.ht] in Hht; try discriminate.
    + reflexivity.
    + cbn [Cbor.enc]. apply IH; [assumption|assumption|cbn in Hd; lia].
  - destruct v; cbn [Cbor.ht] in Hht; try discriminate. cbn [ty_wf] in Hty.
    cbn [Cbor.enc length app Nat.add skip_items].
    apply skip_flat. intros x r f' n' Hin. apply IH; [assumption| |].
    + rewrite forallb_forall in Hht. apply Hht. exact Hin.
    + cbn in Hd. pose proof (vdepth_in _ _ Hin). lia.
  - destruct v; cbn [Cbor.ht] in Hht; try discriminate. cbn [ty_wf] in Hty.
    apply andb_true_iff in Hty. destruct Hty as [Hk Hv].
    cbn [Cbor.enc length app Nat.add skip_items].
    (* 2 items per entry: regroup k + k + n as a count over the entries *)
    assert (G : forall l0 rest0 f0 n0,
               (forall e, In e l0 -> In e l) ->
               skip_items (length (flat_map (fun e => match e with VPair k x => enc t1 k ++ enc t2 x | _ => [] end) l0) + f0)
                          (length l0 + length l0 + n0)
                          (flat_map (fun e => match e with VPair k x => enc t1 k ++ enc t2 x | _ => [] end) l0 ++ rest0)
               = skip_items f0 n0 rest0).
    { induction l0 as [|e l0 IHl]; intros rest0 f0 n0 Hsub; [reflexivity|].
      cbn [flat_map length app]. rewrite app_length, <- app_assoc.
      assert (Hin : In e l) by (apply Hsub; left; reflexivity).
      rewrite forallb_forall in Hht. pose proof (Hht e Hin) as He.
      destruct e; try discriminate. apply andb_true_iff in He. destruct He as [H1 H2].
      pose proof (vdepth_in _ _ Hin) as Hdd. cbn in Hd. cbn [vdepth] in Hdd.
      rewrite app_length, <- app_assoc.
      replace (length (enc t1 e1) + length (enc t2 e2) + length (flat_map (fun e => match e with VPair k x => enc t1 k ++ enc t2 x | _ => [] end) l0) + f0)
        with (length (enc t1 e1) + (length (enc t2 e2) + (length (flat_map (fun e => match e with VPair k x => enc t1 k ++ enc t2 x | _ => [] end) l0) + f0))) by lia.
      replace (S (length l0) + S (length l0) + n0) with (S (S (length l0 + length l0 + n0))) by lia.
      rewrite IH by (try assumption; lia). rewrite IH by (try assumption; lia).
      apply IHl. intros; apply Hsub; right; assumption. }
    apply G. auto.
  - destruct v; try (cbn [Cbor.ht] in Hht; discriminate).
    rewrite ht_tup in Hht. rewrite enc_tup. cbn [length app Nat.add skip_items].
    rewrite (ht_tuple_length _ _ Hht).
    assert (G : forall tys l1 rest0 f0 n0, ht_tuple Sc tys l1 = true ->
               (forall t, In t tys -> In t l) -> (forall v, In v l1 -> In v l0) ->
               skip_items (length (enc_tuple Sc tys l1) + f0) (length l1 + n0) (enc_tuple Sc tys l1 ++ rest0)
               = skip_items f0 n0 rest0).
    { intros tys l1. revert tys. induction l1 as [|v l1 IHl]; intros [|t tys] rest0 f0 n0 Hh Ht Hv; cbn in Hh; try discriminate.
      - reflexivity.
      - apply andb_true_iff in Hh. destruct Hh as [H1 H2].
        cbn [Cbor.enc_tuple length Nat.add]. rewrite app_length, <- app_assoc, <- Nat.add_assoc.
        rewrite IH; [apply IHl; [assumption|intros; apply Ht; right; assumption|intros; apply Hv; right; assumption]| |assumption|].
        + eapply ty_wf_tup; [eassumption|]. apply Ht. left; reflexivity.
        + cbn in Hd. pose proof (vdepth_in _ _ (Hv v (or_introl eq_refl))). lia. }
    apply G; auto.
  - destruct (lookup name) as [[[|] fs|vs]|] eqn:El.
    + pose proof (lookup_wf _ _ El) as Hw. cbn in Hw.
      destruct fs as [|fl [|]]; try discriminate.
      apply andb_true_iff in Hw. destruct Hw as [Hfw Hi].
      rewrite (ht_struct _ _ _ _ El) in Hht. destruct v; try discriminate.
      destruct l as [|v' [|]]; cbn in Hht; try discriminate;
        [|rewrite andb_false_r in Hht; discriminate].
      rewrite andb_true_r in Hht.
      rewrite (enc_transparent _ _ _ El). cbn [Cbor.encs].
      unfold Cbor.htf in Hht. unfold Cbor.encf.
      destruct (f_idx fl) eqn:Ei; [|discriminate].
      destruct (fkind_of fl) as [t'|c|] eqn:Ek; try discriminate.
      * apply IH; [|assumption|cbn in Hd; lia].
        eapply field_kind_wf; try eassumption. congruence.
      * reflexivity.
    + pose proof (lookup_wf _ _ El) as Hw. cbn in Hw.
      rewrite (ht_struct _ _ _ _ El) in Hht. destruct v; try discriminate.
      rewrite (enc_struct _ _ _ El Hht).
      apply enc_rec_item; [apply hts_length; assumption|].
      intros p fl v Hf Hv r f' n'.
      pose proof (hts_nth _ _ _ _ _ Hht Hf Hv) as Hh. unfold Cbor.htf in Hh. unfold Cbor.encf.
      destruct (fkind_of fl) as [t'|c|] eqn:Ek.
      * destruct (f_idx fl) eqn:Ei.
        -- apply IH; [|assumption|].
           ++ eapply field_kind_wf; try eassumption. eapply fields_wf_field; eassumption. congruence.
           ++ cbn in Hd. pose proof (vdepth_in _ _ (nth_error_In _ _ Hv)). lia.
        -- (* skipped field: never reached by a slot, but the statement is per field; its type is plain data *)
           pose proof (fields_wf_field _ _ _ Hw Hf) as Hfw. unfold field_wf in Hfw. rewrite Ei in Hfw.
           unfold fkind_of in Ek. destruct (f_ty fl) eqn:Et; try discriminate.
           destruct (f_codec fl); try discriminate. inversion Ek; subst t'.
           rewrite enc_TP. rewrite ht_TP in Hh. apply prim_item. exact Hh.
      * reflexivity.
      * destruct (f_idx fl) eqn:Ei; [discriminate|].
        pose proof (fields_wf_field _ _ _ Hw Hf) as Hfw. unfold field_wf in Hfw. rewrite Ei in Hfw.
        unfold fkind_of in Ek. destruct (f_ty fl); try discriminate. destruct (f_codec fl); discriminate.
    + pose proof (lookup_wf _ _ El) as Hw. cbn in Hw.
      apply andb_true_iff in Hw. destruct Hw as [Hw Hr]. apply andb_true_iff in Hw. destruct Hw as [Hvw Hnd].
      rewrite (ht_enum _ _ _ El) in Hht. destruct v; try discriminate.
      destruct (nth_error vs k) as [vr|] eqn:Ek; [|discriminate].
      rewrite (enc_enum _ _ _ _ _ El Ek Hht). cbn [length app Nat.add skip_items].
      rewrite forallb_forall in Hvw. pose proof (Hvw vr (nth_error_In _ _ Ek)) as Hv1.
      unfold variant_wf in Hv1. apply andb_true_iff in Hv1. destruct Hv1 as [Hfw Hu].
      apply enc_rec_item; [apply hts_length; assumption|].
      intros p fl v Hf Hv r f' n'.
      pose proof (hts_nth _ _ _ _ _ Hht Hf Hv) as Hh. unfold Cbor.htf in Hh. unfold Cbor.encf.
      destruct (fkind_of fl) as [t'|c|] eqn:Ekk.
      * destruct (f_idx fl) eqn:Ei.
        -- apply IH; [|assumption|].
           ++ eapply field_kind_wf; try eassumption. eapply fields_wf_field; eassumption. congruence.
           ++ cbn in Hd. pose proof (vdepth_in _ _ (nth_error_In _ _ Hv)). lia.
        -- pose proof (fields_wf_field _ _ _ Hfw Hf) as Hfw'. unfold field_wf in Hfw'. rewrite Ei in Hfw'.
           unfold fkind_of in Ekk. destruct (f_ty fl) eqn:Et; try discriminate.
           destruct (f_codec fl); try discriminate. inversion Ekk; subst t'.
           rewrite enc_TP. rewrite ht_TP in Hh. apply prim_item. exact Hh.
      * reflexivity.
      * destruct (f_idx fl) eqn:Ei; [discriminate|].
        pose proof (fields_wf_field _ _ _ Hfw Hf) as Hfw'. unfold field_wf in Hfw'. rewrite Ei in Hfw'.
        unfold fkind_of in Ekk. destruct (f_ty fl); try discriminate. destruct (f_codec fl); discriminate.
    + rewrite ht_none_ref in Hht by assumption. discriminate.
  - cbn in Hty. discriminate.
Qed.

Theorem enc_one_item : forall t v, ty_wf Sc t = true -> ht t v = true ->
  wellformed_items 1 (enc t v) = true.
Proof.
  intros t v Hty Hht. unfold wellformed_items.
  pose proof (enc_items_fuel (S (vdepth v)) t v [] 1 0 Hty Hht (Nat.lt_succ_diag_r _)) as H.
  rewrite app_nil_r in H. rewrite Nat.add_1_r in H. rewrite H. reflexivity.
Qed.


(* ------------------------------------------------------------------ *)
(* a reloaded value is well-typed and at rest: reloading it again changes nothing *)
Lemma default_typed : forall p, ht_prim p (default_prim p) = true.
Proof. destruct p; reflexivity. Qed.

Lemma erases_fix : forall fs l,
  length fs = length l ->
  (forall p f v, nth_error fs p = Some f -> nth_error l p = Some v ->
     htf f (erasef f v) = true /\ erasef f (erasef f v) = erasef f v) ->
  hts fs (erases fs l) = true /\ erases fs (erases fs l) = erases fs l.
Proof.
  intros fs l. revert fs. induction l as [|v l IH]; intros [|f fs] Hlen H; cbn in Hlen; try discriminate.
  - split; reflexivity.
  - cbn [Cbor.erases Cbor.hts].
    destruct (H 0 f v eq_refl eq_refl) as [H1 H2].
    destruct (IH fs) as [I1 I2]; [lia| |].
    + intros p f' v' Hf Hv. exact (H (S p) f' v' Hf Hv).
    + rewrite H1, I1, H2, I2. split; reflexivity.
Qed.

Lemma erase_tuple_fix : forall tys l,
  ht_tuple Sc tys l = true ->
  (forall t v, In t tys -> In v l -> ht t v = true -> ht t (erase t v) = true /\ erase t (erase t v) = erase t v) ->
  ht_tuple Sc tys (erase_tuple Sc tys l) = true /\ erase_tuple Sc tys (erase_tuple Sc tys l) = erase_tuple Sc tys l.
Proof.
  intros tys l. revert tys. induction l as [|v l IH]; intros [|t tys] Hh H; cbn in Hh; try discriminate.
  - split; reflexivity.
  - apply andb_true_iff in Hh. destruct Hh as [H1 H2].
    cbn [Cbor.erase_tuple Cbor.ht_tuple].
    destruct (H t v (or_introl eq_refl) (or_introl eq_refl) H1) as [A B].
    destruct (IH tys H2) as [I1 I2].
    + intros; apply H; try (right; assumption); assumption.
    + rewrite A, I1, B, I2. split; reflexivity.
Qed.

Theorem erase_fix_fuel : forall d t v,
  ty_wf Sc t = true -> ht t v = true -> vdepth v < d ->
  ht t (erase t v) = true /\ erase t (erase t v) = erase t v.
Proof.
  induction d as [|d IH]; intros t v Hty Hht Hd; [lia|].
  (* the step for a field of a struct / variant, shared by three cases *)
  assert (FIELD : forall fs l, fields_wf Sc fs = true -> hts fs l = true ->
            (forall x, In x l -> vdepth x < d) ->
            forall p f v, nth_error fs p = Some f -> nth_error l p = Some v ->
              htf f (erasef f v) = true /\ erasef f (erasef f v) = erasef f v).
  { intros fs l Hw Hh Hdl p f x Hf Hv.
    pose proof (hts_nth _ _ _ _ _ Hh Hf Hv) as Hx.
    pose proof (fields_wf_field _ _ _ Hw Hf) as Hfw0. pose proof Hfw0 as Hfw.
    unfold Cbor.htf in Hx. unfold Cbor.htf, Cbor.erasef. unfold field_wf in Hfw.
    destruct (f_idx f) eqn:Ei.
    - destruct (fkind_of f) as [t'|c|] eqn:Ek; try discriminate.
      + apply IH; [|assumption|apply Hdl; eapply nth_error_In; eassumption].
        eapply field_kind_wf; try eassumption. congruence.
      + split; reflexivity.
    - destruct (f_ty f) eqn:Et; try discriminate. cbn [default_of].
      rewrite ht_TP. split; [apply default_typed|reflexivity]. }
  destruct t.
  - rewrite !erase_TP. auto.
  - cbn [ty_wf] in Hty. apply andb_true_iff in Hty. destruct Hty as [Hty _].
    destruct v; cbn [Cbor.ht] in Hht; try discriminate.
    + split; reflexivity.
    + cbn [Cbor.erase Cbor.ht]. destruct (IH t v Hty Hht) as [A B]; [cbn in Hd; lia|].
      rewrite B. auto.
  - destruct v; cbn [Cbor.ht] in Hht; try discriminate. cbn [ty_wf] in Hty.
    cbn [Cbor.erase Cbor.ht]. rewrite forallb_forall in Hht.
    assert (E : forall x, In x l -> ht t (erase t x) = true /\ erase t (erase t x) = erase t x).
    { intros x Hin. apply IH; [assumption|apply Hht; assumption|].
      cbn in Hd. pose proof (vdepth_in _ _ Hin). lia. }
    split.
    + apply forallb_forall. intros y Hy. apply in_map_iff in Hy. destruct Hy as (x & <- & Hin). apply E. exact Hin.
    + f_equal. rewrite map_map. apply map_ext_in. intros x Hin. apply E. exact Hin.
  - destruct v; cbn [Cbor.ht] in Hht; try discriminate. cbn [ty_wf] in Hty.
    apply andb_true_iff in Hty. destruct Hty as [Hk Hv].
    cbn [Cbor.erase Cbor.ht]. rewrite forallb_forall in Hht.
    assert (E : forall e, In e l ->
                match e with VPair k x => ht t1 (erase t1 k) = true /\ erase t1 (erase t1 k) = erase t1 k
                                           /\ ht t2 (erase t2 x) = true /\ erase t2 (erase t2 x) = erase t2 x
                        | _ => False end).
    { intros e Hin. pose proof (Hht e Hin) as He. destruct e; try discriminate.
      apply andb_true_iff in He. destruct He as [H1 H2].
      pose proof (vdepth_in _ _ Hin) as Hdd. cbn in Hd. cbn [vdepth] in Hdd.
      destruct (IH t1 e1 Hk H1) as [A B]; [lia|]. destruct (IH t2 e2 Hv H2) as [C D]; [lia|]. auto. }
    split.
    + apply forallb_forall. intros y Hy. apply in_map_iff in Hy. destruct Hy as (e & <- & Hin).
      pose proof (E e Hin) as He. destruct e; try contradiction. destruct He as (A & _ & C & _). rewrite A, C. reflexivity.
    + f_equal. rewrite map_map. apply map_ext_in. intros e Hin.
      pose proof (E e Hin) as He. destruct e; try contradiction. destruct He as (_ & B & _ & D). rewrite B, D. reflexivity.
  - destruct v; try (cbn [Cbor.ht] in Hht; discriminate).
    rewrite ht_tup in Hht. rewrite erase_tup, ht_tup, erase_tup.
    destruct (erase_tuple_fix l l0 Hht) as [A B].
    + intros t v Ht Hv Hh. apply IH; [eapply ty_wf_tup; eassumption|assumption|].
      cbn in Hd. pose proof (vdepth_in _ _ Hv). lia.
    + rewrite A, B. auto.
  - destruct (lookup name) as [[b fs|vs]|] eqn:El.
    + pose proof (lookup_wf _ _ El) as Hw.
      assert (Hfw : fields_wf Sc fs = true).
      { destruct b; cbn in Hw; [|exact Hw]. destruct fs as [|f [|]]; try discriminate.
        apply andb_true_iff in Hw. destruct Hw as [Hw Hi]. unfold fields_wf. cbn. rewrite Hw.
        destruct (f_idx f); reflexivity. }
      rewrite (ht_struct _ _ _ _ El) in Hht. destruct v; try discriminate.
      rewrite (erase_struct _ _ _ _ El), (ht_struct _ _ _ _ El), (erase_struct _ _ _ _ El).
      destruct (erases_fix fs l (hts_length _ _ Hht)) as [A B].
      * eapply FIELD; try eassumption. intros x Hin. cbn in Hd. pose proof (vdepth_in _ _ Hin). lia.
      * rewrite A, B. auto.
    + pose proof (lookup_wf _ _ El) as Hw. cbn in Hw.
      apply andb_true_iff in Hw. destruct Hw as [Hw Hr]. apply andb_true_iff in Hw. destruct Hw as [Hvw Hnd].
      rewrite (ht_enum _ _ _ El) in Hht. destruct v; try discriminate.
      destruct (nth_error vs k) as [vr|] eqn:Ek; [|discriminate].
      rewrite (erase_enum _ _ _ _ _ El Ek), (ht_enum _ _ _ El), Ek, (erase_enum _ _ _ _ _ El Ek).
      rewrite forallb_forall in Hvw. pose proof (Hvw vr (nth_error_In _ _ Ek)) as Hv1.
      unfold variant_wf in Hv1. apply andb_true_iff in Hv1. destruct Hv1 as [Hfw Hu].
      destruct (erases_fix (v_fields vr) l (hts_length _ _ Hht)) as [A B].
      * eapply FIELD; try eassumption. intros x Hin. cbn in Hd. pose proof (vdepth_in _ _ Hin). lia.
      * rewrite A, B. auto.
    + rewrite ht_none_ref in Hht by assumption. discriminate.
  - cbn in Hty. discriminate.
Qed.

End RT.

Theorem erase_at_rest : forall (S : schema), wf_schema S = true ->
  forall t v, ty_wf S t = true -> ht S t v = true ->
  ht S t (erase S t v) = true /\ erase S t (erase S t v) = erase S t v.
Proof. intros S WF t v Hty Hht. eapply erase_fix_fuel; try eassumption. apply Nat.lt_succ_diag_r. Qed.

Theorem encoding_wellformed : forall (S : schema), wf_schema S = true ->
  forall t v, ty_wf S t = true -> ht S t v = true -> wellformed_items 1 (enc S t v) = true.
Proof. intros. apply enc_one_item; assumption. Qed.

Theorem roundtrip_generic : forall (S : schema), wf_schema S = true ->
  forall t v rest, ty_wf S t = true -> ht S t v = true ->
  dec S (Datatypes.S (vdepth v)) t (enc S t v ++ rest) = Some (erase S t v, rest).
Proof. intros S WF t v rest Hty Hht. apply roundtrip_fuel; try assumption. lia. Qed.

(* ------------------------------------------------------------------ *)
(* bytes <-> tokens *)
Local Open Scope N_scope.

Lemma be_fold : forall k a acc,
  fold_left (fun acc b => acc * 256 + b) (be_bytes k a) acc = acc * 256 ^ N.of_nat k + a mod 256 ^ N.of_nat k.
Proof.
  induction k as [|k IH]; intros a acc.
  - cbn [be_bytes fold_left]. change (N.of_nat 0) with 0. rewrite N.pow_0_r, N.mod_1_r. lia.
  - cbn [be_bytes fold_left]. rewrite IH.
    rewrite Nnat.Nat2N.inj_succ, N.pow_succ_r'.
    rewrite (N.mul_comm 256 (256 ^ N.of_nat k)).
    rewrite (N.mod_mul_r a (256 ^ N.of_nat k) 256) by (try apply N.pow_nonzero; lia).
    lia.
Qed.

Lemma from_be_bytes : forall k a, a < 256 ^ N.of_nat k -> from_be (be_bytes k a) = a.
Proof. intros k a H. unfold from_be. rewrite be_fold. rewrite N.mod_small by assumption. lia. Qed.

Lemma be_bytes_length : forall k a, length (be_bytes k a) = k.
Proof. induction k; intros; cbn; [reflexivity|]. f_equal. apply IHk. Qed.

Lemma firstn_exact : forall {X} (l r : list X), firstn (length l) (l ++ r) = l.
Proof. intros. rewrite firstn_app, Nat.sub_diag, firstn_all. cbn. apply app_nil_r. Qed.
Lemma skipn_exact : forall {X} (l r : list X), skipn (length l) (l ++ r) = r.
Proof. intros. rewrite skipn_app, Nat.sub_diag, skipn_all. reflexivity. Qed.

Lemma firstn_len : forall {X} (l r : list X) k, length l = k -> firstn k (l ++ r) = l.
Proof. intros. subst. apply firstn_exact. Qed.
Lemma skipn_len : forall {X} (l r : list X) k, length l = k -> skipn k (l ++ r) = r.
Proof. intros. subst. apply skipn_exact. Qed.

Lemma div32 : forall m x, x < 32 -> (m * 32 + x) / 32 = m.
Proof. intros. rewrite N.div_add_l by lia. rewrite N.div_small by assumption. lia. Qed.
Lemma mod32 : forall m x, x < 32 -> (m * 32 + x) mod 32 = x.
Proof. intros. rewrite N.add_comm, N.mod_add by lia. apply N.mod_small. assumption. Qed.

Lemma read_be : forall k ai a rest,
  a < 256 ^ N.of_nat k ->
  (ai <? 24) = false ->
  (if ai =? 24 then 1%nat else if ai =? 25 then 2%nat else if ai =? 26 then 4%nat else if ai =? 27 then 8%nat else 0%nat) = k ->
  k <> 0%nat ->
  read_arg ai (be_bytes k a ++ rest) = Some (a, rest).
Proof.
  intros k ai a rest Ha Hai Hk Hk0. unfold read_arg. rewrite Hai, Hk.
  destruct (Nat.eqb k 0) eqn:E; [apply Nat.eqb_eq in E; contradiction|].
  assert (Hl : Nat.ltb (length (be_bytes k a ++ rest)) k = false).
  { apply Nat.ltb_ge. rewrite app_length, be_bytes_length. lia. }
  rewrite Hl.
  rewrite (firstn_len _ _ k (be_bytes_length k a)), (skipn_len _ _ k (be_bytes_length k a)).
  rewrite from_be_bytes by assumption. reflexivity.
Qed.

(* head of major type m < 7 followed by anything: the first byte splits into m and the additional
   information, and the argument reads back *)
Lemma head_read : forall m a rest, m < 7 -> a < two64 ->
  exists b0 args, head m a = b0 :: args /\ b0 / 32 = m /\ read_arg (b0 mod 32) (args ++ rest) = Some (a, rest).
Proof.
  intros m a rest Hm Ha. unfold head.
  destruct (a <? 24) eqn:E1.
  - apply N.ltb_lt in E1. exists (m * 32 + a), []. split; [reflexivity|]. split; [apply div32; lia|].
    rewrite mod32 by lia. unfold read_arg. apply N.ltb_lt in E1. rewrite E1. reflexivity.
  - destruct (a <? two8) eqn:E2.
    + apply N.ltb_lt in E2. exists (m * 32 + 24), [a]. split; [reflexivity|]. split; [apply div32; lia|].
      rewrite mod32 by lia. change [a] with ([a] ++ []). 
      replace ([a] ++ []) with (be_bytes 1 a).
      * apply read_be; try reflexivity; [exact E2|discriminate].
      * cbn. rewrite N.div_1_r. rewrite N.mod_small by exact E2. reflexivity.
    + destruct (a <? two16) eqn:E3.
      * apply N.ltb_lt in E3. exists (m * 32 + 25), (be_bytes 2 a). split; [reflexivity|]. split; [apply div32; lia|].
        rewrite mod32 by lia. apply read_be; try reflexivity; [exact E3|discriminate].
      * destruct (a <? two32) eqn:E4.
        -- apply N.ltb_lt in E4. exists (m * 32 + 26), (be_bytes 4 a). split; [reflexivity|]. split; [apply div32; lia|].
           rewrite mod32 by lia. apply read_be; try reflexivity; [exact E4|discriminate].
        -- exists (m * 32 + 27), (be_bytes 8 a). split; [reflexivity|]. split; [apply div32; lia|].
           rewrite mod32 by lia. apply read_be; try reflexivity; [exact Ha|discriminate].
Qed.

Lemma tok_of_bytes_head : forall m a rest (k : N -> list N -> option (tok * list N)),
  m < 7 -> a < two64 ->
  (forall b0 args, head m a = b0 :: args -> b0 / 32 = m ->
     tok_of_bytes (b0 :: args ++ rest) =
     match read_arg (b0 mod 32) (args ++ rest) with None => None | Some (a', r') => k a' r' end) ->
  tok_of_bytes (head m a ++ rest) = k a rest.
Proof.
  intros m a rest k Hm Ha H. destruct (head_read m a rest Hm Ha) as (b0 & args & Hh & Hd & Hr).
  rewrite Hh. cbn [app]. rewrite (H b0 args Hh Hd), Hr. reflexivity.
Qed.

Lemma tok_bytes_rt : forall t rest, tok_ok t = true -> tok_of_bytes (bytes_of_tok t ++ rest) = Some (t, rest).
Proof.
  intros t rest Hok. destruct t; cbn [tok_ok] in Hok; cbn [bytes_of_tok].
  - apply N.ltb_lt in Hok.
    apply (tok_of_bytes_head 0 n rest (fun a r => Some (TUInt a, r))); [lia|assumption|].
    intros b0 args _ Hd. unfold tok_of_bytes. rewrite Hd. reflexivity.
  - apply N.ltb_lt in Hok.
    apply (tok_of_bytes_head 1 n rest (fun a r => Some (TNInt a, r))); [lia|assumption|].
    intros b0 args _ Hd. unfold tok_of_bytes. rewrite Hd. reflexivity.
  - apply andb_true_iff in Hok. destruct Hok as [Hl _]. apply N.ltb_lt in Hl.
    rewrite <- app_assoc.
    rewrite (tok_of_bytes_head 3 (N.of_nat (length s)) (s ++ rest)
               (fun a r => let n := N.to_nat a in
                           if Nat.ltb (length r) n then None else Some (TText (firstn n r), skipn n r)));
      [|lia|assumption|].
    + cbn zeta. rewrite Nnat.Nat2N.id.
      assert (Hlt : Nat.ltb (length (s ++ rest)) (length s) = false).
      { apply Nat.ltb_ge. rewrite app_length. lia. }
      rewrite Hlt, firstn_exact, skipn_exact. reflexivity.
    + intros b0 args _ Hd. unfold tok_of_bytes. rewrite Hd. reflexivity.
  - apply N.ltb_lt in Hok.
    rewrite (tok_of_bytes_head 4 (N.of_nat n) rest (fun a r => Some (TArr (N.to_nat a), r))); [|lia|assumption|].
    + rewrite Nnat.Nat2N.id. reflexivity.
    + intros b0 args _ Hd. unfold tok_of_bytes. rewrite Hd. reflexivity.
  - apply N.ltb_lt in Hok.
    rewrite (tok_of_bytes_head 5 (N.of_nat n) rest (fun a r => Some (TMap (N.to_nat a), r))); [|lia|assumption|].
    + rewrite Nnat.Nat2N.id. reflexivity.
    + intros b0 args _ Hd. unfold tok_of_bytes. rewrite Hd. reflexivity.
  - reflexivity.
  - destruct b; reflexivity.
  - apply N.ltb_lt in Hok. cbn [app tok_of_bytes].
    change (251 / 32 =? 7) with true. change (251 mod 32) with 27. cbn [N.eqb Pos.eqb].
    assert (Hl : Nat.ltb (length (be_bytes 8 bits ++ rest)) 8 = false).
    { apply Nat.ltb_ge. rewrite app_length, be_bytes_length. lia. }
    cbv iota. rewrite Hl.
    rewrite (firstn_len _ _ 8%nat (be_bytes_length 8 bits)), (skipn_len _ _ 8%nat (be_bytes_length 8 bits)).
    rewrite from_be_bytes; [reflexivity|exact Hok].
Qed.

Local Close Scope N_scope.

Lemma bytes_of_tok_nonempty : forall t, bytes_of_tok t <> [].
Proof.
  intros t. destruct t; cbn [bytes_of_tok]; try discriminate; try (destruct b; discriminate);
    unfold head; repeat match goal with |- context [if ?c then _ else _] => destruct c end; try discriminate;
    cbn; discriminate.
Qed.

Theorem bytes_roundtrip : forall ts fuel, forallb tok_ok ts = true -> length ts <= fuel ->
  toks_of_bytes fuel (bytes_of_toks ts) = Some ts.
Proof.
  induction ts as [|t ts IH]; intros fuel Hok Hf.
  - destruct fuel; reflexivity.
  - cbn [forallb] in Hok. apply andb_true_iff in Hok. destruct Hok as [H1 H2].
    unfold bytes_of_toks. cbn [flat_map]. fold (bytes_of_toks ts).
    destruct fuel as [|fuel]; [cbn in Hf; lia|].
    pose proof (bytes_of_tok_nonempty t) as Hne.
    destruct (bytes_of_tok t ++ bytes_of_toks ts) as [|b0 r0] eqn:Eb.
    + destruct (bytes_of_tok t); [congruence|discriminate].
    + cbn [toks_of_bytes]. rewrite <- Eb. rewrite tok_bytes_rt by assumption.
      rewrite IH; [reflexivity|assumption|cbn in Hf; lia].
Qed.

Lemma bytes_length_ge : forall ts, length ts <= length (bytes_of_toks ts).
Proof.
  induction ts as [|t ts IH]; [cbn; lia|].
  unfold bytes_of_toks in *. cbn [flat_map length]. rewrite app_length.
  pose proof (bytes_of_tok_nonempty t). destruct (bytes_of_tok t); [congruence|cbn; lia].
Qed.

(* the whole chain: loading the bytes of a saved value gives the reloaded value *)
Theorem file_roundtrip : forall (S : schema), wf_schema S = true ->
  forall t v, ty_wf S t = true -> ht S t v = true ->
  forallb tok_ok (enc S t v) = true ->
  vdepth v <= length (enc S t v) ->
  load_bytes S t (save_bytes S t v) = Some (reload S t v).
Proof.
  intros S WF t v Hty Hht Hok Hdep. unfold load_bytes, save_bytes.
  rewrite bytes_roundtrip by (try assumption; apply bytes_length_ge).
  pose proof (roundtrip_fuel S WF (Datatypes.S (length (enc S t v))) t v [] Hty Hht) as H.
  rewrite app_nil_r in H. rewrite H by lia. reflexivity.
Qed.

(* two values with the same file are the same store after loading *)
Theorem enc_injective : forall (S : schema), wf_schema S = true ->
  forall t v1 v2, ty_wf S t = true -> ht S t v1 = true -> ht S t v2 = true ->
  enc S t v1 = enc S t v2 -> erase S t v1 = erase S t v2.
Proof.
  intros S WF t v1 v2 Hty H1 H2 E.
  pose proof (roundtrip_fuel S WF (Datatypes.S (Nat.max (vdepth v1) (vdepth v2))) t v1 [] Hty H1) as R1.
  pose proof (roundtrip_fuel S WF (Datatypes.S (Nat.max (vdepth v1) (vdepth v2))) t v2 [] Hty H2) as R2.
  rewrite E in R1. rewrite R1 in R2 by lia. specialize (R2 ltac:(lia)). congruence.
Qed.

(* second generation: saving and loading a loaded value is the identity *)
Theorem second_generation : forall (S : schema), wf_schema S = true ->
  forall t v rest, ty_wf S t = true -> ht S t v = true ->
  exists fuel, dec S fuel t (enc S t (erase S t v) ++ rest) = Some (erase S t v, rest).
Proof.
  intros S WF t v rest Hty Hht. destruct (erase_at_rest S WF t v Hty Hht) as [A B].
  exists (Datatypes.S (vdepth (erase S t v))).
  rewrite (roundtrip_generic S WF t (erase S t v) rest Hty A). rewrite B. reflexivity.
Qed.
