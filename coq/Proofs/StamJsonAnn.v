(* C05, part 3: loading the annotations.  Every reference (by public or temporary identifier)
   resolves to the rebuilt item, offsets re-resolve to the same ranges in the same alignment
   (the C04 theorems), temporary identifiers put id-less annotations back at their handles. *)
From Coq Require Import String Ascii.
From Coq Require Import List NArith ZArith Bool Arith Lia.
From Stam Require Import Base.Tac Model.Offset Spec.OffsetSpec Proofs.Offset Model.Json Model.TempId Proofs.TempId
     Model.StamJson Spec.StamJsonSpec Proofs.StamJson Proofs.StamJsonLoad.
Import ListNotations.

Local Arguments report_resource : simpl never.
Local Arguments relative_offset : simpl never.
Local Arguments resource_ts : simpl never.
Local Arguments selection_ts : simpl never.
Local Arguments spec_report : simpl never.
Local Arguments mode_of : simpl never.

Definition aname (a : nat) (an : dann) : str := name_of KAnn (ja_id an) a.

Definition leaf_range (lf : dleaf) : option (nat * nat * nat) :=
  match lf with DText r b e _ | DAnnText _ r b e _ => Some (r, b, e) | _ => None end.

Lemma ann_range_eq st a :
  ann_range st a = match slot (st_anns st) a with
                   | Some an => match ja_kind an, ja_leaves an with
                                | 0, [lf] => leaf_range lf
                                | _, _ => None
                                end
                   | None => None
                   end.
Proof.
  unfold ann_range. destruct (slot (st_anns st) a) as [an|]; [|reflexivity].
  destruct (ja_kind an); [|reflexivity]. destruct (ja_leaves an) as [|lf [|lf2 l]]; try reflexivity;
    destruct lf; reflexivity.
Qed.

Section Ann.
  Variable s : dstore.
  Variable rs' : list (option dres).
  Variable ss' : list (option dset).
  Definition mk (anns : list (option dann)) : dstore := mkdstore (st_id s) rs' ss' anns.

  Hypothesis ResRel : forall r rs, slot (st_ress s) r = Some rs ->
    exists r', lookup KRes res_pid rs' (jr_id rs) = Some r' /\ slot rs' r' = Some rs.
  Hypothesis SetsRel : forall d ds, slot (st_sets s) d = Some ds ->
    exists d' ds', lookup KSet set_pid ss' (js_id ds) = Some d' /\ slot ss' d' = Some ds' /\ SetRel ds ds'.

  Definition RangeRel (anns : list (option dann)) (a a' : nat) : Prop :=
    match ann_range s a with
    | None => ann_range (mk anns) a' = None
    | Some (r, b, e) => exists r', ann_range (mk anns) a' = Some (r', b, e) /\ slot rs' r' = slot (st_ress s) r
    end.

  Record AnnInv (old anns : list (option dann)) : Prop := {
    ai_len : length anns <= length old;
    ai_sim : forall a an, slot old a = Some an ->
             exists a' an', lookup KAnn ja_id anns (aname a an) = Some a' /\ slot anns a' = Some an'
                            /\ aname a' an' = aname a an /\ RangeRel anns a a';
    ai_ids : forall a' an' i, slot anns a' = Some an' -> ja_id an' = Some i ->
             exists a an, slot old a = Some an /\ ja_id an = Some i;
    ai_canon : forall cas, omap (canon_ann s) (live old) = Some cas -> omap (canon_ann (mk anns)) (live anns) = Some cas
  }.

  (** ** appending to the rebuilt list changes nothing for what is already there *)
  Lemma ann_range_app anns l2 a x : slot anns a = Some x -> ann_range (mk (anns ++ l2)) a = ann_range (mk anns) a.
  Proof. intros H. rewrite !ann_range_eq. cbn [st_anns mk]. rewrite (slot_app_some _ _ _ _ H), H. reflexivity. Qed.

  Lemma ann_name_app anns l2 a n : ann_name (mk anns) a = Some n -> ann_name (mk (anns ++ l2)) a = Some n.
  Proof.
    unfold ann_name. cbn [st_anns mk]. destruct (slot anns a) as [an|] eqn:E; [|discriminate].
    rewrite (slot_app_some _ _ _ _ E). exact (fun H => H).
  Qed.

  Lemma canon_leaf_app anns l2 lf cl : canon_leaf (mk anns) lf = Some cl -> canon_leaf (mk (anns ++ l2)) lf = Some cl.
  Proof.
    destruct lf as [r b e m|a|a r b e m|r|d|d k|d x]; cbn [canon_leaf]; try exact (fun H => H).
    - destruct (ann_name (mk anns) a) as [n|] eqn:E; [|discriminate]. rewrite (ann_name_app _ l2 _ _ E). exact (fun H => H).
    - destruct (ann_name (mk anns) a) as [n|] eqn:E; [|discriminate]. rewrite (ann_name_app _ l2 _ _ E).
      assert (Hs : exists x, slot anns a = Some x).
      { unfold ann_name in E. cbn [st_anns mk] in E. destruct (slot anns a); [eauto|discriminate]. }
      destruct Hs as [x Hx]. rewrite (ann_range_app _ l2 _ _ Hx). exact (fun H => H).
  Qed.

  Lemma omap_canon_leaf_app anns l2 ls cls :
    omap (canon_leaf (mk anns)) ls = Some cls -> omap (canon_leaf (mk (anns ++ l2))) ls = Some cls.
  Proof.
    revert cls. induction ls as [|lf ls IH]; intros cls H; cbn in *; [exact H|].
    destruct (canon_leaf (mk anns) lf) as [cl|] eqn:E; [|discriminate].
    destruct (omap (canon_leaf (mk anns)) ls) as [cs|] eqn:E2; [|discriminate].
    rewrite (canon_leaf_app _ l2 _ _ E), (IH _ eq_refl). exact H.
  Qed.

  Lemma canon_ann_app anns l2 p ca : canon_ann (mk anns) p = Some ca -> canon_ann (mk (anns ++ l2)) p = Some ca.
  Proof.
    destruct p as [h a]. unfold canon_ann.
    change (canon_dataref (mk (anns ++ l2))) with (canon_dataref (mk anns)).
    destruct (omap (canon_dataref (mk anns)) (ja_data a)) as [ds|]; [|discriminate].
    destruct (omap (canon_leaf (mk anns)) (ja_leaves a)) as [ls|] eqn:E; [|discriminate].
    rewrite (omap_canon_leaf_app _ l2 _ _ E). exact (fun H => H).
  Qed.

  Lemma omap_canon_ann_app anns l2 ps cas :
    omap (canon_ann (mk anns)) ps = Some cas -> omap (canon_ann (mk (anns ++ l2))) ps = Some cas.
  Proof.
    revert cas. induction ps as [|p ps IH]; intros cas H; cbn in *; [exact H|].
    destruct (canon_ann (mk anns) p) as [ca|] eqn:E; [|discriminate].
    destruct (omap (canon_ann (mk anns)) ps) as [cs|] eqn:E2; [|discriminate].
    rewrite (canon_ann_app _ l2 _ _ E), (IH _ eq_refl). exact H.
  Qed.

  Lemma RangeRel_app anns l2 a a' x : slot anns a' = Some x -> RangeRel anns a a' -> RangeRel (anns ++ l2) a a'.
  Proof. intros H. unfold RangeRel. rewrite (ann_range_app _ l2 _ _ H). exact (fun R => R). Qed.

  (** ** resolving one selector *)
  Definition range_corr (lf lf' : dleaf) : Prop :=
    match leaf_range lf with
    | None => leaf_range lf' = None
    | Some (r, b, e) => exists r', leaf_range lf' = Some (r', b, e) /\ slot rs' r' = slot (st_ress s) r
    end.

  Lemma res_name_new anns r' rs : slot rs' r' = Some rs -> res_name (mk anns) r' = Some (jr_id rs).
  Proof. intros H. unfold res_name. cbn [st_ress mk]. rewrite H. reflexivity. Qed.

  Lemma resolve_canon_leaf old anns h lf cl :
    (forall a an, slot old a = Some an <-> a < h /\ slot (st_anns s) a = Some an) ->
    AnnInv old anns ->
    wf_leaf s h lf = true -> canon_leaf s lf = Some cl ->
    exists lf', resolve_leaf (mk anns) (cl_sel cl) = Some lf' /\ canon_leaf (mk anns) lf' = Some cl /\ range_corr lf lf'.
  Proof.
    intros Hold Inv Hwf Hc.
    destruct lf as [r b e m|a|a r b e m|r|d|d k|d x]; cbn [wf_leaf canon_leaf] in Hwf, Hc.
    - (* text *)
      destruct (slot (st_ress s) r) as [rs|] eqn:Er; [|discriminate]. injection Hc as <-.
      apply andb_prop in Hwf. destruct Hwf as [H1 H2]. apply Nat.leb_le in H1, H2.
      destruct (ResRel _ _ Er) as (r' & Lr & Sr).
      destruct (report_resource_spec (length (jr_text rs)) b e m H1 H2) as (E1 & _ & _ & E4 & E5).
      exists (DText r' b e m). cbn [cl_sel resolve_leaf st_ress mk]. rewrite Lr, Sr, E1, E5, E4.
      split; [reflexivity|]. split.
      + cbn [canon_leaf st_ress mk]. rewrite Sr, E1. reflexivity.
      + unfold range_corr. cbn [leaf_range]. exists r'. split; [reflexivity|]. rewrite Sr, Er. reflexivity.
    - (* a whole annotation *)
      apply andb_prop in Hwf. destruct Hwf as [H1 H2]. apply Nat.ltb_lt in H1.
      unfold ann_name in Hc. destruct (slot (st_anns s) a) as [an|] eqn:Ea; [|discriminate]. injection Hc as <-.
      destruct (ai_sim _ _ Inv a an) as (a' & an' & La & Sa & Na & _); [apply Hold; split; assumption|].
      exists (DAnn a'). cbn [cl_sel resolve_leaf st_anns mk]. fold (aname a an). rewrite La.
      split; [reflexivity|]. split; [|reflexivity].
      cbn [canon_leaf]. unfold ann_name. cbn [st_anns mk]. rewrite Sa. fold (aname a' an'). rewrite Na. reflexivity.
    - (* an offset relative to an annotation *)
      apply andb_prop in Hwf. destruct Hwf as [H1 H2]. apply andb_prop in H1. destruct H1 as [H1 _]. apply Nat.ltb_lt in H1.
      destruct (ann_range s a) as [[[r0 pb] pe]|] eqn:Erg; [|discriminate].
      repeat (apply andb_prop in H2; destruct H2 as [H2 ?]).
      apply Nat.eqb_eq in H2. subst r0. apply Nat.leb_le in H, H0, H3.
      unfold ann_name in Hc. destruct (slot (st_anns s) a) as [an|] eqn:Ea; [|discriminate].
      destruct (res_name s r) as [rn|] eqn:Ern; [|discriminate]. injection Hc as <-.
      destruct (ai_sim _ _ Inv a an) as (a' & an' & La & Sa & Na & RR); [apply Hold; split; assumption|].
      unfold RangeRel in RR. rewrite Erg in RR. destruct RR as (r' & Rg' & Sr').
      destruct (relative_offset_spec pb pe b e m H3 H0 H) as (E1 & _ & _ & E4 & E5). cbv zeta in E1, E4, E5.
      rewrite E1.
      exists (DAnnText a' r' b e m). cbn [cl_sel resolve_leaf st_anns mk]. fold (aname a an). rewrite La, Rg', E5, E4.
      split; [reflexivity|]. split.
      + cbn [canon_leaf]. unfold ann_name. cbn [st_anns mk]. rewrite Sa. fold (aname a' an'). rewrite Na.
        unfold res_name in *. cbn [st_ress mk]. rewrite Sr', Ern. rewrite Rg', E1. reflexivity.
      + unfold range_corr. cbn [leaf_range]. exists r'. split; [reflexivity|exact Sr'].
    - (* a resource *)
      unfold res_name in Hc. destruct (slot (st_ress s) r) as [rs|] eqn:Er; [|discriminate]. injection Hc as <-.
      destruct (ResRel _ _ Er) as (r' & Lr & Sr).
      exists (DRes r'). cbn [cl_sel resolve_leaf st_ress mk option_map]. rewrite Lr.
      split; [reflexivity|]. split; [|reflexivity]. cbn [canon_leaf]. rewrite (res_name_new _ _ _ Sr). reflexivity.
    - (* a dataset *)
      unfold set_name in Hc. destruct (slot (st_sets s) d) as [ds|] eqn:Ed; [|discriminate]. injection Hc as <-.
      destruct (SetsRel _ _ Ed) as (d' & ds' & Ld & Sd & Rel).
      exists (DSet d'). cbn [cl_sel resolve_leaf st_sets mk option_map]. rewrite Ld.
      split; [reflexivity|]. split; [|reflexivity]. cbn [canon_leaf]. unfold set_name. cbn [st_sets mk]. rewrite Sd.
      cbn [option_map]. rewrite (sr_id _ _ Rel). reflexivity.
    - (* a key *)
      unfold set_name, key_name in Hc. destruct (slot (st_sets s) d) as [ds|] eqn:Ed; [|discriminate].
      cbn [option_map] in Hc. destruct (slot (js_keys ds) k) as [kn|] eqn:Ek; [|discriminate]. injection Hc as <-.
      destruct (SetsRel _ _ Ed) as (d' & ds' & Ld & Sd & Rel).
      destruct (sr_keys _ _ Rel _ _ Ek) as (k' & Lk & Sk).
      exists (DKey d' k'). cbn [cl_sel resolve_leaf st_sets mk]. rewrite Ld, Sd, Lk.
      split; [reflexivity|]. split; [|reflexivity]. cbn [canon_leaf]. unfold set_name, key_name. cbn [st_sets mk]. rewrite Sd.
      cbn [option_map]. rewrite Sk, (sr_id _ _ Rel). reflexivity.
    - (* a data item *)
      unfold set_name, data_name in Hc. destruct (slot (st_sets s) d) as [ds|] eqn:Ed; [|discriminate].
      cbn [option_map] in Hc. destruct (slot (js_data ds) x) as [it|] eqn:Ex; [|discriminate]. injection Hc as <-.
      destruct (SetsRel _ _ Ed) as (d' & ds' & Ld & Sd & Rel).
      destruct (sr_data _ _ Rel _ _ Ex) as (x' & it' & Lx & Sx & Nx).
      exists (DData d' x'). cbn [cl_sel resolve_leaf st_sets mk]. fold (dname x it). rewrite Ld, Sd, Lx.
      split; [reflexivity|]. split; [|reflexivity]. cbn [canon_leaf]. unfold set_name, data_name. cbn [st_sets mk]. rewrite Sd.
      cbn [option_map]. rewrite Sx. fold (dname x' it'). rewrite Nx, (sr_id _ _ Rel). reflexivity.
  Qed.

  (** ** data references *)
  Lemma resolve_canon_dataref anns p cp :
    canon_dataref s p = Some cp ->
    exists p', resolve_dataref (mk anns) cp = Some p' /\ canon_dataref (mk anns) p' = Some cp.
  Proof.
    destruct p as [d x]. unfold canon_dataref, data_name, set_name. cbn [fst snd].
    destruct (slot (st_sets s) d) as [ds|] eqn:Ed; [|discriminate].
    destruct (slot (js_data ds) x) as [it|] eqn:Ex; [|discriminate]. cbn [option_map]. intros H. injection H as <-.
    destruct (SetsRel _ _ Ed) as (d' & ds' & Ld & Sd & Rel).
    destruct (sr_data _ _ Rel _ _ Ex) as (x' & it' & Lx & Sx & Nx).
    exists (d', x'). unfold resolve_dataref. cbn [fst snd st_sets mk]. fold (dname x it). rewrite Ld, Sd, Lx.
    split; [reflexivity|]. cbn [fst snd st_sets mk]. rewrite Sx. fold (dname x' it'). cbn [option_map].
    rewrite Nx, (sr_id _ _ Rel). reflexivity.
  Qed.

  Lemma resolve_canon_datarefs anns : forall ps cps,
    omap (canon_dataref s) ps = Some cps ->
    exists ps', omap (resolve_dataref (mk anns)) cps = Some ps' /\ omap (canon_dataref (mk anns)) ps' = Some cps.
  Proof.
    induction ps as [|p ps IH]; intros cps H; cbn in H.
    - injection H as <-. exists []. split; reflexivity.
    - destruct (canon_dataref s p) as [cp|] eqn:E; [|discriminate].
      destruct (omap (canon_dataref s) ps) as [cs|] eqn:E2; [|discriminate]. injection H as <-.
      destruct (resolve_canon_dataref anns _ _ E) as (p' & R1 & C1).
      destruct (IH _ eq_refl) as (ps' & R2 & C2).
      exists (p' :: ps'). cbn. rewrite R1, R2, C1, C2. split; reflexivity.
  Qed.

  Lemma resolve_canon_leaves old anns h :
    (forall a an, slot old a = Some an <-> a < h /\ slot (st_anns s) a = Some an) ->
    AnnInv old anns ->
    forall ls cls, forallb (wf_leaf s h) ls = true -> omap (canon_leaf s) ls = Some cls ->
    exists ls', omap (resolve_leaf (mk anns)) (map cl_sel cls) = Some ls'
                /\ omap (canon_leaf (mk anns)) ls' = Some cls /\ Forall2 range_corr ls ls'.
  Proof.
    intros Hold Inv. induction ls as [|lf ls IH]; intros cls Hwf H; cbn in H.
    - injection H as <-. exists []. repeat split; constructor.
    - cbn in Hwf. apply andb_prop in Hwf. destruct Hwf as [W1 W2].
      destruct (canon_leaf s lf) as [cl|] eqn:E; [|discriminate].
      destruct (omap (canon_leaf s) ls) as [cs|] eqn:E2; [|discriminate]. injection H as <-.
      destruct (resolve_canon_leaf old anns h lf cl Hold Inv W1 E) as (lf' & R1 & C1 & G1).
      destruct (IH _ W2 eq_refl) as (ls' & R2 & C2 & G2).
      exists (lf' :: ls'). cbn. rewrite R1, R2, C1, C2. repeat split. constructor; assumption.
  Qed.

  (** ** padding and one more annotation *)
  Lemma AnnInv_pad old anns n : AnnInv old anns -> length anns + n <= length old -> AnnInv old (anns ++ repeat None n).
  Proof.
    intros [L S I C] Hn. split.
    - rewrite app_length, repeat_length. exact Hn.
    - intros a an H. destruct (S _ _ H) as (a' & an' & A & B & Cc & D). exists a', an'.
      repeat split; [apply lookup_app_some; exact A|apply slot_app_some; exact B|exact Cc|eapply RangeRel_app; eauto].
    - intros a' an' i H1 H2. destruct (Nat.lt_ge_cases a' (length anns)) as [La|La].
      + rewrite slot_app_l in H1 by exact La. eapply I; eauto.
      + replace a' with (length anns + (a' - length anns)) in H1 by lia. rewrite slot_app_r, slot_repeat_none in H1.
        discriminate.
    - intros cas H. rewrite live_app_none. apply omap_canon_ann_app. apply C. exact H.
  Qed.

  Lemma AnnInv_none old anns : AnnInv old anns -> AnnInv (old ++ [None]) anns.
  Proof.
    intros [L S I C]. split.
    - rewrite app_length. cbn. lia.
    - intros a an H. apply S. destruct (Nat.lt_ge_cases a (length old)) as [Lx|Lx].
      + rewrite slot_app_l in H by exact Lx. exact H.
      + exfalso. replace a with (length old + (a - length old)) in H by lia. rewrite slot_app_r in H.
        unfold slot in H. destruct (a - length old) as [|[|n]]; discriminate.
    - intros a' an' i H1 H2. destruct (I _ _ _ H1 H2) as (a & an & Ha & Hi). exists a, an. split; [|exact Hi].
      apply slot_app_some. exact Ha.
    - intros cas H. apply C. rewrite <- H. unfold live. rewrite live_from_app. cbn. rewrite app_nil_r. reflexivity.
  Qed.

  Lemma ann_range_new anns a' an' :
    slot anns a' = Some an' ->
    ann_range (mk anns) a' = match ja_kind an', ja_leaves an' with 0, [lf] => leaf_range lf | _, _ => None end.
  Proof. intros H. rewrite ann_range_eq. cbn [st_anns mk]. rewrite H. reflexivity. Qed.

  Lemma AnnInv_step old anns1 an ds' ls' cds cls :
    (forall a an0, slot old a = Some an0 <-> a < length old /\ slot (st_anns s) a = Some an0) ->
    slot (st_anns s) (length old) = Some an ->
    AnnInv old anns1 ->
    (ja_id an = None -> length anns1 = length old) ->
    (forall p, ja_id an = Some p -> reserved p = false /\ forall a an2, slot old a = Some an2 -> ja_id an2 <> Some p) ->
    (N.of_nat (length old) < width KAnn)%N ->
    omap (canon_dataref s) (ja_data an) = Some cds -> omap (canon_leaf s) (ja_leaves an) = Some cls ->
    omap (canon_dataref (mk anns1)) ds' = Some cds -> omap (canon_leaf (mk anns1)) ls' = Some cls ->
    Forall2 range_corr (ja_leaves an) ls' ->
    AnnInv (old ++ [Some an]) (anns1 ++ [Some (mkdann (ja_id an) ds' (ja_kind an) ls')]).
  Proof.
    intros Hold Han [L S I C] Ht Hf W Hcd Hcl Hcd' Hcl' HG.
    set (an' := mkdann (ja_id an) ds' (ja_kind an) ls').
    set (a' := length anns1).
    assert (Hslot : slot (anns1 ++ [Some an']) a' = Some an').
    { unfold a'. replace (length anns1) with (length anns1 + 0) at 1 by lia. rewrite slot_app_r. reflexivity. }
    assert (Hname : aname a' an' = aname (length old) an).
    { unfold aname, an'. cbn [ja_id]. destruct (ja_id an) eqn:E; [reflexivity|]. cbn. unfold a'. rewrite (Ht eq_refl). reflexivity. }
    assert (Hcanon_new : canon_ann (mk (anns1 ++ [Some an'])) (a', an') =
                         Some (mkcann (aname (length old) an) cds (ja_kind an) cls)).
    { unfold canon_ann. change (canon_dataref (mk (anns1 ++ [Some an']))) with (canon_dataref (mk anns1)).
      assert (Ed : ja_data an' = ds') by reflexivity. assert (El : ja_leaves an' = ls') by reflexivity.
      assert (Ek : ja_kind an' = ja_kind an) by reflexivity. rewrite Ed, El, Ek.
      rewrite Hcd'. rewrite (omap_canon_leaf_app _ [Some an'] _ _ Hcl').
      fold (aname a' an'). rewrite Hname. reflexivity. }
    split.
    - rewrite !app_length. cbn. lia.
    - intros a an0 H. destruct (Nat.lt_ge_cases a (length old)) as [Lx|Lx].
      + rewrite slot_app_l in H by exact Lx. destruct (S _ _ H) as (y & an1 & A & B & Cc & D).
        exists y, an1. repeat split; [apply lookup_app_some; exact A|apply slot_app_some; exact B|exact Cc|eapply RangeRel_app; eauto].
      + replace a with (length old + (a - length old)) in H by lia. rewrite slot_app_r in H.
        destruct (a - length old) as [|m] eqn:Em; [|unfold slot in H; destruct m; discriminate].
        cbn in H. injection H as <-. assert (a = length old) by lia. subst a.
        exists a', an'. repeat split; try assumption.
        * rewrite <- Hname. destruct (ja_id an) as [p|] eqn:Ep.
          -- assert (Ename : aname a' an' = p) by reflexivity. rewrite Ename.
             destruct (Hf p eq_refl) as [R F]. rewrite lookup_public by exact R.
             rewrite find_id_app. rewrite (find_id_none ja_id anns1 p 0).
             ++ cbn [find_id]. unfold an'. cbn [ja_id]. rewrite str_eqb_refl. f_equal.
             ++ intros h y Hy Hp. destruct (I _ _ _ Hy Hp) as (x0 & an2 & Hx0 & Hi2). eapply F; eauto.
          -- assert (Ename : aname a' an' = temp_id KAnn (N.of_nat a')) by reflexivity. rewrite Ename.
             apply lookup_temp with (x := an'); [unfold a'; rewrite (Ht eq_refl); exact W|exact Hslot].
        * (* the range of the new annotation *)
          unfold RangeRel. rewrite (ann_range_new _ _ _ Hslot). rewrite ann_range_eq, Han.
          unfold an'. cbn [ja_kind ja_leaves]. destruct (ja_kind an); [|reflexivity].
          destruct HG as [|lf lf' ls ls2 G1 G2]; [reflexivity|]. destruct G2; [|reflexivity].
          unfold range_corr in G1. destruct (leaf_range lf) as [[[r b] e]|]; exact G1.
    - intros y an1 i H1 H2. destruct (Nat.lt_ge_cases y (length anns1)) as [Ly|Ly].
      + rewrite slot_app_l in H1 by exact Ly. destruct (I _ _ _ H1 H2) as (x & an2 & Hx & Hi). exists x, an2.
        split; [apply slot_app_some; exact Hx|exact Hi].
      + replace y with (length anns1 + (y - length anns1)) in H1 by lia. rewrite slot_app_r in H1.
        destruct (y - length anns1) as [|m]; [|unfold slot in H1; destruct m; discriminate].
        cbn in H1. injection H1 as <-. exists (length old), an. split; [|exact H2].
        replace (length old) with (length old + 0) at 1 by lia. rewrite slot_app_r. reflexivity.
    - intros cas H. rewrite live_app_one in H. rewrite omap_app in H.
      destruct (omap (canon_ann s) (live old)) as [cas0|] eqn:E0; [|discriminate].
      cbn [omap] in H. unfold canon_ann at 1 in H. rewrite Hcd, Hcl in H. fold (aname (length old) an) in H.
      injection H as <-.
      rewrite live_app_one, omap_app. rewrite (omap_canon_ann_app _ [Some an'] _ _ (C _ eq_refl)).
      cbn [omap]. fold a'. rewrite Hcanon_new. reflexivity.
  Qed.
End Ann.
