(* Removal of an annotation with its cascade preserves the index invariant. *)
From Coq Require Import Sorting.Sorted.
From Stam Require Import Base.Tac Base.ListAux Model.Offset Model.Store Model.StoreObs Spec.StoreSpec
     Proofs.RelMap Proofs.StoreScan Proofs.StoreInv.

(* an annotation only targets annotations that existed before it *)
Definition leaf_lt (x : nat) (lf : leaf) : Prop :=
  match lf with LAnn t | LAnnText t _ _ _ => t < x | _ => True end.
Definition wf_targets (s : store) : Prop :=
  forall x a, get_ann s x = Some a -> Forall (leaf_lt x) (a_leaves a).

(** * taking one annotation out of the indices *)

Lemma remove_first_idem y l : NoDup l -> remove_first y (remove_first y l) = remove_first y l.
Proof.
  intros H. rewrite (remove_first_filter y l H).
  apply remove_first_notin. rewrite filter_In. intros [_ Hn]. rewrite Nat.eqb_refl in Hn. discriminate.
Qed.

Lemma fold_rem {X} (h : nat) (step : store -> X -> store) (V : store -> list nat) (sel : X -> bool) :
  (forall s x, V (step s x) = if sel x then remove_first h (V s) else V s) ->
  forall l s, NoDup (V s) ->
  V (fold_left step l s) = if existsb sel l then remove_first h (V s) else V s.
Proof.
  intros Hstep l s Hnd.
  assert (G : forall l s' (b : bool),
              V s' = (if b then remove_first h (V s) else V s) ->
              V (fold_left step l s') = if b || existsb sel l then remove_first h (V s) else V s).
  { clear l. induction l as [|x l IH]; intros s' b Hs; cbn [fold_left existsb].
    - rewrite orb_false_r. exact Hs.
    - rewrite orb_assoc. apply IH. rewrite Hstep, Hs.
      destruct (sel x); destruct b; cbn [orb]; try reflexivity.
      apply remove_first_idem. exact Hnd. }
  apply (G l s false). reflexivity.
Qed.

Section UnindexLeaf.
  Variable h : nat.

  Ltac ustep :=
    intros s lf; destruct lf; cbn [unindex_leaf trm aam ramm samm kamm damm ddam set_trm set_aam set_ramm set_samm set_kamm set_damm
                                   on_ts on_ann on_res_meta on_set on_key on_data];
    rewrite ?tget_trem, ?rget_rrem; try reflexivity.

  Lemma ustep_trm r t : forall s lf,
    tget (trm (unindex_leaf h s lf)) r t = if on_ts r t lf then remove_first h (tget (trm s) r t) else tget (trm s) r t.
  Proof.
    ustep; rewrite eqb_pair_swap;
      match goal with |- context [(?a =? r) && (?b =? t)] =>
        destruct (a =? r) eqn:E1; destruct (b =? t) eqn:E2; cbn [andb]; try reflexivity;
        assert (a = r) by lia; assert (b = t) by lia; subst; reflexivity end.
  Qed.

  Lemma ustep_aam a : forall s lf,
    rget (aam (unindex_leaf h s lf)) a = if on_ann a lf then remove_first h (rget (aam s) a) else rget (aam s) a.
  Proof.
    ustep; rewrite (Nat.eqb_sym a);
      match goal with |- context [?x =? a] =>
        destruct (x =? a) eqn:E1; try reflexivity; assert (x = a) by lia; subst; reflexivity end.
  Qed.

  Lemma ustep_ramm r : forall s lf,
    rget (ramm (unindex_leaf h s lf)) r = if on_res_meta r lf then remove_first h (rget (ramm s) r) else rget (ramm s) r.
  Proof.
    ustep; rewrite (Nat.eqb_sym r);
      match goal with |- context [?x =? r] =>
        destruct (x =? r) eqn:E1; try reflexivity; assert (x = r) by lia; subst; reflexivity end.
  Qed.

  Lemma ustep_samm d : forall s lf,
    rget (samm (unindex_leaf h s lf)) d = if on_set d lf then remove_first h (rget (samm s) d) else rget (samm s) d.
  Proof.
    ustep; rewrite (Nat.eqb_sym d);
      match goal with |- context [?x =? d] =>
        destruct (x =? d) eqn:E1; try reflexivity; assert (x = d) by lia; subst; reflexivity end.
  Qed.

  Lemma ustep_kamm d k : forall s lf,
    tget (kamm (unindex_leaf h s lf)) d k = if on_key d k lf then remove_first h (tget (kamm s) d k) else tget (kamm s) d k.
  Proof.
    ustep; rewrite eqb_pair_swap;
      match goal with |- context [(?a =? d) && (?b =? k)] =>
        destruct (a =? d) eqn:E1; destruct (b =? k) eqn:E2; cbn [andb]; try reflexivity;
        assert (a = d) by lia; assert (b = k) by lia; subst; reflexivity end.
  Qed.

  Lemma ustep_damm d x : forall s lf,
    tget (damm (unindex_leaf h s lf)) d x = if on_data d x lf then remove_first h (tget (damm s) d x) else tget (damm s) d x.
  Proof.
    ustep; rewrite eqb_pair_swap;
      match goal with |- context [(?a =? d) && (?b =? x)] =>
        destruct (a =? d) eqn:E1; destruct (b =? x) eqn:E2; cbn [andb]; try reflexivity;
        assert (a = d) by lia; assert (b = x) by lia; subst; reflexivity end.
  Qed.

  Lemma ustep_frame : forall s lf,
    ddam (unindex_leaf h s lf) = ddam s /\ anns (unindex_leaf h s lf) = anns s
    /\ sets (unindex_leaf h s lf) = sets s /\ ress (unindex_leaf h s lf) = ress s
    /\ aidx (unindex_leaf h s lf) = aidx s /\ sidx (unindex_leaf h s lf) = sidx s /\ ridx (unindex_leaf h s lf) = ridx s.
  Proof. intros s lf; destruct lf; repeat split. Qed.
End UnindexLeaf.

Definition unindex_datum (h : nat) (s : store) (dx : nat * nat) : store :=
  set_ddam s (trem (ddam s) (fst dx) (snd dx) h).

Lemma unindex_ann_unfold s h a :
  unindex_ann s h a = fold_left (unindex_leaf h) (a_leaves a) (fold_left (unindex_datum h) (a_data a) s).
Proof. reflexivity. Qed.

Lemma ufold_leaves_frame h ls : forall s,
  let s' := fold_left (unindex_leaf h) ls s in
  ddam s' = ddam s /\ anns s' = anns s /\ sets s' = sets s /\ ress s' = ress s
  /\ aidx s' = aidx s /\ sidx s' = sidx s /\ ridx s' = ridx s.
Proof.
  induction ls as [|lf ls IH]; intros s; cbn [fold_left]; [repeat split|].
  specialize (IH (unindex_leaf h s lf)). cbv zeta in *.
  destruct (ustep_frame h s lf) as (A1&A2&A3&A4&A5&A6&A7). destruct IH as (B1&B2&B3&B4&B5&B6&B7).
  repeat split; congruence.
Qed.

Lemma ufold_data_frame h l : forall s,
  let s' := fold_left (unindex_datum h) l s in
  anns s' = anns s /\ trm s' = trm s /\ aam s' = aam s /\ ramm s' = ramm s /\ samm s' = samm s
  /\ kamm s' = kamm s /\ damm s' = damm s /\ sets s' = sets s /\ ress s' = ress s
  /\ aidx s' = aidx s /\ sidx s' = sidx s /\ ridx s' = ridx s.
Proof.
  induction l as [|dx l IH]; intros s; cbn [fold_left]; [repeat split|].
  specialize (IH (unindex_datum h s dx)). cbv zeta in *. exact IH.
Qed.

Lemma ustep_ddam h d x : forall s dx,
  tget (ddam (unindex_datum h s dx)) d x =
  if (fst dx =? d) && (snd dx =? x) then remove_first h (tget (ddam s) d x) else tget (ddam s) d x.
Proof.
  intros s [d' x']. unfold unindex_datum. cbn [ddam set_ddam fst snd]. rewrite tget_trem, eqb_pair_swap.
  destruct (d' =? d) eqn:E1; destruct (x' =? x) eqn:E2; cbn [andb]; try reflexivity.
  assert (d' = d) by lia. assert (x' = x) by lia. subst. reflexivity.
Qed.

(* a row that is a scan, with h taken out: the scan of the store with slot h emptied *)
Lemma scan_row_remove l h a P (b : bool) :
  slot l h = Some a -> b = P a ->
  (if b then remove_first h (scanl l P) else scanl l P) = scanl (set_slot l h None) P.
Proof.
  intros Ha Hb. rewrite scanl_set_none. destruct b.
  - apply remove_first_filter. apply scanl_NoDup.
  - symmetry. apply filter_neq_notin. intros Hin. apply scanl_In in Hin.
    destruct Hin as (a' & Ha' & HP). rewrite Ha in Ha'. inversion Ha'; subst a'. congruence.
Qed.

(* the annotation in slot h leaves the store and the indices *)
Lemma remove_self_Inv ex s h a :
  InvE ex s -> get_ann s h = Some a ->
  let s3 := unindex_ann s h a in
  forall ids, InvE ex (set_anns (set_aidx s3 ids) (set_slot (anns s3) h None)).
Proof.
  intros [H1 H2 H3 H4 H5 H6 H7] Ha s3 ids. subst s3. rewrite unindex_ann_unfold.
  set (sd := fold_left (unindex_datum h) (a_data a) s).
  destruct (ufold_data_frame h (a_data a) s) as (F0&F1&F2&F3&F4&F5&F6&_). fold sd in F0, F1, F2, F3, F4, F5, F6.
  destruct (ufold_leaves_frame h (a_leaves a) sd) as (G0&G1&_).
  set (sl := fold_left (unindex_leaf h) (a_leaves a) sd) in *.
  assert (Hanns : anns sl = anns s) by congruence.
  unfold get_ann in Ha.
  unfold s_ts_anns, s_ann_anns, s_res_meta, s_set_meta, s_key_meta, s_data_meta, s_data_anns in *.
  constructor; intros;
    unfold s_ts_anns, s_ann_anns, s_res_meta, s_set_meta, s_key_meta, s_data_meta, s_data_anns;
    rewrite scan_scanl; cbn [set_anns set_aidx anns trm aam ramm samm kamm damm ddam]; rewrite Hanns.
  - unfold sl. rewrite (fold_rem h (unindex_leaf h) (fun s => tget (trm s) r t) (on_ts r t) (ustep_trm h r t));
      rewrite F1, H1, scan_scanl; [|apply scanl_NoDup].
    apply (scan_row_remove _ _ a); [exact Ha|reflexivity].
  - unfold sl. rewrite (fold_rem h (unindex_leaf h) (fun s => rget (aam s) a0) (on_ann a0) (ustep_aam h a0));
      rewrite F2, H2, scan_scanl; [|apply scanl_NoDup].
    apply (scan_row_remove _ _ a); [exact Ha|reflexivity].
  - unfold sl. rewrite (fold_rem h (unindex_leaf h) (fun s => rget (ramm s) r) (on_res_meta r) (ustep_ramm h r));
      rewrite F3, H3, scan_scanl; [|apply scanl_NoDup].
    apply (scan_row_remove _ _ a); [exact Ha|reflexivity].
  - unfold sl. rewrite (fold_rem h (unindex_leaf h) (fun s => rget (samm s) d) (on_set d) (ustep_samm h d));
      rewrite F4, H4, scan_scanl; [|apply scanl_NoDup].
    apply (scan_row_remove _ _ a); [exact Ha|reflexivity].
  - unfold sl. rewrite (fold_rem h (unindex_leaf h) (fun s => tget (kamm s) d k) (on_key d k) (ustep_kamm h d k));
      rewrite F5, H5, scan_scanl; [|apply scanl_NoDup].
    apply (scan_row_remove _ _ a); [exact Ha|reflexivity].
  - unfold sl. rewrite (fold_rem h (unindex_leaf h) (fun s => tget (damm s) d x) (on_data d x) (ustep_damm h d x));
      rewrite F6, H6, scan_scanl; [|apply scanl_NoDup].
    apply (scan_row_remove _ _ a); [exact Ha|reflexivity].
  - rewrite G0. unfold sd.
    rewrite (fold_rem h (unindex_datum h) (fun s => tget (ddam s) d x)
               (fun dx => (fst dx =? d) && (snd dx =? x)) (ustep_ddam h d x));
      rewrite H7, scan_scanl by assumption; [|apply scanl_NoDup].
    apply (scan_row_remove _ _ a); [exact Ha|reflexivity].
Qed.

(** * the cascade *)

(* every annotation a live annotation targets is live *)
Definition ann_refs_ok (s : store) : Prop :=
  forall y a, get_ann s y = Some a -> forall lf, In lf (a_leaves a) ->
    match lf with LAnn t | LAnnText t _ _ _ => get_ann s t <> None | _ => True end.

Record Post (ex : nat -> nat -> bool) (c : nat) (s s' : store) : Prop := mkPost {
  P_inv : InvE ex s';
  P_wf : wf_targets s';
  P_len : length (anns s') = length (anns s);
  P_sub : forall x a, get_ann s' x = Some a -> get_ann s x = Some a;
  P_low : forall x, x < c -> get_ann s' x = get_ann s x;
  P_closed : ann_refs_ok s -> ann_refs_ok s';
  P_frame : sets s' = sets s /\ ress s' = ress s /\ sidx s' = sidx s /\ ridx s' = ridx s
}.

Lemma Post_refl ex c s : InvE ex s -> wf_targets s -> Post ex c s s.
Proof. intros. constructor; auto. Qed.

Lemma Post_trans ex c c' s s1 s2 : c <= c' -> Post ex c s s1 -> Post ex c' s1 s2 -> Post ex c s s2.
Proof.
  intros Hc [A1 A2 A3 A4 A5 AC (A6&A7&A8&A9)] [B1 B2 B3 B4 B5 BC (B6&B7&B8&B9)].
  constructor; auto; try congruence.
  - intros x Hx. rewrite B5 by lia. apply A5. exact Hx.
  - repeat split; congruence.
Qed.

Lemma get_ann_lt s h a : get_ann s h = Some a -> h < length (anns s).
Proof.
  unfold get_ann, slot. intros H. destruct (lt_dec h (length (anns s))) as [Hl|Hl]; [exact Hl|].
  rewrite nth_overflow in H by lia. discriminate.
Qed.

Definition dead_stays (s s' : store) : Prop := forall x, get_ann s x = None -> get_ann s' x = None.

Lemma Post_dead ex c s s' : Post ex c s s' -> dead_stays s s'.
Proof.
  intros P x Hx. destruct (get_ann s' x) as [a|] eqn:E; [|reflexivity].
  apply (P_sub _ _ _ _ P) in E. congruence.
Qed.

(** * the relation between a store and a later one in which annotations may have lost data *)
Definition later (s s' : store) : Prop :=
  length (anns s') = length (anns s)
  /\ forall y a', get_ann s' y = Some a' ->
       exists a, get_ann s y = Some a /\ a_leaves a' = a_leaves a /\ incl (a_data a') (a_data a).

Lemma later_refl s : later s s.
Proof. split; [reflexivity|]. intros y a' H. exists a'. split; [exact H|]. split; [reflexivity|apply incl_refl]. Qed.
Lemma later_trans s1 s2 s3 : later s1 s2 -> later s2 s3 -> later s1 s3.
Proof.
  intros (L1&A) (L2&B). split; [congruence|]. intros y a3 H3.
  destruct (B y a3 H3) as (a2 & H2 & E2 & I2). destruct (A y a2 H2) as (a1 & H1 & E1 & I1).
  exists a1. split; [exact H1|]. split; [congruence|eapply incl_tran; eassumption].
Qed.
Lemma Post_later ex c s s' : Post ex c s s' -> later s s'.
Proof.
  intros P. split; [apply (P_len _ _ _ _ P)|]. intros y a' H. exists a'.
  split; [apply (P_sub _ _ _ _ P y a' H)|]. split; [reflexivity|apply incl_refl].
Qed.
Lemma later_wf s s' : later s s' -> wf_targets s -> wf_targets s'.
Proof.
  intros (_&A) Hwf y a' H. destruct (A y a' H) as (a & Ha & El & _). rewrite El. apply (Hwf y a Ha).
Qed.


(* members of the row of h in annotation_annotation_map are larger than h *)
Lemma referrers_gt ex s h c : InvE ex s -> wf_targets s -> In c (rget (aam s) h) -> h < c.
Proof.
  intros HI Hwf Hc. rewrite (I_aam ex s HI) in Hc. unfold s_ann_anns in Hc. rewrite scan_scanl in Hc.
  apply scanl_In in Hc. destruct Hc as (a & Ha & HP). unfold has_leaf in HP.
  apply existsb_exists in HP. destruct HP as (lf & Hlf & Hon).
  specialize (Hwf c a Ha). rewrite Forall_forall in Hwf. specialize (Hwf lf Hlf).
  destruct lf; cbn [on_ann leaf_lt] in *; try discriminate; apply Nat.eqb_eq in Hon; subst; exact Hwf.
Qed.

Lemma Inv_rclear_empty ex s h : InvE ex s -> rget (aam s) h = [] -> InvE ex (set_aam s (rclear (aam s) h)).
Proof.
  intros [H1 H2 H3 H4 H5 H6 H7] He. constructor; intros; cbn [set_aam trm aam ramm samm kamm damm ddam];
    unfold s_ts_anns, s_ann_anns, s_res_meta, s_set_meta, s_key_meta, s_data_meta, s_data_anns in *;
    rewrite scan_scanl; cbn [set_aam anns];
    try first [apply H1|apply H3|apply H4|apply H5|apply H6|apply H7; assumption].
  rewrite rget_rclear. destruct (a =? h) eqn:E; [|apply H2].
  assert (a = h) by lia. subst a. change (scanl (anns s) (has_leaf (on_ann h))) with (scan s (has_leaf (on_ann h))).
  rewrite <- H2. symmetry. exact He.
Qed.

Lemma wf_targets_sub s s' :
  wf_targets s -> (forall x a, get_ann s' x = Some a -> get_ann s x = Some a) -> wf_targets s'.
Proof. intros Hwf Hsub x a Ha. apply (Hwf x a). apply Hsub. exact Ha. Qed.

Theorem remove_ann_Post ex : forall fuel s h,
  InvE ex s -> wf_targets s -> length (anns s) - h < fuel ->
  let '(s', r) := remove_ann fuel s h in
  Post ex h s s'
  /\ (forall a, get_ann s h = Some a -> get_ann s' h = None /\ r = OOk h)
  /\ (get_ann s h = None -> s' = s).
Proof.
  induction fuel as [|fuel IH]; intros s h HI Hwf Hfuel; [lia|].
  cbn [remove_ann]. destruct (get_ann s h) as [a0|] eqn:Eh.
  2:{ split; [apply Post_refl; assumption|]. split; [intros a Ha; discriminate|reflexivity]. }
  pose proof (get_ann_lt s h a0 Eh) as Hlt.
  (* the fold over the referrers *)
  assert (Fold : forall L s1, (forall c, In c L -> h < c) -> Post ex (S h) s s1 ->
            let s2 := fold_left (fun s c => fst (remove_ann fuel s c)) L s1 in
            Post ex (S h) s s2 /\ (forall c, In c L -> get_ann s2 c = None)).
  { induction L as [|c L IHL]; intros s1 HL P1; cbn [fold_left].
    - split; [exact P1|intros c []].
    - assert (Hc : h < c) by (apply HL; left; reflexivity).
      pose proof (IH s1 c (P_inv _ _ _ _ P1) (P_wf _ _ _ _ P1)) as IHc.
      rewrite (P_len _ _ _ _ P1) in IHc. specialize (IHc ltac:(lia)).
      destruct (remove_ann fuel s1 c) as [s1' r1] eqn:Er. destruct IHc as (Pc & Hlive & Hdead). cbn [fst].
      assert (P1' : Post ex (S h) s s1') by (apply (Post_trans ex (S h) c s s1 s1'); [lia|exact P1|exact Pc]).
      specialize (IHL s1' (fun c' Hc' => HL c' (or_intror Hc')) P1'). cbv zeta in IHL.
      destruct IHL as (P2 & Hall). split; [exact P2|].
      intros c' [<-|Hc']; [|apply Hall; exact Hc'].
      assert (Hd : get_ann s1' c = None).
      { destruct (get_ann s1 c) as [ac|] eqn:Ec; [apply (Hlive ac eq_refl)|rewrite (Hdead eq_refl); exact Ec]. }
      (* once dead, stays dead through the rest of the fold *)
      assert (Hrest : forall L s1', (forall c', In c' L -> h < c') -> Post ex (S h) s s1' ->
                 dead_stays s1' (fold_left (fun s c => fst (remove_ann fuel s c)) L s1')).
      { clear - IH Hlt Hfuel. induction L as [|c2 L IHL2]; intros s1' HL P1 x Hx; cbn [fold_left]; [exact Hx|].
        assert (Hc2 : h < c2) by (apply HL; left; reflexivity).
        pose proof (IH s1' c2 (P_inv _ _ _ _ P1) (P_wf _ _ _ _ P1)) as IHc.
        rewrite (P_len _ _ _ _ P1) in IHc. specialize (IHc ltac:(lia)).
        destruct (remove_ann fuel s1' c2) as [s1'' r2]. destruct IHc as (Pc & _ & _). cbn [fst].
        apply (IHL2 s1'' (fun c' Hc' => HL c' (or_intror Hc'))).
        - apply (Post_trans ex (S h) c2 s s1' s1''); [lia|exact P1|exact Pc].
        - apply (Post_dead _ _ _ _ Pc). exact Hx. }
      apply (Hrest L s1' (fun c' Hc' => HL c' (or_intror Hc')) P1'). exact Hd. }
  specialize (Fold (rget (aam s) h) s (fun c Hc => referrers_gt ex s h c HI Hwf Hc) (Post_refl ex (S h) s HI Hwf)).
  cbv zeta in Fold. set (s1 := fold_left (fun s c => fst (remove_ann fuel s c)) (rget (aam s) h) s) in *.
  destruct Fold as (P1 & Hall).
  (* h is still there, unchanged; nothing alive targets it any more *)
  assert (Eh1 : get_ann s1 h = Some a0) by (rewrite (P_low _ _ _ _ P1 h ltac:(lia)); exact Eh).
  assert (Hrow : rget (aam s1) h = []).
  { rewrite (I_aam ex s1 (P_inv _ _ _ _ P1)). unfold s_ann_anns. rewrite scan_scanl.
    destruct (scanl (anns s1) (has_leaf (on_ann h))) as [|x l] eqn:E; [reflexivity|exfalso].
    assert (Hx : In x (scanl (anns s1) (has_leaf (on_ann h)))) by (rewrite E; left; reflexivity).
    apply scanl_In in Hx. destruct Hx as (ax & Hax & HPx).
    assert (Hin : In x (rget (aam s) h)).
    { rewrite (I_aam ex s HI). unfold s_ann_anns. rewrite scan_scanl. apply scanl_In. exists ax.
      split; [apply (P_sub _ _ _ _ P1 x ax Hax)|exact HPx]. }
    specialize (Hall x Hin). unfold get_ann in Hall. congruence. }
  pose proof (Inv_rclear_empty ex s1 h (P_inv _ _ _ _ P1) Hrow) as HI2.
  set (s2 := set_aam s1 (rclear (aam s1) h)) in *.
  assert (Eh2 : get_ann s2 h = Some a0) by exact Eh1.
  rewrite Eh2.
  set (s3 := unindex_ann s2 h a0).
  destruct (ufold_data_frame h (a_data a0) s2) as (F0&_&_&_&_&_&_&F7&F8&F9&F10&F11).
  destruct (ufold_leaves_frame h (a_leaves a0) (fold_left (unindex_datum h) (a_data a0) s2)) as (_&G1&G2&G3&G4&G5&G6).
  assert (Hanns3 : anns s3 = anns s1).
  { unfold s3. rewrite unindex_ann_unfold. rewrite G1, F0. reflexivity. }
  assert (Hframe3 : sets s3 = sets s1 /\ ress s3 = ress s1 /\ sidx s3 = sidx s1 /\ ridx s3 = ridx s1).
  { unfold s3. rewrite unindex_ann_unfold. repeat split; [rewrite G2, F7|rewrite G3, F8|rewrite G5, F10|rewrite G6, F11]; reflexivity. }
  pose proof (remove_self_Inv ex s2 h a0 HI2 Eh2) as HIf. cbv zeta in HIf. fold s3 in HIf.
  (* the final state *)
  match goal with |- Post ex h s ?sf /\ _ => set (sfin := sf) end.
  assert (Hfin_anns : anns sfin = set_slot (anns s1) h None).
  { unfold sfin. destruct (a_id a0); cbn [set_anns set_aidx anns]; rewrite Hanns3; reflexivity. }
  assert (Hget : forall x, get_ann sfin x = if x =? h then None else get_ann s1 x).
  { intros x. unfold get_ann. rewrite Hfin_anns, slot_set_slot.
    rewrite (P_len _ _ _ _ P1). destruct (x =? h) eqn:E; cbn [andb]; [|reflexivity].
    destruct (h <? length (anns s)) eqn:E2; [reflexivity|lia]. }
  assert (Hsub : forall x a, get_ann sfin x = Some a -> get_ann s x = Some a).
  { intros x a Hx. rewrite Hget in Hx. destruct (x =? h); [discriminate|]. apply (P_sub _ _ _ _ P1). exact Hx. }
  split; [|split].
  - constructor.
    + unfold sfin. destruct (a_id a0) as [tok|].
      * exact (HIf (id_del (aidx s3) tok)).
      * replace s3 with (set_aidx s3 (aidx s3)) by (destruct s3; reflexivity). exact (HIf (aidx s3)).
    + apply (wf_targets_sub s sfin Hwf Hsub).
    + rewrite Hfin_anns, length_set_slot. apply (P_len _ _ _ _ P1).
    + exact Hsub.
    + intros x Hx. rewrite Hget. destruct (x =? h) eqn:E; [lia|]. apply (P_low _ _ _ _ P1). lia.
    + intros Hrefs y a Hy lf Hlf. rewrite Hget in Hy. destruct (y =? h) eqn:Ey; [discriminate|].
      pose proof (P_closed _ _ _ _ P1 Hrefs y a Hy lf Hlf) as H1.
      assert (Hnot : on_ann h lf = true -> False).
      { intros Hon. assert (Hin : In y (scan s1 (has_leaf (on_ann h)))).
        { rewrite scan_scanl. apply scanl_In. exists a. split; [exact Hy|]. unfold has_leaf. apply existsb_exists. exists lf. tauto. }
        change (scan s1 (has_leaf (on_ann h))) with (s_ann_anns s1 h) in Hin.
        rewrite <- (I_aam ex s1 (P_inv _ _ _ _ P1)) in Hin. rewrite Hrow in Hin. destruct Hin. }
      destruct lf; try exact I; rewrite Hget;
        (match goal with |- (if ?t =? h then _ else _) <> None =>
           destruct (t =? h) eqn:Et; [exfalso; apply Hnot; cbn [on_ann]; exact Et|exact H1] end).
    + destruct Hframe3 as (A1&A2&A3&A4). destruct (P_frame _ _ _ _ P1) as (B1&B2&B3&B4).
      unfold sfin. destruct (a_id a0); cbn [set_anns set_aidx sets ress sidx ridx]; repeat split; congruence.
  - intros a _. split; [rewrite Hget, Nat.eqb_refl; reflexivity|reflexivity].
  - intros Hn. discriminate.
Qed.
