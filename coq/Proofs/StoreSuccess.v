(* C02, "succeeds whenever the item exists": each of the five removals reports Ok for a request
   that names an existing item, in any store (no invariant is needed: the cascades do not touch
   resources, datasets or their id maps). *)
From Stam Require Import Base.Tac Base.ListAux Model.Offset Model.Store Model.StoreObs Spec.StoreSpec
     Proofs.RelMap Proofs.StoreScan Proofs.StoreInv Proofs.StoreDataDef Proofs.StoreRemove Proofs.StoreRemove2
     Proofs.StoreRemove3 Proofs.StoreItems Proofs.StoreSets.

Lemma ref_ann_live s r h : ref_ann s r = Some h -> exists a, get_ann s h = Some a.
Proof.
  unfold ref_ann, resolve_ref, get_ann. destruct r as [tok|h0].
  - destruct (id_get (aidx s) tok) as [h1|]; [|discriminate]. destruct (slot (anns s) h1) as [x|] eqn:E; [|discriminate].
    intros H; inversion H; subst. exists x. exact E.
  - destruct (slot (anns s) h0) as [x|] eqn:E; [|discriminate]. intros H; inversion H; subst. exists x. exact E.
Qed.

(* remove_annotation: needs the index invariant only to know that the cascade terminates on h *)
Theorem rm_annotation_ok ex s r h : InvE ex s -> wf_targets s -> ref_ann s r = Some h -> snd (rm_annotation s r) = OOk h.
Proof.
  intros HI Hwf Hr. unfold rm_annotation. rewrite Hr. destruct (ref_ann_live s r h Hr) as (a & Ha).
  pose proof (remove_ann_Post ex (fuel_of s) s h HI Hwf (fuel_ok s h)) as R.
  destruct (remove_ann (fuel_of s) s h) as [s' o]. destruct R as (_ & Hl & _). apply (Hl a Ha).
Qed.

Theorem rm_resource_ok s r h : ref_res s r = Some h -> snd (rm_resource s r) = OOk h.
Proof.
  intros Hr. unfold rm_resource. rewrite Hr. destruct (ref_res_live s r h Hr) as (rs & Hrs).
  destruct (remove_anns_frame (rget (ramm s) h) s) as (_&A1&_).
  set (s1 := remove_anns s (rget (ramm s) h)) in *.
  destruct (remove_anns_frame (sort_dedup (concat (nth h (trm s1) []))) s1) as (_&A2&_).
  set (s2 := remove_anns s1 _) in *.
  set (s3 := set_trm _ _).
  assert (E3 : get_res s3 h = Some rs) by (unfold get_res, s3; cbn [set_trm set_ramm ress]; rewrite A2, A1; exact Hrs).
  rewrite E3. reflexivity.
Qed.

Theorem rm_dataset_ok s r h : ref_set s r = Some h -> snd (rm_dataset s r) = OOk h.
Proof.
  intros Hr. unfold rm_dataset. rewrite Hr. destruct (ref_set_live s r h Hr) as (ds & Hds).
  set (users := filter _ (live_handles (anns s))).
  destruct (remove_anns_frame users s) as (A1&_). set (s1 := remove_anns s users) in *.
  destruct (remove_anns_frame (rget (samm s1) h) s1) as (A2&_). set (s2 := remove_anns s1 (rget (samm s1) h)) in *.
  set (s3 := set_samm s2 (rclear (samm s2) h)).
  set (metas := sort_dedup _).
  destruct (remove_anns_frame metas s3) as (A4&_). set (s4 := remove_anns s3 metas) in *.
  set (s5 := set_ddam _ _).
  assert (E5 : get_set s5 h = Some ds).
  { unfold get_set, s5. cbn [set_ddam set_damm set_kamm sets]. rewrite A4. unfold s3. cbn [set_samm sets]. rewrite A2, A1. exact Hds. }
  rewrite E5. reflexivity.
Qed.

Theorem remove_data_h_ok s d x strict ds it :
  get_set s d = Some ds -> slot (d_data ds) x = Some it -> snd (remove_data_h s d x strict) = OOk x.
Proof.
  intros Hds Hx. rewrite remove_data_h_unfold. cbv zeta.
  assert (F : forall us s0, sets (fold_left (strip_step d x strict) us s0) = sets s0).
  { induction us as [|a us IH]; intros s0; cbn [fold_left]; [reflexivity|]. rewrite IH. unfold strip_step. destruct strict.
    - apply remove_ann_frame.
    - destruct (get_ann s0 a) as [an|]; [|reflexivity].
      set (s' := set_anns s0 _). destruct (a_data (ann_remove_data an d x)); [destruct (a_data an)|]; try reflexivity.
      destruct (remove_ann_frame (fuel_of s') s' a) as (E&_). exact E. }
  set (s1 := fold_left (strip_step d x strict) (tget (ddam s) d x) s).
  destruct (remove_anns_frame (tget (damm s1) d x) s1) as (A2&_).
  set (s2 := remove_anns s1 (tget (damm s1) d x)) in *.
  assert (E3 : get_set (set_damm s2 (tclear2 (damm s2) d x)) d = Some ds).
  { unfold get_set. cbn [set_damm sets]. rewrite A2. unfold s1. rewrite F. exact Hds. }
  rewrite E3, Hx. reflexivity.
Qed.

Theorem rm_data_ok s dr xr strict d ds x it :
  to_handle (sidx s) dr = Some d -> get_set s d = Some ds -> to_handle (d_xidx ds) xr = Some x ->
  slot (d_data ds) x = Some it -> snd (rm_data s dr xr strict) = OOk x.
Proof.
  intros Hd Hds Hx Hit. unfold rm_data. rewrite Hd, Hds, Hx. apply (remove_data_h_ok s d x strict ds it Hds Hit).
Qed.

Theorem rm_key_ok s dr kr strict d ds k tok :
  to_handle (sidx s) dr = Some d -> get_set s d = Some ds -> to_handle (d_kidx ds) kr = Some k ->
  slot (d_keys ds) k = Some tok -> snd (rm_key s dr kr strict) = OOk k.
Proof.
  intros Hd Hds Hk Htok. unfold rm_key. rewrite Hd, Hds, Hk.
  destruct (fold_remove_data_sets d strict (rget (d_k2x ds) k) s ds Hds) as (ds1 & A1 & A2 & _). cbv zeta in A1.
  rewrite A1, A2, Htok. reflexivity.
Qed.
