(* The search from an iterator of text selections (TextSelectionIterator::related_text): every
   reference asked on its own, results gathered, sorted, duplicates dropped.  It returns exactly
   the known selections related to SOME reference, each once. *)
From Coq Require Import List Arith Bool Lia Sorting.Sorted.
Import ListNotations.
From Stam Require Import Base.Tac Model.Rel Model.Search Model.Handles Proofs.Rel Proofs.Handles Proofs.Search.

Lemma nondecr_cons x l :
  nondecr (x :: l) = true <-> (match l with [] => True | y :: _ => x <= y end) /\ nondecr l = true.
Proof. destruct l as [|y r]; cbn [nondecr]; [tauto|]. rewrite andb_true_iff, Nat.leb_le. tauto. Qed.

Lemma insert_nondecr x l : nondecr l = true -> nondecr (insert_sorted x l) = true.
Proof.
  induction l as [|y l IH]; intros H; cbn [insert_sorted]; [reflexivity|].
  destruct (x <=? y) eqn:E.
  - apply nondecr_cons. split; [apply Nat.leb_le; exact E|exact H].
  - apply Nat.leb_gt in E. apply nondecr_cons in H. destruct H as [H1 H2]. apply nondecr_cons. split; [|apply IH; exact H2].
    destruct l as [|z l']; cbn [insert_sorted]; [lia|]. destruct (x <=? z); lia.
Qed.

Lemma sort_nondecr l : nondecr (sort l) = true.
Proof. induction l as [|x l IH]; [reflexivity|]. unfold sort in *. cbn [fold_right]. apply insert_nondecr. exact IH. Qed.

Lemma dedup_adj_cons x y r : dedup_adj (x :: y :: r) = if Nat.eqb x y then dedup_adj (y :: r) else x :: dedup_adj (y :: r).
Proof. reflexivity. Qed.

Lemma dedup_adj_In z l : In z (dedup_adj l) <-> In z l.
Proof.
  induction l as [|x l IH]; [tauto|]. destruct l as [|y r]; [tauto|].
  rewrite dedup_adj_cons. destruct (Nat.eqb x y) eqn:E.
  - apply Nat.eqb_eq in E. subst y. rewrite IH. cbn [In]. tauto.
  - cbn [In] in *. rewrite IH. tauto.
Qed.

Lemma dedup_adj_head x l : nondecr (x :: l) = true -> Forall (le x) (dedup_adj (x :: l)).
Proof.
  revert x. induction l as [|y r IH]; intros x H; [constructor; [lia|constructor]|].
  cbn [nondecr] in H. apply andb_prop in H. destruct H as [H1 H2]. apply Nat.leb_le in H1.
  rewrite dedup_adj_cons. specialize (IH y H2).
  assert (F : Forall (le x) (dedup_adj (y :: r))) by (eapply Forall_impl; [|exact IH]; intros a Ha; lia).
  destruct (Nat.eqb x y); [exact F|constructor; [lia|exact F]].
Qed.

Lemma dedup_adj_ssorted l : nondecr l = true -> ssorted (dedup_adj l).
Proof.
  induction l as [|x l IH]; intros H; [constructor|]. destruct l as [|y r]; [constructor; constructor|].
  pose proof H as H0. cbn [nondecr] in H. apply andb_prop in H. destruct H as [H1 H2]. apply Nat.leb_le in H1.
  rewrite dedup_adj_cons. specialize (IH H2). destruct (Nat.eqb x y) eqn:E; [exact IH|].
  apply Nat.eqb_neq in E. constructor; [exact IH|].
  pose proof (dedup_adj_head y r H2) as F. eapply Forall_impl; [|exact F]. intros a Ha. cbn beta in Ha. lia.
Qed.

Lemma gather_In f refs h : In h (gather f refs) <-> exists r, In r refs /\ In h (f r).
Proof. unfold gather. rewrite dedup_adj_In, sort_In, in_flat_map. tauto. Qed.

Lemma gather_ssorted f refs : ssorted (gather f refs).
Proof. apply dedup_adj_ssorted, sort_nondecr. Qed.

Section WithText.
  Variable ws : list bool.

  Lemma single_ok r : wf r -> set_ok (mkset [r] false) /\ items (mkset [r] false) <> [].
  Proof.
    intros W. split; [|discriminate]. split; [discriminate|]. constructor; [exact W|constructor].
  Qed.

  (* exactly the known selections related to some reference ... *)
  Theorem search_each_exact o refs K len h : generic o -> Forall wf refs -> known_ok K len ->
    (In h (search_each ws o refs K len) <-> exists r, In r refs /\ In h (related ws o (mkset [r] false) K)).
  Proof.
    intros G W HK. unfold search_each. rewrite gather_In. rewrite Forall_forall in W. split.
    - intros (r & Hr & Hh). exists r. split; [exact Hr|]. apply (search_sound ws o _ K len h G Hh).
    - intros (r & Hr & Hh). exists r. split; [exact Hr|]. destruct (single_ok r (W r Hr)) as (S1 & S2).
      apply (search_complete ws o _ K len h G S1 S2 HK Hh).
  Qed.

  (* ... each once, in handle order *)
  Theorem search_each_once o refs K len : NoDup (search_each ws o refs K len).
  Proof. apply ssorted_nodup, gather_ssorted. Qed.
End WithText.
