(* C02, exactness of the cascade: remove_annotation removes the annotation and exactly the
   annotations that reach it through "targets an annotation" edges - the dependency closure of
   Spec/StoreSpec.v. *)
From Stam Require Import Base.Tac Base.ListAux Model.Offset Model.Store Model.StoreObs Spec.StoreSpec
     Proofs.RelMap Proofs.StoreScan Proofs.StoreInv Proofs.StoreDataDef Proofs.StoreRemove Proofs.StoreRemove2.

(* x reaches a root in D by following "x targets y" edges between live annotations *)
Inductive reach (s : store) (D : list nat) : nat -> Prop :=
| reach_base x : In x D -> reach s D x
| reach_step x y a : get_ann s x = Some a -> has_leaf (on_ann y) a = true -> reach s D y -> reach s D x.

Lemma reach_mono s s' D x :
  (forall y a, get_ann s' y = Some a -> get_ann s y = Some a) -> reach s' D x -> reach s D x.
Proof.
  intros Hsub H. induction H as [x Hx|x y a Ha Hl _ IH]; [apply reach_base; exact Hx|].
  apply (reach_step s D x y a (Hsub x a Ha) Hl IH).
Qed.

(* every root in D itself reaches D' : then so does everything that reaches D *)
Lemma reach_trans s D D' x : (forall c, In c D -> reach s D' c) -> reach s D x -> reach s D' x.
Proof.
  intros HD H. induction H as [x Hx|x y a Ha Hl _ IH]; [apply HD; exact Hx|].
  apply (reach_step s D' x y a Ha Hl IH).
Qed.

Lemma live_dec s x : {get_ann s x = None} + {get_ann s x <> None}.
Proof. destruct (get_ann s x); [right; discriminate|left; reflexivity]. Qed.

(** only dependants are removed *)
Theorem remove_ann_only ex : forall fuel s h,
  InvE ex s -> wf_targets s -> length (anns s) - h < fuel ->
  forall x, get_ann s x <> None -> get_ann (fst (remove_ann fuel s h)) x = None -> reach s [h] x.
Proof.
  induction fuel as [|fuel IH]; intros s h HI Hwf Hfuel x Hlive Hdead; [lia|].
  pose proof (remove_ann_Post ex (S fuel) s h HI Hwf Hfuel) as RP.
  cbn [remove_ann] in *. destruct (get_ann s h) as [a0|] eqn:Eh; [|cbn [fst] in Hdead; contradiction].
  pose proof (get_ann_lt s h a0 Eh) as Hlt.
  (* what the fold over the referrers kills reaches one of the referrers *)
  assert (Fold : forall L s1, (forall c, In c L -> h < c) -> Post ex (S h) s s1 ->
            forall x, get_ann s1 x <> None ->
            get_ann (fold_left (fun s c => fst (remove_ann fuel s c)) L s1) x = None ->
            exists c, In c L /\ reach s [c] x).
  { induction L as [|c L IHL]; intros s1 HL P1 y Hy Hd; cbn [fold_left] in Hd; [contradiction|].
    assert (Hc : h < c) by (apply HL; left; reflexivity).
    pose proof (IH s1 c (P_inv _ _ _ _ P1) (P_wf _ _ _ _ P1)) as IHc. rewrite (P_len _ _ _ _ P1) in IHc.
    specialize (IHc ltac:(lia)).
    pose proof (remove_ann_Post ex fuel s1 c (P_inv _ _ _ _ P1) (P_wf _ _ _ _ P1)) as RPc.
    rewrite (P_len _ _ _ _ P1) in RPc. specialize (RPc ltac:(lia)).
    destruct (remove_ann fuel s1 c) as [s1' r1] eqn:Er. destruct RPc as (Pc & _ & _). cbn [fst] in *.
    destruct (live_dec s1' y) as [Hd1|Hl1].
    - exists c. split; [left; reflexivity|]. apply (reach_mono s s1 [c] y (P_sub _ _ _ _ P1)). apply (IHc y Hy Hd1).
    - assert (P1' : Post ex (S h) s s1') by (apply (Post_trans ex (S h) c s s1 s1'); [lia|exact P1|exact Pc]).
      destruct (IHL s1' (fun c' Hc' => HL c' (or_intror Hc')) P1' y Hl1 Hd) as (c' & Hin & Hr).
      exists c'. split; [right; exact Hin|exact Hr]. }
  set (L := rget (aam s) h) in *.
  set (s1 := fold_left (fun s c => fst (remove_ann fuel s c)) L s) in *.
  set (s2 := set_aam s1 (rclear (aam s1) h)) in *.
  (* every referrer in L targets h *)
  assert (HL : forall c, In c L -> reach s [h] c).
  { intros c Hc. unfold L in Hc. rewrite (I_aam ex s HI) in Hc. unfold s_ann_anns in Hc. apply scan_member in Hc.
    destruct Hc as (a & Ha & Hl). apply (reach_step s [h] c h a Ha Hl). apply reach_base. left; reflexivity. }
  destruct (Nat.eq_dec x h) as [->|Hne]; [apply reach_base; left; reflexivity|].
  (* x <> h: it died in the fold *)
  assert (Hd1 : get_ann s1 x = None).
  { destruct (get_ann s2 h) as [a|] eqn:E2; cbn [fst] in Hdead.
    - unfold get_ann in Hdead. destruct (a_id a); cbn [set_anns set_aidx anns] in Hdead; rewrite slot_set_slot in Hdead;
        (destruct ((x =? h) && _) eqn:E; [lia|]);
        destruct (ufold_data_frame h (a_data a) s2) as (F0&_);
        destruct (ufold_leaves_frame h (a_leaves a) (fold_left (unindex_datum h) (a_data a) s2)) as (_&G1&_);
        rewrite unindex_ann_unfold, G1, F0 in Hdead; exact Hdead.
    - exact Hdead. }
  destruct (Fold L s (fun c Hc => referrers_gt ex s h c HI Hwf Hc) (Post_refl ex (S h) s HI Hwf) x Hlive Hd1) as (c & Hin & Hr).
  apply (reach_trans s [c] [h] x); [|exact Hr]. intros c' [<-|[]]. apply HL. exact Hin.
Qed.

(** all dependants are removed *)
Theorem remove_ann_all ex fuel s h :
  InvE ex s -> wf_targets s -> ann_refs_ok s -> length (anns s) - h < fuel -> get_ann s h <> None ->
  forall x, reach s [h] x -> get_ann (fst (remove_ann fuel s h)) x = None.
Proof.
  intros HI Hwf Hrf Hfuel Hh x Hr.
  pose proof (remove_ann_Post ex fuel s h HI Hwf Hfuel) as RP.
  destruct (remove_ann fuel s h) as [s' r]. destruct RP as (P & Hlive & _). cbn [fst].
  pose proof (P_closed _ _ _ _ P Hrf) as Hrf'.
  induction Hr as [x Hx|x y a Ha Hl _ IH].
  - destruct Hx as [<-|[]]. destruct (get_ann s h) as [a|]; [apply (Hlive a eq_refl)|contradiction].
  - destruct (get_ann s' x) as [a'|] eqn:E; [|reflexivity]. exfalso.
    pose proof (P_sub _ _ _ _ P x a' E) as Hs. rewrite Ha in Hs. inversion Hs; subst a'.
    unfold has_leaf in Hl. apply existsb_exists in Hl. destruct Hl as (lf & Hlf & Hon).
    pose proof (Hrf' x a E lf Hlf) as H0.
    destruct lf; cbn [on_ann] in Hon; try discriminate; apply Nat.eqb_eq in Hon; subst; apply H0; exact IH.
Qed.

(** exactly the dependants: in a good store, after remove_annotation of a live annotation h,
    a previously live annotation is gone iff it reaches h *)
Theorem remove_ann_exact s h :
  Inv s -> wf_targets s -> ann_refs_ok s -> get_ann s h <> None ->
  forall x, get_ann s x <> None ->
    (get_ann (fst (remove_ann (fuel_of s) s h)) x = None <-> reach s [h] x).
Proof.
  intros HI Hwf Hrf Hh x Hx. split.
  - apply (remove_ann_only noex (fuel_of s) s h HI Hwf (fuel_ok s h) x Hx).
  - apply (remove_ann_all noex (fuel_of s) s h HI Hwf Hrf (fuel_ok s h) Hh).
Qed.

(** * the executable dependency closure of the specification computes [reach] *)
Definition Fstep (s : store) (D : list nat) : list nat :=
  filter (fun h => existsb (Nat.eqb h) D
                   || match get_ann s h with Some a => targets_any D a | None => false end)
         (seq 0 (length (anns s))).

Lemma close_unfold f s D : close (S f) s D = close f s (Fstep s D).
Proof. reflexivity. Qed.

Lemma close_comm f : forall s D, close (S f) s D = Fstep s (close f s D).
Proof.
  induction f as [|f IH]; intros s D; [reflexivity|].
  rewrite close_unfold, IH. reflexivity.
Qed.

Lemma Fstep_In s D x : In x (Fstep s D) <->
  x < length (anns s) /\ (In x D \/ exists a y, get_ann s x = Some a /\ has_leaf (on_ann y) a = true /\ In y D).
Proof.
  unfold Fstep. rewrite filter_In, in_seq, orb_true_iff. split.
  - intros [Hx [H|H]]; (split; [lia|]).
    + left. apply existsb_exists in H. destruct H as (z & Hz & Hq). apply Nat.eqb_eq in Hq. subst z. exact Hz.
    + right. destruct (get_ann s x) as [a|]; [|discriminate]. unfold targets_any, has_leaf in H.
      apply existsb_exists in H. destruct H as (lf & Hlf & Hq).
      destruct lf; try discriminate; apply existsb_exists in Hq; destruct Hq as (z & Hz & Hq); apply Nat.eqb_eq in Hq; subst z;
        exists a; eexists; (split; [reflexivity|]); (split; [|exact Hz]);
        unfold has_leaf; apply existsb_exists; eexists; (split; [exact Hlf|]); cbn [on_ann]; apply Nat.eqb_refl.
  - intros [Hx [H|(a & y & Ha & Hl & Hy)]]; (split; [lia|]).
    + left. apply existsb_exists. exists x. split; [exact H|apply Nat.eqb_refl].
    + right. rewrite Ha. unfold targets_any, has_leaf in *. apply existsb_exists in Hl. destruct Hl as (lf & Hlf & Hq).
      apply existsb_exists. exists lf. split; [exact Hlf|].
      destruct lf; cbn [on_ann] in Hq; try discriminate; apply Nat.eqb_eq in Hq; subst;
        apply existsb_exists; exists y; (split; [exact Hy|apply Nat.eqb_refl]).
Qed.

Lemma close_persist f : forall s D x, x < length (anns s) -> In x D -> In x (close f s D).
Proof.
  induction f as [|f IH]; intros s D x Hx Hin; [exact Hin|].
  rewrite close_unfold. apply IH; [exact Hx|]. apply Fstep_In. split; [exact Hx|left; exact Hin].
Qed.

Lemma close_grow f g s D x : f <= g -> x < length (anns s) -> In x (close f s D) -> In x (close g s D).
Proof.
  intros Hfg Hx. induction Hfg as [|g Hle IH]; [tauto|].
  intros H. rewrite close_comm. apply Fstep_In. split; [exact Hx|left; apply IH; exact H].
Qed.

Lemma close_sound f : forall s D x, In x (close f s D) -> In x D \/ reach s D x.
Proof.
  induction f as [|f IH]; intros s D x H; [left; exact H|].
  rewrite close_unfold in H. destruct (IH s (Fstep s D) x H) as [H1|H1].
  - apply Fstep_In in H1. destruct H1 as [_ [H1|(a & y & Ha & Hl & Hy)]]; [left; exact H1|].
    right. apply (reach_step s D x y a Ha Hl). apply reach_base. exact Hy.
  - right. apply (reach_trans s (Fstep s D) D x); [|exact H1].
    intros c Hc. apply Fstep_In in Hc. destruct Hc as [_ [Hc|(a & y & Ha & Hl & Hy)]]; [apply reach_base; exact Hc|].
    apply (reach_step s D c y a Ha Hl). apply reach_base. exact Hy.
Qed.

Lemma close_complete s D x : wf_targets s -> reach s D x -> x < length (anns s) -> In x (close (S x) s D).
Proof.
  intros Hwf H. induction H as [x Hx|x y a Ha Hl Hr IH]; intros Hlt.
  - apply close_persist; assumption.
  - assert (Hy : y < x).
    { unfold has_leaf in Hl. apply existsb_exists in Hl. destruct Hl as (lf & Hlf & Hq).
      pose proof (Hwf x a Ha) as Hf. rewrite Forall_forall in Hf. specialize (Hf lf Hlf).
      destruct lf; cbn [on_ann leaf_lt] in *; try discriminate; apply Nat.eqb_eq in Hq; subst; exact Hf. }
    rewrite close_comm. apply Fstep_In. split; [exact Hlt|]. right. exists a, y. split; [exact Ha|]. split; [exact Hl|].
    apply (close_grow (S y) x s D y); [lia|lia|]. apply IH. lia.
Qed.

Theorem closure_is_reach s D x : wf_targets s -> x < length (anns s) ->
  (In x (closure s D) <-> In x D \/ reach s D x).
Proof.
  intros Hwf Hx. unfold closure. split; [apply close_sound|].
  intros [H|H].
  - apply close_persist; assumption.
  - apply (close_grow (S x) (length (anns s)) s D x); [lia|exact Hx|]. apply close_complete; assumption.
Qed.

(** the removal specification of Spec/RemovalSpec.v for annotations, proved *)
Theorem remove_annotation_is_deps s h :
  Inv s -> wf_targets s -> ann_refs_ok s -> get_ann s h <> None ->
  forall x, get_ann s x <> None ->
    (get_ann (fst (remove_ann (fuel_of s) s h)) x = None <-> In x (deps_ann s h)).
Proof.
  intros HI Hwf Hrf Hh x Hx. rewrite (remove_ann_exact s h HI Hwf Hrf Hh x Hx).
  assert (Hlt : x < length (anns s)) by (destruct (get_ann s x) as [a|] eqn:E; [apply (get_ann_lt s x a E)|contradiction]).
  unfold deps_ann. rewrite (closure_is_reach s [h] x Hwf Hlt). split; [tauto|].
  intros [H|H]; [apply reach_base; exact H|exact H].
Qed.
