(* C02, exactness of the cascade: remove_annotation removes the annotation and exactly the
   annotations that reach it through "targets an annotation" edges - the dependency closure of
   Spec/StoreSpec.v. *)
From Stam Require Import Base.Tac Base.ListAux Model.Offset Model.Store Model.StoreObs Spec.StoreSpec
     Proofs.RelMap Proofs.StoreScan Proofs.StoreInv Proofs.StoreDataDef Proofs.StoreRemove Proofs.StoreRemove2.

(* x reaches a root in D by following "x targets y" edges between live annotations *)
Inductive reach (s : store) (D : list nat) : nat -> Prop :=
| reach_base x : In x D -> reach s D x
| reach_step x y a : get_ann s x = Some a -> has_leaf (on_ann y) a = true -> reach s D y -> reach s D x.

Lemma reach_mono s s' D x :
  (forall y a, get_ann s' y = Some a -> get_ann s y = Some a) -> reach s' D x -> reach s D x.
Proof.
  intros Hsub H. induction H as [x Hx|x y a Ha Hl _ IH]; [apply reach_base; exact Hx|].
  apply (reach_step s D x y a (Hsub x a Ha) Hl IH).
Qed.

(* every root in D itself reaches D' : then so does everything that reaches D *)
Lemma reach_trans s D D' x : (forall c, In c D -> reach s D' c) -> reach s D x -> reach s D' x.
Proof.
  intros HD H. induction H as [x Hx|x y a Ha Hl _ IH]; [apply HD; exact Hx|].
  apply (reach_step s D' x y a Ha Hl IH).
Qed.

Lemma live_dec s x : {get_ann s x = None} + {get_ann s x <> None}.
Proof. destruct (get_ann s x); [right; discriminate|left; reflexivity]. Qed.

(** only dependants are removed *)
Theorem remove_ann_only ex : forall fuel s h,
  InvE ex s -> wf_targets s -> length (anns s) - h < fuel ->
  forall x, get_ann s x <> None -> get_ann (fst (remove_ann fuel s h)) x = None -> reach s [h] x.
Proof.
  induction fuel as [|fuel IH]; intros s h HI Hwf Hfuel x Hlive Hdead; [lia|].
  pose proof (remove_ann_Post ex (S fuel) s h HI Hwf Hfuel) as RP.
  cbn [remove_ann] in *. destruct (get_ann s h) as [a0|] eqn:Eh; [|cbn [fst] in Hdead; contradiction].
  pose proof (get_ann_lt s h a0 Eh) as Hlt.
  (* what the fold over the referrers kills reaches one of the referrers *)
  assert (Fold : forall L s1, (forall c, In c L -> h < c) -> Post ex (S h) s s1 ->
            forall x, get_ann s1 x <> None ->
            get_ann (fold_left (fun s c => fst (remove_ann fuel s c)) L s1) x = None ->
            exists c, In c L /\ reach s [c] x).
  { induction L as [|c L IHL]; intros s1 HL P1 y Hy Hd; cbn [fold_left] in Hd; [contradiction|].
    assert (Hc : h < c) by (apply HL; left; reflexivity).
    pose proof (IH s1 c (P_inv _ _ _ _ P1) (P_wf _ _ _ _ P1)) as IHc. rewrite (P_len _ _ _ _ P1) in IHc.
    specialize (IHc ltac:(lia)).
    pose proof (remove_ann_Post ex fuel s1 c (P_inv _ _ _ _ P1) (P_wf _ _ _ _ P1)) as RPc.
    rewrite (P_len _ _ _ _ P1) in RPc. specialize (RPc ltac:(lia)).
    destruct (remove_ann fuel s1 c) as [s1' r1] eqn:Er. destruct RPc as (Pc & _ & _). cbn [fst] in *.
    destruct (live_dec s1' y) as [Hd1|Hl1].
    - exists c. split; [left; reflexivity|]. apply (reach_mono s s1 [c] y (P_sub _ _ _ _ P1)). apply (IHc y Hy Hd1).
    - assert (P1' : Post ex (S h) s s1') by (apply (Post_trans ex (S h) c s s1 s1'); [lia|exact P1|exact Pc]).
      destruct (IHL s1' (fun c' Hc' => HL c' (or_intror Hc')) P1' y Hl1 Hd) as (c' & Hin & Hr).
      exists c'. split; [right; exact Hin|exact Hr]. }
  set (L := rget (aam s) h) in *.
  set (s1 := fold_left (fun s c => fst (remove_ann fuel s c)) L s) in *.
  set (s2 := set_aam s1 (rclear (aam s1) h)) in *.
  (* every referrer in L targets h *)
  assert (HL : forall c, In c L -> reach s [h] c).
  { intros c Hc. unfold L in Hc. rewrite (I_aam ex s HI) in Hc. unfold s_ann_anns in Hc. apply scan_member in Hc.
    destruct Hc as (a & Ha & Hl). apply (reach_step s [h] c h a Ha Hl). apply reach_base. left; reflexivity. }
  destruct (Nat.eq_dec x h) as [->|Hne]; [apply reach_base; left; reflexivity|].
  (* x <> h: it died in the fold *)
  assert (Hd1 : get_ann s1 x = None).
  { destruct (get_ann s2 h) as [a|] eqn:E2; cbn [fst] in Hdead.
    - unfold get_ann in Hdead. destruct (a_id a); cbn [set_anns set_aidx anns] in Hdead; rewrite slot_set_slot in Hdead;
        (destruct ((x =? h) && _) eqn:E; [lia|]);
        destruct (ufold_data_frame h (a_data a) s2) as (F0&_);
        destruct (ufold_leaves_frame h (a_leaves a) (fold_left (unindex_datum h) (a_data a) s2)) as (_&G1&_);
        rewrite unindex_ann_unfold, G1, F0 in Hdead; exact Hdead.
    - exact Hdead. }
  destruct (Fold L s (fun c Hc => referrers_gt ex s h c HI Hwf Hc) (Post_refl ex (S h) s HI Hwf) x Hlive Hd1) as (c & Hin & Hr).
  apply (reach_trans s [c] [h] x); [|exact Hr]. intros c' [<-|[]]. apply HL. exact Hin.
Qed.

(** all dependants are removed *)
Theorem remove_ann_all ex fuel s h :
  InvE ex s -> wf_targets s -> ann_refs_ok s -> length (anns s) - h < fuel -> get_ann s h <> None ->
  forall x, reach s [h] x -> get_ann (fst (remove_ann fuel s h)) x = None.
Proof.
  intros HI Hwf Hrf Hfuel Hh x Hr.
  pose proof (remove_ann_Post ex fuel s h HI Hwf Hfuel) as RP.
  destruct (remove_ann fuel s h) as [s' r]. destruct RP as (P & Hlive & _). cbn [fst].
  pose proof (P_closed _ _ _ _ P Hrf) as Hrf'.
  induction Hr as [x Hx|x y a Ha Hl _ IH].
  - destruct Hx as [<-|[]]. destruct (get_ann s h) as [a|]; [apply (Hlive a eq_refl)|contradiction].
  - destruct (get_ann s' x) as [a'|] eqn:E; [|reflexivity]. exfalso.
    pose proof (P_sub _ _ _ _ P x a' E) as Hs. rewrite Ha in Hs. inversion Hs; subst a'.
    unfold has_leaf in Hl. apply existsb_exists in Hl. destruct Hl as (lf & Hlf & Hon).
    pose proof (Hrf' x a E lf Hlf) as H0.
    destruct lf; cbn [on_ann] in Hon; try discriminate; apply Nat.eqb_eq in Hon; subst; apply H0; exact IH.
Qed.

(** exactly the dependants: in a good store, after remove_annotation of a live annotation h,
    a previously live annotation is gone iff it reaches h *)
Theorem remove_ann_exact s h :
  Inv s -> wf_targets s -> ann_refs_ok s -> get_ann s h <> None ->
  forall x, get_ann s x <> None ->
    (get_ann (fst (remove_ann (fuel_of s) s h)) x = None <-> reach s [h] x).
Proof.
  intros HI Hwf Hrf Hh x Hx. split.
  - apply (remove_ann_only noex (fuel_of s) s h HI Hwf (fuel_ok s h) x Hx).
  - apply (remove_ann_all noex (fuel_of s) s h HI Hwf Hrf (fuel_ok s h) Hh).
Qed.

(** * the executable dependency closure of the specification computes [reach] *)
Definition Fstep (s : store) (D : list nat) : list nat :=
  filter (fun h => existsb (Nat.eqb h) D
                   || match get_ann s h with Some a => targets_any D a | None => false end)
         (seq 0 (length (anns s))).

Lemma close_unfold f s D : close (S f) s D = close f s (Fstep s D).
Proof. reflexivity. Qed.

Lemma close_comm f : forall s D, close (S f) s D = Fstep s (close f s D).
Proof.
  induction f as [|f IH]; intros s D; [reflexivity|].
  rewrite close_unfold, IH. reflexivity.
Qed.

Lemma Fstep_In s D x : In x (Fstep s D) <->
  x < length (anns s) /\ (In x D \/ exists a y, get_ann s x = Some a /\ has_leaf (on_ann y) a = true /\ In y D).
Proof.
  unfold Fstep. rewrite filter_In, in_seq, orb_true_iff. split.
  - intros [Hx [H|H]]; (split; [lia|]).
    + left. apply existsb_exists in H. destruct H as (z & Hz & Hq). apply Nat.eqb_eq in Hq. subst z. exact Hz.
    + right. destruct (get_ann s x) as [a|]; [|discriminate]. unfold targets_any, has_leaf in H.
      apply existsb_exists in H. destruct H as (lf & Hlf & Hq).
      destruct lf; try discriminate; apply existsb_exists in Hq; destruct Hq as (z & Hz & Hq); apply Nat.eqb_eq in Hq; subst z;
        exists a; eexists; (split; [reflexivity|]); (split; [|exact Hz]);
        unfold has_leaf; apply existsb_exists; eexists; (split; [exact Hlf|]); cbn [on_ann]; apply Nat.eqb_refl.
  - intros [Hx [H|(a & y & Ha & Hl & Hy)]]; (split; [lia|]).
    + left. apply existsb_exists. exists x. split; [exact H|apply Nat.eqb_refl].
    + right. rewrite Ha. unfold targets_any, has_leaf in *. apply existsb_exists in Hl. destruct Hl as (lf & Hlf & Hq).
      apply existsb_exists. exists lf. split; [exact Hlf|].
      destruct lf; cbn [on_ann] in Hq; try discriminate; apply Nat.eqb_eq in Hq; subst;
        apply existsb_exists; exists y; (split; [exact Hy|apply Nat.eqb_refl]).
Qed.

Lemma close_persist f : forall s D x, x < length (anns s) -> In x D -> In x (close f s D).
Proof.
  induction f as [|f IH]; intros s D x Hx Hin; [exact Hin|].
  rewrite close_unfold. apply IH; [exact Hx|]. apply Fstep_In. split; [exact Hx|left; exact Hin].
Qed.

Lemma close_grow f g s D x : f <= g -> x < length (anns s) -> In x (close f s D) -> In x (close g s D).
Proof.
  intros Hfg Hx. induction Hfg as [|g Hle IH]; [tauto|].
  intros H. rewrite close_comm. apply Fstep_In. split; [exact Hx|left; apply IH; exact H].
Qed.

Lemma close_sound f : forall s D x, In x (close f s D) -> In x D \/ reach s D x.
Proof.
  induction f as [|f IH]; intros s D x H; [left; exact H|].
  rewrite close_unfold in H. destruct (IH s (Fstep s D) x H) as [H1|H1].
  - apply Fstep_In in H1. destruct H1 as [_ [H1|(a & y & Ha & Hl & Hy)]]; [left; exact H1|].
    right. apply (reach_step s D x y a Ha Hl). apply reach_base. exact Hy.
  - right. apply (reach_trans s (Fstep s D) D x); [|exact H1].
    intros c Hc. apply Fstep_In in Hc. destruct Hc as [_ [Hc|(a & y & Ha & Hl & Hy)]]; [apply reach_base; exact Hc|].
    apply (reach_step s D c y a Ha Hl). apply reach_base. exact Hy.
Qed.

Lemma close_complete s D x : wf_targets s -> reach s D x -> x < length (anns s) -> In x (close (S x) s D).
Proof.
  intros Hwf H. induction H as [x Hx|x y a Ha Hl Hr IH]; intros Hlt.
  - apply close_persist; assumption.
  - assert (Hy : y < x).
    { unfold has_leaf in Hl. apply existsb_exists in Hl. destruct Hl as (lf & Hlf & Hq).
      pose proof (Hwf x a Ha) as Hf. rewrite Forall_forall in Hf. specialize (Hf lf Hlf).
      destruct lf; cbn [on_ann leaf_lt] in *; try discriminate; apply Nat.eqb_eq in Hq; subst; exact Hf. }
    rewrite close_comm. apply Fstep_In. split; [exact Hlt|]. right. exists a, y. split; [exact Ha|]. split; [exact Hl|].
    apply (close_grow (S y) x s D y); [lia|lia|]. apply IH. lia.
Qed.

Theorem closure_is_reach s D x : wf_targets s -> x < length (anns s) ->
  (In x (closure s D) <-> In x D \/ reach s D x).
Proof.
  intros Hwf Hx. unfold closure. split; [apply close_sound|].
  intros [H|H].
  - apply close_persist; assumption.
  - apply (close_grow (S x) (length (anns s)) s D x); [lia|exact Hx|]. apply close_complete; assumption.
Qed.

(** the removal specification of Spec/RemovalSpec.v for annotations, proved *)
Theorem remove_annotation_is_deps s h :
  Inv s -> wf_targets s -> ann_refs_ok s -> get_ann s h <> None ->
  forall x, get_ann s x <> None ->
    (get_ann (fst (remove_ann (fuel_of s) s h)) x = None <-> In x (deps_ann s h)).
Proof.
  intros HI Hwf Hrf Hh x Hx. rewrite (remove_ann_exact s h HI Hwf Hrf Hh x Hx).
  assert (Hlt : x < length (anns s)) by (destruct (get_ann s x) as [a|] eqn:E; [apply (get_ann_lt s x a E)|contradiction]).
  unfold deps_ann. rewrite (closure_is_reach s [h] x Hwf Hlt). split; [tauto|].
  intros [H|H]; [apply reach_base; exact H|exact H].
Qed.

(** * exactness for lists of roots, resources and datasets *)
Lemma reach_incl s D D' x : incl D D' -> reach s D x -> reach s D' x.
Proof. intros Hi. apply reach_trans. intros c Hc. apply reach_base. apply Hi. exact Hc. Qed.

Lemma remove_anns_only ex : forall l s, InvE ex s -> wf_targets s ->
  forall x, get_ann s x <> None -> get_ann (remove_anns s l) x = None -> reach s l x.
Proof.
  unfold remove_anns. induction l as [|c l IH]; intros s HI Hwf x Hl Hd; cbn [fold_left] in Hd; [contradiction|].
  pose proof (remove_ann_Post ex (fuel_of s) s c HI Hwf (fuel_ok s c)) as RP.
  pose proof (remove_ann_only ex (fuel_of s) s c HI Hwf (fuel_ok s c) x Hl) as RO.
  destruct (remove_ann (fuel_of s) s c) as [s1 r]. destruct RP as (P & _ & _). cbn [fst] in *.
  destruct (live_dec s1 x) as [Hd1|Hl1].
  - apply (reach_incl s [c] (c :: l) x); [intros y [<-|[]]; left; reflexivity|]. apply RO. exact Hd1.
  - apply (reach_incl s l (c :: l) x); [intros y Hy; right; exact Hy|].
    apply (reach_mono s s1 l x (P_sub _ _ _ _ P)). apply (IH s1 (P_inv _ _ _ _ P) (P_wf _ _ _ _ P) x Hl1 Hd).
Qed.

Lemma dead_of_reach s s' D :
  (forall y a, get_ann s' y = Some a -> get_ann s y = Some a) -> ann_refs_ok s' ->
  (forall r, In r D -> get_ann s' r = None) ->
  forall x, reach s D x -> get_ann s' x = None.
Proof.
  intros Hsub Hrf Hroots x Hr. induction Hr as [x Hx|x y a Ha Hl _ IH]; [apply Hroots; exact Hx|].
  destruct (get_ann s' x) as [a'|] eqn:E; [|reflexivity]. exfalso.
  pose proof (Hsub x a' E) as Hs. rewrite Ha in Hs. inversion Hs; subst a'.
  unfold has_leaf in Hl. apply existsb_exists in Hl. destruct Hl as (lf & Hlf & Hon).
  pose proof (Hrf x a E lf Hlf) as H0.
  destruct lf; cbn [on_ann] in Hon; try discriminate; apply Nat.eqb_eq in Hon; subst; apply H0; exact IH.
Qed.

Lemma closure_live s D x : wf_targets s -> get_ann s x <> None ->
  (In x (closure s D) <-> reach s D x).
Proof.
  intros Hwf Hx.
  assert (Hlt : x < length (anns s)) by (destruct (get_ann s x) as [a|] eqn:E; [apply (get_ann_lt s x a E)|contradiction]).
  rewrite (closure_is_reach s D x Hwf Hlt). split; [intros [H|H]; [apply reach_base; exact H|exact H]|tauto].
Qed.

(* remove_resource removes exactly the dependency closure of the annotations on the resource *)
Theorem rm_resource_exact s r h :
  Inv s -> wf_targets s -> ann_refs_ok s -> ref_res s r = Some h ->
  forall x, get_ann s x <> None ->
    (get_ann (fst (rm_resource s r)) x = None <-> In x (deps_res s h)).
Proof.
  intros HI Hwf Hrf Hr x Hx. unfold rm_resource. rewrite Hr.
  destruct (remove_anns_Post noex (rget (ramm s) h) s HI Hwf) as (P1 & D1).
  pose proof (remove_anns_only noex (rget (ramm s) h) s HI Hwf) as O1.
  set (s1 := remove_anns s (rget (ramm s) h)) in *.
  destruct (remove_anns_Post noex (sort_dedup (concat (nth h (trm s1) []))) s1 (P_inv _ _ _ _ P1) (P_wf _ _ _ _ P1)) as (P2 & D2).
  pose proof (remove_anns_only noex (sort_dedup (concat (nth h (trm s1) []))) s1 (P_inv _ _ _ _ P1) (P_wf _ _ _ _ P1)) as O2.
  set (s2 := remove_anns s1 (sort_dedup (concat (nth h (trm s1) [])))) in *.
  pose proof (Post_trans noex 0 0 s s1 s2 (le_n 0) P1 P2) as P12.
  set (D0 := scan s (fun a => has_leaf (on_res_text h) a || has_leaf (on_res_meta h) a)).
  unfold deps_res. fold D0. rewrite (closure_live s D0 x Hwf Hx).
  assert (Hfin : get_ann (fst (let s3 := set_trm (set_ramm s2 (rclear (ramm s2) h)) (tclear (trm s2) h) in
                               match get_res s3 h with
                               | None => (s3, OErr)
                               | Some rs => (set_ress (set_ridx s3 (id_del (ridx s3) (r_id rs))) (set_slot (ress s3) h None), OOk h)
                               end)) x = get_ann s2 x).
  { cbv zeta. destruct (get_res _ h); reflexivity. }
  cbv zeta in Hfin. rewrite Hfin. clear Hfin.
  (* members of the second list are annotations on text of h *)
  assert (L2in : forall y, In y (sort_dedup (concat (nth h (trm s1) []))) -> In y D0).
  { intros y Hy. apply sort_dedup_In, In_concat_rows in Hy. destruct Hy as (t & Ht).
    change (rget (nth h (trm s1) []) t) with (tget (trm s1) h t) in Ht. rewrite (I_trm noex s1 (P_inv _ _ _ _ P1)) in Ht.
    apply scan_member in Ht. destruct Ht as (a & Ha & Hl). apply scan_member. exists a.
    split; [apply (P_sub _ _ _ _ P1 y a Ha)|]. apply orb_true_iff. left.
    unfold has_leaf in *. apply existsb_exists in Hl. destruct Hl as (lf & Hlf & Hq). apply existsb_exists. exists lf. split; [exact Hlf|].
    destruct lf; cbn [on_ts on_res_text] in *; try discriminate; lia. }
  assert (L1in : forall y, In y (rget (ramm s) h) -> In y D0).
  { intros y Hy. rewrite (I_ramm noex s HI) in Hy. apply scan_member in Hy. destruct Hy as (a & Ha & Hl).
    apply scan_member. exists a. split; [exact Ha|]. apply orb_true_iff. right. exact Hl. }
  split.
  - intros Hd. destruct (live_dec s1 x) as [Hd1|Hl1].
    + apply (reach_incl s (rget (ramm s) h) D0 x L1in). apply (O1 x Hx Hd1).
    + apply (reach_incl s _ D0 x L2in). apply (reach_mono s s1 _ x (P_sub _ _ _ _ P1)). apply (O2 x Hl1 Hd).
  - intros Hreach. apply (dead_of_reach s s2 D0 (P_sub _ _ _ _ P12) (P_closed _ _ _ _ P12 Hrf)); [|exact Hreach].
    intros y Hy. apply scan_member in Hy. destruct Hy as (a & Ha & Hl). apply orb_true_iff in Hl.
    destruct (live_dec s1 y) as [Hd1|Hl1]; [apply (Post_dead _ _ _ _ P2); exact Hd1|].
    destruct (get_ann s1 y) as [a1|] eqn:E1; [|contradiction].
    pose proof (P_sub _ _ _ _ P1 y a1 E1) as Hs. rewrite Ha in Hs. inversion Hs; subst a1.
    destruct Hl as [Hl|Hl].
    + (* on text of h: still in the text index of s1, hence in the second list *)
      apply D2. unfold has_leaf in Hl. apply existsb_exists in Hl. destruct Hl as (lf & Hlf & Hq).
      assert (Ht : exists t, on_ts h t lf = true).
      { destruct lf; cbn [on_res_text on_ts] in *; try discriminate;
          match goal with |- exists t, (_ && (?z =? t)) = true => exists z; rewrite Hq, Nat.eqb_refl; reflexivity end. }
      destruct Ht as (t & Ht). apply sort_dedup_In, In_concat_rows. exists t.
      change (rget (nth h (trm s1) []) t) with (tget (trm s1) h t). rewrite (I_trm noex s1 (P_inv _ _ _ _ P1)).
      apply scan_member. exists a. split; [exact E1|]. unfold has_leaf. apply existsb_exists. exists lf. tauto.
    + (* metadata on h: in the first list *)
      apply (Post_dead _ _ _ _ P2). apply D1. rewrite (I_ramm noex s HI). apply scan_member. exists a. tauto.
Qed.

(* remove_dataset removes exactly the dependency closure of the annotations that use data of the
   set or target the set, one of its keys or one of its data items *)
Theorem rm_dataset_exact s r h :
  Inv s -> wf_targets s -> ann_refs_ok s -> ref_set s r = Some h ->
  forall x, get_ann s x <> None ->
    (get_ann (fst (rm_dataset s r)) x = None <-> In x (deps_set s h)).
Proof.
  intros HI Hwf Hrf Hr x Hx. unfold rm_dataset. rewrite Hr.
  set (users := filter _ (live_handles (anns s))).
  destruct (remove_anns_Post noex users s HI Hwf) as (P1 & D1).
  pose proof (remove_anns_only noex users s HI Hwf) as O1.
  set (s1 := remove_anns s users) in *.
  destruct (remove_anns_Post noex (rget (samm s1) h) s1 (P_inv _ _ _ _ P1) (P_wf _ _ _ _ P1)) as (P2 & D2).
  pose proof (remove_anns_only noex (rget (samm s1) h) s1 (P_inv _ _ _ _ P1) (P_wf _ _ _ _ P1)) as O2.
  set (s2 := remove_anns s1 (rget (samm s1) h)) in *.
  set (s3 := set_samm s2 (rclear (samm s2) h)).
  assert (HI3 : Inv s3).
  { assert (Rs : scan s2 (has_leaf (on_set h)) = []).
    { apply (kill_row noex 0 s1 s2 _ (rget (samm s1) h) P2); [|exact D2].
      intros y a Ha HP. rewrite (I_samm noex s1 (P_inv _ _ _ _ P1)). apply scan_member. exists a. tauto. }
    destruct (P_inv _ _ _ _ P2) as [H1 H2 H3 H4 H5 H6 H7].
    constructor; intros; unfold s3; cbn [set_samm trm aam ramm samm kamm damm ddam];
      unfold s_ts_anns, s_ann_anns, s_res_meta, s_set_meta, s_key_meta, s_data_meta, s_data_anns in *;
      try first [apply H1|apply H2|apply H3|apply H5|apply H6|apply H7; assumption].
    rewrite rget_rclear. destruct (d =? h) eqn:E; [|apply H4]. assert (d = h) by lia. subst d. symmetry. apply Rs. }
  assert (Hwf3 : wf_targets s3) by (apply (wf_frame s2 s3); [reflexivity|exact (P_wf _ _ _ _ P2)]).
  set (metas := sort_dedup (concat (nth h (kamm s3) []) ++ concat (nth h (damm s3) []))).
  destruct (remove_anns_Post noex metas s3 HI3 Hwf3) as (P4 & D4).
  pose proof (remove_anns_only noex metas s3 HI3 Hwf3) as O4.
  set (s4 := remove_anns s3 metas) in *.
  assert (Psub4 : forall y a, get_ann s4 y = Some a -> get_ann s y = Some a).
  { intros y a Ha. apply (P_sub _ _ _ _ P1). apply (P_sub _ _ _ _ P2). apply (P_sub _ _ _ _ P4 y a Ha). }
  assert (Psub2 : forall y a, get_ann s2 y = Some a -> get_ann s y = Some a).
  { intros y a Ha. apply (P_sub _ _ _ _ P1). apply (P_sub _ _ _ _ P2 y a Ha). }
  assert (Hrf4 : ann_refs_ok s4).
  { apply (P_closed _ _ _ _ P4). apply (ann_refs_frame s2 s3); [reflexivity|]. apply (P_closed _ _ _ _ P2). apply (P_closed _ _ _ _ P1 Hrf). }
  set (D0 := scan s (fun a => uses_set h a || has_leaf (on_set_any h) a)).
  unfold deps_set. fold D0. rewrite (closure_live s D0 x Hwf Hx).
  assert (Hfin : get_ann (fst (let s5 := set_ddam (set_damm (set_kamm s4 (tclear (kamm s4) h)) (tclear (damm s4) h)) (tclear (ddam s4) h) in
                               match get_set s5 h with
                               | None => (s5, OErr)
                               | Some d => (set_sets (set_sidx s5 (id_del (sidx s5) (d_id d))) (set_slot (sets s5) h None), OOk h)
                               end)) x = get_ann s4 x).
  { cbv zeta. destruct (get_set _ h); reflexivity. }
  cbv zeta in Hfin. rewrite Hfin. clear Hfin.
  (* the three lists consist of members of D0 *)
  assert (Uin : forall y, In y users -> In y D0).
  { intros y Hy. unfold users in Hy. apply filter_In in Hy. destruct Hy as (Hl & Hq).
    destruct (get_ann s y) as [a|] eqn:E; [|discriminate]. apply scan_member. exists a. split; [exact E|].
    apply orb_true_iff. left. exact Hq. }
  assert (Sin : forall y, In y (rget (samm s1) h) -> In y D0).
  { intros y Hy. rewrite (I_samm noex s1 (P_inv _ _ _ _ P1)) in Hy. apply scan_member in Hy. destruct Hy as (a & Ha & Hl).
    apply scan_member. exists a. split; [apply (P_sub _ _ _ _ P1 y a Ha)|]. apply orb_true_iff. right.
    unfold has_leaf in *. apply existsb_exists in Hl. destruct Hl as (lf & Hlf & Hq). apply existsb_exists. exists lf. split; [exact Hlf|].
    destruct lf; cbn [on_set on_set_any] in *; try discriminate; exact Hq. }
  assert (Min : forall y, In y metas -> In y D0).
  { intros y Hy. unfold metas in Hy. apply sort_dedup_In, in_app_or in Hy.
    assert (G : forall a, get_ann s3 y = Some a -> has_leaf (on_set_any h) a = true -> In y D0).
    { intros a Ha Hl. apply scan_member. exists a. split; [apply Psub2; exact Ha|]. apply orb_true_iff. right. exact Hl. }
    destruct Hy as [Hy|Hy]; apply In_concat_rows in Hy; destruct Hy as (t & Ht).
    - change (rget (nth h (kamm s3) []) t) with (tget (kamm s3) h t) in Ht. rewrite (I_kamm noex s3 HI3) in Ht.
      apply scan_member in Ht. destruct Ht as (a & Ha & Hl). apply (G a Ha).
      unfold has_leaf in *. apply existsb_exists in Hl. destruct Hl as (lf & Hlf & Hq). apply existsb_exists. exists lf. split; [exact Hlf|].
      destruct lf; cbn [on_key on_set_any] in *; try discriminate; lia.
    - change (rget (nth h (damm s3) []) t) with (tget (damm s3) h t) in Ht. rewrite (I_damm noex s3 HI3) in Ht.
      apply scan_member in Ht. destruct Ht as (a & Ha & Hl). apply (G a Ha).
      unfold has_leaf in *. apply existsb_exists in Hl. destruct Hl as (lf & Hlf & Hq). apply existsb_exists. exists lf. split; [exact Hlf|].
      destruct lf; cbn [on_data on_set_any] in *; try discriminate; lia. }
  split.
  - intros Hd. destruct (live_dec s1 x) as [Hd1|Hl1].
    + apply (reach_incl s users D0 x Uin). apply (O1 x Hx Hd1).
    + destruct (live_dec s2 x) as [Hd2|Hl2].
      * apply (reach_incl s _ D0 x Sin). apply (reach_mono s s1 _ x (P_sub _ _ _ _ P1)). apply (O2 x Hl1 Hd2).
      * apply (reach_incl s _ D0 x Min). apply (reach_mono s s3 _ x Psub2). apply (O4 x Hl2 Hd).
  - intros Hreach. apply (dead_of_reach s s4 D0 Psub4 Hrf4); [|exact Hreach].
    intros y Hy. apply scan_member in Hy. destruct Hy as (a & Ha & Hl). apply orb_true_iff in Hl.
    destruct (get_ann s4 y) as [a4|] eqn:E4; [|reflexivity]. exfalso.
    pose proof (Psub4 y a4 E4) as Hs. rewrite Ha in Hs. inversion Hs; subst a4.
    assert (E2 : get_ann s2 y = Some a) by (apply (P_sub _ _ _ _ P4 y a E4)).
    assert (E1 : get_ann s1 y = Some a) by (apply (P_sub _ _ _ _ P2 y a E2)).
    destruct Hl as [Hl|Hl].
    + (* uses data of the set: in users, dead after the first list *)
      assert (Hu : In y users).
      { unfold users. apply filter_In. split; [apply live_handles_In; exists a; exact Ha|]. rewrite Ha. exact Hl. }
      specialize (D1 y Hu). unfold get_ann in *. congruence.
    + unfold has_leaf in Hl. apply existsb_exists in Hl. destruct Hl as (lf & Hlf & Hq).
      destruct lf; cbn [on_set_any] in Hq; try discriminate; apply Nat.eqb_eq in Hq; subst.
      * (* targets the set *)
        assert (Hin : In y (rget (samm s1) h)).
        { rewrite (I_samm noex s1 (P_inv _ _ _ _ P1)). apply scan_member. exists a. split; [exact E1|].
          unfold has_leaf. apply existsb_exists. exists (LSet h). split; [exact Hlf|]. cbn [on_set]. apply Nat.eqb_refl. }
        specialize (D2 y Hin). congruence.
      * (* targets a key of the set *)
        assert (Hin : In y metas).
        { unfold metas. apply sort_dedup_In, in_or_app. left. apply In_concat_rows. exists k.
          change (rget (nth h (kamm s3) []) k) with (tget (kamm s3) h k). rewrite (I_kamm noex s3 HI3).
          apply scan_member. exists a. split; [exact E2|]. unfold has_leaf. apply existsb_exists. exists (LKey h k). split; [exact Hlf|].
          cbn [on_key]. rewrite !Nat.eqb_refl. reflexivity. }
        specialize (D4 y Hin). congruence.
      * (* targets a data item of the set *)
        assert (Hin : In y metas).
        { unfold metas. apply sort_dedup_In, in_or_app. right. apply In_concat_rows. exists x0.
          change (rget (nth h (damm s3) []) x0) with (tget (damm s3) h x0). rewrite (I_damm noex s3 HI3).
          apply scan_member. exists a. split; [exact E2|]. unfold has_leaf. apply existsb_exists. exists (LData h x0). split; [exact Hlf|].
          cbn [on_data]. rewrite !Nat.eqb_refl. reflexivity. }
        specialize (D4 y Hin). congruence.
Qed.
