(* C14: what a failed adding operation can have changed.  Everything the annotations and the
   reverse indices live in is untouched; only text selections inside resources (class 1) and the
   data vocabulary (class 2) can differ, and when they do not the store is literally the same. *)
From Stam Require Import Base.Tac Base.ListAux Model.Offset Model.Store Model.StoreObs Spec.StoreSpec
     Proofs.RelMap Proofs.StoreScan Proofs.StoreInv Proofs.StoreSets.

Lemma store_eta s s' : same_core s s' -> ress s' = ress s -> sets s' = sets s -> sidx s' = sidx s -> ridx s' = ridx s -> s' = s.
Proof.
  intros (A1&A2&A3&A4&A5&A6&A7&A8&A9) B1 B2 B3 B4. destruct s, s'. cbn in *. congruence.
Qed.

Lemma resolve_target_ridx s b : ridx (fst (resolve_target s b)) = ridx s /\ sidx (fst (resolve_target s b)) = sidx s.
Proof.
  assert (I : forall s r rs rg, ridx (fst (intern_sel s r rs rg)) = ridx s /\ sidx (fst (intern_sel s r rs rg)) = sidx s)
    by (intros; unfold intern_sel; destruct (find_sel _ _ _); split; reflexivity).
  assert (S1 : forall s b, ridx (fst (resolve_simple s b)) = ridx s /\ sidx (fst (resolve_simple s b)) = sidx s).
  { clear s b. intros s b. destruct b as [rr o|ar [o|]|rr|dr|dr kr|dr xr|k l]; cbn [resolve_simple]; try (split; reflexivity).
    - destruct (ref_res s rr) as [r|]; [|split; reflexivity]. destruct (get_res s r) as [rs|]; [|split; reflexivity].
      destruct (resource_ts (r_len rs) o) as [rg|]; [|split; reflexivity].
      specialize (I s r rs rg). destruct (intern_sel s r rs rg); exact I.
    - destruct (ref_ann s ar) as [a|]; [|split; reflexivity]. destruct (get_ann s a) as [an|]; [|split; reflexivity].
      destruct (ann_textsel s an) as [[[r t] prg]|]; [|split; reflexivity].
      destruct (selection_ts prg o) as [rg|]; [|split; reflexivity]. destruct (get_res s r) as [rs|]; [|split; reflexivity].
      specialize (I s r rs rg). destruct (intern_sel s r rs rg); exact I.
    - destruct (ref_ann s ar); split; reflexivity.
    - destruct (ref_res s rr); split; reflexivity.
    - destruct (ref_set s dr); split; reflexivity.
    - destruct (ref_set s dr) as [d|]; [|split; reflexivity]. destruct (get_set s d) as [ds|]; [|split; reflexivity]. destruct (ref_key ds kr); split; reflexivity.
    - destruct (ref_set s dr) as [d|]; [|split; reflexivity]. destruct (get_set s d) as [ds|]; [|split; reflexivity]. destruct (ref_data ds xr); split; reflexivity. }
  assert (S2 : forall l s, ridx (fst (resolve_subs s l)) = ridx s /\ sidx (fst (resolve_subs s l)) = sidx s).
  { induction l as [|b0 l IH]; intros s0; cbn [resolve_subs]; [split; reflexivity|].
    destruct (S1 s0 b0) as (A&B). destruct (resolve_simple s0 b0) as [s1 [lf|]]; cbn [fst] in *; [|split; assumption].
    destruct (IH s1) as (A'&B'). destruct (resolve_subs s1 l) as [s2 [lfs|]]; cbn [fst] in *; split; congruence. }
  destruct b; cbn [resolve_target];
    try (match goal with |- context [resolve_simple ?s0 ?b0] =>
           specialize (S1 s0 b0); destruct (resolve_simple s0 b0) as [s' [lf|]]; exact S1 end).
  specialize (S2 l s). destruct (resolve_subs s l) as [s' [lfs|]]; exact S2.
Qed.

Lemma add_set_frame s id : ress (fst (add_set s id)) = ress s /\ ridx (fst (add_set s id)) = ridx s.
Proof.
  unfold add_set. destruct (id_get (sidx s) id) as [h|]; [destruct (get_set s h) as [d|]; [destruct (dset_is_empty d)|]|]; split; reflexivity.
Qed.

Lemma store_insert_data_frame s b : ress (fst (store_insert_data s b)) = ress s /\ ridx (fst (store_insert_data s b)) = ridx s.
Proof.
  unfold store_insert_data.
  set (tok := match db_set b with ById tok => tok | ByHandle _ => DEFAULT_SET_TOKEN end).
  assert (Core : forall s1 h, let r := fst (match get_set s1 h with
                   | None => (s1, None)
                   | Some d =>
                       match dset_insert_data d (db_id b) (db_key b) (db_val b) with
                       | (d', OOk x) => (set_sets s1 (set_slot (sets s1) h (Some d')), Some (h, x))
                       | (d', _) => (set_sets s1 (set_slot (sets s1) h (Some d')), None)
                       end
                   end) in ress r = ress s1 /\ ridx r = ridx s1).
  { intros s1 h. destruct (get_set s1 h) as [d|]; [|split; reflexivity].
    destruct (dset_insert_data d (db_id b) (db_key b) (db_val b)) as [d' [x| |]]; split; reflexivity. }
  destruct (ref_set s (db_set b)) as [h|]; [apply (Core s h)|].
  destruct (add_set_frame s tok) as (A&B). destruct (add_set s tok) as [s1 [h| |]]; cbn [fst] in *; try (split; assumption).
  destruct (Core s1 h) as (A'&B'). cbv zeta in *. split; congruence.
Qed.

Lemma insert_datas_frame l : forall s, ress (fst (insert_datas s l)) = ress s /\ ridx (fst (insert_datas s l)) = ridx s.
Proof.
  induction l as [|b l IH]; intros s; cbn [insert_datas]; [split; reflexivity|].
  destruct (store_insert_data_frame s b) as (A&B). destruct (store_insert_data s b) as [s1 [dx|]]; cbn [fst] in *; [|split; assumption].
  destruct (IH s1) as (A'&B'). destruct (insert_datas s1 l) as [s2 [dxs|]]; cbn [fst] in *; split; congruence.
Qed.

(* a failed annotate *)
Theorem annotate_err_frame s b s' : annotate s b = (s', OErr) ->
  same_core s s' /\ ridx s' = ridx s
  /\ (ress s' = ress s -> sets s' = sets s -> sidx s' = sidx s -> s' = s).
Proof.
  intros H.
  assert (G : same_core s s' /\ ridx s' = ridx s).
  { unfold annotate in H. destruct (ab_target b) as [tb|]; [|inversion H; subst; split; [apply same_core_refl|reflexivity]].
    pose proof (resolve_target_core s tb) as C1. destruct (resolve_target_ridx s tb) as (R1&_).
    destruct (resolve_target s tb) as [s1 [[kind leaves]|]]; cbn [fst] in *; [|inversion H; subst; split; assumption].
    pose proof (insert_datas_core (ab_data b) s1) as C2. destruct (insert_datas_frame (ab_data b) s1) as (_&R2).
    destruct (insert_datas s1 (ab_data b)) as [s2 [data|]]; cbn [fst] in *;
      [|inversion H; subst; split; [eapply same_core_trans; eassumption|congruence]].
    destruct (match ab_id b with Some tok => id_get (aidx s2) tok | None => None end) as [h'|].
    - destruct (get_ann s2 h') as [exi|]; [|discriminate].
      destruct (_ && _); [discriminate|]. inversion H; subst. split; [eapply same_core_trans; eassumption|congruence].
    - discriminate. }
  destruct G as (G1 & G2). split; [exact G1|]. split; [exact G2|].
  intros E1 E2 E3. apply store_eta; assumption.
Qed.

(* a failed insert_data / add_resource / add_dataset *)
Theorem step_err_frame s o s' :
  match o with AddRes _ _ | AddSet _ | InsData _ | Annotate _ => True | _ => False end ->
  step s o = (s', OErr) ->
  same_core s s' /\ ridx s' = ridx s
  /\ (ress s' = ress s -> sets s' = sets s -> sidx s' = sidx s -> s' = s).
Proof.
  intros Ho H. destruct o; try destruct Ho; cbn [step] in H.
  - unfold add_res in H. destruct (id_get (ridx s) id) as [h|].
    + destruct (get_res s h) as [r|]; [destruct (r_len r =? len)|]; inversion H; subst; (split; [apply same_core_refl|split; [reflexivity|reflexivity]]).
    + discriminate.
  - unfold add_set in H. destruct (id_get (sidx s) id) as [h|].
    + destruct (get_set s h) as [d|]; [destruct (dset_is_empty d)|]; inversion H; subst; (split; [apply same_core_refl|split; [reflexivity|reflexivity]]).
    + discriminate.
  - pose proof (store_insert_data_core s b) as C. destruct (store_insert_data_frame s b) as (F1&F2).
    destruct (store_insert_data s b) as [s1 [[d x]|]]; [discriminate|]. inversion H; subst. cbn [fst] in *.
    split; [exact C|]. split; [exact F2|]. intros E1 E2 E3. apply store_eta; assumption.
  - apply (annotate_err_frame s b s' H).
Qed.
