(* Text validation, part 1: the joined string determines the selected strings (for a fixed length
   profile), and validation against stored references detects exactly the changed selections. *)
From Coq Require Import NArith.
From Stam Require Import Base.Tac Base.ListAux Model.Offset Model.Utf8 Model.Store Model.Validate
     Spec.ValidateSpec.

Lemma text_eqb_refl x : text_eqb x x = true.
Proof. induction x as [|c x IH]; cbn [text_eqb]; [reflexivity|]. rewrite N.eqb_refl, IH. reflexivity. Qed.

Lemma text_eqb_eq x : forall y, text_eqb x y = true <-> x = y.
Proof.
  induction x as [|c x IH]; intros [|d y]; cbn [text_eqb]; split; intros E; try reflexivity; try discriminate.
  - apply andb_prop in E. destruct E as [E1 E2]. apply N.eqb_eq in E1. apply IH in E2. congruence.
  - inversion E; subst. rewrite N.eqb_refl. apply text_eqb_refl.
Qed.

Lemma text_eqb_neq x y : text_eqb x y = false <-> x <> y.
Proof.
  split.
  - intros E C. apply text_eqb_eq in C. congruence.
  - intros C. destruct (text_eqb x y) eqn:E; [|reflexivity]. apply text_eqb_eq in E. contradiction.
Qed.

Lemma texts_eqb_eq a : forall b, texts_eqb a b = true <-> a = b.
Proof.
  unfold texts_eqb. induction a as [|x a IH]; intros [|y b]; cbn [list_eqb]; split; intros E; try reflexivity; try discriminate.
  - apply andb_prop in E. destruct E as [E1 E2]. apply text_eqb_eq in E1. apply IH in E2. congruence.
  - inversion E; subst. rewrite text_eqb_refl. apply IH. reflexivity.
Qed.

Lemma is_nil_len {X} (l l' : list X) : length l = length l' -> is_nil l = is_nil l'.
Proof. destruct l, l'; cbn; intros E; congruence. Qed.

(** * The join *)

Lemma app_inj_len {X} (a a' b b' : list X) : length a = length a' -> a ++ b = a' ++ b' -> a = a' /\ b = b'.
Proof.
  revert a'. induction a as [|x a IH]; intros [|x' a'] L E; cbn in *; try discriminate.
  - split; [reflexivity|exact E].
  - inversion E; subst. destruct (IH a') as [E1 E2]; [lia|assumption|]. subst. split; reflexivity.
Qed.

(* joins of two lists of strings with the same length profile are equal only if the lists are *)
Lemma join_from_inj d : forall ps qs acc acc',
  length acc = length acc' -> map (@length N) ps = map (@length N) qs ->
  join_from d acc ps = join_from d acc' qs -> acc = acc' /\ ps = qs.
Proof.
  induction ps as [|p ps IH]; intros [|q qs] acc acc' La Lm E; cbn [map] in Lm; try discriminate.
  - cbn [join_from] in E. split; [exact E|reflexivity].
  - cbn [join_from] in E. inversion Lm as [[Lp Lr]].
    rewrite (is_nil_len acc acc' La) in E.
    apply IH in E; [|destruct (is_nil acc'); rewrite !app_length; lia|exact Lr].
    destruct E as [E1 E2]. subst qs.
    destruct (is_nil acc') eqn:N'.
    + apply app_inj_len in E1; [|exact La]. destruct E1; subst. split; reflexivity.
    + rewrite <- !app_assoc in E1. apply app_inj_len in E1; [|exact La]. destruct E1 as [-> E1].
      apply app_inv_head in E1. subst. split; reflexivity.
Qed.

Theorem join_inj d ps qs :
  map (@length N) ps = map (@length N) qs -> text_join d ps = text_join d qs -> ps = qs.
Proof. intros L E. unfold text_join in E. apply (join_from_inj d ps qs [] []) in E; [tauto|reflexivity|exact L]. Qed.

(* the join is empty exactly when no string contributes a character *)
Lemma join_from_nil d : forall ps acc, is_nil (join_from d acc ps) = is_nil acc && negb (some_text ps).
Proof.
  induction ps as [|p ps IH]; intros acc; cbn [join_from some_text existsb].
  - rewrite andb_true_r. reflexivity.
  - change (existsb nonempty ps) with (some_text ps). rewrite IH. unfold nonempty.
    destruct acc as [|c acc]; cbn [is_nil app]; [|reflexivity].
    destruct p; cbn [is_nil negb orb andb]; reflexivity.
Qed.

Lemma join_nil d ps : is_nil (text_join d ps) = negb (some_text ps).
Proof. unfold text_join. rewrite join_from_nil. reflexivity. Qed.

(** * Validation against the references an annotation carries *)

Lemma text_eqb_sym x y : text_eqb x y = text_eqb y x.
Proof.
  destruct (text_eqb x y) eqn:E.
  - apply text_eqb_eq in E. subst. symmetry. apply text_eqb_refl.
  - symmetry. apply text_eqb_neq. apply text_eqb_neq in E. congruence.
Qed.

Section Digest.
Variable H : text -> text.

(* the control flow of validate_text computes "every reference present matches" *)
Theorem validate_on_reference s a ps : validate_on H s a ps = by_reference H s a ps.
Proof.
  unfold validate_on, by_reference, text_checksum, otext_eqb.
  set (j := text_join _ _).
  destruct (ann_vstr s a KCHK) as [c|]; destruct (ann_vstr s a KTXT) as [t|]; try reflexivity.
  - destruct (is_nil j); cbn [negb andb]; [reflexivity|].
    rewrite (text_eqb_sym (H j) c). destruct (text_eqb c (H j)); cbn [negb andb]; [|reflexivity].
    destruct (text_eqb t j); reflexivity.
  - destruct (is_nil j); cbn [negb andb]; [reflexivity|].
    rewrite (text_eqb_sym (H j) c). destruct (text_eqb c (H j)); reflexivity.
  - destruct (text_eqb t j); reflexivity.
Qed.

Corollary validate_by_reference txts s a :
  validate_ann H txts s a = by_reference H s a (ann_pieces txts s a).
Proof. apply validate_on_reference. Qed.

(* the references of [a] were computed from the strings [ps] *)
Definition refs_from (s : store) (a : ann) (ps : list text) : Prop :=
  let j := text_join (odflt (ann_vstr s a KDEL)) ps in
  carries_info s a = true
  /\ (forall c, ann_vstr s a KCHK = Some c -> c = H j)
  /\ (forall t, ann_vstr s a KTXT = Some t -> t = j).

Lemma refs_valid s a ps : refs_from s a ps -> some_text ps = true -> by_reference H s a ps = Some true.
Proof.
  intros (Hc & Hk & Ht) Hs. unfold by_reference. unfold carries_info in Hc.
  set (j := text_join _ ps) in *.
  assert (Nj : is_nil j = false) by (unfold j; rewrite join_nil, Hs; reflexivity).
  destruct (ann_vstr s a KCHK) as [c|]; destruct (ann_vstr s a KTXT) as [t|]; cbn in Hc; try discriminate.
  - rewrite (Hk c eq_refl), (Ht t eq_refl), Nj, !text_eqb_refl. reflexivity.
  - rewrite (Hk c eq_refl), Nj, text_eqb_refl. reflexivity.
  - rewrite (Ht t eq_refl), text_eqb_refl. reflexivity.
Qed.

(* against other strings with the same length profile: invalid exactly when a string differs;
   the digest is only asked not to collide on the two joins compared *)
Theorem refs_detect s a ps ps' :
  refs_from s a ps -> some_text ps = true ->
  map (@length N) ps = map (@length N) ps' ->
  (let d := odflt (ann_vstr s a KDEL) in H (text_join d ps) = H (text_join d ps') -> text_join d ps = text_join d ps') ->
  by_reference H s a ps' = Some (texts_eqb ps ps').
Proof.
  intros (Hc & Hk & Ht) Hs L Hinj. cbv zeta in Hinj. unfold by_reference. unfold carries_info in Hc.
  set (d := odflt (ann_vstr s a KDEL)) in *.
  set (j := text_join d ps) in *. set (j' := text_join d ps') in *.
  assert (Nj : is_nil j = false) by (unfold j; rewrite join_nil, Hs; reflexivity).
  assert (Ej : text_eqb j j' = texts_eqb ps ps').
  { destruct (texts_eqb ps ps') eqn:E.
    - apply texts_eqb_eq in E. unfold j, j'. rewrite E. apply text_eqb_refl.
    - apply text_eqb_neq. intros C. apply (join_inj d ps ps' L) in C. apply texts_eqb_eq in C. congruence. }
  assert (Eh : negb (is_nil j') && text_eqb (H j) (H j') = texts_eqb ps ps').
  { rewrite <- Ej. destruct (text_eqb j j') eqn:E.
    - apply text_eqb_eq in E. rewrite <- E, Nj, text_eqb_refl. reflexivity.
    - destruct (text_eqb (H j) (H j')) eqn:E2; [|apply andb_false_r].
      apply text_eqb_eq in E2. apply Hinj in E2. apply text_eqb_eq in E2. congruence. }
  destruct (ann_vstr s a KCHK) as [c|]; destruct (ann_vstr s a KTXT) as [t|]; cbn in Hc; try discriminate.
  - rewrite (Hk c eq_refl), (Ht t eq_refl), Eh, Ej. destruct (texts_eqb ps ps'); reflexivity.
  - rewrite (Hk c eq_refl), Eh. reflexivity.
  - rewrite (Ht t eq_refl), Ej. reflexivity.
Qed.

(* in text mode nothing is asked of the digest *)
Corollary refs_detect_text s a ps ps' :
  refs_from s a ps -> ann_vstr s a KCHK = None -> some_text ps = true ->
  map (@length N) ps = map (@length N) ps' ->
  by_reference H s a ps' = Some (texts_eqb ps ps').
Proof.
  intros (Hc & Hk & Ht) Hn Hs L. unfold by_reference. unfold carries_info in Hc. rewrite Hn in *.
  destruct (ann_vstr s a KTXT) as [t|]; cbn in Hc; [|discriminate].
  rewrite (Ht t eq_refl). f_equal.
  set (d := odflt (ann_vstr s a KDEL)).
  destruct (texts_eqb ps ps') eqn:E.
  - apply texts_eqb_eq in E. rewrite E. apply text_eqb_refl.
  - apply text_eqb_neq. intros C. apply (join_inj d ps ps' L) in C. apply texts_eqb_eq in C. congruence.
Qed.

End Digest.

(** * Selected strings: the order of the target against the order of the code *)

Lemma omap_In {X Y} (f : X -> option Y) l y : In y (omap f l) <-> exists x, In x l /\ f x = Some y.
Proof.
  induction l as [|x l IH]; cbn [omap]; [split; [intros []|intros (x & [] & _)]|].
  destruct (f x) as [y'|] eqn:E; cbn [In]; rewrite IH; split.
  - intros [->|(x' & Hx & Ex)]; [exists x; auto|exists x'; auto].
  - intros (x' & [->|Hx] & Ex); [left; congruence|right; exists x'; auto].
  - intros (x' & Hx & Ex). exists x'; auto.
  - intros (x' & [->|Hx] & Ex); [congruence|exists x'; auto].
Qed.

Lemma ins_range_In x l y : In y (ins_range x l) <-> y = x \/ In y l.
Proof.
  induction l as [|z l IH]; cbn [ins_range]; [cbn; intuition|].
  destruct (range_leb x z); cbn [In]; [intuition|]. rewrite IH. intuition.
Qed.

Lemma sort_ranges_In l y : In y (sort_ranges l) <-> In y l.
Proof.
  unfold sort_ranges. induction l as [|x l IH]; cbn [fold_right]; [reflexivity|].
  rewrite ins_range_In, IH. cbn [In]. intuition.
Qed.

Definition given_ranges (s : store) (a : ann) : list (nat * (nat * nat)) :=
  omap (tsel_range s) (omap leaf_tsel (a_leaves a)).

Lemma ann_ranges_In s a x : In x (ann_ranges s a) <-> In x (given_ranges s a).
Proof.
  unfold ann_ranges. fold (given_ranges s a). destruct (_ || _); [apply sort_ranges_In|reflexivity].
Qed.

Lemma selected_given txts s a : selected txts s a = map (piece txts) (given_ranges s a).
Proof.
  unfold selected, given_ranges. induction (a_leaves a) as [|lf l IH]; [reflexivity|].
  cbn [omap]. destruct lf; cbn [sel_of_leaf leaf_tsel]; try exact IH; cbn [omap];
    unfold tsel_range at 1; cbn [fst snd]; destruct (get_res s r) as [rs|]; try exact IH;
    destruct (nth_error (r_sels rs) t) as [rg|]; try exact IH; cbn [map]; rewrite IH; reflexivity.
Qed.

Lemma map_eq_In {X Y} (f g : X -> Y) l : map f l = map g l <-> (forall x, In x l -> f x = g x).
Proof. apply map_ext_in_iff. Qed.

(* the strings in the order of the code agree between two texts iff they do in the order of the target *)
Theorem pieces_eq_selected txts txts' s a :
  ann_pieces txts s a = ann_pieces txts' s a <-> selected txts s a = selected txts' s a.
Proof.
  unfold ann_pieces. rewrite !selected_given, !map_eq_In.
  split; intros E x Hx; apply E; apply ann_ranges_In; exact Hx.
Qed.

Lemma some_text_In ps : some_text ps = true <-> exists p, In p ps /\ nonempty p = true.
Proof. apply existsb_exists. Qed.

Theorem pieces_some_selected txts s a : some_text (ann_pieces txts s a) = selects_text txts s a.
Proof.
  unfold selects_text. rewrite selected_given. unfold ann_pieces.
  apply eq_true_iff_eq. rewrite !some_text_In.
  split; intros (p & Hp & Np); apply in_map_iff in Hp; destruct Hp as (x & <- & Hx);
    exists (piece txts x); (split; [apply in_map; apply ann_ranges_In; exact Hx|exact Np]).
Qed.

(* substitutions keep the length profile *)
Lemma sub_length (t : text) b e : length (sub t b e) = Nat.min (e - b) (length t - b).
Proof. unfold sub. rewrite firstn_length, skipn_length. reflexivity. Qed.

Lemma nth_len_eq {X} : forall (l l' : list (list X)) i,
  map (@length X) l = map (@length X) l' -> length (nth i l []) = length (nth i l' []).
Proof.
  induction l as [|t l IH]; intros [|t' l'] i E; cbn [map] in E; try discriminate; [reflexivity|].
  inversion E. destruct i; cbn [nth]; [assumption|apply IH; assumption].
Qed.

Lemma piece_length (txts txts' : list text) x :
  map (@length N) txts = map (@length N) txts' -> length (piece txts x) = length (piece txts' x).
Proof.
  intros E. unfold piece. rewrite !sub_length.
  assert (L : length (nth (fst x) txts ([] : text)) = length (nth (fst x) txts' ([] : text))).
  { apply nth_len_eq. exact E. }
  rewrite L. reflexivity.
Qed.

Lemma pieces_profile (txts txts' : list text) s a :
  map (@length N) txts = map (@length N) txts' ->
  map (@length N) (ann_pieces txts s a) = map (@length N) (ann_pieces txts' s a).
Proof.
  intros E. unfold ann_pieces. rewrite !map_map. apply map_ext. intros x. apply piece_length. exact E.
Qed.

(* with a text reference present nothing is asked of the digest either (modes Text and Both, and
   Auto below 40 characters) *)
Lemma refs_detect_with_text H s a ps ps' :
  refs_from H s a ps -> ann_vstr s a KTXT <> None -> some_text ps = true ->
  map (@length N) ps = map (@length N) ps' ->
  by_reference H s a ps' = Some (texts_eqb ps ps').
Proof.
  intros (Hc & Hk & Ht) Hn Hs L. unfold by_reference.
  set (d := odflt (ann_vstr s a KDEL)) in *.
  set (j := text_join d ps) in *. set (j' := text_join d ps') in *.
  assert (Nj : is_nil j = false) by (unfold j; rewrite join_nil, Hs; reflexivity).
  assert (Ej : text_eqb j j' = texts_eqb ps ps').
  { destruct (texts_eqb ps ps') eqn:E.
    - apply texts_eqb_eq in E. unfold j, j'. rewrite E. apply text_eqb_refl.
    - apply text_eqb_neq. intros C. apply (join_inj d ps ps' L) in C. apply texts_eqb_eq in C. congruence. }
  destruct (ann_vstr s a KTXT) as [t|]; [|destruct (Hn eq_refl)]. rewrite (Ht t eq_refl), Ej.
  destruct (ann_vstr s a KCHK) as [c|]; [|reflexivity]. rewrite (Hk c eq_refl). f_equal.
  destruct (texts_eqb ps ps') eqn:E; [|apply andb_false_r].
  apply text_eqb_eq in Ej. rewrite <- Ej, Nj, text_eqb_refl. reflexivity.
Qed.

(* against strings of any lengths: outside the known class (the strings differ but their joins
   coincide) the verdict is still "invalid exactly when a string differs" *)
Theorem refs_detect_guarded H s a ps ps' :
  refs_from H s a ps -> some_text ps = true ->
  (let d := odflt (ann_vstr s a KDEL) in H (text_join d ps) = H (text_join d ps') -> text_join d ps = text_join d ps') ->
  regrouped (odflt (ann_vstr s a KDEL)) ps ps' = false ->
  by_reference H s a ps' = Some (texts_eqb ps ps').
Proof.
  intros (Hc & Hk & Ht) Hs Hinj Hr. cbv zeta in Hinj. unfold by_reference. unfold carries_info in Hc.
  unfold regrouped in Hr.
  set (d := odflt (ann_vstr s a KDEL)) in *.
  set (j := text_join d ps) in *. set (j' := text_join d ps') in *.
  assert (Nj : is_nil j = false) by (unfold j; rewrite join_nil, Hs; reflexivity).
  assert (Ej : text_eqb j j' = texts_eqb ps ps').
  { destruct (texts_eqb ps ps') eqn:E.
    - apply texts_eqb_eq in E. unfold j, j'. rewrite E. apply text_eqb_refl.
    - cbn [negb andb] in Hr. exact Hr. }
  assert (Eh : negb (is_nil j') && text_eqb (H j) (H j') = texts_eqb ps ps').
  { rewrite <- Ej. destruct (text_eqb j j') eqn:E.
    - apply text_eqb_eq in E. rewrite <- E, Nj, text_eqb_refl. reflexivity.
    - destruct (text_eqb (H j) (H j')) eqn:E2; [|apply andb_false_r].
      apply text_eqb_eq in E2. apply Hinj in E2. apply text_eqb_eq in E2. congruence. }
  destruct (ann_vstr s a KCHK) as [c|]; destruct (ann_vstr s a KTXT) as [t|]; cbn in Hc; try discriminate.
  - rewrite (Hk c eq_refl), (Ht t eq_refl), Eh, Ej. destruct (texts_eqb ps ps'); reflexivity.
  - rewrite (Hk c eq_refl), Eh. reflexivity.
  - rewrite (Ht t eq_refl), Ej. reflexivity.
Qed.

(* inside the class the verdict is "valid" although a string differs *)
Theorem refs_regrouped_refuted H s a ps ps' :
  refs_from H s a ps -> some_text ps = true ->
  regrouped (odflt (ann_vstr s a KDEL)) ps ps' = true ->
  by_reference H s a ps' = Some true /\ ps <> ps'.
Proof.
  intros R Hs Hr. unfold regrouped in Hr. apply andb_prop in Hr. destruct Hr as [H1 H2].
  split.
  - apply text_eqb_eq in H2. pose proof (refs_valid H s a ps R Hs) as V. unfold by_reference in *. rewrite <- H2. exact V.
  - intros C. apply texts_eqb_eq in C. rewrite C in H1. discriminate.
Qed.
