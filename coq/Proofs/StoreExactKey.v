(* C02, exactness of remove_key (strict and non-strict): exactly the dependency closure of the
   specification goes (strict: every annotation using a data item of the key; non-strict: those
   all of whose data belongs to the key; in both modes the annotations that target the key or one
   of its data items; and everything that reaches one of them), and every survivor keeps
   everything but the data items of the key. *)
From Stam Require Import Base.Tac Base.ListAux Model.Offset Model.Store Model.StoreObs Spec.StoreSpec
     Proofs.RelMap Proofs.StoreScan Proofs.StoreInv Proofs.StoreDataDef Proofs.StoreRemove Proofs.StoreRemove2
     Proofs.StoreRemove3 Proofs.StoreData Proofs.StoreSets Proofs.StoreExact Proofs.StoreExactData.

Definition kroot (ds : dset) (d k : nat) (strict : bool) (a : ann) : bool :=
  (if strict then uses_key ds d k a else only_key ds d k a) || has_leaf (on_key_data ds d k) a.

Lemma deps_key_unfold s ds d k strict : deps_key s ds d k strict = closure s (scan s (kroot ds d k strict)).
Proof. reflexivity. Qed.

(* the annotation without the data items [done] of dataset d *)
Definition in_done (done : list nat) (d : nat) (dx : nat * nat) : bool :=
  Nat.eqb (fst dx) d && existsb (Nat.eqb (snd dx)) done.
Definition stripk (done : list nat) (d : nat) (a : ann) : ann :=
  mkann (a_id a) (filter (fun dx => negb (in_done done d dx)) (a_data a)) (a_kind a) (a_leaves a).

Lemma filter_filter {A} (f g : A -> bool) l : filter f (filter g l) = filter (fun p => g p && f p) l.
Proof.
  induction l as [|p l IH]; cbn [filter]; [reflexivity|]. destruct (g p); cbn [andb filter]; [|exact IH].
  destruct (f p); rewrite IH; reflexivity.
Qed.

Lemma stripk_nil d a : stripk [] d a = a.
Proof.
  unfold stripk, in_done. cbn [existsb]. replace (filter _ (a_data a)) with (a_data a); [destruct a; reflexivity|].
  induction (a_data a) as [|p l IH]; cbn [filter]; [reflexivity|]. rewrite andb_false_r. cbn [negb]. rewrite <- IH. reflexivity.
Qed.

Lemma stripk_cons done d x a : ann_remove_data (stripk done d a) d x = stripk (x :: done) d a.
Proof.
  unfold ann_remove_data, stripk. cbn [a_id a_data a_kind a_leaves]. f_equal. rewrite filter_filter.
  apply filter_ext. intros p. unfold in_done. cbn [existsb].
  destruct (fst p =? d); cbn [andb negb]; [|reflexivity].
  rewrite (Nat.eqb_sym (snd p) x). destruct (x =? snd p); cbn [orb negb andb]; [rewrite andb_false_r; reflexivity|rewrite andb_true_r; reflexivity].
Qed.

Lemma uses_stripk done d x a : ~ In x done -> uses_data d x (stripk done d a) = uses_data d x a.
Proof.
  intros Hn. unfold uses_data, stripk. cbn [a_data]. induction (a_data a) as [|p l IH]; cbn [filter existsb]; [reflexivity|].
  destruct (in_done done d p) eqn:E; cbn [negb existsb]; [|rewrite IH; reflexivity].
  rewrite IH. unfold in_done in E. apply andb_prop in E. destruct E as [E1 E2].
  apply existsb_exists in E2. destruct E2 as (z & Hz & Ez). apply Nat.eqb_eq in Ez.
  destruct (snd p =? x) eqn:Ex; [|rewrite andb_false_r; reflexivity].
  apply Nat.eqb_eq in Ex. exfalso. apply Hn. congruence.
Qed.

Lemma uses_stripk_incl done d x a : uses_data d x (stripk done d a) = true -> uses_data d x a = true.
Proof.
  unfold uses_data, stripk. cbn [a_data]. intros H. apply existsb_exists in H. destruct H as (p & Hp & Hq).
  apply filter_In in Hp. apply existsb_exists. exists p. tauto.
Qed.

(* reaching and dying only look at targets *)
Definition same_targets (s0 s : store) : Prop :=
  forall y a', get_ann s y = Some a' -> exists a, get_ann s0 y = Some a /\ a_leaves a' = a_leaves a.

Lemma reach_sub s0 s D y : same_targets s0 s -> reach s D y -> reach s0 D y.
Proof.
  intros L H. induction H as [y Hy|y z a Ha Hl _ IH]; [apply reach_base; exact Hy|].
  destruct (L y a Ha) as (a0 & Ha0 & El).
  apply (reach_step s0 D y z a0 Ha0); [|exact IH]. unfold has_leaf in *. rewrite <- El. exact Hl.
Qed.

Lemma dead_of_reach_sub s s' D :
  same_targets s s' -> ann_refs_ok s' ->
  (forall r, In r D -> get_ann s' r = None) ->
  forall x, reach s D x -> get_ann s' x = None.
Proof.
  intros L Hrf Hroots x Hr. induction Hr as [x Hx|x y a Ha Hl _ IH]; [apply Hroots; exact Hx|].
  destruct (get_ann s' x) as [a'|] eqn:E; [|reflexivity]. exfalso.
  destruct (L x a' E) as (a0 & Ha0 & El). rewrite Ha in Ha0. injection Ha0 as <-.
  unfold has_leaf in Hl. rewrite <- El in Hl. apply existsb_exists in Hl. destruct Hl as (lf & Hlf & Hon).
  pose proof (Hrf x a' E lf Hlf) as H0.
  destruct lf; cbn [on_ann] in Hon; try discriminate; apply Nat.eqb_eq in Hon; subst; apply H0; exact IH.
Qed.

Section Key.
Variables (ds : dset) (d k : nat) (strict : bool) (xs : list nat).
Hypothesis Hkey : forall x, In x xs -> exists it, slot (d_data ds) x = Some it /\ x_key it = k.
Hypothesis Hall : forall x it, slot (d_data ds) x = Some it -> x_key it = k -> In x xs.

Record KTrack (s0 : store) (done : list nat) (s : store) : Prop := mkK {
  K_only : forall y, get_ann s0 y <> None -> get_ann s y = None -> reach s0 (scan s0 (kroot ds d k strict)) y;
  K_surv : forall y a', get_ann s y = Some a' -> exists a0, get_ann s0 y = Some a0 /\ a' = stripk done d a0;
  K_ne : forall y a' a0, get_ann s y = Some a' -> get_ann s0 y = Some a0 ->
           (exists x, In x done /\ uses_data d x a0 = true) -> a_data a' <> [];
  K_gone : forall y a0, get_ann s0 y = Some a0 ->
           (strict = true /\ exists x, In x done /\ uses_data d x a0 = true)
           \/ (exists x, In x done /\ has_leaf (on_data d x) a0 = true) -> get_ann s y = None
}.

Lemma KTrack_init s : KTrack s [] s.
Proof.
  constructor.
  - intros y H1 H2. contradiction.
  - intros y a' H. exists a'. split; [exact H|]. symmetry. apply stripk_nil.
  - intros y a' a0 _ _ (x & [] & _).
  - intros y a0 _ [(_ & x & [] & _)|(x & [] & _)].
Qed.

Lemma K_targets s0 done s : KTrack s0 done s -> same_targets s0 s.
Proof. intros K y a' Hy. destruct (K_surv _ _ _ K y a' Hy) as (a0 & Ha0 & ->). exists a0. split; [exact Ha0|reflexivity]. Qed.

Lemma key_of_used x a0 : In x xs -> uses_data d x a0 = true -> uses_key ds d k a0 = true.
Proof.
  intros Hx Hu. unfold uses_data in Hu. apply existsb_exists in Hu. destruct Hu as (p & Hp & Hq).
  apply andb_prop in Hq. destruct Hq as [H1 H2]. apply Nat.eqb_eq in H2.
  unfold uses_key. apply existsb_exists. exists p. split; [exact Hp|]. rewrite H1. cbn [andb].
  destruct (Hkey x Hx) as (it & Hs & Hk). rewrite H2, Hs. apply Nat.eqb_eq. exact Hk.
Qed.

Lemma leaf_of_data x a0 : In x xs -> has_leaf (on_data d x) a0 = true -> has_leaf (on_key_data ds d k) a0 = true.
Proof.
  intros Hx Hl. unfold has_leaf in *. apply existsb_exists in Hl. destruct Hl as (lf & Hlf & Hq).
  apply existsb_exists. exists lf. split; [exact Hlf|]. destruct lf; cbn [on_data on_key_data] in *; try discriminate.
  apply andb_prop in Hq. destruct Hq as [H1 H2]. apply Nat.eqb_eq in H2. rewrite H1. cbn [andb].
  destruct (Hkey x Hx) as (it & Hs & Hk). rewrite H2, Hs. apply Nat.eqb_eq. exact Hk.
Qed.

(* one data item of the key *)
Lemma remove_data_h_KTrack s0 done s x :
  Good s -> KTrack s0 done s -> In x xs -> incl done xs -> ~ In x done ->
  KTrack s0 (x :: done) (fst (remove_data_h s d x strict)).
Proof.
  intros (HI & Hwf & _ & Hrf & _) K Hx Hdone Hnx.
  destruct (remove_data_h_exact s d x strict HI Hwf Hrf) as (A & B). cbv zeta in A, B.
  set (s' := fst (remove_data_h s d x strict)) in *.
  pose proof (K_targets _ _ _ K) as ST.
  assert (Dead : forall y, get_ann s y = None -> get_ann s' y = None).
  { intros y Hy. destruct (get_ann s' y) as [a'|] eqn:E; [|reflexivity]. destruct (B y a' E) as (a & Ha & _). congruence. }
  (* a root of this step is a root of the key *)
  assert (Root : forall c, In c (scan s (droot d x strict)) -> In c (scan s0 (kroot ds d k strict))).
  { intros c Hc. apply scan_member in Hc. destruct Hc as (ai & Hai & Hr).
    destruct (K_surv _ _ _ K c ai Hai) as (a0 & Ha0 & ->). apply scan_member. exists a0. split; [exact Ha0|].
    unfold droot in Hr. unfold kroot. apply orb_true_iff in Hr. apply orb_true_iff. destruct Hr as [Hr|Hr].
    - left. destruct strict.
      + apply (key_of_used x a0 Hx). apply (uses_stripk_incl done d x a0 Hr).
      + unfold only_data in Hr. apply andb_prop in Hr. destruct Hr as [Hu Hf]. unfold only_key.
        rewrite (key_of_used x a0 Hx (uses_stripk_incl done d x a0 Hu)). cbn [andb].
        apply forallb_forall. intros p Hp. destruct (in_done done d p) eqn:E.
        * unfold in_done in E. apply andb_prop in E. destruct E as [E1 E2]. rewrite E1. cbn [andb].
          apply existsb_exists in E2. destruct E2 as (z & Hz & Ez). apply Nat.eqb_eq in Ez.
          destruct (Hkey z (Hdone z Hz)) as (it & Hs & Hk). rewrite Ez, Hs. apply Nat.eqb_eq. exact Hk.
        * rewrite forallb_forall in Hf. assert (Hin : In p (a_data (stripk done d a0))).
          { unfold stripk. cbn [a_data]. apply filter_In. split; [exact Hp|]. rewrite E. reflexivity. }
          specialize (Hf p Hin). apply andb_prop in Hf. destruct Hf as [F1 F2]. rewrite F1. cbn [andb].
          apply Nat.eqb_eq in F2. destruct (Hkey x Hx) as (it & Hs & Hk). rewrite F2, Hs. apply Nat.eqb_eq. exact Hk.
    - right. apply (leaf_of_data x a0 Hx). exact Hr. }
  constructor.
  - intros y Hy0 Hy. destruct (live_dec s y) as [Hd|Hl]; [apply (K_only _ _ _ K); assumption|].
    apply (A y Hl) in Hy. rewrite deps_data_unfold, (closure_live s _ y Hwf Hl) in Hy.
    apply (reach_sub s0 s _ y ST) in Hy. apply (reach_trans s0 (scan s (droot d x strict)) _ y); [|exact Hy].
    intros c Hc. apply reach_base. apply Root. exact Hc.
  - intros y a' Hy. destruct (B y a' Hy) as (ai & Hai & -> & _).
    destruct (K_surv _ _ _ K y ai Hai) as (a0 & Ha0 & ->). exists a0. split; [exact Ha0|apply stripk_cons].
  - intros y a' a0 Hy Ha0 (z & Hz & Hu). destruct (B y a' Hy) as (ai & Hai & He & Hne).
    destruct (K_surv _ _ _ K y ai Hai) as (a0' & Ha0' & Hs). rewrite Ha0 in Ha0'. injection Ha0' as <-.
    destruct (uses_data d x ai) eqn:U; [apply Hne; reflexivity|].
    destruct Hz as [<-|Hz].
    + rewrite Hs, (uses_stripk done d x a0 Hnx) in U. congruence.
    + rewrite He, (ann_remove_data_id ai d x U). apply (K_ne _ _ _ K y ai a0 Hai Ha0). exists z. tauto.
  - intros y a0 Ha0 Hcase.
    destruct (live_dec s y) as [Hd|Hl]; [apply Dead; exact Hd|].
    destruct (get_ann s y) as [ai|] eqn:Hai; [|contradiction].
    assert (Hl' : get_ann s y <> None) by (rewrite Hai; discriminate).
    destruct (K_surv _ _ _ K y ai Hai) as (a0' & Ha0' & Hs). rewrite Ha0 in Ha0'. injection Ha0' as <-.
    assert (Old : (strict = true /\ exists z, In z done /\ uses_data d z a0 = true)
                  \/ (exists z, In z done /\ has_leaf (on_data d z) a0 = true) -> get_ann s' y = None).
    { intros H. apply Dead. apply (K_gone _ _ _ K y a0 Ha0 H). }
    assert (New : (strict = true /\ uses_data d x a0 = true) \/ has_leaf (on_data d x) a0 = true -> get_ann s' y = None).
    { intros H. apply (A y Hl'). rewrite deps_data_unfold, (closure_live s _ y Hwf Hl'). apply reach_base.
      apply scan_member. exists ai. split; [exact Hai|]. unfold droot. apply orb_true_iff.
      destruct H as [(Hst & Hu)|Hlf].
      - left. rewrite Hst, Hs, (uses_stripk done d x a0 Hnx). exact Hu.
      - right. rewrite Hs. exact Hlf. }
    destruct Hcase as [(Hst & z & [<-|Hz] & Hu)|(z & [<-|Hz] & Hlf)].
    + apply New. left. tauto.
    + apply Old. left. split; [exact Hst|]. exists z. tauto.
    + apply New. right. exact Hlf.
    + apply Old. right. exists z. tauto.
Qed.

Lemma fold_remove_data_KTrack : forall us s0 done s,
  NoDup us -> incl us xs -> incl done xs -> (forall x, In x us -> ~ In x done) ->
  Good s -> KTrack s0 done s ->
  let s1 := fold_left (fun s x => fst (remove_data_h s d x strict)) us s in
  Good s1 /\ exists done', (forall x, In x done' <-> In x us \/ In x done) /\ KTrack s0 done' s1.
Proof.
  induction us as [|x us IH]; intros s0 done s Hnd Hus Hdone Hfresh G K; cbn [fold_left].
  - split; [exact G|]. exists done. split; [intros x; split; [tauto|intros [[]|H]; exact H]|exact K].
  - inversion Hnd as [|? ? Hna Hnd']; subst.
    pose proof (remove_data_h_KTrack s0 done s x G K (Hus x (or_introl eq_refl)) Hdone (Hfresh x (or_introl eq_refl))) as K1.
    pose proof (remove_data_h_Good s d x strict G) as G1.
    assert (Hdone1 : incl (x :: done) xs) by (intros z [<-|Hz]; [apply Hus; left; reflexivity|apply Hdone; exact Hz]).
    assert (Hfresh1 : forall z, In z us -> ~ In z (x :: done)).
    { intros z Hz [<-|Hd]; [exact (Hna Hz)|]. apply (Hfresh z (or_intror Hz) Hd). }
    destruct (IH s0 (x :: done) _ Hnd' (fun z Hz => Hus z (or_intror Hz)) Hdone1 Hfresh1 G1 K1) as (G2 & done' & Hd' & K2).
    split; [exact G2|]. exists done'. split; [|exact K2].
    intros z. rewrite Hd'. cbn [In]. split; [intros [H|[<-|H]]|intros [[<-|H]|H]]; auto.
Qed.

End Key.

(** * remove_key is exact *)
Theorem rm_key_exact s dr kr strict d ds k tok :
  Good s -> SetsInv s ->
  to_handle (sidx s) dr = Some d -> get_set s d = Some ds -> to_handle (d_kidx ds) kr = Some k ->
  slot (d_keys ds) k = Some tok ->
  let s' := fst (rm_key s dr kr strict) in
  (forall y, get_ann s y <> None -> (get_ann s' y = None <-> In y (deps_key s ds d k strict)))
  /\ (forall y a', get_ann s' y = Some a' -> exists a, get_ann s y = Some a /\ a' = stripk (s_key_data ds k) d a).
Proof.
  intros G HS Hd Hds Hk Htok. pose proof G as (HI & Hwf & _ & Hrf & _).
  pose proof (HS d ds Hds) as DI.
  set (xs := rget (d_k2x ds) k).
  assert (Exs : xs = s_key_data ds k) by apply (D_k2x ds DI).
  assert (Hin : forall x, In x xs <-> exists it, slot (d_data ds) x = Some it /\ x_key it = k).
  { intros x. rewrite Exs, s_key_data_l. apply s_key_datal_In. }
  assert (Hkey : forall x, In x xs -> exists it, slot (d_data ds) x = Some it /\ x_key it = k) by (intros x; apply Hin).
  assert (Hall : forall x it, slot (d_data ds) x = Some it -> x_key it = k -> In x xs) by (intros x it H1 H2; apply Hin; exists it; tauto).
  assert (Hnd : NoDup xs) by (rewrite Exs, s_key_data_l; apply s_key_datal_NoDup).
  destruct (fold_remove_data_KTrack ds d k strict xs Hkey xs s [] s Hnd (incl_refl xs) (fun z Hz => match Hz with end)
              (fun z _ Hz => Hz) G (KTrack_init ds d k strict s)) as (G1 & done & Hdone & K).
  cbv zeta in G1, K.
  destruct (fold_remove_data_sets d strict xs s ds Hds) as (ds1 & A1 & A2 & _). cbv zeta in A1.
  unfold rm_key. rewrite Hd, Hds, Hk. fold xs.
  set (s1 := fold_left (fun s x => fst (remove_data_h s d x strict)) xs s) in *.
  rewrite A1, A2, Htok. cbn [fst].
  pose proof G1 as (HI1 & Hwf1 & _ & Hrf1 & _).
  set (ds' := mkset _ _ _ _ _ _).
  set (s2 := set_sets s1 (set_slot (sets s1) d (Some ds'))).
  assert (HI2 : Inv s2).
  { destruct HI1 as [H1 H2 H3 H4 H5 H6 H7]. constructor; intros; [apply H1|apply H2|apply H3|apply H4|apply H5|apply H6|apply H7; assumption]. }
  assert (Hwf2 : wf_targets s2) by (apply (wf_frame s1 s2); [reflexivity|exact Hwf1]).
  assert (Hrf2 : ann_refs_ok s2) by (apply (ann_refs_frame s1 s2); [reflexivity|exact Hrf1]).
  destruct (remove_anns_Post noex (tget (kamm s2) d k) s2 HI2 Hwf2) as (P3 & D3).
  pose proof (remove_anns_only noex (tget (kamm s2) d k) s2 HI2 Hwf2) as O3.
  set (s3 := remove_anns s2 (tget (kamm s2) d k)) in *.
  change (get_ann (set_kamm s3 (tclear2 (kamm s3) d k))) with (get_ann s3).
  assert (Hdone' : forall x, In x done <-> In x xs) by (intros x; rewrite Hdone; cbn [In]; tauto).
  pose proof (K_targets ds d k strict s done s1 K) as ST1.
  assert (ST3 : same_targets s s3).
  { intros y a' Hy. apply (ST1 y a'). apply (P_sub _ _ _ _ P3 y a' Hy). }
  split.
  - intros y Hy. rewrite deps_key_unfold, (closure_live s _ y Hwf Hy). split.
    + intros Hd3. destruct (live_dec s1 y) as [Hd1|Hl1]; [apply (K_only _ _ _ _ _ _ _ K); assumption|].
      pose proof (O3 y Hl1 Hd3) as Hr. apply (reach_sub s s2 _ y ST1) in Hr.
      apply (reach_trans s (tget (kamm s2) d k) _ y); [|exact Hr].
      intros c Hc. apply reach_base. rewrite (I_kamm _ s2 HI2) in Hc. apply scan_member in Hc. destruct Hc as (a1 & Ha1 & Hlf).
      destruct (ST1 c a1 Ha1) as (a0 & Ha0 & El). apply scan_member. exists a0. split; [exact Ha0|].
      unfold kroot. apply orb_true_iff. right. unfold has_leaf in *. rewrite <- El.
      apply existsb_exists in Hlf. destruct Hlf as (lf & Hlf & Hq). apply existsb_exists. exists lf. split; [exact Hlf|].
      destruct lf; cbn [on_key on_key_data] in *; try discriminate. exact Hq.
    + apply (dead_of_reach_sub s s3 _ ST3 (P_closed _ _ _ _ P3 Hrf2)).
      intros r Hr. apply scan_member in Hr. destruct Hr as (a0 & Ha0 & Hroot).
      destruct (get_ann s3 r) as [a3|] eqn:E3; [exfalso|reflexivity].
      pose proof (P_sub _ _ _ _ P3 r a3 E3) as E1. change (get_ann s2 r) with (get_ann s1 r) in E1.
      unfold kroot in Hroot. apply orb_true_iff in Hroot. destruct Hroot as [Hu|Hm].
      * destruct strict.
        -- unfold uses_key in Hu. apply existsb_exists in Hu. destruct Hu as (p & Hp & Hq). apply andb_prop in Hq. destruct Hq as [Q1 Q2].
           destruct (slot (d_data ds) (snd p)) as [it|] eqn:Es; [|discriminate]. apply Nat.eqb_eq in Q2.
           assert (Hx : In (snd p) done) by (apply Hdone', (Hall (snd p) it Es Q2)).
           rewrite (K_gone _ _ _ _ _ _ _ K r a0 Ha0) in E1; [discriminate|]. left. split; [reflexivity|]. exists (snd p). split; [exact Hx|].
           unfold uses_data. apply existsb_exists. exists p. split; [exact Hp|]. rewrite Q1, Nat.eqb_refl. reflexivity.
        -- unfold only_key in Hu. apply andb_prop in Hu. destruct Hu as [Hu Hf].
           destruct (K_surv _ _ _ _ _ _ _ K r a3 E1) as (a0' & Ha0' & Hs). rewrite Ha0 in Ha0'. injection Ha0' as <-.
           apply (K_ne _ _ _ _ _ _ _ K r a3 a0 E1 Ha0).
           ++ unfold uses_key in Hu. apply existsb_exists in Hu. destruct Hu as (p & Hp & Hq). apply andb_prop in Hq. destruct Hq as [Q1 Q2].
              destruct (slot (d_data ds) (snd p)) as [it|] eqn:Es; [|discriminate]. apply Nat.eqb_eq in Q2.
              exists (snd p). split; [apply Hdone', (Hall (snd p) it Es Q2)|].
              unfold uses_data. apply existsb_exists. exists p. split; [exact Hp|]. rewrite Q1, Nat.eqb_refl. reflexivity.
           ++ rewrite Hs. unfold stripk. cbn [a_data]. rewrite forallb_forall in Hf.
              assert (F : forall l, (forall p, In p l -> In p (a_data a0)) -> filter (fun dx => negb (in_done done d dx)) l = []).
              { induction l as [|p l IHl]; intros Hl; [reflexivity|]. cbn [filter].
                pose proof (Hf p (Hl p (or_introl eq_refl))) as Hq. apply andb_prop in Hq. destruct Hq as [Q1 Q2].
                destruct (slot (d_data ds) (snd p)) as [it|] eqn:Es; [|discriminate]. apply Nat.eqb_eq in Q2.
                assert (Hx : In (snd p) done) by (apply Hdone', (Hall (snd p) it Es Q2)).
                assert (E : in_done done d p = true).
                { unfold in_done. rewrite Q1. cbn [andb]. apply existsb_exists. exists (snd p). split; [exact Hx|apply Nat.eqb_refl]. }
                rewrite E. cbn [negb]. apply IHl. intros q Hq. apply Hl. right. exact Hq. }
              apply F. tauto.
      * unfold has_leaf in Hm. apply existsb_exists in Hm. destruct Hm as (lf & Hlf & Hq).
        destruct lf; cbn [on_key_data] in Hq; try discriminate.
        -- (* targets the key: still indexed, removed by the last loop *)
           assert (Hin3 : In r (tget (kamm s2) d k)).
           { rewrite (I_kamm _ s2 HI2). apply scan_member. exists a3. split; [exact E1|].
             destruct (ST1 r a3 E1) as (a0' & Ha0' & El). rewrite Ha0 in Ha0'. injection Ha0' as <-.
             unfold has_leaf. rewrite El. apply existsb_exists. exists (LKey d0 k0). split; [exact Hlf|exact Hq]. }
           rewrite (D3 r Hin3) in E3. discriminate.
        -- (* targets a data item of the key *)
           apply andb_prop in Hq. destruct Hq as [Q1 Q2]. destruct (slot (d_data ds) x) as [it|] eqn:Es; [|discriminate]. apply Nat.eqb_eq in Q2.
           rewrite (K_gone _ _ _ _ _ _ _ K r a0 Ha0) in E1; [discriminate|]. right. exists x. split; [apply Hdone', (Hall x it Es Q2)|].
           unfold has_leaf. apply existsb_exists. exists (LData d0 x). split; [exact Hlf|]. cbn [on_data]. rewrite Q1, Nat.eqb_refl. reflexivity.
  - intros y a' Hy. pose proof (P_sub _ _ _ _ P3 y a' Hy) as Hy1. change (get_ann s2 y) with (get_ann s1 y) in Hy1.
    destruct (K_surv _ _ _ _ _ _ _ K y a' Hy1) as (a0 & Ha0 & ->). exists a0. split; [exact Ha0|].
    unfold stripk. f_equal. apply filter_ext. intros p. unfold in_done. f_equal. f_equal.
    rewrite <- Exs. destruct (existsb (Nat.eqb (snd p)) done) eqn:E1.
    + apply existsb_exists in E1. destruct E1 as (z & Hz & Ez). symmetry. apply existsb_exists. exists z. split; [apply Hdone'; exact Hz|exact Ez].
    + destruct (existsb (Nat.eqb (snd p)) xs) eqn:E2; [|reflexivity].
      apply existsb_exists in E2. destruct E2 as (z & Hz & Ez). rewrite <- E1. apply existsb_exists. exists z. split; [apply Hdone'; exact Hz|exact Ez].
Qed.
