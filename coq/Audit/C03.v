From Coq Require Import NArith.
From Stam Require Import Base.Tac Model.Offset Model.Store Model.StoreObs Model.TempId Model.Reindex
     Spec.StoreSpec Spec.IdSpec Proofs.StoreSets Proofs.StoreIds Proofs.TempId Proofs.IdLookup Props.C03.
Check (C03_id_maps_exact : forall ops, IdInv (run ops)).
Check (C03_dataset_id_maps_exact : forall ops, Forall op_ok ops -> SetsInv (run ops)).
Check (@C03_lookup_any_string : forall {X} (k : kind) (l : list (option X)) (idof : X -> option nat) (m : idmap) (s : list N),
  exact idof l m -> (N.of_nat (length l) <= width k)%N ->
  (match lookup_str k l m s with Some h => [h] | None => [] end) = spec_lookup_str k l idof s).
Check (C03_temp_id_roundtrip : forall k h, (h < width k)%N -> temp_resolve k (temp_id k h) = Some h).
Check (C03_temp_id_one_kind : forall k k' s n n',
  temp_resolve k s = Some n -> temp_resolve k' s = Some n' -> k = k').
Check (@C03_reindex_never_redirects : forall {X} (l : list (option X)) (m : idmap) tok h it,
  id_get m tok = Some h -> slot l h = Some it ->
  exists h', id_get (reindex_idmap (gaps l) m) tok = Some h' /\ slot (reindex_store l) h' = Some it).
Print Assumptions C03_id_maps_exact.
Print Assumptions C03_dataset_id_maps_exact.
Print Assumptions C03_resolve_is_scan.
Print Assumptions C03_lookup_any_string.
Print Assumptions C03_temp_id_roundtrip.
Print Assumptions C03_temp_id_one_kind.
Print Assumptions C03_temp_id_sound.
Print Assumptions C03_reindex_rank.
Print Assumptions C03_reindex_never_redirects.
