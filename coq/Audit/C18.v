From Coq Require Import NArith.
From Stam Require Import Base.Tac Model.Offset Model.Utf8 Model.Store Model.Validate
     Spec.StoreSpec Spec.ValidateSpec Proofs.StoreInv Proofs.StoreSets Proofs.ValidateJoin Proofs.ValidateProtect Proofs.ValidateReload Proofs.StoreSel Proofs.StoreRange Proofs.ValidateNest Props.C18.
Check (C18_join_determines_pieces : forall d ps qs,
  map (@length N) ps = map (@length N) qs -> text_join d ps = text_join d qs -> ps = qs).
Check (C18_validate_is_reference_check : forall H txts s a,
  validate_ann H txts s a = by_reference H s a (ann_pieces txts s a)).
Check (C18_histories_invariants : forall ops, Forall op_ok ops -> W (run ops)).
Check (C18_protect_total : forall H txts s m, W s -> snd (protect H txts s m) = OOk 0).
Check (C18_protect_inv : forall H txts s m, W s -> W (fst (protect H txts s m))).
Check (C18_protect_valid : forall H txts s m, W s ->
  forall y a0, get_ann s y = Some a0 -> carries_info s a0 = false ->
  exists a1, get_ann (fst (protect H txts s m)) y = Some a1
             /\ validate_ann H txts (fst (protect H txts s m)) a1 = demand_protected txts s a0).
Check (C18_detects : forall H txts txts' s m, W s ->
  map (@length N) txts = map (@length N) txts' ->
  forall y a0, get_ann s y = Some a0 -> carries_info s a0 = false ->
  let d := odflt (ann_vstr s a0 KDEL) in
  H_inj_on H [text_join d (ann_pieces txts s a0); text_join d (ann_pieces txts' s a0)] ->
  exists a1, get_ann (fst (protect H txts s m)) y = Some a1
             /\ validate_ann H txts' (fst (protect H txts s m)) a1 = demand_edited txts txts' s a0).
Check (C18_detects_text_reference : forall H txts txts' s m, W s ->
  map (@length N) txts = map (@length N) txts' ->
  forall y a0, get_ann s y = Some a0 -> carries_info s a0 = false ->
  snd (mode_flags m (ranges_len (ann_ranges s a0))) = true ->
  exists a1, get_ann (fst (protect H txts s m)) y = Some a1
             /\ validate_ann H txts' (fst (protect H txts s m)) a1 = demand_edited txts txts' s a0).
Check (C18_invalid_iff_differs : forall txts txts' s a,
  demand_edited txts txts' s a = Some false <-> (selects_text txts s a = true /\ selected txts s a <> selected txts' s a)).
Print Assumptions C18_reachable_invariants.
Print Assumptions C18_histories_invariants.
Print Assumptions C18_protect_total.
Print Assumptions C18_protect_inv.
Print Assumptions C18_protect_index_exact.
Print Assumptions C18_protect_valid.
Print Assumptions C18_protect_same_slots.
Print Assumptions C18_detects.
Print Assumptions C18_detects_text_reference.
Print Assumptions C18_invalid_iff_differs.
Print Assumptions C18_join_determines_pieces.
Print Assumptions C18_validate_is_reference_check.
Print Assumptions C18_references_validate.
Print Assumptions C18_references_detect.
Print Assumptions C18_references_detect_text_mode.
Print Assumptions C18_code_order_irrelevant.
Print Assumptions Known_C18_regrouped_witness.
Print Assumptions C18_other_length_guarded.
Print Assumptions Known_C18_regrouped_refuted.
Print Assumptions C18_same_length_same_selection.
Print Assumptions C18_same_parent_same_selection.
Check (C18_same_lengths_same_selections : forall s lens, W2 s ->
  (forall r rs, get_res s r = Some rs -> lens r = r_len rs) ->
  reresolve s lens = Some (live_ranges s (seq 0 (length (anns s))))).
Check (C18_reload_same_lengths : forall H txts txts' s m, reach s -> texts_fit s txts ->
  map (@length N) txts = map (@length N) txts' ->
  let s' := fst (protect H txts s m) in
  reload_verdicts H s' txts' = Some (map (validate_ann H txts' s') (live_anns s'))).
Check (C18_histories_ranges : forall ops, Forall op_ok ops -> W2 (run ops)).
Print Assumptions C18_reachable_ranges.
Print Assumptions C18_histories_ranges.
Print Assumptions C18_same_lengths_same_selections.
Print Assumptions C18_reload_same_lengths.
