From Coq Require Import NArith.
From Stam Require Import Base.Tac Model.Offset Model.Utf8 Model.Store Model.Validate
     Spec.ValidateSpec Proofs.ValidateJoin Props.C18.
Check (C18_join_determines_pieces : forall d ps qs,
  map (@length N) ps = map (@length N) qs -> text_join d ps = text_join d qs -> ps = qs).
Check (C18_validate_is_reference_check : forall H txts s a,
  validate_ann H txts s a = by_reference H s a (ann_pieces txts s a)).
Print Assumptions C18_join_determines_pieces.
Print Assumptions C18_validate_is_reference_check.
Print Assumptions C18_references_validate.
Print Assumptions C18_references_detect.
Print Assumptions C18_references_detect_text_mode.
Print Assumptions C18_code_order_irrelevant.
