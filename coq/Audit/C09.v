From Coq Require Import List ZArith NArith Bool.
Import ListNotations.
From Stam Require Import Model.StamqlLex Model.Stamql Spec.StamqlSpec Proofs.StamqlLex Proofs.StamqlTotal Proofs.StamqlFix Props.C09.
Check (C09_get_arg_total : forall dt s, get_arg dt s <> Panic /\ get_arg dt s <> Fuel).
Check (C09_slice_safe : forall kw qs,
  str_eqb (split_first qs) kw = true -> exists r, qs = kw ++ r /\ strip kw qs = Ok r).
Check (C09_numeric_safe : forall dt op v quoted,
  parse_dataoperator dt op v (get_arg_type dt v quoted) <> Panic
  /\ parse_dataoperator dt op v (get_arg_type dt v quoted) <> Fuel).
Check (C09_float_never_lexed : forall dt s quoted, get_arg_type dt s quoted <> TFloat).
Check (C09_parse_total : forall (dt : str -> option str) (re : str -> bool) (s : str),
  parse_query dt re s <> Panic /\ parse_query dt re s <> Fuel).
Check (C09_try_from_total : forall (dt : str -> option str) (re : str -> bool) (s : str),
  query_try_from dt re s <> Panic /\ query_try_from dt re s <> Fuel).
Check (C09_dataop_fixpoint : forall dt o t rest, op_ok dt o -> print_dataop o = Some t ->
  read_op dt (t ++ c_semicolon :: rest) = Ok (o, c_semicolon :: rest)).
Check (C09_print_parse_fix_partial : forall dt re f c t rest,
  wf_constr dt re c = true -> class_free dt c = true -> (forall l, c <> CUnion l) ->
  print_constraint c = Some t -> no_trail (t ++ rest) ->
  parse_constraint dt re (S f) (t ++ rest) = Ok (c, [], trim_start rest)).
Check (C09_print_parse_fix_statement : Prop).
Check (Known_C09_quote_witness : refuted (sel [CId [97; 98; 92]%N]) 2).
Print Assumptions C09_get_arg_total.
Print Assumptions C09_parse_name_total.
Print Assumptions C09_parse_attributes_total.
Print Assumptions C09_slice_safe.
Print Assumptions C09_slice_safe_prefix.
Print Assumptions C09_numeric_safe.
Print Assumptions C09_float_never_lexed.
Print Assumptions C09_constraint_total.
Print Assumptions C09_parse_total.
Print Assumptions C09_try_from_total.
Print Assumptions C09_remainder_bounded.
Print Assumptions C09_quoted_token.
Print Assumptions C09_raw_token.
Print Assumptions C09_integer_roundtrip.
Print Assumptions C09_cursor_roundtrip.
Print Assumptions C09_offset_roundtrip.
Print Assumptions C09_dataop_fixpoint.
Print Assumptions C09_print_parse_fix_partial.
Print Assumptions Known_C09_assignments_witness.
Print Assumptions Known_C09_quote_witness.
Print Assumptions Known_C09_rawvar_witness.
Print Assumptions Known_C09_float_witness.
Print Assumptions Known_C09_keyword_witness.
Print Assumptions Known_C09_depth_witness.
Print Assumptions Known_C09_keyvaluevar_witness.
Print Assumptions Known_C09_relation_witness.
Print Assumptions Known_C09_any_witness.
Print Assumptions C09_nonvacuous.
