From Coq Require Import List ZArith NArith Bool.
From Stam Require Import Model.StamqlLex Model.Stamql Proofs.StamqlLex Props.C09.
Check (C09_get_arg_total : forall dt s, get_arg dt s <> Panic /\ get_arg dt s <> Fuel).
Print Assumptions C09_get_arg_total.
