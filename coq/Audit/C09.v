From Coq Require Import List ZArith NArith Bool.
From Stam Require Import Model.StamqlLex Model.Stamql Proofs.StamqlLex Proofs.StamqlTotal Props.C09.
Check (C09_get_arg_total : forall dt s, get_arg dt s <> Panic /\ get_arg dt s <> Fuel).
Check (C09_slice_safe : forall kw qs,
  str_eqb (split_first qs) kw = true -> exists r, qs = kw ++ r /\ strip kw qs = Ok r).
Check (C09_numeric_safe : forall dt op v quoted,
  parse_dataoperator dt op v (get_arg_type dt v quoted) <> Panic
  /\ parse_dataoperator dt op v (get_arg_type dt v quoted) <> Fuel).
Check (C09_float_never_lexed : forall dt s quoted, get_arg_type dt s quoted <> TFloat).
Check (C09_parse_total : forall (dt : str -> option str) (re : str -> bool) (s : str),
  parse_query dt re s <> Panic /\ parse_query dt re s <> Fuel).
Check (C09_try_from_total : forall (dt : str -> option str) (re : str -> bool) (s : str),
  query_try_from dt re s <> Panic /\ query_try_from dt re s <> Fuel).
Print Assumptions C09_get_arg_total.
Print Assumptions C09_parse_name_total.
Print Assumptions C09_parse_attributes_total.
Print Assumptions C09_slice_safe.
Print Assumptions C09_slice_safe_prefix.
Print Assumptions C09_numeric_safe.
Print Assumptions C09_float_never_lexed.
Print Assumptions C09_constraint_total.
Print Assumptions C09_parse_total.
Print Assumptions C09_try_from_total.
Print Assumptions C09_remainder_bounded.
