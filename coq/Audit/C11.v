From Coq Require Import String.
From Coq Require Import List Bool NArith.
Import ListNotations.
From Stam Require Import Model.Cbor Spec.CborSpec Proofs.Cbor Proofs.AgreeCbor Gen.CborSchema Props.C11.
Check (C11_roundtrip_generic : forall (S : schema), wf_schema S = true ->
  forall t v rest, ty_wf S t = true -> ht S t v = true ->
  dec S (Datatypes.S (vdepth v)) t (enc S t v ++ rest) = Some (reload S t v, rest)).
Check (C11_schema_wf : wf_schema extracted_schema = true).
Check (C11_store_roundtrip : forall v rest,
  ht extracted_schema (TRef (i_ "AnnotationStore")) v = true ->
  dec extracted_schema (S (vdepth v)) (TRef (i_ "AnnotationStore")) (enc extracted_schema (TRef (i_ "AnnotationStore")) v ++ rest)
  = Some (reload extracted_schema (TRef (i_ "AnnotationStore")) v, rest)).
Check (C11_skipped_rederivable : only_allowed_erased extracted_schema = true /\ codecs_known extracted_schema = true).
Check (C11_reload_at_rest : forall (S : schema), wf_schema S = true ->
  forall t v, ty_wf S t = true -> ht S t v = true ->
  ht S t (reload S t v) = true /\ reload S t (reload S t v) = reload S t v).
Check (C11_encoding_wellformed : forall (S : schema), wf_schema S = true ->
  forall t v, ty_wf S t = true -> ht S t v = true -> wellformed_items 1 (enc S t v) = true).
Check (C11_file_roundtrip : forall (S : schema), wf_schema S = true ->
  forall t v, ty_wf S t = true -> ht S t v = true ->
  forallb tok_ok (enc S t v) = true -> vdepth v <= length (enc S t v) ->
  load_bytes S t (save_bytes S t v) = Some (reload S t v)).
Check (C11_bytes_roundtrip : forall ts fuel, forallb tok_ok ts = true -> length ts <= fuel ->
  toks_of_bytes fuel (bytes_of_toks ts) = Some ts).
Check (C11_derive_writes_slot_array : forall fs encs nils,
  nodup_nat (idxs fs) = true -> length encs = length fs -> length nils = length fs ->
  enc_rec fs encs nils = enc_rec_spec fs encs nils).
Print Assumptions C11_roundtrip_generic.
Print Assumptions C11_schema_wf.
Print Assumptions C11_store_roundtrip.
Print Assumptions C11_skipped_rederivable.
Print Assumptions C11_reload_at_rest.
Print Assumptions C11_second_generation.
Print Assumptions C11_file_determines_store.
Print Assumptions C11_encoding_wellformed.
Print Assumptions C11_bytes_roundtrip.
Print Assumptions C11_file_roundtrip.
Print Assumptions C11_derive_writes_slot_array.
