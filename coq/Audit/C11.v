From Coq Require Import String.
From Coq Require Import List Bool NArith.
Import ListNotations.
From Stam Require Import Model.Cbor Spec.CborSpec Proofs.Cbor Proofs.AgreeCbor Gen.CborSchema Props.C11.
Check (C11_roundtrip_generic : forall (S : schema), wf_schema S = true ->
  forall t v rest, ty_wf S t = true -> ht S t v = true ->
  dec S (Datatypes.S (vdepth v)) t (enc S t v ++ rest) = Some (reload S t v, rest)).
Check (C11_schema_wf : wf_schema extracted_schema = true).
Check (C11_store_roundtrip : forall v rest,
  ht extracted_schema (TRef (i_ "AnnotationStore")) v = true ->
  dec extracted_schema (S (vdepth v)) (TRef (i_ "AnnotationStore")) (enc extracted_schema (TRef (i_ "AnnotationStore")) v ++ rest)
  = Some (reload extracted_schema (TRef (i_ "AnnotationStore")) v, rest)).
Check (C11_skipped_rederivable : only_allowed_erased extracted_schema = true /\ codecs_known extracted_schema = true).
Print Assumptions C11_roundtrip_generic.
Print Assumptions C11_schema_wf.
Print Assumptions C11_store_roundtrip.
Print Assumptions C11_skipped_rederivable.
