From Coq Require Import List NArith ZArith.
From Stam Require Import Model.Offset Model.Json Model.TempId Model.StamJson Spec.StamJsonSpec Proofs.StamJson Proofs.StamJsonSave
     Proofs.StamJsonLoad Proofs.StamJsonAnn Proofs.StamJsonWhole Proofs.StamJsonSub
     Model.Store Model.StamJsonView Proofs.StoreSets Proofs.CsvReach Proofs.StamJsonReach
     Proofs.StamJsonSubLoad Proofs.StamJsonMask Proofs.StamJsonSubWhole Props.C05.
Check (C05_value_codec : forall v, parse_val (json_of_val v) = Some v).
Check (C05_selector_codec : forall k ls, target_ok k ls -> parse_target (json_of_target k ls) = Some (k, ls)).
Check (C05_document_codec : forall b, bstore_ok b -> parse_bstore (json_of_bstore b) = Some b).
Check (C05_roundtrip : forall s, wf_dstore s = true ->
  exists d s', encode s = Some d /\ decode d = Some s' /\ (exists c, canon s = Some c /\ canon s' = Some c) /\ encode s' = Some d).
Check (C05_decode_encode : forall s c, wf_dstore s = true -> canon s = Some c ->
  exists s', decode (encode_c c) = Some s' /\ canon s' = Some c).
Print Assumptions C05_roundtrip.
Print Assumptions C05_decode_encode.
Print Assumptions C05_encode_respects_model.
Print Assumptions C05_wellformed_writable.
Print Assumptions C05_gapfill_places.
Print Assumptions C05_gapfill_public.
Print Assumptions Known_C05_substore_order_witness.
Check (C05_save_modify_save : forall st current,
  Reached st current -> NoDup (map fst current) ->
  forall f c, file_get current f = Some c -> file_get (fs_disk (flush current st)) f = Some c).
Print Assumptions C05_save_modify_save.
Print Assumptions C05_flags_are_enough.
Print Assumptions C05_histories_with_saves.
Print Assumptions C05_value_codec.
Print Assumptions C05_int_literal.
Print Assumptions C05_float_literal.
Print Assumptions C05_offset_codec.
Print Assumptions C05_selector_codec.
Print Assumptions C05_document_codec.
Print Assumptions Known_C05_reserved_id_witness.
Print Assumptions C05_no_substores_encode.
Print Assumptions C05_no_substores_decode.
Print Assumptions C05_documents_in_order.
Check (C05_reachable_roundtrip : forall ops,
  Forall op_ok ops -> Forall kind_ok ops -> sizes_fit (run ops) -> roundtrip_ok (view (run ops) 0 0)).
Print Assumptions C05_reachable_wellformed.
Print Assumptions C05_reachable_roundtrip.
Print Assumptions C05_reachable_roundtrip_standoff.
Check (C05_substores_roundtrip : forall s ow,
  owners_lt ow (ow_res ow) -> owners_lt ow (ow_set ow) -> owners_lt ow (ow_ann ow) ->
  wf_dstore s = true -> arranged s ow = true ->
  NoDup (map snd (ow_subs ow) ++ file_names s) ->
  exists d s' ow', encode_o s ow = Some d /\ decode_o d = Some (s', ow') /\ same_model s s').
Print Assumptions C05_substores_roundtrip.
Print Assumptions C05_documents_one_by_one.
Print Assumptions C05_restriction_wellformed.
Print Assumptions C05_export_keeps_flags.
