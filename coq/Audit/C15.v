From Coq Require Import List NArith ZArith Bool Arith.
Import ListNotations.
From Stam Require Import Base.Sx Model.Offset Model.Store Model.Loader Model.Csv Spec.CsvSpec Proofs.Loader Proofs.Csv Props.C15.
Check (C15_split_join : forall l, (forall x, In x l -> has_semi x = false) -> l <> [] -> split (join_semi l) = l).
Check (C15_column_shape : forall own l, own ++ push_all l = column_spec own l).
Print Assumptions C15_split_join.
Print Assumptions C15_column_shape.
