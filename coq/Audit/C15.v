From Coq Require Import List NArith ZArith Bool Arith.
Import ListNotations.
From Stam Require Import Base.Sx Model.Offset Model.Store Model.Loader Model.Csv Spec.CsvSpec Proofs.Loader Proofs.StoreIds Proofs.StoreSets Proofs.Csv Proofs.CsvSet Proofs.CsvResolve Proofs.CsvStore Proofs.ValidateProtect Proofs.CsvReach Props.C15.
Check (C15_split_join : forall l, (forall x, In x l -> has_semi x = false) -> l <> [] -> split (join_semi l) = l).
Check (C15_column_shape : forall own l, own ++ push_all l = column_spec own l).
Check (C15_kind_roundtrip : forall k, kind_of_str (kind_str k) = Ok k).
Check (C15_row_roundtrip : forall idcol ds k bs r, pairs_wf ds -> target_wf k bs ->
  assemble idcol (data_columns ds) k (map member_of bs) = Some r ->
  csv_row_now r = Ok {| Loader.ab_id := opt idcol; Loader.ab_data := ds;
                        Loader.ab_target := Some (target_of k bs) |}).
Check (C15_unpack_pack : forall s h a r, store_ok s = true -> get_ann s h = Some a ->
  pack_row s h a = Some r ->
  exists bs ds, map_opt (leaf_build s) (a_leaves a) = Some bs /\ data_names s a = Some ds /\
    csv_row_now r = Ok {| Loader.ab_id := opt (id_column h a); Loader.ab_data := ds;
                          Loader.ab_target := Some (target_of (a_kind a) bs) |}).
Check (C15_offset_text : forall len b e m, b <= e -> e <= len -> fits len = true ->
  exists cb ce,
    cursor_pair (fst (off_strs (Some (report_resource len (b, e) m))))
                (snd (off_strs (Some (report_resource len (b, e) m)))) = Ok (cb, ce)
    /\ resource_ts len (mkoff (ocur cb) (ocur ce)) = Offset.Ok (b, e)).
Check (C15_offset_relative : forall pb pe b e m len, pb <= b -> b <= e -> e <= pe -> pe <= len -> fits len = true ->
  exists off cb ce,
    relative_offset (b, e) (pb, pe) m = Some off
    /\ cursor_pair (fst (off_strs (Some off))) (snd (off_strs (Some off))) = Ok (cb, ce)
    /\ selection_ts (pb, pe) (mkoff (ocur cb) (ocur ce)) = Offset.Ok (b, e)).
Check (C15_set_file_roundtrip : forall d rows, dset_ok d -> save_set d = Some rows ->
  exists d', load_set (name_set (d_id d)) rows = Some d' /\ content_set d' = content_set d).
Check (C15_reresolve : forall ops h a r, Forall op_ok ops ->
  store_ok (run ops) = true -> ids_fit (run ops) -> get_ann (run ops) h = Some a -> shape_ok a ->
  pack_row (run ops) h a = Some r ->
  exists bs ds tb lfs',
    csv_row_now r = Ok {| Loader.ab_id := opt (id_column h a); Loader.ab_data := ds;
                          Loader.ab_target := Some (target_of (a_kind a) bs) |}
    /\ target_of_loader (target_of (a_kind a) bs) = Some tb
    /\ resolve_target (run ops) tb = (run ops, Some (a_kind a, lfs'))
    /\ map (leaf_desc (run ops)) lfs' = map (leaf_desc (run ops)) (a_leaves a)
    /\ refs_resolve (run ops) a ds).
Check (C15_load_save : forall s f, Good s -> save s = Some f -> exists s', load f = LOk s' /\ content s' = content s).
Check (C15_hyps_ok : forall ops, Forall op_ok ops -> Forall kind_ok ops -> lens_fit (run ops) -> hyps_ok (run ops) = true).
Check (C15_save_total : forall ops, Forall op_ok ops -> Forall kind_ok ops -> save (run ops) <> None).
Check (C15_statement : forall ops, Forall op_ok ops -> Forall kind_ok ops ->
  ids_fit (run ops) -> lens_fit (run ops) -> known_class (run ops) = 0 ->
  sx_of_loaded (roundtrip (run ops)) = roundtrip_spec (run ops)).
Print Assumptions C15_split_join.
Print Assumptions C15_load_save.
Print Assumptions C15_statement.
Print Assumptions C15_hyps_ok.
Print Assumptions C15_save_total.
Print Assumptions C15_reresolve.
Print Assumptions C15_set_file_roundtrip.
Print Assumptions C15_column_shape.
Print Assumptions C15_kind_roundtrip.
Print Assumptions C15_cursor_codec.
Print Assumptions C15_data_columns.
Print Assumptions C15_row_roundtrip.
Print Assumptions C15_unpack_pack.
Print Assumptions C15_offset_text.
Print Assumptions C15_offset_relative.
Print Assumptions C15_name_plain.
Print Assumptions C15_name_temp.
Print Assumptions C15_name_set.
Print Assumptions C15_tempid_refuted.
Print Assumptions C15_empty_complex.
Print Assumptions C15_nonvacuous.
