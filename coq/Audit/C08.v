From Coq Require Import ZArith.
From Stam Require Import Base.Tac Model.Limit Model.Handles Spec.HandlesSpec Proofs.Limit Proofs.Handles Props.C08.
Check (C08_limit_is_slice : forall (X : Type) (bg en : Z) (l : list X), limit bg en l = slice_spec bg en l).
Check (C08_union_spec : forall A B, ok A -> ok B ->
  arr (union A B) = (if srt A then sort (spec_union_list (arr A) (arr B)) else spec_union_list (arr A) (arr B))
  /\ srt (union A B) = srt A).
Check (C08_union_members : forall A B x, ok A -> ok B -> contains (union A B) x = mem x (arr A) || mem x (arr B)).
Check (C08_intersection_members : forall A B x, ok A -> ok B ->
  contains (intersection A B) x = mem x (arr A) && mem x (arr B)).
Print Assumptions C08_limit_is_slice.
Print Assumptions C08_from_iter_ok.
Print Assumptions C08_contains.
Print Assumptions C08_union_spec.
Print Assumptions C08_union_ok.
Print Assumptions C08_union_members.
Print Assumptions C08_intersection_spec.
Print Assumptions C08_intersection_members.
Print Assumptions C08_sort.
