(* Compiled on every check run (never cached): statement pins and axioms. *)
From Coq Require Import ZArith NArith List Permutation.
Import ListNotations.
From Stam Require Import Base.Tac Model.Limit Model.Handles Spec.HandlesSpec Proofs.Limit Proofs.Handles Props.C08.
From Stam Require Import Model.Offset Model.Store Model.StoreObs Model.DataValue Model.QuerySem Spec.QuerySpec Proofs.QuerySem Proofs.QueryMachine.
Check (C08_limit_is_slice : forall (X : Type) (bg en : Z) (l : list X), limit bg en l = slice_spec bg en l).
Check (C08_union_spec : forall A B, ok A -> ok B ->
  arr (union A B) = (if srt A then sort (spec_union_list (arr A) (arr B)) else spec_union_list (arr A) (arr B))
  /\ srt (union A B) = srt A).
Check (C08_union_members : forall A B x, ok A -> ok B -> contains (union A B) x = mem x (arr A) || mem x (arr B)).
Check (C08_intersection_members : forall A B x, ok A -> ok B ->
  contains (intersection A B) x = mem x (arr A) && mem x (arr B)).
Check (C08_level_selected : forall s e rt cs it,
  In it (level s e rt cs None) <-> (In it (universe s rt) /\ forall c, In c cs -> csat s e c it = true)).
Check (C08_level_NoDup : forall s e rt cs, NoDup (level s e rt cs None)).
Check (C08_sem_perm : forall s q q' e, qperm q q' -> sem s e q = sem s e q').
Check (C08_sem_perm_level : forall s e n rt cs cs' lim o sub,
  Permutation cs cs' -> sem s e (Q n rt cs lim o sub) = sem s e (Q n rt cs' lim o sub)).
Check (C08_union_perm : forall s e l l' it,
  Permutation l l' -> csat s e (CUnion l) it = csat s e (CUnion l') it).
Check (C08_sem_union : forall s e rt l,
  level s e rt [CUnion l] None
  = filter (fun it => existsb (existsb (item_eqb it)) (map (fun c => filter (csat s e c) (universe s rt)) l))
           (universe s rt)).
Check (C08_sem_union_members : forall s e rt l it,
  In it (level s e rt [CUnion l] None) <-> exists c, In c l /\ In it (filter (csat s e c) (universe s rt))).
Check (C08_sem_limit : forall s e rt cs bg en,
  level s e rt cs (Some (bg, en)) = slice_spec bg en (level s e rt cs None)).
Check (C08_sem_subquery : forall s e n rt cs lim o sq,
  sem s e (Q n rt cs lim o (Some sq)) = nested s e n (level s e rt cs lim) sq).
Check (C08_sem_subquery_rows : forall s e n rt cs lim o sq it r,
  In (it :: r) (sem s e (Q n rt cs lim o (Some sq))) <->
  In it (level s e rt cs lim)
  /\ (In r (sem s (e ++ [(n, it)]) sq) \/ (r = [] /\ q_opt sq = true /\ sem s (e ++ [(n, it)]) sq = []))).
Check (C08_sem_add : forall s a, exec_add s a (sem s [] (add_sub a)) = spec_add s a).
Check (C08_sem_delete : forall s x sub, exec_delete s x sub (sem s [] sub) = spec_delete s x sub).
Check (C08_collection_survivors : forall s rows victim x,
  In x (coll_after s rows victim) <->
  In x (outer_items rows) /\ item_live (match victim with Some v => rm_item s v | None => s end) x = true).
Check (C08_route_resource : forall ops e tok r, res_by_id (run ops) tok = Some r ->
  level (run ops) e TAnn [CRes (RId tok) false] None = map IAnn (m_res_text (run ops) r)).
Check (C08_machine_rows : forall s q, fine s [] q ->
  forall fuel, work s [] q < fuel -> iterate s q fuel (mkm [] 0) [] = Some (rows s [] q)).
Check (C08_machine_sem : forall s q, clean s [] q -> run_machine s q = Some (sem s [] q)).
Check (C08_machine_sem_dec : forall s q, cleanb s [] q = true -> run_machine s q = Some (sem s [] q)).
Check (C08_plain_level : forall s e rt cs lim, plain_l rt cs = true ->
  level_impl s e rt cs lim = level s e rt cs lim).
Check (C08_machine_sem_plain : forall s q, guard s [] q = true -> run_machine s q = Some (sem s [] q)).
Print Assumptions C08_limit_is_slice.
Print Assumptions C08_plain_level.
Print Assumptions C08_machine_sem_plain.
Print Assumptions C08_machine_rows.
Print Assumptions C08_machine_sem.
Print Assumptions C08_machine_sem_dec.
Print Assumptions C08_route_resource.
Print Assumptions C08_route_resource_metadata.
Print Assumptions C08_route_dataset_metadata.
Print Assumptions C08_route_annotation_target.
Print Assumptions C08_route_data_variable.
Print Assumptions C08_from_iter_ok.
Print Assumptions C08_contains.
Print Assumptions C08_union_spec.
Print Assumptions C08_union_ok.
Print Assumptions C08_union_members.
Print Assumptions C08_intersection_spec.
Print Assumptions C08_intersection_members.
Print Assumptions C08_sort.
Print Assumptions C08_level_selected.
Print Assumptions C08_level_NoDup.
Print Assumptions C08_sem_perm.
Print Assumptions C08_sem_perm_level.
Print Assumptions C08_union_perm.
Print Assumptions C08_sem_union.
Print Assumptions C08_sem_union_members.
Print Assumptions C08_sem_limit.
Print Assumptions C08_sem_subquery.
Print Assumptions C08_sem_subquery_rows.
Print Assumptions C08_sem_add.
Print Assumptions C08_sem_delete.
Print Assumptions C08_collection_survivors.
Print Assumptions Known_C08_position_witness.
Print Assumptions Known_C08_indirect_witness.
Print Assumptions Known_C08_optional_witness.
Print Assumptions Known_C08_limit_order_witness.
Print Assumptions Known_C08_orphan_text_witness.
Print Assumptions Known_C08_text_occurrences_witness.
Print Assumptions Known_C08_text_any_witness.
Print Assumptions Known_C08_text_union_witness.
