(* Compiled on every check run (never cached): statement pins, so that a
   property theorem cannot be weakened silently, and the axioms each depends on. *)
From Stam Require Import Base.Tac Model.Rel Spec.RelSpec Proofs.Rel Model.RelArms Gen.RelPairTable Proofs.AgreeRelPair Gen.RelTsSetTable Proofs.AgreeRelSet Gen.RelSetTables Proofs.AgreeRelSets Props.C13.
Check (C13_pair_spec : forall ws o s r, wf s -> wf r -> test_pair ws o s r = spec_pair ws o s r).
Check (C13_set_set_spec : forall ws o A B, set_ok A -> set_ok B ->
  test_set_set ws o A B = spec_set_set ws o (items A) (items B)).
Check (C13_ts_set_spec : forall ws o s B, wf s -> set_ok B ->
  test_ts_set ws o s B = spec_ts_set ws o s (items B)).
Check (C13_set_ts_spec : forall ws o A r, set_ok A -> wf r ->
  test_set_ts ws o A r = spec_set_ts ws o (items A) r).
Check (C13_negate_pair : forall ws o s r, test_pair ws (toggle_negate o) s r = negb (test_pair ws o s r)).
Check (C13_negate_set_set : forall ws o A B, items A <> [] ->
  test_set_set ws (toggle_negate o) A B = negb (test_set_set ws o A B)).
Check (C13_singleton_set_set : forall ws o s r f g,
  test_set_set ws o (single f s) (single g r) = test_pair ws o s r).
Check (C13_converse_embeds : forall ws a n w s r,
  test_pair ws (O Embeds a n None w) s r = test_pair ws (O Embedded a n None w) r s).
Check (C13_converse_before : forall ws a n l w s r,
  test_pair ws (O Before a n l w) s r = test_pair ws (O After a n l w) r s).
Check (C13_converse_precedes : forall ws a n l w s r,
  test_pair ws (O Precedes a n l w) s r = test_pair ws (O Succeeds a n l w) r s).
Check (C13_sym_overlaps : forall ws a n l w s r, wf s -> wf r ->
  test_pair ws (O Overlaps a n l w) s r = test_pair ws (O Overlaps a n l w) r s).
Check (C13_meaning_overlaps_nonempty : forall ws a l w s r, tb s < te s -> tb r < te r ->
  (test_pair ws (O Overlaps a false l w) s r = true <-> Nat.max (tb s) (tb r) < Nat.min (te s) (te r))).
Print Assumptions C13_pair_spec.
Print Assumptions C13_ts_set_spec.
Print Assumptions C13_set_ts_spec.
Print Assumptions C13_set_set_spec.
Print Assumptions C13_meaning_equals.
Print Assumptions C13_meaning_overlaps.
Print Assumptions C13_meaning_precedes_ws.
Print Assumptions C13_gap_meaning.
Print Assumptions C13_converse_embeds.
Print Assumptions C13_converse_before.
Print Assumptions C13_converse_precedes.
Print Assumptions C13_sym_equals.
Print Assumptions C13_sym_overlaps.
Print Assumptions C13_equals_implies.
Print Assumptions C13_negate_pair.
Print Assumptions C13_negate_ts_set.
Print Assumptions C13_negate_set_ts.
Print Assumptions C13_negate_set_set.
Print Assumptions C13_singleton_ts_set.
Print Assumptions C13_singleton_set_ts.
Print Assumptions C13_singleton_set_set.
Print Assumptions C13_intersection.
Check (C13_code_pair_test_is_the_model : forall ws o s r,
  interp_pair pair_arms ws o s r = Some (test_pair ws o s r)).
Check (C13_code_pair_test_has_documented_meaning : forall ws o s r, wf s -> wf r ->
  interp_pair pair_arms ws o s r = Some (spec_pair ws o s r)).
Print Assumptions C13_code_pair_test_is_the_model.
Print Assumptions C13_code_pair_test_never_underflows.
Print Assumptions C13_code_whitespace_limit.
Print Assumptions C13_code_pair_test_has_documented_meaning.
Check (C13_code_ts_set_test_is_the_model : forall ws o s B,
  interp_ts_set pair_arms ts_set_arms ws o s B = Some (test_ts_set ws o s B)).
Print Assumptions C13_code_ts_set_test_is_the_model.
Print Assumptions C13_code_ts_set_test_has_documented_meaning.
Check (C13_code_set_ts_test_is_the_model : forall ws o A r,
  interp_set_ts pair_arms set_ts_arms ws o A r = Some (test_set_ts ws o A r)).
Check (C13_code_set_set_test_is_the_model : forall ws o A B,
  interp_set_set pair_arms ts_set_arms set_set_arms ws o A B = Some (test_set_set ws o A B)).
Print Assumptions C13_code_set_ts_test_is_the_model.
Print Assumptions C13_code_set_set_test_is_the_model.
Print Assumptions C13_code_set_set_test_has_documented_meaning.
