From Stam Require Import Base.Tac Model.Offset Model.Store Model.StoreObs Model.TempId Model.DataValue
     Spec.StoreSpec Spec.DataSpec Proofs.StoreSets Proofs.DataSearch Props.C10.
Check (C10_vocabulary_invariants : forall ops, Forall op_ok ops -> SetsInv (run ops)).
Check (C10_find_data_is_scan : forall ds key o, DsInv ds -> m_find_data ds key o = s_find_data ds key o).
Check (C10_key_data_is_scan : forall ds k, DsInv ds -> m_key_data ds k = s_key_data ds k).
Check (C10_data_by_value_is_scan : forall ds kr v, DsInv ds -> m_data_by_value ds kr v = s_data_by_value ds kr v).
Check (C10_keys_once : forall ds, DsInv ds -> keys_unique ds = true).
Check (C10_idless_data_shared : forall ds, DsInv ds -> vocab_ok ds = true).
Print Assumptions C10_vocabulary_invariants.
Print Assumptions C10_keys_once.
Print Assumptions C10_idless_data_shared.
Print Assumptions C10_insert_keeps_vocabulary.
Print Assumptions C10_key_data_is_scan.
Print Assumptions C10_find_data_is_scan.
Print Assumptions C10_data_by_value_is_scan.
Print Assumptions C10_not_is_complement.
Print Assumptions C10_and_is_conjunction.
Print Assumptions C10_or_is_disjunction.
Print Assumptions C10_has_element.
