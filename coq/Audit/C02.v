From Stam Require Import Base.Tac Model.Offset Model.Store Model.StoreObs Spec.StoreSpec
     Proofs.StoreScan Proofs.StoreInv Proofs.StoreDataDef Proofs.StoreRemove Proofs.StoreRemove2
     Proofs.StoreRemove3 Proofs.StoreData Props.C02.
Check (C02_nothing_dangles : forall ops, let s := run ops in ann_refs_ok s /\ item_refs_ok s /\ data_ok s).
Check (C02_every_step_keeps_the_store_sound : forall s o, Good s -> Good (fst (step s o))).
Check (C02_remove_annotation_cascade : forall ex fuel s h,
  InvE ex s -> wf_targets s -> length (anns s) - h < fuel ->
  let '(s', r) := remove_ann fuel s h in
  Post ex h s s'
  /\ (forall a, get_ann s h = Some a -> get_ann s' h = None /\ r = OOk h)
  /\ (get_ann s h = None -> s' = s)).
Print Assumptions C02_nothing_dangles.
Print Assumptions C02_every_step_keeps_the_store_sound.
Print Assumptions C02_remove_annotation_cascade.
Print Assumptions C02_fuel_suffices.
Print Assumptions C02_remove_data.
