From Stam Require Import Base.Tac Model.Offset Model.Store Model.StoreObs Spec.StoreSpec
     Proofs.StoreScan Proofs.StoreInv Proofs.StoreDataDef Proofs.StoreRemove Proofs.StoreRemove2
     Proofs.StoreRemove3 Proofs.StoreData Proofs.StoreExact Proofs.StoreExactData Proofs.StoreSets Proofs.StoreExactKey Proofs.StoreSuccess Proofs.StoreFrame Props.C02.
Check (C02_nothing_dangles : forall ops, let s := run ops in ann_refs_ok s /\ item_refs_ok s /\ data_ok s).
Check (C02_every_step_keeps_the_store_sound : forall s o, Good s -> Good (fst (step s o))).
Check (C02_remove_annotation_cascade : forall ex fuel s h,
  InvE ex s -> wf_targets s -> length (anns s) - h < fuel ->
  let '(s', r) := remove_ann fuel s h in
  Post ex h s s'
  /\ (forall a, get_ann s h = Some a -> get_ann s' h = None /\ r = OOk h)
  /\ (get_ann s h = None -> s' = s)).
Check (C02_remove_annotation_exact : forall ops h,
  let s := run ops in
  get_ann s h <> None ->
  forall x, get_ann s x <> None ->
    (get_ann (fst (remove_ann (fuel_of s) s h)) x = None <-> In x (deps_ann s h))).
Check (C02_remove_resource_exact : forall ops r h,
  let s := run ops in
  ref_res s r = Some h ->
  forall x, get_ann s x <> None ->
    (get_ann (fst (rm_resource s r)) x = None <-> In x (deps_res s h))).
Check (C02_remove_dataset_exact : forall ops r h,
  let s := run ops in
  ref_set s r = Some h ->
  forall x, get_ann s x <> None ->
    (get_ann (fst (rm_dataset s r)) x = None <-> In x (deps_set s h))).
Check (C02_remove_data_exact : forall ops d x strict,
  let s := run ops in
  let s' := fst (remove_data_h s d x strict) in
  (forall y, get_ann s y <> None -> (get_ann s' y = None <-> In y (deps_data s d x strict)))
  /\ (forall y a', get_ann s' y = Some a' -> exists a, get_ann s y = Some a /\ a' = ann_remove_data a d x)).
Check (C02_remove_key_exact : forall ops dr kr strict d ds k tok,
  Forall op_ok ops ->
  let s := run ops in
  to_handle (sidx s) dr = Some d -> get_set s d = Some ds -> to_handle (d_kidx ds) kr = Some k ->
  slot (d_keys ds) k = Some tok ->
  let s' := fst (rm_key s dr kr strict) in
  (forall y, get_ann s y <> None -> (get_ann s' y = None <-> In y (deps_key s ds d k strict)))
  /\ (forall y a', get_ann s' y = Some a' -> exists a, get_ann s y = Some a /\ a' = stripk (s_key_data ds k) d a)).
Print Assumptions C02_remove_key_exact.
Print Assumptions C02_remove_annotation_exact.
Print Assumptions C02_remove_data_exact.
Print Assumptions C02_closure_meaning.
Print Assumptions C02_remove_resource_exact.
Print Assumptions C02_remove_dataset_exact.
Print Assumptions C02_nothing_dangles.
Print Assumptions C02_every_step_keeps_the_store_sound.
Print Assumptions C02_remove_annotation_cascade.
Print Assumptions C02_fuel_suffices.
Print Assumptions C02_remove_data.
Print Assumptions C02_removals_succeed.
Print Assumptions C02_touches_nothing_else.
