From Stam Require Import Base.Tac Model.Offset Model.Store Model.StoreObs Spec.StoreSpec
     Proofs.StoreScan Proofs.StoreInv Proofs.StoreDataDef Proofs.StoreRemove Proofs.StoreRemove2
     Proofs.StoreRemove3 Proofs.StoreData Proofs.StoreExact Props.C02.
Check (C02_nothing_dangles : forall ops, let s := run ops in ann_refs_ok s /\ item_refs_ok s /\ data_ok s).
Check (C02_every_step_keeps_the_store_sound : forall s o, Good s -> Good (fst (step s o))).
Check (C02_remove_annotation_cascade : forall ex fuel s h,
  InvE ex s -> wf_targets s -> length (anns s) - h < fuel ->
  let '(s', r) := remove_ann fuel s h in
  Post ex h s s'
  /\ (forall a, get_ann s h = Some a -> get_ann s' h = None /\ r = OOk h)
  /\ (get_ann s h = None -> s' = s)).
Check (C02_remove_annotation_exact : forall ops h,
  let s := run ops in
  get_ann s h <> None ->
  forall x, get_ann s x <> None ->
    (get_ann (fst (remove_ann (fuel_of s) s h)) x = None <-> In x (deps_ann s h))).
Print Assumptions C02_remove_annotation_exact.
Print Assumptions C02_closure_meaning.
Print Assumptions C02_remove_resource_exact.
Print Assumptions C02_remove_dataset_exact.
Print Assumptions C02_nothing_dangles.
Print Assumptions C02_every_step_keeps_the_store_sound.
Print Assumptions C02_remove_annotation_cascade.
Print Assumptions C02_fuel_suffices.
Print Assumptions C02_remove_data.
