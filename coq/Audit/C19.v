From Coq Require Import List NArith ZArith Bool.
Import ListNotations.
From Stam Require Import Model.Loader Spec.LoaderSpec Proofs.Loader Props.C19.
Local Open Scope N_scope.
Check (C19_cursor_spec : forall s, cursor_of_str s = spec_cursor s).
Check (C19_cursor_roundtrip : forall c, cursor_wf c -> cursor_of_str (str_of_cursor c) = Ok c).
Check (C19_temp_id_total : forall is_upper s, exists o, resolve_temp_id is_upper false s = Ok o).
Check (C19_load_no_panic : forall is_upper cap ovf strip d st,
  let s := fst (visit_doc is_upper cap ovf strip false st d) in s = SOk \/ s = SErr).
Check (C19_place_exact : forall cap l next ps, spec_place cap 0 next l = Some ps -> exact_from next l ps).
Check (C19_load_alloc : forall is_upper cap ovf strip d st,
  Known_C19_alloc (slots st) (map (map (abs_elem is_upper strip)) d) = false ->
  let r := snd (visit_doc is_upper cap ovf strip false st d) in
  let B := justified (slots st) (List.length (concat d)) in
  alloc r <= N.max (alloc st) B /\ slots r <= B + N.of_nat (List.length (concat d))).
Check (C19_csv_row_total : forall r, csv_row false r <> Panic /\ csv_row false r <> Abort /\ csv_row false r <> Hang).
Check (C19_dataset_include_total : forall files depth stack inc,
  (max_include_depth + 1 <= stack + depth)%nat ->
  ds_include false stack depth files inc <> Panic /\ ds_include false stack depth files inc <> Abort /\ ds_include false stack depth files inc <> Hang).
Check (Known_C19_quadratic_witness : forall k n count,
  2 * dedup_cost count (repeat {| d_key := k; d_hasid := false |} n)
  = N.of_nat n * (N.of_nat n - 1) + 2 * count k * N.of_nat n).
Check (C19_csv_simple_roundtrip : forall id data set b,
  data <> [] -> nosemi data -> nosemi set -> simple_wf b ->
  csv_row false (row_of_simple id data set b)
  = Ok {| ab_id := opt id; ab_data := [(set, data)]; ab_target := Some b |}).
Print Assumptions C19_cursor_total.
Print Assumptions C19_cursor_spec.
Print Assumptions C19_cursor_roundtrip.
Print Assumptions C19_type_total.
Print Assumptions C19_type_roundtrip.
Print Assumptions C19_kind_total.
Print Assumptions C19_kind_roundtrip.
Print Assumptions C19_format_total.
Print Assumptions C19_temp_id_total.
Print Assumptions C19_temp_id_spec.
Print Assumptions C19_temp_id_roundtrip.
Print Assumptions C19_load_no_panic.
Print Assumptions C19_load_spec.
Print Assumptions C19_place_exact.
Print Assumptions C19_load_alloc.
Print Assumptions Known_C19_alloc_witness.
Print Assumptions C19_csv_row_total.
Print Assumptions C19_resource_include_total.
Print Assumptions C19_dataset_include_total.
Print Assumptions Known_C19_cbor_handle_witness.
Print Assumptions Known_C19_cbor_depth_witness.
Print Assumptions C19_before_the_repairs.
Print Assumptions C19_include_stdin_total.
Print Assumptions C19_cost_with_ids.
Print Assumptions C19_cost_fresh_keys.
Print Assumptions Known_C19_quadratic_witness.
Print Assumptions Known_C19_quadratic_superlinear.
Print Assumptions C19_linear_otherwise.
Print Assumptions C19_csv_simple_roundtrip.
Print Assumptions C19_ann_offset_total.
Print Assumptions C19_dataset_merge_spec.
