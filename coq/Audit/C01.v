From Coq Require Import Sorting.Sorted.
From Stam Require Import Base.Tac Model.Offset Model.Store Model.StoreObs Spec.StoreSpec
     Proofs.StoreScan Proofs.StoreInv Proofs.StoreDataDef Proofs.StoreRemove Proofs.StoreData Proofs.StoreStable Props.C01.
Check (C01_index_invariant : forall ops, Inv (run ops)).
Check (C01_textselection_annotations : forall ops r t, m_ts_anns (run ops) r t = s_ts_anns (run ops) r t).
Check (C01_annotation_annotations : forall ops a, m_ann_anns (run ops) a = s_ann_anns (run ops) a).
Check (C01_resource_metadata : forall ops r, m_res_meta (run ops) r = s_res_meta (run ops) r).
Check (C01_resource_annotations : forall ops r, m_res_text (run ops) r = s_res_text (run ops) r).
Check (C01_dataset_metadata : forall ops d, m_set_meta (run ops) d = s_set_meta (run ops) d).
Check (C01_key_metadata : forall ops d k, m_key_meta (run ops) d k = s_key_meta (run ops) d k).
Check (C01_data_metadata : forall ops d x, m_data_meta (run ops) d x = s_data_meta (run ops) d x).
Check (C01_data_annotations : forall ops d x, m_data_anns (run ops) d x = s_data_anns (run ops) d x).
Check (C01_chronological_no_duplicates : forall s P, StronglySorted lt (scan s P)).
Check (C01_scan_exact : forall s P h, In h (scan s P) <-> exists a, get_ann s h = Some a /\ P a = true).
Print Assumptions C01_index_invariant.
Print Assumptions C01_textselection_annotations.
Print Assumptions C01_annotation_annotations.
Print Assumptions C01_resource_metadata.
Print Assumptions C01_resource_annotations.
Print Assumptions C01_dataset_metadata.
Print Assumptions C01_key_metadata.
Print Assumptions C01_data_metadata.
Print Assumptions C01_data_annotations.
Print Assumptions C01_chronological_no_duplicates.
Print Assumptions C01_scan_exact.
Print Assumptions C01_targets_older.
Print Assumptions C01_targets_never_change.
