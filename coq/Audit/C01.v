From Coq Require Import Sorting.Sorted.
From Stam Require Import Base.Tac Model.Offset Model.Store Model.StoreObs Spec.StoreSpec
     Proofs.StoreScan Proofs.StoreInv Proofs.StoreDataDef Proofs.StoreRemove Proofs.StoreData Proofs.StoreStable Model.Compress Proofs.Compress Proofs.StoreSel Model.SubOrder Proofs.SubOrder Model.SubOrderArms Gen.SubOrderTable Proofs.AgreeSubOrder Model.Forward Proofs.Forward Model.Adaptors Proofs.Adaptors Props.C01.
From Stam Require Proofs.ValidateProtect.
Check (C01_index_invariant : forall ops, Inv (run ops)).
Check (C01_textselection_annotations : forall ops r t, m_ts_anns (run ops) r t = s_ts_anns (run ops) r t).
Check (C01_annotation_annotations : forall ops a, m_ann_anns (run ops) a = s_ann_anns (run ops) a).
Check (C01_resource_metadata : forall ops r, m_res_meta (run ops) r = s_res_meta (run ops) r).
Check (C01_resource_annotations : forall ops r, m_res_text (run ops) r = s_res_text (run ops) r).
Check (C01_dataset_metadata : forall ops d, m_set_meta (run ops) d = s_set_meta (run ops) d).
Check (C01_key_metadata : forall ops d k, m_key_meta (run ops) d k = s_key_meta (run ops) d k).
Check (C01_data_metadata : forall ops d x, m_data_meta (run ops) d x = s_data_meta (run ops) d x).
Check (C01_data_annotations : forall ops d x, m_data_anns (run ops) d x = s_data_anns (run ops) d x).
Check (C01_chronological_no_duplicates : forall s P, StronglySorted lt (scan s P)).
Check (C01_scan_exact : forall s P h, In h (scan s P) <-> exists a, get_ann s h = Some a /\ P a = true).
Check (C01_compression_lossless : forall wh own l, Forall (Pown wh own) l -> expand own (compress wh l) = l).
Check (C01_text_selections_interned : forall ops r rs, get_res (run ops) r = Some rs -> NoDup (r_sels rs)).
Check (C01_compressed_target_roundtrip : forall ops b ops' tb s1 k l h a',
  ab_target b = Some tb -> resolve_target (run ops) tb = (s1, Some (k, l)) ->
  snd (annotate (run ops) b) = OOk h -> h = length (anns (run ops)) ->
  let s_now := run (ops ++ Annotate b :: ops') in
  get_ann s_now h = Some a' ->
  a_kind a' = k /\ a_leaves a' = l /\ seen s1 s_now l = l).
Print Assumptions C01_index_invariant.
Print Assumptions C01_textselection_annotations.
Print Assumptions C01_annotation_annotations.
Print Assumptions C01_resource_metadata.
Print Assumptions C01_resource_annotations.
Print Assumptions C01_dataset_metadata.
Print Assumptions C01_key_metadata.
Print Assumptions C01_data_metadata.
Print Assumptions C01_data_annotations.
Print Assumptions C01_chronological_no_duplicates.
Print Assumptions C01_scan_exact.
Print Assumptions C01_targets_older.
Print Assumptions C01_targets_never_change.
Print Assumptions C01_compression_lossless.
Print Assumptions C01_text_selections_interned.
Print Assumptions C01_compressed_target_roundtrip.
Check (C01_index_invariant_with_protect_text : forall s, ValidateProtect.reach s -> Inv s).
Print Assumptions C01_index_invariant_with_protect_text.
Check (C01_subselector_order_is_total : forall s a b c,
  leaf_cmp s a b = lex4 (leaf_sortkey s a) (leaf_sortkey s b)
  /\ leaf_cmp s b a = CompOpp (leaf_cmp s a b)
  /\ (leaf_cmp s a b <> Gt -> leaf_cmp s b c <> Gt -> leaf_cmp s a c <> Gt)
  /\ (leaf_cmp s a b = Eq <-> leaf_sortkey s a = leaf_sortkey s b)).
Print Assumptions C01_subselector_order_is_total.
Check (C01_code_comparator_is_total : forall s a b c,
  interp arms s a b = leaf_cmp s a b
  /\ interp arms s b a = CompOpp (interp arms s a b)
  /\ (interp arms s a b <> Gt -> interp arms s b c <> Gt -> interp arms s a c <> Gt)).
Print Assumptions C01_code_comparator_is_total.
Print Assumptions C01_counting_shortcuts.
Print Assumptions C01_target_walk_terminates.
Print Assumptions C01_target_resources_are_the_closure.
Check (C01_adaptor_is_exact_union : forall f l y,
  (In y (un f l) <-> exists it, In it l /\ In y (f it)) /\ StronglySorted lt (un f l)).
Print Assumptions C01_adaptor_is_exact_union.
Print Assumptions C01_adaptors_index_is_scan.
Print Assumptions C01_dataset_adaptors_index_is_scan.
