From Stam Require Import Base.Tac Model.Offset Model.Store Model.StoreExt Model.StoreObs Spec.StoreSpec
     Proofs.StoreInv Proofs.StoreErr Props.C14.
Check (C14_failed_add_frame : forall s o s',
  match o with AddRes _ _ | AddSet _ | InsData _ | Annotate _ => True | _ => False end ->
  step s o = (s', OErr) ->
  same_core s s' /\ ridx s' = ridx s
  /\ (ress s' = ress s -> sets s' = sets s -> sidx s' = sidx s -> s' = s)).
Print Assumptions C14_failed_add_frame.
Print Assumptions C14_failed_annotate_frame.
Print Assumptions Known_C14_textselection_left_witness.
Print Assumptions Known_C14_vocabulary_left_witness.
Print Assumptions C14_failed_add_dataset_with_data.
