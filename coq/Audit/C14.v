From Stam Require Import Base.Tac Model.Offset Model.Store Model.StoreExt Model.StoreObs Spec.StoreSpec
     Proofs.StoreInv Proofs.StoreErr Proofs.StoreSel Proofs.StoreGrow Props.C14.
Check (C14_failed_add_frame : forall s o s',
  match o with AddRes _ _ | AddSet _ | InsData _ | Annotate _ => True | _ => False end ->
  step s o = (s', OErr) ->
  same_core s s' /\ ridx s' = ridx s
  /\ (ress s' = ress s -> sets s' = sets s -> sidx s' = sidx s -> s' = s)).
Print Assumptions C14_failed_add_frame.
Print Assumptions C14_failed_annotate_frame.
Print Assumptions Known_C14_textselection_left_witness.
Print Assumptions Known_C14_vocabulary_left_witness.
Print Assumptions C14_failed_add_dataset_with_data.
Check (C14_failed_call_only_adds : forall ops o s',
  match o with AddRes _ _ | AddSet _ | InsData _ | Annotate _ => True | _ => False end ->
  step (run ops) o = (s', OErr) ->
  same_core (run ops) s' /\ ress_ext (run ops) s' /\ sets_ext (run ops) s').
Check (C14_failed_batch_is_prefix_then_one_failure : forall l s s' n,
  annotate_batch s l = (s', OErr, n) ->
  exists b, nth_error l n = Some b
  /\ (forall i bi, i < n -> nth_error l i = Some bi ->
        exists h, snd (annotate (annotate_all s (firstn i l)) bi) = OOk h)
  /\ annotate (annotate_all s (firstn n l)) b = (s', OErr)).
Print Assumptions C14_failed_call_only_adds.
Print Assumptions C14_failed_batch_is_prefix_then_one_failure.
Print Assumptions C14_successful_batch_is_the_fold.
