(* Compiled on every check run (never cached): statement pins and axioms. *)
From Coq Require Import Permutation.
From Stam Require Import Base.Tac Model.Rel Model.Search Proofs.Rel Proofs.Search Proofs.SearchEach Model.RelArms Model.RangeArms Gen.RangeTable Proofs.AgreeRange Gen.RelPairTable Gen.RelSetTables Proofs.AgreeRelSets Props.C06.
Check (C06_sound : forall ws o R K len h, generic o ->
  In h (search ws o R K len) -> In h (related ws o R K)).
Check (C06_complete : forall ws o R K len h, generic o ->
  set_ok R -> items R <> [] -> known_ok K len ->
  In h (related ws o R K) -> In h (search ws o R K len)).
Check (C06_each_once : forall ws o R K len, generic o -> NoDup (search ws o R K len)).
Check (C06_exactly_the_relation : forall ws o R K len, generic o ->
  set_ok R -> items R <> [] -> known_ok K len ->
  Permutation (search ws o R K len) (related ws o R K)).
Check (C06_never_the_reference : forall ws o R K len h, generic o ->
  In h (search ws o R K len) -> has_handle R h = false).
Print Assumptions C06_sound.
Print Assumptions C06_complete.
Print Assumptions C06_each_once.
Print Assumptions C06_exactly_the_relation.
Print Assumptions C06_never_the_reference.
Print Assumptions C06_range_covers.
Print Assumptions C06_equals_sound.
Print Assumptions C06_equals_returns_self.
Check (C06_from_iterator_exact : forall ws o refs K len h, generic o -> Forall wf refs -> known_ok K len ->
  (In h (search_each ws o refs K len) <-> exists r, In r refs /\ In h (related ws o (mkset [r] false) K))).
Check (C06_from_iterator_each_once : forall ws o refs K len, NoDup (search_each ws o refs K len)).
Print Assumptions C06_from_iterator_exact.
Print Assumptions C06_from_iterator_each_once.
Check (C06_code_range_is_the_model : forall o R len,
  interp_range range_arms o (ref_begin R) (ref_end R) len = Some (search_range o R len)).
Check (C06_code_range_covers : forall ws o R c len, set_ok R -> items R <> [] -> tb c <= te c -> te c <= len ->
  test_set_ts ws o R c = true ->
  exists rg, interp_range range_arms o (ref_begin R) (ref_end R) len = Some rg /\ in_range rg c).
Print Assumptions C06_code_range_is_the_model.
Print Assumptions C06_code_range_covers.
Print Assumptions C06_code_filter_is_the_model.
