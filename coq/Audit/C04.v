From Coq Require Import ZArith.
From Stam Require Import Base.Tac Model.Offset Model.Utf8 Spec.OffsetSpec Proofs.Offset Proofs.Utf8 Props.C04.
From Stam Require Model.Store.
Check (C04_resource_accept_iff : forall len o,
  resource_ts len o = match spec_accept len o with Some t => Ok t | None => Err end).
Check (C04_relative_accept_iff : forall p o, fst p <= snd p ->
  selection_ts p o = match spec_accept_rel p o with Some t => Ok t | None => Err end).
Check (C04_report_relative : forall pb pe b e m, pb <= b -> b <= e -> e <= pe ->
  let off := spec_report (pe - pb) (b - pb) (e - pb) m in
  relative_offset (b, e) (pb, pe) m = Some off
  /\ cursor_wf (o_begin off) = true /\ cursor_wf (o_end off) = true
  /\ mode_of off = m
  /\ selection_ts (pb, pe) off = Ok (b, e)).
Print Assumptions C04_resource_accept_iff.
Print Assumptions C04_relative_accept_iff.
Print Assumptions C04_findtext_accept_iff.
Print Assumptions C04_chain_inside.
Print Assumptions C04_text_exact.
Print Assumptions C04_report_resource.
Print Assumptions C04_report_relative.
Check (C04_store_selections_inside : forall ops r rs rg,
  Store.get_res (Store.run ops) r = Some rs -> In rg (Store.r_sels rs) -> fst rg <= snd rg /\ snd rg <= Store.r_len rs).
Print Assumptions C04_store_selections_inside.
Check (C04_report_relative_none : forall b e pb pe m, b <= e -> pb <= pe -> ~ (pb <= b /\ e <= pe) ->
  relative_offset (b, e) (pb, pe) m = None).
Print Assumptions C04_report_relative_none.
