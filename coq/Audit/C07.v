From Coq Require Import NArith.
From Stam Require Import Base.Tac Model.Offset Model.Utf8 Model.TextOps Spec.TextOpsSpec Proofs.TextOps Props.C07.
Check (C07_find_text : forall (find_b : text -> text -> option nat),
  (forall hay nd, find_b hay nd = option_map (bytepos hay) (first_occ nd hay)) ->
  forall t nd sb se, sb <= se -> se <= length t ->
  find_text find_b t nd sb se = (map (shift sb) (match_indices nd (sub t sb se)), Done)).
Print Assumptions C07_find_text.
Print Assumptions C07_find_text_nocase.
Print Assumptions C07_store_find_text.
