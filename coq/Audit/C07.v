From Coq Require Import NArith.
From Coq Require Import Permutation.
From Stam Require Import Base.Tac Model.Offset Model.Utf8 Model.TextOps Spec.TextOpsSpec Proofs.TextOps
  Proofs.TextOpsMerge Proofs.TextOpsRegex Props.C07.
(* statement pins of the main theorems *)
Check (C07_find_text : forall find_b, find_ok find_b ->
  forall t nd sb se, sb <= se -> se <= length t ->
  find_text find_b t nd sb se = (map (shift sb) (match_indices nd (sub t sb se)), Done)).
Check (C07_find_text_nocase : forall find_b, find_ok find_b ->
  forall lc t nd sb se, Known_C07_nocase_len lc (sub t sb se) = false -> sb <= se -> se <= length t ->
  find_text_nocase find_b (flat_map lc) t nd sb se
  = (map (shift sb) (nocase_indices lc (flat_map lc nd) (sub t sb se)), Done)).
Check (C07_match_indices_sound : forall nd hay m, In m (match_indices nd hay) ->
  snd m <= length hay /\ subtext hay (fst m) (snd m) = nd).
Check (C07_match_indices_maximal : forall nd hay p,
  p + length nd <= length hay -> subtext hay p (p + length nd) = nd ->
  exists m, In m (match_indices nd hay) /\ fst m <= p /\ p < Nat.max (snd m) (S (fst m))).
Check (C07_split_text : forall split_b, split_ok split_b ->
  forall t d sb se, sb <= se -> se <= length t ->
  split_text split_b t d sb se = (map (shift sb) (split_spec d (sub t sb se)), Done)).
Check (C07_split_join : forall d hay,
  join d (map (fun r => subtext hay (fst r) (snd r)) (split_spec d hay)) = hay).
Check (C07_trim_text : forall inset t sb se, sb <= se -> se <= length t ->
  trim_text inset t sb se = OOk (shift sb (trim_spec inset (sub t sb se)))).
Check (C07_regex_offsets : forall t sb se g ps pe, sb <= se -> se <= length t ->
  on_boundaries (sub t sb se) g ps pe ->
  conv_group t (bytepos t sb) g = OOk (sb + ps, sb + pe)
  /\ sub t (sb + ps) (sb + pe) = sub (sub t sb se) ps pe
  /\ char_index (sub t sb se) (fst g) = Some ps /\ char_index (sub t sb se) (snd g) = Some pe).
Check (C07_segmentation_in_range : forall interval t known b e, b <= e -> e <= length t ->
  segmentation_in_range interval t known b e = segments_spec known b e).
Check (C07_segments_contiguous : forall known lo hi, lo < hi ->
  contiguous lo (segments_spec known lo hi) hi).
Check (C07_segments_cut_points : forall known lo hi p, lo < hi ->
  In p (tl (map fst (segments_spec known lo hi))) <-> lo < p /\ p < hi /\ is_boundary known p = true).
Check (C07_find_text_sequence : forall find_b, find_ok find_b ->
  forall skip t frags sb se, sb <= se -> se <= length t ->
  find_text_sequence find_b (fun x => x) skip t frags sb se
  = OOk (option_map (map (shift sb)) (sequence_spec match_indices skip (sub t sb se) 0 frags))).
Check (C07_regex_merge : forall (X : Type) (kb ke : X -> nat) fuel allow (ss : list (list X)),
  length (tag_from 0 ss) < fuel -> Forall (okstream kb ke) ss ->
  regex_merge kb ke fuel allow ss = merge_spec kb ke allow ss).
Check (C07_find_text_regex : forall t es allow sb se, sb <= se -> se <= length t ->
  oracle_ok (sub t sb se) es ->
  exists l, regex_spec (sub t sb se) sb es allow = Some l
            /\ find_text_regex t es allow sb se = (l, Done)).
Print Assumptions C07_find_text.
Print Assumptions C07_regex_merge.
Print Assumptions C07_merge_allow_meaning.
Print Assumptions C07_merge_nooverlap_meaning.
Print Assumptions C07_find_text_regex.
Print Assumptions C07_store_find_text.
Print Assumptions C07_match_indices_sound.
Print Assumptions C07_match_indices_ordered.
Print Assumptions C07_match_indices_maximal.
Print Assumptions C07_find_text_nocase.
Print Assumptions C07_nocase_indices_meaning.
Print Assumptions C07_nocase_refuted.
Print Assumptions C07_split_text.
Print Assumptions C07_split_join.
Print Assumptions C07_split_partition.
Print Assumptions C07_trim_text.
Print Assumptions C07_trim_meaning.
Print Assumptions C07_regex_offsets.
Print Assumptions C07_segmentation.
Print Assumptions C07_segmentation_in_range.
Print Assumptions C07_segments_contiguous.
Print Assumptions C07_segments_cut_points.
Print Assumptions C07_find_text_sequence.
Print Assumptions C07_find_text_sequence_nocase.
