From Coq Require Import NArith.
From Stam Require Import Base.Tac Model.Rel Model.Offset Model.Transpose Spec.TransposeSpec Proofs.Transpose Props.C16.
Check (C16_rel_offset_text : forall (t1 t2 : text) b1 e1 b2 e2 x y,
  sub t1 b1 e1 = sub t2 b2 e2 -> y <= e1 - b1 -> y <= e2 - b2 ->
  sub t1 (b1 + x) (b1 + y) = sub t2 (b2 + x) (b2 + y)).
Print Assumptions C16_rel_offset_text.
