From Coq Require Import NArith List.
Import ListNotations.
From Stam Require Import Base.Tac Base.Sx Model.Rel Model.Offset Model.Transpose Spec.TransposeSpec Proofs.Transpose Run.C16 Props.C16.
Check (C16_rel_offset_text : forall (t1 t2 : text) b1 e1 b2 e2 x y,
  sub t1 b1 e1 = sub t2 b2 e2 -> y <= e1 - b1 -> y <= e2 - b2 ->
  sub t1 (b1 + x) (b1 + y) = sub t2 (b2 + x) (b2 + y)).
Check (C16_transpose_sound : forall T V r src cfg existing complex fuel res,
  wf_input T complex V r src = true ->
  transpose fuel (lens_of T) complex V r src cfg existing = TOk res ->
  check_forward T V r src cfg (flagged res) = true).
Check (C16_text_preserved : forall T V r src cfg O, check_forward T V r src cfg O = true ->
  exists s, find_flag 0 O = Some s /\ length O = length V
    /\ concat (map (subf T) (snd (nth s O (0, [])))) = concat (map (sub2 (text_of T r)) src)
    /\ covered (nth s V []) r src = true
    /\ forall j, j < length O ->
         Forall (fun g => in_range T g = true) (snd (nth j O (0, [])))
         /\ map (subf T) (snd (nth j O (0, []))) = map (subf T) (snd (nth s O (0, [])))).
Check (C16_new_transposition_wf : forall T V r src cfg O,
  wf_transp T V = true -> check_forward T V r src cfg O = true -> new_transposition_wf T O = true).
Check (C16_transpose_back : forall T O j cfg fuel,
  wf_transp T O = true -> j < length O ->
  single_res (nth j O []) = true -> pairwise_apart (nth j O []) = true ->
  (cfg = Some j \/ (cfg = None /\ only_side_in_res O j = true)) ->
  fuel_for (map rng (nth j O [])) <= fuel ->
  transpose_annotation fuel (lens_of T) true O (nth j O []) cfg = TOk (mkres j false O)).
Check (C16_uncovered_fails : forall T V r src cfg existing complex fuel,
  wf_input T complex V r src = true ->
  (forall s, covered (nth s V []) r src = false) ->
  forall res, transpose fuel (lens_of T) complex V r src cfg existing <> TOk res).
Check (C16_total : forall T V r src cfg existing complex fuel,
  wf_input T complex V r src = true -> fuel_for src <= fuel ->
  transpose fuel (lens_of T) complex V r src cfg existing = TErr
  \/ exists res, transpose fuel (lens_of T) complex V r src cfg existing = TOk res).
Check (C16_run_forward_consistent : forall T V r src cfg existing complex fuel,
  wf_input T complex V r src = true -> fuel_for src <= fuel ->
  let m := transpose fuel (lens_of T) complex V r src cfg existing in
  spec_fwd T V r src cfg true (show m) = show m).
Print Assumptions C16_rel_offset_text.
Print Assumptions C16_run_forward_consistent.
Print Assumptions C16_run_back_consistent.
Print Assumptions C16_transpose_sound.
Print Assumptions C16_annotation_entry.
Print Assumptions C16_text_preserved.
Print Assumptions C16_new_transposition_wf.
Print Assumptions C16_transpose_back.
Print Assumptions C16_uncovered_fails.
Print Assumptions C16_total.
Print Assumptions C16_nonvacuous.
