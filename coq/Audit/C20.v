From Coq Require Import List Arith Bool.
Import ListNotations.
From Stam Require Import Model.Conc Spec.ConcSpec Proofs.Conc Props.C20.
Check (C20_readers_independent : forall c0 st,
  le_flags (flags st) c0 ->
  (forall j tj, nth_error (thr st) j = Some tj -> nw c0 (stk tj) = true) ->
  forall i t o m1, nth_error (thr st) i = Some t -> dead t = false -> out t = [] ->
  sem (md st) (stk t) = Some (o, m1) ->
  forall sched n t1 t2,
    nth_error (thr (run sched st)) i = Some t1 -> finished t1 = true ->
    nth_error (thr (run (repeat i n) st)) i = Some t2 -> finished t2 = true ->
    out t1 = out t2 /\ dead t1 = false).
Check (C20_guarded : forall c0 i sched st t o m1,
  le_flags (flags st) c0 ->
  nth_error (thr st) i = Some t -> dead t = false -> out t = [] ->
  sem (md st) (stk t) = Some (o, m1) ->
  Known_C20_mode_write c0 (thr st) i = false ->
  exists t', nth_error (thr (run sched st)) i = Some t' /\ dead t' = false
             /\ (finished t' = true -> out t' = o)
             /\ exists rest, out t' ++ rest = o).
Check (C20_entry_points : forall f mem o,
  sem Allow (prog (S f) mem o) = Some (spec_out mem o, Allow)).
Check (C20_scenario : forall sc sched i o,
  nth_error (ops sc) i = Some o ->
  Known_C20_mode_write (changed0 sc) (thr (init sc)) i = false ->
  exists t', nth_error (thr (run sched (init sc))) i = Some t' /\ dead t' = false
             /\ (finished t' = true -> out t' = spec_out (members sc) o)
             /\ exists rest, out t' ++ rest = spec_out (members sc) o).
Check (C20_scenario_solo : forall sc n i o,
  nth_error (ops sc) i = Some o ->
  exists t', nth_error (thr (run (repeat i n) (init sc))) i = Some t' /\ dead t' = false
             /\ (finished t' = true -> out t' = spec_out (members sc) o)).
Check (C20_scenario_coarse : forall sc cs i o t',
  nth_error (ops sc) i = Some o ->
  Known_C20_mode_write (changed0 sc) (thr (init sc)) i = false ->
  nth_error (thr (run_coarse cs (init sc))) i = Some t' -> finished t' = true ->
  out t' = spec_out (members sc) o /\ dead t' = false).
Check (C20_refuted :
  exists sc cs i o t', nth_error (ops sc) i = Some o
    /\ nth_error (thr (run_coarse cs (init sc))) i = Some t' /\ finished t' = true
    /\ out t' <> spec_out (members sc) o).
Print Assumptions C20_readers_independent.
Print Assumptions C20_guarded.
Print Assumptions C20_solo.
Print Assumptions C20_entry_points.
Print Assumptions C20_scenario.
Print Assumptions C20_scenario_solo.
Print Assumptions C20_coarse.
Print Assumptions C20_scenario_coarse.
Print Assumptions C20_refuted.
Print Assumptions C20_refuted_store_loses_include.
Print Assumptions C20_refuted_member_gets_include.
Print Assumptions C20_refuted_two_store_serialisations.
Print Assumptions C20_refuted_file_gets_include.
