From Coq Require Import List Arith Bool.
Import ListNotations.
From Stam Require Import Model.Conc Spec.ConcSpec Proofs.Conc Props.C20.
Check (C20_independent : forall i sched st t o m1,
  nth_error (thr st) i = Some t -> dead t = false -> out t = [] -> fout t = [] ->
  sem (tmd t) (stk t) = Some (o, m1) ->
  exists t', nth_error (thr (run false sched st)) i = Some t' /\ dead t' = false /\ files_ok t'
             /\ (finished t' = true -> out t' = o)
             /\ exists rest, out t' ++ rest = o).
Check (C20_alone_or_not : forall i st t o m1,
  nth_error (thr st) i = Some t -> dead t = false -> out t = [] -> fout t = [] ->
  sem (tmd t) (stk t) = Some (o, m1) ->
  forall sched n t1 t2,
    nth_error (thr (run false sched st)) i = Some t1 -> finished t1 = true ->
    nth_error (thr (run false (repeat i n) st)) i = Some t2 -> finished t2 = true ->
    out t1 = out t2 /\ dead t1 = false).
Check (C20_entry_points : forall f mem o, writable mem = true -> plain_op o = true ->
  sem Allow (prog (S f) mem o) = Some (spec_out mem o, Allow)).
Check (C20_scenario : forall sc sched i o,
  writable (members sc) = true ->
  nth_error (ops sc) i = Some o -> plain_op o = true ->
  exists t', nth_error (thr (run false sched (init sc))) i = Some t' /\ dead t' = false /\ files_ok t'
             /\ (finished t' = true -> out t' = spec_out (members sc) o)
             /\ exists rest, out t' ++ rest = spec_out (members sc) o).
Check (C20_scenario_solo : forall sh sc n i o,
  writable (members sc) = true ->
  nth_error (ops sc) i = Some o -> plain_op o = true ->
  exists t', nth_error (thr (run sh (repeat i n) (init sc))) i = Some t' /\ dead t' = false
             /\ (finished t' = true -> out t' = spec_out (members sc) o)).
Check (C20_scenario_coarse : forall sc cs i o t',
  writable (members sc) = true ->
  nth_error (ops sc) i = Some o -> plain_op o = true ->
  nth_error (thr (run_coarse false cs (init sc))) i = Some t' ->
  files_ok t' /\ dead t' = false /\ (finished t' = true -> out t' = spec_out (members sc) o)).
Check (C20_shared_guarded : forall sc sched i o,
  writable (members sc) = true ->
  nth_error (ops sc) i = Some o -> plain_op o = true ->
  Shared_mode_race (changed0 sc) (thr (init sc)) i = false ->
  exists t', nth_error (thr (run true sched (init sc))) i = Some t' /\ dead t' = false /\ files_ok t'
             /\ (finished t' = true -> out t' = spec_out (members sc) o)
             /\ exists rest, out t' ++ rest = spec_out (members sc) o).
Check (C20_shared_refuted :
  exists sc cs i o t', nth_error (ops sc) i = Some o
    /\ nth_error (thr (run_coarse true cs (init sc))) i = Some t' /\ finished t' = true
    /\ out t' <> spec_out (members sc) o).
Check (C20_parallel_is_sequential : forall l, par_consumers l = seq_consumers l).
Print Assumptions C20_parallel_is_sequential.
Print Assumptions C20_independent.
Print Assumptions C20_alone_or_not.
Print Assumptions C20_solo.
Print Assumptions C20_entry_points.
Print Assumptions C20_scenario.
Print Assumptions C20_scenario_solo.
Print Assumptions C20_coarse.
Print Assumptions C20_scenario_coarse.
Print Assumptions C20_shared_readers_independent.
Print Assumptions C20_shared_guarded.
Print Assumptions C20_shared_refuted.
Print Assumptions C20_shared_refuted_store_loses_include.
Print Assumptions C20_shared_refuted_member_gets_include.
Print Assumptions C20_shared_refuted_two_store_serialisations.
Print Assumptions C20_shared_refuted_file_gets_include.
Print Assumptions C20_repaired_on_the_witnesses.
