From Stam Require Import Base.Tac Model.Offset Model.Utf8 Proofs.Utf8 Props.C12.
Check (C12_utf8byte_exact : forall idx t p, Consistent idx t -> p <= length t -> utf8byte idx t p = OOk (bytepos t p)).
Check (C12_charpos_exact : forall b2c t p, Consistent' b2c t -> p <= length t ->
  utf8byte_to_charpos b2c t (bytepos t p) = OOk p).
Check (C12_charpos_reject : forall b2c t b, Consistent' b2c t ->
  (forall p, p <= length t -> bytepos t p <> b) -> utf8byte_to_charpos b2c t b = OErr).
Check (C12_milestones_consistent : forall interval t,
  Consistent (fst (milestones interval t)) t /\ Consistent' (snd (milestones interval t)) t).
Print Assumptions C12_utf8byte_exact.
Print Assumptions C12_utf8byte_out_of_bounds.
Print Assumptions C12_charpos_exact.
Print Assumptions C12_charpos_reject.
Print Assumptions C12_no_panic.
Print Assumptions C12_milestones_consistent.
Print Assumptions C12_insert_consistent.
Print Assumptions C12_insert_out_of_bounds.
Print Assumptions C12_utf8byte_index_independent.
Print Assumptions C12_charpos_index_independent.
Print Assumptions C12_sel_utf8byte.
Print Assumptions C12_sel_charpos_exact.
Print Assumptions C12_sel_charpos_reject.
Print Assumptions C12_byte_slice_is_codepoint_slice.
