From Coq Require Import List NArith ZArith Bool String.
From Stam Require Import Base.Tac Model.Json Model.WebAnno Spec.WebAnnoSpec Proofs.Json Proofs.WebAnno Props.C17.
Import ListNotations.
Check (C17_unescape_escape : forall s : list N, unescape (escape s) = Some s).
Check (C17_parse_render : forall j, wf_json j = true -> parse_json (render j) = Some j).
Check (C17_export_is_intended_tree : forall st c a av j,
  get_ann st a = Some av ->
  Known_C17_config_chars c = false ->
  Known_C17_nonfinite av = false ->
  forallb (fun d => value_dates_plain (d_val d)) (a_data av) = true ->
  export_ast st c a = Some j ->
  exists s, to_webannotation st c a = Some s /\ parse_json s = Some j /\ is_object j = true).
Check (C17_targets : forall st c a av j,
  get_ann st a = Some av -> export_ast st c a = Some j ->
  exists pre tj, j = JObj (pre ++ [(LIT "target", tj)])
                 /\ abs_targets st c (a_target av) = Some (targets tj)).
Check (C17_data : forall st c a av j d,
  get_ann st a = Some av -> export_ast st c a = Some j -> In d (a_data av) ->
  exists pre tj, j = JObj (pre ++ [(LIT "target", tj)]) /\
    ((is_main d = true /\ In (pred_name c d, pred_json (d_val d)) pre)
     \/ (is_main d = false /\ exists bm, In (LIT "body", JObj bm) pre /\ In (pred_name c d, pred_json (d_val d)) bm))).
Check (C17_int_content : forall z, num_int (dec_Z z) = Some z).
Check (C17_no_duplicates_no_loss : forall j, has_dup_keys j = false -> norm false j = norm true j).
Print Assumptions C17_unescape_escape.
Print Assumptions C17_parse_render.
Print Assumptions C17_parse_tokens_of.
Print Assumptions C17_export_is_intended_tree.
Print Assumptions C17_targets.
Print Assumptions C17_data.
Print Assumptions C17_int_content.
Print Assumptions C17_numbers_wellformed.
Print Assumptions C17_whole_floats_wellformed.
Print Assumptions C17_no_duplicates_no_loss.
Print Assumptions Known_C17_nonfinite_witness.
Print Assumptions Known_C17_config_chars_witness.
Print Assumptions Known_C17_duplicate_names_witness.
Print Assumptions Known_C17_anonymous_target_witness.
