From Coq Require Import List NArith ZArith Bool.
From Stam Require Import Base.Tac Model.Json Proofs.Json Props.C17.
Check (C17_unescape_escape : forall s : list N, unescape (escape s) = Some s).
Check (C17_parse_render : forall j, wf_json j = true -> parse_json (render j) = Some j).
Print Assumptions C17_unescape_escape.
Print Assumptions C17_parse_render.
Print Assumptions C17_parse_tokens_of.
