(* The comparator with which AnnotationStore::subselectors() sorts the members of a
   MultiSelector / CompositeSelector (sort_unstable_by; src/annotationstore.rs), arm by arm in the
   order of the code.  sort_unstable_by needs a total order: Proofs/SubOrder.v shows this one is
   the lexicographic order of a key, for every mix of members. *)
From Coq Require Import List Arith Bool.
Import ListNotations.
From Stam Require Import Model.Offset Model.Store Model.Compress.

(* TextSelection::cmp: begin, then end; `.expect("textselection must resolve")` never fires on a
   resolved selector (item_refs_ok), the default stands for that case *)
Definition sel_range (s : store) (r t : nat) : nat * nat :=
  match range_of s r t with Some rg => rg | None => (0, 0) end.

Definition cmp_then (c : comparison) (d : comparison) : comparison :=
  match c with Eq => d | _ => c end.

Definition text_cmp (s : store) (r t r2 t2 : nat) : comparison :=
  if Nat.eqb r r2 then
    let '(b, e) := sel_range s r t in
    let '(b2, e2) := sel_range s r2 t2 in
    cmp_then (Nat.compare b b2) (Nat.compare e e2)
  else Nat.compare r r2.

Definition leaf_cmp (s : store) (a b : leaf) : comparison :=
  match a, b with
  | LText r t _, LText r2 t2 _
  | LAnnText _ r t _, LAnnText _ r2 t2 _
  | LAnnText _ r t _, LText r2 t2 _
  | LText r t _, LAnnText _ r2 t2 _ => text_cmp s r t r2 t2
  | LAnn x, LAnn y => Nat.compare x y
  | LAnn _, LAnnText _ _ _ _ => Gt
  | LAnnText _ _ _ _, LAnn _ => Lt
  | LRes r, LRes r2 => Nat.compare r r2
  | LSet d, LSet d2 => Nat.compare d d2
  | LText _ _ _, _ => Lt
  | _, LText _ _ _ => Gt
  | LAnnText _ _ _ _, _ => Lt
  | _, LAnnText _ _ _ _ => Gt
  | LRes _, _ => Lt
  | _, LRes _ => Gt
  | LSet _, _ => Lt
  | _, LSet _ => Gt
  | LAnn _, _ => Lt
  | _, LAnn _ => Gt
  | LKey d k, LKey d2 k2 => cmp_then (Nat.compare d d2) (Nat.compare k k2)
  | LKey _ _, _ => Lt
  | _, LKey _ _ => Gt
  | LData d x, LData d2 x2 => cmp_then (Nat.compare d d2) (Nat.compare x x2)
  end.

(* the key the comparator orders by: text first (by resource, begin, end), then resources,
   datasets, annotations as a whole, keys, data *)
Definition leaf_sortkey (s : store) (lf : leaf) : nat * (nat * (nat * nat)) :=
  match lf with
  | LText r t _ | LAnnText _ r t _ => let '(b, e) := sel_range s r t in (0, (r, (b, e)))
  | LRes r => (1, (r, (0, 0)))
  | LSet d => (2, (d, (0, 0)))
  | LAnn a => (3, (a, (0, 0)))
  | LKey d k => (4, (d, (k, 0)))
  | LData d x => (5, (d, (x, 0)))
  end.

Definition lex4 (x y : nat * (nat * (nat * nat))) : comparison :=
  cmp_then (Nat.compare (fst x) (fst y))
    (cmp_then (Nat.compare (fst (snd x)) (fst (snd y)))
       (cmp_then (Nat.compare (fst (snd (snd x))) (fst (snd (snd y))))
          (Nat.compare (snd (snd (snd x))) (snd (snd (snd y)))))).

(* non-decreasing under a comparator *)
Fixpoint sortedb {A} (cmp : A -> A -> comparison) (l : list A) : bool :=
  match l with
  | a :: ((b :: _) as l') => match cmp a b with Gt => false | _ => sortedb cmp l' end
  | _ => true
  end.
