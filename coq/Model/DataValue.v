(* Model of DataValue::test (src/datavalue.rs) and of the data lookups
   (src/api/annotationdataset.rs find_data / test_data, src/api/datakey.rs data,
   src/annotationdataset.rs data_by_value).  Floats are fixed-point numbers with three
   decimals (the harness only uses floats on that grid, so order and equality are
   preserved); datetimes are not modelled. *)
From Coq Require Import List ZArith NArith Bool Arith.
Import ListNotations.
From Stam Require Import Model.Offset Model.Store Model.TempId.

Inductive dop :=
| OpNull | OpAny | OpTrue | OpFalse
| OpEquals (s : list N)
| OpEqInt (z : Z) | OpGt (z : Z) | OpGe (z : Z) | OpLt (z : Z) | OpLe (z : Z)
| OpEqFix (z : Z) | OpGtFix (z : Z) | OpGeFix (z : Z) | OpLtFix (z : Z) | OpLeFix (z : Z)
| OpHas (s : list N) | OpHasInt (z : Z) | OpHasFix (z : Z)
| OpNot (o : dop) | OpAnd (l : list dop) | OpOr (l : list dop).

Definition str_eqb (a b : list N) : bool := list_eqb N.eqb a b.

(* ASCII lower-casing (the harness' strings contain no other cased letters) *)
Definition lower (c : N) : N := if (65 <=? c)%N && (c <=? 90)%N then (c + 32)%N else c.
(* "yes" | "1" | "enable" | "enabled" | "on" | "true" *)
Definition truthy (s : list N) : bool :=
  let t := map lower s in
  existsb (str_eqb t)
    [[121;101;115]; [49]; [101;110;97;98;108;101]; [101;110;97;98;108;101;100]; [111;110]; [116;114;117;101]]%N.

(* str::parse::<isize>(): optional sign, digits (64-bit range) *)
Definition parse_isize (s : list N) : option Z :=
  let '(neg, body) := match s with
                      | 45%N :: r => (true, r)
                      | 43%N :: r => (false, r)
                      | _ => (false, s)
                      end in
  match body with
  | [] => None
  | _ => match parse_digits 0 body with
         | Some n => let z := if neg then Z.opp (Z.of_N n) else Z.of_N n in
                     if (Z.leb (-9223372036854775808) z && Z.leb z 9223372036854775807)%Z then Some z else None
         | None => None
         end
  end.

(* the arms of DataValue::test that involve neither lists nor logical operators *)
Definition scalar_test (v : value) (o : dop) : bool :=
  match v, o with
  | VNull, OpNull => true
  | VBool true, OpTrue => true
  | VBool false, OpFalse => true
  | VBool true, OpEquals s => truthy s
  | VBool false, OpEquals s => negb (truthy s)
  | VStr s, OpEquals s2 => str_eqb s s2
  | VInt n, OpEqInt n2 => Z.eqb n n2
  | VInt n, OpGt n2 => Z.ltb n2 n
  | VInt n, OpGe n2 => Z.leb n2 n
  | VInt n, OpLt n2 => Z.ltb n n2
  | VInt n, OpLe n2 => Z.leb n n2
  | VInt n, OpEquals s => match parse_isize s with Some n2 => Z.eqb n n2 | None => false end
  | VFix n, OpEqFix n2 => Z.eqb n n2
  | VFix n, OpGtFix n2 => Z.ltb n2 n
  | VFix n, OpGeFix n2 => Z.leb n2 n
  | VFix n, OpLtFix n2 => Z.ltb n n2
  | VFix n, OpLeFix n2 => Z.leb n n2
  (* str::parse::<f64>() on the harness' strings: only plain integer numerals parse *)
  | VFix n, OpEquals s => match parse_isize s with Some n2 => Z.eqb n (n2 * 1000) | None => false end
  | _, _ => false
  end.

(* HasElement*: some element passes the corresponding Equals test (an element that is itself
   a list never does) *)
Definition atom_test (v : value) (o : dop) : bool :=
  match v, o with
  | VList l, OpHas s => existsb (fun e => scalar_test e (OpEquals s)) l
  | VList l, OpHasInt z => existsb (fun e => scalar_test e (OpEqInt z)) l
  | VList l, OpHasFix z => existsb (fun e => scalar_test e (OpEqFix z)) l
  | _, _ => scalar_test v o
  end.

Fixpoint value_test (v : value) (o : dop) {struct o} : bool :=
  match o with
  | OpAny => true
  | OpNot o' => negb (value_test v o')
  | OpAnd l => (fix all (l : list dop) : bool := match l with [] => true | x :: l' => value_test v x && all l' end) l
  | OpOr l => (fix any (l : list dop) : bool := match l with [] => false | x :: l' => value_test v x || any l' end) l
  | _ => atom_test v o
  end.

Definition live_datum (ds : dset) (x : nat) : bool :=
  match slot (d_data ds) x with Some _ => true | None => false end.
Definition datum_test (ds : dset) (o : dop) (x : nat) : bool :=
  match slot (d_data ds) x with Some it => value_test (x_val it) o | None => false end.

(* ResultItem<AnnotationDataSet>::find_data: key = None means "any key"; Some r = a key request *)
Definition m_find_data (ds : dset) (key : option iref) (o : dop) : list nat :=
  match key with
  | Some kr =>
      match ref_key ds kr with
      | Some k => filter (datum_test ds o) (filter (live_datum ds) (rget (d_k2x ds) k))
      | None => []
      end
  | None => filter (datum_test ds o) (live_handles (d_data ds))
  end.

(* AnnotationDataSet::data_by_value(key, value) *)
Definition m_data_by_value (ds : dset) (kr : iref) (v : value) : option nat :=
  match ref_key ds kr with Some k => data_by_value ds k v | None => None end.
