(* Model of the relation tests of src/textselection.rs:
     impl TestTextSelection for TextSelection      (test, test_set)
     impl TestTextSelection for TextSelectionSet   (test, test_set)
     TextSelectionSet::{leftmost, rightmost, add, sort}
     TextSelection::intersection
   Transcribed arm by arm.  Executable definitions only; proofs live in
   Proofs/Rel.v. *)
From Coq Require Import List Arith Bool.
Import ListNotations.

(* TextSelection { intid, begin, end } *)
Record ts := mkts { hid : option nat; tb : nat; te : nat }.

Inductive rel :=
| Equals | Overlaps | Embeds | Embedded | Before | After
| Precedes | Succeeds | SameBegin | SameEnd | InSet | SameRange.

(* TextSelectionOperator flattened: [olim] is meaningful for Embedded/Before/
   After only, [ows] (allow_whitespace) for Precedes/Succeeds only. *)
Record op := mkop { orel : rel; oall : bool; oneg : bool;
                    olim : option nat; ows : bool }.

(* TextSelectionSet { data, sorted } (the resource handle is checked by the
   API wrappers before the test is reached) *)
Record tset := mkset { items : list ts; sorted : bool }.

Definition onat_eqb (a b : option nat) : bool :=
  match a, b with
  | None, None => true
  | Some x, Some y => Nat.eqb x y
  | _, _ => false
  end.

(* derive(PartialEq) on TextSelection: all three fields *)
Definition ts_eqb (s r : ts) : bool :=
  onat_eqb (hid s) (hid r) && Nat.eqb (tb s) (tb r) && Nat.eqb (te s) (te r).

(* const WHITESPACE_LIMIT: the longest whitespace gap Precedes/Succeeds allow *)
Definition WHITESPACE_LIMIT := 10.

Section WithText.
  (* whitespace flag of every codepoint of the resource text *)
  Variable ws : list bool.

  (* the gap is at most WHITESPACE_LIMIT long, resource.text_by_offset(Offset::simple(b,e)) is Ok
     and all whitespace *)
  Definition gap_ws (b e : nat) : bool :=
    if (b <=? e) && (e <=? length ws) && (e - b <=? WHITESPACE_LIMIT)
    then forallb (fun x => x) (firstn (e - b) (skipn b ws))
    else false.

  (* TextSelection::test, arms with negate = false *)
  Definition pos_pair (o : op) (s r : ts) : bool :=
    let sb := tb s in let se := te s in let rb := tb r in let re := te r in
    match orel o with
    | Equals | InSet => ts_eqb s r
    | Overlaps =>
        ((sb <=? rb) && (rb <? se)) || ((sb <? re) && (re <=? se))
        || ((rb <=? sb) && (se <=? re)) || ((sb <=? rb) && (re <=? se))
    | Embeds => (sb <=? rb) && (re <=? se)
    | Embedded =>
        match olim o with
        | Some lim => (rb <=? sb) && (se <=? re) && (sb - rb <=? lim) && (re - se <=? lim)
        | None => (rb <=? sb) && (se <=? re)
        end
    | Before =>
        match olim o with
        | Some lim => (se <=? rb) && (rb - se <=? lim)
        | None => se <=? rb
        end
    | After =>
        match olim o with
        | Some lim => (re <=? sb) && (sb - re <=? lim)
        | None => re <=? sb
        end
    | Precedes =>
        if negb (ows o) then Nat.eqb se rb
        else if se <=? rb then
               (if Nat.eqb (rb - se) 0 then true else gap_ws se rb)
             else false
    | Succeeds =>
        if negb (ows o) then Nat.eqb re sb
        else if re <=? sb then
               (if Nat.eqb (sb - re) 0 then true else gap_ws re sb)
             else false
    | SameBegin => Nat.eqb sb rb
    | SameEnd => Nat.eqb se re
    | SameRange => Nat.eqb sb rb && Nat.eqb se re
    end.

  Definition test_pair (o : op) (s r : ts) : bool :=
    if oneg o then negb (pos_pair o s r) else pos_pair o s r.

  (* leftmost(): sorted -> data[0]; else first item with strictly smaller begin *)
  Fixpoint leftmost_from (cur : ts) (l : list ts) : ts :=
    match l with
    | [] => cur
    | x :: l' => leftmost_from (if tb x <? tb cur then x else cur) l'
    end.
  (* rightmost(): first item with strictly greater end (also for sorted sets) *)
  Fixpoint rightmost_from (cur : ts) (l : list ts) : ts :=
    match l with
    | [] => cur
    | x :: l' => rightmost_from (if te cur <? te x then x else cur) l'
    end.
  Definition leftmost (A : tset) : option ts :=
    match items A with
    | [] => None
    | x :: l => if sorted A then Some x else Some (leftmost_from x l)
    end.
  Definition rightmost (A : tset) : option ts :=
    match items A with
    | [] => None
    | x :: l => Some (rightmost_from x l)
    end.

  Definition is_nil {X} (l : list X) : bool := match l with [] => true | _ => false end.

  (* TextSelection::test_set, negate = false *)
  Definition pos_ts_set (o : op) (s : ts) (B : tset) : bool :=
    let lb := map tb (items B) in
    let le := map te (items B) in
    match orel o, oall o with
    | SameRange, _ =>
        match leftmost B, rightmost B with
        | Some l, Some r => Nat.eqb (tb s) (tb l) && Nat.eqb (te s) (te r)
        | _, _ => false
        end
    | _, false => existsb (pos_pair o s) (items B)
    | (Equals | InSet | Overlaps | Embeds | Embedded | Before | After), true =>
        if is_nil (items B) then false
        else forallb (pos_pair o s) (items B)
    | Precedes, true =>
        match items B with
        | [] => false
        | x :: l =>
            let lm := fold_left (fun m y => if tb y <? m then tb y else m) l (tb x) in
            if negb (ows o) then Nat.eqb (te s) lm
            else if te s <=? lm then
                   (if Nat.eqb (lm - te s) 0 then true else gap_ws (te s) lm)
                 else false
        end
    | Succeeds, true =>
        match items B with
        | [] => false
        | x :: l =>
            let rm := fold_left (fun m y => if m <? te y then te y else m) l (te x) in
            if negb (ows o) then Nat.eqb (tb s) rm
            else if rm <=? tb s then
                   (if Nat.eqb (tb s - rm) 0 then true else gap_ws rm (tb s))
                 else false
        end
    | SameBegin, true =>
        match leftmost B with Some l => Nat.eqb (tb s) (tb l) | None => false end
    | SameEnd, true =>
        match rightmost B with Some r => Nat.eqb (te s) (te r) | None => false end
    end.

  Definition test_ts_set (o : op) (s : ts) (B : tset) : bool :=
    if oneg o then negb (pos_ts_set o s B) else pos_ts_set o s B.

  (* TextSelectionSet::test (set against one selection), negate = false,
     set known to be non-empty *)
  Definition pos_set_ts (o : op) (A : tset) (r : ts) : bool :=
    match orel o, oall o with
    | SameRange, _ =>
        match leftmost A, rightmost A with
        | Some l, Some m => Nat.eqb (tb l) (tb r) && Nat.eqb (te m) (te r)
        | _, _ => false
        end
    | _, false => forallb (fun a => pos_pair o a r) (items A)
    | (Equals | InSet | Overlaps | Embeds | Embedded), true =>
        forallb (fun a => pos_pair o a r) (items A)
    | (Precedes | Before | SameEnd), true =>
        match rightmost A with Some a => pos_pair o a r | None => false end
    | (Succeeds | After | SameBegin), true =>
        match leftmost A with Some a => pos_pair o a r | None => false end
    end.

  Definition test_set_ts (o : op) (A : tset) (r : ts) : bool :=
    if is_nil (items A) then false
    else if oneg o then negb (pos_set_ts o A r) else pos_set_ts o A r.

  (* TextSelectionSet::test_set, negate = false, A non-empty.  The delegated
     calls are item.test_set(operator, ...) with the same (positive) operator. *)
  Definition pos_set_set (o : op) (A B : tset) : bool :=
    match orel o, oall o with
    | SameRange, _ =>
        match leftmost A, rightmost A, leftmost B, rightmost B with
        | Some la, Some ra, Some lb, Some rb =>
            Nat.eqb (tb la) (tb lb) && Nat.eqb (te ra) (te rb)
        | _, _, _, _ => false
        end
    | Equals, false =>
        if negb (Nat.eqb (length (items A)) (length (items B))) then false
        else forallb (fun a => pos_ts_set o a B) (items A)
    | _, false => forallb (fun a => pos_ts_set o a B) (items A)
    | (Equals | InSet | Overlaps | Embeds | Embedded), true =>
        forallb (fun a => pos_ts_set o a B) (items A)
    | (Precedes | Before | SameEnd), true =>
        match rightmost A with Some a => pos_ts_set o a B | None => false end
    | (Succeeds | After | SameBegin), true =>
        match leftmost A with Some a => pos_ts_set o a B | None => false end
    end.

  Definition test_set_set (o : op) (A B : tset) : bool :=
    if is_nil (items A) then false
    else if oneg o then negb (pos_set_set o A B) else pos_set_set o A B.

End WithText.

(* TextSelectionOperator::toggle_negate / toggle_all / with_limit *)
Definition toggle_negate (o : op) : op :=
  mkop (orel o) (oall o) (negb (oneg o)) (olim o) (ows o).
Definition toggle_all (o : op) : op :=
  mkop (orel o) (negb (oall o)) (oneg o) (olim o) (ows o).
Definition with_limit (o : op) (n : nat) : op :=
  match orel o with
  | Embedded | Before | After => mkop (orel o) (oall o) (oneg o) (Some n) (ows o)
  | _ => o
  end.

(* TextSelection::intersection: (intersection, self remainder, other remainder) *)
Definition intersection (s o : ts) : option (ts * option ts * option ts) :=
  let sb := tb s in let se := te s in let ob := tb o in let oe := te o in
  let b1 := if (sb <=? ob) && (ob <? se) then Some ob
            else if (ob <=? sb) && (sb <? oe) then Some sb else None in
  let e1 := if (sb <? oe) && (oe <=? se) then Some oe
            else if (ob <? se) && (se <=? oe) then Some se else None in
  let '(b2, e2) :=
    if (ob <=? sb) && (se <=? oe) then (Some sb, Some se)
    else if (sb <=? ob) && (oe <=? se) then (Some ob, Some oe)
    else (b1, e1) in
  match b2, e2 with
  | Some b, Some e =>
      let srem := if sb <? b then Some (mkts None sb b)
                  else if e <? se then Some (mkts None e se) else None in
      let orem := if ob <? b then Some (mkts None ob b)
                  else if e <? oe then Some (mkts None e oe) else None in
      Some (mkts None b e, srem, orem)
  | _, _ => None
  end.
