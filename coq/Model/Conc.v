(* C20: interleaving model of the interior-mutable state that is reachable
   through shared references to one AnnotationStore.

   Cells:
     flags   TextResource::changed / AnnotationDataSet::changed : Arc<RwLock<bool>>,
             one per member, shared by all threads (resources.rs, annotationdataset.rs,
             file.rs ChangeMarker)
     mode    the serialisation mode (config.rs).  Since fix 5f67dd0 in /repo it is a
             thread-local cell (SERIALIZE_MODE): each thread has its own ([tmd]).
             Before, it was Config::serialize_mode : Arc<RwLock<SerializeMode>>, shared
             by every clone of the store's Config, i.e. ONE cell per store ([md]).
             A [thread] of this model is a READER, i.e. a sequence of logical calls; the mode
             belongs to the call that set it (set at the start of ToJson::to_json_string /
             to_json_file, set back at its end).  The thread-local cell implements that as long
             as a call runs on one operating-system thread without that thread running anything
             else in between; a call that waits inside a rayon pool (work stealing) would break
             it - the library does not do that while the mode is NoInclude, which the run samples
             on a real shared pool and nothing here proves.
             Both designs are modelled: every definition takes [sh : bool],
             sh = false  the mode is confined to the thread (the code as it is now),
             sh = true   the mode is one shared cell (the code as it was; kept because it
                         shows precisely why the property failed, and as the reference
                         for the seeded reversal of the repair).

   A thread is a stack of commands.  The commands that touch a cell are exactly the
   places where /repo calls verif::yield_point (cfg stam_verif):
     SetMode m        Config::set_serialize_mode            (site 1)
     IfMode a n       Config::serialize_mode() and the branch taken on it in
                      impl Serialize for TextResource / AnnotationDataSet      (site 2)
     IfChanged i b    ChangeMarker::changed() of member i, b = the flush       (site 3)
     ClearChanged i   ChangeMarker::mark_unchanged()                           (site 4)
     Yield            a scheduling point without effect (thread start; site 6: a sub-store file is
                      about to be written)
   Emit / FEmit are thread-local: a token appended to the string the thread is
   building, resp. written to a stand-off file.  There is no command that sets a
   changed flag: mark_changed() is only reachable through &mut self.

   Definitions only; proofs are in Proofs/Conc.v. *)
From Coq Require Import List Arith Bool.
Import ListNotations.

Inductive mode := Allow | NoInc.

Definition mode_eqb (a b : mode) : bool :=
  match a, b with Allow, Allow => true | NoInc, NoInc => true | _, _ => false end.

Definition tok := nat.

Definition t_inline (i : nat) : tok := 2 * i.        (* member i written with its content *)
Definition t_include (i : nat) : tok := 2 * i + 1.   (* member i written as {"@include": filename} *)
Definition t_sep : tok := 98.   (* end of one call, when a thread makes several *)
Definition t_err : tok := 99.   (* the call returned Err *)

Inductive cmd : Type :=
| Yield
| Emit (t : tok)
| FEmit (f : nat) (t : tok)
| SetMode (m : mode)
| IfMode (a n : list cmd)
| IfChanged (i : nat) (body : list cmd)
| ClearChanged (i : nat)
| EndCall  (* the current call returns Ok; the thread goes on with its next call *)
| Fail     (* the current call returns Err (a stand-off file could not be written): what the call
              had put together is dropped, the thread goes on with its next call *)
| Abort.   (* model fuel exhausted (nesting of stand-off flushes deeper than the fuel) *)

Record thread := mkT { stk : list cmd; tmd : mode; out : list tok; fout : list (nat * tok); dead : bool }.

Record state := mkS { md : mode; flags : list bool; thr : list thread }.

Definition flag (i : nat) (fl : list bool) : bool := nth i fl false.

Fixpoint clear (i : nat) (fl : list bool) : list bool :=
  match fl, i with
  | [], _ => []
  | _ :: r, 0 => false :: r
  | b :: r, S i' => b :: clear i' r
  end.

Fixpoint upd {X : Type} (i : nat) (x : X) (l : list X) : list X :=
  match l, i with
  | [], _ => []
  | _ :: r, 0 => x :: r
  | y :: r, S i' => y :: upd i' x r
  end.

Definition is_endcall (c : cmd) : bool := match c with EndCall => true | _ => false end.

(* the rest of the stack after the current call *)
Fixpoint next_call (s : list cmd) : list cmd :=
  match s with
  | [] => []
  | EndCall :: k => k
  | _ :: k => next_call k
  end.

(* what the earlier calls of the thread returned (everything up to the last separator) *)
Fixpoint earlier_calls (o : list tok) : list tok :=
  match o with
  | [] => []
  | x :: r =>
      if existsb (Nat.eqb t_sep) r then x :: earlier_calls r
      else if Nat.eqb x t_sep then [x] else []
  end.

Definition branch (m : mode) (a n : list cmd) : list cmd :=
  match m with Allow => a | NoInc => n end.

(* the mode a thread sees *)
Definition cur_mode (sh : bool) (m : mode) (t : thread) : mode := if sh then m else tmd t.

(* one atomic action of one thread *)
Definition step1 (sh : bool) (m : mode) (fl : list bool) (t : thread) : mode * list bool * thread :=
  match stk t with
  | [] => (m, fl, t)
  | c :: k =>
      match c with
      | Yield => (m, fl, mkT k (tmd t) (out t) (fout t) (dead t))
      | Emit x => (m, fl, mkT k (tmd t) (out t ++ [x]) (fout t) (dead t))
      | FEmit f x => (m, fl, mkT k (tmd t) (out t) (fout t ++ [(f, x)]) (dead t))
      | SetMode m' =>
          if sh then (m', fl, mkT k (tmd t) (out t) (fout t) (dead t))
          else (m, fl, mkT k m' (out t) (fout t) (dead t))
      | IfMode a n => (m, fl, mkT (branch (cur_mode sh m t) a n ++ k) (tmd t) (out t) (fout t) (dead t))
      | IfChanged i b => (m, fl, mkT ((if flag i fl then b else []) ++ k) (tmd t) (out t) (fout t) (dead t))
      | ClearChanged i => (m, clear i fl, mkT k (tmd t) (out t) (fout t) (dead t))
      | EndCall => (m, fl, mkT k (tmd t) (out t ++ [t_sep]) (fout t) (dead t))
      | Fail => (m, fl, mkT (next_call k) (tmd t)
                        (earlier_calls (out t) ++ t_err :: (if existsb is_endcall k then [t_sep] else []))
                        (fout t) (dead t))
      | Abort => (m, fl, mkT [] (tmd t) (out t) (fout t) true)
      end
  end.

(* thread i performs one action; an index without a thread is a stutter *)
Definition step (sh : bool) (i : nat) (st : state) : state :=
  match nth_error (thr st) i with
  | None => st
  | Some t =>
      match step1 sh (md st) (flags st) t with
      | (m, fl, t') => mkS m fl (upd i t' (thr st))
      end
  end.

(* a schedule is any list of thread indices *)
Definition run (sh : bool) (sched : list nat) (st : state) : state :=
  fold_left (fun s i => step sh i s) sched st.

Definition finished (t : thread) : bool := match stk t with [] => true | _ => false end.

(* ---- the harness schedules threads only at the yield sites: a scheduled thread
   performs the action it is blocked in front of and continues with its local
   actions up to the next yield site ---- *)
Definition is_local (c : cmd) : bool :=
  match c with Emit _ | FEmit _ _ | EndCall | Fail | Abort => true | _ => false end.

Fixpoint advance (sh : bool) (n : nat) (i : nat) (st : state) : state :=
  match n with
  | 0 => st
  | S n' =>
      match nth_error (thr st) i with
      | Some t =>
          match stk t with
          | c :: _ => if is_local c then advance sh n' i (step sh i st) else st
          | [] => st
          end
      | None => st
      end
  end.

Definition stack_len (i : nat) (st : state) : nat :=
  match nth_error (thr st) i with Some t => length (stk t) | None => 0 end.

Definition cstep (sh : bool) (i : nat) (st : state) : state :=
  let st1 := step sh i st in advance sh (stack_len i st1) i st1.

Definition run_coarse (sh : bool) (sched : list nat) (st : state) : state :=
  fold_left (fun s i => cstep sh i s) sched st.

(* ---- the serialisation entry points as thread programs ---- *)

(* how a member (resource or dataset) of the store is kept *)
Inductive fkind :=
| NoFile   (* inline: filename = None *)
| Txt      (* stand-off plain text file (resource whose filename does not end in .json) *)
| Json     (* stand-off STAM JSON file (dataset, or resource with a .json filename) *)
| JsonBroken (* stand-off STAM JSON file that cannot be written (its directory is gone) *)
| TxtBroken   (* stand-off plain text file that cannot be written *)
| SubStore.   (* a sub-store (AnnotationSubStore): always written as @include by the store
                 serialisation, which also writes its file, every time (no changed flag) *)

Definition emit (sink : option nat) (t : tok) : cmd :=
  match sink with None => Emit t | Some f => FEmit f t end.

(* impl Serialize for TextResource / AnnotationDataSet (resources.rs, annotationdataset.rs):
     if self.filename.is_some() && self.config.serialize_mode() == AllowInclude {   -- short circuit: no read without a filename
         "@include": filename
         if self.changed() {
             .json / dataset:  self.to_json_file(filename, self.config())   -- json.rs: set NoInclude; serialise self into the file; set AllowInclude
             plain text:       std::fs::write(filename, text)
             self.mark_unchanged()
         }
     } else { "@id", content }
   sink = None: the string under construction; Some f: the stand-off file f. *)
Fixpoint ser_member (fuel : nat) (sink : option nat) (i : nat) (k : fkind) : list cmd :=
  match k with
  | NoFile => [emit sink (t_inline i)]
  | Txt =>
      [IfMode [emit sink (t_include i); IfChanged i [FEmit i (t_inline i); ClearChanged i]]
              [emit sink (t_inline i)]]
  | Json =>
      [IfMode [emit sink (t_include i);
               IfChanged i
                 (match fuel with
                  | 0 => [Abort]
                  | S f => SetMode NoInc :: ser_member f (Some i) i k ++ [SetMode Allow; ClearChanged i]
                  end)]
              [emit sink (t_inline i)]]
  | JsonBroken =>
      (* to_json_file: set NoInclude; open_file_writer fails; set AllowInclude (since 7e4eec1); Err *)
      [IfMode [emit sink (t_include i); IfChanged i [SetMode NoInc; SetMode Allow; Fail]]
              [emit sink (t_inline i)]]
  | SubStore => [emit sink (t_inline i)]   (* not a member that can be serialised on its own; see ser_members *)
  | TxtBroken =>
      (* std::fs::write fails: Err, mark_unchanged() is not reached *)
      [IfMode [emit sink (t_include i); IfChanged i [Fail]]
              [emit sink (t_inline i)]]
  end.

Fixpoint ser_members (fuel : nat) (i : nat) (mem : list fkind) : list cmd :=
  match mem with
  | [] => []
  | SubStore :: r =>
      (* impl Serialize for AnnotationStore: "@include": filename(s), then substore.save() for each
         sub-store (yield site 6 at the start of ResultItem<AnnotationSubStore>::save) *)
      [Emit (t_include i); Yield; FEmit i (t_inline i)] ++ ser_members fuel (S i) r
  | k :: r => ser_member fuel None i k ++ ser_members fuel (S i) r
  end.

(* what a thread does with its shared reference *)
Inductive op :=
| OpPure                      (* iterate, search, query, .parallel(): no access to the cells *)
| OpStore                     (* store.to_json_string(store.config()) : members in order *)
| OpMemberTrait (i : nat)     (* ToJson::to_json_string(member, config of the store) *)
| OpMemberPlain (i : nat)     (* the inherent member.to_json_string(): no mode write *)
| OpMemberForeign (i : nat)   (* ToJson::to_json_string(member, &Config::default()): same code path as
                                 OpMemberTrait now that the mode does not live in the Config *)
| OpMemberThenStore (i : nat)  (* two calls on one thread: ToJson::to_json_string(member, store config),
                                 then store.to_json_string(): the mode must have been set back *)
| OpStoreTwice                (* store.to_json_string() twice on one thread, each call's result kept *)
| OpExport (i : nat)          (* resource.to_txt_file(<another directory>/<same file name>): an export; it
                                 is not the stand-off file, the changed flag is left alone *)
| OpSaveTxt (i : nat)         (* resource.to_txt_file(<its own stand-off filename>): writes the stand-off
                                 file and then clears the flag (resources.rs to_txt_file) *)
| OpSaveCbor                  (* store.save() of a store in CBOR format: one binary file; the stand-off
                                 files and the changed flags are not touched (to_cbor_file) *)
| OpRefused (i : nat)         (* ToJson::to_json_string(member, config whose dataformat is not JSON):
                                 set NoInclude, refuse, set AllowInclude, Err (json.rs) *)
| OpRefusedThenStore (i : nat) (* the refused call, then store.to_json_string() on the same thread *)
| OpStoreChanged.             (* store.changed(): reads the store's own flag (site 3), which nothing writes *)

Definition kind_of (mem : list fkind) (i : nat) : fkind := nth i mem NoFile.

Definition prog (fuel : nat) (mem : list fkind) (o : op) : list cmd :=
  match o with
  | OpPure => [Yield]
  | OpStore => Yield :: ser_members fuel 0 mem
  | OpMemberTrait i => Yield :: SetMode NoInc :: ser_member fuel None i (kind_of mem i) ++ [SetMode Allow]
  | OpMemberPlain i => Yield :: ser_member fuel None i (kind_of mem i)
  | OpMemberForeign i => Yield :: SetMode NoInc :: ser_member fuel None i (kind_of mem i) ++ [SetMode Allow]
  | OpMemberThenStore i =>
      (Yield :: SetMode NoInc :: ser_member fuel None i (kind_of mem i) ++ [SetMode Allow; EndCall])
      ++ ser_members fuel 0 mem ++ [EndCall]
  | OpStoreTwice => Yield :: ser_members fuel 0 mem ++ EndCall :: ser_members fuel 0 mem ++ [EndCall]
  | OpExport _ => [Yield]
  | OpSaveTxt i =>
      match kind_of mem i with
      | Txt => [Yield; FEmit i (t_inline i); ClearChanged i]
      | TxtBroken => [Yield; Fail]
      | _ => [Yield]
      end
  | OpSaveCbor => [Yield]
  | OpRefused _ => [Yield; SetMode NoInc; SetMode Allow; Fail]
  | OpRefusedThenStore _ =>
      [Yield; SetMode NoInc; SetMode Allow; Fail; EndCall] ++ ser_members fuel 0 mem ++ [EndCall]
  | OpStoreChanged => [Yield; Yield]
  end.

(* the calls whose static reading is defined (no refusal) *)
Definition plain_op (o : op) : bool :=
  match o with OpRefused _ | OpRefusedThenStore _ => false | _ => true end.

Definition model_fuel : nat := 6.

Record scen := mkScen { members : list fkind; changed0 : list bool; ops : list op }.

Definition init_thread (p : list cmd) : thread := mkT p Allow [] [] false.

Definition init (sc : scen) : state :=
  mkS Allow (changed0 sc) (map (fun o => init_thread (prog model_fuel (members sc) o)) (ops sc)).

(* ---- static reading of a program: what it emits into its own string, as a
   function of the mode only.  Defined when every flush body (IfChanged) is
   quiet (emits nothing into the string) and leaves the mode as it found it, and
   everything written to a stand-off file is the content of the member. ---- *)
Fixpoint sem_cmd (m : mode) (c : cmd) {struct c} : option (list tok * mode) :=
  let fix sem_l (m : mode) (l : list cmd) {struct l} : option (list tok * mode) :=
      match l with
      | [] => Some ([], m)
      | c :: l' =>
          match sem_cmd m c with
          | Some (o1, m1) =>
              match sem_l m1 l' with
              | Some (o2, m2) => Some (o1 ++ o2, m2)
              | None => None
              end
          | None => None
          end
      end in
  match c with
  | Yield => Some ([], m)
  | Emit x => Some ([x], m)
  | FEmit f x => if Nat.eqb x (t_inline f) then Some ([], m) else None
  | SetMode m' => Some ([], m')
  | IfMode a n => match m with Allow => sem_l m a | NoInc => sem_l m n end
  | IfChanged _ b =>
      match sem_l m b with
      | Some ([], m') => if mode_eqb m' m then Some ([], m) else None
      | _ => None
      end
  | ClearChanged _ => Some ([], m)
  | EndCall => Some ([t_sep], m)
  | Fail => None
  | Abort => None
  end.

Fixpoint sem (m : mode) (l : list cmd) {struct l} : option (list tok * mode) :=
  match l with
  | [] => Some ([], m)
  | c :: l' =>
      match sem_cmd m c with
      | Some (o1, m1) =>
          match sem m1 l' with
          | Some (o2, m2) => Some (o1 ++ o2, m2)
          | None => None
          end
      | None => None
      end
  end.

(* every write to a stand-off file so far carried the content of the member *)
Definition files_ok (t : thread) : Prop :=
  Forall (fun p => snd p = t_inline (fst p)) (fout t).

(* ---- only for the shared-cell design (sh = true) ---- *)

(* the program cannot write the mode cell, given that changed flags are only ever
   cleared and start as c0 (a flush body behind a flag that is false is dead code) *)
Fixpoint nw_cmd (c0 : list bool) (c : cmd) {struct c} : bool :=
  let fix nw_l (l : list cmd) {struct l} : bool :=
      match l with
      | [] => true
      | c :: l' => nw_cmd c0 c && nw_l l'
      end in
  match c with
  | SetMode _ => false
  | IfMode a n => nw_l a && nw_l n
  | IfChanged i b => if flag i c0 then nw_l b else true
  | _ => true
  end.

Definition nw (c0 : list bool) (l : list cmd) : bool := forallb (nw_cmd c0) l.

(* the program never looks at a cell: straight-line code *)
Definition straight_cmd (c : cmd) : bool :=
  match c with IfMode _ _ | IfChanged _ _ | Abort | Fail | FEmit _ _ => false | _ => true end.

Definition straight (l : list cmd) : bool := forallb straight_cmd l.

(* all threads but thread i *)
Fixpoint others {X : Type} (i : nat) (l : list X) : list X :=
  match l, i with
  | [], _ => []
  | _ :: r, 0 => r
  | x :: r, S i' => x :: others i' r
  end.

(* The class in which the property failed with the shared cell: thread i looks at the
   mode cell while some other thread can write it. *)
Definition Shared_mode_race (c0 : list bool) (ts : list thread) (i : nat) : bool :=
  match nth_error ts i with
  | None => false
  | Some t => negb (straight (stk t)) && negb (forallb (fun tj => nw c0 (stk tj)) (others i ts))
  end.

(* ---- the parallel adaptors (api/*.rs: fn parallel(self)) ----
   `let items: Vec<_> = self.collect(); items.into_par_iter()`: the items of the sequential
   iterator, in its order, handed to rayon as an INDEXED parallel iterator.  Indexed consumers
   (collect into a Vec, enumerate, zip, find_first, filter+collect) are defined by rayon in terms
   of the positions in that vector; they are transcribed here with explicit positions. *)
From Coq Require Import ZArith.

Definition parallel {X : Type} (l : list X) : list X := l.

Definition ck_mod : Z := 1000003%Z.

(* items paired with their positions, as enumerate()/zip(0..len) see them *)
Definition indexed (l : list Z) : list (Z * Z) :=
  combine (map Z.of_nat (seq 0 (length l))) l.

Definition par_collect_ck (l : list Z) : Z :=
  (fold_left (fun acc p => acc + (fst p + 1) * (snd p + 1)) (indexed (parallel l)) 0 mod ck_mod)%Z.

Definition par_fold_ck (l : list Z) : Z :=
  (fold_left (fun acc p => acc + (fst p + 2) * (snd p + 3)) (indexed (parallel l)) 0 mod ck_mod)%Z.

Definition wanted (h : Z) : bool := (Z.eqb (h mod 211) 5 && Z.ltb 1100 h)%Z.

(* find_first: the match at the lowest position *)
Definition par_find_first (l : list Z) : Z :=
  match filter (fun p => wanted (snd p)) (indexed (parallel l)) with
  | p :: _ => snd p
  | [] => (-1)%Z
  end.

Definition par_filter_ck (l : list Z) : Z :=
  par_collect_ck (filter (fun h => Z.eqb (h mod 3) 0) (parallel l)).

Definition par_consumers (l : list Z) : list Z :=
  [Z.of_nat (length (parallel l)); par_collect_ck l; par_fold_ck l; par_find_first l; par_filter_ck l].
