(* Model of Handles<T> (src/api.rs): from_iter, contains, add, union,
   intersection, contains_subset, sort.  Handles are natural numbers. *)
From Coq Require Import List Arith Bool.
Import ListNotations.

Record handles := mkh { arr : list nat; srt : bool }.

Fixpoint nondecr (l : list nat) : bool :=
  match l with
  | a :: (b :: _) as t => (a <=? b) && nondecr t
  | _ => true
  end.

(* Handles::from_iter *)
Definition from_iter (l : list nat) : handles := mkh l (nondecr l).

(* slice::binary_search on a sorted, duplicate-free slice:
   (found, index of the first element >= x) *)
Fixpoint bsearch (x : nat) (l : list nat) : bool * nat :=
  match l with
  | [] => (false, 0)
  | y :: l' =>
      if x =? y then (true, 0)
      else if x <? y then (false, 0)
      else let '(f, i) := bsearch x l' in (f, S i)
  end.

Definition mem (x : nat) (l : list nat) : bool := existsb (Nat.eqb x) l.

Definition contains (h : handles) (x : nat) : bool :=
  if srt h then fst (bsearch x (arr h)) else mem x (arr h).

Definition contains_subset (h sub : handles) : bool :=
  forallb (contains h) (arr sub).

Fixpoint insert_sorted (x : nat) (l : list nat) : list nat :=
  match l with
  | [] => [x]
  | y :: l' => if x <=? y then x :: l else y :: insert_sorted x l'
  end.
(* sort_unstable on handles (a total order on numbers: every sort agrees) *)
Definition sort (l : list nat) : list nat := fold_right insert_sorted [] l.

Definition add (h : handles) (x : nat) : handles :=
  if srt h then
    let '(f, i) := bsearch x (arr h) in
    if f then h else mkh (firstn i (arr h) ++ x :: skipn i (arr h)) true
  else if mem x (arr h) then h else mkh (arr h ++ [x]) false.

(* both sorted: walk [other], searching only self.array[offset..origlen] *)
Fixpoint union_ss (orig : list nat) (off : nat) (other app : list nat) : list nat :=
  match other with
  | [] => app
  | x :: o' =>
      let '(f, i) := bsearch x (skipn off orig) in
      if f then union_ss orig (off + i + 1) o' app
      else union_ss orig (off + i) o' (app ++ [x])
  end.

Definition is_nil {X} (l : list X) : bool := match l with [] => true | _ => false end.

Definition union (A B : handles) : handles :=
  match arr B with
  | [] => A
  | [x] => add A x
  | _ =>
      if srt A && srt B then
        let app := union_ss (arr A) 0 (arr B) [] in
        if is_nil app then A else mkh (sort (arr A ++ app)) true
      else if srt A then
        let app := filter (fun x => negb (fst (bsearch x (arr A)))) (arr B) in
        if is_nil app then A else mkh (sort (arr A ++ app)) true
      else
        mkh (fold_left (fun acc x => if mem x acc then acc else acc ++ [x]) (arr B) (arr A)) false
  end.

(* retain() with both sorted: search other.array[offset..] *)
Fixpoint inter_ss (other : list nat) (off : nat) (self : list nat) : list nat :=
  match self with
  | [] => []
  | x :: s' =>
      let '(f, i) := bsearch x (skipn off other) in
      if f then x :: inter_ss other (off + i + 1) s'
      else inter_ss other (off + i) s'
  end.

Definition list_eqb (l m : list nat) : bool :=
  (length l =? length m) && forallb (fun p => fst p =? snd p) (combine l m).

Definition retain (A B : handles) : handles :=
  if srt A && srt B then mkh (inter_ss (arr B) 0 (arr A)) (srt A)
  else mkh (filter (contains B) (arr A)) (srt A).

Definition intersection (A B : handles) : handles :=
  let la := length (arr A) in
  let lb := length (arr B) in
  if (la =? 0) || (lb =? 0) then mkh [] (srt A)
  else if (la =? lb) && srt A && srt B then
         (if forallb (fun p => fst p =? snd p) (combine (arr A) (arr B)) then A else retain A B)
  else if lb <? la then
         (if Bool.eqb (srt A) (srt B) && contains_subset A B then mkh (arr B) (srt A) else retain A B)
  else if la <? lb then
         (if contains_subset B A then A else retain A B)
  else retain A B.

Definition sort_h (A : handles) : handles :=
  if srt A then A else mkh (sort (arr A)) true.
