(* Model of the semantic layer of loading, i.e. what stam-rust itself does after the
   trusted tree parsers (serde_json, csv, minicbor) have produced strings and fields:

     string parsers
       Cursor::try_from(&str)            src/types.rs      (usize/isize::from_str_radix)
       Type::try_from(&str)              src/types.rs      (to_lowercase + table)
       SelectorKind::try_from(&str)      src/selector.rs
       DataFormat::try_from(&str)        src/types.rs
       resolve_temp_id                   src/store.rs      (`id[2..]` byte slicing)
     the temp-id driven allocation of the STAM JSON visitors
       AnnotationsVisitor::visit_seq     src/annotationstore.rs
       DataVisitor::visit_seq            src/annotationdataset.rs
     the CSV row decoder
       TryInto<AnnotationBuilder> for AnnotationCsv          src/csv.rs
     the comparator of AnnotationStore::subselectors         src/annotationstore.rs
     the @include recursion of TextResourceBuilder::build    src/resources.rs
       and of the AnnotationDataSet visitor                  src/annotationdataset.rs
     the (absent) validation of from_cbor_file and the recursion of the derived
       DataValue decoder                                     src/annotationstore.rs, datavalue.rs

   Strings are lists of scalar values ([list N]).  Numbers read from the input are [N]/[Z]
   (they reach 2^64).  Every site where the Rust code can panic (slicing off a character
   boundary, unwrap on None, unreachable!, capacity overflow, add with overflow in a debug
   build) or abort (allocation failure, stack overflow) is an explicit outcome.

   Where the pinned code was repaired by a `fix:` commit, the function takes a flag
   [old : bool]: [old = true] is the behaviour before the repair (kept for the refutation
   lemmas), [old = false] is the code as it is now. *)
From Coq Require Import List NArith ZArith Bool Arith String Ascii.
Import ListNotations.
Local Open Scope N_scope.

Definition str := list N.

Inductive outcome (A : Type) :=
| Ok (a : A)
| Err          (* a StamError is returned *)
| Panic        (* catchable panic *)
| Abort        (* process abort: allocation failure or stack overflow *)
| Hang.        (* waits for ever *)
Arguments Ok {A} a.
Arguments Err {A}.
Arguments Panic {A}.
Arguments Abort {A}.
Arguments Hang {A}.

Definition bind {A B} (o : outcome A) (f : A -> outcome B) : outcome B :=
  match o with Ok a => f a | Err => Err | Panic => Panic | Abort => Abort | Hang => Hang end.

(* ASCII literals of the source as codepoint lists *)
Definition lit (s : string) : str := map N_of_ascii (list_ascii_of_string s).

Fixpoint str_eqb (a b : str) : bool :=
  match a, b with
  | [], [] => true
  | x :: a', y :: b' => (x =? y) && str_eqb a' b'
  | _, _ => false
  end.

Fixpoint assoc {A} (k : str) (t : list (str * A)) : option A :=
  match t with
  | [] => None
  | (k', v) :: t' => if str_eqb k k' then Some v else assoc k t'
  end.

(* ------------------------------------------------------------------ *)
(* integers: core::num::from_str_radix(_, 10)                          *)

Definition usize_max : N := 18446744073709551615.
Definition isize_max : N := 9223372036854775807.
Definition isize_min_abs : N := 9223372036854775808.

Definition digit (c : N) : option N :=
  if (48 <=? c) && (c <=? 57) then Some (c - 48) else None.

(* result = result.checked_mul(10)?.checked_add(d)? : fails at the first
   non-digit and as soon as the accumulated value leaves the type *)
Fixpoint digits_val (max acc : N) (s : str) : option N :=
  match s with
  | [] => Some acc
  | c :: s' =>
      match digit c with
      | None => None
      | Some d => let acc' := acc * 10 + d in
                  if max <? acc' then None else digits_val max acc' s'
      end
  end.

Definition nonempty_digits (max : N) (s : str) : option N :=
  match s with [] => None | _ => digits_val max 0 s end.

(* usize: an optional '+', then at least one digit; '-' is an invalid digit *)
Definition parse_usize (s : str) : option N :=
  match s with
  | [] => None
  | c :: r => if c =? 43 then nonempty_digits usize_max r else nonempty_digits usize_max s
  end.

(* isize: optional '+' or '-' *)
Definition parse_isize (s : str) : option Z :=
  match s with
  | [] => None
  | c :: r =>
      if c =? 43 then option_map Z.of_N (nonempty_digits isize_max r)
      else if c =? 45 then option_map (fun n => (- Z.of_N n)%Z) (nonempty_digits isize_min_abs r)
      else option_map Z.of_N (nonempty_digits isize_max s)
  end.

(* ------------------------------------------------------------------ *)
(* Cursor                                                              *)

Inductive cursor := CBegin (n : N) | CEnd (z : Z).

(* impl TryFrom<&str> for Cursor *)
Definition cursor_of_str (s : str) : outcome cursor :=
  match s with
  | c :: _ =>
      if c =? 45 then
        match parse_isize s with
        | None => Err
        | Some z => if (0 <? z)%Z then Err else Ok (CEnd z)      (* Cursor::try_from(isize) *)
        end
      else match parse_usize s with None => Err | Some n => Ok (CBegin n) end
  | [] => match parse_usize s with None => Err | Some n => Ok (CBegin n) end
  end.

(* decimal printing ({} of an integer); fuel = number of binary digits + 1 *)
Fixpoint dec_fuel (fuel : nat) (n : N) : str :=
  match fuel with
  | O => []
  | S f => if n <? 10 then [48 + n] else dec_fuel f (n / 10) ++ [48 + n mod 10]
  end.
Definition dec (n : N) : str := dec_fuel (S (N.size_nat n)) n.

(* impl Display for Cursor *)
Definition str_of_cursor (c : cursor) : str :=
  match c with
  | CBegin n => dec n
  | CEnd z => if (z =? 0)%Z then [45; 48] else
              if (z <? 0)%Z then 45 :: dec (Z.to_N (- z)) else dec (Z.to_N z)
  end.

(* ------------------------------------------------------------------ *)
(* Type, SelectorKind, DataFormat                                      *)

Inductive stype := TStore | TAnnotation | TDataSet | TData | TKey | TValue | TResource
                 | TTextSelection | TTextSelectionSet | TConfig | TSubStore.

Definition type_table : list (str * stype) := Eval vm_compute in
  [ (lit "annotationstore", TStore); (lit "store", TStore);
    (lit "annotation", TAnnotation); (lit "annotations", TAnnotation);
    (lit "annotationdataset", TDataSet); (lit "dataset", TDataSet); (lit "annotationset", TDataSet);
    (lit "annotationdatasets", TDataSet); (lit "datasets", TDataSet); (lit "annotationsets", TDataSet);
    (lit "data", TData); (lit "annotationdata", TData);
    (lit "datakey", TKey); (lit "datakeys", TKey); (lit "key", TKey); (lit "keys", TKey);
    (lit "datavalue", TValue); (lit "value", TValue); (lit "values", TValue);
    (lit "resource", TResource); (lit "textresource", TResource); (lit "resources", TResource);
    (lit "textresources", TResource);
    (lit "textselection", TTextSelection); (lit "textselections", TTextSelection);
    (lit "textselectionset", TTextSelectionSet);
    (lit "config", TConfig); (lit "configuration", TConfig);
    (lit "annotationsubstore", TSubStore); (lit "substore", TSubStore) ].

(* val.to_lowercase(): [lower] is the lowercase mapping of one scalar value (it may yield
   several, e.g. U+0130); the final-sigma rule of str::to_lowercase only chooses between two
   non-ASCII letters and cannot produce a keyword *)
Definition type_of_str (lower : N -> str) (s : str) : outcome stype :=
  match assoc (flat_map lower s) type_table with Some t => Ok t | None => Err end.

Definition str_of_type (t : stype) : str :=
  match t with
  | TStore => lit "AnnotationStore" | TAnnotation => lit "Annotation"
  | TDataSet => lit "AnnotationDataSet" | TData => lit "AnnotationData"
  | TKey => lit "DataKey" | TValue => lit "DataValue" | TResource => lit "TextResource"
  | TTextSelection => lit "TextSelection" | TTextSelectionSet => lit "TextSelectionSet"
  | TConfig => lit "Config" | TSubStore => lit "AnnotationSubStore"
  end.

Inductive skind := KResource | KAnnotation | KText | KDataSet | KDataKey | KData
                 | KMulti | KComposite | KDirectional.

Definition kind_table : list (str * skind) := Eval vm_compute in
  [ (lit "ResourceSelector", KResource); (lit "resourceselector", KResource); (lit "resource", KResource);
    (lit "AnnotationSelector", KAnnotation); (lit "annotationselector", KAnnotation); (lit "annotation", KAnnotation);
    (lit "TextSelector", KText); (lit "textselector", KText); (lit "text", KText);
    (lit "DataSetSelector", KDataSet); (lit "datasetselector", KDataSet); (lit "set", KDataSet);
    (lit "annotationset", KDataSet); (lit "dataset", KDataSet);
    (lit "DataKeySelector", KDataKey); (lit "datakeyselector", KDataKey); (lit "key", KDataKey);
    (lit "AnnotationDataSelector", KData); (lit "annotationdataselector", KData);
    (lit "dataselector", KData); (lit "data", KData);
    (lit "MultiSelector", KMulti); (lit "multiselector", KMulti); (lit "multi", KMulti);
    (lit "CompositeSelector", KComposite); (lit "compositeselector", KComposite); (lit "composite", KComposite);
    (lit "DirectionalSelector", KDirectional); (lit "directionalselector", KDirectional);
    (lit "directional", KDirectional) ].

Definition kind_of_str (s : str) : outcome skind :=
  match assoc s kind_table with Some k => Ok k | None => Err end.

Definition str_of_kind (k : skind) : str :=
  match k with
  | KResource => lit "ResourceSelector" | KAnnotation => lit "AnnotationSelector"
  | KText => lit "TextSelector" | KDataSet => lit "DataSetSelector"
  | KDataKey => lit "DataKeySelector" | KData => lit "AnnotationDataSelector"
  | KMulti => lit "MultiSelector" | KComposite => lit "CompositeSelector"
  | KDirectional => lit "DirectionalSelector"
  end.

Definition kind_is_complex (k : skind) : bool :=
  match k with KMulti | KComposite | KDirectional => true | _ => false end.

Inductive dformat := FJson (compact : bool) | FCbor | FCsv.

Definition format_table : list (str * dformat) := Eval vm_compute in
  [ (lit "json", FJson false); (lit "Json", FJson false); (lit "JSON", FJson false);
    (lit "json-compact", FJson true); (lit "Json-compact", FJson true); (lit "JSON-compact", FJson true);
    (lit "cbor", FCbor);
    (lit "csv", FCsv); (lit "Csv", FCsv); (lit "CSV", FCsv) ].

Definition format_of_str (s : str) : outcome dformat :=
  match assoc s format_table with Some f => Ok f | None => Err end.

Definition str_of_format (f : dformat) : str :=
  match f with FJson _ => lit "json" | FCbor => lit "cbor" | FCsv => lit "csv" end.

(* ------------------------------------------------------------------ *)
(* temporary identifiers                                               *)

(* UTF-8 length of a scalar value *)
Definition clen (c : N) : N :=
  if c <? 128 then 1 else if c <? 2048 then 2 else if c <? 65536 then 3 else 4.

Section TempId.
  Variable is_upper : N -> bool.     (* char::is_uppercase *)

  (* resolve_temp_id: '!' , an uppercase character x, then `id[2..]` parsed as usize.
     Byte 2 is a character boundary only if x is one byte long; [old]: slicing there
     panics; now `id.get(2..)?` makes it None *)
  Definition resolve_temp_id (old : bool) (s : str) : outcome (option N) :=
    match s with
    | c :: x :: rest =>
        if negb (c =? 33) then Ok None
        else if negb (is_upper x) then Ok None
        else if clen x =? 1 then Ok (parse_usize rest)
        else if old then Panic else Ok None
    | _ => Ok None
    end.

  (* temp_id(): prefix letter and the handle *)
  Definition temp_id (letter : N) (h : N) : str := 33 :: letter :: dec h.

  (* -------------------------------------------------------------- *)
  (* the visitors of `annotations` and of a set's `data`             *)

  (* one element of the array after the trusted parse: its "@id" (BuildItem::Id) if any and
     whether building it (annotate / build_insert_data) succeeds; for an annotation also the
     kinds of the resolved sub-selectors of a Multi/Composite target ([] otherwise) *)
  Record velem := { v_id : option str; v_build : bool; v_kinds : list skind }.

  Inductive status := SOk | SErr | SPanic | SAbort.

  (* slots = length of the store vector; alloc = largest resize request driven by an
     identifier; placed = handle of every element built so far (most recent first) *)
  Record vstate := { slots : N; alloc : N; placed : list N }.

  Variable cap : N.       (* slots the allocator is able to provide *)
  Variable ovf : N.       (* slots from which the byte size exceeds isize::MAX (capacity overflow) *)
  Variable strip : bool.  (* config.strip_temp_ids() *)

  (* comparator of subselectors(): the catch-all arm panics *)
  Definition cmp_group (k : skind) : bool :=
    match k with KAnnotation | KDataKey | KData => true | _ => false end.
  Definition cmp_panics (a b : skind) : bool :=
    cmp_group a && cmp_group b && negb (match a, b with KAnnotation, KAnnotation => true | _, _ => false end).
  (* a sort of the resolved sub-selectors (more than one) has to compare a key or data
     selector with another member of the group.  [old]: the comparator now has an arm for
     every pair (repaired by the owner of C01) *)
  Definition cmp_hazard (kinds : list skind) : bool :=
    let g := filter cmp_group kinds in
    (2 <=? N.of_nat (List.length g)) && existsb (fun k => match k with KDataKey | KData => true | _ => false end) g.

  Definition temp_handle (old : bool) (e : velem) : outcome (option N) :=
    if strip then match v_id e with Some s => resolve_temp_id old s | None => Ok None end
    else Ok None.

  (* the body of the loop of visit_seq; [pre] = length of the store when the array started *)
  Definition visit_step (old : bool) (pre : N) (st : vstate) (e : velem) : status * vstate :=
    let build (st : vstate) : status * vstate :=
      (* annotate(): selector() resolves the target (sub-selectors are sorted), then the item is pushed *)
      if negb (v_build e) then (SErr, st)
      else if old && cmp_hazard (v_kinds e) then (SPanic, st)
      else (SOk, {| slots := slots st + 1; alloc := alloc st; placed := slots st :: placed st |}) in
    match temp_handle old e with
    | Panic => (SPanic, st)
    | Abort | Hang => (SAbort, st)
    | Err => (SErr, st)
    | Ok None => build st
    | Ok (Some h) =>
        if old && (usize_max <? h + pre) then (SPanic, st)           (* handle + pre_length, debug build *)
        else if N.min usize_max (h + pre) <? slots st then (SErr, st)
        else if slots st <? h then
          if old then
            if ovf <? h then (SPanic, st)                            (* capacity overflow *)
            else if cap <? h then (SAbort, st)                       (* memory allocation failed *)
            else build {| slots := h; alloc := N.max (alloc st) h; placed := placed st |}
          else
            if cap <=? h then (SErr, st)                             (* try_reserve(h - len + 1) *)
            else build {| slots := h; alloc := N.max (alloc st) h; placed := placed st |}
        else build st
    end.

  Fixpoint visit_from (old : bool) (pre : N) (st : vstate) (l : list velem) : status * vstate :=
    match l with
    | [] => (SOk, st)
    | e :: l' =>
        match visit_step old pre st e with
        | (SOk, st') => visit_from old pre st' l'
        | r => r
        end
    end.

  (* one array: pre_length is read when the visitor starts *)
  Definition visit (old : bool) (st : vstate) (l : list velem) : status * vstate :=
    visit_from old (slots st) st l.

  (* a document = the arrays of one store (or of one data set) in document order *)
  Fixpoint visit_doc (old : bool) (st : vstate) (d : list (list velem)) : status * vstate :=
    match d with
    | [] => (SOk, st)
    | l :: d' =>
        match visit old st l with
        | (SOk, st') => visit_doc old st' d'
        | r => r
        end
    end.

  Definition elem_temp (e : velem) : option N :=
    match temp_handle false e with Ok (Some h) => Some h | _ => None end.
End TempId.

(* ------------------------------------------------------------------ *)
(* the CSV row decoder                                                 *)

Inductive sbuild :=
| BText (res : str) (b e : cursor)
| BAnn (a : str) (off : option (cursor * cursor))
| BRes (r : str)
| BSet (s : str)
| BKey (s k : str)
| BDat (s d : str)
| BComplex (k : skind) (l : list sbuild).

Record abuild := { ab_id : option str; ab_data : list (str * str); ab_target : option sbuild }.

(* the eleven columns as delivered by the csv crate; an empty field of an Option column is None *)
Record csvrow := { c_id : str; c_data : str; c_set : str; c_kind : str; c_res : str; c_ann : str;
                   c_dset : str; c_begin : str; c_end : str; c_key : str; c_tdata : str }.

Definition opt (s : str) : option str := match s with [] => None | _ => Some s end.

(* str::split(";") : at least one piece *)
Fixpoint split_semi (s : str) (cur : str) : list str :=
  match s with
  | [] => [rev cur]
  | c :: s' => if c =? 59 then rev cur :: split_semi s' [] else split_semi s' (c :: cur)
  end.
Definition split (s : str) : list str := split_semi s [].
Definition has_semi (s : str) : bool := existsb (fun c => c =? 59) s.
Definition split_opt (o : option str) : list str := match o with Some s => split s | None => [] end.

Definition is_empty (s : str) : bool := match s with [] => true | _ => false end.
Definition is_empty_list {A} (l : list A) : bool := match l with [] => true | _ => false end.

(* v.get(i).unwrap_or(v.last().unwrap()) : the argument of unwrap_or is evaluated eagerly,
   so an empty vector panics; None = that panic *)
Fixpoint last_opt {A} (l : list A) : option A :=
  match l with
  | [] => None
  | [x] => Some x
  | _ :: l' => last_opt l'
  end.
Definition get_or_last {A} (l : list A) (i : nat) : option A :=
  match last_opt l with
  | None => None
  | Some la => match nth_error l i with Some x => Some x | None => Some la end
  end.

Fixpoint kinds_of (l : list str) : outcome (list skind) :=
  match l with
  | [] => Ok []
  | s :: l' => bind (kind_of_str s) (fun k => bind (kinds_of l') (fun ks => Ok (k :: ks)))
  end.

Fixpoint enumerate_from {A} (i : nat) (l : list A) : list (nat * A) :=
  match l with [] => [] | x :: l' => (i, x) :: enumerate_from (S i) l' end.

Definition or_empty (o : option str) : str := match o with Some s => s | None => [] end.

Definition cursor_pair (b e : str) : outcome (cursor * cursor) :=
  bind (cursor_of_str b) (fun cb => bind (cursor_of_str e) (fun ce => Ok (cb, ce))).

(* one sub-selector of a complex selector, position i >= 1 *)
Definition csv_sub (old : bool) (kinds : list skind) (ress dsets anns keys tdatas begins ends : list str) (i : nat)
  : outcome sbuild :=
  match get_or_last kinds i with
  | None => Panic
  | Some KText =>
      match get_or_last ress i with
      | None => Panic
      | Some res =>
          if is_empty res then Err else
          match nth_error begins i, nth_error ends i with
          | Some b, Some e => bind (cursor_pair b e) (fun p => Ok (BText res (fst p) (snd p)))
          | Some b, None => bind (cursor_of_str b) (fun _ => Err)
          | None, _ => Err
          end
      end
  | Some KAnnotation =>
      match get_or_last anns i with
      | None => Panic
      | Some a =>
          if is_empty a then Err else
          match nth_error begins i with
          | Some b =>
              if is_empty b then Ok (BAnn a None)
              else match nth_error ends i with
                   | None => if old then Panic else Err         (* endoffsets.get(i).unwrap() *)
                   | Some e => if negb old && is_empty e then Err
                               else bind (cursor_pair b e) (fun p => Ok (BAnn a (Some p)))
                   end
          | None => Ok (BAnn a None)
          end
      end
  | Some KResource =>
      match get_or_last ress i with
      | None => Panic
      | Some res => if is_empty res then Err else Ok (BRes res)
      end
  | Some KDataSet =>
      match get_or_last dsets i with
      | None => Panic
      | Some d => if is_empty d then Err else Ok (BSet d)
      end
  | Some KDataKey =>
      match get_or_last dsets i with
      | None => Panic
      | Some d =>
          match get_or_last keys i with
          | None => if old then Panic else Err                    (* targetkeys.last().unwrap() *)
          | Some k => if is_empty d then Err else Ok (BKey d k)
          end
      end
  | Some KData =>
      match get_or_last dsets i with
      | None => Panic
      | Some d =>
          match get_or_last tdatas i with
          | None => if old then Panic else Err
          | Some x => if is_empty d then Err else Ok (BDat d x)
          end
      end
  | Some (KMulti | KComposite | KDirectional) => Err
  end.

Fixpoint csv_subs (old : bool) (kinds : list skind) (ress dsets anns keys tdatas begins ends : list str) (is : list nat)
  : outcome (list sbuild) :=
  match is with
  | [] => Ok []
  | i :: is' =>
      bind (csv_sub old kinds ress dsets anns keys tdatas begins ends i) (fun b =>
      bind (csv_subs old kinds ress dsets anns keys tdatas begins ends is') (fun bs => Ok (b :: bs)))
  end.

Definition max_len (ls : list (list str)) (start : nat) : nat :=
  fold_left (fun m l => if Nat.ltb m (List.length l) then List.length l else m) ls start.

(* impl TryInto<AnnotationBuilder> for AnnotationCsv *)
Definition csv_row (old : bool) (r : csvrow) : outcome abuild :=
  let id := opt (c_id r) in
  (* [old]: the target columns were read only for rows with data (a row without data then
     failed in annotate() with NoTarget); now only the data loop is skipped (62b1571, owner of C15) *)
  if old && is_empty (c_data r) then Ok {| ab_id := id; ab_data := []; ab_target := None |}
  else
    let set_ids := split (c_set r) in
    let data := if is_empty (c_data r) then [] else
                map (fun p => (match get_or_last set_ids (fst p) with Some s => s | None => [] end, snd p))
                    (enumerate_from 0 (split (c_data r))) in
    bind (kinds_of (split (c_kind r))) (fun kinds =>
    match kinds with
    | [] => Err
    | k0 :: krest =>
      let complex := kind_is_complex k0 in
      (* [old]: a complex kind without sub-selector kinds was refused here; now the complex
         branch runs (no iterations if every column has one piece) (8591e12, owner of C15) *)
      if old && complex && is_empty_list krest then Err
      else
      let okey := opt (c_key r) in
      let otdata := opt (c_tdata r) in
      let target : outcome sbuild :=
        if negb complex then
          if has_semi (c_res r) then Err
          else if has_semi (c_dset r) then Err
          else if has_semi (c_ann r) then Err
          else if has_semi (c_begin r) then Err
          else if has_semi (c_end r) then Err
          else if has_semi (or_empty okey) then Err
          else if has_semi (or_empty otdata) then Err
          else match k0 with
               | KText => bind (cursor_pair (c_begin r) (c_end r)) (fun p => Ok (BText (c_res r) (fst p) (snd p)))
               | KAnnotation =>
                   if negb (is_empty (c_begin r)) && negb (is_empty (c_end r))
                   then bind (cursor_pair (c_begin r) (c_end r)) (fun p => Ok (BAnn (c_ann r) (Some p)))
                   else Ok (BAnn (c_ann r) None)
               | KResource => Ok (BRes (c_res r))
               | KDataSet => Ok (BSet (c_dset r))
               | KDataKey => if old then Panic                       (* unreachable!() *)
                             else match okey with None => Err | Some k => Ok (BKey (c_dset r) k) end
               | KData => if old then Panic
                          else match otdata with None => Err | Some x => Ok (BDat (c_dset r) x) end
               | _ => if old then Panic else Err
               end
        else
          let ress := split (c_res r) in
          let dsets := split (c_dset r) in
          let anns := split (c_ann r) in
          let keys := split_opt okey in
          let tdatas := split_opt otdata in
          let begins := split (c_begin r) in
          let ends := split (c_end r) in
          let maxlen := max_len [ress; dsets; anns; begins; ends; keys; tdatas] (List.length kinds) in
          bind (csv_subs old kinds ress dsets anns keys tdatas begins ends (seq 1 (maxlen - 1)))
               (fun subs => Ok (BComplex k0 subs)) in
      bind target (fun t => Ok {| ab_id := id; ab_data := data; ab_target := Some t |})
    end).

(* ------------------------------------------------------------------ *)
(* AnnotationStore::selector, AnnotationSelector(a, Some(offset))       *)

(* If the annotation referred to has a text selection of its own (its target is a TextSelector
   or an AnnotationSelector with offset; [parent] = its length) the offset is resolved
   relative to it and must lie inside; any other target (resource, data set, key, data,
   annotation without offset, complex) has no text selection: the offset is dropped and the
   annotation as a whole is selected.  Result: was the offset kept. *)
Definition ann_offset (parent : option N) (b e : N) : outcome bool :=
  match parent with
  | None => Ok false
  | Some len => if (b <=? e) && (e <=? len) then Ok true else Err
  end.

(* ------------------------------------------------------------------ *)
(* a data set defined more than once (merge mode)                      *)

(* StoreFor::insert finds the id of the second definition in the id map and calls
   AnnotationDataSet::merge(other): the keys of the other definition are inserted (an existing
   key id keeps its handle), then its data, unbound, with the key handle mapped to the handle the
   key has in the receiving set; a data id that exists already is left as it is.  A definition
   is its list of key ids and its data (data id, key id); a merged set is described the same way. *)
Record dsdef := { ds_keys : list N; ds_data : list (N * N) }.

Definition has_id (i : N) (l : list (N * N)) : bool := existsb (fun p => fst p =? i) l.
Definition has_key (k : N) (l : list N) : bool := existsb (N.eqb k) l.

Fixpoint merge_keys (mine other : list N) : list N :=
  match other with
  | [] => mine
  | k :: o => merge_keys (if has_key k mine then mine else mine ++ [k]) o
  end.

Fixpoint merge_data (mine other : list (N * N)) : list (N * N) :=
  match other with
  | [] => mine
  | d :: o => merge_data (if has_id (fst d) mine then mine else mine ++ [d]) o
  end.

Definition ds_merge (a b : dsdef) : dsdef :=
  {| ds_keys := merge_keys (ds_keys a) (ds_keys b); ds_data := merge_data (ds_data a) (ds_data b) |}.

(* ------------------------------------------------------------------ *)
(* @include                                                            *)

(* TextResourceBuilder::build with "@include": "f.json" and no "text": the file is parsed into
   a new builder whose filename is overwritten with the original one, and build() is entered
   again.  If that file holds no text either, the same file is read again: [stack] frames
   later the stack is exhausted.  Now: an included file without text is an error. *)
Fixpoint resource_include (old : bool) (stack : nat) (file_has_text : bool) : outcome unit :=
  if file_has_text then Ok tt
  else if old then
    match stack with
    | O => Abort
    | S st => resource_include old st file_has_text
    end
  else Err.

(* AnnotationDataSetVisitor: "@include": f  ->  merge_json_file(f)  ->  the visitor again.
   An object (the set in the store document, or a file) is described by the file it includes,
   if any; files are numbered.  Now the nesting depth is tracked and limited. *)
Definition max_include_depth : nat := 16.

Fixpoint ds_include (old : bool) (stack : nat) (depth : nat) (files : list (option nat)) (inc : option nat)
  : outcome unit :=
  match inc with
  | None => Ok tt
  | Some j =>
      if negb old && Nat.leb max_include_depth depth then Err
      else match stack with
           | O => Abort
           | S st =>
               match nth_error files j with
               | None => Err                                  (* file not found *)
               | Some inc' => ds_include old st (S depth) files inc'
               end
           end
  end.

(* "@include": "-" in a store or data set object: open_file_reader("-") is the standard input
   of the process, and the visitor waits for a document on it.  Now "-" is refused. *)
Definition include_stdin (old : bool) (stdin_open : bool) : outcome unit :=
  if old then (if stdin_open then Hang else Err) else Err.

(* ------------------------------------------------------------------ *)
(* running time: the value lookup of insert_data                        *)

(* AnnotationDataSet::insert_data(.., safety = true), reached for every inline data item of an
   annotation: an item without "@id" is searched by value in the list of all data of its key
   (data_by_value) before it is added.  Cost of one item = length of that list; an item with
   an "@id" is found or not through the id map. *)
Record ditem := { d_key : nat; d_hasid : bool }.

Fixpoint dedup_cost (count : nat -> N) (l : list ditem) : N :=
  match l with
  | [] => 0
  | d :: l' =>
      (if d_hasid d then 0 else count (d_key d))
      + dedup_cost (fun k => if Nat.eqb k (d_key d) then count k + 1 else count k) l'
  end.

(* closed form for the families the harness measures: n annotations with one inline data item each *)
Definition load_cost (n : N) (hasid samekey : bool) : N :=
  n + (if hasid then 0 else if samekey then n * (n - 1) / 2 else 0).

(* superlinear: four times the input costs more than seven times as much *)
Definition superlinear (n : N) (hasid samekey : bool) : bool :=
  7 * load_cost n hasid samekey <? load_cost (4 * n) hasid samekey.

(* ------------------------------------------------------------------ *)
(* CBOR                                                                *)

(* from_cbor_file = minicbor::decode: the shape is checked by the derived decoders, handles
   and indices are taken from the file as they are.  Abstract content that matters here:
   the number of text selections of the resource, the text selection handle in the
   TextSelector of every annotation, and the reverse index (text selection, annotation)
   that the file carries along. *)
Record cstore := { cs_n : N; cs_targets : list N; cs_rev : list (N * N) }.

Definition cbor_load (s : cstore) : outcome cstore := Ok s.

Fixpoint cs_ok (n : N) (rev : list (N * N)) (a : N) (targets : list N) : bool :=
  match targets with
  | [] => true
  | t :: ts => (t <? n) && existsb (fun p => (fst p =? t) && (snd p =? a)) rev && cs_ok n rev (a + 1) ts
  end.
Definition cbor_sane (s : cstore) : bool := cs_ok (cs_n s) (cs_rev s) 0 (cs_targets s).

(* following the annotations through the API: get(handle).expect("... must exist"),
   unsigned subtraction on selections that do not belong together *)
Definition cbor_probe (s : cstore) : outcome unit := if cbor_sane s then Ok tt else Panic.

(* the derived decoder of DataValue::List(Vec<DataValue>) recurses once per nesting level *)
Fixpoint cbor_value (stack depth : nat) : outcome unit :=
  match depth with
  | O => Ok tt
  | S d => match stack with O => Abort | S st => cbor_value st d end
  end.

(* the lowercase mapping the loader is run with: ASCII below 128, a table supplied by the harness above *)
Definition ascii_lower (c : N) : N := if (65 <=? c) && (c <=? 90) then c + 32 else c.
Definition lower_with (hi : N -> str) (c : N) : str := if c <? 128 then [ascii_lower c] else hi c.
