(* Model of the related-text search (src/textselection.rs FindTextSelectionsIter,
   src/resources.rs TextResource::range / iter / TextSelectionIter).
   The known selections of the resource are the list K; the handle of a
   selection is its index in K (selections are never removed from a resource). *)
From Coq Require Import List Arith Bool.
Import ListNotations.
From Stam Require Import Model.Rel.

Inductive dir := Fwd | Bwd.

Definition ref_begin (R : tset) : nat := match leftmost R with Some t => tb t | None => 0 end.
Definition ref_end (R : tset) : nat := match rightmost R with Some t => te t | None => 0 end.

(* init_textseliters: (lo, hi, direction); positions lo <= p < hi of the position index are
   visited, forward over the begin of the selections or backwards over their end *)
Definition search_range (o : op) (R : tset) (len : nat) : nat * nat * dir :=
  let rb := ref_begin R in
  let re := ref_end R in
  if oneg o then (0, len + 1, Fwd)
  else match orel o with
       | Embeds => (rb, re + 1, Fwd)
       | SameBegin => (rb, rb + 1, Fwd)
       | SameEnd => (re, re + 1, Bwd)
       | After => (match olim o with Some l => rb - l | None => 0 end, rb + 1, Bwd)
       | Succeeds => (if ows o then rb - WHITESPACE_LIMIT else rb, rb + 1, Bwd)
       | Before => (re, (match olim o with Some l => re + l | None => len end) + 1, Fwd)
       | Precedes => (re, (if ows o then re + WHITESPACE_LIMIT else re) + 1, Fwd)
       | Embedded =>
           match olim o with
           | Some l => (rb - l, rb + 1, Fwd)
           | None => if rb <=? len / 2 then (0, rb + 1, Fwd) else (re, len + 1, Bwd)
           end
       | Overlaps => if rb <=? len / 2 then (0, re + 1, Fwd) else (rb, len + 1, Bwd)
       | Equals | InSet | SameRange => (0, len + 1, Fwd)
       end.

(* handles of the known selections that begin (end) at position p, in insertion order *)
Definition at_pos (f : ts -> nat) (K : list ts) (p : nat) : list nat :=
  filter (fun h => f (nth h K (mkts None 0 0)) =? p) (seq 0 (length K)).

(* the order in which the index walk visits the handles *)
Definition walk (d : dir) (lo hi : nat) (K : list ts) : list nat :=
  match d with
  | Fwd => flat_map (at_pos tb K) (seq lo (hi - lo))
  | Bwd => flat_map (at_pos te K) (rev (seq lo (hi - lo)))
  end.

Definition has_handle (R : tset) (h : nat) : bool :=
  existsb (fun r => onat_eqb (hid r) (Some h)) (items R).

Section WithText.
  Variable ws : list bool.

  Definition keep (o : op) (R : tset) (K : list ts) (h : nat) : bool :=
    test_set_ts ws o R (nth h K (mkts None 0 0)) && negb (has_handle R h).

  (* known_textselection: the first known selection with exactly this range *)
  Definition known (K : list ts) (t : ts) : option nat :=
    find (fun h => let k := nth h K (mkts None 0 0) in (tb k =? tb t) && (te k =? te t))
         (seq 0 (length K)).

  (* Equals (not all, not negated): the reference selections themselves, as far as known *)
  Fixpoint equals_shortcut (K : list ts) (refs : list ts) : list nat :=
    match refs with
    | [] => []
    | r :: refs' =>
        match known K r with
        | Some h => h :: equals_shortcut K refs'
        | None => []
        end
    end.

  Definition search (o : op) (R : tset) (K : list ts) (len : nat) : list nat :=
    match orel o, oall o, oneg o with
    | Equals, false, false => equals_shortcut K (items R)
    | _, _, _ =>
        let '(lo, hi, d) := search_range o R len in
        let found := filter (keep o R K) (walk d lo hi K) in
        match d with Fwd => found | Bwd => rev found end
    end.

  (* the relation itself: every known selection for which the test holds, except the reference *)
  Definition related (o : op) (R : tset) (K : list ts) : list nat :=
    filter (keep o R K) (seq 0 (length K)).
End WithText.

(** * TextSelectionIterator::related_text: the search from an iterator of text selections *)
(* every reference is asked on its own (ResultTextSelection::related_text), the answers are
   gathered, sorted and adjacent duplicates dropped (sort_unstable_by + dedup) *)
From Stam Require Import Model.Handles.

Fixpoint dedup_adj (l : list nat) : list nat :=
  match l with
  | x :: ((y :: _) as r) => if Nat.eqb x y then dedup_adj r else x :: dedup_adj r
  | _ => l
  end.

Definition gather (f : ts -> list nat) (refs : list ts) : list nat :=
  dedup_adj (sort (flat_map f refs)).

Definition search_each (ws : list bool) (o : op) (refs : list ts) (K : list ts) (len : nat) : list nat :=
  gather (fun t => search ws o (mkset [t] false) K len) refs.
