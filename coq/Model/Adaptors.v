(* The iterator adaptors of the API (src/api/annotation.rs AnnotationIterator, annotationdata.rs
   DataIterator, datakey.rs KeyIterator, resources.rs ResourcesIterator) and the derived per-item
   lookups of data items and keys (resources / resources_as_metadata / datasets): each maps every
   item of the iterator to its own answer, gathers, sorts and drops duplicates (sort_unstable +
   dedup, or a BTreeSet).  [model = true]: the per-item answers come from the reverse indices and
   the recursive walk (what the code reads); [model = false]: from the scan and the closure (what
   the documentation says). *)
From Coq Require Import List Arith Bool.
Import ListNotations.
From Stam Require Import Model.Offset Model.Store Model.StoreObs Model.Forward Spec.StoreSpec.

Section Adaptors.
Variables (s : store) (model : bool).

Definition live_anns (even : bool) : list (nat * ann) :=
  flat_map (fun h => match get_ann s h with
                     | Some a => if even && negb (Nat.even h) then [] else [(h, a)]
                     | None => [] end) (seq 0 (length (anns s))).

Definition un (f : nat * ann -> list nat) (l : list (nat * ann)) : list nat := sort_dedup (flat_map f l).
Definition unp (f : nat * ann -> list (nat * nat)) (l : list (nat * ann)) : list (nat * nat) := sort_dedup_pairs (flat_map f l).

Definition key_of (dx : nat * nat) : list (nat * nat) :=
  match get_set s (fst dx) with
  | Some ds => match slot (d_data ds) (snd dx) with Some it => [(fst dx, x_key it)] | None => [] end
  | None => []
  end.

Definition ad_annotations := un (fun ha => if model then m_ann_anns s (fst ha) else s_ann_anns s (fst ha)).
Definition ad_targets_one := un (fun ha => fw_targets_one s (snd ha)).
Definition ad_targets_max := un (fun ha => if model then fw_targets_max s (snd ha) else sp_targets_max s (snd ha)).
Definition ad_data := unp (fun ha => a_data (snd ha)).
Definition ad_data_meta := unp (fun ha => if model then fw_data_meta s (snd ha) else sp_data_meta s (snd ha)).
Definition ad_keys := unp (fun ha => flat_map key_of (a_data (snd ha))).
Definition ad_keys_meta := unp (fun ha => if model then fw_keys_meta s (snd ha) else sp_keys_meta s (snd ha)).
Definition ad_resources := un (fun ha => if model then fw_resources s (snd ha) else sp_resources s (snd ha)).
Definition ad_resources_meta := un (fun ha => if model then fw_resources_meta s (snd ha) else sp_resources_meta s (snd ha)).

(* the text selections an annotation selects itself (not through the annotations it targets) and the
   annotations on a set of text selections (TextSelectionIterator::annotations) *)
Definition leaf_ts (lf : leaf) : list (nat * nat) :=
  match lf with LText r t _ | LAnnText _ r t _ => [(r, t)] | _ => [] end.
Definition ts_anns (rt : nat * nat) : list nat :=
  if model then m_ts_anns s (fst rt) (snd rt) else s_ts_anns s (fst rt) (snd rt).
Definition ad_ts_annotations := un (fun ha => flat_map ts_anns (flat_map leaf_ts (a_leaves (snd ha)))).

(* the annotations named by a list of handles, with their records *)
Definition recs (l : list nat) : list (nat * ann) :=
  flat_map (fun h => match get_ann s h with Some a => [(h, a)] | None => [] end) l.

Definition data_anns (d x : nat) := if model then m_data_anns s d x else s_data_anns s d x.
Definition key_anns (d : nat) (ds : dset) (k : nat) := if model then m_key_anns s d ds k else s_key_anns s d ds k.

Definition live_slots {X} (l : list (option X)) : list nat :=
  filter (fun h => match slot l h with Some _ => true | None => false end) (seq 0 (length l)).

Definition ds_data_annotations (d : nat) (ds : dset) : list nat :=
  sort_dedup (flat_map (data_anns d) (live_slots (d_data ds))).
Definition ds_data_annotations_meta (d : nat) (ds : dset) : list nat :=
  sort_dedup (flat_map (fun x => if model then m_data_meta s d x else s_data_meta s d x) (live_slots (d_data ds))).
Definition ds_data_keys (ds : dset) : list nat :=
  sort_dedup (flat_map (fun x => match slot (d_data ds) x with Some it => [x_key it] | None => [] end) (live_slots (d_data ds))).
Definition ds_keys_annotations (d : nat) (ds : dset) : list nat :=
  sort_dedup (flat_map (key_anns d ds) (live_slots (d_keys ds))).
Definition ds_keys_annotations_meta (d : nat) (ds : dset) : list nat :=
  sort_dedup (flat_map (fun k => if model then m_key_meta s d k else s_key_meta s d k) (live_slots (d_keys ds))).

Definition res_annotations : list nat :=
  sort_dedup (flat_map (fun r => if model then m_res_text s r else s_res_text s r) (live_slots (ress s))).
Definition res_annotations_meta : list nat :=
  sort_dedup (flat_map (fun r => if model then m_res_meta s r else s_res_meta s r) (live_slots (ress s))).
Definition res_ts_annotations : list nat :=
  sort_dedup (flat_map (fun r => match get_res s r with
                                 | Some rs => flat_map (fun t => ts_anns (r, t)) (seq 0 (length (r_sels rs)))
                                 | None => []
                                 end) (live_slots (ress s))).
End Adaptors.
