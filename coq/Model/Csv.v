(* Model of the STAM CSV serialisation of a store and of loading it again (src/csv.rs):

     writing   ToCsv for AnnotationStore (tables StoreManifest and Annotation), AnnotationCsv::set_*
               (selector type / target columns / offsets; complex selectors: a leading empty slot,
               then one slot per sub-selector, internal ranged selectors expanded),
               ToCsv for AnnotationDataSet (key rows, then data rows with the value as text)
     reading   FromCsv for AnnotationStore (manifest order: data sets, resources, then the
               annotation rows through TryInto<AnnotationBuilder> and annotate()),
               FromCsv for AnnotationDataSet (key rows / data rows, every value a string)

   The row decoder itself (TryInto<AnnotationBuilder> for AnnotationCsv) is Model/Loader.v
   [csv_row]; here it is used through [csv_row_now], which adds the repair of this property
   (the target columns are read whether or not the row has data).

   A store is Model/Store.v; public identifiers are tokens there, the harness writes token n
   of an annotation as "a<n>" (resource "r<n>", data set "s<n>", key "k<n>", data "d<n>").
   Items without public id are written with their temporary id "!A<handle>" / "!D<handle>".
   The text of a resource is determined by its length (harness: text_of_len), so a resource
   file is represented by that length; reading and writing the .txt file is trusted.
   Strings are lists of scalar values.  Executable definitions only. *)
From Coq Require Import String.
From Coq Require Import List NArith ZArith Bool Arith.
Import ListNotations.
From Stam Require Import Model.Offset Model.Store Model.Loader.

(* string literals are evaluated here so that the extracted code is free of Coq's [string] *)
Definition kind_str : skind -> str := Eval vm_compute in str_of_kind.
Definition DEFAULT_SET_NAME : str := Eval vm_compute in lit "default-annotationset".
Definition NULL_TEXT : str := Eval vm_compute in lit "null".
Definition TRUE_TEXT : str := Eval vm_compute in lit "true".
Definition FALSE_TEXT : str := Eval vm_compute in lit "false".

(** * Names *)

Definition nat_dec (n : nat) : str := dec (N.of_nat n).

(* tokens from TEMP_BASE on stand for the literal public id "!A<n>" / "!D<n>" an item gets
   when a temporary id is read back as an ordinary one *)
Definition TEMP_BASE : nat := 200.

Definition name_res (t : nat) : str := 114%N :: nat_dec t.
Definition name_ann (t : nat) : str := 97%N :: nat_dec t.
Definition name_key (t : nat) : str := 107%N :: nat_dec t.
Definition name_data (t : nat) : str := 100%N :: nat_dec t.
Definition name_set (t : nat) : str :=
  if Nat.eqb t DEFAULT_SET_TOKEN then DEFAULT_SET_NAME else 115%N :: nat_dec t.
(* Storable::temp_id *)
Definition temp_name (letter : N) (h : nat) : str := 33%N :: letter :: nat_dec h.
Definition LETTER_A : N := 65%N.
Definition LETTER_D : N := 68%N.

(** * The text of a value (Display for DataValue) *)

Definition z_text (z : Z) : str :=
  if (z <? 0)%Z then 45%N :: dec (Z.to_N (- z)) else dec (Z.to_N z).

(* three decimals without trailing zeros; m < 1000, m <> 0 *)
Definition frac3 (m : N) : str :=
  let d1 := (m / 100)%N in
  let d2 := ((m / 10) mod 10)%N in
  let d3 := (m mod 10)%N in
  if (d3 =? 0)%N then (if (d2 =? 0)%N then [48 + d1] else [48 + d1; 48 + d2])%N
  else [48 + d1; 48 + d2; 48 + d3]%N.

(* a float on the 1/1000 grid as {} prints it *)
Definition fix_text (z : Z) : str :=
  let a := Z.to_N (Z.abs z) in
  (if (z <? 0)%Z then [45%N] else []) ++ dec (a / 1000)%N
  ++ (if (a mod 1000 =? 0)%N then [] else 46%N :: frac3 (a mod 1000)%N).

(* a list prints ", " before every item but the last *)
Fixpoint value_text (v : value) : str :=
  match v with
  | VNull => NULL_TEXT
  | VBool b => if b then TRUE_TEXT else FALSE_TEXT
  | VInt z => z_text z
  | VFix z => fix_text z
  | VStr s => s
  | VList l =>
      (fix go (l : list value) : str :=
         match l with
         | [] => []
         | x :: l' =>
             match l' with
             | [] => value_text x
             | _ :: _ => 44%N :: 32%N :: value_text x ++ go l'
             end
         end) l
  end.

(** * Files *)

Record datarow := { dr_id : str; dr_key : str; dr_val : str }.

(* one data set file per live set (with its id from the manifest), one text file per live
   resource, the annotation rows *)
Record files := { f_sets : list (str * list datarow); f_ress : list (str * nat); f_rows : list csvrow }.

Fixpoint map_opt {A B} (f : A -> option B) (l : list A) : option (list B) :=
  match l with
  | [] => Some []
  | x :: l' =>
      match f x, map_opt f l' with
      | Some y, Some ys => Some (y :: ys)
      | _, _ => None
      end
  end.

Definition live_items {X} (l : list (option X)) : list (nat * X) :=
  flat_map (fun h => match slot l h with Some x => [(h, x)] | None => [] end) (seq 0 (length l)).

(** * Writing *)

Definition data_ident (h : nat) (it : adata) : str :=
  match x_id it with Some t => name_data t | None => temp_name LETTER_D h end.
Definition ann_ident (h : nat) (a : ann) : str :=
  match a_id a with Some t => name_ann t | None => temp_name LETTER_A h end.

(* ToCsv for AnnotationDataSet: None = the `?` on a data item whose key is gone *)
Definition save_set (d : dset) : option (list datarow) :=
  let keyrows := map (fun kt => {| dr_id := []; dr_key := name_key (snd kt); dr_val := [] |}) (live_items (d_keys d)) in
  match map_opt (fun hx => match slot (d_keys d) (x_key (snd hx)) with
                           | Some kt => Some {| dr_id := data_ident (fst hx) (snd hx); dr_key := name_key kt;
                                                dr_val := value_text (x_val (snd hx)) |}
                           | None => None
                           end) (live_items (d_data d)) with
  | Some datarows => Some (keyrows ++ datarows)
  | None => None
  end.

Definition mode_of_nat (m : nat) : omode :=
  match m with 0 => BeginBegin | 1 => BeginEnd | 2 => EndEnd | _ => EndBegin end.
Definition lcur (c : Offset.cursor) : Loader.cursor :=
  match c with CB n => CBegin (N.of_nat n) | CE z => CEnd z end.
Definition ocur (c : Loader.cursor) : Offset.cursor :=
  match c with CBegin n => CB (N.to_nat n) | CEnd z => CE z end.

(* set_beginoffset / set_endoffset of a simple selector: empty when it carries no offset *)
Definition off_strs (o : option offset) : str * str :=
  match o with
  | Some o => (str_of_cursor (lcur (o_begin o)), str_of_cursor (lcur (o_end o)))
  | None => ([], [])
  end.

(* what one simple selector contributes to the eight target columns *)
Record member := { m_kind : skind; m_res : str; m_ann : str; m_dset : str; m_begin : str; m_end : str;
                   m_key : str; m_tdata : str }.

(* None = an expect() on a handle that does not resolve (panic in the writer) *)
Definition leaf_member (s : store) (lf : leaf) : option member :=
  match lf with
  | LText r t m =>
      match get_res s r with
      | Some rs =>
          match nth_error (r_sels rs) t with
          | Some rg =>
              let be := off_strs (Some (report_resource (r_len rs) rg (mode_of_nat m))) in
              Some {| m_kind := KText; m_res := name_res (r_id rs); m_ann := []; m_dset := [];
                      m_begin := fst be; m_end := snd be; m_key := []; m_tdata := [] |}
          | None => None
          end
      | None => None
      end
  | LAnn a =>
      match get_ann s a with
      | Some an => Some {| m_kind := KAnnotation; m_res := []; m_ann := ann_ident a an; m_dset := [];
                           m_begin := []; m_end := []; m_key := []; m_tdata := [] |}
      | None => None
      end
  | LAnnText a r t m =>
      match get_ann s a, get_res s r with
      | Some an, Some rs =>
          match nth_error (r_sels rs) t with
          | Some rg =>
              (* Selector::offset_with_mode: relative to the text selection of the target annotation *)
              let off := match ann_textsel s an with
                         | Some (_, _, prg) => relative_offset rg prg (mode_of_nat m)
                         | None => None
                         end in
              let be := off_strs off in
              Some {| m_kind := KAnnotation; m_res := []; m_ann := ann_ident a an; m_dset := [];
                      m_begin := fst be; m_end := snd be; m_key := []; m_tdata := [] |}
          | None => None
          end
      | _, _ => None
      end
  | LRes r =>
      match get_res s r with
      | Some rs => Some {| m_kind := KResource; m_res := name_res (r_id rs); m_ann := []; m_dset := [];
                           m_begin := []; m_end := []; m_key := []; m_tdata := [] |}
      | None => None
      end
  | LSet d =>
      match get_set s d with
      | Some ds => Some {| m_kind := KDataSet; m_res := []; m_ann := []; m_dset := name_set (d_id ds);
                           m_begin := []; m_end := []; m_key := []; m_tdata := [] |}
      | None => None
      end
  | LKey d k =>
      match get_set s d with
      | Some ds =>
          match slot (d_keys ds) k with
          | Some kt => Some {| m_kind := KDataKey; m_res := []; m_ann := []; m_dset := name_set (d_id ds);
                               m_begin := []; m_end := []; m_key := name_key kt; m_tdata := [] |}
          | None => None
          end
      | None => None
      end
  | LData d x =>
      match get_set s d with
      | Some ds =>
          match slot (d_data ds) x with
          | Some it => Some {| m_kind := KData; m_res := []; m_ann := []; m_dset := name_set (d_id ds);
                               m_begin := []; m_end := []; m_key := []; m_tdata := data_ident x it |}
          | None => None
          end
      | None => None
      end
  end.

(* the loops of the complex branch: out.push(';'); out += field, for every sub-selector *)
Definition push_all (l : list str) : str := flat_map (fun x => 59%N :: x) l.

Definition complex_kind (k : nat) : skind :=
  match k with 1 => KMulti | 2 => KComposite | _ => KDirectional end.

(* the AnnotationData / AnnotationDataSet columns; the loop of the third branch separates with
   ';' when the accumulated string is not empty *)
Definition data_columns (l : list (str * str)) : str * str :=
  match l with
  | [] => ([], [])
  | [(sn, dn)] => (dn, sn)
  | _ => fold_left (fun acc p =>
                      let '(dcol, scol) := acc in
                      if is_empty dcol then (dcol ++ snd p, scol ++ fst p)
                      else (dcol ++ 59%N :: snd p, scol ++ 59%N :: fst p)) l ([], [])
  end.

(* the eleven columns from the id, the data columns, the kind of the target (0 = simple) and
   its members; None = a simple target that is not exactly one selector (cannot be built) *)
Definition assemble (idcol : str) (dc : str * str) (k : nat) (ms : list member) : option csvrow :=
  match k, ms with
  | 0, [m] =>
      Some {| c_id := idcol; c_data := fst dc; c_set := snd dc; c_kind := kind_str (m_kind m);
              c_res := m_res m; c_ann := m_ann m; c_dset := m_dset m; c_begin := m_begin m;
              c_end := m_end m; c_key := m_key m; c_tdata := m_tdata m |}
  | 0, _ => None
  | k, _ =>
      Some {| c_id := idcol; c_data := fst dc; c_set := snd dc;
              c_kind := kind_str (complex_kind k) ++ push_all (map (fun m => kind_str (m_kind m)) ms);
              c_res := push_all (map m_res ms); c_ann := push_all (map m_ann ms);
              c_dset := push_all (map m_dset ms); c_begin := push_all (map m_begin ms);
              c_end := push_all (map m_end ms); c_key := push_all (map m_key ms);
              c_tdata := push_all (map m_tdata ms) |}
  end.

(* the (data set, data) names of the data of an annotation *)
Definition data_names (s : store) (a : ann) : option (list (str * str)) :=
  map_opt (fun dx => match get_set s (fst dx) with
                     | Some ds => match slot (d_data ds) (snd dx) with
                                  | Some it => Some (name_set (d_id ds), data_ident (snd dx) it)
                                  | None => None
                                  end
                     | None => None
                     end) (a_data a).

(* the Id column: an annotation without data is written with its temporary id when it has no
   public one, an annotation with data with an empty field *)
Definition id_column (h : nat) (a : ann) : str :=
  match a_data a with
  | [] => ann_ident h a
  | _ => match a_id a with Some t => name_ann t | None => [] end
  end.

(* one row of the Annotation table; None = panic of the writer *)
Definition pack_row (s : store) (h : nat) (a : ann) : option csvrow :=
  match map_opt (leaf_member s) (a_leaves a), data_names s a with
  | Some ms, Some ds => assemble (id_column h a) (data_columns ds) (a_kind a) ms
  | _, _ => None
  end.

(* AnnotationStore::to_csv_files *)
Definition save (s : store) : option files :=
  match map_opt (fun hd => match save_set (snd hd) with
                           | Some rows => Some (name_set (d_id (snd hd)), rows)
                           | None => None
                           end) (live_items (sets s)),
        map_opt (fun ha => pack_row s (fst ha) (snd ha)) (live_items (anns s)) with
  | Some fs, Some rows =>
      Some {| f_sets := fs;
              f_ress := map (fun hr => (name_res (r_id (snd hr)), r_len (snd hr))) (live_items (ress s));
              f_rows := rows |}
  | _, _ => None
  end.

(** * Reading *)

(* TryInto<AnnotationBuilder> for AnnotationCsv as it is now (Model/Loader.v, after the repair
   62b1571 of this property: the target columns are read whether or not the row has data) *)
Definition csv_row_now (r : csvrow) : outcome Loader.abuild := csv_row false r.

(* the token of an ordinary id: the letter, then the canonical decimal *)
Definition parse_tok (letter : N) (s : str) : option nat :=
  match s with
  | c :: r =>
      if (c =? letter)%N then
        match r with
        | [] => None
        | _ => match digits_val usize_max 0 r with
               | Some n => if str_eqb (dec n) r then Some (N.to_nat n) else None
               | None => None
               end
        end
      else None
  | [] => None
  end.

(* StoreFor::resolve_id: an id that starts with the temporary prefix of the type and parses is
   that handle (whatever sits there); everything else goes through the id map *)
Definition temp_handle_of (letter : N) (s : str) : option nat :=
  match s with
  | c :: l :: r => if ((c =? 33) && (l =? letter))%N then option_map N.to_nat (parse_usize r) else None
  | _ => None
  end.

Definition ref_of_name (plain temp : N) (s : str) : option iref :=
  match temp_handle_of temp s with
  | Some h => Some (ByHandle h)
  | None => option_map ById (parse_tok plain s)
  end.

Definition set_ref_of_name (s : str) : option iref :=
  if str_eqb s (DEFAULT_SET_NAME) then Some (ById DEFAULT_SET_TOKEN)
  else match temp_handle_of 83%N s with
       | Some h => Some (ByHandle h)
       | None => option_map ById (parse_tok 115%N s)
       end.

(* the token a public id is stored under *)
Definition own_tok (plain temp : N) (s : str) : option nat :=
  match temp_handle_of temp s with
  | Some h => Some (TEMP_BASE + h)
  | None => parse_tok plain s
  end.
Definition set_tok_of_name (s : str) : option nat :=
  if str_eqb s (DEFAULT_SET_NAME) then Some DEFAULT_SET_TOKEN else parse_tok 115%N s.

(* StoreFor<DataKey>::insert *)
Definition dset_add_key (d : dset) (tok : nat) : dset :=
  match id_get (d_kidx d) tok with
  | Some _ => d
  | None => mkset (d_id d) (d_keys d ++ [Some tok]) (d_data d) (id_put (d_kidx d) tok (length (d_keys d)))
                  (d_xidx d) (d_k2x d)
  end.

(* insert_data(id = Id(..), key = Id(..), value, safety = false) *)
Definition csv_insert_data (d : dset) (idname : str) (ktok : nat) (v : value) : option dset :=
  match ref_of_name 100%N LETTER_D idname, own_tok 100%N LETTER_D idname with
  | Some r, Some tok =>
      match ref_data d r with
      | Some _ => Some d                                           (* already exists, returned as is *)
      | None =>
          let d1 := dset_add_key d ktok in
          match id_get (d_kidx d1) ktok with
          | Some k =>
              let h := length (d_data d1) in
              Some (mkset (d_id d1) (d_keys d1) (d_data d1 ++ [Some (mkdata (Some tok) k v)]) (d_kidx d1)
                          (id_put (d_xidx d1) tok h) (rins (d_k2x d1) k h))
          | None => None
          end
      end
  | _, _ => None
  end.

(* FromCsv for AnnotationDataSet *)
Definition load_datarow (d : option dset) (r : datarow) : option dset :=
  match d with
  | None => None
  | Some d =>
      if is_empty (dr_id r) && negb (is_empty (dr_key r)) && is_empty (dr_val r) then
        option_map (dset_add_key d) (parse_tok 107%N (dr_key r))
      else if is_empty (dr_id r) then None      (* BuildItem::None as id and no such value: an error later on; not written *)
      else match parse_tok 107%N (dr_key r) with
           | Some kt => csv_insert_data d (dr_id r) kt (VStr (dr_val r))
           | None => None
           end
  end.

Definition load_set (idname : str) (rows : list datarow) : option dset :=
  match set_tok_of_name idname with
  | Some tok => fold_left load_datarow rows (Some (mkset tok [] [] [] [] []))
  | None => None
  end.

(* StoreFor<AnnotationDataSet>::insert of a populated set *)
Definition store_add_loaded_set (s : store) (d : dset) : option store :=
  match id_get (sidx s) (d_id d) with
  | Some _ => None
  | None => Some (set_sidx (set_sets s (sets s ++ [Some d])) (id_put (sidx s) (d_id d) (length (sets s))))
  end.

Definition simple_of_loader (b : Loader.sbuild) : option Store.sbuild :=
  match b with
  | Loader.BText r cb ce => option_map (fun rr => Store.BText rr (mkoff (ocur cb) (ocur ce))) (ref_of_name 114%N 82%N r)
  | Loader.BAnn a o =>
      option_map (fun ar => Store.BAnn ar (option_map (fun p => mkoff (ocur (fst p)) (ocur (snd p))) o))
                 (ref_of_name 97%N LETTER_A a)
  | Loader.BRes r => option_map Store.BRes (ref_of_name 114%N 82%N r)
  | Loader.BSet d => option_map Store.BSet (set_ref_of_name d)
  | Loader.BKey d k =>
      match set_ref_of_name d, ref_of_name 107%N 75%N k with
      | Some dr, Some kr => Some (Store.BKey dr kr)
      | _, _ => None
      end
  | Loader.BDat d x =>
      match set_ref_of_name d, ref_of_name 100%N LETTER_D x with
      | Some dr, Some xr => Some (Store.BData dr xr)
      | _, _ => None
      end
  | Loader.BComplex _ _ => None
  end.

Definition kind_nat (k : skind) : nat :=
  match k with KMulti => 1 | KComposite => 2 | KDirectional => 3 | _ => 0 end.

Definition target_of_loader (b : Loader.sbuild) : option Store.sbuild :=
  match b with
  | Loader.BComplex k l => option_map (Store.BComplex (kind_nat k)) (map_opt simple_of_loader l)
  | _ => simple_of_loader b
  end.

(* the AnnotationBuilder of a row in terms of the store model; None = a name this model has no
   token for (never written by [save]) *)
Definition builder_of_loader (b : Loader.abuild) : option Store.abuild :=
  match (match Loader.ab_id b with
         | Some n => option_map Some (own_tok 97%N LETTER_A n)
         | None => Some None
         end),
        (match Loader.ab_target b with
         | Some t => option_map Some (target_of_loader t)
         | None => Some None
         end),
        map_opt (fun sd => match set_ref_of_name (fst sd), ref_of_name 100%N LETTER_D (snd sd) with
                           | Some sr, Some dr => Some (mkdb sr (Some dr) None VNull)   (* with_existing_data *)
                           | _, _ => None
                           end) (Loader.ab_data b) with
  | Some id, Some tg, Some ds => Some (Store.mkab id tg ds)
  | _, _, _ => None
  end.

Inductive loaded := LOk (s : store) | LErr | LPanic.

Definition load_row (acc : loaded) (r : csvrow) : loaded :=
  match acc with
  | LOk s =>
      match csv_row_now r with
      | Ok b =>
          match builder_of_loader b with
          | Some ab =>
              match annotate s ab with
              | (s', OOk _) => LOk s'
              | (_, OErr) => LErr
              | (_, OPanic) => LPanic
              end
          | None => LErr
          end
      | Err => LErr
      | _ => LPanic
      end
  | _ => acc
  end.

(* FromCsv for AnnotationStore *)
Definition load (f : files) : loaded :=
  let s1 := fold_left (fun acc ir =>
                         match acc with
                         | Some s => match load_set (fst ir) (snd ir) with
                                     | Some d => store_add_loaded_set s d
                                     | None => None
                                     end
                         | None => None
                         end) (f_sets f) (Some empty_store) in
  let s2 := fold_left (fun acc ir =>
                         match acc with
                         | Some s => match parse_tok 114%N (fst ir) with
                                     | Some tok => match add_res s tok (snd ir) with
                                                   | (s', OOk _) => Some s'
                                                   | _ => None
                                                   end
                                     | None => None
                                     end
                         | None => None
                         end) (f_ress f) s1 in
  match s2 with
  | Some s => fold_left load_row (f_rows f) (LOk s)
  | None => LErr
  end.

(* save, then load: 2 = the writer panicked *)
Definition roundtrip (s : store) : loaded :=
  match save s with
  | Some f => load f
  | None => LPanic
  end.
