(* The document view of a store of Model/Store.v: what Model/StamJson.v's writer is applied to for
   the histories of the shared store model.  Identifiers as harness/src/storegen.rs makes them ("r3",
   "s1" / "default-annotationset", "a0", "k2", "d5"), texts as text_of_len, text selections by their
   ranges, and the rule of harness/src/c05.rs for which members are kept in stand-off files. *)
From Coq Require Import String Ascii.
From Coq Require Import List ZArith NArith Bool Arith.
Import ListNotations.
From Stam Require Import Model.Offset Model.Store Model.Json Model.TempId Model.StamJson.

Definition omode_of_nat (m : nat) : omode :=
  match m with 0 => BeginBegin | 1 => BeginEnd | 2 => EndEnd | _ => EndBegin end.

Definition id_str (k : kind) (tok : nat) : str := idletter k :: digits (N.of_nat tok).
Definition set_id_str (tok : nat) : str :=
  if Nat.eqb tok DEFAULT_SET_TOKEN then LIT "default-annotationset" else id_str KSet tok.
Definition ALPHA : list N := [97; 233; 32; 28450; 98; 128512; 99]%N.
Definition text_of_len (n : nat) : str := map (fun i => nth (i mod 7) ALPHA 97%N) (seq 0 n).

Fixpoint jval_of_value (v : value) : jval :=
  match v with
  | VNull => XNull
  | VBool b => XBool b
  | VInt z => XInt z
  | VFix z => XFix z
  | VStr s => XStr s
  | VList l => XList (map jval_of_value l)
  end.

Definition sel_range (s : store) (r t : nat) : nat * nat :=
  match get_res s r with Some rs => nth t (r_sels rs) (0, 0) | None => (0, 0) end.
Definition view_leaf (s : store) (lf : leaf) : dleaf :=
  match lf with
  | LText r t m => let '(b, e) := sel_range s r t in DText r b e (omode_of_nat m)
  | LAnn a => DAnn a
  | LAnnText a r t m => let '(b, e) := sel_range s r t in DAnnText a r b e (omode_of_nat m)
  | LRes r => DRes r
  | LSet d => DSet d
  | LKey d k => DKey d k
  | LData d x => DData d x
  end.

Definition APP_TXT := LIT ".txt".
Definition APP_JSON := LIT ".json".
Definition APP_SET := LIT ".annotationset.stam.json".
Definition res_file_rule (rmode h : nat) (id : str) (len : nat) : option str :=
  if Nat.eqb len 0 then None else
  match rmode with
  | 0 => None
  | 1 => Some (id ++ APP_TXT)
  | 2 => Some (id ++ APP_JSON)
  | _ => match h mod 3 with 0 => None | 1 => Some (id ++ APP_TXT) | _ => Some (id ++ APP_JSON) end
  end.
Definition set_file_rule (smode h : nat) (id : str) (empty : bool) : option str :=
  if empty then None else
  match smode with
  | 0 => None
  | 1 => Some (id ++ APP_SET)
  | _ => if Nat.eqb (h mod 2) 1 then Some (id ++ APP_SET) else None
  end.

Definition view (s : store) (rmode smode : nat) : dstore :=
  mkdstore None
    (map (fun p => match snd p with
                   | Some rs => let id := id_str KRes (r_id rs) in
                                Some (mkdres id (text_of_len (r_len rs)) (res_file_rule rmode (fst p) id (r_len rs)))
                   | None => None
                   end) (combine (seq 0 (length (ress s))) (ress s)))
    (map (fun p => match snd p with
                   | Some ds =>
                       let id := set_id_str (d_id ds) in
                       Some (mkdset id
                               (map (option_map (id_str KKey)) (d_keys ds))
                               (map (option_map (fun it => mkddata (option_map (id_str KData) (x_id it)) (x_key it)
                                                                  (jval_of_value (x_val it)))) (d_data ds))
                               (set_file_rule smode (fst p) id (dset_is_empty ds)))
                   | None => None
                   end) (combine (seq 0 (length (sets s))) (sets s)))
    (map (option_map (fun a => mkdann (option_map (id_str KAnn) (a_id a)) (a_data a) (a_kind a)
                                      (map (view_leaf s) (a_leaves a)))) (anns s)).

