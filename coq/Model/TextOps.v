(* Model of the text search and partition operations:
     FindTextIter, FindNoCaseTextIter, SplitTextIter, FindRegexIter (+ Match::begin/end,
     match_to_result, find_text_regex_select_expressions), FindText::trim_text(_with),
     FindText::find_text_sequence, the FindText impls of ResultItem<TextResource>,
     ResultItem<TextSelection> and ResultTextSelection       (src/api/text.rs)
     SegmentationIter, segmentation(), segmentation_in_range  (src/api/resources.rs, api/textselection.rs)
   A text is the list of its scalar values (Model/Utf8.v).  What the code does in UTF-8 bytes
   is done in bytes here too (blen / bytepos / byte_slice); the byte <-> codepoint conversions
   of the resource are the index-free ones of Model/Utf8.v (C12 proves that every consistent
   position index gives the same answers).
   External engines are parameters: str::find, str::split, str::to_lowercase, the regex
   crate's matches.  A selection is (begin, end) in absolute codepoint positions; the whole
   resource is searched as (0, length t). *)
From Coq Require Import List NArith Arith Bool.
Import ListNotations.
From Stam Require Import Model.Offset Model.Utf8.

(* TextResource::utf8byte / utf8byte_to_charpos *)
Definition bpos (t : text) (p : nat) : out nat := utf8byte [] t p.
Definition cpos (t : text) (b : nat) : out nat := utf8byte_to_charpos [] t b.

(* TextResource::text_by_offset(Offset::simple(ob, oe)) together with
   subslice_utf8_offset of the result: (begin byte, text) *)
Definition res_text_by_offset (t : text) (ob oe : nat) : out (nat * text) :=
  match bpos t ob with
  | OOk bb =>
      match bpos t oe with
      | OOk eb =>
          if eb <? bb then OErr
          else match byte_slice t bb eb with
               | Some s => OOk (bb, s)
               | None => OPanic
               end
      | OErr => OErr
      | OPanic => OPanic
      end
  | OErr => OErr
  | OPanic => OPanic
  end.

(* ResultTextSelection::text(): the conversions are expect()ed *)
Definition sel_text (t : text) (sb se : nat) : out (nat * text) :=
  match bpos t sb, bpos t se with
  | OOk bb, OOk eb =>
      match byte_slice t bb eb with
      | Some s => OOk (bb, s)
      | None => OPanic
      end
  | _, _ => OPanic
  end.

(* ResultItem<TextResource>::textselection(&Offset::simple(b, e)) *)
Definition res_textselection (t : text) (b e : nat) : option (nat * nat) :=
  if length t <? b then None
  else if length t <? e then None
  else if b <=? e then Some (b, e) else None.

Inductive status := Done | Panicked | NoFuel.

Definition is_nil {X} (l : list X) : bool := match l with [] => true | _ => false end.

Section Find.
  (* str::find: byte offset of the first match of the needle in the haystack *)
  Variable find_b : text -> text -> option nat.

  (* FindTextIter / FindNoCaseTextIter on one resource; [tr] is what is done to the
     searched slice before str::find (nothing / to_lowercase), [frag] the fragment as
     stored in the iterator, (ob, oe) the offset field.  One unit of fuel per next(). *)
  Fixpoint find_iter (fuel : nat) (tr : text -> text) (t frag : text) (ob oe : nat)
    : list (nat * nat) * status :=
    match fuel with
    | 0 => ([], NoFuel)
    | S fuel' =>
        match res_text_by_offset t ob oe with
        | OPanic => ([], Panicked)
        | OErr => ([], Done)            (* on to the next resource *)
        | OOk (bb, hay) =>
            match find_b (tr hay) frag with
            | None => ([], Done)
            | Some fb =>
                let endb := fb + blen frag in
                match cpos t (bb + fb), cpos t (bb + endb) with
                | OOk nb, OOk ne =>
                    match res_textselection t nb ne with
                    | None => ([], Done)      (* "ended prematurely" *)
                    | Some r =>
                        let '(l, s) := find_iter fuel' tr t frag (if is_nil frag then S ne else ne) oe in
                        (r :: l, s)
                    end
                | _, _ => ([], Panicked)      (* expect() *)
                end
            end
        end
    end.

  Definition find_fuel (t : text) : nat := length t + 3.

  (* find_text(fragment) on the selection (sb, se) *)
  Definition find_text (t frag : text) (sb se : nat) : list (nat * nat) * status :=
    find_iter (find_fuel t) (fun x => x) t frag sb se.

  (* find_text_nocase(fragment): the fragment is lower-cased once, every searched slice anew *)
  Definition find_text_nocase (lower_s : text -> text) (t frag : text) (sb se : nat) :=
    find_iter (find_fuel t) lower_s t (lower_s frag) sb se.

  (* AnnotationStore::find_text: all resources in order, each searched as a whole *)
  Fixpoint store_find (i : nat) (ts : list text) (frag : text) : list (nat * (nat * nat)) * status :=
    match ts with
    | [] => ([], Done)
    | t :: ts' =>
        match find_text t frag 0 (length t) with
        | (l, Done) =>
            let '(l', s) := store_find (S i) ts' frag in
            (map (fun r => (i, r)) l ++ l', s)
        | (l, s) => (map (fun r => (i, r)) l, s)
        end
    end.

  (* iterator.next() *)
  Definition find_first (tr : text -> text) (t frag : text) (ob oe : nat) : out (option (nat * nat)) :=
    match find_iter 1 tr t frag ob oe with
    | (r :: _, _) => OOk (Some r)
    | ([], Panicked) => OPanic
    | ([], _) => OOk None
    end.

  (* find_text_sequence on the selection (sb, se): [cur] is textselectionresult
     (None = Err), [begin] the absolute end of the previous match *)
  Fixpoint sequence_go (tr : text -> text) (skip : N -> bool) (t : text) (sb se : nat)
           (frags : list text) (begin : nat) (cur : option (nat * nat))
    : out (option (list (nat * nat))) :=
    match frags with
    | [] => OOk (Some [])
    | f :: frags' =>
        match cur with
        | None => OOk None
        | Some (cb, ce) =>
            match find_first tr t (tr f) cb ce with
            | OPanic | OErr => OPanic
            | OOk None => OOk None
            | OOk (Some (mb, me)) =>
                (* skipped text: self.textselection(begin - selfbegin, m.begin - selfbegin).text() *)
                let skipped_ok :=
                  if begin <? mb then
                    let rb := begin - sb in
                    let re := mb - sb in
                    if (se - sb <? rb) || (se - sb <? re) then None     (* expect() *)
                    else match res_textselection t (sb + rb) (sb + re) with
                         | None => None
                         | Some (x, y) =>
                             match sel_text t x y with
                             | OOk (_, s) => Some (forallb skip s)
                             | _ => None
                             end
                         end
                  else Some true in
                match skipped_ok with
                | None => OPanic
                | Some false => OOk None
                | Some true =>
                    (* searchtext.textselection(BeginAligned(begin' - cb), EndAligned(0)) *)
                    let rel := me - cb in
                    let cur' := if ce - cb <? rel then None
                                else res_textselection t (cb + rel) (cb + (ce - cb)) in
                    match sequence_go tr skip t sb se frags' me cur' with
                    | OOk (Some l) => OOk (Some ((mb, me) :: l))
                    | r => r
                    end
                end
            end
        end
    end.

  Definition find_text_sequence (tr : text -> text) (skip : N -> bool) (t : text)
             (frags : list text) (sb se : nat) : out (option (list (nat * nat))) :=
    sequence_go tr skip t sb se frags sb (res_textselection t sb se).
End Find.

(* ---- split_text ---- *)
Section Split.
  (* str::split: (byte offset in the haystack, byte length) of every piece *)
  Variable split_b : text -> text -> list (nat * nat).

  (* one SplitTextIter::next(), byteoffset = 0 *)
  Definition split_piece (t : text) (bb : nat) (p : nat * nat) : out (nat * nat) :=
    let beginbyte := bb + fst p - 0 in
    let endbyte := beginbyte + snd p - 0 in
    match cpos t beginbyte, cpos t endbyte with
    | OOk b, OOk e =>
        match res_textselection t b e with
        | Some r => OOk r
        | None => OPanic
        end
    | _, _ => OPanic
    end.

  Fixpoint collect {X} (l : list (out X)) : list X * status :=
    match l with
    | [] => ([], Done)
    | OOk x :: l' => let '(r, s) := collect l' in (x :: r, s)
    | _ :: _ => ([], Panicked)
    end.

  Definition split_text (t delim : text) (sb se : nat) : list (nat * nat) * status :=
    match sel_text t sb se with
    | OOk (bb, hay) => collect (map (split_piece t bb) (split_b hay delim))
    | _ => ([], Panicked)
    end.
End Split.

(* ---- trim_text / trim_text_with ---- *)
Fixpoint count_while (f : N -> bool) (l : text) : nat :=
  match l with
  | c :: l' => if f c then S (count_while f l') else 0
  | [] => 0
  end.

Definition trim_text (inset : N -> bool) (t : text) (sb se : nat) : out (nat * nat) :=
  match sel_text t sb se with
  | OOk (_, hay) =>
      let textlen := se - sb in
      let trimbegin := count_while inset hay in
      let trimend0 := count_while inset (rev hay) in
      let trimend := if trimbegin =? textlen then 0 else trimend0 in
      (* self.textselection(Offset(BeginAligned(trimbegin), EndAligned(-trimend))) *)
      if textlen <? trimend then OErr
      else
        let e := textlen - trimend in
        if textlen <? trimbegin then OErr
        else if textlen <? e then OErr
        else match res_textselection t (sb + trimbegin) (sb + e) with
             | Some r => OOk r
             | None => OErr
             end
  | _ => OPanic
  end.

(* ---- find_text_regex ---- *)
(* a match of the regex crate on the searched slice: the groups (group 0 = whole match first),
   each absent or (start, end) in bytes relative to the slice *)
Definition rgroup := option (nat * nat).
Definition rmatch := list rgroup.
(* an expression: captures_len() > 1, and what find_iter / captures_iter yields *)
Definition rexpr := (bool * list rmatch)%type.

(* Match::begin / Match::end: smallest start / largest end over the groups that took part *)
Fixpoint mbegin_go (acc : option nat) (m : rmatch) : option nat :=
  match m with
  | [] => acc
  | Some (s, _) :: m' =>
      mbegin_go (match acc with None => Some s | Some a => if s <? a then Some s else acc end) m'
  | None :: m' => mbegin_go acc m'
  end.
Fixpoint mend_go (acc : option nat) (m : rmatch) : option nat :=
  match m with
  | [] => acc
  | Some (_, e) :: m' =>
      mend_go (match acc with None => Some e | Some a => if a <? e then Some e else acc end) m'
  | None :: m' => mend_go acc m'
  end.
Definition mbegin (m : rmatch) : nat := match mbegin_go None m with Some x => x | None => 0 end.
Definition mend (m : rmatch) : nat := match mend_go None m with Some x => x | None => 0 end.

(* the merge of FindRegexIter::next(), for any begin / end measure of a match (the code's:
   Match::begin, Match::end) *)
Fixpoint mapi_from {X Y} (i : nat) (f : nat -> X -> Y) (l : list X) : list Y :=
  match l with
  | [] => []
  | x :: l' => f i x :: mapi_from (S i) f l'
  end.

Section Merge.
  Context {X : Type}.
  Variable kb ke : X -> nat.

  (* the buffered next match of every selected expression = head of its remaining matches;
     the best one: smallest begin, the first such *)
  Fixpoint best_from (i : nat) (ss : list (list X)) (cur : option (nat * X)) : option (nat * X) :=
    match ss with
    | [] => cur
    | s :: ss' =>
        let cur' := match s with
                    | [] => cur
                    | m :: _ =>
                        match cur with
                        | None => Some (i, m)
                        | Some (_, bm) => if kb m <? kb bm then Some (i, m) else cur
                        end
                    end in
        best_from (S i) ss' cur'
    end.

  (* while the buffered match begins inside [mb, me): take the iterator's next *)
  Fixpoint drop_overlap (mb me : nat) (s : list X) : list X :=
    match s with
    | m2 :: s' => if (mb <=? kb m2) && (kb m2 <? me) then drop_overlap mb me s' else s
    | [] => []
    end.

  (* one FindRegexIter::next() on the buffers: the chosen (stream index, match) and the new buffers *)
  Definition regex_step (allow_overlap : bool) (ss : list (list X)) : option (nat * X * list (list X)) :=
    match best_from 0 ss None with
    | None => None
    | Some (i, m) =>
        let ss1 := if allow_overlap then ss
                   else mapi_from 0 (fun j s => if j =? i then s else drop_overlap (kb m) (ke m) s) ss in
        Some (i, m, mapi_from 0 (fun j s => if j =? i then tl s else s) ss1)
    end.

  Fixpoint regex_merge (fuel : nat) (allow_overlap : bool) (ss : list (list X)) : list (nat * X) :=
    match fuel with
    | 0 => []
    | S fuel' =>
        match regex_step allow_overlap ss with
        | None => []
        | Some (i, m, ss') => (i, m) :: regex_merge fuel' allow_overlap ss'
        end
    end.
End Merge.

(* match_to_result: one group's text selection *)
Definition conv_group (t : text) (bb : nat) (g : nat * nat) : out (nat * nat) :=
  match cpos t (bb + fst g), cpos t (bb + snd g) with
  | OOk b, OOk e =>
      match res_textselection t b e with
      | Some r => OOk r
      | None => OPanic
      end
  | _, _ => OPanic
  end.

(* capture groups 1.. that took part: (group number, selection) *)
Fixpoint conv_caps (t : text) (bb : nat) (i : nat) (gs : list rgroup) : list (out (nat * (nat * nat))) :=
  match gs with
  | [] => []
  | None :: gs' => conv_caps t bb (S i) gs'
  | Some g :: gs' =>
      (match conv_group t bb g with
       | OOk r => OOk (i, r)
       | OErr => OErr
       | OPanic => OPanic
       end) :: conv_caps t bb (S i) gs'
  end.

(* a result: expression index, capture group numbers, selections *)
Definition rresult := (nat * (list nat * list (nat * nat)))%type.

Definition match_to_result (t : text) (bb : nat) (caps : bool) (eidx : nat) (m : rmatch) : out rresult :=
  if caps then
    match collect (conv_caps t bb 1 (tl m)) with
    | (l, Done) => OOk (eidx, (map fst l, map snd l))
    | _ => OPanic
    end
  else
    match m with
    | Some g :: _ =>
        match conv_group t bb g with
        | OOk r => OOk (eidx, ([], [r]))
        | _ => OPanic
        end
    | _ => OPanic
    end.

(* find_text_regex_select_expressions: more than two expressions are pre-selected by a
   RegexSet (those that match somewhere) *)
Fixpoint select_from (i : nat) (pre : bool) (es : list rexpr) : list (nat * rexpr) :=
  match es with
  | [] => []
  | e :: es' =>
      if pre && is_nil (snd e) then select_from (S i) pre es'
      else (i, e) :: select_from (S i) pre es'
  end.

Definition total_matches (sel : list (nat * rexpr)) : nat :=
  fold_right (fun e n => length (snd (snd e)) + n) 0 sel.

Definition find_text_regex (t : text) (es : list rexpr) (allow_overlap : bool) (sb se : nat)
  : list rresult * status :=
  match sel_text t sb se with
  | OOk (bb, _) =>
      let sel := select_from 0 (2 <? length es) es in
      let merged := regex_merge mbegin mend (S (total_matches sel)) allow_overlap (map (fun e => snd (snd e)) sel) in
      collect (map (fun im =>
                      match nth_error sel (fst im) with
                      | Some (eidx, (caps, _)) => match_to_result t bb caps eidx (snd im)
                      | None => OPanic
                      end) merged)
  | _ => ([], Panicked)
  end.

(* ---- segmentation ---- *)
(* keys of the position index: milestones and the ends of the known selections *)
Definition seg_active (known : list (nat * nat)) (p : nat) : bool :=
  existsb (fun k => (fst k =? p) || (snd k =? p)) known.

Definition index_keys (interval : nat) (t : text) (known : list (nat * nat)) : list nat :=
  filter (fun p => ((0 <? p) && (p <? length t) && negb (interval =? 0) && (p mod interval =? 0))
                   || seg_active known p)
         (seq 0 (S (length t))).

(* SegmentationIter::next() repeated *)
Fixpoint seg_iter (active : nat -> bool) (poss : list nat) (cursor en : nat) : list (nat * nat) :=
  if en <=? cursor then []
  else
    match poss with
    | p :: ps =>
        if (cursor <? p) && active p then
          if en <? p then [(cursor, en)]
          else (cursor, p) :: seg_iter active ps p en
        else seg_iter active ps cursor en
    | [] => [(cursor, en)]
    end.

(* resource.segmentation(): all keys; segmentation_in_range(b, e) and
   ResultTextSelection::segmentation(): the keys in [b, e) *)
Definition segmentation (interval : nat) (t : text) (known : list (nat * nat)) : list (nat * nat) :=
  seg_iter (seg_active known) (index_keys interval t known) 0 (length t).

Definition segmentation_in_range (interval : nat) (t : text) (known : list (nat * nat)) (b e : nat)
  : list (nat * nat) :=
  seg_iter (seg_active known)
           (filter (fun p => (b <=? p) && (p <? e)) (index_keys interval t known)) b e.
