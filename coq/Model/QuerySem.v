(* Denotational semantics of STAMQL queries over the store model (C08, layer 2).
   What a query MEANS, written as scans over the live items of Model/Store.v - no reverse
   index, no id map, no iterator state is read here.  The evaluator of src/api/query.rs
   (init_state_*/update_state_*, ~2500 lines) is deliberately not transcribed: it is tied to
   this semantics by the correspondence run only (translation-validation style).

   A query selects items of one of six result types.  Its result is the list of the live
   items of that type, in store order, that satisfy every constraint (a conjunction), cut
   by LIMIT; a sub-query is evaluated once per outer item with the outer variable bound
   (nested iteration); an OPTIONAL sub-query without results leaves the outer item alone.

   The fragment (see [cvalid]): per result type the constraint forms that have a documented
   meaning for that type.  Ids are tokens as in Run/StoreRun.v; variables are numbers.
   The text of a resource is determined by its length (harness/src/storegen.rs text_of_len),
   so TEXT constraints are modelled exactly for the stores the correspondence builds.
   Executable definitions only. *)
From Coq Require Import List Arith Bool ZArith NArith.
Import ListNotations.
From Stam Require Import Model.Offset Model.Store Model.TempId Model.DataValue Model.Limit Spec.StoreSpec.
From Stam Require Model.Rel Model.Search Model.Forward.

(** * Abstract syntax *)

Inductive rtype := TAnn | TData | TKey | TRes | TSet | TText.

Inductive item :=
| IAnn (a : nat)
| IData (d x : nat)
| IKey (d k : nat)
| IRes (r : nat)
| ISet (d : nat)
| IText (r b e : nat).

(* an item named by public id, or a variable bound by an enclosing query *)
Inductive vref := RId (tok : nat) | RVar (v : nat).

(* the ten relation keywords of the RELATION constraint, with the modifiers of the constructors
   the parser calls (TextSelectionOperator::equals() ... after()) *)
Inductive relkw := KwEquals | KwEmbeds | KwEmbedded | KwOverlaps | KwPrecedes | KwSucceeds
                 | KwSameBegin | KwSameEnd | KwBefore | KwAfter.

Inductive cst :=
| CId (tok : nat)                                   (* ID x *)
| CAnn (y : vref) (meta : bool)                     (* ANNOTATION [AS TARGET] y *)
| CRes (r : vref) (meta : bool)                     (* RESOURCE [AS METADATA] r *)
| CSet (d : vref) (meta : bool)                     (* DATASET [AS METADATA] d *)
| CKey (d k : nat) (meta : bool)                    (* DATA [AS METADATA] set key *)
| CKeyVal (d k : nat) (o : dop) (meta : bool)       (* DATA [AS METADATA] set key op value *)
| CVal (o : dop)                                    (* VALUE op value *)
| CDataVar (v : nat) (meta : bool)                  (* DATA [AS METADATA] ?v *)
| CKeyVar (v : nat) (meta : bool)                   (* KEY [AS METADATA] ?v *)
| CTextVar (v : nat)                                (* TEXT ?v *)
| CRel (v : nat) (k : relkw)                        (* RELATION ?v KEYWORD *)
| CText (t : list N) (nocase : bool)                (* TEXT [AS NOCASE] "..." *)
| CUnion (l : list cst).                            (* [ c OR c ... ] *)

(* name, result type, constraints (a conjunction), LIMIT, OPTIONAL, at most one sub-query *)
Inductive query :=
| Q (name : nat) (rt : rtype) (cs : list cst) (lim : option (Z * Z)) (opt : bool) (sub : option query).

Definition q_name (q : query) := match q with Q n _ _ _ _ _ => n end.
Definition q_rt (q : query) := match q with Q _ t _ _ _ _ => t end.
Definition q_cs (q : query) := match q with Q _ _ c _ _ _ => c end.
Definition q_lim (q : query) := match q with Q _ _ _ l _ _ => l end.
Definition q_opt (q : query) := match q with Q _ _ _ _ o _ => o end.
Definition q_sub (q : query) := match q with Q _ _ _ _ _ s => s end.

Definition env := list (nat * item).
Fixpoint lookup (e : env) (v : nat) : option item :=
  match e with
  | [] => None
  | (n, it) :: e' => if Nat.eqb n v then Some it else lookup e' v
  end.

Definition item_eqb (x y : item) : bool :=
  match x, y with
  | IAnn a, IAnn a' => Nat.eqb a a'
  | IData d k, IData d' k' => Nat.eqb d d' && Nat.eqb k k'
  | IKey d k, IKey d' k' => Nat.eqb d d' && Nat.eqb k k'
  | IRes r, IRes r' => Nat.eqb r r'
  | ISet d, ISet d' => Nat.eqb d d'
  | IText r b e, IText r' b' e' => Nat.eqb r r' && Nat.eqb b b' && Nat.eqb e e'
  | _, _ => false
  end.

(** * The text of the harness' resources *)

(* The C08 harness gives a resource of n codepoints the text made of the first n characters of
   'a' 'é' ' ' '漢' 'B' '😀' 'c' 'É' 'b' repeated (lower and upper case, ASCII and not, 1-4 byte
   characters); the store model only knows the length. *)
Definition ALPHA : list N := [97; 233; 32; 28450; 66; 128512; 99; 201; 98]%N.
Definition char_at (i : nat) : N := nth (i mod 9) ALPHA 0%N.
Definition text_of (b e : nat) : list N := map char_at (seq b (e - b)).
Definition is_ws (c : N) : bool := N.eqb c 32.
Definition ws_of_len (n : nat) : list bool := map (fun i => is_ws (char_at i)) (seq 0 n).

(* char::to_lowercase on the characters that occur: ASCII letters and 'É' (the others have no case) *)
Definition lower_c (c : N) : N := if N.eqb c 201 then 233%N else lower c.
Definition lower_str (t : list N) : list N := map lower_c t.

(** * Looking items up by public id (scan) *)

Definition first_by {X} (l : list (option X)) (p : X -> bool) : option nat :=
  find (fun h => match slot l h with Some it => p it | None => false end) (seq 0 (length l)).

Definition ann_by_id (s : store) (tok : nat) : option nat :=
  first_by (anns s) (fun a => match a_id a with Some i => Nat.eqb i tok | None => false end).
Definition res_by_id (s : store) (tok : nat) : option nat :=
  first_by (ress s) (fun r => Nat.eqb (r_id r) tok).
Definition set_by_id (s : store) (tok : nat) : option nat :=
  first_by (sets s) (fun d => Nat.eqb (d_id d) tok).
Definition key_by_id (ds : dset) (tok : nat) : option nat :=
  first_by (d_keys ds) (fun t => Nat.eqb t tok).

(* (set handle, key handle) of DATA set key *)
Definition setkey_by_id (s : store) (d k : nat) : option (nat * nat) :=
  match set_by_id s d with
  | Some dh => match get_set s dh with
               | Some ds => match key_by_id ds k with Some kh => Some (dh, kh) | None => None end
               | None => None
               end
  | None => None
  end.

Definition datum (s : store) (d x : nat) : option adata :=
  match get_set s d with Some ds => slot (d_data ds) x | None => None end.

(** * Facts about one annotation *)

Definition key_of (s : store) (d x : nat) : option nat :=
  match datum s d x with Some it => Some (x_key it) | None => None end.

Definition ann_uses_key (s : store) (d k : nat) (a : ann) : bool :=
  existsb (fun dx => Nat.eqb (fst dx) d
                     && match key_of s (fst dx) (snd dx) with Some k' => Nat.eqb k' k | None => false end)
          (a_data a).
Definition ann_has_keyval (s : store) (d k : nat) (o : dop) (a : ann) : bool :=
  existsb (fun dx => Nat.eqb (fst dx) d
                     && match datum s (fst dx) (snd dx) with
                        | Some it => Nat.eqb (x_key it) k && value_test (x_val it) o
                        | None => false
                        end) (a_data a).
Definition ann_has_val (s : store) (o : dop) (a : ann) : bool :=
  existsb (fun dx => match datum s (fst dx) (snd dx) with
                     | Some it => value_test (x_val it) o
                     | None => false
                     end) (a_data a).

(* the text selections an annotation refers to: (resource, begin, end) per text leaf *)
Definition leaf_text (s : store) (lf : leaf) : list (nat * nat * nat) :=
  match lf with
  | LText r t _ | LAnnText _ r t _ =>
      match get_res s r with
      | Some rs => match nth_error (r_sels rs) t with Some rg => [(r, fst rg, snd rg)] | None => [] end
      | None => []
      end
  | _ => []
  end.

Definition rbe_ltb (x y : nat * nat * nat) : bool :=
  let '(r, b, e) := x in let '(r', b', e') := y in
  if r <? r' then true else if r' <? r then false
  else if b <? b' then true else if b' <? b then false else e <? e'.
Fixpoint ins_rbe (x : nat * nat * nat) (l : list (nat * nat * nat)) :=
  match l with
  | [] => [x]
  | y :: l' => if rbe_ltb y x then y :: ins_rbe x l' else x :: l
  end.
Definition sort_rbe (l : list (nat * nat * nat)) := fold_right ins_rbe [] l.

(* (resource, begin, end) triples by begin, end, resource *)
Definition ber_ltb (x y : nat * nat * nat) : bool :=
  let '(r, b, e) := x in let '(r', b', e') := y in
  if b <? b' then true else if b' <? b then false
  else if e <? e' then true else if e' <? e then false else r <? r'.
Fixpoint ins_ber (x : nat * nat * nat) (l : list (nat * nat * nat)) :=
  match l with
  | [] => [x]
  | y :: l' => if ber_ltb y x then y :: ins_ber x l' else x :: l
  end.
Definition sort_ber (l : list (nat * nat * nat)) := fold_right ins_ber [] l.

(* stored order: Multi/Composite selectors keep their text leaves in textual order per
   resource, Directional ones as given *)
Definition ann_texts (s : store) (a : ann) : list (nat * nat * nat) :=
  let l := flat_map (leaf_text s) (a_leaves a) in
  if Nat.eqb (a_kind a) 3 then l else sort_rbe l.

Definition rbe_eqb (x y : nat * nat * nat) : bool :=
  let '(r, b, e) := x in let '(r', b', e') := y in Nat.eqb r r' && Nat.eqb b b' && Nat.eqb e e'.
Definition ann_on_text (s : store) (t : nat * nat * nat) (a : ann) : bool :=
  existsb (rbe_eqb t) (ann_texts s a).

(* TextSelectionIterator::text_join(" "): the pieces with a space in front of each piece that
   follows something (a piece that follows only empty pieces gets none) *)
Fixpoint join_from (acc : list N) (l : list (list N)) : list N :=
  match l with
  | [] => acc
  | x :: l' => join_from (match acc with [] => x | _ => acc ++ 32%N :: x end) l'
  end.
Definition join_sp (l : list (list N)) : list N := join_from [] l.
Definition ann_text (s : store) (a : ann) : list N :=
  join_sp (map (fun t => text_of (snd (fst t)) (snd t)) (ann_texts s a)).

(** * Text relations (RELATION ?x KEYWORD) *)

Definition op_of_kw (k : relkw) : Rel.op :=
  match k with
  | KwEquals => Rel.mkop Rel.Equals false false None false
  | KwEmbeds => Rel.mkop Rel.Embeds false false None false
  | KwEmbedded => Rel.mkop Rel.Embedded false false None false
  | KwOverlaps => Rel.mkop Rel.Overlaps false false None false
  | KwPrecedes => Rel.mkop Rel.Precedes false false None true
  | KwSucceeds => Rel.mkop Rel.Succeeds false false None true
  | KwSameBegin => Rel.mkop Rel.SameBegin false false None false
  | KwSameEnd => Rel.mkop Rel.SameEnd false false None false
  | KwBefore => Rel.mkop Rel.Before false false None false
  | KwAfter => Rel.mkop Rel.After false false None false
  end.

(* does the relation hold between the reference selection (rb,re) and the candidate (b,e) of
   the same resource?  Equal ranges are the same text selection: only EQUALS relates a
   selection to itself *)
Definition rel_holds (len : nat) (k : relkw) (rb re b e : nat) : bool :=
  let same := Nat.eqb rb b && Nat.eqb re e in
  match k with
  | KwEquals => same
  | _ => negb same
         && Rel.test_pair (ws_of_len len) (op_of_kw k) (Rel.mkts None rb re) (Rel.mkts None b e)
  end.

Definition res_len (s : store) (r : nat) : nat :=
  match get_res s r with Some rs => r_len rs | None => 0 end.

(* the reference text selections a variable stands for: a TEXT variable is one selection, an
   ANNOTATION variable all the selections of the annotation (each taken by itself) *)
Definition var_texts (s : store) (e : env) (v : nat) : list (nat * nat * nat) :=
  match lookup e v with
  | Some (IText r b en) => [(r, b, en)]
  | Some (IAnn a) => match get_ann s a with Some an => ann_texts s an | None => [] end
  | _ => []
  end.

Definition text_related (s : store) (k : relkw) (refs : list (nat * nat * nat)) (t : nat * nat * nat) : bool :=
  let '(r, b, en) := t in
  existsb (fun rf => let '(rr, rb, re) := rf in
                     Nat.eqb rr r && rel_holds (res_len s r) k rb re b en) refs.

(** * Satisfaction of one constraint by one candidate item *)

Section Sat.
  Variable s : store.
  Variable e : env.

  Definition live_a (a : nat) : bool := match get_ann s a with Some _ => true | None => false end.

  Definition r_ann (y : vref) : option nat :=
    match y with
    | RId tok => ann_by_id s tok
    | RVar v => match lookup e v with Some (IAnn a) => if live_a a then Some a else None | _ => None end
    end.
  Definition r_res (y : vref) : option nat :=
    match y with
    | RId tok => res_by_id s tok
    | RVar v => match lookup e v with Some (IRes r) => Some r | _ => None end
    end.
  Definition r_set (y : vref) : option nat :=
    match y with
    | RId tok => set_by_id s tok
    | RVar v => match lookup e v with Some (ISet d) => Some d | _ => None end
    end.

  (* some live annotation with property P *)
  Definition some_ann (P : ann -> bool) : bool :=
    existsb (fun h => match get_ann s h with Some a => P a | None => false end)
            (seq 0 (length (anns s))).

  Definition sat_ann (c : cst) (a : nat) (an : ann) : bool :=
    match c with
    | CId tok => match a_id an with Some i => Nat.eqb i tok | None => false end
    | CAnn y false =>      (* y annotates the candidate *)
        match r_ann y with
        | Some yh => match get_ann s yh with Some ya => has_leaf (on_ann a) ya | None => false end
        | None => false
        end
    | CAnn y true =>       (* the candidate annotates y *)
        match r_ann y with Some yh => has_leaf (on_ann yh) an | None => false end
    | CRes r false => match r_res r with Some rh => has_leaf (on_res_text rh) an | None => false end
    | CRes r true => match r_res r with Some rh => has_leaf (on_res_meta rh) an | None => false end
    | CSet d false => match r_set d with Some dh => uses_set dh an | None => false end
    | CSet d true => match r_set d with Some dh => has_leaf (on_set dh) an | None => false end
    | CKey d k false => match setkey_by_id s d k with Some (dh, kh) => ann_uses_key s dh kh an | None => false end
    | CKeyVal d k o false =>
        match setkey_by_id s d k with Some (dh, kh) => ann_has_keyval s dh kh o an | None => false end
    | CVal o => ann_has_val s o an
    | CDataVar v false => match lookup e v with Some (IData d x) => uses_data d x an | _ => false end
    | CKeyVar v false => match lookup e v with Some (IKey d k) => ann_uses_key s d k an | _ => false end
    | CTextVar v => existsb (fun t => ann_on_text s t an) (var_texts s e v)
    | CRel v k => existsb (text_related s k (var_texts s e v)) (ann_texts s an)
    | CText t nocase =>
        match ann_texts s an with
        | [] => false
        | _ => if nocase then list_eqb N.eqb (lower_str (ann_text s an)) (lower_str t)
               else list_eqb N.eqb (ann_text s an) t
        end
    | _ => false
    end.

  Definition sat_data (c : cst) (d x : nat) (it : adata) : bool :=
    match c with
    | CSet dr false => match r_set dr with Some dh => Nat.eqb dh d | None => false end
    | CKey d' k false => match setkey_by_id s d' k with
                         | Some (dh, kh) => Nat.eqb dh d && Nat.eqb kh (x_key it)
                         | None => false
                         end
    | CKeyVal d' k o false => match setkey_by_id s d' k with
                              | Some (dh, kh) => Nat.eqb dh d && Nat.eqb kh (x_key it) && value_test (x_val it) o
                              | None => false
                              end
    | CVal o => value_test (x_val it) o
    | CAnn y false => match r_ann y with
                      | Some yh => match get_ann s yh with Some ya => uses_data d x ya | None => false end
                      | None => false
                      end
    | CAnn y true => match r_ann y with
                     | Some yh => match get_ann s yh with Some ya => has_leaf (on_data d x) ya | None => false end
                     | None => false
                     end
    | CKeyVar v false => match lookup e v with
                         | Some (IKey d' k) => Nat.eqb d' d && Nat.eqb k (x_key it)
                         | _ => false
                         end
    | CDataVar v false => match lookup e v with
                          | Some (IData d' x') => Nat.eqb d' d && Nat.eqb x' x
                          | _ => false
                          end
    | CTextVar v =>
        match lookup e v with
        | Some (IText r b en) => some_ann (fun a => ann_on_text s (r, b, en) a && uses_data d x a)
        | _ => false
        end
    | _ => false
    end.

  Definition sat_key (c : cst) (d k : nat) : bool :=
    match c with
    | CSet dr false => match r_set dr with Some dh => Nat.eqb dh d | None => false end
    | CAnn y false => match r_ann y with
                      | Some yh => match get_ann s yh with Some ya => ann_uses_key s d k ya | None => false end
                      | None => false
                      end
    | CAnn y true => match r_ann y with
                     | Some yh => match get_ann s yh with Some ya => has_leaf (on_key d k) ya | None => false end
                     | None => false
                     end
    | CDataVar v false => match lookup e v with
                          | Some (IData d' x) => Nat.eqb d' d
                                                 && match key_of s d' x with Some k' => Nat.eqb k' k | None => false end
                          | _ => false
                          end
    | CKeyVar v false => match lookup e v with
                         | Some (IKey d' k') => Nat.eqb d' d && Nat.eqb k' k
                         | _ => false
                         end
    | _ => false
    end.

  Definition sat_set (c : cst) (d : nat) (ds : dset) : bool :=
    match c with
    | CId tok => Nat.eqb (d_id ds) tok
    | CSet dr _ => match r_set dr with Some dh => Nat.eqb dh d | None => false end
    | CKeyVar v false => match lookup e v with Some (IKey d' _) => Nat.eqb d' d | _ => false end
    | CDataVar v false => match lookup e v with Some (IData d' _) => Nat.eqb d' d | _ => false end
    | _ => false
    end.

  (* annotations on the text of r (meta = false) or on r as a whole (meta = true) *)
  Definition on_res (meta : bool) (r : nat) (a : ann) : bool :=
    if meta then has_leaf (on_res_meta r) a else has_leaf (on_res_text r) a.

  Definition sat_res (c : cst) (r : nat) (rs : res) : bool :=
    match c with
    | CId tok => Nat.eqb (r_id rs) tok
    | CRes (RId tok) _ => Nat.eqb (r_id rs) tok
    | CKey d k meta =>
        match setkey_by_id s d k with
        | Some (dh, kh) => some_ann (fun a => on_res meta r a && ann_uses_key s dh kh a)
        | None => false
        end
    | CKeyVal d k o meta =>
        match setkey_by_id s d k with
        | Some (dh, kh) => some_ann (fun a => on_res meta r a && ann_has_keyval s dh kh o a)
        | None => false
        end
    | CDataVar v meta =>
        match lookup e v with
        | Some (IData d x) => some_ann (fun a => on_res meta r a && uses_data d x a)
        | _ => false
        end
    | CKeyVar v meta =>
        match lookup e v with
        | Some (IKey d k) => some_ann (fun a => on_res meta r a && ann_uses_key s d k a)
        | _ => false
        end
    | _ => false
    end.

  Definition sat_text (c : cst) (r b en : nat) : bool :=
    let t := (r, b, en) in
    match c with
    | CRes rr _ => match r_res rr with Some rh => Nat.eqb rh r | None => false end
    | CAnn y _ => match r_ann y with
                  | Some yh => match get_ann s yh with Some ya => ann_on_text s t ya | None => false end
                  | None => false
                  end
    | CKey d k _ =>
        match setkey_by_id s d k with
        | Some (dh, kh) => some_ann (fun a => ann_on_text s t a && ann_uses_key s dh kh a)
        | None => false
        end
    | CKeyVal d k o _ =>
        match setkey_by_id s d k with
        | Some (dh, kh) => some_ann (fun a => ann_on_text s t a && ann_has_keyval s dh kh o a)
        | None => false
        end
    | CVal o => some_ann (fun a => ann_on_text s t a && ann_has_val s o a)
    | CDataVar v false =>
        match lookup e v with
        | Some (IData d x) => some_ann (fun a => ann_on_text s t a && uses_data d x a)
        | _ => false
        end
    | CKeyVar v false =>
        match lookup e v with
        | Some (IKey d k) => some_ann (fun a => ann_on_text s t a && ann_uses_key s d k a)
        | _ => false
        end
    | CTextVar v => match lookup e v with Some (IText r' b' e') => rbe_eqb (r', b', e') t | _ => false end
    | CRel v k => text_related s k (var_texts s e v) t
    | CText tx nocase =>
        if nocase then list_eqb N.eqb (lower_str (text_of b en)) (lower_str tx)
        else list_eqb N.eqb (text_of b en) tx
    | _ => false
    end.

  Definition sat_base (c : cst) (it : item) : bool :=
    match it with
    | IAnn a => match get_ann s a with Some an => sat_ann c a an | None => false end
    | IData d x => match datum s d x with Some dt => sat_data c d x dt | None => false end
    | IKey d k => sat_key c d k
    | IRes r => match get_res s r with Some rs => sat_res c r rs | None => false end
    | ISet d => match get_set s d with Some ds => sat_set c d ds | None => false end
    | IText r b en => sat_text c r b en
    end.

  (* a union is satisfied by the items that satisfy one of its branches *)
  Fixpoint csat (c : cst) (it : item) {struct c} : bool :=
    match c with
    | CUnion l => existsb (fun c' => csat c' it) l
    | _ => sat_base c it
    end.

  Definition all_sat (cs : list cst) (it : item) : bool := forallb (fun c => csat c it) cs.
End Sat.

(** * The candidates: every live item of the result type, in store order *)

Definition sets_of (s : store) : list nat := live_handles (sets s).

Definition universe (s : store) (rt : rtype) : list item :=
  match rt with
  | TAnn => map IAnn (live_handles (anns s))
  | TRes => map IRes (live_handles (ress s))
  | TSet => map ISet (sets_of s)
  | TData => flat_map (fun d => match get_set s d with
                                | Some ds => map (IData d) (live_handles (d_data ds))
                                | None => []
                                end) (sets_of s)
  | TKey => flat_map (fun d => match get_set s d with
                               | Some ds => map (IKey d) (live_handles (d_keys ds))
                               | None => []
                               end) (sets_of s)
  | TText =>
      (* the text selections some live annotation refers to, each once, in textual order: by
         begin and end, selections with the same offsets by resource (textual_order()) *)
      let all := flat_map (fun h => match get_ann s h with Some a => ann_texts s a | None => [] end)
                          (seq 0 (length (anns s))) in
      map (fun t => IText (fst (fst t)) (snd (fst t)) (snd t))
          (fold_right (fun t acc => if existsb (rbe_eqb t) acc then acc else t :: acc) [] (sort_ber all))
  end.

(** * Queries *)

Definition apply_limit {X} (lim : option (Z * Z)) (l : list X) : list X :=
  match lim with Some (bg, en) => limit bg en l | None => l end.

(* the items one level selects *)
Definition level (s : store) (e : env) (rt : rtype) (cs : list cst) (lim : option (Z * Z)) : list item :=
  apply_limit lim (filter (all_sat s e cs) (universe s rt)).

Definition is_nil {X} (l : list X) : bool := match l with [] => true | _ => false end.
Definition is_none {X} (o : option X) : bool := match o with None => true | Some _ => false end.

(* rows: the outer item first.  A variable of an enclosing query is looked up outermost first
   (resolve_*var walks the state stack from the bottom), hence the binding goes to the end. *)
Fixpoint sem (s : store) (e : env) (q : query) {struct q} : list (list item) :=
  match q with
  | Q name rt cs lim _ sub =>
      let items := level s e rt cs lim in
      match sub with
      | None => map (fun it => [it]) items
      | Some sq =>
          flat_map (fun it =>
                      let inner := sem s (e ++ [(name, it)]) sq in
                      if q_opt sq && is_nil inner then [[it]] else map (cons it) inner) items
      end
  end.

(** * The fragment: which constraint forms have a meaning for which result type *)

Fixpoint cvalid (rt : rtype) (c : cst) {struct c} : bool :=
  match c with
  | CUnion l => negb (is_nil l) && forallb (cvalid rt) l
  | _ =>
      match rt, c with
      | TAnn, (CId _ | CAnn _ _ | CRes _ _ | CSet (RId _) _ | CSet (RVar _) false | CKey _ _ false | CKeyVal _ _ _ false | CVal _
              | CDataVar _ false | CKeyVar _ false | CTextVar _ | CRel _ _ | CText _ _) => true
      | TData, (CSet _ false | CKey _ _ false | CKeyVal _ _ _ false | CVal _ | CAnn _ _
               | CKeyVar _ false | CDataVar _ false | CTextVar _) => true
      | TKey, (CSet _ false | CAnn _ _ | CDataVar _ false | CKeyVar _ false) => true
      | TSet, (CId _ | CSet (RId _) _ | CSet (RVar _) false | CKeyVar _ false | CDataVar _ false) => true
      | TRes, (CId _ | CRes (RId _) _ | CKey _ _ _ | CKeyVal _ _ _ _ | CDataVar _ _ | CKeyVar _ _) => true
      | TText, (CRes _ _ | CAnn _ _ | CKey _ _ _ | CKeyVal _ _ _ _ | CVal _ | CDataVar _ false
               | CKeyVar _ false | CTextVar _ | CRel _ _ | CText _ _) => true
      | _, _ => false
      end
  end.

Fixpoint qvalid (q : query) : bool :=
  match q with
  | Q _ rt cs _ _ sub =>
      forallb (cvalid rt) cs && match sub with Some sq => qvalid sq | None => true end
  end.

(** * ADD and DELETE *)

(* the target an item denotes in a TARGET ?x assignment (query_mut) *)
Definition target_of (it : item) : sbuild :=
  match it with
  | IAnn a => BAnn (ByHandle a) None
  | IText r b e => BText (ByHandle r) (mkoff (CB b) (CB e))
  | IRes r => BRes (ByHandle r)
  | ISet d => BSet (ByHandle d)
  | IData d x => BData (ByHandle d) (ByHandle x)
  | IKey d k => BKey (ByHandle d) (ByHandle k)
  end.

(* ADD ANNOTATION WITH [ID id;] DATA set key value; ... TARGET ?x [OFFSET b e]; { sub }:
   one annotate per row of the sub-query, targeting the row's item named x *)
Record addq := mkadd { add_id : option nat; add_data : list (nat * nat * value); add_target : nat;
                       add_sub : query; add_off : option offset }.

(* the names a row binds, outermost first *)
Fixpoint names_of (q : query) : list nat :=
  match q with Q n _ _ _ _ sub => n :: match sub with Some sq => names_of sq | None => [] end end.

Definition row_item (names : list nat) (row : list item) (v : nat) : option item :=
  lookup (combine names row) v.

(* TARGET ?x OFFSET b e: on a text selection the offset is relative to it (resolved when the
   builders are made: None = it does not resolve), on an annotation it is handed to annotate();
   other items ignore it *)
Definition target_off (s : store) (it : item) (o : option offset) : option sbuild :=
  match it, o with
  | IText r b e, Some off =>
      match findtext_sel_ts (res_len s r) (b, e) off with
      | Ok (b', e') => Some (BText (ByHandle r) (mkoff (CB b') (CB e')))
      | Err => None
      end
  | IAnn a, Some off => Some (BAnn (ByHandle a) (Some off))
  | _, _ => Some (target_of it)
  end.

Definition add_builder (a : addq) (tg : sbuild) : abuild :=
  mkab (add_id a) (Some tg)
       (map (fun dkv => mkdb (ById (fst (fst dkv))) None (Some (ById (snd (fst dkv)))) (snd dkv)) (add_data a)).

(* annotate_from_iter: stops at the first failure *)
Fixpoint annotate_all (s : store) (l : list abuild) : store * out :=
  match l with
  | [] => (s, OOk 0)
  | b :: l' => match annotate s b with
               | (s', OOk _) => annotate_all s' l'
               | (s', r) => (s', r)
               end
  end.

(* rows whose target variable is not bound (an OPTIONAL level without result) or whose OFFSET does
   not resolve make the query fail before anything is added *)
Definition add_builders (s : store) (a : addq) (rows : list (list item)) : option (list abuild) :=
  let names := names_of (add_sub a) in
  fold_right (fun row acc =>
                match acc, row_item names row (add_target a) with
                | Some l, Some it => match target_off s it (add_off a) with
                                     | Some tg => Some (add_builder a tg :: l)
                                     | None => None
                                     end
                | _, _ => None
                end) (Some []) rows.

(* query_mut for ADD, given the rows its sub-query produced *)
Definition exec_add (s : store) (a : addq) (rows : list (list item)) : store * out :=
  match add_builders s a rows with
  | Some bs => annotate_all s bs
  | None => (s, OErr)
  end.

(* DELETE <type> ?x { sub }, <type> being the result type of the level that binds x: every row
   must bind x (else the query fails and nothing is removed), a text selection cannot be deleted
   (QuerySyntaxError, nothing removed); then every selected item that is still there is removed
   the way the direct call removes it (remove_annotation / remove_resource / remove_dataset /
   remove_data and remove_key in strict mode) - what an earlier removal took with it, or a row
   that names the same item again, is skipped *)
Definition delete_items (x : nat) (sub : query) (rows : list (list item)) : option (list item) :=
  let names := names_of sub in
  fold_right (fun row acc =>
                match acc, row_item names row x with
                | Some l, Some it => Some (it :: l)
                | _, _ => None
                end) (Some []) rows.

Definition item_live (s : store) (it : item) : bool :=
  match it with
  | IAnn a => match get_ann s a with Some _ => true | None => false end
  | IRes r => match get_res s r with Some _ => true | None => false end
  | ISet d => match get_set s d with Some _ => true | None => false end
  | IData d x => match datum s d x with Some _ => true | None => false end
  | IKey d k => match get_set s d with
                | Some ds => match slot (d_keys ds) k with Some _ => true | None => false end
                | None => false
                end
  | IText _ _ _ => false
  end.
Definition rm_op (it : item) : option op :=
  match it with
  | IAnn a => Some (RmAnn (ByHandle a))
  | IRes r => Some (RmRes (ByHandle r))
  | ISet d => Some (RmSet (ByHandle d))
  | IData d x => Some (RmData (ByHandle d) (ByHandle x) true)
  | IKey d k => Some (RmKey (ByHandle d) (ByHandle k) true)
  | IText _ _ _ => None
  end.
Definition rm_item (s : store) (it : item) : store :=
  if item_live s it then match rm_op it with Some o => fst (step s o) | None => s end else s.
Definition is_text_item (it : item) : bool := match it with IText _ _ _ => true | _ => false end.

Definition exec_delete (s : store) (x : nat) (sub : query) (rows : list (list item)) : store * out :=
  match delete_items x sub rows with
  | Some its => if existsb is_text_item its then (s, OErr)
                else (fold_left rm_item its s, OOk 0)
  | None => (s, OErr)
  end.

(** * The evaluator as far as it is modelled: dispatch tables, the two places where an
   implementation route has another meaning than the constraint, and the state machine of
   QueryIter (next / init_all_states / init_state / next_state / estimate_stacksize).

   The evaluator takes the first constraint of a level as the source of candidates
   (init_state_<type>) and applies the others as filters (update_state_<type>).  Not every form is
   implemented in both roles; a form in a role that lacks it is a QuerySyntaxError raised when
   the level is first reached, which ends the iteration silently (StateStackStatus::Invalid):
   the rows produced so far are all there is.  The table is read off the match arms. *)

Fixpoint supported (rt : rtype) (primary : bool) (c : cst) {struct c} : bool :=
  match c with
  | CUnion l => forallb (supported rt true) l       (* every branch goes through init_state_ *)
  | _ =>
      if primary then true
      else
        match rt, c with
        | TAnn, (CId _ | CSet (RId _) true | CSet (RVar _) _) => false
        | TAnn, _ => true
        | TData, (CKeyVal _ _ _ _ | CVal _ | CKeyVar _ _ | CAnn (RVar _) false) => true
        | TData, _ => false
        | TKey, _ => false
        | TSet, _ => false
        | TRes, (CKey _ _ _ | CKeyVar _ _ | CDataVar _ _ | CKeyVal _ _ _ true) => true
        | TRes, _ => false
        | TText, (CAnn _ _ | CTextVar _) => false
        | TText, _ => true
        end
  end.

Definition level_ok (rt : rtype) (cs : list cst) : bool :=
  match cs with
  | [] => true
  | c :: r => supported rt true c && forallb (supported rt false) r
  end.

Fixpoint all_levels_ok (q : query) : bool :=
  match q with
  | Q _ rt cs _ _ sub => level_ok rt cs && match sub with Some sq => all_levels_ok sq | None => true end
  end.

(* resolve_<type>var: the variable must be bound to an item of the type the constraint form
   expects (VariableNotFoundError otherwise; inside a UNION such a branch is skipped) *)
Definition var_ok (e : env) (c : cst) : bool :=
  let is k v := match lookup e v, k with
                | Some (IAnn _), 0 | Some (IData _ _), 1 | Some (IKey _ _), 2
                | Some (IRes _), 3 | Some (ISet _), 4 | Some (IText _ _ _), 5 => true
                | _, _ => false
                end in
  match c with
  | CAnn (RVar v) _ => is 0 v
  | CRes (RVar v) _ => is 3 v
  | CSet (RVar v) _ => is 4 v
  | CDataVar v _ => is 1 v
  | CKeyVar v _ => is 2 v
  | CTextVar v | CRel v _ => is 5 v || is 0 v
  | _ => true
  end.

(* does the form look its items up with or_fail() (NotFoundError when one is missing) in this
   role?  The others go through find_data(), which just finds nothing. *)
Definition fails_when_missing (rt : rtype) (primary : bool) (c : cst) : bool :=
  match c with
  | CId _ | CAnn (RId _) _ | CRes (RId _) _ | CSet (RId _) _ => true
  | CKey _ _ _ => match rt with TText => negb primary | _ => true end
  | CKeyVal _ _ _ _ => match rt with TAnn | TRes | TText => negb primary | _ => false end
  | _ => false
  end.
Definition missing (s : store) (rt : rtype) (c : cst) : bool :=
  match c with
  | CId tok => match rt with
               | TAnn => is_none (ann_by_id s tok)
               | TRes => is_none (res_by_id s tok)
               | _ => is_none (set_by_id s tok)
               end
  | CAnn (RId tok) _ => is_none (ann_by_id s tok)
  | CRes (RId tok) _ => is_none (res_by_id s tok)
  | CSet (RId tok) _ => is_none (set_by_id s tok)
  | CKey d k _ | CKeyVal d k _ _ => is_none (setkey_by_id s d k)
  | _ => false
  end.

(* what happens when the constraints of a level are turned into an iterator, in the order they
   are written: the first failure decides *)
Inductive levelres := LvOk | LvEmpty (* NotFoundError: nothing satisfies the level *) | LvInvalid.

Definition is_union (c : cst) : bool := match c with CUnion _ => true | _ => false end.

Fixpoint scan_level (s : store) (e : env) (rt : rtype) (primary : bool) (cs : list cst) : levelres :=
  match cs with
  | [] => LvOk
  | c :: r =>
      (* UNION is not implemented for TEXT queries, in neither role: QuerySyntaxError *)
      if match rt with TText => is_union c | _ => false end then LvInvalid
      else if negb (supported rt primary c) then LvInvalid
      else match c with
           | CUnion _ => scan_level s e rt false r     (* missing items and variables: the branch is skipped *)
           | _ => if negb (var_ok e c) then LvInvalid
                  else if fails_when_missing rt primary c && missing s rt c then LvEmpty
                  else scan_level s e rt false r
           end
  end.

(** ** Routes whose meaning differs from the constraint

   ResultItem<Annotation>::resources() / resources_as_metadata() / data_as_metadata() /
   keys_as_metadata() follow AnnotationSelectors recursively (target().iter(store, true)); the
   reverse indices list the direct targets only.  The evaluator uses the first for RESOURCE as a
   filter of ANNOTATION queries, for DATA/KEY constraints as the source of RESOURCE queries and for
   ANNOTATION AS METADATA as the source of DATA / KEY queries; the indices everywhere else. *)
(* The walk is C01's model of SelectorIter in recursive mode (Model/Forward.v: all_leaves;
   C01_target_walk_terminates: the fuel is enough in every reachable store, and the closure spec).
   Since 07da483 the iterator also follows the annotations that were merged into an internal
   RangedAnnotationSelector, so the walk no longer depends on the stored order of the selectors or
   on which neighbours have consecutive handles (before, this model reproduced that merging). *)
Definition reaches (s : store) (P : leaf -> bool) (a : ann) : bool :=
  existsb P (Forward.all_leaves s a).
Definition on_res_rec (s : store) (meta : bool) (r : nat) (a : ann) : bool :=
  reaches s (fun lf => match lf with
                       | LText r' _ _ => negb meta && Nat.eqb r' r
                       | LRes r' => meta && Nat.eqb r' r
                       | _ => false
                       end) a.

Definition sat_impl (s : store) (e : env) (primary : bool) (c : cst) (it : item) : bool :=
  match it, c with
  | IAnn a, CRes rr meta =>
      if primary then sat_base s e c it
      else match get_ann s a, r_res s e rr with
           | Some an, Some rh => on_res_rec s meta rh an
           | _, _ => false
           end
  | IAnn a, CText t nocase =>
      (* written first: find_text().annotations(), the annotations on an occurrence of the text *)
      if primary then
        match get_ann s a with
        | Some an => existsb (fun rbe => let tx := text_of (snd (fst rbe)) (snd rbe) in
                                        if nocase then list_eqb N.eqb (lower_str tx) (lower_str t)
                                        else list_eqb N.eqb tx t) (ann_texts s an)
        | None => false
        end
      else sat_base s e c it
  | IText r b en, CRel v k =>
      (* as a filter: filter_any(related_text(..).to_handles()) - only text selections the resource
         knows have a handle (an occurrence found by find_text may be none of them) *)
      if primary then sat_base s e c it
      else match get_res s r with
           | Some rs => existsb (fun rg => Nat.eqb (fst rg) b && Nat.eqb (snd rg) en) (r_sels rs) && sat_base s e c it
           | None => false
           end
  | IData d x, CAnn y true =>
      match r_ann s e y with
      | Some yh => match get_ann s yh with Some ya => reaches s (on_data d x) ya | None => false end
      | None => false
      end
  | IKey d k, CAnn y true =>
      match r_ann s e y with
      | Some yh => match get_ann s yh with Some ya => reaches s (on_key d k) ya | None => false end
      | None => false
      end
  | IRes r, CKey d k meta =>
      if primary then
        match setkey_by_id s d k with
        | Some (dh, kh) => some_ann s (fun a => on_res_rec s meta r a && ann_uses_key s dh kh a)
        | None => false
        end
      else sat_base s e c it
  | IRes r, CKeyVal d k o meta =>
      if primary then
        match setkey_by_id s d k with
        | Some (dh, kh) => some_ann s (fun a => on_res_rec s meta r a && ann_has_keyval s dh kh o a)
        | None => false
        end
      else sat_base s e c it
  | IRes r, CDataVar v meta =>
      if primary then
        match lookup e v with
        | Some (IData d x) => some_ann s (fun a => on_res_rec s meta r a && uses_data d x a)
        | _ => false
        end
      else sat_base s e c it
  | IRes r, CKeyVar v meta =>
      if primary then
        match lookup e v with
        | Some (IKey d k) => some_ann s (fun a => on_res_rec s meta r a && ann_uses_key s d k a)
        | _ => false
        end
      else sat_base s e c it
  | _, _ => sat_base s e c it
  end.

Fixpoint csat_impl (s : store) (e : env) (primary : bool) (c : cst) (it : item) {struct c} : bool :=
  match c with
  | CUnion l => existsb (fun c' => var_ok e c' && csat_impl s e true c' it) l
  | _ => sat_impl s e primary c it
  end.

(** ** The order in which the first constraint of a level delivers its candidates.  Store order
   (what every reverse index and scan gives) except for three sources:
   a UNION appends the results of its branches (Handles::union on an unsorted collection),
   ANNOTATION x delivers the annotations x targets in the stored order of x's selector, and
   for DATA queries the data of x in the order x holds them. *)
Definition dedup_first (l : list item) : list item :=
  fold_left (fun acc it => if existsb (item_eqb it) acc then acc else acc ++ [it]) l [].

(** ** A collection of items (their handles) kept from an earlier query and used again after the
   store has changed: as the constraint Annotations / Data / Keys / Resources of a query for that
   type, through Handles::items(), or as the argument of filter_any.  FromHandles skips the handles
   that no longer resolve (handles are not reused), so what comes back is the members still there. *)
Definition outer_items (rows : list (list item)) : list item :=
  dedup_first (flat_map (fun r => match r with it :: _ => [it] | [] => [] end) rows).
Definition survivors (s : store) (l : list item) : list item := filter (item_live s) l.
Definition coll_after (s : store) (rows : list (list item)) (victim : option item) : list item :=
  survivors (match victim with Some v => rm_item s v | None => s end) (outer_items rows).

(* stored order of a Multi/Composite selector: selectors with text by (resource, begin, end),
   whole annotations after them by handle (AnnotationStore::subselectors); Directional: as given *)
Fixpoint lex_ltb (a b : list nat) : bool :=
  match a, b with
  | [], [] => false
  | [], _ => true
  | _, [] => false
  | x :: a', y :: b' => if x <? y then true else if y <? x then false else lex_ltb a' b'
  end.
Fixpoint ins_key (x : list nat * nat) (l : list (list nat * nat)) : list (list nat * nat) :=
  match l with
  | [] => [x]
  | y :: l' => if lex_ltb (fst x) (fst y) then x :: l else y :: ins_key x l'
  end.
Definition stored_targets (s : store) (a : ann) : list nat :=
  let l := flat_map (fun lf => match lf with
                               | LAnnText a' r t _ =>
                                   match leaf_text s lf with
                                   | (_, b, e) :: _ => [([0; r; b; e], a')]
                                   | [] => [([0; r; 0; 0], a')]
                                   end
                               | LAnn a' => [([1; a'; 0; 0], a')]
                               | _ => []
                               end) (a_leaves a) in
  map snd (if Nat.eqb (a_kind a) 3 then l else fold_left (fun acc x => ins_key x acc) l []).

(* the known text selections of a resource, by begin position, then in the order they were made *)
Definition known_texts (s : store) (r : nat) : list item :=
  match get_res s r with
  | Some rs =>
      flat_map (fun p => flat_map (fun h => match nth_error (r_sels rs) h with
                                            | Some rg => if Nat.eqb (fst rg) p then [IText r (fst rg) (snd rg)] else []
                                            | None => []
                                            end) (seq 0 (length (r_sels rs))))
               (seq 0 (S (r_len rs)))
  | None => []
  end.
Definition occurrences (s : store) (r : nat) (t : list N) (nocase : bool) : list item :=
  match get_res s r with
  | Some rs =>
      let n := length t in
      flat_map (fun b => if (b + n <=? r_len rs)
                            && (if nocase then list_eqb N.eqb (lower_str (text_of b (b + n))) (lower_str t)
                                else list_eqb N.eqb (text_of b (b + n)) t)
                         then [IText r b (b + n)] else [])
               (seq 0 (S (r_len rs)))
  | None => []
  end.

Fixpoint src (s : store) (e : env) (rt : rtype) (c : cst) {struct c} : list item :=
  match c with
  | CUnion l =>
      dedup_first (flat_map (fun c' => if var_ok e c' && negb (fails_when_missing rt true c' && missing s rt c')
                                       then src s e rt c' else []) l)
  | _ =>
      match rt, c with
      | TAnn, CAnn y false =>
          match r_ann s e y with
          | Some yh => match get_ann s yh with
                       | Some ya => dedup_first (map IAnn (filter (live_a s) (stored_targets s ya)))
                       | None => []
                       end
          | None => []
          end
      | TData, CAnn y false =>
          match r_ann s e y with
          | Some yh => match get_ann s yh with
                       | Some ya => dedup_first (flat_map (fun dx => match datum s (fst dx) (snd dx) with
                                                                     | Some _ => [IData (fst dx) (snd dx)]
                                                                     | None => []
                                                                     end) (a_data ya))
                       | None => []
                       end
          | None => []
          end
      | TText, CAnn y _ =>
          match r_ann s e y with
          | Some yh => match get_ann s yh with
                       | Some ya => dedup_first (map (fun t => IText (fst (fst t)) (snd (fst t)) (snd t)) (ann_texts s ya))
                       | None => []
                       end
          | None => []
          end
      | TText, CRes rr _ =>
          (* TextResource::textselections(): every known selection of the resource, also those
             no annotation refers to any more *)
          match r_res s e rr with
          | Some r => known_texts s r
          | None => []
          end
      | TText, CRel v k =>
          (* related_text(): the known selections of the resource that stand in the relation *)
          dedup_first (flat_map (fun rf => filter (fun it => match it with
                                                              | IText r b en => text_related s k [rf] (r, b, en)
                                                              | _ => false
                                                              end) (known_texts s (fst (fst rf))))
                                (var_texts s e v))
      | TText, CText t nocase =>
          (* find_text(): every occurrence in every resource, annotated or not *)
          flat_map (fun r => occurrences s r t nocase) (live_handles (ress s))
      | TText, CTextVar v => match lookup e v with Some (IText r b en) => [IText r b en] | _ => [] end
      | _, _ => filter (sat_impl s e true c) (universe s rt)
      end
  end.

Definition level_impl (s : store) (e : env) (rt : rtype) (cs : list cst) (lim : option (Z * Z)) : list item :=
  apply_limit lim
    (match cs with
     | [] => universe s rt
     | c :: r => filter (fun it => forallb (fun c' => csat_impl s e false c' it) r) (src s e rt c)
     end).

(* the iterator API: every constraint is a filter *)
Fixpoint csat_chain (s : store) (e : env) (c : cst) (it : item) {struct c} : bool :=
  match c with
  | CUnion l => existsb (fun c' => csat_chain s e c' it) l
  | _ => match it with IAnn _ => sat_impl s e false c it | _ => sat_base s e c it end
  end.

(** ** The state machine of QueryIter.  Every level has at most one sub-query, so a query path
   is determined by its length.  Frames: the remaining items of the level's iterator, the
   current result, the done flag.  The stack is kept innermost frame first. *)
Record frame := mkfr { f_iter : list item; f_res : option item; f_done : bool }.
Record mach := mkm { m_stack : list frame (* innermost first *); m_path : nat }.
Inductive status := SNew | SIgnore | SAllDone | SInvalid | SPanic.

Fixpoint level_q (q : query) (n : nat) {struct n} : option query :=
  match n with
  | 0 => Some q
  | S n' => match q_sub q with Some sq => level_q sq n' | None => None end
  end.

Section Machine.
  Variable s : store.
  Variable root : query.

  (* resolve_*var: the states of the stack (outermost first), named by the prefixes of the query path *)
  Definition env_of (st : list frame) : env :=
    flat_map (fun p => match level_q root (fst p), f_res (snd p) with
                       | Some q, Some it => [(q_name q, it)]
                       | _, _ => []
                       end) (combine (seq 0 (length st)) st).

  Definition mark_done (st : list frame) : list frame :=
    match st with
    | [] => []
    | t :: r => mkfr (f_iter t) (f_res t) true :: r
    end.
  Definition top_done (st : list frame) : bool :=
    match st with [] => false | t :: _ => f_done t end.

  (* next_state: the loop pops one state per round *)
  Fixpoint next_state (st : list frame) (path : nat) {struct st} : mach * status :=
    match st with
    | [] => (mkm [] path, SAllDone)
    | top :: below =>
        if f_done top then next_state below path                  (* the path is not popped *)
        else
          match path with
          | 0 => (mkm st path, SPanic)                             (* get_query(&[]).expect("query must exist") *)
          | S p =>
              match level_q root p with
              | None => (mkm st path, SPanic)
              | Some cur =>
                  match f_iter top with
                  | x :: r => (mkm (mkfr r (Some x) false :: below) (S p), SNew)
                  | [] =>
                      if Nat.eqb p 0 then next_state below p
                      else if q_opt cur && is_none (f_res top)
                           then (mkm (mark_done below) p, SIgnore)
                           else next_state below p
                  end
              end
          end
    end.

  (* the path was extended by the caller *)
  Definition init_state (m : mach) : mach * status :=
    match m_path m with
    | 0 => (m, SPanic)
    | S p =>
        match level_q root p with
        | None => (m, SPanic)
        | Some q =>
            let e := env_of (rev (m_stack m)) in
            match scan_level s e (q_rt q) true (q_cs q) with
            | LvInvalid => (m, SInvalid)
            | LvEmpty => next_state (mkfr [] None false :: m_stack m) (m_path m)
            | LvOk => next_state (mkfr (level_impl s e (q_rt q) (q_cs q) (q_lim q)) None false :: m_stack m) (m_path m)
            end
        end
    end.

  Definition estimate (m : mach) : option nat :=
    match m_path m with
    | 0 => Some 1
    | S p => match level_q root p with
             | Some q => Some (if is_none (q_sub q) then 1 else S (S p))
             | None => None
             end
    end.

  (* one call walks over every outer result whose sub-query is empty: the budget is the caller's *)
  Fixpoint init_all (fuel : nat) (m : mach) : mach * status :=
    match fuel with
    | 0 => (m, SPanic)
    | S f =>
        match estimate m with
        | None => (m, SPanic)
        | Some mn =>
            if length (m_stack m) <? mn then
              if top_done (m_stack m) then (m, SIgnore)
              else match init_state (mkm (m_stack m) (S (m_path m))) with
                   | (m2, SNew) => init_all f m2
                   | r => r
                   end
            else (m, SNew)
        end
    end.

  Definition row_of (st : list frame) : list item :=
    flat_map (fun fr => match f_res fr with Some it => [it] | None => [] end) (rev st).

  (* Iterator::next until None; None = a panic (or the budget of this model ran out) *)
  Fixpoint iterate (fuel : nat) (m : mach) (acc : list (list item)) : option (list (list item)) :=
    match fuel with
    | 0 => None
    | S f =>
        match init_all (S (S fuel)) m with
        | (_, SPanic) => None
        | (_, SAllDone) | (_, SInvalid) => Some acc
        | (m1, _) =>
            let row := row_of (m_stack m1) in
            match next_state (m_stack m1) (m_path m1) with
            | (_, SPanic) => None
            | (_, SAllDone) => Some (acc ++ [row])
            | (m2, _) => iterate f m2 (acc ++ [row])
            end
        end
    end.
End Machine.

(* no level delivers more candidates than this *)
Definition level_bound (s : store) (rt : rtype) : nat :=
  match rt with
  | TText => S (length (universe s TText))
             + fold_right (fun r acc => match get_res s r with
                                        | Some rs => S (r_len rs) + length (r_sels rs) + acc
                                        | None => acc
                                        end) 0 (seq 0 (length (ress s)))
  | _ => S (length (universe s rt))
  end.
Fixpoint row_bound (s : store) (q : query) : nat :=
  match q with
  | Q _ rt _ _ _ sub =>
      level_bound s rt * match sub with Some sq => row_bound s sq | None => 1 end
  end.

Definition run_machine (s : store) (q : query) : option (list (list item)) :=
  iterate s q (S (S (row_bound s q))) (mkm [] 0) [].

(** ** Known-finding classes of SELECT queries (0 = none) *)

(* some OPTIONAL sub-query comes back empty for an outer row that is reached *)
Fixpoint optional_empty (s : store) (e : env) (q : query) {struct q} : bool :=
  match q with
  | Q name rt cs lim _ sub =>
      match sub with
      | None => false
      | Some sq =>
          existsb (fun it =>
                     (q_opt sq && is_nil (sem s (e ++ [(name, it)]) sq))
                     || optional_empty s (e ++ [(name, it)]) sq)
                  (level s e rt cs lim)
      end
  end.

(* a constraint in a role where the route through the annotation selectors is taken *)
Definition indirect_cst (rt : rtype) (primary : bool) (c : cst) : bool :=
  match rt, c with
  | TAnn, CRes _ _ => negb primary
  | (TData | TKey), CAnn _ true => true
  | (TData | TKey), CUnion l => existsb (fun c' => match c' with CAnn _ true => true | _ => false end) l
  | TRes, (CKey _ _ _ | CKeyVal _ _ _ _ | CDataVar _ _ | CKeyVar _ _) => primary
  | TRes, CUnion l => existsb (fun c' => match c' with CKey _ _ _ | CKeyVal _ _ _ _ | CDataVar _ _ | CKeyVar _ _ => true | _ => false end) l
  | _, _ => false
  end.
Fixpoint indirect_q (q : query) : bool :=
  match q with
  | Q _ rt cs _ _ sub =>
      match cs with
      | [] => false
      | c :: r => indirect_cst rt true c || existsb (indirect_cst rt false) r
      end
      || match sub with Some sq => indirect_q sq | None => false end
  end.
(* annotations on annotations exist *)
Definition has_higher_order (s : store) : bool :=
  some_ann s (has_leaf (fun lf => match lf with LAnn _ | LAnnText _ _ _ _ => true | _ => false end)).

(* a LIMIT on a level whose candidates do not come in store order *)
Definition noncanon (rt : rtype) (cs : list cst) : bool :=
  match cs with
  | CUnion _ :: _ => true
  | CAnn _ false :: _ => match rt with TAnn | TData | TText => true | _ => false end
  | (CAnn _ true | CRes _ _ | CRel _ _ | CText _ _ | CTextVar _) :: _ => match rt with TText => true | _ => false end
  | _ => false
  end.
Fixpoint limit_order (q : query) : bool :=
  match q with
  | Q _ rt cs lim _ sub =>
      (negb (is_none lim) && noncanon rt cs) || match sub with Some sq => limit_order sq | None => false end
  end.

(* TEXT queries whose first constraint delivers text selections no annotation refers to *)
Definition has_orphan_text (s : store) : bool :=
  existsb (fun r => existsb (fun it => negb (existsb (item_eqb it) (universe s TText))) (known_texts s r))
          (live_handles (ress s)).
Fixpoint text_source (q : query) (f : cst -> bool) : bool :=
  match q with
  | Q _ rt cs _ _ sub =>
      match rt, cs with
      | TText, c :: _ => f c
      | _, _ => false
      end || match sub with Some sq => text_source sq f | None => false end
  end.

(* an ANNOTATION level whose first constraint (or one of the branches of a UNION) is TEXT "..." *)
Fixpoint text_first (q : query) : bool :=
  match q with
  | Q _ rt cs _ _ sub =>
      match rt with
      | TAnn => match cs with
                | CText _ _ :: _ => true
                | _ => existsb (fun c => match c with
                                         | CUnion l => existsb (fun c' => match c' with CText _ _ => true | _ => false end) l
                                         | _ => false
                                         end) cs
                end
      | _ => false
      end || match sub with Some sq => text_first sq | None => false end
  end.

Fixpoint text_union (q : query) : bool :=
  match q with
  | Q _ rt cs _ _ sub =>
      match rt with TText => existsb is_union cs | _ => false end
      || match sub with Some sq => text_union sq | None => false end
  end.

(* some level whose candidates do not come in store order: the rows of an ADD come in that order *)
Fixpoint any_noncanon (q : query) : bool :=
  match q with
  | Q _ rt cs _ _ sub => noncanon rt cs || match sub with Some sq => any_noncanon sq | None => false end
  end.

Definition known_class (s : store) (q : query) : nat :=
  if text_union q then 10
  else if negb (all_levels_ok q) then 2
  else if text_source q (fun c => match c with CText _ _ => true | _ => false end) then 8
  else if text_first q then 9
  else if text_source q (fun c => match c with CRes _ _ | CRel _ _ => true | _ => false end) && has_orphan_text s then 7
  else if optional_empty s [] q then 4
  else if indirect_q q && has_higher_order s then 3
  else if limit_order q then 5
  else 0.

Definition eval_text (s : store) (q : query) : option (list (list item)) := run_machine s q.
Definition eval_prog (s : store) (q : query) : option (list (list item)) := run_machine s q.

(* the chain of filters of the iterator API (queries without sub-query and variables) *)
Definition eval_chain (s : store) (q : query) : list (list item) :=
  map (fun it => [it])
      (apply_limit (q_lim q) (filter (fun it => forallb (fun c => csat_chain s [] c it) (q_cs q)) (universe s (q_rt q)))).
Definition known_chain (s : store) (q : query) : nat :=
  match q_rt q with
  | TAnn => if existsb (fun c => match c with CRes _ _ | CUnion _ => true | _ => false end) (q_cs q) && has_higher_order s
            then 3 else 0
  | _ => 0
  end.
