(* add_dataset with data items (AnnotationDataSetBuilder::build + StoreFor::insert): the set is
   built aside from the builder's data items and inserted only when all of them succeeded. *)
From Coq Require Import List Arith Bool ZArith.
Import ListNotations.
From Stam Require Import Model.Offset Model.Store.

Fixpoint build_items (d : dset) (items : list dbuild) : option dset :=
  match items with
  | [] => Some d
  | b :: items' =>
      match dset_insert_data d (db_id b) (db_key b) (db_val b) with
      | (d', OOk _) => build_items d' items'
      | (_, _) => None
      end
  end.

Definition okey_eqb (a b : option nat) : bool :=
  match a, b with Some x, Some y => Nat.eqb x y | None, None => true | _, _ => false end.
(* AnnotationData::eq needs an id on the left-hand side *)
Definition odata_eqb (a b : option adata) : bool :=
  match a, b with
  | Some x, Some y => match x_id x, x_id y with
                      | Some i, Some j => Nat.eqb i j && Nat.eqb (x_key x) (x_key y) && value_eqb (x_val x) (x_val y)
                      | _, _ => false
                      end
  | None, None => true
  | _, _ => false
  end.
Definition dset_eqb (a b : dset) : bool :=
  Nat.eqb (d_id a) (d_id b) && list_eqb okey_eqb (d_keys a) (d_keys b) && list_eqb odata_eqb (d_data a) (d_data b).

Definition add_set_with (s : store) (id : nat) (items : list dbuild) : store * out :=
  match build_items (mkset id [] [] [] [] []) items with
  | None => (s, OErr)
  | Some d =>
      match id_get (sidx s) id with
      | Some h =>
          match get_set s h with
          | Some ex => if dset_eqb ex d then (s, OOk h) else (s, OErr)
          | None => (s, OPanic)
          end
      | None =>
          let h := length (sets s) in
          (set_sidx (set_sets s (sets s ++ [Some d])) (id_put (sidx s) id h), OOk h)
      end
  end.

(* annotate_from_iter (and an ADD query, annotate_from_file): stops at the first error; the third
   component counts the elements done before it *)
Fixpoint annotate_batch (s : store) (l : list abuild) : store * out * nat :=
  match l with
  | [] => (s, OOk 0, 0)
  | b :: l' =>
      match annotate s b with
      | (s1, OOk _) => let '(s2, r, n) := annotate_batch s1 l' in (s2, r, S n)
      | (s1, r) => (s1, r, 0)
      end
  end.

