(* A first-match table of the arms of FindTextSelectionsIter::init_textseliters
   (src/textselection.rs): which slice of the position index the related-text search walks, and in
   which direction, per operator.  The table (Gen/RangeTable.v) is regenerated from the source on
   every run by tools/translate_range.py; Proofs/AgreeRange.v proves that it denotes
   Model/Search.search_range, the function the key obligation of C06 (C06_range_covers) is about. *)
From Coq Require Import List Arith Bool.
Import ListNotations.
From Stam Require Import Model.Rel Model.RelArms Model.Search.

Inductive rexp :=
| RRb | RRe | RLen            (* refbegin, refend, textlen *)
| RLim                        (* limit, bound by `if let Some(limit) = limit` or the pattern *)
| RWs                         (* WHITESPACE_LIMIT *)
| RVar                        (* the local bound by `let x = ..;` *)
| RLit (n : nat)
| RAdd (a b : rexp)
| RSatSub (a b : rexp)        (* a.saturating_sub(b) *)
| RDiv (a : rexp) (n : nat)   (* a / n, n a literal *)
| RIfLim (a b : rexp)         (* if let Some(limit) = limit { a } else { b } *)
| RIfWs (a b : rexp).         (* if allow_whitespace { a } else { b } *)

Inductive rbody :=
| RRange (lo hi : rexp) (forward : bool)   (* self.textseliters.push((self.resource.range(lo, hi), forward)) *)
| RAll                                     (* self.textseliters.push((self.resource.iter(), true)) *)
| RLet (v : rexp) (b : rbody)              (* let x = v; b *)
| RIfLe (a c : rexp) (t e : rbody).        (* if a <= c { t } else { e } *)

(* a pattern: an operator (p_any = false) or the wildcard `_` *)
Record rpat := mkrp { rp_any : bool; rp_pat : ppat }.
Record rarm := mkrarm { ra_pats : list rpat; ra_body : rbody }.

Definition rpat_matches (p : rpat) (o : op) : bool := rp_any p || pat_matches (rp_pat p) o.

Fixpoint find_rarm (arms : list rarm) (o : op) : option rbody :=
  match arms with
  | [] => None
  | a :: arms' => if existsb (fun p => rpat_matches p o) (ra_pats a) then Some (ra_body a) else find_rarm arms' o
  end.

Section Eval.
  Variables (o : op) (rb re len : nat).

  Fixpoint eval_r (var : nat) (e : rexp) : nat :=
    match e with
    | RRb => rb | RRe => re | RLen => len
    | RLim => match olim o with Some l => l | None => 0 end
    | RWs => WHITESPACE_LIMIT
    | RVar => var
    | RLit n => n
    | RAdd a b => eval_r var a + eval_r var b
    | RSatSub a b => eval_r var a - eval_r var b
    | RDiv a n => eval_r var a / n
    | RIfLim a b => match olim o with Some _ => eval_r var a | None => eval_r var b end
    | RIfWs a b => if ows o then eval_r var a else eval_r var b
    end.

  Fixpoint eval_rbody (var : nat) (b : rbody) : nat * nat * dir :=
    match b with
    | RRange lo hi fwd => (eval_r var lo, eval_r var hi, if fwd then Fwd else Bwd)
    | RAll => (0, len + 1, Fwd)   (* resource.iter(): every position 0..=textlen *)
    | RLet v b' => eval_rbody (eval_r var v) b'
    | RIfLe a c t e => if eval_r var a <=? eval_r var c then eval_rbody var t else eval_rbody var e
    end.
End Eval.

(* the whole function: the negation shortcut of its prologue, then the first matching arm *)
Definition interp_range (arms : list rarm) (o : op) (rb re len : nat) : option (nat * nat * dir) :=
  if oneg o then Some (0, len + 1, Fwd)
  else match find_rarm arms o with
       | Some b => Some (eval_rbody o rb re len 0 b)
       | None => None
       end.
