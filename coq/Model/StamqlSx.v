(* Encoding of STAMQL syntax trees as generic s-expressions (Base/Sx.v), shared by
   Run/C09.v and the harness (harness/src/c09.rs uses the same layout), and the
   decoder for programmatically built queries.  Integers that may exceed 2^62
   (isize / usize operands) are written as (sign hi lo) with 32-bit halves. *)
From Coq Require Import List ZArith NArith Bool Arith.
Import ListNotations.
From Stam Require Import Base.Sx Model.StamqlLex Model.Stamql.
Local Open Scope Z_scope.

Definition e_str (s : str) : sx := L (map of_N s).
Definition two32 : Z := 4294967296.
Definition e_big (z : Z) : sx :=
  let a := Z.abs z in L [A (if z <? 0 then 1 else 0); A (a / two32); A (a mod two32)].
Definition e_bool (b : bool) : sx := A (if b then 1 else 0).
Definition e_qual (q : qual) : sx := A (match q with QNormal => 0 | QMetadata => 1 end).
Definition e_depth (d : depth) : sx := A (match d with DZero => 0 | DOne => 1 | DMax => 2 end).
Definition e_cursor (c : cursor) : sx :=
  match c with CB n => L [A 0; e_big n] | CE z => L [A 1; e_big z] end.
Definition e_offset (o : option offset) : sx :=
  match o with None => L [] | Some (b, e) => L [e_cursor b; e_cursor e] end.
Definition e_ostr (o : option str) : sx :=
  match o with None => L [] | Some s => L [e_str s] end.

(* DataOperator *)
Definition e_leaf (l : leaf) : sx :=
  match l with
  | LStr s => L [A 4; e_str s]
  | LInt z => L [A 5; e_big z]
  | LFlt _ => L [A 6]
  end.
Definition cmp_tag (c : cmp) : Z := match c with Gt => 7 | Ge => 8 | Lt => 9 | Le => 10 end.
Definition cmp_idx (c : cmp) : Z := match c with Gt => 0 | Ge => 1 | Lt => 2 | Le => 3 end.
Definition dcmp_idx (c : dcmp) : Z :=
  match c with DtEq => 0 | DtGt => 1 | DtGe => 2 | DtLt => 3 | DtLe => 4 end.
Definition e_base (b : base) : sx :=
  match b with
  | BNull => L [A 0] | BAny => L [A 1] | BTrue => L [A 2] | BFalse => L [A 3]
  | BLeaf l => e_leaf l
  | BCmp c z => L [A (cmp_tag c); e_big z]
  | BCmpF c _ => L [A 11; A (cmp_idx c)]
  | BDt c d => L [A 12; A (dcmp_idx c); e_str d]
  | BOr l => L [A 14; L (map e_leaf l)]
  end.
Definition e_dataop (o : dataop) : sx :=
  match o with Pos b => e_base b | Neg b => L [A 13; e_base b] end.

Definition relkind_idx (k : relkind) : Z :=
  match k with
  | REquals => 0 | ROverlaps => 1 | REmbeds => 2 | REmbedded => 3 | RBefore => 4 | RAfter => 5
  | RPrecedes => 6 | RSucceeds => 7 | RSameBegin => 8 | RSameEnd => 9 | RSameRange => 10 | RInSet => 11
  end.

Fixpoint e_constr (c : constr) : sx :=
  match c with
  | CId id => L [A 0; e_str id]
  | CAnnotation id q d o => L [A 1; e_str id; e_qual q; e_depth d; e_offset o]
  | CResource id q o => L [A 2; e_str id; e_qual q; e_offset o]
  | CDataSet id q => L [A 3; e_str id; e_qual q]
  | CDataKey set key q => L [A 4; e_str set; e_str key; e_qual q]
  | CSubStore o => L [A 5; e_ostr o]
  | CKeyVar v q => L [A 6; e_str v; e_qual q]
  | CDataVar v q => L [A 7; e_str v; e_qual q]
  | CDataSetVar v q => L [A 8; e_str v; e_qual q]
  | CResourceVar v q o => L [A 9; e_str v; e_qual q; e_offset o]
  | CTextVar v => L [A 10; e_str v]
  | CSubStoreVar v => L [A 11; e_str v]
  | CTextRel v k dflt => L [A 12; e_str v; A (relkind_idx k); e_bool dflt]
  | CKeyValue set key op q => L [A 13; e_str set; e_str key; e_dataop op; e_qual q]
  | CValue op q => L [A 14; e_dataop op; e_qual q]
  | CKeyValueVar v op q => L [A 15; e_str v; e_dataop op; e_qual q]
  | CText t nocase => L [A 16; e_str t; e_bool nocase]
  | CRegex re => L [A 17; e_str re]
  | CUnion l => L [A 18; L (map e_constr l)]
  | CAnnotationVar v q d o => L [A 19; e_str v; e_qual q; e_depth d; e_offset o]
  | CLimit b e => L [A 20; e_big b; e_big e]
  end.

Definition e_dvalue (v : dvalue) : sx :=
  match v with
  | VNull => L [A 0] | VBool b => L [A 1; e_bool b] | VString s => L [A 2; e_str s] | VInt z => L [A 3; e_big z]
  end.
Definition e_assign (a : assign) : sx :=
  match a with
  | AId id => L [A 0; e_str id]
  | ATarget n o => L [A 1; e_str n; e_offset o]
  | AComplex k => L [A 2; A (match k with KComposite => 0 | KMulti => 1 | KDirectional => 2 end)]
  | AData set key v => L [A 3; e_str set; e_str key; e_dvalue v]
  end.
Definition e_qtype (t : qtype) : sx := A (match t with QSelect => 0 | QDelete => 1 | QAdd => 2 end).
Definition e_rtype (t : option rtype) : sx :=
  A (match t with
     | None => -1
     | Some RAnnotation => 0 | Some RData => 1 | Some RKey => 2 | Some RText => 3
     | Some RResource => 4 | Some RDataSet => 5
     end).

Fixpoint e_query (q : query) : sx :=
  match q with
  | Q name qt optional rt asg cs cas subs attrs =>
      L [e_ostr name; e_qtype qt; e_bool optional; e_rtype rt; L (map e_assign asg);
         L (map e_constr cs); L (map (fun l => L (map e_str l)) cas);
         L (map e_query subs); L (map e_str attrs)]
  end.

(* ---------- decoding (programmatically built queries) ---------- *)
Definition d_str (x : sx) : str := map sx_N (sx_list x).
Definition d_big (x : sx) : Z :=
  let v := sx_Z (sx_nth 1 x) * two32 + sx_Z (sx_nth 2 x) in
  if sx_Z (sx_nth 0 x) =? 0 then v else - v.
Definition d_qual (x : sx) : qual := if sx_Z x =? 0 then QNormal else QMetadata.
Definition d_depth (x : sx) : depth := if sx_Z x =? 0 then DZero else if sx_Z x =? 1 then DOne else DMax.
Definition d_cursor (x : sx) : cursor :=
  if sx_Z (sx_nth 0 x) =? 0 then CB (d_big (sx_nth 1 x)) else CE (d_big (sx_nth 1 x)).
Definition d_offset (x : sx) : option offset :=
  match sx_list x with
  | [b; e] => Some (d_cursor b, d_cursor e)
  | _ => None
  end.
Definition d_ostr (x : sx) : option str :=
  match sx_list x with [s] => Some (d_str s) | _ => None end.
(* floats of programmatic queries: (6 neg ip (frac digits)) *)
Definition d_flt (x : sx) : flt :=
  match sx_list x with
  | [_; n; ip; fr] => FDec (sx_bool n) (sx_Z ip) (map sx_N (sx_list fr))
  | _ => FOpaque
  end.
Definition d_leaf (x : sx) : leaf :=
  let t := sx_Z (sx_nth 0 x) in
  if t =? 4 then LStr (d_str (sx_nth 1 x))
  else if t =? 5 then LInt (d_big (sx_nth 1 x))
  else LFlt (d_flt x).
Definition d_cmp (t : Z) : cmp := if t =? 7 then Gt else if t =? 8 then Ge else if t =? 9 then Lt else Le.
Definition d_cmp_idx (t : Z) : cmp := if t =? 0 then Gt else if t =? 1 then Ge else if t =? 2 then Lt else Le.
Definition d_dcmp (t : Z) : dcmp :=
  if t =? 0 then DtEq else if t =? 1 then DtGt else if t =? 2 then DtGe else if t =? 3 then DtLt else DtLe.
Definition d_base (x : sx) : base :=
  let t := sx_Z (sx_nth 0 x) in
  if t =? 0 then BNull else if t =? 1 then BAny else if t =? 2 then BTrue else if t =? 3 then BFalse
  else if t <=? 6 then BLeaf (d_leaf x)
  else if t <=? 10 then BCmp (d_cmp t) (d_big (sx_nth 1 x))
  else if t =? 11 then BCmpF (d_cmp_idx (sx_Z (sx_nth 1 x))) (d_flt (sx_nth 2 x))
  else if t =? 12 then BDt (d_dcmp (sx_Z (sx_nth 1 x))) (d_str (sx_nth 2 x))
  else BOr (map d_leaf (sx_list (sx_nth 1 x))).
Definition d_dataop (x : sx) : dataop :=
  if sx_Z (sx_nth 0 x) =? 13 then Neg (d_base (sx_nth 1 x)) else Pos (d_base x).
Definition d_relkind (t : Z) : relkind :=
  if t =? 0 then REquals else if t =? 1 then ROverlaps else if t =? 2 then REmbeds
  else if t =? 3 then REmbedded else if t =? 4 then RBefore else if t =? 5 then RAfter
  else if t =? 6 then RPrecedes else if t =? 7 then RSucceeds else if t =? 8 then RSameBegin
  else if t =? 9 then RSameEnd else if t =? 10 then RSameRange else RInSet.

Fixpoint d_constr (fuel : nat) (x : sx) : constr :=
  match fuel with
  | O => CId []
  | S fuel' =>
      let n k := sx_nth k x in
      let t := sx_Z (n 0%nat) in
      if t =? 0 then CId (d_str (n 1%nat))
      else if t =? 1 then CAnnotation (d_str (n 1%nat)) (d_qual (n 2%nat)) (d_depth (n 3%nat)) (d_offset (n 4%nat))
      else if t =? 2 then CResource (d_str (n 1%nat)) (d_qual (n 2%nat)) (d_offset (n 3%nat))
      else if t =? 3 then CDataSet (d_str (n 1%nat)) (d_qual (n 2%nat))
      else if t =? 4 then CDataKey (d_str (n 1%nat)) (d_str (n 2%nat)) (d_qual (n 3%nat))
      else if t =? 5 then CSubStore (d_ostr (n 1%nat))
      else if t =? 6 then CKeyVar (d_str (n 1%nat)) (d_qual (n 2%nat))
      else if t =? 7 then CDataVar (d_str (n 1%nat)) (d_qual (n 2%nat))
      else if t =? 8 then CDataSetVar (d_str (n 1%nat)) (d_qual (n 2%nat))
      else if t =? 9 then CResourceVar (d_str (n 1%nat)) (d_qual (n 2%nat)) (d_offset (n 3%nat))
      else if t =? 10 then CTextVar (d_str (n 1%nat))
      else if t =? 11 then CSubStoreVar (d_str (n 1%nat))
      else if t =? 12 then CTextRel (d_str (n 1%nat)) (d_relkind (sx_Z (n 2%nat))) (sx_bool (n 3%nat))
      else if t =? 13 then CKeyValue (d_str (n 1%nat)) (d_str (n 2%nat)) (d_dataop (n 3%nat)) (d_qual (n 4%nat))
      else if t =? 14 then CValue (d_dataop (n 1%nat)) (d_qual (n 2%nat))
      else if t =? 15 then CKeyValueVar (d_str (n 1%nat)) (d_dataop (n 2%nat)) (d_qual (n 3%nat))
      else if t =? 16 then CText (d_str (n 1%nat)) (sx_bool (n 2%nat))
      else if t =? 17 then CRegex (d_str (n 1%nat))
      else if t =? 18 then
        CUnion (map (d_constr fuel') (sx_list (n 1%nat)))
      else if t =? 19 then CAnnotationVar (d_str (n 1%nat)) (d_qual (n 2%nat)) (d_depth (n 3%nat)) (d_offset (n 4%nat))
      else CLimit (d_big (n 1%nat)) (d_big (n 2%nat))
  end.

Definition d_qtype (x : sx) : qtype := if sx_Z x =? 0 then QSelect else if sx_Z x =? 1 then QDelete else QAdd.
Definition d_rtype (x : sx) : option rtype :=
  let t := sx_Z x in
  if t =? 0 then Some RAnnotation else if t =? 1 then Some RData else if t =? 2 then Some RKey
  else if t =? 3 then Some RText else if t =? 4 then Some RResource else if t =? 5 then Some RDataSet
  else None.

(* programmatic queries have no assignments and no attributes; with_constraint() records an empty
   attribute list per constraint *)
Fixpoint d_query (fuel : nat) (x : sx) : query :=
  match fuel with
  | O => Q None QSelect false None [] [] [] [] []
  | S fuel' =>
      let n k := sx_nth k x in
      let cs := map (d_constr 40) (sx_list (n 5%nat)) in
      Q (d_ostr (n 0%nat)) (d_qtype (n 1%nat)) (sx_bool (n 2%nat)) (d_rtype (n 3%nat)) []
        cs (map (fun _ => []) cs)
        (map (d_query fuel') (sx_list (n 7%nat)))
        []
  end.
