(* "Asking an annotation for its targets", by kind: the convenience lookups of
   src/api/annotation.rs (resources, resources_as_metadata, datasets, data_as_metadata,
   keys_as_metadata, annotations_in_targets).  All but datasets() and annotations_in_targets(One)
   walk the target with SelectorIter in recursive mode: an annotation selector is followed into
   the target of the annotation it names (also when it was merged into an internal range). *)
From Coq Require Import List Arith Bool.
Import ListNotations.
From Stam Require Import Model.Offset Model.Store Model.StoreObs.

(* SelectorIter with recurse_annotation = true, in iteration order; fuel = nesting depth allowed *)
Fixpoint rec_leaves (fuel : nat) (s : store) (l : list leaf) : list leaf :=
  match fuel with
  | 0 => l
  | S f =>
      flat_map (fun lf => lf :: match lf with
                                | LAnn a | LAnnText a _ _ _ =>
                                    match get_ann s a with Some an => rec_leaves f s (a_leaves an) | None => [] end
                                | _ => []
                                end) l
  end.

(* BTreeSet of pairs: sorted, duplicate-free *)
Definition pair_ltb (p q : nat * nat) : bool :=
  (fst p <? fst q) || ((fst p =? fst q) && (snd p <? snd q)).
Fixpoint ins_pair (x : nat * nat) (l : list (nat * nat)) : list (nat * nat) :=
  match l with
  | [] => [x]
  | y :: l' => if pair_ltb x y then x :: l else if pair_eqb x y then l else y :: ins_pair x l'
  end.
Definition sort_dedup_pairs (l : list (nat * nat)) : list (nat * nat) := fold_right ins_pair [] l.

(* TargetIter's history: first occurrences only, order kept *)
Fixpoint first_occ (seen l : list nat) : list nat :=
  match l with
  | [] => []
  | x :: l' => if existsb (Nat.eqb x) seen then first_occ seen l' else x :: first_occ (x :: seen) l'
  end.

Definition live_res (s : store) (r : nat) : bool := match get_res s r with Some _ => true | None => false end.
Definition live_set (s : store) (d : nat) : bool := match get_set s d with Some _ => true | None => false end.
Definition live_data (s : store) (dx : nat * nat) : bool :=
  match get_set s (fst dx) with Some ds => match slot (d_data ds) (snd dx) with Some _ => true | None => false end | None => false end.
Definition live_key (s : store) (dk : nat * nat) : bool :=
  match get_set s (fst dk) with Some ds => match slot (d_keys ds) (snd dk) with Some _ => true | None => false end | None => false end.

Section Fwd.
Variables (s : store) (a : ann).
Definition all_leaves : list leaf := rec_leaves (length (anns s)) s (a_leaves a).

Definition fw_resources : list nat :=
  filter (live_res s) (sort_dedup (flat_map (fun lf => match lf with LText r _ _ => [r] | _ => [] end) all_leaves)).
Definition fw_resources_meta : list nat :=
  filter (live_res s) (sort_dedup (flat_map (fun lf => match lf with LRes r => [r] | _ => [] end) all_leaves)).
Definition fw_datasets : list nat :=
  filter (live_set s) (sort_dedup (flat_map (fun lf => match lf with LSet d => [d] | _ => [] end) (a_leaves a))).
Definition fw_data_meta : list (nat * nat) :=
  filter (live_data s) (sort_dedup_pairs (flat_map (fun lf => match lf with LData d x => [(d, x)] | _ => [] end) all_leaves)).
Definition fw_keys_meta : list (nat * nat) :=
  filter (live_key s) (sort_dedup_pairs (flat_map (fun lf => match lf with LKey d k => [(d, k)] | _ => [] end) all_leaves)).
Definition ann_of (l : list leaf) : list nat :=
  flat_map (fun lf => match lf with LAnn x | LAnnText x _ _ _ => [x] | _ => [] end) l.
(* as a sorted list (the harness sorts): first occurrences = duplicate-free *)
Definition fw_targets_one : list nat := filter (live_ann s) (sort_dedup (first_occ [] (ann_of (a_leaves a)))).
Definition fw_targets_max : list nat := filter (live_ann s) (sort_dedup (first_occ [] (ann_of all_leaves))).
End Fwd.

(* the documented meaning, without the iterator: the annotations reachable from the target
   (closure under "targets"), and what their own selectors name *)
Fixpoint reach_anns (fuel : nat) (s : store) (l : list nat) : list nat :=
  match fuel with
  | 0 => l
  | S f => l ++ reach_anns f s (flat_map (fun x => match get_ann s x with Some an => ann_of (a_leaves an) | None => [] end) l)
  end.
Definition spec_leaves (s : store) (a : ann) : list leaf :=
  a_leaves a ++ flat_map (fun x => match get_ann s x with Some an => a_leaves an | None => [] end)
                         (reach_anns (length (anns s)) s (ann_of (a_leaves a))).
Section Spec.
Variables (s : store) (a : ann).
Definition sp_resources : list nat :=
  filter (live_res s) (sort_dedup (flat_map (fun lf => match lf with LText r _ _ => [r] | _ => [] end) (spec_leaves s a))).
Definition sp_resources_meta : list nat :=
  filter (live_res s) (sort_dedup (flat_map (fun lf => match lf with LRes r => [r] | _ => [] end) (spec_leaves s a))).
Definition sp_data_meta : list (nat * nat) :=
  filter (live_data s) (sort_dedup_pairs (flat_map (fun lf => match lf with LData d x => [(d, x)] | _ => [] end) (spec_leaves s a))).
Definition sp_keys_meta : list (nat * nat) :=
  filter (live_key s) (sort_dedup_pairs (flat_map (fun lf => match lf with LKey d k => [(d, k)] | _ => [] end) (spec_leaves s a))).
Definition sp_targets_max : list nat :=
  filter (live_ann s) (sort_dedup (reach_anns (length (anns s)) s (ann_of (a_leaves a)))).
End Spec.
