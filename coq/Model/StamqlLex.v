(* Model of the lexical layer of the STAMQL parser (src/api/query.rs):
     get_arg, get_arg_type, Query::parse_attributes, Query::parse_name /
     Assignment::parse_name, Constraint::closed / Assignment::closed,
     the integer conversions (str::parse::<isize>, usize::from_str_radix,
     Cursor::try_from(&str)), the shape test of str::parse::<f64>, and the
     string primitives of Rust std the parser uses (trim, trim_start,
     split(QUERYSPLITCHARS).next(), find(QUERYSPLITCHARS), starts_with,
     byte slicing).

   A string is the list of its scalar values (list N).  Rust slices strings
   by BYTE index: a slice [k..] is written [slice_from k s] and is [Panic]
   when k is beyond the string or inside a multi-byte character.  Slices taken
   at an index produced by char_indices() (get_arg) or find() are on a
   boundary by construction and are written with list operations.
   Definitions only; proofs are in Proofs/StamqlLex.v. *)
From Coq Require Import Ascii String.
From Coq Require Import List ZArith NArith Bool Arith.
Import ListNotations.

Definition str := list N.

(* ---------- outcomes ---------- *)
Inductive outcome (A : Type) : Type :=
| Ok (a : A)
| Err            (* StamError (QuerySyntaxError, RegexError ...) *)
| Panic          (* panic!, expect, unwrap, unreachable!, slice out of range / off a boundary *)
| Fuel.          (* model artefact: recursion budget exhausted (proved unreachable) *)
Arguments Ok {A} a.
Arguments Err {A}.
Arguments Panic {A}.
Arguments Fuel {A}.

Definition bind {A B : Type} (o : outcome A) (f : A -> outcome B) : outcome B :=
  match o with
  | Ok a => f a
  | Err => Err
  | Panic => Panic
  | Fuel => Fuel
  end.

Declare Scope stamql_scope.
Notation "'do' x <- o ; k" := (bind o (fun x => k))
  (at level 200, x pattern, o at level 100, k at level 200, right associativity) : stamql_scope.
Local Open Scope stamql_scope.

(* ---------- literals ---------- *)
Definition lit (s : String.string) : str := map (fun a => N_of_ascii a) (String.list_ascii_of_string s).
(* a literal computed when the definition is checked: the executable model contains lists of numbers only *)
Notation "'LIT' s" := (ltac:(let v := eval compute in (lit s) in exact v)) (at level 0, s at level 0, only parsing).

Definition c_space : N := 32.
Definition c_nl : N := 10.
Definition c_cr : N := 13.
Definition c_tab : N := 9.
Definition c_dquote : N := 34.
Definition c_backslash : N := 92.
Definition c_semicolon : N := 59.
Definition c_rbracket : N := 93.
Definition c_lbracket : N := 91.
Definition c_lbrace : N := 123.
Definition c_rbrace : N := 125.
Definition c_pipe : N := 124.
Definition c_at : N := 64.
Definition c_qmark : N := 63.
Definition c_minus : N := 45.
Definition c_plus : N := 43.
Definition c_period : N := 46.

(* ---------- UTF-8 byte view ---------- *)
Definition clen (c : N) : nat :=
  if (c <? 128)%N then 1 else if (c <? 2048)%N then 2 else if (c <? 65536)%N then 3 else 4.

Definition blen (t : str) : nat := fold_right (fun c n => clen c + n) 0 t.

(* &s[k..] *)
Fixpoint drop_bytes (k : nat) (t : str) : option str :=
  match k, t with
  | 0, _ => Some t
  | _, [] => None
  | _, c :: t' => if clen c <=? k then drop_bytes (k - clen c) t' else None
  end.

Definition slice_from (k : nat) (t : str) : outcome str :=
  match drop_bytes k t with
  | Some r => Ok r
  | None => Panic
  end.

(* ---------- std string primitives ---------- *)
Fixpoint str_eqb (a b : str) : bool :=
  match a, b with
  | [], [] => true
  | x :: a', y :: b' => (x =? y)%N && str_eqb a' b'
  | _, _ => false
  end.

(* str::starts_with(&str): byte prefix = scalar-value prefix (UTF-8 is prefix-free) *)
Fixpoint starts_with (p s : str) : bool :=
  match p, s with
  | [], _ => true
  | x :: p', y :: s' => (x =? y)%N && starts_with p' s'
  | _ :: _, [] => false
  end.

(* char::is_whitespace (Unicode White_Space) *)
Definition is_ws (c : N) : bool :=
  ((9 <=? c) && (c <=? 13) || (c =? 32) || (c =? 133) || (c =? 160) || (c =? 5760)
   || ((8192 <=? c) && (c <=? 8202)) || (c =? 8232) || (c =? 8233) || (c =? 8239)
   || (c =? 8287) || (c =? 12288))%N.

Fixpoint trim_start (s : str) : str :=
  match s with
  | c :: s' => if is_ws c then trim_start s' else s
  | [] => []
  end.

Definition trim_end (s : str) : str := rev (trim_start (rev s)).
Definition trim (s : str) : str := trim_end (trim_start s).

(* QUERYSPLITCHARS = [' ', '\n', '\r', '\t'] *)
Definition is_split (c : N) : bool :=
  ((c =? c_space) || (c =? c_nl) || (c =? c_cr) || (c =? c_tab))%N.

(* s.split(QUERYSPLITCHARS).next(): always Some (the empty string yields "") *)
Fixpoint split_first (s : str) : str :=
  match s with
  | [] => []
  | c :: s' => if is_split c then [] else c :: split_first s'
  end.

(* s.find(QUERYSPLITCHARS) as a scalar-value index *)
Fixpoint find_split (s : str) : option nat :=
  match s with
  | [] => None
  | c :: s' => if is_split c then Some 0 else option_map S (find_split s')
  end.

(* s.trim_end_matches(';') *)
Fixpoint trim_start_semis (s : str) : str :=
  match s with
  | c :: s' => if (c =? c_semicolon)%N then trim_start_semis s' else s
  | [] => []
  end.
Definition trim_end_semis (s : str) : str := rev (trim_start_semis (rev s)).

(* s.trim_start().chars().nth(0) *)
Definition first_nonspace (s : str) : option N := hd_error (trim_start s).
Definition first_is (c : N) (o : option N) : bool :=
  match o with Some x => (x =? c)%N | None => false end.

(* s.split("|") : at least one piece *)
Fixpoint split_pipe_aux (cur : str) (s : str) : list str :=
  match s with
  | [] => [rev cur]
  | c :: s' => if (c =? c_pipe)%N then rev cur :: split_pipe_aux [] s' else split_pipe_aux (c :: cur) s'
  end.
Definition split_pipe (s : str) : list str := split_pipe_aux [] s.

(* ---------- keywords ---------- *)
Definition K_SELECT := LIT "SELECT".
Definition K_ADD := LIT "ADD".
Definition K_DELETE := LIT "DELETE".
Definition K_OPTIONAL := LIT "OPTIONAL".
Definition K_WHERE := LIT "WHERE".
Definition K_WITH := LIT "WITH".
Definition K_ANNOTATION := LIT "ANNOTATION".
Definition K_annotation := LIT "annotation".
Definition K_DATA := LIT "DATA".
Definition K_data := LIT "data".
Definition K_KEY := LIT "KEY".
Definition K_key := LIT "key".
Definition K_TEXT := LIT "TEXT".
Definition K_text := LIT "text".
Definition K_RESOURCE := LIT "RESOURCE".
Definition K_resource := LIT "resource".
Definition K_DATASET := LIT "DATASET".
Definition K_dataset := LIT "dataset".
Definition K_ID := LIT "ID".
Definition K_RELATION := LIT "RELATION".
Definition K_VALUE := LIT "VALUE".
Definition K_SUBSTORE := LIT "SUBSTORE".
Definition K_LIMIT := LIT "LIMIT".
Definition K_LBRACKET := LIT "[".
Definition K_RBRACKET := LIT "]".
Definition K_LBRACE := LIT "{".
Definition K_SEMI := LIT ";".
Definition K_OR_ := LIT "OR ".
Definition K__OR_ := LIT " OR ".
Definition K_QMARK := LIT "?".
Definition K_AS := LIT "AS".
Definition K_TARGET := LIT "TARGET".
Definition K_METADATA := LIT "METADATA".
Definition K_RECURSIVE := LIT "RECURSIVE".
Definition K_REGEX := LIT "REGEX".
Definition K_REGEXP := LIT "REGEXP".
Definition K_NOCASE := LIT "NOCASE".
Definition K_OFFSET := LIT "OFFSET".
Definition K_WHOLE := LIT "WHOLE".
Definition K_ALL := LIT "ALL".
Definition K_NONE := LIT "NONE".
Definition K_COMPOSITE := LIT "COMPOSITE".
Definition K_MULTI := LIT "MULTI".
Definition K_DIRECTIONAL := LIT "DIRECTIONAL".
Definition K_null := LIT "null".
Definition K_any := LIT "any".
Definition K_true := LIT "true".
Definition K_false := LIT "false".
Definition K_EQ := LIT "=".
Definition K_NE := LIT "!=".
Definition K_GT := LIT ">".
Definition K_GE := LIT ">=".
Definition K_LT := LIT "<".
Definition K_LE := LIT "<=".
Definition K_inf := LIT "INF".
Definition K_infinity := LIT "INFINITY".
Definition K_nan := LIT "NAN".

(* ---------- closed() (identical in Constraint and Assignment) ---------- *)
Definition closed (s : str) : bool :=
  match s with [] => true | _ => false end
  || starts_with K_SEMI s || starts_with K_OR_ s || starts_with K_RBRACKET s.

(* ---------- numbers ---------- *)
Definition is_digit (c : N) : bool := ((48 <=? c) && (c <=? 57))%N.

(* value of a non-empty all-digit string *)
Fixpoint digits_val (acc : Z) (s : str) : option Z :=
  match s with
  | [] => Some acc
  | c :: s' => if is_digit c then digits_val (acc * 10 + Z.of_N (c - 48))%Z s' else None
  end.
Definition digits_nonempty (s : str) : option Z :=
  match s with [] => None | _ => digits_val 0%Z s end.

Definition isize_min : Z := (- 9223372036854775808)%Z.
Definition isize_max : Z := 9223372036854775807%Z.
Definition usize_max : Z := 18446744073709551615%Z.

(* str::parse::<isize>() / isize::from_str_radix(_, 10): optional sign, digits, range check *)
Definition parse_isize (s : str) : option Z :=
  match s with
  | [] => None
  | c :: s' =>
      let '(neg, ds) := if (c =? c_minus)%N then (true, s') else if (c =? c_plus)%N then (false, s') else (false, s) in
      match digits_nonempty ds with
      | Some v => let z := if neg then (- v)%Z else v in
                  if ((isize_min <=? z) && (z <=? isize_max))%Z then Some z else None
      | None => None
      end
  end.

(* usize::from_str_radix(_, 10): optional '+', digits, range check; '-' is an invalid digit *)
Definition parse_usize (s : str) : option Z :=
  match s with
  | [] => None
  | c :: s' =>
      let ds := if (c =? c_plus)%N then s' else s in
      match digits_nonempty ds with
      | Some v => if (v <=? usize_max)%Z then Some v else None
      | None => None
      end
  end.

(* the SHAPE accepted by str::parse::<f64>() (core::num::dec2flt): the value is not modelled *)
Fixpoint skip_digits (s : str) : nat * str :=
  match s with
  | c :: s' => if is_digit c then let '(n, r) := skip_digits s' in (S n, r) else (0, s)
  | [] => (0, [])
  end.

Definition upper (c : N) : N := if ((97 <=? c) && (c <=? 122))%N then (c - 32)%N else c.

Definition is_inf_nan (s : str) : bool :=
  let u := map upper s in
  str_eqb u K_inf || str_eqb u K_infinity || str_eqb u K_nan.

Definition is_dec_float (s : str) : bool :=
  let '(n1, r1) := skip_digits s in
  let '(n2, r2) := match r1 with
                   | c :: r => if (c =? c_period)%N then skip_digits r else (0, r1)
                   | [] => (0, r1)
                   end in
  if (n1 + n2 =? 0) then false else
  match r2 with
  | [] => true
  | c :: r =>
      if ((c =? 101) || (c =? 69))%N then
        let r' := match r with
                  | d :: r0 => if ((d =? c_minus) || (d =? c_plus))%N then r0 else r
                  | [] => r
                  end in
        let '(n3, r3) := skip_digits r' in
        negb (n3 =? 0) && match r3 with [] => true | _ => false end
      else false
  end.

Definition is_f64 (s : str) : bool :=
  match s with
  | [] => false
  | c :: s' =>
      let body := if ((c =? c_minus) || (c =? c_plus))%N then s' else s in
      match body with
      | [] => false
      | _ => is_dec_float body || is_inf_nan body
      end
  end.

(* ---------- argument types ---------- *)
Inductive argtype := TString | TInteger | TFloat | TUnquotedList | TList | TNull | TBool | TDatetime | TAny.

Section Lex.
  (* chrono::DateTime::parse_from_rfc3339: Some canonical form (to_rfc3339) when the string is a datetime *)
  Variable dt_parse : str -> option str.

  (* the for loop of get_arg_type; None = ran to the end, Some t = early return *)
  Fixpoint gat_loop (quoted numeric foundperiod : bool) (prevc : option N) (s : str)
    : (option argtype) * bool * bool :=
    match s with
    | [] => (None, numeric, foundperiod)
    | c :: s' =>
        if (c =? c_pipe)%N && negb (match prevc with Some p => (p =? c_backslash)%N | None => false end)
        then (Some (if quoted then TList else TUnquotedList), numeric, foundperiod)
        else
          let numeric1 :=
            if negb (is_digit c)
            then (if negb (c =? c_minus)%N || (match prevc with Some _ => true | None => false end)
                  then false else numeric)
            else numeric in
          let '(numeric2, foundperiod2) :=
            if numeric1 && (c =? c_period)%N
            then ((if foundperiod then false else numeric1), true)
            else (numeric1, foundperiod) in
          gat_loop quoted numeric2 foundperiod2 (Some c) s'
    end.

  Definition get_arg_type (s : str) (quoted : bool) : argtype :=
    match s with
    | [] => TString
    | _ =>
        match gat_loop quoted (negb quoted) false None s with
        | (Some t, _, _) => t
        | (None, numeric, foundperiod) =>
            if numeric then (if foundperiod then TFloat else TInteger)
            else if str_eqb s K_null then TNull
            else if str_eqb s K_any then TAny
            else if str_eqb s K_true || str_eqb s K_false then TBool
            else match dt_parse s with Some _ => TDatetime | None => TString end
        end
    end.

  Definition is_term (c : N) : bool :=
    ((c =? c_semicolon) || (c =? c_space) || (c =? c_rbracket) || (c =? c_nl) || (c =? c_tab))%N.

  (* the char_indices() loop of get_arg.  all_rev = querystring[0..i] reversed,
     q_rev = querystring[begin..i] reversed *)
  Fixpoint get_arg_loop (quote escaped : bool) (all_rev q_rev : str) (s : str)
    : outcome (str * str * argtype) :=
    match s with
    | [] => Err
    | c :: s' =>
        if (c =? c_dquote)%N && negb escaped then
          if quote
          then let a := rev q_rev in Ok (a, trim_start s', get_arg_type a true)
          else get_arg_loop true false (c :: all_rev) [] s'
        else if negb quote && starts_with K__OR_ s then
          let a := rev all_rev in Ok (a, trim_start s', get_arg_type a false)
        else if negb quote && is_term c then
          let a := rev all_rev in Ok (a, trim_start s, get_arg_type a false)
        else get_arg_loop quote (c =? c_backslash)%N (c :: all_rev) (c :: q_rev) s'
    end.

  Definition get_arg (s : str) : outcome (str * str * argtype) :=
    get_arg_loop false false [] [] s.
End Lex.

(* ---------- parse_name (Query and Assignment: identical) ---------- *)
Definition parse_name (s : str) : outcome (option str * str) :=
  match s with
  | c :: _ =>
      if (c =? c_qmark)%N then
        do r <- slice_from 1 s;
        let name := trim_end_semis (split_first r) in
        do rest <- slice_from (1 + blen name) s;
        Ok (Some name, trim_start rest)
      else Ok (None, s)
  | [] => Ok (None, s)
  end.

(* ---------- parse_attributes ---------- *)
Fixpoint parse_attributes_loop (n : nat) (acc : list str) (s : str) : outcome (list str * str) :=
  match s with
  | c :: _ =>
      if (c =? c_at)%N then
        match n with
        | 0 => Fuel
        | S n' =>
            match find_split s with
            | Some e => parse_attributes_loop n' (acc ++ [firstn e s]) (trim (skipn e s))
            | None => Err
            end
        end
      else Ok (acc, s)
  | [] => Ok (acc, s)
  end.

Definition parse_attributes (s : str) : outcome (list str * str) :=
  parse_attributes_loop (S (length s)) [] (trim s).

(* ---------- Cursor::try_from(&str) ---------- *)
Inductive cursor := CB (n : Z) | CE (z : Z).

Definition cursor_of_str (s : str) : option cursor :=
  if starts_with [c_minus] s then
    match parse_isize s with
    | Some z => if (0 <? z)%Z then None else Some (CE z)
    | None => None
    end
  else
    match parse_usize s with
    | Some n => Some (CB n)
    | None => None
    end.

(* ---------- printing of integers ---------- *)
Fixpoint digits_of_pos_fuel (fuel : nat) (z : Z) (acc : str) : str :=
  match fuel with
  | 0 => acc
  | S f => if (z <? 10)%Z then (Z.to_N z + 48)%N :: acc
           else digits_of_pos_fuel f (z / 10)%Z ((Z.to_N (z mod 10) + 48)%N :: acc)
  end.
Definition print_nat_Z (z : Z) : str := digits_of_pos_fuel 80 z [].
Definition print_Z (z : Z) : str :=
  if (z <? 0)%Z then c_minus :: print_nat_Z (- z) else print_nat_Z z.

Definition print_cursor (c : cursor) : str :=
  match c with
  | CE 0%Z => [c_minus; 48%N]
  | CB n => print_Z n
  | CE z => print_Z z
  end.
