(* Model of the compaction of a store (AnnotationStore::reindex, src/annotationstore.rs;
   ReindexStore::{gaps, reindex} and IdMap::reindex in src/store.rs; Handle::reindex in
   src/types.rs) and of strip_annotation_ids / strip_data_ids, as far as public ids go. *)
From Coq Require Import List Arith Bool ZArith.
Import ListNotations.
From Stam Require Import Model.Offset Model.Store.

(* gaps(): for every live item that follows removed slots, (its handle, -number of slots) *)
Fixpoint gaps_from {X} (l : list (option X)) (h : nat) (gap : nat) : list (nat * nat) :=
  match l with
  | [] => []
  | None :: l' => gaps_from l' (S h) (S gap)
  | Some _ :: l' => if Nat.eqb gap 0 then gaps_from l' (S h) 0 else (h, gap) :: gaps_from l' (S h) 0
  end.
Definition gaps {X} (l : list (option X)) : list (nat * nat) := gaps_from l 0 0.

(* Handle::reindex: subtract every gap registered at or before the handle (gaps are ascending) *)
Fixpoint reindex_handle (g : list (nat * nat)) (h : nat) : nat :=
  match g with
  | [] => h
  | (gh, d) :: g' => if gh <=? h then reindex_handle g' h - d else h
  end.
(* the subtraction of the deltas happens on the running total in the code; the model
   subtracts from the result of the remaining gaps, which is the same sum *)

Definition compact {X} (l : list (option X)) : list (option X) :=
  filter (fun x => match x with Some _ => true | None => false end) l.
(* ReindexStore::reindex: nothing happens when there is no gap followed by an item
   (removed slots at the very end stay) *)
Definition reindex_store {X} (l : list (option X)) : list (option X) :=
  match gaps l with [] => l | _ => compact l end.

Definition reindex_idmap (g : list (nat * nat)) (m : idmap) : idmap :=
  map (fun p => (fst p, reindex_handle g (snd p))) m.

(* what reindex() does to the three top-level stores and their id maps; the relation maps
   and the references inside the items are outside this model *)
Definition reindex_ids (s : store) : store :=
  let ga := gaps (anns s) in let gr := gaps (ress s) in let gs := gaps (sets s) in
  mkstore (reindex_store (anns s)) (reindex_store (sets s)) (reindex_store (ress s))
          (reindex_idmap ga (aidx s)) (reindex_idmap gs (sidx s)) (reindex_idmap gr (ridx s))
          (ddam s) (trm s) (kamm s) (damm s) (ramm s) (samm s) (aam s).

Definition strip_annotation_ids (s : store) : store :=
  set_aidx (set_anns s (map (option_map (fun a => mkann None (a_data a) (a_kind a) (a_leaves a))) (anns s))) [].

Definition strip_data_ids (s : store) : store :=
  set_sets s (map (option_map (fun d => mkset (d_id d) (d_keys d)
                                          (map (option_map (fun x => mkdata None (x_key x) (x_val x))) (d_data d))
                                          (d_kidx d) [] (d_k2x d))) (sets s)).
